package main

import (
	"fmt"
	"os"
	"strings"

	"ottoverif/h"
)

// ---------------------------------------------------------------- program generator for trace requests

type level struct {
	via, form, name string
	off             int
	pre             []string
	args            string // argument list of the call expression making this activation (token, "" = none)
	file            int    // file the activation's code is in (0 = the program, 1 = the pre-statement eval source "1", 2.. = eval-level sources)
	head            string
}

// (level.head: kind of token the call-site offset must point at: id, new, arr, str, obj, num, this; "" = unchecked)

type progGen struct {
	r      *h.Rng
	bufs   []*strings.Builder // stack of sources being written: the program, then nested eval sources
	cur    []int              // file index of each buffer on the stack
	files  []string           // finished sources by file index
	exotic bool               // padding may contain lone CR, LS, PS
	n      int                // fresh-name counter
}

func (g *progGen) top() *strings.Builder { return g.bufs[len(g.bufs)-1] }
func (g *progGen) curFile() int          { return g.cur[len(g.cur)-1] }
func (g *progGen) idx() int              { return g.top().Len() + 1 } // file.Idx of the next byte written (base 1)
func (g *progGen) w(s string)            { g.top().WriteString(s) }

// pushFile starts a new (eval) source and returns its file index.
func (g *progGen) pushFile() int {
	k := len(g.files)
	g.files = append(g.files, "")
	g.bufs = append(g.bufs, &strings.Builder{})
	g.cur = append(g.cur, k)
	return k
}

// popFile finishes the innermost source and returns its text.
func (g *progGen) popFile() string {
	src := g.top().String()
	g.files[g.curFile()] = src
	g.bufs = g.bufs[:len(g.bufs)-1]
	g.cur = g.cur[:len(g.cur)-1]
	return src
}

var plainPads = []string{" ", "  ", "\n", "\n  ", "\t", " \n\n ", "\r\n", "\r\n\t", "/* c */ ", "// c\n", "/* é世 */", "/*\n*/"}
var exoticPads = []string{"\r", "\u2028", "\u2029", "\r\r", "\n\r", "/*\r*/", "// c\u2028", " \r ", "\u2029 \u2028", "\r \n", "/*\u2028*/ "}

func (g *progGen) pad() {
	n := g.r.Intn(4)
	for i := 0; i < n; i++ {
		if g.exotic && g.r.Chance(45) {
			g.w(exoticPads[g.r.Intn(len(exoticPads))])
		} else {
			g.w(plainPads[g.r.Intn(len(plainPads))])
		}
	}
	if n == 0 {
		g.w(" ")
	}
}

func (g *progGen) fresh(p string) string {
	g.n++
	return fmt.Sprintf("%s%d", p, g.n)
}

var argLits = []string{"1", "\"s\"", "nf", "nobj.p", "[1, 2]", "null", "function(){}", "-1"}

// arg writes one argument expression and returns its token (see Driver.lean: l | c.<form>.<off>(…) | e.<off>.)
func (g *progGen) arg(depth int, allowEval bool) string {
	k := g.r.Intn(100)
	switch {
	case depth >= 3 || k < 30:
		g.w(argLits[g.r.Intn(len(argLits))])
		return "l"
	case k < 52:
		o := g.idx()
		g.w("idf")
		return fmt.Sprintf("c.id.%d", o) + g.argList(depth+1, allowEval)
	case k < 64:
		o := g.idx()
		g.w("Math.abs")
		return fmt.Sprintf("c.dot.%d", o) + g.argList(depth+1, allowEval)
	case k < 71:
		o := g.idx()
		g.w("Math[\"abs\"]")
		return fmt.Sprintf("c.brk.%d", o) + g.argList(depth+1, allowEval)
	case k < 78:
		if !allowEval { // an unrecorded callee in an argument is harmless for the trace, but keep the proved stream plain
			g.w("2")
			return "l"
		}
		g.w("(")
		o := g.idx()
		g.w("function(x){ return x; })")
		return fmt.Sprintf("c.oth.%d", o) + g.argList(depth+1, allowEval)
	case k < 92:
		g.w("new ")
		o := g.idx()
		g.w("K0")
		return fmt.Sprintf("c.id.%d", o) + g.argList(depth+1, allowEval)
	default:
		if !allowEval {
			g.w("3")
			return "l"
		}
		o := g.idx()
		g.w("eval(\"1\")")
		return fmt.Sprintf("e.%d.", o)
	}
}

// argList writes "(" args ")" and returns the token "(…)". Padding only after "(" and "," (see the peek() note).
func (g *progGen) argList(depth int, allowEval bool) string {
	g.w("(")
	n := g.r.Intn(4)
	if depth == 0 && n == 0 && g.r.Chance(60) {
		n = 1 + g.r.Intn(2)
	}
	tok := "("
	for i := 0; i < n; i++ {
		if i > 0 {
			g.w(",")
		}
		g.pad()
		tok += g.arg(depth, allowEval)
	}
	g.w(")")
	return tok + ")"
}

// extraArgs writes ", arg" zero to two times after arguments already written.
func (g *progGen) extraArgs(allowEval bool) string {
	tok := ""
	for g.r.Chance(40) && len(tok) < 200 {
		g.w(",")
		g.pad()
		tok += g.arg(1, allowEval)
		if g.r.Bool() {
			break
		}
	}
	return tok
}

// callTail writes the argument list and ";" of the call that makes activation lv.
func (g *progGen) callTail(lv *level, allowEval bool) {
	lv.args = g.argList(0, allowEval)
	g.w(";")
}

// pre statements: completed statements in the current activation before its call site / raising construct
func (g *progGen) pres(allowEval bool) []string {
	var out []string
	for g.r.Chance(35) && len(out) < 3 {
		g.pad()
		switch k := g.r.Intn(14); {
		case k < 3:
			out = append(out, fmt.Sprintf("c:id:%d", g.idx()))
			g.w("nop();")
		case k < 5:
			out = append(out, fmt.Sprintf("c:dot:%d", g.idx()))
			g.w("Math.abs(1);")
		case k < 6:
			out = append(out, fmt.Sprintf("c:brk:%d", g.idx()))
			g.w("Math[\"abs\"](1);")
		case k < 8:
			if allowEval { // an unrecorded callee: kept out of the plain stream
				out = append(out, fmt.Sprintf("c:oth:%d", g.idx()))
				g.w("(function(){})();")
			} else {
				g.w("1;")
			}
		case k < 9:
			out = append(out, fmt.Sprintf("e:%d", g.idx()))
			g.w("eval(\"1\");")
		case k < 10:
			// a call that is left by an exception thrown from eval code in the callee; caught here
			g.w("try { ")
			out = append(out, fmt.Sprintf("c:id:%d", g.idx()))
			g.w("thr(); } catch (e) {}")
		default:
			// a direct eval whose code makes calls and then completes or throws; a throw is caught in THIS activation
			ev := evalSrcs[g.r.Intn(len(evalSrcs))]
			k := len(g.files)
			g.files = append(g.files, ev.src)
			var inner []string
			for _, o := range ev.calls {
				inner = append(inner, fmt.Sprint(o+1))
			}
			in := "-"
			if len(inner) > 0 {
				in = strings.Join(inner, ".")
			}
			if ev.throws {
				g.w("try {")
				g.pad()
				out = append(out, fmt.Sprintf("x:%d:%d:%s:t", g.idx(), k, in))
				g.w("eval(" + jsStr(ev.src) + "); } catch (e) {")
				if g.r.Bool() {
					g.w(" ee = e; ")
				}
				g.w("}")
			} else {
				out = append(out, fmt.Sprintf("x:%d:%d:%s:n", g.idx(), k, in))
				g.w("eval(" + jsStr(ev.src) + ");")
			}
		}
	}
	return out
}

// eval sources used as completed pre-statements: offsets of the calls they complete, and whether they throw at run time
var evalSrcs = []struct {
	src    string
	calls  []int
	throws bool
}{
	{"throw 1;", nil, true},
	{"zzz;", nil, true},
	{"null.p;", nil, true},
	{"idf(1); throw 2;", []int{0}, true},
	{"idf(1);\n  idf(2); zzz;", []int{0, 10}, true},
	{"\n\nnop(); nf();", []int{2}, true}, // nf is not a function: the error comes before its site is recorded
	{"new K0(); (function(){ throw new Error('x'); })();", []int{4, -2}, true},
	{"idf(1); 2;", []int{0}, false},
	{"var ezz = idf(idf(3));\nnop();", []int{14, 10, 23}, false},
}

type errSpec struct {
	kind string
}

// shape selects which level forms may be used
type shape struct {
	recordedOnly bool // only identifier/dot/bracket callees, no implicit calls, no eval pre-statements
}

var cbNatives = []struct{ recv, name, extra string }{
	{"[1]", "forEach", ""}, {"[1]", "map", ""}, {"[1]", "filter", ""}, {"[1]", "some", ""}, {"[1]", "every", ""},
	{"[2,1]", "sort", ""}, {"[1,2]", "reduce", ""}, {"\"a\"", "replace", "/a/, "},
}

// body writes the body of activation i (0 = global code) and fills in levels[i:].
func (g *progGen) body(levels []*level, i int, sh shape, raise func(g *progGen)) {
	if i == len(levels) {
		raise(g)
		return
	}
	lv := levels[i]
	inner := func() { g.pad(); g.body(levels, i+1, sh, raise); g.pad() }
	fnx := func(name string, decl bool) { // a function literal/declaration whose body is the next activation
		g.w("function " + name + "(){")
		inner()
		g.w("}")
		if decl {
			g.w(";") // otto's lexer mis-handles "}" + lone CR + one char + LF (peek() off by one); keep ASI out of the picture
		}
	}
	fn := func(name string) { fnx(name, false) }
	fnDecl := func(name string) { fnx(name, true) }
	preStmts := func() { lv.pre = g.pres(!sh.recordedOnly); g.pad() }
	cf := g.curFile() // functions written here belong to the source currently being written
	if g.r.Chance(9) {
		// the next activation is eval code: direct (always a listed deviation) or indirect through `ev` (= eval)
		direct := !sh.recordedOnly && g.r.Bool()
		preStmts()
		off := g.idx()
		if direct {
			g.w("eval(")
		} else {
			g.w("ev(")
		}
		k := g.pushFile()
		inner()
		src := g.popFile()
		g.w(jsStr(src) + ");")
		if direct {
			*lv = level{"ed", "id", "", off, lv.pre, "", k, ""}
		} else {
			*lv = level{"ei", "id", "", off, lv.pre, "", k, ""}
		}
		return
	}
	if g.r.Chance(7) {
		// the next activation is a function made by the Function constructor: its code lives in a file of its own,
		// the wrapper text "(function(<params>) {\n<body>\n})" that the constructor parses
		fv := g.fresh("F")
		params := [][]string{nil, {"a"}, {"a", "b"}}[g.r.Intn(3)]
		g.w("var " + fv + " = ")
		if g.r.Bool() {
			g.w("new ")
		}
		made := fmt.Sprintf("c:id:%d", g.idx())
		g.w("Function(")
		for _, p := range params {
			g.w("\"" + p + "\", ")
		}
		k := g.pushFile()
		g.w("(function(" + strings.Join(params, ",") + ") {\n")
		start := g.top().Len()
		inner()
		bodyText := g.top().String()[start:]
		g.w("\n})")
		g.popFile()
		g.w(jsStr(bodyText) + ");")
		preStmts()
		lv.pre = append([]string{made}, lv.pre...)
		*lv = level{"d", "id", "", g.idx(), lv.pre, "", k, "id"}
		g.w(fv)
		g.callTail(lv, !sh.recordedOnly)
		return
	}
	if g.r.Chance(14) {
		// method call whose callee chain begins with something other than a plain identifier: the call site is the
		// first token of that head (`new`, `[`, `"`, `{`, the first operand of a parenthesised sequence, `this`, …)
		name := ""
		if g.r.Bool() {
			name = g.fresh("m")
		}
		m := g.fresh("q")
		acc := func() string { // dot or bracket access of the method
			if g.r.Bool() {
				lv.form = "dot"
				return "." + m
			}
			lv.form = "brk"
			return "[\"" + m + "\"]"
		}
		nw := func() { // the keyword `new`, sometimes with a line break before the constructor
			g.w("new")
			if g.r.Chance(30) {
				g.w("\n   ")
			} else {
				g.w(" ")
			}
		}
		var callee []string // calls completed while the callee expression is evaluated
		head := g.r.Intn(9)
		var off int
		var hd string
		switch head {
		case 0, 1: // new C().m()   /   (new C).m()
			c := g.fresh("C")
			g.w("function " + c + "(){ this." + m + " = ")
			fn(name)
			g.w("; };")
			preStmts()
			if head == 1 {
				g.w("(")
			}
			off, hd = g.idx(), "new"
			nw()
			callee = append(callee, fmt.Sprintf("c:id:%d", g.idx()))
			if head == 1 {
				g.w(c + ")")
			} else {
				g.w(c + "()")
			}
		case 2: // new (mk())().m()
			c, mk := g.fresh("C"), g.fresh("mk")
			g.w("function " + c + "(){ this." + m + " = ")
			fn(name)
			g.w("; }; function " + mk + "(){ return " + c + "; };")
			preStmts()
			off, hd = g.idx(), "new"
			nw()
			g.w("(")
			callee = append(callee, fmt.Sprintf("c:id:%d", g.idx()), "c:oth:0")
			g.w(mk + "())()")
		case 3: // [1].m()
			g.w("Array.prototype." + m + " = ")
			fn(name)
			g.w(";")
			preStmts()
			off, hd = g.idx(), "arr"
			g.w("[1, 2]")
		case 4: // "s".m()
			g.w("String.prototype." + m + " = ")
			fn(name)
			g.w(";")
			preStmts()
			off, hd = g.idx(), "str"
			g.w("\"s\"")
		case 5: // ({m: function(){…}}).m()
			preStmts()
			g.w("(")
			off, hd = g.idx(), "obj"
			g.w("{" + m + ": ")
			fn(name)
			g.w("})")
		case 6: // (0, o).m()
			o := g.fresh("o")
			g.w("var " + o + " = {" + m + ": ")
			fn(name)
			g.w("};")
			preStmts()
			g.w("(")
			off, hd = g.idx(), "num"
			g.w("0, " + o + ")")
		case 7: // mk().m()
			o, mk := g.fresh("o"), g.fresh("mk")
			g.w("var " + o + " = {" + m + ": ")
			fn(name)
			g.w("}; function " + mk + "(){ return " + o + "; };")
			preStmts()
			off, hd = g.idx(), "id"
			callee = append(callee, fmt.Sprintf("c:id:%d", off))
			g.w(mk + "()")
		default: // this.m()
			g.w("this." + m + " = ")
			fn(name)
			g.w(";")
			preStmts()
			off, hd = g.idx(), "this"
			g.w("this")
		}
		pre := append(lv.pre, callee...)
		*lv = level{"d", "dot", name, off, pre, "", cf, hd}
		g.w(acc())
		g.callTail(lv, !sh.recordedOnly)
		return
	}
	pick := g.r.Intn(100)
	if sh.recordedOnly {
		pick = g.r.Intn(70)
	}
	switch {
	case pick < 10: // declared function, identifier callee
		n := g.fresh("f")
		fnDecl(n)
		preStmts()
		*lv = level{"d", "id", n, g.idx(), lv.pre, "", cf, ""}
		g.w(n + "")
		g.callTail(lv, !sh.recordedOnly)
	case pick < 16: // anonymous function in a variable; sometimes parenthesised callee
		n := g.fresh("v")
		g.w("var " + n + " = ")
		fn("")
		g.w(";")
		preStmts()
		if g.r.Chance(30) {
			g.w("(")
			*lv = level{"d", "id", "", g.idx(), lv.pre, "", cf, ""}
			g.w(n + ")")
			g.callTail(lv, !sh.recordedOnly)
		} else {
			*lv = level{"d", "id", "", g.idx(), lv.pre, "", cf, ""}
			g.w(n + "")
			g.callTail(lv, !sh.recordedOnly)
		}
	case pick < 26: // method, dot / bracket callee; anonymous or named function expression
		o, name := g.fresh("o"), ""
		if g.r.Bool() {
			name = g.fresh("m")
		}
		g.w("var " + o + " = {m: ")
		fn(name)
		g.w("};")
		preStmts()
		if g.r.Bool() {
			*lv = level{"d", "dot", name, g.idx(), lv.pre, "", cf, ""}
			g.w(o + ".m")
			g.callTail(lv, !sh.recordedOnly)
		} else {
			*lv = level{"d", "brk", name, g.idx(), lv.pre, "", cf, ""}
			g.w(o + "[\"m\"]")
			g.callTail(lv, !sh.recordedOnly)
		}
	case pick < 36: // constructor
		n := g.fresh("C")
		fnDecl(n)
		preStmts()
		if g.r.Chance(70) {
			g.w("new ")
			*lv = level{"n", "id", n, g.idx(), lv.pre, "", cf, ""}
			g.w(n + "")
			g.callTail(lv, !sh.recordedOnly)
		} else {
			o := g.fresh("o")
			g.w("var " + o + " = {k: " + n + "};")
			g.pad()
			g.w("new ")
			if g.r.Bool() {
				*lv = level{"n", "dot", n, g.idx(), lv.pre, "", cf, ""}
				g.w(o + ".k")
				g.callTail(lv, !sh.recordedOnly)
			} else {
				*lv = level{"n", "brk", n, g.idx(), lv.pre, "", cf, ""}
				g.w(o + "[\"k\"]")
				g.callTail(lv, !sh.recordedOnly)
			}
		}
	case pick < 50: // callback through a built-in
		nat := cbNatives[g.r.Intn(len(cbNatives))]
		name := ""
		if g.r.Bool() {
			name = g.fresh("cb")
		}
		preStmts()
		form := "dot"
		*lv = level{"v:" + nat.name, form, name, g.idx(), lv.pre, "", cf, ""}
		g.w(nat.recv + "." + nat.name + "(" + nat.extra)
		fn(name)
		lead := "l"
		if nat.extra != "" {
			lead = "ll"
		}
		lv.args = "(" + lead + g.extraArgs(!sh.recordedOnly) + ")"
		g.w(");")
	case pick < 58: // Function.prototype.call / apply
		n := g.fresh("f")
		fnDecl(n)
		preStmts()
		m := "call"
		if g.r.Bool() {
			m = "apply"
		}
		*lv = level{"v:" + m, "dot", n, g.idx(), lv.pre, "", cf, ""}
		if m == "call" {
			g.w(n + ".call(null")
			lv.args = "(l" + g.extraArgs(!sh.recordedOnly) + ")"
			g.w(");")
		} else {
			g.w(n + ".apply(null, [")
			lv.args = "(l" + g.arg(1, !sh.recordedOnly) + ")"
			g.w("]);")
		}
	case pick < 64: // bound function
		n, bn := g.fresh("f"), g.fresh("b")
		fnDecl(n)
		g.w(" var " + bn + " = " + n + ".bind(null);")
		preStmts()
		*lv = level{"b", "id", n, g.idx(), lv.pre, "", cf, ""}
		g.w(bn + "")
		g.callTail(lv, !sh.recordedOnly)
	case pick < 70: // identifier callee that is a bound native: ap() = f.call() (bound passthrough into the native `call`, which calls f)
		n, ap := g.fresh("f"), g.fresh("ap")
		fnDecl(n)
		g.w(" var " + ap + " = " + n + ".call.bind(" + n + ");")
		preStmts()
		*lv = level{"v:call", "id", n, g.idx(), lv.pre, "", cf, ""}
		g.w(ap + "")
		g.callTail(lv, !sh.recordedOnly)
	case pick < 80: // immediately invoked function expression: callee is a function literal
		name := ""
		if g.r.Bool() {
			name = g.fresh("g")
		}
		preStmts()
		if g.r.Chance(25) {
			g.w("new ")
			g.w("(")
			*lv = level{"n", "oth", name, g.idx(), lv.pre, "", cf, ""}
			fn(name)
			g.w(")")
			g.callTail(lv, !sh.recordedOnly)
		} else {
			g.w("(")
			*lv = level{"d", "oth", name, g.idx(), lv.pre, "", cf, ""}
			fn(name)
			g.w(")")
			g.callTail(lv, !sh.recordedOnly)
		}
	case pick < 86: // call of a call result: mk()()
		mk := g.fresh("mk")
		g.w("function " + mk + "(){ return ")
		fn("")
		g.w("; };")
		preStmts()
		lv.pre = append(lv.pre, fmt.Sprintf("c:id:%d", g.idx()))
		*lv = level{"d", "oth", "", g.idx(), lv.pre, "", cf, ""}
		g.w(mk + "()")
		g.callTail(lv, !sh.recordedOnly)
	case pick < 90: // sequence-expression callee
		n := g.fresh("v")
		g.w("var " + n + " = ")
		fn("")
		g.w(";")
		preStmts()
		*lv = level{"d", "oth", "", g.idx(), lv.pre, "", cf, ""}
		g.w("(0, " + n + ")")
		g.callTail(lv, !sh.recordedOnly)
	default: // implicit calls: getter, toString, valueOf
		o := g.fresh("o")
		switch g.r.Intn(3) {
		case 0:
			g.w("var " + o + " = {get x(){")
			inner()
			g.w("}};")
			preStmts()
			*lv = level{"i", "oth", "", g.idx(), lv.pre, "", cf, ""}
			g.w(o + ".x;")
		case 1:
			g.w("var " + o + " = {toString: ")
			fn("")
			g.w("};")
			preStmts()
			*lv = level{"i", "oth", "", g.idx(), lv.pre, "", cf, ""}
			g.w("\"\" + " + o + ";")
		default:
			g.w("var " + o + " = {valueOf: ")
			fn("")
			g.w("};")
			preStmts()
			*lv = level{"i", "oth", "", g.idx(), lv.pre, "", cf, ""}
			g.w("+" + o + ";")
		}
	}
}

// raising constructs: each writes the construct and returns (extra innermost native level or nil, raise token)
type raiser func(g *progGen, sh shape) (*level, string)

// nativeRaise: a call of a built-in that raises; extra arguments are appended only where the built-in ignores them
func nativeRaise(recv, name, args string, form string) raiser {
	extraOK := name != "Array" && name != "stringify" && name != "Function"
	return func(g *progGen, sh shape) (*level, string) {
		extra := func() string {
			if !extraOK {
				return ""
			}
			return g.extraArgs(!sh.recordedOnly)
		}
		lv := &level{"N", form, name, g.idx(), nil, "", 0, ""}
		g.w(recv + "(")
		if g.r.Chance(45) {
			// the essential argument comes out of a call: recv(idf(args))
			g.pad()
			o := g.idx()
			g.w("idf(" + args + ")")
			lv.args = fmt.Sprintf("(c.id.%d(l)", o) + extra() + ")"
		} else {
			g.w(args)
			lv.args = "(l" + extra() + ")"
		}
		g.w(");")
		return lv, fmt.Sprintf("bare:%d", lv.off)
	}
}

var raisers = map[string][]raiser{
	"unresolvable": {
		func(g *progGen, sh shape) (*level, string) {
			o := g.idx()
			g.w("zzz;")
			return nil, fmt.Sprintf("at:%d", o)
		},
		func(g *progGen, sh shape) (*level, string) {
			o := g.idx()
			g.w("zzz();")
			return nil, fmt.Sprintf("at:%d", o)
		},
		func(g *progGen, sh shape) (*level, string) {
			g.w("1 + ")
			o := g.idx()
			g.w("zzz.p;")
			return nil, fmt.Sprintf("at:%d", o)
		},
	},
	"callNonFn": {
		func(g *progGen, sh shape) (*level, string) {
			heads := []struct {
				text, hd string
				skip     int
			}{{"new K0()", "new", 0}, {"new\n K0()", "new", 0}, {"[1]", "arr", 0}, {"\"s\"", "str", 0}, {"({})", "obj", 1}, {"this", "this", 0}, {"(new K0)", "new", 1}}
			h := heads[g.r.Intn(len(heads))]
			o := g.idx() + h.skip
			g.w(h.text + ".nope9();")
			return nil, fmt.Sprintf("nf:dot:%d:%s", o, h.hd)
		},
		func(g *progGen, sh shape) (*level, string) {
			o := g.idx()
			g.w("nf();")
			return nil, fmt.Sprintf("nf:id:%d", o)
		},
		func(g *progGen, sh shape) (*level, string) {
			o := g.idx()
			g.w("nobj.p();")
			return nil, fmt.Sprintf("nf:dot:%d", o)
		},
		func(g *progGen, sh shape) (*level, string) {
			o := g.idx()
			g.w("nobj[\"p\"]();")
			return nil, fmt.Sprintf("nf:brk:%d", o)
		},
		func(g *progGen, sh shape) (*level, string) {
			if sh.recordedOnly {
				o := g.idx()
				g.w("nf();")
				return nil, fmt.Sprintf("nf:id:%d", o)
			}
			o := g.idx()
			g.w("(0, nf)();")
			return nil, fmt.Sprintf("nf:oth:%d", o)
		},
	},
	"newNonFn": {
		func(g *progGen, sh shape) (*level, string) {
			g.w("new ")
			o := g.idx()
			g.w("nf();")
			return nil, fmt.Sprintf("nf:id:%d", o)
		},
		func(g *progGen, sh shape) (*level, string) {
			g.w("new ")
			o := g.idx()
			g.w("nobj.p();")
			return nil, fmt.Sprintf("nf:dot:%d", o)
		},
	},
	"memberUndefined": {
		func(g *progGen, sh shape) (*level, string) {
			heads := []struct {
				text, hd string
				skip     int
			}{{"new K0()", "new", 0}, {"new\n\n K0()", "new", 0}, {"[1]", "arr", 0}, {"\"s\"", "str", 0}, {"({})", "obj", 1}, {"this", "this", 0}}
			h := heads[g.r.Intn(len(heads))]
			o := g.idx() + h.skip
			if g.r.Bool() {
				g.w(h.text + ".ozz.p.q;")
			} else {
				g.w(h.text + "[\"ozz\"].p;")
			}
			return nil, fmt.Sprintf("at:%d:%s", o, h.hd)
		},
		func(g *progGen, sh shape) (*level, string) {
			o := g.idx()
			g.w("nu.p;")
			return nil, fmt.Sprintf("at:%d", o)
		},
		func(g *progGen, sh shape) (*level, string) {
			o := g.idx()
			g.w("nu[\"p\"];")
			return nil, fmt.Sprintf("at:%d", o)
		},
		func(g *progGen, sh shape) (*level, string) {
			o := g.idx()
			g.w("nu.p = 1;")
			return nil, fmt.Sprintf("at:%d", o)
		},
	},
	"memberNull": {
		func(g *progGen, sh shape) (*level, string) {
			o := g.idx()
			g.w("nn.p;")
			return nil, fmt.Sprintf("at:%d", o)
		},
		func(g *progGen, sh shape) (*level, string) {
			o := g.idx()
			g.w("null.p;")
			return nil, fmt.Sprintf("at:%d", o)
		},
		func(g *progGen, sh shape) (*level, string) {
			o := g.idx()
			g.w("nn[\"p\"];")
			return nil, fmt.Sprintf("at:%d", o)
		},
	},
	"arrayLenCtor": {
		func(g *progGen, sh shape) (*level, string) {
			g.w("new ")
			o := g.idx()
			g.w("Array(-1);")
			return nil, fmt.Sprintf("sb:id:%d", o)
		},
		nativeRaise("Array", "Array", "-1", "id"),
	},
	"arrayLenSet": {
		func(g *progGen, sh shape) (*level, string) {
			o := g.idx()
			g.w("arr.length = -1;")
			return nil, fmt.Sprintf("bare:%d", o)
		},
	},
	"radix":          {nativeRaise("nmb.toString", "toString", "99", "dot"), nativeRaise("nmb[\"toString\"]", "toString", "1", "brk")},
	"fixedPrecision": {nativeRaise("nmb.toFixed", "toFixed", "101", "dot")},
	"expPrecision":   {nativeRaise("nmb.toExponential", "toExponential", "101", "dot")},
	"precPrecision":  {nativeRaise("nmb.toPrecision", "toPrecision", "101", "dot")},
	"evalSyntax": {
		func(g *progGen, sh shape) (*level, string) {
			o := g.idx()
			g.w("eval(\"1 +\");")
			return nil, fmt.Sprintf("sb:id:%d", o)
		},
		nativeRaise("ev", "eval", "\"var\"", "id"),
	},
	"functionSyntax": {
		func(g *progGen, sh shape) (*level, string) {
			g.w("new ")
			o := g.idx()
			g.w("Function(\"a b\");")
			return nil, fmt.Sprintf("sb:id:%d", o)
		},
		nativeRaise("Function", "Function", "\"1 +\"", "id"),
	},
	"instanceofNonObj": {
		func(g *progGen, sh shape) (*level, string) {
			o := g.idx()
			g.w("1 instanceof 2;")
			return nil, fmt.Sprintf("bare:%d", o)
		},
	},
	"inNonObj": {
		func(g *progGen, sh shape) (*level, string) {
			o := g.idx()
			g.w("\"a\" in 1;")
			return nil, fmt.Sprintf("bare:%d", o)
		},
	},
	"frozenWrite":  {nativeRaise("Object.freeze([1]).push", "push", "2", "dot"), nativeRaise("Object.freeze([1, 2]).unshift", "unshift", "0", "dot")},
	"cyclicJSON":   {nativeRaise("JSON.stringify", "stringify", "cyc", "dot")},
	"uriMalformed": {nativeRaise("decodeURIComponent", "decodeURIComponent", "\"%\"", "id")},
}

// kinds whose raise needs no Dev region (an `at` is passed or the innermost activation is native)
var cleanKinds = []string{"unresolvable", "callNonFn", "newNonFn", "memberUndefined", "memberNull", "radix", "fixedPrecision",
	"expPrecision", "precPrecision", "evalSyntax", "functionSyntax", "cyclicJSON", "uriMalformed"}

func levelTok(lv *level) string {
	pre := "-"
	if len(lv.pre) > 0 {
		pre = strings.Join(lv.pre, "+")
	}
	return fmt.Sprintf("%s,%s,%s,%d,%s,%d,%s,%s", lv.via, lv.form, dash(lv.name), lv.off, pre, lv.file, dash(lv.args), dash(lv.head))
}

var fileNames = []string{"", "", "a.js", "lib/x.js", "t_1.js"}

// genTrace produces one trace request.
func genTrace(r *h.Rng, depth int, limit int, sh shape, exotic bool, kind string) string {
	g := &progGen{r: r, exotic: exotic, files: []string{"", "1"}}
	g.bufs = []*strings.Builder{{}}
	g.cur = []int{0}
	levels := make([]*level, depth)
	for i := range levels {
		levels[i] = &level{}
	}
	g.w("var nf = 1, nu, nn = null, nobj = {p: 1}, arr = [], nmb = 1, ev = eval, cyc = {}; cyc.c = cyc; function nop(){}; function idf(x){ return x; }; function K0(){}; function thr(){ eval(\"throw 1\"); };")
	g.pad()
	var extra *level
	var raiseTok string
	var finalPre []string
	g.body(levels, 0, sh, func(g *progGen) {
		finalPre = g.pres(!sh.recordedOnly)
		g.pad()
		rs := raisers[kind]
		extra, raiseTok = rs[g.r.Intn(len(rs))](g, sh)
	})
	g.pad()
	var toks []string
	for _, lv := range levels {
		toks = append(toks, levelTok(lv))
	}
	pre := "-"
	if extra != nil {
		// the pre statements belong to the activation that calls the raising native
		extra.pre = finalPre
		toks = append(toks, levelTok(extra))
	} else if len(finalPre) > 0 {
		pre = strings.Join(finalPre, "+")
	}
	lt := "-"
	if len(toks) > 0 {
		lt = strings.Join(toks, ";")
	}
	fname := fileNames[r.Intn(len(fileNames))]
	g.files[0] = g.top().String()
	var srcs []string
	for _, f := range g.files {
		srcs = append(srcs, hx(f))
	}
	return fmt.Sprintf("trace %d %s %s %s %s %s %s", limit, hx(fname), strings.Join(srcs, "/"), lt, pre, raiseTok, kind)
}

// ---------------------------------------------------------------- syntax-error programs

var synBad = []struct {
	text string
	at   int // offset of the offending token inside text; -1 = end of input
}{
	{"var 1", 4}, {"x = ;", 4}, {")", 0}, {"a b", 2}, {"if (", -1}, {"1 +", -1}, {"var x = \"s\" \"t\"", 12},
	{"function (){}", 9}, {"@", 0}, {"for (;;", -1}, {"x = {a: }", 8}, {"[1, 2", -1}, {"a.1", 1}, {"var if", 4},
	{"x = 3 4", 6}, {"do 1; while", -1}, {"a ? b", -1}, {"}", 0}, {"new", -1}, {"x = = 2", 4},
}

var synGood = []string{"x = 1;", "var y = \"s\";", "/* c\n c */", "// line\n", "function ok(){ return 1; };", "if (x) { y = 2; };", "z = [1,\n2];",
	"s = \"a\\\nb\";", "/*\r*/", "s = 'q\\\r\nr';", "w = /re/g;", ";", "/* \u2028 */", "t = \"é\";", "//\u2029", "u = 1;\n", "u = 2;\r", "u = 3;\u2028"}

func genSynErr(r *h.Rng) string {
	var b strings.Builder
	pad := func() {
		for n := r.Intn(4); n > 0; n-- {
			if r.Chance(50) {
				b.WriteString(exoticPads[r.Intn(len(exoticPads))])
			} else {
				b.WriteString(plainPads[r.Intn(len(plainPads))])
			}
		}
	}
	for n := r.Intn(5); n > 0; n-- {
		pad()
		b.WriteString(synGood[r.Intn(len(synGood))])
	}
	pad()
	bad := synBad[r.Intn(len(synBad))]
	start := b.Len()
	b.WriteString(bad.text)
	off := start + bad.at
	if bad.at < 0 {
		// trailing white space before the end of input is skipped by the scanner: the error is at the very end
		for n := r.Intn(3); n > 0; n-- {
			b.WriteString([]string{" ", "\n", "\r", "\u2028", "\t", "\r\n"}[r.Intn(6)])
		}
		off = b.Len()
	}
	return fmt.Sprintf("synerr %d %s", off, hx(b.String()))
}

// ---------------------------------------------------------------- Gen

var posAlphabet = []byte{'a', '\n', '\r', 0xE2, 0x80, 0xA8, 0xA9}
var posAlphabetWide = []byte{'a', ' ', '\n', '\r', 0xE2, 0x80, 0xA8, 0xA9, 0xC3, 0xF0, 0x9F, 0xBF, 0x0B, 0x85, 0xFF, 0x00}

var primLits = []struct{ lit, text string }{
	{"5", "5"}, {"-1.5", "-1.5"}, {"0", "0"}, {"NaN", "NaN"}, {"1/0", "Infinity"}, {"\"abc\"", "abc"}, {"\"\"", ""}, {"\"a: b\"", "a: b"},
	{"true", "true"}, {"false", "false"}, {"null", "null"}, {"undefined", "undefined"}, {"\"Error: x\"", "Error: x"}, {"1e21", "1e+21"},
}

var errCtors = []string{"Error", "EvalError", "RangeError", "ReferenceError", "SyntaxError", "TypeError", "URIError"}
var someStrs = []string{"", "x", "boo", "a: b", "Error", "TypeError", "m é", "with\nnewline", ": ", "0"}

// genLife builds one `life` request: k errors at known positions, kept alive, every trace read afterwards.
func genLife(r *h.Rng, mode string) string {
	var b strings.Builder
	limit := []int{10, 10, 0, 3, 5, 12, 2}[r.Intn(7)]
	k := 2 + r.Intn(4)
	if mode == "finally" {
		k = 2
	}
	nl := func() {
		for n := 1 + r.Intn(3); n > 0; n-- {
			b.WriteString("\n")
		}
		for n := r.Intn(4); n > 0; n-- {
			b.WriteString(" ")
		}
	}
	type sc struct{ levels, raise string }
	var scs []sc
	b.WriteString("var errs = []; function idf9(){ return qqq9; }")
	var starts []string // name of the outermost function of each chain ("" = depth 0)
	var levelToks [][]string
	for i := 1; i <= k; i++ {
		depth := r.Intn(5)
		if mode == "finally" || mode == "goerr" {
			depth = 1 + r.Intn(5)
		}
		engine := r.Bool() || mode == "finally" || mode == "goerr"
		var toks []string
		var raise string
		// innermost body
		body := func() {
			if mode == "finally" || mode == "goerr" {
				raise = fmt.Sprintf("at:%d", b.Len()+1)
				b.WriteString("zzz;")
				return
			}
			if engine {
				b.WriteString("try { ")
				raise = fmt.Sprintf("at:%d", b.Len()+1)
				b.WriteString("zzz; } catch (x) { return x; }")
			} else {
				b.WriteString("return new ")
				raise = fmt.Sprintf("sb:id:%d", b.Len()+1)
				b.WriteString(fmt.Sprintf("Error(\"m%d\");", i))
			}
		}
		for j := depth; j >= 1; j-- { // innermost first in the text, so call sites are known when written
			nl()
			name := fmt.Sprintf("e%df%d", i, j)
			b.WriteString("function " + name + "(){ ")
			if j == depth {
				body()
			} else {
				b.WriteString("return ")
				toks = append([]string{fmt.Sprintf("d,id,e%df%d,%d,-,0,-,id", i, j+1, b.Len()+1)}, toks...)
				b.WriteString(fmt.Sprintf("e%df%d();", i, j+1))
			}
			b.WriteString(" };")
		}
		levelToks = append(levelToks, toks)
		if depth > 0 {
			starts = append(starts, fmt.Sprintf("e%df1", i))
		} else {
			starts = append(starts, "")
		}
		scs = append(scs, sc{"", raise})
		if depth == 0 { // created in global code
			nl()
			if engine {
				b.WriteString(fmt.Sprintf("var er%d; try { ", i))
				scs[i-1].raise = fmt.Sprintf("at:%d", b.Len()+1)
				b.WriteString(fmt.Sprintf("zzz; } catch (x) { er%d = x; }", i))
			} else {
				b.WriteString(fmt.Sprintf("var er%d = new ", i))
				scs[i-1].raise = fmt.Sprintf("sb:id:%d", b.Len()+1)
				b.WriteString(fmt.Sprintf("Error(\"m%d\");", i))
			}
			b.WriteString(fmt.Sprintf(" errs.push(er%d);", i))
		}
	}
	// the global code that starts the chains
	switch mode {
	case "finally":
		nl()
		b.WriteString("function outer(){ try { ")
		first := fmt.Sprintf("d,id,e1f1,%d,-,0,-,id", b.Len()+1)
		b.WriteString("e1f1(); } finally { try { e2f1(); } catch (x) {} } };")
		nl()
		outer := fmt.Sprintf("d,id,outer,%d,-,0,-,id", b.Len()+1)
		b.WriteString("outer();")
		levelToks[0] = append([]string{outer, first}, levelToks[0]...)
		scs = scs[:1]
		levelToks = levelToks[:1]
	case "goerr":
		for i := 1; i <= k; i++ {
			nl()
			b.WriteString(fmt.Sprintf("if (sel == %d) ", i))
			levelToks[i-1] = append([]string{fmt.Sprintf("d,id,e%df1,%d,-,0,-,id", i, b.Len()+1)}, levelToks[i-1]...)
			b.WriteString(fmt.Sprintf("e%df1();", i))
		}
	default:
		for i := 1; i <= k; i++ {
			if starts[i-1] == "" {
				continue
			}
			nl()
			b.WriteString(fmt.Sprintf("var er%d = ", i))
			levelToks[i-1] = append([]string{fmt.Sprintf("d,id,e%df1,%d,-,0,-,id", i, b.Len()+1)}, levelToks[i-1]...)
			b.WriteString(fmt.Sprintf("e%df1(); errs.push(er%d);", i, i))
		}
	}
	nl()
	line := fmt.Sprintf("life %s %d %s", mode, limit, hx(b.String()))
	for i := range scs {
		lt := "-"
		if len(levelToks[i]) > 0 {
			lt = strings.Join(levelToks[i], ";")
		}
		line += " " + lt + " " + scs[i].raise
	}
	return line
}

// genC19: C19_ONLY=<op> restricts the stream to one request type (debugging aid; unset in ./check).
func genC19(c *h.Ctx) {
	genAll(c)
	if only := os.Getenv("C19_ONLY"); only != "" {
		var keep []string
		for _, l := range c.Lines {
			if strings.HasPrefix(l, only+" ") {
				keep = append(keep, l)
			}
		}
		c.Lines = keep
	}
}

func genAll(c *h.Ctx) {
	r := c.Rng
	// (1) position functions: exhaustive over short strings of the critical alphabet, every offset
	maxLen := c.N(4, 6)
	var rec func(cur []byte)
	rec = func(cur []byte) {
		t := hx(string(cur))
		for off := 0; off <= len(cur); off++ {
			c.Add(fmt.Sprintf("ppos %s %d", t, off), "ppos:exhaustive")
		}
		for idx := -1; idx <= len(cur)+2; idx++ {
			c.Add(fmt.Sprintf("pos %s %d", t, idx), "pos:exhaustive")
		}
		if len(cur) < maxLen {
			for _, b := range posAlphabet {
				rec(append(append([]byte{}, cur...), b))
			}
		}
	}
	rec(nil)
	for i := 0; i < c.N(6000, 400000); i++ {
		n := r.Intn(24)
		bs := make([]byte, n)
		for j := range bs {
			bs[j] = posAlphabetWide[r.Intn(len(posAlphabetWide))]
		}
		t := hx(string(bs))
		c.Add(fmt.Sprintf("ppos %s %d", t, r.Intn(n+1)), "ppos:random")
		c.Add(fmt.Sprintf("pos %s %d", t, r.Intn(n+3)), "pos:random")
	}
	// (2) syntax-error positions
	for i := 0; i < c.N(3000, 60000); i++ {
		c.Add(genSynErr(r), "synerr")
	}
	// (3) error classes in catch: exhaustive kinds x construct variants x wrappers
	for _, k := range clsKinds {
		for v := 0; v < len(clsConstructs[k])*len(clsWrap); v++ {
			c.Add(fmt.Sprintf("cls %s %d", k, v), "cls")
		}
	}
	// (3b) the trace limit on copies: every configured limit x stack-depth limit x number of Copy() x nesting depth
	for _, tl := range []string{"d", "0", "1", "2", "3", "5", "9", "10", "11", "12", "25", "-1"} {
		for n := 0; n <= 3; n++ {
			for d := 0; d <= c.N(26, 40); d++ {
				for _, sl := range []int{0, d + 10, 500} {
					c.Add(fmt.Sprintf("climit %s %d %d %d", tl, sl, n, d), "climit", fmt.Sprintf("climit:copies:%d", n))
				}
			}
		}
	}
	// (3c) messages are data: every creation route x constructor x messages from an alphabet with class names + ": ",
	// format verbs, newlines, empty and long strings
	var msgs []string
	for _, ct := range errCtors {
		msgs = append(msgs, ct+": disk full", ct+": ", ct+":x", ct, " "+ct+": y", ct+": "+ct+": z")
	}
	msgs = append(msgs, "", "x", "%s", "%d items", "100%", "%!", "%%", "%v %[1]d %*d", "a\nb", "\n", "MyErr: custom", "é世 ok", ": ", strings.Repeat("long ", 300), "Error: "+strings.Repeat("x", 2000))
	for _, m := range msgs {
		for _, ct := range errCtors {
			for _, route := range []string{"new", "call"} {
				c.Add(fmt.Sprintf("emsg %s %s %s", route, ct, optTok(m)), "emsg:"+route)
			}
		}
		for _, ct := range []string{"TypeError", "RangeError", "SyntaxError", "Error", "MyErr", "EvalError"} {
			c.Add(fmt.Sprintf("emsg make %s %s", ct, optTok(m)), "emsg:make")
		}
	}
	for _, ct := range errCtors {
		c.Add(fmt.Sprintf("emsg new %s -", ct), "emsg:new")
		c.Add(fmt.Sprintf("emsg call %s -", ct), "emsg:call")
	}
	for _, t := range []string{"%", "%=", ")", "]", "}", "*", "*=", ".", ",", "?", ":", "&&", "||", "==", ">>>=", "|=", "<", "&"} {
		c.Add("emsg engine evaltok "+optTok(t), "emsg:engine")
	}
	for _, t := range []string{"%", "@", "#", "x", "?"} {
		c.Add("emsg engine json "+optTok(t), "emsg:engine")
	}
	for _, t := range []string{"zzz", "TypeError9", "ReferenceError_x", "Error$", "$s", "_d"} {
		c.Add("emsg engine ident "+optTok(t), "emsg:engine")
	}
	for _, t := range []string{"nope", "TypeError: x", "%s", "%d%", "Error", "a b"} {
		c.Add("emsg engine nonfn "+optTok(t), "emsg:engine")
	}
	// (3d) every kind of thrown value, uncaught, through every user of catchPanic and out of built-in callbacks / finally
	thrown := []struct{ kind, text, expr string }{
		{"p", "5", "5"}, {"p", "-0.5", "-0.5"}, {"p", "NaN", "NaN"}, {"p", "abc", "'abc'"}, {"p", "", "''"}, {"p", "true", "true"}, {"p", "false", "false"},
		{"p", "null", "null"}, {"p", "undefined", "undefined"}, {"p", "Error: not an error object", "'Error: not an error object'"},
		{"o", "[object Object]", "({})"}, {"o", "T", "({toString: function(){ return 'T'; }})"}, {"o", "[object Object]", "({name: 'N', message: 'M'})"},
		{"o", "N: M", "(function(){ var o = Object.create(Error.prototype); o.name = 'N'; o.message = 'M'; return o; })()"},
		{"o", "Error", "Object.create(Error.prototype)"}, {"o", "RangeError: M", "(function(){ var o = Object.create(RangeError.prototype); o.message = 'M'; return o; })()"},
		{"o", "function f(){}", "function f(){}"}, {"o", "1,2", "[1, 2]"}, {"o", "", "[]"}, {"o", "/a/g", "/a/g"}, {"o", "[object Math]", "Math"},
		{"o", "7", "new Number(7)"}, {"o", "s", "new String('s')"}, {"o", "[object Arguments]", "(function(){ return arguments; })()"},
		{"c", "Error", "Error.prototype"},
	}
	for _, ct := range errCtors {
		if ct != "Error" {
			thrown = append(thrown, struct{ kind, text, expr string }{"c", ct, ct + ".prototype"})
		}
		thrown = append(thrown, struct{ kind, text, expr string }{"i:" + ct + ":" + optTok("m"), "-", "new " + ct + "('m')"})
		thrown = append(thrown, struct{ kind, text, expr string }{"i:" + ct + ":-", "-", "new " + ct + "()"})
	}
	for _, via := range []string{"run", "runthrow", "eval", "ocall", "onew", "vcall", "objcall", "objget", "objset", "tostring", "tofloat", "tointeger", "marshal", "export",
		"sort", "replace", "tojson", "getter", "foreach", "finally", "nestedfinally", "rethrow"} {
		for _, th := range thrown {
			t := "-"
			if th.text != "-" || !strings.HasPrefix(th.kind, "i:") {
				t = optTok(th.text)
			}
			c.Add(fmt.Sprintf("uthrow %s %s %s@%s", via, th.kind, t, hx(th.expr)), "uthrow:"+via)
		}
	}
	// (3h) history: rebind / delete the global name of a native error class, then let the engine raise that class
	for _, k := range clsKinds {
		for _, how := range []string{"none", "fn", "nonfn", "del"} {
			for v := 0; v < len(clsConstructs[k]); v++ {
				c.Add(fmt.Sprintf("rebind %s %s %d", k, how, v), "rebind:"+how)
			}
		}
	}
	// (3g) building an engine error's message must not run script: every site x logging / throwing toString+valueOf
	for site := range sidefxSites {
		for _, mode := range []string{"log", "throw"} {
			c.Add("sidefx "+site+" "+mode, "sidefx")
		}
	}
	// (3f) lifetimes: several errors alive at once, traces read after all were created / after later Runs / on a Copy / from Go
	for i := 0; i < c.N(1500, 40000); i++ {
		mode := []string{"stack", "stack2", "stackcopy", "finally", "goerr"}[r.Intn(5)]
		c.Add(genLife(r, mode), "life:"+mode)
	}
	// (3e) positions through a file set of two files: every idx
	for _, pair := range [][2]string{{"var a = 1;\nvar b = 2;", "x;\ny;"}, {"a", "b"}, {"", "zz\n"}, {"q\r\nw", ""}, {"1\n2\n3", "4\u20285"}} {
		for idx := -1; idx <= len(pair[0])+len(pair[1])+4; idx++ {
			c.Add(fmt.Sprintf("fspos %s %s %d", hx(pair[0]), hx(pair[1]), idx), "fspos")
		}
	}
	for _, k := range []string{"undef", "null", "num", "str", "bool", "obj", "objn", "objm", "objnm", "obje"} {
		c.Add("etostr "+k, "etostr")
	}
	// (4) Run's error text
	for _, p := range primLits {
		c.Add(fmt.Sprintf("runerr prim %s %s", optTok(p.text), hx(p.lit)), "runerr:prim")
	}
	for _, s := range someStrs {
		c.Add(fmt.Sprintf("runerr obj %s", optTok(s)), "runerr:obj")
	}
	for _, ct := range errCtors {
		for _, msg := range append([]string{"-"}, someStrs...) {
			mt := "-"
			if msg != "-" {
				mt = optTok(msg)
			}
			c.Add(fmt.Sprintf("runerr err %s %s - -", ct, mt), "runerr:err")
			for _, sn := range someStrs {
				c.Add(fmt.Sprintf("runerr err %s %s %s -", ct, mt, optTok(sn)), "runerr:err:setname")
				if c.Thorough() || r.Chance(15) {
					c.Add(fmt.Sprintf("runerr err %s %s - %s", ct, mt, optTok(sn)), "runerr:err:setmsg")
					c.Add(fmt.Sprintf("runerr err %s %s %s %s", ct, mt, optTok(sn), optTok(someStrs[r.Intn(len(someStrs))])), "runerr:err:setboth")
				}
			}
		}
	}
	// (5) traces
	for i := 0; i < c.N(9000, 250000); i++ {
		depth := r.Intn(7)
		if r.Chance(10) {
			depth = 7 + r.Intn(8)
		}
		limit := r.Intn(13)
		if r.Chance(8) {
			limit = -1 - r.Intn(3)
		}
		if r.Chance(10) {
			limit = 10 // the default
		}
		sh := shape{recordedOnly: r.Chance(60)}
		exotic := r.Chance(25)
		kind := clsKinds[r.Intn(len(clsKinds))]
		if sh.recordedOnly {
			kind = cleanKinds[r.Intn(len(cleanKinds))]
		}
		key := "trace:mixed"
		if sh.recordedOnly && !exotic {
			key = "trace:recorded-callees-lf"
		} else if sh.recordedOnly {
			key = "trace:recorded-callees-exotic-terminators"
		}
		line := genTrace(r, depth, limit, sh, exotic, kind)
		keys := []string{key, "trace:kind:" + kind, fmt.Sprintf("trace:depth:%d", depth), fmt.Sprintf("trace:limit:%d", limit)}
		if strings.Contains(line, "ed,id,-,") {
			keys = append(keys, "trace:through-direct-eval")
		}
		if strings.Contains(line, "(c.") || strings.Contains(line, "lc.") || strings.Contains(line, ")c.") {
			keys = append(keys, "trace:call-inside-argument-list")
		}
		if strings.Contains(line, ":t,") || strings.Contains(line, ":t+") || strings.Contains(line, ":t ") {
			keys = append(keys, "trace:after-caught-throwing-direct-eval")
		}
		if strings.Contains(line, "/"+hx("(function(")) {
			keys = append(keys, "trace:through-Function-made-function")
		}
		if strings.Contains(line, "ei,id,-,") {
			keys = append(keys, "trace:through-indirect-eval")
		}
		c.Add(line, keys...)
	}
}
