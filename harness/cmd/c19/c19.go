package main

import (
	"encoding/hex"
	"fmt"
	"regexp"
	"strconv"
	"strings"

	"github.com/robertkrimen/otto"
	"github.com/robertkrimen/otto/file"
	"github.com/robertkrimen/otto/parser"
	"ottoverif/h"
)

func init() {
	h.Register(&h.Prop{ID: "C19", Gen: genC19, Impl: implC19, Trivial: func(l string) bool { return false }})
}

func hx(s string) string {
	if s == "" {
		return "-"
	}
	return hex.EncodeToString([]byte(s))
}

func unhx(t string) string {
	if t == "-" {
		return ""
	}
	b, err := hex.DecodeString(t)
	if err != nil {
		panic("bad hex " + t)
	}
	return string(b)
}

func dash(s string) string {
	if s == "" {
		return "-"
	}
	return s
}

// ---------------------------------------------------------------- implementation side

func implC19(line string) string {
	f := strings.Fields(line)
	switch f[0] {
	case "pos":
		idx, _ := strconv.Atoi(f[2])
		p := file.NewFile("", unhx(f[1]), 1).Position(file.Idx(idx))
		if p == nil {
			return "nil"
		}
		return fmt.Sprintf("%d:%d", p.Line, p.Column)
	case "ppos":
		off, _ := strconv.Atoi(f[2])
		l, c := parser.VerifPosition(unhx(f[1]), off)
		return fmt.Sprintf("%d:%d", l, c)
	case "synerr":
		return implSynErr(unhx(f[2]))
	case "trace":
		limit, _ := strconv.Atoi(f[1])
		return implTrace(limit, unhx(f[2]), unhx(strings.SplitN(f[3], "/", 2)[0]))
	case "emsg":
		return implEmsg(f[1:])
	case "rebind":
		v, _ := strconv.Atoi(f[3])
		return implRebind(f[1], f[2], v)
	case "sidefx":
		return implSideFx(f[1], f[2])
	case "life":
		limit, _ := strconv.Atoi(f[2])
		return implLife(f[1], limit, unhx(f[3]), (len(f)-4)/2)
	case "uthrow":
		return implUThrow(f[1], f[2], f[3])
	case "fspos":
		idx, _ := strconv.Atoi(f[3])
		fs := &file.FileSet{}
		fs.AddFile("a.js", unhx(f[1]))
		fs.AddFile("b.js", unhx(f[2]))
		p := fs.Position(file.Idx(idx))
		if p == nil {
			return "nil"
		}
		return fmt.Sprintf("%d:%d", p.Line, p.Column)
	case "etostr":
		this := map[string]string{"undef": "undefined", "null": "null", "num": "1", "str": "\"s\"", "bool": "true", "obj": "{}",
			"objn": "{name: \"N\"}", "objm": "{message: \"M\"}", "objnm": "{name: \"N\", message: \"M\"}", "obje": "{name: \"\", message: \"M\"}"}[f[1]]
		if this == "" {
			return "bad-op"
		}
		v, err := otto.New().Run("var r9; try { r9 = 'ok:' + Error.prototype.toString.call(" + this + "); } catch (e) { r9 = 'throw:' + e.name; } r9")
		if err != nil {
			return "run-error:" + hx(err.Error())
		}
		if r := v.String(); strings.HasPrefix(r, "ok:") {
			return sTok(strings.TrimPrefix(r, "ok:"))
		} else {
			return r
		}
	case "climit":
		n, _ := strconv.Atoi(f[3])
		d, _ := strconv.Atoi(f[4])
		return implCLimit(f[1], f[2], n, d)
	case "cls":
		v, _ := strconv.Atoi(f[2])
		return implCls(f[1], v)
	case "runerr":
		return implRunErr(f[1:])
	}
	return "bad-op"
}

var lineColRe = regexp.MustCompile(`^\(anonymous\): Line (\d+):(\d+) `)

// implSynErr: position of the first syntax error, through otto.Run and through parser.ParseFile.
func implSynErr(src string) string {
	_, err := parser.ParseFile(nil, "", src, 0)
	if err == nil {
		return "no-error"
	}
	elp, ok := err.(*parser.ErrorList)
	if !ok || len(*elp) == 0 {
		return "not-an-errorlist"
	}
	el := *elp
	a := fmt.Sprintf("%d:%d", el[0].Position.Line, el[0].Position.Column)
	_, err2 := otto.New().Run(src)
	if err2 == nil {
		return "run-no-error"
	}
	m := lineColRe.FindStringSubmatch(err2.Error())
	if m == nil {
		return "run-unparsed:" + hx(err2.Error())
	}
	if b := m[1] + ":" + m[2]; a != b {
		return "parse=" + a + ",run=" + b
	}
	return a
}

func locTok(loc string) string {
	switch loc {
	case "<native code>":
		return "native"
	case "<unknown>":
		return "unknown"
	}
	if strings.HasPrefix(loc, "<anonymous>:") {
		return "anon:" + strings.TrimPrefix(loc, "<anonymous>:")
	}
	return loc
}

// errTok canonicalises Error.String(): Name|m0/m1|callee@loc;...
func errTok(e *otto.Error) string {
	s := e.String()
	lines := strings.Split(strings.TrimSuffix(s, "\n"), "\n")
	head := lines[0]
	if head != e.Error() {
		return "string-head-differs-from-Error()"
	}
	name, flag := head, "m0"
	if i := strings.Index(head, ": "); i >= 0 {
		name = head[:i]
		if len(head) > i+2 {
			flag = "m1"
		}
	}
	var frames []string
	for _, l := range lines[1:] {
		if !strings.HasPrefix(l, "    at ") {
			return "bad-frame-line:" + hx(l)
		}
		l = strings.TrimPrefix(l, "    at ")
		callee, loc := "", l
		if strings.HasSuffix(l, ")") {
			if i := strings.Index(l, " ("); i >= 0 {
				callee, loc = l[:i], l[i+2:len(l)-1]
			}
		}
		frames = append(frames, callee+"@"+locTok(loc))
	}
	fr := "none"
	if len(frames) > 0 {
		fr = strings.Join(frames, ";")
	}
	return name + "|" + flag + "|" + fr
}

// framesOfStack canonicalises the frame lines of a stack text (the result of Error.String() or e.stack)
func framesOfStack(s string) string {
	lines := strings.Split(strings.TrimSuffix(s, "\n"), "\n")
	var frames []string
	for _, l := range lines[1:] {
		if !strings.HasPrefix(l, "    at ") {
			return "bad-frame-line:" + hx(l)
		}
		l = strings.TrimPrefix(l, "    at ")
		callee, loc := "", l
		if strings.HasSuffix(l, ")") {
			if i := strings.Index(l, " ("); i >= 0 {
				callee, loc = l[:i], l[i+2:len(l)-1]
			}
		}
		frames = append(frames, callee+"@"+locTok(loc))
	}
	if len(frames) == 0 {
		return "none"
	}
	return strings.Join(frames, ";")
}

// a later script that raises and catches an error of its own, deep enough to refill any shared scratch space
const lifeNoise = "try { (function n1(){ (function n2(){ (function n3(){ (function n4(){ (function n5(){ (function n6(){ zzz; })(); })(); })(); })(); })(); })(); } catch (x9) {} " +
	"try { null.p; } catch (x9) {} var junk9 = new Error('later');"

// implLife: k errors with overlapping lifetimes on one runtime, every trace read after all of them exist.
func implLife(mode string, limit int, src string, k int) string {
	vm := otto.New()
	vm.SetStackTraceLimit(limit)
	var out []string
	switch mode {
	case "stack", "stack2", "stackcopy":
		if _, err := vm.Run(src); err != nil {
			return "run-error:" + hx(err.Error())
		}
		rd := vm
		if mode == "stack2" {
			if _, err := vm.Run(lifeNoise); err != nil {
				return "noise-error:" + hx(err.Error())
			}
		}
		if mode == "stackcopy" {
			rd = vm.Copy()
			if _, err := rd.Run(lifeNoise); err != nil {
				return "noise-error:" + hx(err.Error())
			}
		}
		for i := 0; i < k; i++ {
			v, err := rd.Run(fmt.Sprintf("er%d.stack", i+1))
			if err != nil {
				return "read-error:" + hx(err.Error())
			}
			out = append(out, framesOfStack(v.String()))
		}
	case "finally":
		_, err := vm.Run(src)
		oe, ok := err.(*otto.Error)
		if !ok {
			return fmt.Sprintf("err-type:%T", err)
		}
		out = append(out, framesOfStack(oe.String()))
	case "goerr":
		var errs []*otto.Error
		for i := 1; i <= k; i++ {
			vm.Set("sel", i)
			_, err := vm.Run(src)
			oe, ok := err.(*otto.Error)
			if !ok {
				return fmt.Sprintf("err-type:%T", err)
			}
			errs = append(errs, oe)
		}
		vm.Set("sel", 0)
		if _, err := vm.Run(lifeNoise); err != nil {
			return "noise-error:" + hx(err.Error())
		}
		if _, err := vm.Call("idf9", nil); err == nil {
			return "call-did-not-fail"
		}
		c := vm.Copy()
		if _, err := c.Run("zzz"); err == nil {
			return "copy-did-not-fail"
		}
		for _, e := range errs {
			out = append(out, framesOfStack(e.String()))
		}
	default:
		return "bad-op"
	}
	return strings.Join(out, "#")
}

func implTrace(limit int, fname, src string) string {
	vm := otto.New()
	vm.SetStackTraceLimit(limit)
	var err error
	if fname == "" {
		_, err = vm.Run(src)
	} else {
		s, cerr := vm.Compile(fname, src)
		if cerr != nil {
			return "compile-error:" + hx(cerr.Error())
		}
		_, err = vm.Run(s)
	}
	if err == nil {
		return "no-error"
	}
	oe, ok := err.(*otto.Error)
	if !ok {
		return fmt.Sprintf("err-type:%T:%s", err, hx(err.Error()))
	}
	return errTok(oe)
}

func sTok(s string) string { return "s:" + hex.EncodeToString([]byte(s)) }

// implEmsg: error objects made with a message (f = route ctor msg) and engine errors embedding user text
// (f = "engine" kind text): what Run returns, e.message, own properties, String(e), first line of e.stack.
func implEmsg(f []string) string {
	vm := otto.New()
	if f[0] == "engine" {
		t := optS(f[2])
		vm.Set("arg9", t)
		var body string
		switch f[1] {
		case "evaltok":
			body = "eval(arg9)"
		case "json":
			body = "JSON.parse(arg9)"
		case "ident":
			body = t
		case "nonfn":
			body = "({})[arg9]()"
		default:
			return "bad-op"
		}
		v, err := vm.Run("var r9 = 'no-throw'; try { " + body + " } catch (e) { r9 = [e.name, e.message, String(e) === e.name + ': ' + e.message, e.stack.split('\\n')[0] === String(e)]; } r9")
		if err != nil {
			return "run-error:" + hx(err.Error())
		}
		if !v.IsObject() {
			return "no-throw"
		}
		o := v.Object()
		name, _ := o.Get("0")
		msg, _ := o.Get("1")
		c1, _ := o.Get("2")
		c2, _ := o.Get("3")
		_, uerr := vm.Run(body)
		if uerr == nil || uerr.Error() != name.String()+": "+msg.String() || c1.String() != "true" || c2.String() != "true" {
			return "inconsistent-texts:" + hx(fmt.Sprint(uerr))
		}
		return name.String() + "|" + sTok(msg.String())
	}
	route, ctor := f[0], f[1]
	args := ""
	if f[2] != "-" {
		vm.Set("arg9", optS(f[2]))
		args = "arg9"
	}
	var mk string
	switch route {
	case "new":
		mk = "e9 = new " + ctor + "(" + args + ");"
	case "call":
		mk = "e9 = " + ctor + "(" + args + ");"
	case "make":
		if f[2] == "-" {
			return "bad-op"
		}
		vm.Set("raise9", func(call otto.FunctionCall) otto.Value {
			k := call.Argument(0).String()
			m := call.Argument(1).String()
			switch k {
			case "TypeError":
				panic(call.Otto.MakeTypeError(m))
			case "RangeError":
				panic(call.Otto.MakeRangeError(m))
			case "SyntaxError":
				panic(call.Otto.MakeSyntaxError(m))
			}
			panic(call.Otto.MakeCustomError(k, m))
		})
		mk = "try { raise9(" + jsStr(ctor) + ", arg9); } catch (x) { e9 = x; }"
	default:
		return "bad-op"
	}
	if _, err := vm.Run("var e9; " + mk); err != nil {
		return "make-error:" + hx(err.Error())
	}
	get := func(src string) string {
		v, err := vm.Run(src)
		if err != nil {
			return "ERR:" + err.Error()
		}
		return v.String()
	}
	mt := get("typeof e9.message")
	m := "-"
	if mt == "string" {
		m = sTok(get("e9.message"))
	}
	b := func(src string) string {
		if get(src) == "true" {
			return "1"
		}
		return "0"
	}
	stack := get("e9.stack")
	lines := strings.Split(stack, "\n    at ")
	nt := "0"
	if route != "make" && len(lines) > 1 && lines[1] == ctor+" (<native code>)" {
		nt = "1"
	}
	head := lines[0]
	if len(lines) == 1 {
		head = strings.TrimSuffix(head, "\n")
	} else {
		// the last frame line ends the text; nothing to trim from the head
	}
	_, rerr := vm.Run("throw e9")
	if rerr == nil {
		return "no-run-error"
	}
	return "run=" + sTok(rerr.Error()) + "|mt=" + mt + "|m=" + m + "|om=" + b("e9.hasOwnProperty('message')") + "|on=" + b("e9.hasOwnProperty('name')") +
		"|s=" + sTok(get("String(e9)")) + "|h=" + sTok(head) + "|nt=" + nt
}

// implUThrow: throw V uncaught through one user of catchPanic (or from inside a built-in callback / through finally)
// and report what Go gets back: nil, S:<text> (plain error) or E:<text> (*otto.Error).  f = via, kind, "<texttok>@<hex of the JS expression for V>".
func implUThrow(via, kind, txt string) string {
	i := strings.Index(txt, "@")
	expr := unhx(txt[i+1:])
	vm := otto.New()
	if _, err := vm.Run("var V = " + expr + "; function thr(){ throw V; }; var host = {get g(){ throw V; }, set s(x){ throw V; }, m: thr, toString: thr, valueOf: thr, toJSON: thr};" +
		" var holder = {get x(){ throw V; }};"); err != nil {
		return "setup-error:" + hx(err.Error())
	}
	// what a JS catch sees: the very same value
	if v, err := vm.Run("var same9 = false; try { thr(); } catch (e) { same9 = (e === V) || (e !== e && V !== V); } same9"); err != nil || v.String() != "true" {
		return "js-catch-sees-another-value"
	}
	var err error
	hostV, _ := vm.Get("host")
	thrV, _ := vm.Get("thr")
	switch via {
	case "run":
		_, err = vm.Run("thr()")
	case "runthrow":
		_, err = vm.Run("throw V")
	case "eval":
		_, err = vm.Eval("thr()")
	case "ocall":
		_, err = vm.Call("thr", nil)
	case "onew":
		_, err = vm.Call("new thr", nil)
	case "vcall":
		_, err = thrV.Call(otto.NullValue())
	case "objcall":
		_, err = hostV.Object().Call("m")
	case "objget":
		_, err = hostV.Object().Get("g")
	case "objset":
		err = hostV.Object().Set("s", 1)
	case "tostring":
		_, err = hostV.ToString()
	case "tofloat":
		_, err = hostV.ToFloat()
	case "tointeger":
		_, err = hostV.ToInteger()
	case "marshal":
		_, err = hostV.Object().MarshalJSON()
	case "export":
		h, _ := vm.Get("holder")
		_, err = h.Export()
	case "sort":
		_, err = vm.Run("[2, 1].sort(thr)")
	case "replace":
		_, err = vm.Run("'a'.replace(/a/, thr)")
	case "tojson":
		_, err = vm.Run("JSON.stringify(host)")
	case "getter":
		_, err = vm.Run("host.g")
	case "foreach":
		_, err = vm.Run("[1].forEach(thr)")
	case "finally":
		_, err = vm.Run("var fin9 = 0; try { thr(); } finally { fin9 = 1; }")
	case "nestedfinally":
		_, err = vm.Run("(function(){ try { try { thr(); } finally { nop9 = 1; } } finally { nop9 = 2; } })()")
	case "rethrow":
		_, err = vm.Run("try { thr(); } catch (e) { throw e; }")
	default:
		return "bad-op"
	}
	if err == nil {
		return "nil"
	}
	if oe, ok := err.(*otto.Error); ok {
		return "E:" + sTok(oe.Error())
	}
	return "S:" + sTok(err.Error())
}

var sidefxSites = map[string]string{
	"callResult": "(function(){ return o; })()()", "newResult": "new ((function(){ return o; })())",
	"forEach": "[1].forEach(o)", "map": "[1].map(o)", "filter": "[1].filter(o)", "some": "[1].some(o)", "every": "[1].every(o)",
	"reduce": "[1, 2].reduce(o)", "reduceRight": "[1, 2].reduceRight(o)", "sort": "[2, 1].sort(o)",
	"fnCall": "Function.prototype.call.call(o)", "fnApply": "Function.prototype.apply.call(o)", "fnBind": "Function.prototype.bind.call(o)",
	"objToLocale": "Object.prototype.toLocaleString.call({toString: o})", "arrToLocale": "[{toLocaleString: o}].toLocaleString()",
	"dateToJSON": "Date.prototype.toJSON.call({toISOString: o})", "definePropGetter": "Object.defineProperty({}, 'x', {get: o})",
	"identCallee": "o()", "memberCallee": "({m: o}).m()",
}

// implSideFx: a TypeError-raising site gets an offending object whose toString / valueOf log (and, mode throw,
// throw): the class of the error that comes out and the log of script calls made meanwhile.
func implSideFx(site, mode string) string {
	body, ok := sidefxSites[site]
	if !ok {
		return "bad-op"
	}
	tail := "return 'x';"
	tailV := "return 1;"
	if mode == "throw" {
		tail, tailV = "throw 42;", "throw 43;"
	}
	src := "var L = [], o = {toString: function(){ L.push('ts'); " + tail + " }, valueOf: function(){ L.push('vo'); " + tailV + " }}; var r9 = 'no-throw';" +
		" try { " + body + " } catch (e) { r9 = (e instanceof Error) ? e.name : 'thrown:' + String(e); } r9 + '|' + (L.length ? L.join() : '-')"
	v, err := otto.New().Run(src)
	if err != nil {
		return "run-error:" + hx(err.Error())
	}
	return v.String()
}

// the native error class each kind belongs to (the global name a script can rebind)
var kindClass = map[string]string{"unresolvable": "ReferenceError", "callNonFn": "TypeError", "newNonFn": "TypeError", "memberUndefined": "TypeError",
	"memberNull": "TypeError", "arrayLenCtor": "RangeError", "arrayLenSet": "RangeError", "radix": "RangeError", "fixedPrecision": "RangeError",
	"expPrecision": "RangeError", "precPrecision": "RangeError", "evalSyntax": "SyntaxError", "functionSyntax": "SyntaxError",
	"instanceofNonObj": "TypeError", "inNonObj": "TypeError", "cyclicJSON": "TypeError", "uriMalformed": "URIError", "frozenWrite": "TypeError"}

// implRebind: the history "rebind / delete the global name of the class, THEN let the engine raise it, THEN inspect
// the caught error against the constructor and prototype saved beforehand".
func implRebind(kind, how string, v int) string {
	cls := kindClass[kind]
	cs := clsConstructs[kind]
	if cls == "" || len(cs) == 0 {
		return "bad-op"
	}
	construct := cs[v%len(cs)]
	var change string
	switch how {
	case "none":
		change = ""
	case "fn":
		change = cls + " = function (m) { this.fake = m; };"
	case "nonfn":
		change = cls + " = 42;"
	case "del":
		change = "delete this." + cls + ";"
	default:
		return "bad-op"
	}
	src := "var Saved9 = " + cls + ", SavedProto9 = " + cls + ".prototype, SavedError9 = Error; " + change +
		" var r9 = 'no-throw'; try { " + construct + " } catch (e) {" +
		" var inst = []; if (e instanceof Saved9) { inst.push(" + jsStr(cls) + "); } if (e instanceof SavedError9) { inst.push('Error'); }" +
		" r9 = String(e.name) + ',' + inst.join('+');" +
		" if (Object.getPrototypeOf(e) !== SavedProto9) { r9 += ',proto-is-not-the-original'; }" +
		" if (e.constructor !== Saved9) { r9 += ',constructor-is-not-the-original'; }" +
		" if (String(e) !== (e.message ? " + jsStr(cls) + " + ': ' + e.message : " + jsStr(cls) + ")) { r9 += ',string-lost-the-class'; }" +
		" } r9"
	val, err := otto.New().Run(src)
	if err != nil {
		return "run-error:" + hx(err.Error())
	}
	return strings.ReplaceAll(val.String(), " ", "_")
}

// implCLimit: trace limit tl ("d" = leave the default), stack-depth limit sl (0 = leave unset) configured on a fresh
// runtime, n x Copy(), then an error below d nested calls on the last copy: frames in Error.String() and in e.stack.
func implCLimit(tl, sl string, n, d int) string {
	vm := otto.New()
	if tl != "d" {
		k, _ := strconv.Atoi(tl)
		vm.SetStackTraceLimit(k)
	}
	if k, _ := strconv.Atoi(sl); k != 0 {
		vm.SetStackDepthLimit(k)
	}
	for i := 0; i < n; i++ {
		vm = vm.Copy()
	}
	prog := "zzz;"
	if d > 0 {
		prog = fmt.Sprintf("function r(k){ if (k <= 1) { return zzz; } return r(k - 1); }; r(%d);", d)
	}
	_, err := vm.Run(prog)
	oe, ok := err.(*otto.Error)
	if !ok {
		return fmt.Sprintf("err-type:%T", err)
	}
	if !strings.HasPrefix(oe.Error(), "ReferenceError") {
		return "unexpected:" + hx(oe.Error())
	}
	a := strings.Count(oe.String(), "\n    at ")
	v, err := vm.Run("var st9; try { " + prog + " } catch (e) { st9 = e.stack; } st9")
	if err != nil {
		return "stack-run-error:" + hx(err.Error())
	}
	b := strings.Count(v.String(), "\n    at ")
	return fmt.Sprintf("%d,%d", a, b)
}

// ---- error classes seen by catch

// constructs per kind; several syntactic variants each (the class must not depend on them)
var clsConstructs = map[string][]string{
	"unresolvable":     {"zzz", "zzz()", "zzz.p", "1 + zzz", "(function(){ return zzz })()", "typeof zzz.p", "eval('zzz')"},
	"callNonFn":        {"var nf = 1; nf()", "({p:1}).p()", "({})['q']()", "(0, 5)()", "undefined()", "[1].forEach(3)", "'x'()"},
	"newNonFn":         {"var nf = 1; new nf()", "new ({p:1}).p()", "new (0, 5)()", "new 'x'", "new Math.PI"},
	"memberUndefined":  {"var u; u.p", "var u; u['p']", "undefined.x", "(void 0).x", "(function(){})().x", "var u; u.p = 1", "var u; u.p()"},
	"memberNull":       {"null.p", "null['p']", "var n = null; n.p", "var n = null; n.p = 1", "var n = null; n.p()"},
	"arrayLenCtor":     {"new Array(-1)", "new Array(1.5)", "Array(-1)", "new Array(4294967296)"},
	"arrayLenSet":      {"var a = []; a.length = -1", "var a = []; a.length = 1.5", "var a = [1]; a.length = 4294967296", "Object.defineProperty([], 'length', {value: -1})"},
	"radix":            {"(1).toString(99)", "(1).toString(1)", "(1).toString(37)", "(1).toString(0)", "Number.prototype.toString.call(1, 100)"},
	"fixedPrecision":   {"(1).toFixed(101)", "(1).toFixed(-1)", "(1).toFixed(21)"},
	"expPrecision":     {"(1).toExponential(101)", "(1).toExponential(-1)", "(1).toExponential(21)"},
	"precPrecision":    {"(1).toPrecision(101)", "(1).toPrecision(0)", "(1).toPrecision(22)"},
	"evalSyntax":       {"eval('1 +')", "eval('var')", "eval(')')", "var e = eval; e('1 +')", "eval('a b')", "eval('@')"},
	"functionSyntax":   {"new Function('a b')", "Function('a b')", "new Function('a', '1 +')", "Function('(', '')", "new Function('}')"},
	"instanceofNonObj": {"1 instanceof 2", "({}) instanceof 'x'", "1 instanceof null", "({}) instanceof undefined", "({}) instanceof true"},
	"inNonObj":         {"'a' in 1", "'a' in 'b'", "1 in null", "1 in undefined", "'a' in true"},
	"cyclicJSON":       {"var a = {}; a.a = a; JSON.stringify(a)", "var a = []; a[0] = a; JSON.stringify(a)", "var a = {b:{}}; a.b.c = a; JSON.stringify(a)", "var a = {}; a.a = [a]; JSON.stringify([1, a])"},
	"frozenWrite":      {"Object.freeze([1]).push(2)", "Object.freeze([1]).pop()", "Object.freeze([1, 2]).shift()", "Object.freeze([1]).unshift(0)", "Object.preventExtensions([]).push(1)", "Object.freeze([2, 1]).reverse()"},
	"uriMalformed":     {"decodeURIComponent('%')", "decodeURI('%E0%A4%A')", "decodeURIComponent('%C0%80')"},
}

var clsKinds = []string{"unresolvable", "callNonFn", "newNonFn", "memberUndefined", "memberNull", "arrayLenCtor", "arrayLenSet", "radix",
	"fixedPrecision", "expPrecision", "precPrecision", "evalSyntax", "functionSyntax", "instanceofNonObj", "inNonObj", "cyclicJSON", "uriMalformed", "frozenWrite"}

// wrappers: where the construct runs (the class must not depend on it either)
var clsWrap = []string{
	"%s",
	"(function(){ %s })()",
	"[1].forEach(function(){ %s })",
	"new (function(){ %s })()",
	"EVAL",     // inside direct eval code
	"INDIRECT", // inside indirect (global) eval code
}

func implCls(kind string, v int) string {
	cs := clsConstructs[kind]
	if len(cs) == 0 {
		return "bad-op"
	}
	c := cs[v%len(cs)]
	w := clsWrap[(v/len(cs))%len(clsWrap)]
	body := ""
	switch w {
	case "EVAL":
		body = "eval(" + jsStr(c) + ")"
	case "INDIRECT":
		body = "(0, eval)(" + jsStr(c) + ")"
	default:
		body = fmt.Sprintf(w, c)
	}
	src := `var r = "no-throw"; try { ` + body + ` } catch (e) {
  var cs = [["EvalError", EvalError], ["RangeError", RangeError], ["ReferenceError", ReferenceError], ["SyntaxError", SyntaxError], ["TypeError", TypeError], ["URIError", URIError], ["Error", Error]];
  var inst = [];
  for (var i = 0; i < cs.length; i++) { if (e instanceof cs[i][1]) { inst.push(cs[i][0]); } }
  var okchain = true;
  if (inst.length == 2) {
    var C = cs.filter(function (p) { return p[0] == inst[0]; })[0][1];
    okchain = Object.getPrototypeOf(e) === C.prototype && Object.getPrototypeOf(C.prototype) === Error.prototype && e.constructor === C;
  } else if (inst.length == 1) {
    okchain = Object.getPrototypeOf(e) === Error.prototype;
  }
  r = String(e.name) + "," + inst.join("+") + "," + ((typeof e.message == "string" && e.message.length > 0) ? "m1" : "m0") + (okchain ? "" : ",badchain")
    + (String(e) === (e.message ? e.name + ": " + e.message : e.name) ? "" : ",badtostring");
}
r`
	val, err := otto.New().Run(src)
	if err != nil {
		return "run-error:" + hx(err.Error())
	}
	out := strings.ReplaceAll(val.String(), " ", "_")
	// the same construct uncaught: Run's error text must be String(e) as the script saw it
	val2, err2 := otto.New().Run("var s = \"no-throw\"; try { " + body + " } catch (e) { s = String(e) } s")
	_, err3 := otto.New().Run(body)
	if err2 != nil || err3 == nil {
		return out + ",uncaught-run-inconsistent"
	}
	if _, ok := err3.(*otto.Error); !ok {
		return out + fmt.Sprintf(",errtype:%T", err3)
	}
	if err3.Error() != val2.String() {
		return out + ",runtext-differs"
	}
	return out
}

// ---- Run's error text

func jsStr(s string) string {
	var b strings.Builder
	b.WriteByte('"')
	for _, r := range s {
		switch {
		case r == '"' || r == '\\':
			b.WriteByte('\\')
			b.WriteRune(r)
		case r < 0x20 || r == 0x2028 || r == 0x2029:
			fmt.Fprintf(&b, "\\u%04x", r)
		default:
			b.WriteRune(r)
		}
	}
	b.WriteByte('"')
	return b.String()
}

// optS decodes an optional-string token: "e" = the empty string, else hex ("-" = absent is handled by the caller)
func optS(t string) string {
	if t == "e" {
		return ""
	}
	return unhx(t)
}

func optTok(s string) string {
	if s == "" {
		return "e"
	}
	return hex.EncodeToString([]byte(s))
}

func implRunErr(f []string) string {
	var src string
	switch f[0] {
	case "prim":
		// f[1] = expected text (for the model), f[2] = hex of the JS literal
		src = "throw " + unhx(f[2])
	case "obj":
		// an object that is not an error object, with a toString
		src = "throw {toString: function(){ return " + jsStr(optS(f[1])) + " }, name: 'N', message: 'M'}"
	case "err":
		arg := ""
		if f[2] != "-" {
			arg = jsStr(optS(f[2]))
		}
		src = "var e = new " + f[1] + "(" + arg + ");"
		if f[3] != "-" {
			src += " e.name = " + jsStr(optS(f[3])) + ";"
		}
		if f[4] != "-" {
			src += " e.message = " + jsStr(optS(f[4])) + ";"
		}
		src += " throw e"
	default:
		return "bad-op"
	}
	_, err := otto.New().Run(src)
	if err == nil {
		return "no-error"
	}
	return "s:" + hex.EncodeToString([]byte(err.Error()))
}
