package main

import (
	"fmt"
	goruntime "runtime"
	"strings"
	"time"

	"github.com/robertkrimen/otto"
	"ottoverif/h"
	"ottoverif/mujs"
)

func init() {
	// the step hook is a package-level variable of the verif build: one injection at a time
	h.Register(&h.Prop{ID: "C18", Gen: genC18, Impl: implC18, Serial: true})
}

type sentinel struct{ k int }

func newVM(logged *[]string) *otto.Otto {
	vm := otto.New()
	vm.Set("log", func(call otto.FunctionCall) otto.Value {
		*logged = append(*logged, mujs.Tok(call.Argument(0)))
		return call.Argument(0)
	})
	return vm
}

// countSteps runs the program once without injection; returns the number of steps and, per step, the
// length of the host-call trace when that step was reached.
func countSteps(src string) (int, []int, []string) {
	n, lens, logged, _ := countSteps2(src, false)
	return n, lens, logged
}

// inTryNow reports whether the current goroutine is dynamically inside tryCatchEvaluate
// (i.e. a script-level try block encloses the current evaluation step).
func inTryNow() bool {
	pc := make([]uintptr, 256)
	n := goruntime.Callers(2, pc)
	frames := goruntime.CallersFrames(pc[:n])
	for {
		f, more := frames.Next()
		if strings.HasSuffix(f.Function, ".tryCatchEvaluate") {
			return true
		}
		if !more {
			return false
		}
	}
}

func countSteps2(src string, wantTry bool) (int, []int, []string, []bool) {
	var logged []string
	vm := newVM(&logged)
	var lens []int
	var intry []bool
	otto.VerifStepHook = func(depth, labels int) {
		lens = append(lens, len(logged))
		if wantTry {
			intry = append(intry, inTryNow())
		}
	}
	defer func() { otto.VerifStepHook = nil }()
	func() {
		defer func() { recover() }()
		vm.Run(src)
	}()
	return len(lens), lens, logged, intry
}

func restTok(vm *otto.Otto) string {
	d, l, n := otto.VerifScopeDepth(vm), otto.VerifLabelCount(vm), otto.VerifScopeChainLen(vm)
	if d == -1 && l == 0 && n == 0 {
		return "rest:ok"
	}
	return fmt.Sprintf("rest:depth=%d,labels=%d,scopes=%d", d, l, n)
}

func followTok(vm *otto.Otto) string {
	otto.VerifStepHook = nil
	vm.SetStackDepthLimit(0) // the follow-up script has its own nesting
	v, err := vm.Run(`var __f = 0; lbl: for (var __i = 0; __i < 3; __i++) { try { if (__i == 1) continue lbl; __f += (function(x){ return x + 1 })(__i) } finally { __f += 10 } } __f`)
	if err != nil {
		return "follow:err:" + strings.ReplaceAll(err.Error(), " ", "_")
	}
	if f, _ := v.ToInteger(); f != 34 {
		return "follow:wrong:" + v.String()
	}
	return "follow:ok"
}

func implInject(k int, inTry bool, vars, prog string) string {
	src := mujs.RenderJS(vars, prog)
	_, lens, normal := countSteps(src)
	if k >= len(lens) {
		return "k-out-of-range"
	}
	var logged []string
	vm := newVM(&logged)
	step := 0
	otto.VerifStepHook = func(depth, labels int) {
		if step == k {
			step++
			panic(sentinel{k})
		}
		step++
	}
	esc := "caught"
	func() {
		defer func() {
			otto.VerifStepHook = nil
			if r := recover(); r != nil {
				if s, ok := r.(sentinel); ok && s.k == k {
					esc = "escapes"
				} else {
					esc = "other-panic:" + strings.ReplaceAll(fmt.Sprint(r), " ", "_")
				}
			}
		}()
		vm.Run(src)
	}()
	hasTry := inTry
	tr := "trace:exact-prefix"
	want := normal[:lens[k]]
	if strings.Join(want, ",") != strings.Join(logged, ",") {
		tr = "trace:differs(" + strings.Join(logged, ",") + "|want|" + strings.Join(want, ",") + ")"
	}
	if hasTry {
		if esc == "escapes" || esc == "caught" {
			esc = "escapes-or-caught"
		}
		tr = "trace:any"
	}
	return esc + ";" + restTok(vm) + ";" + tr + ";" + followTok(vm)
}

// logCalls runs the program unperturbed and reports, per call of the host function `log`, whether a
// script-level try block was active around it.
func logCalls(src string) []bool {
	var intry []bool
	vm := otto.New()
	vm.Set("log", func(call otto.FunctionCall) otto.Value {
		intry = append(intry, inTryNow())
		return call.Argument(0)
	})
	func() {
		defer func() { recover() }()
		vm.Run(src)
	}()
	return intry
}

// implHostPanic: the j-th call of the HOST FUNCTION `log` panics with a Go value (a real host-function panic,
// raised inside the native call's own scope, not at a polling point).  Outside try blocks it has to come
// out of Run, with the runtime at rest and exactly the first j log entries made.
func implHostPanic(j int, inTry bool, vars, prog string) string {
	src := mujs.RenderJS(vars, prog)
	var normal []string
	vm0 := newVM(&normal)
	func() {
		defer func() { recover() }()
		vm0.Run(src)
	}()
	if j >= len(normal) {
		return "j-out-of-range"
	}
	var logged []string
	vm := otto.New()
	n := 0
	vm.Set("log", func(call otto.FunctionCall) otto.Value {
		if n == j {
			n++
			panic(sentinel{j})
		}
		n++
		logged = append(logged, mujs.Tok(call.Argument(0)))
		return call.Argument(0)
	})
	esc := "caught"
	func() {
		defer func() {
			if r := recover(); r != nil {
				if s, ok := r.(sentinel); ok && s.k == j {
					esc = "escapes"
				} else {
					esc = "other-panic:" + strings.ReplaceAll(fmt.Sprint(r), " ", "_")
				}
			}
		}()
		vm.Run(src)
	}()
	tr := "trace:exact-prefix"
	if strings.Join(normal[:j], ",") != strings.Join(logged, ",") {
		tr = "trace:differs(" + strings.Join(logged, ",") + "|want|" + strings.Join(normal[:j], ",") + ")"
	}
	if inTry {
		if esc == "escapes" || esc == "caught" {
			esc = "escapes-or-caught"
		}
		tr = "trace:any"
	}
	return esc + ";" + restTok(vm) + ";" + tr + ";" + followTok(vm)
}

// implSwallow: what Go callers may do with a halt.  A host function runs a nested script that catches everything,
// the nested script is halted through the channel, and the host function
//   0: recovers the halt and throws a script exception  -> the enclosing try catches THAT (the halt is over)
//   1: recovers the halt and panics with the same value -> still a halt: no try catches it, it leaves Run
//   2: recovers the halt and returns normally           -> the script goes on, a later throw is caught as usual
//   3: lets it pass                                     -> it leaves the outer Run
// and `closed`: a closed Interrupt channel (the README closes it when its watchdog is done) is harmless.
type stop struct{ n int }

// the halt value implements error, like the README's `var halt = errors.New(...)`: code that sorts panics by
// "is it an error value" must not take it for something to convert (seed N06)
func (stop) Error() string { return "stop" }

func implSwallow(variant string) string {
	vm := otto.New()
	vm.Interrupt = make(chan func(), 1)
	vm.Set("arm", func(call otto.FunctionCall) otto.Value {
		vm.Interrupt <- func() { panic(stop{7}) }
		return otto.UndefinedValue()
	})
	spin := `arm(); for(;;){ try { for(;;){} } catch (e) {} }`
	vm.Set("host", func(call otto.FunctionCall) otto.Value {
		var got interface{}
		func() {
			if variant != "3" {
				defer func() { got = recover() }()
			}
			vm.Run(spin)
		}()
		switch variant {
		case "0":
			panic(vm.MakeTypeError("from host"))
		case "1":
			panic(got)
		}
		return otto.UndefinedValue()
	})
	if variant == "closed" {
		close(vm.Interrupt)
		v, err := vm.Run(`var n = 0; for (var i = 0; i < 5; i++) { try { n += i; if (i == 3) throw i } catch (e) { n += 100 } } n`)
		return strings.ReplaceAll(fmt.Sprint("returned:", v, ",", err), " ", "_") + ";" + restTok(vm) + ";" + followTok(vm)
	}
	src := `var r = "none"; try { host(); r = "returned" } catch (e) { r = "caught:" + e } try { throw 1 } catch (e) { r += ";then:" + e } r`
	switch variant {
	case "tostring":
		// the halt arrives while Run converts an uncaught thrown object to its error text (catchPanic runs
		// the object's toString after the script proper has unwound)
		src = `throw {toString: function(){ arm(); for(;;){} }}`
	case "tostring-call":
		// the same inside Value.Call made by a host function: the halt must not be flattened into the
		// error that Call returns
		vm.Set("host", func(call otto.FunctionCall) otto.Value {
			call.Argument(0).Call(otto.UndefinedValue())
			return otto.UndefinedValue()
		})
		src = `var r = "none"; try { host(function(){ throw {toString: function(){ arm(); for(;;){} }} }); r = "returned" } catch (e) { r = "caught" } r`
	}
	if variant == "after-halt" {
		// history independence: a host function that panics with the embedder's one halt value inside a script
		// try gives the same outcome on a runtime that was halted before (by an interrupt function panicking
		// with that very value) as on a fresh one ("later scripts run normally"; fix 0a25d04)
		outcome := func(vm *otto.Otto) string {
			vm.Set("exit", func(call otto.FunctionCall) otto.Value { panic(stop{7}) })
			res := ""
			func() {
				defer func() {
					if r := recover(); r != nil {
						res = "panic:" + strings.ReplaceAll(fmt.Sprint(r), " ", "_")
					}
				}()
				v, err := vm.Run(`var r = "none"; try { exit(); r = "returned" } catch (e) { r = "caught" } r`)
				res = strings.ReplaceAll(fmt.Sprint("returned:", v, ",", err != nil), " ", "_")
			}()
			return res
		}
		fresh := outcome(otto.New())
		first := ""
		func() {
			defer func() {
				if r := recover(); r != nil {
					first = "halted"
				}
			}()
			vm.Run(spin)
			first = "not-halted"
		}()
		vm.Interrupt = nil
		after := outcome(vm)
		same := "same-as-fresh"
		if after != fresh {
			same = "differs(fresh=" + fresh + ",after=" + after + ")"
		}
		return first + ";" + same + ";" + restTok(vm) + ";" + followTok(vm)
	}
	if variant == "rethrow-error" {
		// a host function passes the failure of a call back into script on by panicking with the *otto.Error
		// that Value.Call returned: the enclosing try catches an error of the SAME class (fce86a0)
		vm.Set("host", func(call otto.FunctionCall) otto.Value {
			if _, err := call.Argument(0).Call(otto.UndefinedValue()); err != nil {
				panic(err)
			}
			return otto.UndefinedValue()
		})
		src = `var r = []; try { host(function(){ (1).toFixed(-1) }) } catch (e) { r.push(e.name, e instanceof RangeError) } try { host(function(){ null.x }) } catch (e) { r.push(e.name, e instanceof TypeError) } try { host(function(){ nosuch }) } catch (e) { r.push(e.name) } r.join()`
	}
	out := ""
	func() {
		defer func() {
			if r := recover(); r != nil {
				if s, ok := r.(stop); ok && s.n == 7 {
					out = "halted"
				} else {
					out = "other-panic:" + strings.ReplaceAll(fmt.Sprint(r), " ", "_")
				}
			}
		}()
		v, err := vm.Run(src)
		out = strings.ReplaceAll(fmt.Sprint("returned:", v, ",", err), " ", "_")
	}()
	vm.Interrupt = nil
	return out + ";" + restTok(vm) + ";" + followTok(vm)
}

// implHalt delivers, at evaluation step k, an interrupt function that panics, through the real channel (the
// hook fills the one-slot channel; the poll that follows the hook at every polling point takes it).  Whether
// or not a script-level try block is active there, the panic has to come out of Run with nothing run after it.
func implHalt(k int, vars, prog string) string {
	src := mujs.RenderJS(vars, prog)
	_, lens, normal := countSteps(src)
	if k >= len(lens) {
		return "k-out-of-range"
	}
	var logged []string
	vm := newVM(&logged)
	vm.Interrupt = make(chan func(), 1)
	step := 0
	otto.VerifStepHook = func(depth, labels int) {
		if step == k {
			vm.Interrupt <- func() {
				if k%2 == 1 {
					// every other time the function first runs script on the runtime it interrupts
					// (statements, a caught exception) and only then panics (seed N03)
					otto.VerifStepHook = nil
					vm.Run(`var __h = 0; try { throw 1 } catch (e) { __h = e } for (var __j = 0; __j < 2; __j++) { __h += __j }`)
				}
				panic(sentinel{k})
			}
		}
		step++
	}
	esc := "returned"
	func() {
		defer func() {
			otto.VerifStepHook = nil
			if r := recover(); r != nil {
				if s, ok := r.(sentinel); ok && s.k == k {
					esc = "escapes"
				} else {
					esc = "other-panic:" + strings.ReplaceAll(fmt.Sprint(r), " ", "_")
				}
			}
		}()
		vm.Run(src)
	}()
	vm.Interrupt = nil
	tr := "trace:exact-prefix"
	want := normal[:lens[k]]
	if strings.Join(want, ",") != strings.Join(logged, ",") {
		tr = "trace:differs(" + strings.Join(logged, ",") + "|want|" + strings.Join(want, ",") + ")"
	}
	return esc + ";" + restTok(vm) + ";" + tr + ";" + followTok(vm)
}

// implDepthSeq: k stack overflows inside ONE Run, each caught (how=script: by try/catch where it
// happens; how=host: by a Go host function that swallows the error of Value.Call), and after each a
// probe of how many nested calls the limit admits.
func implDepthSeq(L, k int, how string) string {
	vm := otto.New()
	vm.SetStackDepthLimit(L)
	vm.Set("swallow", func(call otto.FunctionCall) otto.Value {
		call.Argument(0).Call(otto.UndefinedValue())
		return otto.UndefinedValue()
	})
	over := `try { deep() } catch (e) {}`
	switch how {
	case "host":
		over = `try { swallow(deep) } catch (e) {}`
	// exceptions (not overflows) leaving through every kind of scope-entering site, caught in the SAME
	// activation that probes afterwards: each site has to give its level back on the way out (seed P02: a
	// direct eval whose code throws)
	case "evalthrow":
		over = `try { eval("null.x") } catch (e) {}`
	case "evalnested":
		over = `try { eval("eval('throw 1')") } catch (e) {}`
	case "evalsyntax":
		over = `try { eval("(") } catch (e) {}`
	case "ctorthrow":
		over = `try { new (function(){ throw 1 })() } catch (e) {}`
	case "getterthrow":
		over = `try { ({get p(){ throw 1 }}).p } catch (e) {}`
	case "callbackthrow":
		over = `try { [1].forEach(function(){ throw 1 }) } catch (e) {}`
	case "applythrow":
		over = `try { (function(){ throw 1 }).apply(null, []) } catch (e) {}`
	case "convthrow":
		over = `try { "" + {toString: function(){ throw 1 }} } catch (e) {}`
	case "boundthrow":
		over = `try { (function(){ throw 1 }).bind(null)() } catch (e) {}`
	case "functhrow":
		over = `try { Function("throw 1")() } catch (e) {}`
	case "indirectevalthrow":
		over = `try { (0, eval)("null.x") } catch (e) {}`
	case "finallythrow":
		over = `try { try { eval("throw 1") } finally { eval("0") } } catch (e) {}`
	}
	v, err := vm.Run(`var out = []; function deep(){ deep() }
function probe(n){ try { return probe(n + 1) } catch (e) { return n } }
var p; try { p = probe(1) } catch (e) { p = 0 } out.push(p);
for (var i = 0; i < ` + fmt.Sprint(k) + `; i++) { ` + over + `; try { p = probe(1) } catch (e) { p = 0 } out.push(p) } out.join()`)
	res := ""
	if err != nil {
		res = "err:" + strings.ReplaceAll(err.Error(), " ", "_")
	} else {
		res = v.String()
	}
	return res + ";" + restTok(vm) + ";" + followTok(vm)
}

// reenterScript is what the benign interrupt function runs ON THE SAME RUNTIME: labelled loops and
// blocks, a call, try/finally, a caught and an uncaught exception, a direct eval.
const reenterScript = `var __r = 0; A: for (var __a = 0; __a < 2; __a++) { B: { for (;;) { __r++; if (__a) break B; continue A } } }
try { (function(){ throw 1 })() } catch (__e) { __r += 10 } finally { __r += 100 }
C: do { __r += eval("1000"); continue C } while (false); if (__r != 1112) throw new Error("reenter:" + __r); null.x`

// implReenter delivers, at evaluation step k, an interrupt function that does not panic but runs
// script on the runtime it interrupts (Run, Call, Eval); the interrupted program has to go on exactly
// as if nothing had happened: same host-call trace, same outcome, runtime at rest, follow-up fine.
func implReenter(k int, vars, prog string) string {
	src := mujs.RenderJS(vars, prog)
	var want []string
	vm0 := newVM(&want)
	v0, err0 := vm0.Run(src)
	_, lens, _ := countSteps(src)
	if k >= len(lens) {
		return "k-out-of-range"
	}
	var logged []string
	vm := newVM(&logged)
	vm.Interrupt = make(chan func(), 1)
	step, inner := 0, ""
	otto.VerifStepHook = func(depth, labels int) {
		if step == k {
			vm.Interrupt <- func() {
				otto.VerifStepHook = nil
				_, err := vm.Run(reenterScript)
				if err == nil || !strings.Contains(err.Error(), "TypeError") {
					inner = fmt.Sprint("inner-run:", err)
				}
				if v, err := vm.Call(`(function(){ L: for (var i = 0; i < 2; i++) { for (;;) { continue L } } return 7 })`, nil); err != nil || v.String() != "7" {
					inner = fmt.Sprint("inner-call:", v, err)
				}
				vm.Eval(`M: { break M }`)
			}
		}
		step++
	}
	out := "same"
	func() {
		defer func() {
			otto.VerifStepHook = nil
			if r := recover(); r != nil {
				out = "gopanic:" + strings.ReplaceAll(fmt.Sprint(r), " ", "_")
			}
		}()
		v, err := vm.Run(src)
		switch {
		case (err == nil) != (err0 == nil):
			out = "outcome-differs"
		case err != nil && err.Error() != err0.Error():
			out = "error-differs"
		case err == nil && mujs.Tok(v) != mujs.Tok(v0):
			out = "value-differs(" + mujs.Tok(v) + "|want|" + mujs.Tok(v0) + ")"
		}
	}()
	if inner != "" {
		out = strings.ReplaceAll(inner, " ", "_")
	}
	if strings.Join(want, ",") != strings.Join(logged, ",") {
		out += ";trace:differs(" + strings.Join(logged, ",") + "|want|" + strings.Join(want, ",") + ")"
	} else {
		out += ";trace:same"
	}
	return out + ";" + restTok(vm) + ";" + followTok(vm)
}

// leaves: what the innermost of the d script calls does; extra = additional nested scopes it enters
var depthLeaves = []struct {
	js    string
	extra int
}{
	{`0`, 0},
	{`Math.abs(0)`, 1}, // a native function: one more scope
	{`[7].map(function(x){ return 0 })[0]`, 2},        // native calling back into script: two more
	{`(function(){ return 0 }).call(null)`, 2},        // Function.prototype.call (native) + the target
	{`parseInt.apply(null, ["0"])`, 2},                // apply (native) + parseInt (native)
	{`String.prototype.charAt.bind("0", 0)() - 0`, 1}, // bound: passthrough site, then the native target
	{`(new Object(), 0)`, 0},                          // [[Construct]] of a native function enters no scope
	{`(new Date(0), 0)`, 0},
	{`(new (function(){ this.a = 0 })()).a`, 1}, // [[Construct]] of a script function: its function scope
	{`({get p(){ return 0 }}).p`, 1},            // a getter is a call
	{`eval("0")`, 1},                            // direct eval runs in the caller's scope but counts one level (20d0ecf)
	{`(0, eval)("0")`, 2},                       // indirect eval: the native call + a global scope
	{`[0].sort(function(){ return 0 })[0]`, 1},  // the comparefn is never called for one element
	{`"a".replace("a", function(){ return "0" }) - 0`, 2},
	{`String({toString: function(){ return "0" }}) - 0`, 2}, // native String + the script toString
	{`({valueOf: function(){ return 0 }}) - 0`, 1},          // ToPrimitive inside an operator calls straight into script
	{`(function(){ return 0 }).bind(null)()`, 1},
	{`new (Object.bind(null))() ? 0 : 0`, 1},
	{`Function("return 0")()`, 1},
	{`new Function("return 0")()`, 1},
	{`JSON.parse("0", function(k, v){ return v })`, 2},
	{`Object.defineProperty({}, "p", {get: function(){ return 0 }}).p`, 1},
	{`(function(){ return arguments.length }).apply(null, [])`, 2},
	{`new Array(0).length`, 0},
	{`RegExp("a") ? 0 : 0`, 1},
	{`new RegExp("a") ? 0 : 0`, 0},
	{`Error("x") ? 0 : 0`, 1},
	{`new Error("x") ? 0 : 0`, 0},
}

// entries: how the outermost call is made.  Run, Eval and Otto.Call enter a global scope first (depth 0),
// Value.Call and Object.Call with nothing running do not: the callee's own scope is the first one.
var depthEntries = []string{"run", "ottocall", "valuecall", "objectcall", "eval"}

func implDepth(L, d, leaf int, entry string) string {
	vm := otto.New()
	vm.SetStackDepthLimit(L)
	def := fmt.Sprintf(`function f(n){ return n > 0 ? f(n-1) + 1 : (%s) }`, depthLeaves[leaf].js)
	src := fmt.Sprintf(`%s; f(%d)`, def, d-1)
	var v otto.Value
	var err error
	switch entry {
	case "run":
		v, err = vm.Run(src)
	case "eval":
		v, err = vm.Eval(src)
	default:
		if _, err = vm.Run(def + `; var holder = {f: f}`); err != nil {
			return "setup-err"
		}
		switch entry {
		case "ottocall":
			v, err = vm.Call("f", nil, d-1)
		case "valuecall":
			fn, _ := vm.Get("f")
			v, err = fn.Call(otto.UndefinedValue(), d-1)
		case "objectcall":
			ho, _ := vm.Object("holder")
			v, err = ho.Call("f", d-1)
		default:
			return "bad-op"
		}
	}
	if err == nil {
		if n, _ := v.ToInteger(); int(n) != d-1 {
			return "wrong-value:" + v.String()
		}
		return "ok;" + restTok(vm) + ";" + followTok(vm)
	}
	if !strings.HasPrefix(err.Error(), "RangeError") {
		return "err:" + strings.ReplaceAll(err.Error(), " ", "_")
	}
	// catchable by the script?
	vm2 := otto.New()
	vm2.SetStackDepthLimit(L)
	// the try block itself does not add a scope; the catch must see a RangeError instance
	v2, err2 := vm2.Run(fmt.Sprintf(`function f(n){ return n > 0 ? f(n-1) + 1 : (%s) }; var r; try { f(%d); r = "no" } catch (e) { r = (e instanceof RangeError) ? "yes" : "other" } r`, depthLeaves[leaf].js, d-1))
	c := "notcatchable"
	if err2 == nil && v2.String() == "yes" {
		c = "catchable"
	}
	return "RangeError;" + c + ";" + restTok(vm) + ";" + followTok(vm)
}

var spinShapes = []string{
	`for(;;);`,
	`for(;;){}`,
	`while(true);`,
	`while(true){}`,
	`do ; while(true)`,
	`do {} while(true)`,
	`for(var i=0;;i++);`,
	`for(;true;);`,
	`function f(){ for(;;); } f()`,
	`function f(){ while(true){} } function g(){ f() } g()`,
	`[1,2,3].forEach(function(){ for(;;); })`,
	`[3,2,1].sort(function(a,b){ while(true); })`,
	`"abc".replace(/b/, function(){ for(;;){} })`,
	`var o = {valueOf: function(){ for(;;); }}; o + 1`,
	`var o = {get p(){ while(true); }}; o.p`,
	`l: for(;;) { continue l }`,
	`l: while(true) { m: for(;;) { continue l } }`,
	`for(;;) { try { continue } finally { } }`,
	`switch (1) { case 1: for(;;); }`,
	`with ({}) { for(;;); }`,
	`for (var k in {a:1}) { for(;;); }`,
	`function f(){ f2() } function f2(){ for(;;); } new f()`,
	`eval("for(;;);")`,
	`(function(){ for(;;); }).call(null)`,
	`(function(){ for(;;); }).apply(null, [])`,
	`JSON.stringify({toJSON: function(){ for(;;); }})`,
	// scripts that catch everything: the halt must still come out (fix fd4edef)
	`for(;;){ try { for(;;){} } catch (e) {} }`,
	`try { for(;;); } catch (e) { } finally { }`,
	`for(;;) { try { throw 1 } catch (e) { } }`,
	`for(;;) { try { null.x } catch (e) { } finally { } }`,
	`function f(){ try { f2() } catch (e) { return 1 } } function f2(){ for(;;); } f()`,
	`[1].forEach(function(){ try { for(;;); } catch (e) {} })`,
	`try { try { while(true){} } finally { } } catch (e) { }`,
	`for(;;) { try { eval("for(;;);") } catch (e) { } }`,
	`var o = {toString: function(){ try { for(;;); } catch (e) { } return "" }}; for(;;) { try { "" + o } catch (e) { } }`,
	// built-ins walking an array-like whose length the script chooses: 2^32-1 iterations, minutes, without a
	// statement in between; they poll the channel themselves (fix a37105a)
	`[].indexOf.call({length: 4294967295}, 1)`,
	`[].lastIndexOf.call({length: 4294967295}, 1)`,
	`[].forEach.call({length: 4294967295}, function(){})`,
	`[].every.call({length: 4294967295}, function(){})`,
	`[].some.call({length: 4294967295}, function(){})`,
	`[].filter.call({length: 4294967295}, function(){})`,
	`[].reduce.call({length: 4294967295}, function(){}, 0)`,
	`[].reduceRight.call({length: 4294967295}, function(){}, 0)`,
	`[].reduce.call({length: 4294967295}, function(){})`,
	`[].reduceRight.call({length: 4294967295}, function(){})`,
	`[].reverse.call({length: 4294967295})`,
	`[].sort.call({length: 4294967295})`,
	`[].shift.call({length: 4294967295})`,
	`[].unshift.call({length: 4294967290}, 1)`,
	`[].splice.call({length: 4294967295}, 0, 1)`,
	`[].splice.call({length: 4294967290}, 0, 0, 1)`,
	`var a = []; a.length = 4294967295; a.length = 0`,
	`var a = []; a.length = 4294967295; a.sort()`,
	`try { [].indexOf.call({length: 4294967295}, 1) } catch (e) { }`,
}

type halt struct{}

// spinOnce runs a spinning script on vm and sends it one interrupt; how did Run end?
func spinOnce(vm *otto.Otto, src string, fn func()) string {
	vm.Interrupt = make(chan func(), 1)
	done := make(chan string, 1)
	exited := make(chan struct{})
	go func() {
		defer close(exited)
		defer func() {
			if r := recover(); r != nil {
				if _, ok := r.(halt); ok {
					done <- "halted"
					return
				}
				done <- "other-panic:" + strings.ReplaceAll(fmt.Sprint(r), " ", "_")
				return
			}
		}()
		_, err := vm.Run(src)
		done <- "returned:" + strings.ReplaceAll(fmt.Sprint(err), " ", "_")
	}()
	time.Sleep(5 * time.Millisecond)
	vm.Interrupt <- fn
	select {
	case r := <-done:
		vm.Interrupt = nil
		return r
	case <-time.After(3 * time.Second):
		// the script goes on spinning (it may have caught the halt): end its goroutine, which no script-level
		// try can prevent (Goexit is not a panic), so that it neither burns a core nor touches vm any more
		select {
		case vm.Interrupt <- func() { goruntime.Goexit() }:
		default:
		}
		select {
		case <-exited:
		case <-time.After(2 * time.Second):
		}
		return "timeout"
	}
}

// implICopy: the interrupt channel and the back pointer of runtimes made by Copy().  A copy has a
// handle of its own: it polls ITS channel (none until the embedder installs one), never the template's,
// and a host function running on the copy is handed the copy.
func implICopy(variant int) string {
	finite := `var n = 0; for (var i = 0; i < 2000; i++) { n += i } n`
	tmpl := otto.New()
	tmpl.Set("whoami", func(call otto.FunctionCall) otto.Value {
		call.Otto.Set("touchedBy", call.Argument(0))
		return otto.UndefinedValue()
	})
	mk := func() *otto.Otto { return tmpl.Copy() }
	switch variant {
	case 0, 2:
		cp := mk()
		if variant == 2 {
			cp = cp.Copy()
		}
		return "copy:" + spinOnce(cp, `for(;;){}`, func() { panic(halt{}) }) + ";" + restTok(cp) + ";" + followTok(cp)
	case 1, 3:
		// the template has a channel with a function waiting (or just a channel); a copy runs a finite script
		tmpl.Interrupt = make(chan func(), 1)
		calls := 0
		if variant == 1 {
			tmpl.Interrupt <- func() { calls++ }
		}
		cp := mk()
		v, err := cp.Run(finite)
		r := fmt.Sprint("copy:", v, ",", err, ",stolen=", calls)
		if variant == 3 {
			// the copy gets its own channel: halting the copy leaves the template alone
			r += ";" + spinOnce(cp, `while(true){}`, func() { panic(halt{}) })
			tmpl.Interrupt <- func() { calls++ }
		}
		v, err = tmpl.Run(finite)
		return strings.ReplaceAll(r+fmt.Sprint(";template:", v, ",", err, ",calls=", calls), " ", "_") + ";" + restTok(cp) + ";" + followTok(tmpl)
	case 4:
		cp := mk()
		cp.Run(`whoami("copy")`)
		a, _ := cp.Run(`typeof touchedBy`)
		b, _ := tmpl.Run(`typeof touchedBy`)
		tmpl.Run(`whoami("template")`)
		c, _ := cp.Run(`touchedBy`)
		d, _ := tmpl.Run(`touchedBy`)
		return fmt.Sprintf("copy:%v,template:%v;then:copy:%v,template:%v", a, b, c, d)
	}
	return "bad-op"
}

func implInterrupt(shape int) string {
	if shape < 0 || shape >= len(spinShapes) {
		return "bad-shape"
	}
	vm := otto.New()
	r := spinOnce(vm, spinShapes[shape], func() { panic(halt{}) })
	if r == "timeout" {
		return r
	}
	out := r + ";" + restTok(vm) + ";" + followTok(vm)
	// the SAME runtime again (the property: "the runtime stays consistent and later scripts run
	// normally" includes being interruptible again): a non-panicking interrupt function is called and
	// the bounded script completes; then another spin is halted
	called := false
	vm.Interrupt = make(chan func(), 1)
	vm.Interrupt <- func() { called = true }
	v, err := vm.Run(`var __n = 0; for (var __i = 0; __i < 50; __i++) { __n += __i } __n`)
	vm.Interrupt = nil
	if err != nil || v.String() != "1225" || !called {
		return out + fmt.Sprintf(";again:benign-interrupt-lost(called=%v,err=%v)", called, err != nil)
	}
	second := spinOnce(vm, spinShapes[(shape+7)%len(spinShapes)], func() { panic(halt{}) })
	return out + ";again:" + second
}

func implC18(line string) string {
	f := strings.Fields(line)
	var a, b int
	switch f[0] {
	case "inject":
		fmt.Sscan(f[1], &a)
		return implInject(a, f[2] == "intry", f[3], f[4])
	case "depthseq":
		fmt.Sscan(f[1], &a)
		fmt.Sscan(f[2], &b)
		return implDepthSeq(a, b, f[3])
	case "reenter":
		fmt.Sscan(f[1], &a)
		return implReenter(a, f[2], f[3])
	case "halt":
		fmt.Sscan(f[1], &a)
		return implHalt(a, f[3], f[4])
	case "swallow":
		return implSwallow(f[1])
	case "hostpanic":
		fmt.Sscan(f[1], &a)
		return implHostPanic(a, f[2] == "intry", f[3], f[4])
	case "depth":
		fmt.Sscan(f[1], &a)
		fmt.Sscan(f[2], &b)
		leaf, entry := 0, "run"
		if len(f) > 3 {
			fmt.Sscan(f[3], &leaf)
		}
		if len(f) > 4 {
			entry = f[4]
		}
		if leaf < 0 || leaf >= len(depthLeaves) {
			return "bad-op"
		}
		return implDepth(a, b, leaf, entry)
	case "interrupt":
		fmt.Sscan(f[1], &a)
		return implInterrupt(a)
	case "icopy":
		fmt.Sscan(f[1], &a)
		return implICopy(a)
	}
	return "bad-op"
}

func reenterTemplates() []string {
	pre := "V(asg(x,n0),asg(y,n0),asg(n,n0))"
	cnt := "X(asg(n,add(var(n),n1)))"
	post := "X(log(var(n))),X(log(var(x)))"
	// jumps: how the labelled continue / break is reached inside the loop body
	jumps := []string{
		"C(l1)", "K(l1)",
		"W(t,B(C(l1)))", "D(B(C(l1)),t)", "F(_,_,_,B(C(l1)))", "F(_,_,_,B(K(l1)))",
		"S(n1,c(n1,C(l1)))", "Y(B(C(l1)),0,e,B(),1,B(" + cnt + "))", "Y(B(T(n1)),1,e,B(C(l1)),0,B())",
		"L(l2,W(t,B(I(lt(var(y),n1),C(l1),K(l2)))))", "B(B(C(l1)))", "I(t,C(l1),E)",
	}
	var out []string
	for _, j := range jumps {
		body := "B(" + cnt + ",X(log(var(x)))," + j + ",X(log(n9)))"
		loops := []string{
			"F(asg(x,n0),lt(var(x),n3),asg(x,add(var(x),n1))," + body + ")",
			"W(lt(asg(x,add(var(x),n1)),n3)," + body + ")",
			"D(" + body + ",lt(asg(x,add(var(x),n1)),n3))",
		}
		for _, l := range loops {
			out = append(out, "P("+pre+",L(l1,"+l+"),"+post+")")
			out = append(out, "P("+pre+",L(l0,L(l1,"+l+")),"+post+")")
			out = append(out, "P("+pre+",L(l1,L(l3,"+l+")),"+post+")")
			out = append(out, "P("+pre+",L(l9,B(X(log(n7)),L(l1,"+l+"),K(l9),X(log(n8)))),"+post+")")
		}
	}
	return out
}

func genC18(c *h.Ctx) {
	for i := range spinShapes {
		w := "free"
		if strings.Contains(spinShapes[i], "try") {
			w = "intry"
		}
		c.Add(fmt.Sprintf("interrupt %d %s", i, w), "interrupt")
	}
	for v := 0; v <= 4; v++ {
		c.Add(fmt.Sprintf("icopy %d", v), "icopy")
	}
	for _, v := range []string{"0", "1", "2", "3", "closed", "tostring", "tostring-call", "rethrow-error", "after-halt"} {
		c.Add("swallow "+v, "swallow")
	}
	maxL := c.N(12, 64)
	for L := 0; L <= maxL; L++ {
		lo := L - 3
		if lo < 1 {
			lo = 1
		}
		for d := lo; d <= L+3; d++ {
			for leaf := range depthLeaves {
				c.Add(fmt.Sprintf("depth %d %d %d", L, d, leaf), fmt.Sprintf("depth:leaf%d", leaf))
				e := depthEntries[(L+d+leaf)%len(depthEntries)]
				if e != "run" && (L <= 16 || c.Thorough()) {
					c.Add(fmt.Sprintf("depth %d %d %d %s", L, d, leaf, e), "depth:entry-"+e)
				}
			}
		}
	}
	for L := 2; L <= maxL; L++ { // with L = 1 global code cannot call anything, not even out.push
		for _, k := range []int{1, 2, 3, L - 1, L, L + 2} {
			if k < 1 || k > 40 {
				continue
			}
			c.Add(fmt.Sprintf("depthseq %d %d script", L, k), "depthseq:caught-by-script")
			c.Add(fmt.Sprintf("depthseq %d %d host", L, k), "depthseq:swallowed-by-host")
			if k <= L+2 && (L <= 12 || c.Thorough()) {
				for _, how := range []string{"evalthrow", "evalnested", "evalsyntax", "ctorthrow", "getterthrow", "callbackthrow", "applythrow", "convthrow", "boundthrow", "functhrow", "indirectevalthrow", "finallythrow"} {
					c.Add(fmt.Sprintf("depthseq %d %d %s", L, k, how), "depthseq:exception-through-"+how)
				}
			}
		}
	}
	// labelled loops of every kind with the labelled continue/break taken from every position: the
	// window between a label push and the loop that takes it over is one particular step k
	for ti, prog := range reenterTemplates() {
		steps, _, _, intry := countSteps2(mujs.RenderJS("x,y,n", prog), true)
		for k := 0; k < steps && k < 400; k++ {
			c.Add(fmt.Sprintf("reenter %d x,y,n %s", k, prog), fmt.Sprintf("reenter:template%d", ti%4))
			if k%3 == 0 {
				w := "free"
				if intry[k] {
					w = "intry"
				}
				c.Add(fmt.Sprintf("inject %d %s x,y,n %s", k, w, prog), "inject:labelled-loop-template")
				c.Add(fmt.Sprintf("halt %d %s x,y,n %s", k, w, prog), "halt:labelled-loop-template")
			}
		}
	}
	n := c.N(150, 6000)
	for i := 0; i < n; i++ {
		vars, prog, _ := mujs.GenProgram(c.Rng.Fork(), 6+c.Rng.Intn(25))
		steps, _, _, intry := countSteps2(mujs.RenderJS(vars, prog), true)
		ks := []int{}
		if steps <= 40 || c.Thorough() && steps <= 200 {
			for k := 0; k < steps; k++ {
				ks = append(ks, k)
			}
		} else {
			for j := 0; j < 40; j++ {
				ks = append(ks, c.Rng.Intn(steps))
			}
		}
		for j, in := range logCalls(mujs.RenderJS(vars, prog)) {
			if j >= 40 {
				break
			}
			if in {
				c.Add(fmt.Sprintf("hostpanic %d intry %s %s", j, vars, prog), "hostpanic:inside-try")
			} else {
				c.Add(fmt.Sprintf("hostpanic %d free %s %s", j, vars, prog), "hostpanic:outside-try")
			}
		}
		for _, k := range ks {
			c.Add(fmt.Sprintf("reenter %d %s %s", k, vars, prog), "reenter:benign-interrupt-running-script")
			if intry[k] {
				c.Add(fmt.Sprintf("halt %d intry %s %s", k, vars, prog), "halt:inside-try")
			} else {
				c.Add(fmt.Sprintf("halt %d free %s %s", k, vars, prog), "halt:outside-try")
			}
			if intry[k] {
				c.Add(fmt.Sprintf("inject %d intry %s %s", k, vars, prog), "inject:inside-try")
			} else if strings.Contains(prog, "Y(") {
				c.Add(fmt.Sprintf("inject %d free %s %s", k, vars, prog), "inject:outside-try-in-program-with-try")
			} else {
				c.Add(fmt.Sprintf("inject %d free %s %s", k, vars, prog), "inject:no-try")
			}
		}
	}
}
