// Command c18 is the correspondence harness binary for property C18.
//
//	ottoh-C18 --facts <out.lean>     regenerate the structural facts from /repo
package main

import (
	"fmt"
	"os"

	"ottoverif/h"
)

func main() {
	if len(os.Args) >= 3 && os.Args[1] == "--facts" {
		if err := writeFacts("/repo", os.Args[2]); err != nil {
			fmt.Fprintln(os.Stderr, err)
			os.Exit(1)
		}
		return
	}
	h.Main("C18")
}
