// Command c18 is the correspondence harness binary for property C18.
//
//	ottoh-C18 --facts <out.lean>     regenerate the structural facts from /repo
package main

import (
	"fmt"
	"os"

	"ottoverif/h"
)

func main() {
	if len(os.Args) >= 3 && os.Args[1] == "--facts" {
		if err := writeFacts(repoRoot(), os.Args[2]); err != nil {
			fmt.Fprintln(os.Stderr, err)
			os.Exit(1)
		}
		return
	}
	h.Main("C18")
}

// repoRoot: /repo, or the scratch worktree named by VERIF_REPO (development aid of ./check)
func repoRoot() string {
	if r := os.Getenv("VERIF_REPO"); r != "" {
		return r
	}
	return "/repo"
}
