package main

import (
	"fmt"
	"go/ast"
	"go/parser"
	"go/token"
	"os"
	"path/filepath"
	"sort"
	"strings"
)

// writeFacts extracts structural facts about unwinding and polling from /repo's current
// sources (go/ast) and writes them as a Lean data file.
func writeFacts(repo, out string) error {
	fset := token.NewFileSet()
	files, _ := filepath.Glob(filepath.Join(repo, "*.go"))
	sort.Strings(files)
	type site struct {
		file, fn string
		paired   bool
	}
	var sites []site
	labelOK := false
	pollTop := map[string]bool{}
	forPoll := false
	type loop struct {
		fn  string
		ok  bool
		pos token.Pos
	}
	var loops []loop
	// F6: who assigns a `.scope` field (the scope chain head): every entry must go through
	// enterScope, the only place that checks the stack limit and numbers the depth
	scopeWriters := map[string]bool{}

	hasSel := func(n ast.Node, name string) bool {
		found := false
		ast.Inspect(n, func(x ast.Node) bool {
			if s, ok := x.(*ast.SelectorExpr); ok && s.Sel.Name == name {
				found = true
			}
			return !found
		})
		return found
	}
	src := func(n ast.Node) string {
		var b strings.Builder
		ast.Fprint(&b, fset, n, nil)
		return b.String()
	}
	_ = src
	isPollIf := func(st ast.Stmt, wantLenBody bool) bool {
		ifs, ok := st.(*ast.IfStmt)
		if !ok {
			return false
		}
		if !hasSel(ifs.Cond, "Interrupt") {
			return false
		}
		if wantLenBody {
			has := false
			ast.Inspect(ifs.Cond, func(x ast.Node) bool {
				if c, ok := x.(*ast.CallExpr); ok {
					if id, ok := c.Fun.(*ast.Ident); ok && id.Name == "len" {
						has = true
					}
				}
				return true
			})
			if !has {
				return false
			}
		}
		sel := false
		ast.Inspect(ifs.Body, func(x ast.Node) bool {
			if s, ok := x.(*ast.SelectStmt); ok {
				for _, c := range s.Body.List {
					cc := c.(*ast.CommClause)
					if cc.Comm != nil && hasSel(cc.Comm, "Interrupt") {
						// the received function must be called
						for _, b := range cc.Body {
							if es, ok := b.(*ast.ExprStmt); ok {
								if _, ok := es.X.(*ast.CallExpr); ok {
									sel = true
								}
							}
						}
					}
				}
			}
			return true
		})
		return sel
	}
	// F6: the statement poll sets the pending labels aside around the received function
	// (x := rt.labels; rt.labels = nil; value(); rt.labels = x)
	pollKeepsLabels := func(st ast.Stmt) bool {
		ok := false
		ast.Inspect(st, func(x ast.Node) bool {
			cc, isCC := x.(*ast.CommClause)
			if !isCC || cc.Comm == nil || !hasSel(cc.Comm, "Interrupt") || len(cc.Body) != 4 {
				return true
			}
			save, ok1 := cc.Body[0].(*ast.AssignStmt)
			clear, ok2 := cc.Body[1].(*ast.AssignStmt)
			call, ok3 := cc.Body[2].(*ast.ExprStmt)
			back, ok4 := cc.Body[3].(*ast.AssignStmt)
			if !(ok1 && ok2 && ok3 && ok4) || len(save.Lhs) != 1 || len(back.Rhs) != 1 || len(clear.Rhs) != 1 {
				return true
			}
			id, isID := save.Lhs[0].(*ast.Ident)
			id2, isID2 := back.Rhs[0].(*ast.Ident)
			nilID, isNil := clear.Rhs[0].(*ast.Ident)
			_, isCall := call.X.(*ast.CallExpr)
			if isID && isID2 && isNil && isCall && id.Name == id2.Name && nilID.Name == "nil" && save.Tok.String() == ":=" &&
				hasSel(save.Rhs[0], "labels") && hasSel(clear.Lhs[0], "labels") && hasSel(back.Lhs[0], "labels") {
				ok = true
			}
			return true
		})
		return ok
	}
	stmtPollKeeps := false
	copyFresh := false
	// F8: the panic of an interrupt function is not recovered by try statements:
	//  pollsVia: every receive from the Interrupt channel hands the function to rt.interrupt
	//  notes:    interrupt = { [nil function: return]; defer func(){ if c := recover(); c != nil { rt.halting, rt.haltValue = true, c; panic(c) } }(); function() }
	//  tryLets:  the deferred function of tryCatchEvaluate is `if c := recover(); c != nil { if rt.halting { if samePanic(c, rt.haltValue) { panic(c) } … } … }`
	pollsVia, pollCount, notes, tryLets := true, 0, false, false
	// F9: loops of built-ins that poll the channel themselves (rt.pollInterrupt as a statement of the loop body):
	// function -> number of such loops
	nativePolls := map[string]int{}

	for _, f := range files {
		base := filepath.Base(f)
		if strings.HasSuffix(base, "_test.go") || strings.HasPrefix(base, "verif_") {
			continue
		}
		af, err := parser.ParseFile(fset, f, nil, 0)
		if err != nil {
			return err
		}
		for _, d := range af.Decls {
			fd, ok := d.(*ast.FuncDecl)
			if !ok || fd.Body == nil {
				continue
			}
			name := fd.Name.Name
			ast.Inspect(fd.Body, func(x ast.Node) bool {
				var body *ast.BlockStmt
				switch l := x.(type) {
				case *ast.ForStmt:
					body = l.Body
				case *ast.RangeStmt:
					body = l.Body
				default:
					return true
				}
				for _, st := range body.List {
					if es, ok := st.(*ast.ExprStmt); ok {
						if c, ok := es.X.(*ast.CallExpr); ok {
							if se, ok := c.Fun.(*ast.SelectorExpr); ok && se.Sel.Name == "pollInterrupt" && len(c.Args) == 1 {
								nativePolls[name]++
							}
						}
					}
				}
				return true
			})
			ast.Inspect(fd.Body, func(x ast.Node) bool {
				cc, isCC := x.(*ast.CommClause)
				if !isCC || cc.Comm == nil || !hasSel(cc.Comm, "Interrupt") {
					return true
				}
				pollCount++
				via := false
				for _, st := range cc.Body {
					if es, ok := st.(*ast.ExprStmt); ok {
						if c, ok := es.X.(*ast.CallExpr); ok {
							if se, ok := c.Fun.(*ast.SelectorExpr); ok && se.Sel.Name == "interrupt" && len(c.Args) == 1 {
								via = true
							} else {
								via = false // the received function called in some other way
								break
							}
						}
					}
				}
				pollsVia = pollsVia && via
				return true
			})
			isCallOf := func(st ast.Stmt, fn string, nargs int) bool {
				es, ok := st.(*ast.ExprStmt)
				if !ok {
					return false
				}
				c, ok := es.X.(*ast.CallExpr)
				if !ok || len(c.Args) != nargs {
					return false
				}
				id, ok := c.Fun.(*ast.Ident)
				return ok && id.Name == fn
			}
			// `if <v> := recover(); <v> != nil { body }` -> body, v
			recoverIf := func(st ast.Stmt) ([]ast.Stmt, string) {
				ifs, ok := st.(*ast.IfStmt)
				if !ok || ifs.Init == nil || ifs.Else != nil {
					return nil, ""
				}
				as, ok := ifs.Init.(*ast.AssignStmt)
				if !ok || len(as.Lhs) != 1 || len(as.Rhs) != 1 {
					return nil, ""
				}
				v, ok1 := as.Lhs[0].(*ast.Ident)
				c, ok2 := as.Rhs[0].(*ast.CallExpr)
				if !ok1 || !ok2 {
					return nil, ""
				}
				if id, ok := c.Fun.(*ast.Ident); !ok || id.Name != "recover" {
					return nil, ""
				}
				return ifs.Body.List, v.Name
			}
			if name == "interrupt" && fd.Recv != nil && len(fd.Type.Params.List) == 1 {
				// [if function == nil { return }]; defer func(){ if caught := recover(); caught != nil {
				//   rt.halting, rt.haltValue = true, caught; panic(caught) } }(); function()
				param := fd.Type.Params.List[0].Names[0].Name
				list := fd.Body.List
				if len(list) == 3 {
					if ifs, ok := list[0].(*ast.IfStmt); ok && len(ifs.Body.List) == 1 {
						if _, isRet := ifs.Body.List[0].(*ast.ReturnStmt); isRet {
							list = list[1:]
						}
					}
				}
				if len(list) == 2 && isCallOf(list[1], param, 0) {
					if d, ok := list[0].(*ast.DeferStmt); ok {
						if fl, ok := d.Call.Fun.(*ast.FuncLit); ok && len(fl.Body.List) == 1 {
							body, v := recoverIf(fl.Body.List[0])
							if len(body) == 2 && isCallOf(body[1], "panic", 1) {
								as, ok := body[0].(*ast.AssignStmt)
								if ok && len(as.Lhs) == 2 && len(as.Rhs) == 2 && hasSel(as.Lhs[0], "halting") && hasSel(as.Lhs[1], "haltValue") {
									t, ok1 := as.Rhs[0].(*ast.Ident)
									w, ok2 := as.Rhs[1].(*ast.Ident)
									notes = ok1 && ok2 && t.Name == "true" && w.Name == v
								}
							}
						}
					}
				}
			}
			if name == "tryCatchEvaluate" {
				// defer func(){ if caught := recover(); caught != nil { if rt.halting { if samePanic(caught, rt.haltValue) { panic(caught) } … } … } }()
				for _, st := range fd.Body.List {
					ds, ok := st.(*ast.DeferStmt)
					if !ok {
						continue
					}
					fl, ok := ds.Call.Fun.(*ast.FuncLit)
					if !ok || len(fl.Body.List) != 1 {
						continue
					}
					body, v := recoverIf(fl.Body.List[0])
					if len(body) < 2 {
						continue
					}
					ifs, ok := body[0].(*ast.IfStmt)
					if !ok || ifs.Init != nil || len(ifs.Body.List) == 0 {
						continue
					}
					if se, ok := ifs.Cond.(*ast.SelectorExpr); !ok || se.Sel.Name != "halting" {
						continue
					}
					inner, ok := ifs.Body.List[0].(*ast.IfStmt)
					if !ok || len(inner.Body.List) != 1 || !isCallOf(inner.Body.List[0], "panic", 1) {
						continue
					}
					c, ok := inner.Cond.(*ast.CallExpr)
					if !ok || len(c.Args) != 2 {
						continue
					}
					id, ok1 := c.Fun.(*ast.Ident)
					a0, ok2 := c.Args[0].(*ast.Ident)
					if ok1 && ok2 && id.Name == "samePanic" && a0.Name == v && hasSel(c.Args[1], "haltValue") {
						tryLets = true
					}
				}
			}
			ast.Inspect(fd.Body, func(x ast.Node) bool {
				if as, ok := x.(*ast.AssignStmt); ok {
					for _, l := range as.Lhs {
						if se, ok := l.(*ast.SelectorExpr); ok && se.Sel.Name == "scope" {
							scopeWriters[base+":"+name] = true
						}
					}
				}
				return true
			})
			// F1 scope pairing
			if name != "enterGlobalScope" && name != "enterFunctionScope" && name != "enterScope" {
				ast.Inspect(fd.Body, func(x ast.Node) bool {
					var list []ast.Stmt
					switch b := x.(type) {
					case *ast.BlockStmt:
						list = b.List
					case *ast.CaseClause:
						list = b.Body
					default:
						return true
					}
					for i, st := range list {
						var call *ast.CallExpr
						switch s := st.(type) {
						case *ast.ExprStmt:
							call, _ = s.X.(*ast.CallExpr)
						case *ast.AssignStmt:
							if len(s.Rhs) == 1 {
								call, _ = s.Rhs[0].(*ast.CallExpr)
							}
						}
						if call == nil {
							continue
						}
						se, ok := call.Fun.(*ast.SelectorExpr)
						if !ok || (se.Sel.Name != "enterGlobalScope" && se.Sel.Name != "enterFunctionScope" && se.Sel.Name != "enterScope") {
							continue
						}
						paired := false
						for j := i + 1; j < len(list) && j <= i+2; j++ {
							if ds, ok := list[j].(*ast.DeferStmt); ok && hasSel(ds, "leaveScope") {
								paired = true
							}
							// nothing that can panic may sit between enter and defer: only plain assignments
							if _, ok := list[j].(*ast.AssignStmt); !ok {
								break
							}
						}
						sites = append(sites, site{base, name, paired})
					}
					return true
				})
			}
			// F7 Otto.Copy builds a fresh handle: `out := &Otto{runtime: o.runtime.clone()}` (no other field, no
			// struct copy), `out.runtime.otto = out`, `return out`
			if name == "Copy" && base == "otto.go" && len(fd.Body.List) == 3 {
				as, ok1 := fd.Body.List[0].(*ast.AssignStmt)
				back, ok2 := fd.Body.List[1].(*ast.AssignStmt)
				ret, ok3 := fd.Body.List[2].(*ast.ReturnStmt)
				if ok1 && ok2 && ok3 && len(as.Lhs) == 1 && len(as.Rhs) == 1 && len(back.Lhs) == 1 && len(back.Rhs) == 1 && len(ret.Results) == 1 {
					outID, isID := as.Lhs[0].(*ast.Ident)
					ue, isUE := as.Rhs[0].(*ast.UnaryExpr)
					if isID && isUE {
						if cl, isCL := ue.X.(*ast.CompositeLit); isCL && len(cl.Elts) == 1 {
							if kv, isKV := cl.Elts[0].(*ast.KeyValueExpr); isKV {
								k, _ := kv.Key.(*ast.Ident)
								rhsID, _ := back.Rhs[0].(*ast.Ident)
								retID, _ := ret.Results[0].(*ast.Ident)
								sel, _ := back.Lhs[0].(*ast.SelectorExpr)
								if k != nil && k.Name == "runtime" && hasSel(kv.Value, "clone") && rhsID != nil && rhsID.Name == outID.Name &&
									retID != nil && retID.Name == outID.Name && sel != nil && sel.Sel.Name == "otto" {
									copyFresh = true
								}
							}
						}
					}
				}
			}
			// F2 label push / deferred pop, F3 poll at top
			if name == "cmplEvaluateNodeStatement" || name == "cmplEvaluateNodeExpression" {
				list := fd.Body.List
				k := 0
				if len(list) > 0 {
					if es, ok := list[0].(*ast.ExprStmt); ok {
						if c, ok := es.X.(*ast.CallExpr); ok {
							if id, ok := c.Fun.(*ast.Ident); ok && id.Name == "verifStep" {
								k = 1
							}
						}
					}
				}
				// `rt.halting = false` (a constant stored in a field of the runtime) may precede the poll
				for len(list) > k {
					as, ok := list[k].(*ast.AssignStmt)
					if !ok || len(as.Lhs) != 1 || len(as.Rhs) != 1 {
						break
					}
					_, isSel := as.Lhs[0].(*ast.SelectorExpr)
					lit, isLit := as.Rhs[0].(*ast.Ident)
					if !isSel || !isLit || (lit.Name != "false" && lit.Name != "true") {
						break
					}
					k++
				}
				pollTop[name] = len(list) > k && isPollIf(list[k], false)
				if name == "cmplEvaluateNodeStatement" && len(list) > k {
					stmtPollKeeps = pollKeepsLabels(list[k])
				}
			}
			if name == "cmplEvaluateNodeStatement" {
				ast.Inspect(fd.Body, func(x ast.Node) bool {
					cc, ok := x.(*ast.CaseClause)
					if !ok || len(cc.List) != 1 {
						return true
					}
					if st, ok := cc.List[0].(*ast.StarExpr); ok {
						if id, ok := st.X.(*ast.Ident); ok && id.Name == "nodeLabelledStatement" && len(cc.Body) >= 2 {
							as, ok1 := cc.Body[0].(*ast.AssignStmt)
							ds, ok2 := cc.Body[1].(*ast.DeferStmt)
							if ok1 && ok2 && hasSel(as, "labels") {
								pop := false
								ast.Inspect(ds, func(y ast.Node) bool {
									if sl, ok := y.(*ast.SliceExpr); ok && hasSel(sl.X, "labels") {
										pop = true
									}
									return true
								})
								labelOK = pop
							}
						}
					}
					return true
				})
			}
			// F4 loops
			switch name {
			case "cmplEvaluateNodeDoWhileStatement", "cmplEvaluateNodeForInStatement", "cmplEvaluateNodeForStatement", "cmplEvaluateModeWhileStatement":
				for _, st := range fd.Body.List {
					var fs *ast.ForStmt
					switch s := st.(type) {
					case *ast.ForStmt:
						fs = s
					case *ast.LabeledStmt:
						fs, _ = s.Stmt.(*ast.ForStmt)
					}
					if fs == nil {
						continue
					}
					ok := hasSel(fs.Body, "cmplEvaluateNodeExpression") || hasSel(fs.Body, "cmplEvaluateNodeStatement")
					if name == "cmplEvaluateNodeForStatement" {
						// test and update are optional and the body may be empty: the explicit poll must be there
						p := false
						for _, b := range fs.Body.List {
							if isPollIf(b, true) {
								p = true
							}
						}
						forPoll = p
						ok = ok && p
					}
					loops = append(loops, loop{name, ok, fs.Pos()})
				}
			}
		}
	}
	sort.SliceStable(sites, func(i, j int) bool { return sites[i].file < sites[j].file })
	sort.SliceStable(loops, func(i, j int) bool { return loops[i].fn < loops[j].fn })
	var b strings.Builder
	b.WriteString("/- GENERATED from /repo's current sources by harness/cmd/c18 --facts.  Do not edit, do not commit. -/\nnamespace OttoVerif.C18.Gen\n\n")
	b.WriteString("def scopeSites : List (String × String × Bool) := [")
	for i, s := range sites {
		if i > 0 {
			b.WriteString(", ")
		}
		fmt.Fprintf(&b, "(%q, %q, %v)", s.file, s.fn, s.paired)
	}
	b.WriteString("]\n\n")
	fmt.Fprintf(&b, "def labelPushDeferredPop : Bool := %v\n\n", labelOK)
	names := make([]string, 0)
	for n := range pollTop {
		names = append(names, n)
	}
	sort.Strings(names)
	b.WriteString("def pollAtTop : List (String × Bool) := [")
	for i, n := range names {
		if i > 0 {
			b.WriteString(", ")
		}
		fmt.Fprintf(&b, "(%q, %v)", n, pollTop[n])
	}
	b.WriteString("]\n\n")
	fmt.Fprintf(&b, "def forEmptyBodyPoll : Bool := %v\n\n", forPoll)
	fmt.Fprintf(&b, "def stmtPollKeepsLabels : Bool := %v\n\n", stmtPollKeeps)
	fmt.Fprintf(&b, "def interruptPolls : Nat := %d\n\n", pollCount)
	fmt.Fprintf(&b, "def pollsRunInterrupt : Bool := %v\n\n", pollsVia && pollCount > 0)
	fmt.Fprintf(&b, "def interruptNotesPanic : Bool := %v\n\n", notes)
	fmt.Fprintf(&b, "def tryLetsHaltPass : Bool := %v\n\n", tryLets)
	fmt.Fprintf(&b, "def copyFreshHandle : Bool := %v\n\n", copyFresh)
	np := make([]string, 0)
	for n := range nativePolls {
		np = append(np, n)
	}
	sort.Strings(np)
	b.WriteString("def nativeLoopPolls : List (String × Nat) := [")
	for i, n := range np {
		if i > 0 {
			b.WriteString(", ")
		}
		fmt.Fprintf(&b, "(%q, %d)", n, nativePolls[n])
	}
	b.WriteString("]\n\n")
	b.WriteString("def evaluatorLoops : List (String × Bool) := [")
	for i, l := range loops {
		if i > 0 {
			b.WriteString(", ")
		}
		fmt.Fprintf(&b, "(%q, %v)", l.fn, l.ok)
	}
	b.WriteString("]\n\n")
	ws := make([]string, 0)
	for w := range scopeWriters {
		ws = append(ws, w)
	}
	sort.Strings(ws)
	b.WriteString("def scopeWriters : List String := [")
	for i, w := range ws {
		if i > 0 {
			b.WriteString(", ")
		}
		fmt.Fprintf(&b, "%q", w)
	}
	b.WriteString("]\n\nend OttoVerif.C18.Gen\n")
	return os.WriteFile(out, []byte(b.String()), 0o644)
}
