package main

import (
	"fmt"
	"go/ast"
	"go/parser"
	"go/token"
	"os"
	"path/filepath"
	"sort"
	"strings"
)

// writeFacts extracts structural facts about unwinding and polling from /repo's current
// sources (go/ast) and writes them as a Lean data file.
func writeFacts(repo, out string) error {
	fset := token.NewFileSet()
	files, _ := filepath.Glob(filepath.Join(repo, "*.go"))
	sort.Strings(files)
	type site struct {
		file, fn string
		paired   bool
	}
	var sites []site
	labelOK := false
	pollTop := map[string]bool{}
	forPoll := false
	type loop struct {
		fn  string
		ok  bool
		pos token.Pos
	}
	var loops []loop
	// F6: who assigns a `.scope` field (the scope chain head): every entry must go through
	// enterScope, the only place that checks the stack limit and numbers the depth
	scopeWriters := map[string]bool{}

	hasSel := func(n ast.Node, name string) bool {
		found := false
		ast.Inspect(n, func(x ast.Node) bool {
			if s, ok := x.(*ast.SelectorExpr); ok && s.Sel.Name == name {
				found = true
			}
			return !found
		})
		return found
	}
	src := func(n ast.Node) string {
		var b strings.Builder
		ast.Fprint(&b, fset, n, nil)
		return b.String()
	}
	_ = src
	isPollIf := func(st ast.Stmt, wantLenBody bool) bool {
		ifs, ok := st.(*ast.IfStmt)
		if !ok {
			return false
		}
		if !hasSel(ifs.Cond, "Interrupt") {
			return false
		}
		if wantLenBody {
			has := false
			ast.Inspect(ifs.Cond, func(x ast.Node) bool {
				if c, ok := x.(*ast.CallExpr); ok {
					if id, ok := c.Fun.(*ast.Ident); ok && id.Name == "len" {
						has = true
					}
				}
				return true
			})
			if !has {
				return false
			}
		}
		sel := false
		ast.Inspect(ifs.Body, func(x ast.Node) bool {
			if s, ok := x.(*ast.SelectStmt); ok {
				for _, c := range s.Body.List {
					cc := c.(*ast.CommClause)
					if cc.Comm != nil && hasSel(cc.Comm, "Interrupt") {
						// the received function must be called
						for _, b := range cc.Body {
							if es, ok := b.(*ast.ExprStmt); ok {
								if _, ok := es.X.(*ast.CallExpr); ok {
									sel = true
								}
							}
						}
					}
				}
			}
			return true
		})
		return sel
	}
	// F6: the statement poll sets the pending labels aside around the received function
	// (x := rt.labels; rt.labels = nil; value(); rt.labels = x)
	pollKeepsLabels := func(st ast.Stmt) bool {
		ok := false
		ast.Inspect(st, func(x ast.Node) bool {
			cc, isCC := x.(*ast.CommClause)
			if !isCC || cc.Comm == nil || !hasSel(cc.Comm, "Interrupt") || len(cc.Body) != 4 {
				return true
			}
			save, ok1 := cc.Body[0].(*ast.AssignStmt)
			clear, ok2 := cc.Body[1].(*ast.AssignStmt)
			call, ok3 := cc.Body[2].(*ast.ExprStmt)
			back, ok4 := cc.Body[3].(*ast.AssignStmt)
			if !(ok1 && ok2 && ok3 && ok4) || len(save.Lhs) != 1 || len(back.Rhs) != 1 || len(clear.Rhs) != 1 {
				return true
			}
			id, isID := save.Lhs[0].(*ast.Ident)
			id2, isID2 := back.Rhs[0].(*ast.Ident)
			nilID, isNil := clear.Rhs[0].(*ast.Ident)
			_, isCall := call.X.(*ast.CallExpr)
			if isID && isID2 && isNil && isCall && id.Name == id2.Name && nilID.Name == "nil" && save.Tok.String() == ":=" &&
				hasSel(save.Rhs[0], "labels") && hasSel(clear.Lhs[0], "labels") && hasSel(back.Lhs[0], "labels") {
				ok = true
			}
			return true
		})
		return ok
	}
	stmtPollKeeps := false
	copyFresh := false
	// F8: the panic of an interrupt function is not recovered by try statements:
	//  pollsVia: every receive from the Interrupt channel hands the function to rt.interrupt
	//  notes:    interrupt = { halting := true; defer func(){ rt.halting = halting }(); function(); halting = false }
	//  tryLets:  the deferred function of tryCatchEvaluate starts with `if rt.halting { return }`, before recover()
	pollsVia, pollCount, notes, tryLets := true, 0, false, false

	for _, f := range files {
		base := filepath.Base(f)
		if strings.HasSuffix(base, "_test.go") || strings.HasPrefix(base, "verif_") {
			continue
		}
		af, err := parser.ParseFile(fset, f, nil, 0)
		if err != nil {
			return err
		}
		for _, d := range af.Decls {
			fd, ok := d.(*ast.FuncDecl)
			if !ok || fd.Body == nil {
				continue
			}
			name := fd.Name.Name
			ast.Inspect(fd.Body, func(x ast.Node) bool {
				cc, isCC := x.(*ast.CommClause)
				if !isCC || cc.Comm == nil || !hasSel(cc.Comm, "Interrupt") {
					return true
				}
				pollCount++
				via := false
				for _, st := range cc.Body {
					if es, ok := st.(*ast.ExprStmt); ok {
						if c, ok := es.X.(*ast.CallExpr); ok {
							if se, ok := c.Fun.(*ast.SelectorExpr); ok && se.Sel.Name == "interrupt" && len(c.Args) == 1 {
								via = true
							} else {
								via = false // the received function called in some other way
								break
							}
						}
					}
				}
				pollsVia = pollsVia && via
				return true
			})
			if name == "interrupt" && fd.Recv != nil && len(fd.Body.List) == 4 && len(fd.Type.Params.List) == 1 {
				param := fd.Type.Params.List[0].Names[0].Name
				a0, ok0 := fd.Body.List[0].(*ast.AssignStmt)
				d1, ok1 := fd.Body.List[1].(*ast.DeferStmt)
				c2, ok2 := fd.Body.List[2].(*ast.ExprStmt)
				a3, ok3 := fd.Body.List[3].(*ast.AssignStmt)
				if ok0 && ok1 && ok2 && ok3 && len(a0.Lhs) == 1 && len(a3.Lhs) == 1 {
					v, isV := a0.Lhs[0].(*ast.Ident)
					t, isT := a0.Rhs[0].(*ast.Ident)
					v3, isV3 := a3.Lhs[0].(*ast.Ident)
					f3, isF3 := a3.Rhs[0].(*ast.Ident)
					call, isCall := c2.X.(*ast.CallExpr)
					good := isV && isT && isV3 && isF3 && isCall && t.Name == "true" && f3.Name == "false" && v.Name == v3.Name && a0.Tok.String() == ":="
					if good {
						fn, isFn := call.Fun.(*ast.Ident)
						good = isFn && fn.Name == param && len(call.Args) == 0
					}
					if good {
						// defer func() { rt.halting = <v> }()
						fl, isFL := d1.Call.Fun.(*ast.FuncLit)
						good = isFL && len(fl.Body.List) == 1
						if good {
							as, isAs := fl.Body.List[0].(*ast.AssignStmt)
							good = isAs && len(as.Lhs) == 1 && hasSel(as.Lhs[0], "halting")
							if good {
								r, isR := as.Rhs[0].(*ast.Ident)
								good = isR && r.Name == v.Name
							}
						}
					}
					notes = good
				}
			}
			if name == "tryCatchEvaluate" {
				for _, st := range fd.Body.List {
					ds, ok := st.(*ast.DeferStmt)
					if !ok {
						continue
					}
					fl, ok := ds.Call.Fun.(*ast.FuncLit)
					if !ok || len(fl.Body.List) < 2 {
						continue
					}
					ifs, ok := fl.Body.List[0].(*ast.IfStmt)
					if !ok || ifs.Init != nil || ifs.Else != nil || len(ifs.Body.List) != 1 {
						continue
					}
					se, isSel := ifs.Cond.(*ast.SelectorExpr)
					ret, isRet := ifs.Body.List[0].(*ast.ReturnStmt)
					if isSel && se.Sel.Name == "halting" && isRet && len(ret.Results) == 0 {
						tryLets = true
					}
				}
			}
			ast.Inspect(fd.Body, func(x ast.Node) bool {
				if as, ok := x.(*ast.AssignStmt); ok {
					for _, l := range as.Lhs {
						if se, ok := l.(*ast.SelectorExpr); ok && se.Sel.Name == "scope" {
							scopeWriters[base+":"+name] = true
						}
					}
				}
				return true
			})
			// F1 scope pairing
			if name != "enterGlobalScope" && name != "enterFunctionScope" && name != "enterScope" {
				ast.Inspect(fd.Body, func(x ast.Node) bool {
					var list []ast.Stmt
					switch b := x.(type) {
					case *ast.BlockStmt:
						list = b.List
					case *ast.CaseClause:
						list = b.Body
					default:
						return true
					}
					for i, st := range list {
						var call *ast.CallExpr
						switch s := st.(type) {
						case *ast.ExprStmt:
							call, _ = s.X.(*ast.CallExpr)
						case *ast.AssignStmt:
							if len(s.Rhs) == 1 {
								call, _ = s.Rhs[0].(*ast.CallExpr)
							}
						}
						if call == nil {
							continue
						}
						se, ok := call.Fun.(*ast.SelectorExpr)
						if !ok || (se.Sel.Name != "enterGlobalScope" && se.Sel.Name != "enterFunctionScope" && se.Sel.Name != "enterScope") {
							continue
						}
						paired := false
						for j := i + 1; j < len(list) && j <= i+2; j++ {
							if ds, ok := list[j].(*ast.DeferStmt); ok && hasSel(ds, "leaveScope") {
								paired = true
							}
							// nothing that can panic may sit between enter and defer: only plain assignments
							if _, ok := list[j].(*ast.AssignStmt); !ok {
								break
							}
						}
						sites = append(sites, site{base, name, paired})
					}
					return true
				})
			}
			// F7 Otto.Copy builds a fresh handle: `out := &Otto{runtime: o.runtime.clone()}` (no other field, no
			// struct copy), `out.runtime.otto = out`, `return out`
			if name == "Copy" && base == "otto.go" && len(fd.Body.List) == 3 {
				as, ok1 := fd.Body.List[0].(*ast.AssignStmt)
				back, ok2 := fd.Body.List[1].(*ast.AssignStmt)
				ret, ok3 := fd.Body.List[2].(*ast.ReturnStmt)
				if ok1 && ok2 && ok3 && len(as.Lhs) == 1 && len(as.Rhs) == 1 && len(back.Lhs) == 1 && len(back.Rhs) == 1 && len(ret.Results) == 1 {
					outID, isID := as.Lhs[0].(*ast.Ident)
					ue, isUE := as.Rhs[0].(*ast.UnaryExpr)
					if isID && isUE {
						if cl, isCL := ue.X.(*ast.CompositeLit); isCL && len(cl.Elts) == 1 {
							if kv, isKV := cl.Elts[0].(*ast.KeyValueExpr); isKV {
								k, _ := kv.Key.(*ast.Ident)
								rhsID, _ := back.Rhs[0].(*ast.Ident)
								retID, _ := ret.Results[0].(*ast.Ident)
								sel, _ := back.Lhs[0].(*ast.SelectorExpr)
								if k != nil && k.Name == "runtime" && hasSel(kv.Value, "clone") && rhsID != nil && rhsID.Name == outID.Name &&
									retID != nil && retID.Name == outID.Name && sel != nil && sel.Sel.Name == "otto" {
									copyFresh = true
								}
							}
						}
					}
				}
			}
			// F2 label push / deferred pop, F3 poll at top
			if name == "cmplEvaluateNodeStatement" || name == "cmplEvaluateNodeExpression" {
				list := fd.Body.List
				k := 0
				if len(list) > 0 {
					if es, ok := list[0].(*ast.ExprStmt); ok {
						if c, ok := es.X.(*ast.CallExpr); ok {
							if id, ok := c.Fun.(*ast.Ident); ok && id.Name == "verifStep" {
								k = 1
							}
						}
					}
				}
				// `rt.halting = false` (a constant stored in a field of the runtime) may precede the poll
				for len(list) > k {
					as, ok := list[k].(*ast.AssignStmt)
					if !ok || len(as.Lhs) != 1 || len(as.Rhs) != 1 {
						break
					}
					_, isSel := as.Lhs[0].(*ast.SelectorExpr)
					lit, isLit := as.Rhs[0].(*ast.Ident)
					if !isSel || !isLit || (lit.Name != "false" && lit.Name != "true") {
						break
					}
					k++
				}
				pollTop[name] = len(list) > k && isPollIf(list[k], false)
				if name == "cmplEvaluateNodeStatement" && len(list) > k {
					stmtPollKeeps = pollKeepsLabels(list[k])
				}
			}
			if name == "cmplEvaluateNodeStatement" {
				ast.Inspect(fd.Body, func(x ast.Node) bool {
					cc, ok := x.(*ast.CaseClause)
					if !ok || len(cc.List) != 1 {
						return true
					}
					if st, ok := cc.List[0].(*ast.StarExpr); ok {
						if id, ok := st.X.(*ast.Ident); ok && id.Name == "nodeLabelledStatement" && len(cc.Body) >= 2 {
							as, ok1 := cc.Body[0].(*ast.AssignStmt)
							ds, ok2 := cc.Body[1].(*ast.DeferStmt)
							if ok1 && ok2 && hasSel(as, "labels") {
								pop := false
								ast.Inspect(ds, func(y ast.Node) bool {
									if sl, ok := y.(*ast.SliceExpr); ok && hasSel(sl.X, "labels") {
										pop = true
									}
									return true
								})
								labelOK = pop
							}
						}
					}
					return true
				})
			}
			// F4 loops
			switch name {
			case "cmplEvaluateNodeDoWhileStatement", "cmplEvaluateNodeForInStatement", "cmplEvaluateNodeForStatement", "cmplEvaluateModeWhileStatement":
				for _, st := range fd.Body.List {
					var fs *ast.ForStmt
					switch s := st.(type) {
					case *ast.ForStmt:
						fs = s
					case *ast.LabeledStmt:
						fs, _ = s.Stmt.(*ast.ForStmt)
					}
					if fs == nil {
						continue
					}
					ok := hasSel(fs.Body, "cmplEvaluateNodeExpression") || hasSel(fs.Body, "cmplEvaluateNodeStatement")
					if name == "cmplEvaluateNodeForStatement" {
						// test and update are optional and the body may be empty: the explicit poll must be there
						p := false
						for _, b := range fs.Body.List {
							if isPollIf(b, true) {
								p = true
							}
						}
						forPoll = p
						ok = ok && p
					}
					loops = append(loops, loop{name, ok, fs.Pos()})
				}
			}
		}
	}
	sort.SliceStable(sites, func(i, j int) bool { return sites[i].file < sites[j].file })
	sort.SliceStable(loops, func(i, j int) bool { return loops[i].fn < loops[j].fn })
	var b strings.Builder
	b.WriteString("/- GENERATED from /repo's current sources by harness/cmd/c18 --facts.  Do not edit, do not commit. -/\nnamespace OttoVerif.C18.Gen\n\n")
	b.WriteString("def scopeSites : List (String × String × Bool) := [")
	for i, s := range sites {
		if i > 0 {
			b.WriteString(", ")
		}
		fmt.Fprintf(&b, "(%q, %q, %v)", s.file, s.fn, s.paired)
	}
	b.WriteString("]\n\n")
	fmt.Fprintf(&b, "def labelPushDeferredPop : Bool := %v\n\n", labelOK)
	names := make([]string, 0)
	for n := range pollTop {
		names = append(names, n)
	}
	sort.Strings(names)
	b.WriteString("def pollAtTop : List (String × Bool) := [")
	for i, n := range names {
		if i > 0 {
			b.WriteString(", ")
		}
		fmt.Fprintf(&b, "(%q, %v)", n, pollTop[n])
	}
	b.WriteString("]\n\n")
	fmt.Fprintf(&b, "def forEmptyBodyPoll : Bool := %v\n\n", forPoll)
	fmt.Fprintf(&b, "def stmtPollKeepsLabels : Bool := %v\n\n", stmtPollKeeps)
	fmt.Fprintf(&b, "def interruptPolls : Nat := %d\n\n", pollCount)
	fmt.Fprintf(&b, "def pollsRunInterrupt : Bool := %v\n\n", pollsVia && pollCount > 0)
	fmt.Fprintf(&b, "def interruptNotesPanic : Bool := %v\n\n", notes)
	fmt.Fprintf(&b, "def tryLetsHaltPass : Bool := %v\n\n", tryLets)
	fmt.Fprintf(&b, "def copyFreshHandle : Bool := %v\n\n", copyFresh)
	b.WriteString("def evaluatorLoops : List (String × Bool) := [")
	for i, l := range loops {
		if i > 0 {
			b.WriteString(", ")
		}
		fmt.Fprintf(&b, "(%q, %v)", l.fn, l.ok)
	}
	b.WriteString("]\n\n")
	ws := make([]string, 0)
	for w := range scopeWriters {
		ws = append(ws, w)
	}
	sort.Strings(ws)
	b.WriteString("def scopeWriters : List String := [")
	for i, w := range ws {
		if i > 0 {
			b.WriteString(", ")
		}
		fmt.Fprintf(&b, "%q", w)
	}
	b.WriteString("]\n\nend OttoVerif.C18.Gen\n")
	return os.WriteFile(out, []byte(b.String()), 0o644)
}
