// Command c08 is the correspondence harness binary for property C08.
package main

import "ottoverif/h"

func main() { h.Main("C08") }
