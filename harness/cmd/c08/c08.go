package main

import (
	"encoding/hex"
	"fmt"
	"math"
	"strconv"
	"strings"
	"sync"
	"unicode/utf8"

	"github.com/robertkrimen/otto"
	"ottoverif/h"
)

func init() {
	h.Register(&h.Prop{ID: "C08", Gen: genC08, Impl: implC08, Trivial: func(l string) bool { return false }})
}

// ---------------------------------------------------------------- the JavaScript side

const c08Prelude = `
var __recv, __log="", __script={}, __sn=0, __si=0, __objs={}, __isprim=false, __wrap;
function __obj(id){
  if (!Object.prototype.hasOwnProperty.call(__objs,id)) {
    if (id>=50 && id<60) {
      // a nested array: its toLocaleString is the builtin again
      var k=id-50, n=[__obj(10+k), k, null, __obj(20+k)];
      n.__id=id; __objs[id]=n;
    } else {
      var f=function(){ return __play(id); };
      var o={__id:id, valueOf:f, toString:f};
      o.toLocaleString = id===7 ? 5 : function(){ __llog("O"+id, arguments); return __playq(); };
      __objs[id]=o;
    }
  }
  return __objs[id];
}
function __playq(){
  if (__si>=__sn) { __si++; return undefined; }
  var c=__script[__si++];
  c.eff();
  if (c.thr) throw c.thr();
  return c.res;
}
function __play(id){
  __log+=(__log===""?"~":";")+"O"+id;
  return __playq();
}
// what a toLocaleString of an element logs: its this, arguments.length, the arguments
function __llog(t, args){
  var s=__v("L")+","+t+","+__v(args.length);
  for (var i=0;i<args.length;i++) s+=","+__v(args[i]);
  __log+=(__log===""?"~":";")+s;
}
// a join supplied by the script: logs J, its this, arguments.length and the arguments, plays the next script entry
function __userJoin(){
  var s=__v("J")+","+__v(this)+","+__v(arguments.length);
  for (var i=0;i<arguments.length;i++) s+=","+__v(arguments[i]);
  __log+=(__log===""?"~":";")+s;
  return __playq();
}
function __joinGetter(val){
  return function(){ __log+=(__log===""?"~":";")+__v("G")+","+__v(this); return val; };
}
var __builtinJoin=Array.prototype.join;
function __primLocale(){
  var t=(typeof this==="object" && this!==null) ? __v(this.valueOf()) : "prim";
  __llog(t, arguments);
  return String(this.valueOf());
}
function __v(x){
  if (x===undefined) return "u"; if (x===null) return "n"; if (x===true) return "T"; if (x===false) return "F";
  if (typeof x==="number") return "d"+__hexnum(x);
  if (typeof x==="string") return "s"+__hexstr(x);
  if (__isprim && typeof x==="object") {
    // ToObject(primitive receiver): the same wrapper object must be seen every time
    var c=Object.prototype.toString.call(x);
    if ((c==="[object String]"||c==="[object Number]"||c==="[object Boolean]") && x.valueOf()===__recv) {
      if (__wrap===undefined) __wrap=x;
      return x===__wrap ? "R" : "R2";
    }
  }
  if (x===__recv) return "R";
  if (typeof x==="object" && Object.prototype.hasOwnProperty.call(x,"__id")) return "O"+x.__id;
  if (Object.prototype.toString.call(x)==="[object Array]") {
    var s="[";
    for (var i=0;i<x.length;i++){ if(i) s+=","; s+= Object.prototype.hasOwnProperty.call(x,i) ? __v(x[i]) : "_"; }
    return s+"]";
  }
  return "obj";
}
function __sorted(xs, n){
  // insertion sort on [key, text] pairs using only indexing
  for (var i=1;i<n;i++){ var t=xs[i]; var j=i-1; while (j>=0 && xs[j][0]>t[0]) { xs[j+1]=xs[j]; j--; } xs[j+1]=t; }
  var s=""; for (var i=0;i<n;i++){ s+=(s===""?"":";")+xs[i][1]; } return s;
}
function __dump(o){
  var names=Object.getOwnPropertyNames(o), is={}, ns={}, nI=0, nN=0;
  for (var j=0;j<names.length;j++){ var k=names[j]; if (k==="length" || k==="join") continue;
    var d=Object.getOwnPropertyDescriptor(o,k);
    if (typeof d.value==="function") continue;
    var p=__v(d.value)+(d.writable?"1":"0")+(d.enumerable?"1":"0")+(d.configurable?"1":"0");
    if (__iscanon(k)) { is[nI++]=[+k, "i"+k+"="+p]; } else { var hx=__hexstr(k); ns[nN++]=[hx, "n"+hx+"="+p]; } }
  var a=__sorted(is,nI), b=__sorted(ns,nN);
  var ld=Object.getOwnPropertyDescriptor(o,"length");
  return "L"+(ld ? __v(ld.value)+"w"+(ld.writable?"1":"0") : "-")+"x"+(Object.isExtensible(o)?"1":"0")+"{"+a+(a!==""&&b!==""?";":"")+b+"}";
}
function __err(e){ return "E"+(e && e.name ? e.name : "?"); }
// the elements' toLocaleString belongs to the harness: Number/String/Boolean values log like the scripted objects
Number.prototype.toLocaleString=__primLocale; String.prototype.toLocaleString=__primLocale;
Object.defineProperty(Boolean.prototype,"toLocaleString",{value:__primLocale,writable:true,enumerable:false,configurable:true});
`

func c08NewVM() *otto.Otto {
	vm := otto.New()
	vm.Set("__hexnum", func(call otto.FunctionCall) otto.Value {
		f, _ := call.Argument(0).ToFloat()
		v, _ := otto.ToValue(h.F64Hex(f))
		return v
	})
	vm.Set("__hexstr", func(call otto.FunctionCall) otto.Value {
		s, _ := call.Argument(0).ToString()
		v, _ := otto.ToValue(hex.EncodeToString([]byte(s)))
		return v
	})
	vm.Set("__iscanon", func(call otto.FunctionCall) otto.Value {
		s, _ := call.Argument(0).ToString()
		v, _ := otto.ToValue(isCanon(s))
		return v
	})
	if _, err := vm.Run(c08Prelude); err != nil {
		panic(err)
	}
	return vm
}

var c08Pool = sync.Pool{New: func() interface{} { return c08NewVM() }}

func isCanon(s string) bool {
	if s == "" || (s[0] == '0' && len(s) > 1) {
		return false
	}
	for _, c := range []byte(s) {
		if c < '0' || c > '9' {
			return false
		}
	}
	return true
}

func jsString(b []byte) string {
	var sb strings.Builder
	sb.WriteByte('"')
	s := string(b)
	for len(s) > 0 {
		r, n := utf8.DecodeRuneInString(s)
		s = s[n:]
		switch {
		case r < 0x80 && (r >= 'a' && r <= 'z' || r >= 'A' && r <= 'Z' || r >= '0' && r <= '9' || r == ' ' || r == '_' || r == '+' || r == '-' || r == '.'):
			sb.WriteRune(r)
		case r <= 0xFFFF:
			fmt.Fprintf(&sb, "\\u%04x", r)
		default:
			r -= 0x10000
			fmt.Fprintf(&sb, "\\u%04x\\u%04x", 0xD800+(r>>10), 0xDC00+(r&0x3FF))
		}
	}
	sb.WriteByte('"')
	return sb.String()
}

func jsNum(f float64) string {
	switch {
	case math.IsNaN(f):
		return "NaN"
	case math.IsInf(f, 1):
		return "Infinity"
	case math.IsInf(f, -1):
		return "(-Infinity)"
	case f == 0 && math.Signbit(f):
		return "(-0)"
	case f < 0:
		return "(" + strconv.FormatFloat(f, 'g', -1, 64) + ")"
	}
	return strconv.FormatFloat(f, 'g', -1, 64)
}

// jsVal turns a value token into a JavaScript expression.
func jsVal(t string) string {
	switch t {
	case "u":
		return "undefined"
	case "n":
		return "null"
	case "T":
		return "true"
	case "F":
		return "false"
	case "R":
		return "a"
	}
	switch t[0] {
	case 'O':
		return "__obj(" + t[1:] + ")"
	case 'd':
		return jsNum(h.HexF64(t[1:]))
	case 's':
		b, err := hex.DecodeString(t[1:])
		if err != nil {
			panic(err)
		}
		return jsString(b)
	}
	panic("bad value token " + t)
}

func jsKey(t string) string {
	if t[0] == 'N' {
		return jsVal(t[1:]) // a numeric subscript: a[-0], a[1], a[2.5]
	}
	b, err := hex.DecodeString(t[1:])
	if err != nil || t[0] != 'k' {
		panic("bad key token " + t)
	}
	return jsString(b)
}

func splitList(t string) []string {
	if t == "" {
		return nil
	}
	return strings.Split(t, ",")
}

var c08CallbackMethods = map[string]bool{"every": true, "some": true, "forEach": true, "map": true, "filter": true, "reduce": true, "reduceRight": true}

// c08Script builds the program for one history request.
func c08Script(f []string) string {
	var sb strings.Builder
	sb.WriteString("(function(){ var out=\"\", protos=[], rets, ci; __objs={}; __log=\"\"; __sn=0; __si=0; __isprim=false; __wrap=undefined;\n")
	// receiver
	like := strings.HasPrefix(f[1], "o=") || strings.HasPrefix(f[1], "v=")
	prim := strings.HasPrefix(f[1], "v=")
	if prim {
		fmt.Fprintf(&sb, "var a=%s; __recv=a; __isprim=true;\n", jsVal(strings.TrimPrefix(f[1], "v=")))
	} else if f[1] == "A=" {
		sb.WriteString("var a=Array.prototype; __recv=a;\n")
	} else if like {
		parts := strings.SplitN(strings.TrimPrefix(f[1], "o="), "|", 2)
		sb.WriteString("var a={};")
		if parts[0] != "-" {
			fmt.Fprintf(&sb, " a.length=%s;", jsVal(parts[0]))
		}
		for i, e := range splitList(parts[1]) {
			if e != "_" {
				fmt.Fprintf(&sb, " a[%d]=%s;", i, jsVal(e))
			}
		}
		sb.WriteString(" __recv=a;\n")
	} else {
		sb.WriteString("var a=[")
		es := splitList(strings.TrimPrefix(f[1], "a="))
		for i, e := range es {
			if i > 0 {
				sb.WriteString(",")
			}
			if e != "_" {
				sb.WriteString(jsVal(e))
			}
		}
		if len(es) > 0 && es[len(es)-1] == "_" {
			sb.WriteString(",")
		}
		sb.WriteString("]; __recv=a;\n")
	}
	sb.WriteString("try {\n")
	for _, p := range splitList(strings.TrimPrefix(f[2], "p=")) {
		kv := strings.SplitN(p, ":", 2)
		fmt.Fprintf(&sb, "Array.prototype[%s]=%s; protos[protos.length]=%s;\n", kv[0], jsVal(kv[1]), kv[0])
	}
	for _, st := range f[3:] {
		p := strings.Split(st, "/")
		sb.WriteString("try { ")
		switch p[0] {
		case "put":
			sb.WriteString("__script={}; __sn=0; __si=0; __log=\"\"; ")
			if len(p) > 3 {
				sb.WriteString(jsScript(p[3]))
			}
			fmt.Fprintf(&sb, "try { a[%s]=%s; out+=\"ok\"; } catch(e) { out+=__err(e); } out+=__log+\"|\";", jsKey(p[1]), jsVal(p[2]))
		case "del":
			fmt.Fprintf(&sb, "out+=__v(delete a[%s])+\"|\";", jsKey(p[1]))
		case "def":
			var d []string
			if p[2] != "-" {
				d = append(d, "value:"+jsVal(p[2]))
			}
			for i, n := range []string{"writable", "enumerable", "configurable"} {
				if p[3+i] != "-" {
					d = append(d, n+":"+map[string]string{"1": "true", "0": "false"}[p[3+i]])
				}
			}
			sb.WriteString("__script={}; __sn=0; __si=0; __log=\"\"; ")
			if len(p) > 6 {
				sb.WriteString(jsScript(p[6]))
			}
			fmt.Fprintf(&sb, "try { Object.defineProperty(a,%s,{%s}); out+=\"ok\"; } catch(e) { out+=__err(e); } out+=__log+\"|\";", jsKey(p[1]), strings.Join(d, ","))
		case "frz":
			sb.WriteString("Object.freeze(a); out+=\"ok|\";")
		case "seal":
			sb.WriteString("Object.seal(a); out+=\"ok|\";")
		case "noext":
			sb.WriteString("Object.preventExtensions(a); out+=\"ok|\";")
		case "new":
			fmt.Fprintf(&sb, "out+=\"L\"+(new Array(%s)).length+\"|\";", jsVal(p[1]))
		case "call":
			var args []string
			name := strings.TrimSuffix(p[1], "!")
			// toString.<mode>.<src>: how toString is reached, and the join the receiver has during the call
			mode, pre, post := "call", "", ""
			if q := strings.Split(name, "."); len(q) == 3 {
				name, mode = q[0], q[1]
				own := func(v string) { pre = "a.join=" + v + ";"; post = "delete a.join;" }
				acc := func(v string) {
					pre = "Object.defineProperty(a,\"join\",{get:__joinGetter(" + v + "),configurable:true});"
					post = "delete a.join;"
				}
				switch q[2] {
				case "b", "none":
				case "own":
					own("__userJoin")
				case "ownb":
					own("__builtinJoin")
				case "nc":
					own("5")
				case "und":
					own("undefined")
				case "acc":
					acc("__userJoin")
				case "accb":
					acc("__builtinJoin")
				case "accn":
					acc("5")
				case "proto", "pdel":
					pre = "var P=Object.getPrototypeOf(Object(a)), pd=Object.getOwnPropertyDescriptor(P,\"join\");"
					if q[2] == "proto" {
						pre += "P.join=__userJoin;"
					} else {
						pre += "delete P.join;"
					}
					post = "if (pd) Object.defineProperty(P,\"join\",pd); else delete P.join;"
				default:
					panic("bad join source " + q[2])
				}
			}
			if name == "sort" && p[2] != "" {
				args = append(args, "undefined") // comparefn, then the surplus arguments
			}
			switch name {
			case "sortNum":
				name = "sort"
				args = append(args, "function(x,y){return x-y}")
			case "sortInf":
				name = "sort"
				args = append(args, "function(x,y){return x<y?-Infinity:(x>y?Infinity:0)}")
			}
			if c08CallbackMethods[name] {
				if name != p[1] {
					args = append(args, "null")
				} else {
					args = append(args, "function(){ var s=\"\"; for (var i=0;i<arguments.length;i++){ s+=(i?\",\":\"\")+__v(arguments[i]); } __log+=(__log===\"\"?\"~\":\";\")+s; var rv=Object.prototype.hasOwnProperty.call(rets,ci)?rets[ci]:undefined; ci++; return rv; }")
				}
			}
			for _, a := range splitList(p[2]) {
				if a == "a" || strings.HasPrefix(a, "a:") {
					var es []string
					parts := strings.Split(a, ":")[1:]
					for _, e := range parts {
						if e == "_" {
							es = append(es, "")
						} else {
							es = append(es, jsVal(e))
						}
					}
					lit := "[" + strings.Join(es, ",")
					if len(parts) > 0 && parts[len(parts)-1] == "_" {
						lit += ","
					}
					args = append(args, lit+"]")
				} else {
					args = append(args, jsVal(a))
				}
			}
			var rets []string
			for _, r := range splitList(p[3]) {
				rets = append(rets, jsVal(r))
			}
			// scripted conversions of object arguments / of an object-valued length
			sb.WriteString("__script={}; __sn=0; __si=0; ")
			if len(p) > 4 {
				sb.WriteString(jsScript(p[4]))
			}
			call := "a." + name + "(" + strings.Join(args, ",") + ")"
			if like {
				call = "Array.prototype." + name + ".call(" + strings.Join(append([]string{"a"}, args...), ",") + ")"
			}
			switch mode {
			case "add":
				call = "(\"\"+a)"
			case "str":
				call = "String(a)"
			case "eq":
				call = "(a==\"x\")"
			case "key":
				call = "({x:\"hit\"})[a]"
			}
			if pre != "" {
				sb.WriteString(pre + " try { ")
			}
			fmt.Fprintf(&sb, "__wrap=undefined; __log=\"\"; ci=0; rets=[%s]; var r; try { r=__v(%s); } catch(e) { r=__err(e); } out+=r+__log+\"|\";", strings.Join(rets, ","), call)
			if pre != "" {
				sb.WriteString(" } finally { " + post + " }")
			}
		default:
			panic("bad step " + st)
		}
		sb.WriteString(" } catch(e) { out+=__err(e)+\"|\"; }\n")
	}
	sb.WriteString("} finally { for (var i=0;i<protos.length;i++) delete Array.prototype[protos[i]]; }\n")
	if prim {
		sb.WriteString("return out+\"P\"; })()")
	} else {
		sb.WriteString("return out+__dump(a); })()")
	}
	return sb.String()
}

// jsScript builds the scripted conversions `<eff>~<res>,…` of one step.
func jsScript(script string) string {
	var sb strings.Builder
	for i, c := range splitList(script) {
		er := strings.SplitN(c, "~", 2)
		eff := ""
		switch er[0][0] {
		case 'p':
			eff = "__recv[__recv.length]=" + jsVal(er[0][1:]) + ";"
		case 'l':
			eff = "__recv.length=" + jsVal(er[0][1:]) + ";"
		case 'd':
			eff = "delete __recv[" + er[0][1:] + "];"
		}
		res, thr := "undefined", "null"
		switch er[1] {
		case "!T":
			thr = "function(){return new TypeError(\"scripted\")}"
		case "!R":
			thr = "function(){return new RangeError(\"scripted\")}"
		default:
			res = jsVal(er[1])
		}
		fmt.Fprintf(&sb, "__script[%d]={eff:function(){%s},res:%s,thr:%s}; __sn=%d; ", i, eff, res, thr, i+1)
	}
	return sb.String()
}

func implC08(line string) string {
	f := strings.Fields(line)
	switch f[0] {
	case "idx":
		b, err := hex.DecodeString(f[1][1:])
		if err != nil {
			return "bad-op"
		}
		return fmt.Sprint(otto.VerifStringToArrayIndex(string(b)))
	case "range":
		vm := c08Pool.Get().(*otto.Otto)
		defer c08Pool.Put(vm)
		v, err := vm.Run("(" + jsVal(f[1]) + ")")
		if err != nil {
			return "bad-op"
		}
		n, _ := strconv.ParseInt(f[2], 10, 64)
		return fmt.Sprint(otto.VerifValueToRangeIndex(v, n, f[3] == "1"))
	case "h":
		var vm *otto.Otto
		if f[1] == "A=" {
			vm = c08NewVM() // Array.prototype must be pristine (inherited-property requests leave its length raised)
		} else {
			vm = c08Pool.Get().(*otto.Otto)
		}
		v, err := vm.Run(c08Script(f))
		if err != nil {
			// the VM may hold polluted prototypes: drop it
			return "run-error:" + strings.ReplaceAll(err.Error(), " ", "_")
		}
		if f[1] != "A=" {
			c08Pool.Put(vm) // a history on Array.prototype itself leaves the runtime changed: it is dropped
		}
		s, _ := v.ToString()
		return s
	}
	return "bad-op"
}

// ---------------------------------------------------------------- generators

func dTok(f float64) string { return "d" + h.F64Hex(f) }
func sTok(s string) string  { return "s" + hex.EncodeToString([]byte(s)) }
func kTok(s string) string  { return "k" + hex.EncodeToString([]byte(s)) }

var c08IdxStrings = []string{"0", "1", "7", "9", "10", "99", "4294967293", "4294967294", "4294967295", "4294967296", "9223372036854775807",
	"9223372036854775808", "18446744073709551616", "01", "00", "007", "+1", "+0", "-0", "-1", "1e0", "1.0", "1.", " 1", "1 ", "1_0", "0x1", "0b1", "",
	"length", "a", "NaN", "Infinity", "١", "1١", "١", "１", "+", "-", "++1", "+-1", "0_1", "1e3", "00000000000000000000001", "04294967294", "+4294967294", "-4294967294"}

func genC08(c *h.Ctx) {
	r := c.Rng
	// 1. stringToArrayIndex
	for _, s := range c08IdxStrings {
		c.Add("idx "+kTok(s), "idx:pool")
	}
	for i := 0; i < c.N(1500, 60000); i++ {
		var sb strings.Builder
		switch r.Intn(6) {
		case 0:
			sb.WriteString("+")
		case 1:
			sb.WriteString("-")
		}
		n := 1 + r.Intn(12)
		if r.Chance(10) {
			n = 18 + r.Intn(4)
		}
		for j := 0; j < n; j++ {
			if r.Chance(3) {
				sb.WriteByte("_ex. "[r.Intn(5)])
			} else if j == 0 && r.Chance(70) {
				sb.WriteByte(byte('1' + r.Intn(9)))
			} else {
				sb.WriteByte(byte('0' + r.Intn(10)))
			}
		}
		c.Add("idx "+kTok(sb.String()), "idx:random")
	}
	for _, n := range []uint64{4294967290, 4294967294, 4294967295, 4294967296, 1 << 31, 1<<31 - 1, 1 << 53, 1<<63 - 1, 1 << 63} {
		for d := -2; d <= 2; d++ {
			c.Add("idx "+kTok(strconv.FormatUint(n+uint64(d), 10)), "idx:boundary")
		}
	}
	// 2. valueToRangeIndex
	bd := h.BoundaryDoubles()
	lens := []string{"0", "1", "2", "5", "8", "1000", "4294967295", "4294967296"}
	var rv []string
	for _, f := range bd {
		rv = append(rv, dTok(f))
	}
	rv = append(rv, "u", "n", "T", "F", sTok("3"), sTok("-2"), sTok("x"), sTok(""), sTok("1e3"), sTok("Infinity"))
	for _, v := range rv {
		for _, l := range lens {
			c.Add("range "+v+" "+l+" 0", "range")
			c.Add("range "+v+" "+l+" 1", "range")
		}
	}
	for i := 0; i < c.N(2000, 100000); i++ {
		c.Add(fmt.Sprintf("range %s %d %d", dTok(h.RandomDouble(r, bd)), r.Intn(12), r.Intn(2)), "range:random")
	}
	// 3. histories
	for i := 0; i < c.N(30000, 600000); i++ {
		genHistory(c)
	}
	// 5. sort: receivers on which §15.4.4.11 determines the result (no inherited index properties, extensible,
	// all elements configurable and writable, comparefn a total order that only identifies identical values)
	for i := 0; i < c.N(4000, 150000); i++ {
		genSort(c)
	}
	// 6. order of the observable steps: scripted objects as arguments (valueOf/toString log, return the next
	// scripted value, mutate the receiver or throw), array-like receivers whose length is such an object
	for i := 0; i < c.N(12000, 400000); i++ {
		genOrder(c)
	}
	// 7. primitive receivers (ToObject(this): the callbacks and the return value must see the same wrapper object),
	// Array.prototype itself as the array, toString, object-valued length values
	for i := 0; i < c.N(6000, 200000); i++ {
		genPrim(c)
	}
	for i := 0; i < c.N(1500, 40000); i++ {
		genProtoHistory(c)
	}
	for i := 0; i < c.N(3000, 100000); i++ {
		genLenValue(c)
	}
	// 8. toLocaleString: elements whose toLocaleString logs its this, arguments.length and arguments
	for i := 0; i < c.N(8000, 250000); i++ {
		genLocale(c)
	}
	// 9. functions looked up on the receiver and called: toString -> the join it finds (own, inherited, from an accessor,
	// not callable), reached by a call or through ToPrimitive; join -> toString of elements that are scripted objects
	for i := 0; i < c.N(8000, 250000); i++ {
		genJoinProp(c)
	}
	// 4. length scenarios: non-configurable elements, non-writable length, then length changes
	for i := 0; i < c.N(6000, 150000); i++ {
		genLengthScenario(c)
	}
}

var c08Elems = []string{dTok(0), dTok(1), dTok(2), dTok(3), dTok(-1), dTok(math.Copysign(0, -1)), dTok(math.NaN()), dTok(10), dTok(2.5),
	"u", "n", "T", "F", sTok("a"), sTok("b"), sTok("1"), sTok(""), sTok("10")}

func genElem(r *h.Rng) string {
	if r.Chance(60) {
		return dTok(float64(r.Intn(5)))
	}
	return c08Elems[r.Intn(len(c08Elems))]
}

// numeric / odd arguments for relative indices and counts
func genNumArg(r *h.Rng, n int) string {
	switch r.Intn(12) {
	case 0:
		return "u"
	case 1:
		return []string{"n", "T", "F", sTok("1"), sTok("-1"), sTok("x"), sTok("")}[r.Intn(7)]
	case 2:
		return []string{dTok(math.NaN()), dTok(math.Inf(1)), dTok(math.Inf(-1)), dTok(math.Copysign(0, -1)), dTok(1e21), dTok(-1e21), dTok(9.3e18), dTok(-9.3e18),
			dTok(4294967296), dTok(4294967295), dTok(-4294967296), dTok(math.Ldexp(1, 63)), dTok(-math.Ldexp(1, 63)), dTok(math.Ldexp(1, 53))}[r.Intn(14)]
	case 3:
		return dTok(float64(r.Intn(2*n+5)-n-2) + []float64{0.5, -0.5, 0.9, 0.1}[r.Intn(4)])
	case 4:
		return dTok(float64(n))
	case 5:
		return dTok(float64(-n))
	default:
		return dTok(float64(r.Intn(2*n+5) - n - 2))
	}
}

var c08Methods = []string{"push", "pop", "shift", "unshift", "slice", "splice", "indexOf", "lastIndexOf", "reverse", "join", "concat", "every", "some", "forEach", "map", "filter", "reduce", "reduceRight"}

// the number of arguments ES5 names after the implicit callback / comparefn; push, unshift, concat and splice take any number
var c08Arity = map[string]int{"pop": 0, "shift": 0, "reverse": 0, "toString": 0, "toLocaleString": 0, "sort": 0, "sortNum": 0, "sortInf": 0,
	"join": 1, "slice": 2, "indexOf": 2, "lastIndexOf": 2, "every": 1, "some": 1, "forEach": 1, "map": 1, "filter": 1, "reduce": 1, "reduceRight": 1}

// genSurplus: a value of any kind, among them scripted objects (31…: converting one would be logged) and an array (55)
func genSurplus(r *h.Rng) string {
	switch r.Intn(8) {
	case 0:
		return "O" + strconv.Itoa(31+r.Intn(3))
	case 1:
		return "O55"
	case 2:
		return []string{sTok("x"), sTok("de"), sTok(""), dTok(0), dTok(2), dTok(36), dTok(math.NaN()), "u", "n", "T", "F"}[r.Intn(11)]
	}
	return genElem(r)
}

// addSurplus fills the argument list up to the arguments ES5 names and appends one to three more: they must be ignored.
func addSurplus(r *h.Rng, m string, args []string, n int) []string {
	name := strings.TrimSuffix(m, "!")
	ar, ok := c08Arity[name]
	if !ok {
		return args
	}
	for len(args) < ar {
		switch name {
		case "join":
			args = append(args, []string{sTok("-"), "u", sTok("")}[r.Intn(3)])
		case "slice", "indexOf", "lastIndexOf":
			args = append(args, genNumArg(r, n))
		default:
			args = append(args, genElem(r)) // thisArg / initialValue
		}
	}
	for j := 1 + r.Intn(3); j > 0; j-- {
		args = append(args, genSurplus(r))
	}
	return args
}

// genLocale: toLocaleString with zero to three arguments of every kind on arrays, array-likes and primitives whose
// elements are scripted objects (their toLocaleString logs and plays the script: a result, an effect on the receiver,
// an exception; 7 has one that is not callable), nested arrays (50…), numbers, strings, booleans, undefined, null, holes.
func genLocale(c *h.Ctx) {
	r := c.Rng
	n := r.Intn(6)
	es := make([]string, n)
	for i := range es {
		switch k := r.Intn(20); {
		case k < 3:
			es[i] = "_"
		case k < 10:
			es[i] = "O" + strconv.Itoa(1+r.Intn(6))
		case k == 10 && r.Chance(40):
			es[i] = "O7"
		case k < 13:
			es[i] = "O" + strconv.Itoa(50+r.Intn(6))
		default:
			es[i] = genElem(r)
		}
	}
	var line string
	lenObj, isArr := false, false
	keys := []string{"locale"}
	switch k := r.Intn(20); {
	case k < 12:
		var ps []string
		if r.Chance(10) {
			ps = append(ps, fmt.Sprintf("%d:%s", r.Intn(n+1), genElem(r)))
		}
		line = "h a=" + strings.Join(es, ",") + " p=" + strings.Join(ps, ",")
		isArr = true
		keys = append(keys, "locale:array")
	case k < 17:
		l := dTok(float64(n))
		switch r.Intn(8) {
		case 0, 1:
			l = "O9"
			lenObj = true
		case 2:
			l = sTok(strconv.Itoa(n))
		case 3:
			l = []string{dTok(float64(n) + 0.5), "u", "n", "T", dTok(math.NaN()), "-"}[r.Intn(6)]
		case 4:
			l = dTok(float64(r.Intn(n + 3)))
		}
		line = "h o=" + l + "|" + strings.Join(es, ",") + " p="
		keys = append(keys, "locale:like")
	case k < 19:
		line = "h v=" + c08Prims[r.Intn(len(c08Prims))] + " p="
		keys = append(keys, "locale:prim")
	default:
		line = "h A= p="
		for i, e := range es {
			if e != "_" {
				line += fmt.Sprintf(" put/%s/%s", kTok(strconv.Itoa(i)), e)
			}
		}
		keys = append(keys, "locale:arrayproto")
	}
	res := func() string {
		switch k := r.Intn(24); {
		case k == 0:
			return "!T"
		case k == 1:
			return "!R"
		case k < 5:
			return []string{"u", "n", "T", dTok(math.NaN()), dTok(2.5), dTok(1), dTok(math.Copysign(0, -1))}[r.Intn(7)]
		case k == 5:
			return "O40" // an object: ToString runs its toString, the next script entry
		}
		return []string{sTok("x"), sTok("y"), sTok(""), sTok("1,2"), sTok("n=0"), sTok("z")}[r.Intn(6)]
	}
	eff := func() string {
		if !isArr || r.Chance(75) {
			return "-"
		}
		switch r.Intn(3) {
		case 0:
			return "p" + genElem(r)
		case 1:
			return "l" + dTok(float64(r.Intn(n+2)))
		}
		return "d" + strconv.Itoa(r.Intn(n+1))
	}
	for st := 1 + r.Intn(2); st > 0; st-- {
		var args []string
		for j := []int{0, 0, 1, 1, 2, 3}[r.Intn(6)]; j > 0; j-- {
			if r.Chance(15) && isArr {
				args = append(args, "R")
			} else {
				args = append(args, genSurplus(r))
			}
		}
		var script []string
		if lenObj {
			script = append(script, "-~"+dTok(float64(n)))
		}
		for j := r.Intn(2*n + 3); j > 0; j-- {
			e := eff() + "~" + res()
			for len(script) > 0 && strings.HasSuffix(script[len(script)-1], "~O40") && strings.HasSuffix(e, "~O40") {
				e = eff() + "~" + res() // the toString of a result object returns a primitive
			}
			script = append(script, e)
		}
		line += " call/toLocaleString/" + strings.Join(args, ",") + "//" + strings.Join(script, ",")
		keys = append(keys, fmt.Sprintf("locale:args%d", len(args)))
	}
	c.Add(line, keys...)
}

func genJoinProp(c *h.Ctx) {
	r := c.Rng
	n := r.Intn(5)
	es := make([]string, n)
	for i := range es {
		switch k := r.Intn(20); {
		case k < 3:
			es[i] = "_"
		case k < 8:
			es[i] = "O" + strconv.Itoa(1+r.Intn(6))
		case k < 11:
			es[i] = sTok("x")
		default:
			es[i] = genElem(r)
		}
	}
	var line string
	var srcs, modes []string
	isArr := false
	keys := []string{"joinprop"}
	switch k := r.Intn(20); {
	case k < 14:
		line = "h a=" + strings.Join(es, ",") + " p="
		isArr = true
		srcs = []string{"b", "own", "own", "ownb", "nc", "und", "acc", "acc", "accb", "accn", "proto", "proto", "pdel"}
		modes = []string{"call", "call", "add", "str", "eq", "key"}
		keys = append(keys, "joinprop:array")
	case k < 18:
		l := dTok(float64(n))
		if r.Chance(15) {
			l = []string{sTok(strconv.Itoa(n)), dTok(float64(n) + 0.5), "u", "-", dTok(float64(n + 1))}[r.Intn(5)]
		}
		line = "h o=" + l + "|" + strings.Join(es, ",") + " p="
		srcs = []string{"none", "own", "own", "ownb", "nc", "und", "acc", "accb", "accn"}
		modes = []string{"call"}
		keys = append(keys, "joinprop:like")
	default:
		line = "h v=" + c08Prims[r.Intn(len(c08Prims))] + " p="
		srcs = []string{"none", "proto", "proto"}
		modes = []string{"call"}
		keys = append(keys, "joinprop:prim")
	}
	prim := func() string {
		switch k := r.Intn(16); {
		case k == 0:
			return "!T"
		case k == 1:
			return "!R"
		case k < 5:
			return []string{"u", "n", "T", dTok(math.NaN()), dTok(2.5), dTok(1), dTok(math.Copysign(0, -1))}[r.Intn(7)]
		}
		return []string{sTok("x"), sTok("x"), sTok("y"), sTok(""), sTok("1,2"), sTok("z")}[r.Intn(6)]
	}
	eff := func() string {
		if !isArr || r.Chance(80) {
			return "-"
		}
		switch r.Intn(3) {
		case 0:
			return "p" + genElem(r)
		case 1:
			return "l" + dTok(float64(r.Intn(n+2)))
		}
		return "d" + strconv.Itoa(r.Intn(n+1))
	}
	for st := 1 + r.Intn(3); st > 0; st-- {
		var script []string
		var m string
		var args []string
		user := false
		if r.Chance(25) {
			// join itself: its separator, then every element is converted in turn
			m = "join"
			if r.Chance(50) {
				args = append(args, []string{sTok("-"), "u", sTok(""), "O8"}[r.Intn(4)])
			}
			keys = append(keys, "joinprop:join")
		} else {
			src := srcs[r.Intn(len(srcs))]
			mode := modes[r.Intn(len(modes))]
			m = "toString." + mode + "." + src
			user = src == "own" || src == "acc" || src == "proto"
			if mode == "call" {
				for j := []int{0, 0, 0, 1, 2}[r.Intn(5)]; j > 0; j-- {
					args = append(args, genSurplus(r))
				}
			}
			keys = append(keys, "joinprop:"+mode, "joinprop:src:"+src)
		}
		for j := r.Intn(n + 3); j > 0; j-- {
			e := eff() + "~" + prim()
			if user && len(script) == 0 && r.Chance(25) {
				// what the script's join returns is the result of toString: an object too
				res := "O40"
				if isArr && r.Chance(50) {
					res = "R"
				}
				e = eff() + "~" + res
			}
			script = append(script, e)
		}
		line += " call/" + m + "/" + strings.Join(args, ",") + "//" + strings.Join(script, ",")
	}
	c.Add(line, keys...)
}

var c08WeirdKeys = []string{"01", "00", "+1", "-0", "+0", "-1", "1.0", "1e0", " 1", "x", "007", "+3", "4294967294", "4294967295", "4294967296", "04", "+4294967294"}

// keyTok: "#N<number token>" is a numeric subscript, everything else a string key
func keyTok(key string) string {
	if strings.HasPrefix(key, "#N") {
		return key[1:]
	}
	return kTok(key)
}

func genHistory(c *h.Ctx) {
	r := c.Rng
	n := r.Intn(9)
	if r.Chance(10) {
		n = 0
	}
	es := make([]string, n)
	for i := range es {
		if r.Chance(25) {
			es[i] = "_"
		} else {
			es[i] = genElem(r)
		}
	}
	var ps []string
	if r.Chance(15) {
		seen := map[int]bool{}
		for j := 0; j < 1+r.Intn(2); j++ {
			if i := r.Intn(n + 2); !seen[i] {
				seen[i] = true
				ps = append(ps, fmt.Sprintf("%d:%s", i, genElem(r)))
			}
		}
	}
	line := "h a=" + strings.Join(es, ",") + " p=" + strings.Join(ps, ",")
	keys := []string{"hist"}
	huge := false
	genKey := func() string {
		switch r.Intn(11) {
		case 0:
			return "length"
		case 10:
			// a number as subscript: ToString(-0) is "0", ToString(2.5) is not an index
			return "#N" + []string{dTok(math.Copysign(0, -1)), dTok(math.Copysign(0, -1)), dTok(0), dTok(1), dTok(float64(n)), dTok(-1), dTok(2.5),
				dTok(math.NaN()), dTok(math.Inf(1)), dTok(float64(r.Intn(n + 3)))}[r.Intn(10)]
		case 1:
			k := c08WeirdKeys[r.Intn(len(c08WeirdKeys))]
			if strings.Contains(k, "42949672") {
				huge = true
			}
			return k
		default:
			return strconv.Itoa(r.Intn(n + 3))
		}
	}
	genLenVal := func() string {
		switch r.Intn(8) {
		case 0:
			return []string{"u", "n", "T", sTok("2"), sTok("x"), dTok(2.5), dTok(-1), dTok(math.NaN()), dTok(math.Inf(1)), dTok(4294967296), dTok(math.Copysign(0, -1))}[r.Intn(11)]
		case 1:
			if !huge {
				huge = true
				return []string{dTok(4294967295), dTok(4294967294)}[r.Intn(2)]
			}
			return dTok(float64(r.Intn(n + 3)))
		default:
			return dTok(float64(r.Intn(n + 3)))
		}
	}
	steps := 1 + r.Intn(4)
	for s := 0; s < steps; s++ {
		var st string
		switch k := r.Intn(20); {
		case k < 3:
			key := genKey()
			v := genElem(r)
			if key == "length" {
				if huge {
					continue
				}
				v = genLenVal()
			}
			st = "put/" + keyTok(key) + "/" + v
			keys = append(keys, "step:put")
		case k < 5:
			key := genKey()
			st = "del/" + keyTok(key)
			keys = append(keys, "step:del")
		case k < 8:
			key := genKey()
			tri := func() string { return []string{"1", "0", "-", "1"}[r.Intn(4)] }
			v := genElem(r)
			if key == "length" {
				if huge {
					continue
				}
				v = genLenVal()
			}
			if r.Chance(15) {
				v = "-"
			}
			w, e, cc := tri(), tri(), tri()
			st = "def/" + keyTok(key) + "/" + v + "/" + w + "/" + e + "/" + cc
			keys = append(keys, "step:def")
		case k == 8:
			st = []string{"frz", "seal", "noext"}[r.Intn(3)]
			keys = append(keys, "step:"+st)
		case k == 9:
			wasHuge := huge
			st = "new/" + genLenVal()
			huge = wasHuge // new Array(n) does not touch the receiver
			keys = append(keys, "step:new")
		default:
			m := c08Methods[r.Intn(len(c08Methods))]
			if huge && m != "push" && m != "pop" {
				continue
			}
			var args, rets []string
			switch m {
			case "push", "unshift":
				for j := r.Intn(4); j > 0; j-- {
					args = append(args, genElem(r))
				}
			case "slice":
				for j := r.Intn(3); j > 0; j-- {
					args = append(args, genNumArg(r, n))
				}
			case "splice":
				for j := r.Intn(4); j > 0; j-- {
					args = append(args, genNumArg(r, n))
					if len(args) == 2 {
						for q := r.Intn(4); q > 0; q-- {
							args = append(args, genElem(r))
						}
						break
					}
				}
			case "indexOf", "lastIndexOf":
				args = append(args, genElem(r))
				if r.Chance(60) {
					args = append(args, genNumArg(r, n))
				}
			case "join":
				if r.Chance(60) {
					args = append(args, []string{sTok("-"), sTok(""), "u", "n", dTok(1), sTok(", ")}[r.Intn(6)])
				}
			case "concat":
				for j := r.Intn(3); j > 0; j-- {
					if r.Chance(60) {
						a := "a"
						for q := r.Intn(4); q > 0; q-- {
							if r.Chance(30) {
								a += ":_"
							} else {
								a += ":" + genElem(r)
							}
						}
						args = append(args, a)
					} else {
						args = append(args, genElem(r))
					}
				}
			case "every", "some", "forEach", "map", "filter", "reduce", "reduceRight":
				if (m == "reduce" || m == "reduceRight") && r.Chance(50) {
					args = append(args, genElem(r))
				}
				for j := r.Intn(n + 2); j > 0; j-- {
					rets = append(rets, genElem(r))
				}
				if r.Chance(4) {
					m += "!"
				}
			}
			if r.Chance(15) {
				if a2 := addSurplus(r, m, args, n); len(a2) != len(args) {
					args = a2
					keys = append(keys, "surplus:"+strings.TrimSuffix(m, "!"))
				}
			}
			st = "call/" + m + "/" + strings.Join(args, ",") + "/" + strings.Join(rets, ",")
			keys = append(keys, "call:"+m)
		}
		line += " " + st
	}
	c.Add(line, keys...)
}

func genLengthScenario(c *h.Ctx) {
	r := c.Rng
	n := 1 + r.Intn(7)
	es := make([]string, n)
	for i := range es {
		if r.Chance(20) {
			es[i] = "_"
		} else {
			es[i] = genElem(r)
		}
	}
	line := "h a=" + strings.Join(es, ",") + " p="
	tri := func() string { return []string{"1", "0", "-"}[r.Intn(3)] }
	for j := r.Intn(3); j > 0; j-- {
		line += fmt.Sprintf(" def/%s/%s/%s/%s/0", kTok(strconv.Itoa(r.Intn(n+1))), genElem(r), tri(), tri())
	}
	switch r.Intn(5) {
	case 0:
		line += " frz"
	case 1:
		line += " seal"
	case 2:
		line += " def/" + kTok("length") + "/-/0/-/-"
	case 3:
		line += " noext"
	}
	for j := 1 + r.Intn(3); j > 0; j-- {
		lv := dTok(float64(r.Intn(n + 3)))
		if r.Chance(30) {
			lv = dTok(float64(n))
		}
		switch r.Intn(6) {
		case 0:
			line += " put/" + kTok("length") + "/" + lv
		case 1, 2:
			line += " def/" + kTok("length") + "/" + lv + "/" + tri() + "/-/-"
		case 3:
			line += " def/" + kTok("length") + "/" + lv + "/" + tri() + "/" + tri() + "/" + tri()
		case 4:
			line += fmt.Sprintf(" put/%s/%s", kTok(strconv.Itoa(r.Intn(n+3))), genElem(r))
		default:
			m := []string{"push", "pop", "shift", "unshift", "splice", "reverse"}[r.Intn(6)]
			args := ""
			switch m {
			case "push", "unshift":
				args = genElem(r)
			case "splice":
				args = dTok(float64(r.Intn(n))) + "," + dTok(float64(r.Intn(3))) + []string{"", "," + genElem(r), "," + genElem(r) + "," + genElem(r)}[r.Intn(3)]
			}
			line += " call/" + m + "/" + args + "/"
		}
	}
	c.Add(line, "lenscenario")
}

// values with pairwise distinct ToString (so the default SortCompare only identifies identical values)
var c08SortPool = []string{dTok(0), dTok(1), dTok(2), dTok(3), dTok(10), dTok(21), dTok(-1), dTok(100), dTok(2.5), sTok("a"), sTok("b"), sTok("ab"),
	sTok(""), sTok("B"), sTok("11"), "T", "F", "n", dTok(math.NaN()), dTok(math.Inf(1)),
	sTok("\ue000"), sTok("\U00010000"), sTok("\uffff"), sTok("\U0001f600"), sTok("a\U00010000"), sTok("a\ue000")}
var c08SortNums = []string{dTok(0), dTok(1), dTok(2), dTok(3), dTok(10), dTok(21), dTok(-1), dTok(100), dTok(2.5), dTok(-7.5), dTok(1e10), dTok(-1e-3)}

func genSort(c *h.Ctx) {
	r := c.Rng
	n := r.Intn(9)
	if r.Chance(8) {
		n = 9 + r.Intn(8)
	}
	m := []string{"sort", "sort", "sortNum", "sortInf"}[r.Intn(4)]
	pool := c08SortPool
	if m != "sort" {
		pool = c08SortNums
	}
	es := make([]string, n)
	for i := range es {
		switch {
		case r.Chance(15):
			es[i] = "_"
		case r.Chance(12):
			es[i] = "u"
		default:
			es[i] = pool[r.Intn(len(pool))]
		}
	}
	line := "h a=" + strings.Join(es, ",") + " p="
	if r.Chance(12) {
		// an array-like whose length is a scripted object
		line = "h o=O9|" + strings.Join(es, ",") + " p= call/" + m + "///-~" + dTok(float64(n))
		c.Add(line, "sort:like:"+m)
		return
	}
	if r.Chance(20) {
		line += fmt.Sprintf(" del/%s", kTok(strconv.Itoa(r.Intn(n+1))))
	}
	if r.Chance(20) {
		line += fmt.Sprintf(" put/%s/%s", kTok(strconv.Itoa(r.Intn(n+3))), pool[r.Intn(len(pool))])
	}
	keys := []string{"sort:" + m}
	sargs := ""
	if r.Chance(15) {
		sargs = strings.Join(addSurplus(r, m, nil, n), ",")
		keys = append(keys, "surplus:sort")
	}
	line += " call/" + m + "/" + sargs + "/"
	if r.Chance(25) {
		line += " call/" + m + "//"
	}
	c.Add(line, keys...)
}

func genOrder(c *h.Ctx) {
	r := c.Rng
	n := r.Intn(6)
	es := make([]string, n)
	for i := range es {
		if r.Chance(20) {
			es[i] = "_"
		} else {
			es[i] = genElem(r)
		}
	}
	like := r.Chance(35)
	lenObj := false
	var line string
	if like {
		l := dTok(float64(n))
		switch r.Intn(10) {
		case 0, 1, 2, 3:
			l = "O9"
			lenObj = true
		case 4:
			l = sTok(strconv.Itoa(n))
		case 5:
			l = []string{dTok(float64(n) + 0.5), "u", "n", "T", dTok(math.NaN()), sTok("x")}[r.Intn(6)]
		case 6:
			l = dTok(float64(r.Intn(n + 3)))
		case 7:
			if r.Chance(30) {
				l = "-"
			}
		}
		line = "h o=" + l + "|" + strings.Join(es, ",") + " p="
	} else {
		line = "h a=" + strings.Join(es, ",") + " p="
	}
	// a position argument: a scripted object more often than not
	nobj := 0
	pos := func() string {
		if r.Chance(60) {
			nobj++
			return "O" + strconv.Itoa(nobj)
		}
		return genNumArg(r, n)
	}
	res := func() string {
		switch k := r.Intn(20); {
		case k < 2:
			return "!T"
		case k == 2:
			return "!R"
		case k == 3:
			return []string{"u", "n", "T", dTok(math.NaN()), sTok("1"), sTok("x"), dTok(2.5)}[r.Intn(7)]
		case k == 4 && !lenObj:
			return dTok(float64(-1 - r.Intn(n+2)))
		case k == 5 && !lenObj:
			return []string{dTok(math.Inf(1)), dTok(math.Inf(-1)), dTok(-0.5)}[r.Intn(3)]
		}
		return dTok(float64(r.Intn(n + 3)))
	}
	eff := func() string {
		if like || r.Chance(70) {
			return "-"
		}
		switch r.Intn(3) {
		case 0:
			return "p" + genElem(r)
		case 1:
			return "l" + dTok(float64(r.Intn(n+3)))
		}
		return "d" + strconv.Itoa(r.Intn(n+1))
	}
	steps := 1
	if r.Chance(20) {
		steps = 2
	}
	surplus := false
	for st := 0; st < steps; st++ {
		nobj = 0
		m := []string{"slice", "slice", "splice", "splice", "indexOf", "lastIndexOf", "lastIndexOf", "join", "join",
			"every", "some", "forEach", "map", "filter", "reduce", "reduceRight", "push", "pop", "shift", "unshift", "reverse", "concat"}[r.Intn(22)]
		var args, rets []string
		switch m {
		case "slice":
			for j := r.Intn(3); j > 0; j-- {
				args = append(args, pos())
			}
		case "splice":
			for j := r.Intn(3); j > 0; j-- {
				args = append(args, pos())
			}
			if len(args) == 2 {
				for q := r.Intn(3); q > 0; q-- {
					args = append(args, genElem(r))
				}
			}
		case "indexOf", "lastIndexOf":
			args = append(args, genElem(r))
			if r.Chance(75) {
				args = append(args, pos())
			}
		case "join":
			if r.Chance(75) {
				nobj++
				args = append(args, "O1")
			} else if r.Chance(50) {
				args = append(args, sTok("-"))
			}
		case "push", "unshift":
			for j := r.Intn(3); j > 0; j-- {
				args = append(args, genElem(r))
			}
		case "every", "some", "forEach", "map", "filter", "reduce", "reduceRight":
			if (m == "reduce" || m == "reduceRight") && r.Chance(50) {
				args = append(args, genElem(r))
			}
			for j := r.Intn(n + 2); j > 0; j-- {
				rets = append(rets, genElem(r))
			}
			if r.Chance(30) {
				m += "!"
			}
		}
		var script []string
		k := nobj
		if lenObj {
			k++
		}
		if r.Chance(15) && k > 0 {
			k--
		}
		for j := 0; j < k; j++ {
			script = append(script, eff()+"~"+res())
		}
		if m == "join" && len(script) > 0 && !strings.HasSuffix(script[0], "!T") && !strings.HasSuffix(script[0], "!R") && r.Chance(50) {
			// a separator that is a string
			script[0] = script[0][:strings.Index(script[0], "~")+1] + []string{sTok("-"), sTok(""), sTok(", ")}[r.Intn(3)]
		}
		if r.Chance(15) {
			args = addSurplus(r, m, args, n)
			surplus = true
		}
		line += " call/" + m + "/" + strings.Join(args, ",") + "/" + strings.Join(rets, ",") + "/" + strings.Join(script, ",")
	}
	if surplus {
		c.Add(line, "order", "order:surplus")
		return
	}
	c.Add(line, "order")
}

var c08Prims = []string{sTok("ab"), sTok("ab"), sTok(""), sTok("abc"), sTok("a"), dTok(5), dTok(0), dTok(-1.5), "T", "F"}

// genPrim: every method through .call on a primitive receiver.
func genPrim(c *h.Ctx) {
	r := c.Rng
	recv := c08Prims[r.Intn(len(c08Prims))]
	line := "h v=" + recv + " p="
	n := 3
	for st := 1 + r.Intn(2); st > 0; st-- {
		m := append(append([]string{}, c08Methods...), "sort", "sortNum")[r.Intn(len(c08Methods)+2)]
		var args, rets []string
		if (m == "sort" || m == "sortNum") && strings.HasPrefix(recv, "s") && recv != sTok("") {
			// ES5 15.4.4.11: sort is implementation-defined when an element is a non-writable data property
			m = "reverse"
		}
		switch m {
		case "push", "unshift":
			for j := r.Intn(3); j > 0; j-- {
				args = append(args, genElem(r))
			}
		case "slice":
			for j := r.Intn(3); j > 0; j-- {
				args = append(args, genNumArg(r, n))
			}
		case "splice":
			for j := r.Intn(4); j > 0; j-- {
				args = append(args, genNumArg(r, n))
				if len(args) == 2 {
					break
				}
			}
		case "indexOf", "lastIndexOf":
			args = append(args, []string{sTok("a"), sTok("b"), genElem(r)}[r.Intn(3)])
			if r.Chance(40) {
				args = append(args, genNumArg(r, n))
			}
		case "join":
			if r.Chance(50) {
				args = append(args, []string{sTok("-"), sTok(""), "u"}[r.Intn(3)])
			}
		case "concat":
			for j := r.Intn(3); j > 0; j-- {
				args = append(args, genElem(r))
			}
		case "every", "some", "forEach", "map", "filter", "reduce", "reduceRight":
			if (m == "reduce" || m == "reduceRight") && r.Chance(50) {
				args = append(args, genElem(r))
			}
			for j := r.Intn(4); j > 0; j-- {
				rets = append(rets, genElem(r))
			}
			if r.Chance(6) {
				m += "!"
			}
		}
		if r.Chance(15) {
			args = addSurplus(r, m, args, n)
		}
		line += " call/" + m + "/" + strings.Join(args, ",") + "/" + strings.Join(rets, ",")
	}
	c.Add(line, "prim")
}

// genProtoHistory: Array.prototype itself is an array (ES5 15.4.4): a history on it in a fresh runtime.
func genProtoHistory(c *h.Ctx) {
	r := c.Rng
	line := "h A= p="
	tri := func() string { return []string{"1", "0", "-", "1"}[r.Intn(4)] }
	for st := 1 + r.Intn(4); st > 0; st-- {
		switch r.Intn(8) {
		case 0, 1:
			line += fmt.Sprintf(" put/%s/%s", kTok(strconv.Itoa(r.Intn(5))), genElem(r))
		case 2:
			lv := []string{dTok(float64(r.Intn(6))), dTok(-1), dTok(1.5), dTok(4294967296), sTok("2"), "u", dTok(0)}[r.Intn(7)]
			line += " put/" + kTok("length") + "/" + lv
			if lv == dTok(-1) || lv == dTok(1.5) || lv == dTok(4294967296) || lv == "u" {
				// a RangeError is expected; should the value be stored instead, no later step may iterate over it
				st = 1
			}
		case 3:
			line += " del/" + kTok(strconv.Itoa(r.Intn(5)))
		case 4:
			line += fmt.Sprintf(" def/%s/%s/%s/%s/%s", kTok(strconv.Itoa(r.Intn(5))), genElem(r), tri(), tri(), tri())
		case 5:
			line += " def/" + kTok("length") + "/" + dTok(float64(r.Intn(5))) + "/" + tri() + "/-/-"
		default:
			m := []string{"push", "pop", "shift", "unshift", "reverse", "slice", "join", "indexOf", "concat", "forEach"}[r.Intn(10)]
			args, rets := "", ""
			switch m {
			case "push", "unshift", "indexOf":
				args = genElem(r)
			case "forEach":
				rets = "u,u,u"
			}
			line += " call/" + m + "/" + args + "/" + rets
		}
	}
	c.Add(line, "arrayproto")
}

// genLenValue: the length of an array is set to / defined with a scripted object, and toString is called.
func genLenValue(c *h.Ctx) {
	r := c.Rng
	n := r.Intn(6)
	es := make([]string, n)
	for i := range es {
		if r.Chance(20) {
			es[i] = "_"
		} else {
			es[i] = genElem(r)
		}
	}
	line := "h a=" + strings.Join(es, ",") + " p="
	res := func() string {
		switch k := r.Intn(14); {
		case k == 0:
			return "!T"
		case k == 1:
			return []string{"u", dTok(1.5), dTok(-1), sTok("2"), dTok(math.NaN()), dTok(4294967296), sTok("x")}[r.Intn(7)]
		}
		return dTok(float64(r.Intn(n + 3)))
	}
	if r.Chance(15) {
		line += []string{" frz", " def/" + kTok("length") + "/-/0/-/-", " noext"}[r.Intn(3)]
	}
	for st := 1 + r.Intn(2); st > 0; st-- {
		switch r.Intn(5) {
		case 0, 1:
			a, b := res(), res()
			if r.Chance(60) {
				b = a
			}
			line += " put/" + kTok("length") + "/O1/-~" + a + ",-~" + b
		case 2:
			a, b := res(), res()
			if r.Chance(60) {
				b = a
			}
			line += " def/" + kTok("length") + "/O1/" + []string{"1", "0", "-"}[r.Intn(3)] + "/-/-/-~" + a + ",-~" + b
		case 3:
			line += " call/toString/" + []string{"", sTok("-"), "u", sTok(""), dTok(1)}[r.Intn(5)] + "/"
		default:
			line += fmt.Sprintf(" put/%s/%s", kTok(strconv.Itoa(r.Intn(n+2))), genElem(r))
		}
	}
	c.Add(line, "lenvalue")
}
