// Command c13 is the correspondence harness binary for property C13.
package main

import "ottoverif/h"

func main() { h.Main("C13") }
