package main

import (
	"encoding/hex"
	"fmt"
	"math"
	"strings"
	"sync"
	"unicode/utf16"
	"unicode/utf8"

	"github.com/robertkrimen/otto"
	"ottoverif/h"
)

func init() {
	h.Register(&h.Prop{ID: "C13", Gen: genC13, Impl: implC13, Trivial: func(l string) bool { return false }})
}

// ---------------------------------------------------------------- the real code, through the public API

type c13vm struct {
	vm  *otto.Otto
	fns map[string]otto.Value
}

var c13pool = sync.Pool{New: func() interface{} { return &c13vm{vm: otto.New(), fns: map[string]otto.Value{}} }}

func (c *c13vm) fn(name string) otto.Value {
	if f, ok := c.fns[name]; ok {
		return f
	}
	f, err := c.vm.Run(name)
	if err != nil {
		panic(err)
	}
	c.fns[name] = f
	return f
}

// call invokes the named builtin with the given argument values; errors become throw:<Class>.
func c13call(name string, args []otto.Value) (otto.Value, string) {
	c := c13pool.Get().(*c13vm)
	defer c13pool.Put(c)
	ia := make([]interface{}, len(args))
	for i, a := range args {
		ia[i] = a
	}
	v, err := c.fn(name).Call(otto.NullValue(), ia...)
	if err != nil {
		msg := err.Error()
		if i := strings.IndexByte(msg, ':'); i > 0 {
			msg = msg[:i]
		}
		return v, "throw:" + strings.ReplaceAll(msg, " ", "_")
	}
	return v, ""
}

const c13maxHelper = `(function(name){var called=[],args=[];for(var i=1;i<arguments.length;i++){(function(i,v){called.push(0);args.push({valueOf:function(){called[i-1]=1;return v}})})(i,arguments[i])}var r=Math[name].apply(null,args);return [r,called.join("")]})`

var c13approx = map[string]bool{"sin": true, "cos": true, "tan": true, "asin": true, "acos": true, "atan": true, "exp": true, "log": true, "pow": true, "atan2": true}

// numTok renders a number result: exact bit pattern, or (approximate family, finite non-zero) the pattern
// rounded to its top 40 bits.
func numTok(op string, v otto.Value) string {
	if !v.IsNumber() {
		return "not-a-number:" + h.ValTok(v)
	}
	f, _ := v.ToFloat()
	if c13approx[op] && f != 0 && !math.IsNaN(f) && !math.IsInf(f, 0) {
		return fmt.Sprintf("~%010x", (math.Float64bits(f)+1<<23)>>24)
	}
	return h.F64Hex(f)
}

func parseSV(t string) otto.Value {
	i := strings.IndexByte(t, ':')
	b, err := hex.DecodeString(t[i+1:])
	if err != nil {
		panic(err)
	}
	var x interface{}
	if t[:i] == "g" {
		x = string(b)
	} else {
		us := make([]uint16, len(b)/2)
		for j := range us {
			us[j] = uint16(b[2*j])<<8 | uint16(b[2*j+1])
		}
		x = us
	}
	v, err := otto.ToValue(x)
	if err != nil {
		panic(err)
	}
	return v
}

// strTok renders a string result by its UTF-16 code units exactly as the value holds them (hook of
// verif_c09.go: a string with an unpaired surrogate is held as []uint16 and would become U+FFFD in ToString).
func strTok(v otto.Value, e string) string {
	if e != "" {
		return e
	}
	us, ok := otto.VerifStringUnits(v)
	if !ok {
		return "not-a-string:" + h.ValTok(v)
	}
	var b strings.Builder
	b.WriteString("s:")
	for _, u := range us {
		fmt.Fprintf(&b, "%04x", u)
	}
	return b.String()
}

// the text forms of a Math result: String(r), r + "", and the property key made from r
const c13textHelper = `(function(name){var a=[];for(var i=1;i<arguments.length;i++)a.push(arguments[i]);var r=Math[name].apply(null,a);var o={};o[r]=1;var k;for(var p in o){k=p}return [r,String(r),r+"",k]})`

const c13concatHelper = `(function(k,a,b){return (k==="uri"?encodeURI:encodeURIComponent)(a+b)})`

func implC13(line string) string {
	f := strings.Fields(line)
	vals := func(ts []string) []otto.Value {
		out := make([]otto.Value, len(ts))
		for i, t := range ts {
			out[i] = h.ParseVal(t)
		}
		return out
	}
	switch f[0] {
	case "m1":
		v, e := c13call("Math."+f[1], vals(f[2:]))
		if e != "" {
			return e
		}
		return numTok(f[1], v)
	case "m2":
		v, e := c13call("Math."+f[1], vals(f[2:]))
		if e != "" {
			return e
		}
		return numTok(f[1], v)
	case "mx":
		v, e := c13call("Math."+f[1], vals(f[2:]))
		if e != "" {
			return e
		}
		return numTok(f[1], v)
	case "txt":
		name, _ := otto.ToValue(f[1])
		v, e := c13call(c13textHelper, append([]otto.Value{name}, vals(f[2:])...))
		if e != "" {
			return e
		}
		o := v.Object()
		if o == nil {
			return "not-an-object"
		}
		r, _ := o.Get("0")
		var texts []string
		for _, k := range []string{"1", "2", "3"} {
			t, _ := o.Get(k)
			ts, _ := t.ToString()
			texts = append(texts, hex.EncodeToString([]byte(ts)))
		}
		tok := texts[0]
		if texts[1] != texts[0] || texts[2] != texts[0] {
			tok = strings.Join(texts, "/") // String(r), r+"" and the property key disagree
		}
		x, _ := r.Export()
		return fmt.Sprintf("t:%s;%T", tok, x)
	case "mxo":
		// arguments wrapped in objects with a recording valueOf: which ToNumber conversions happen is observable
		name, _ := otto.ToValue(f[1])
		args := append([]otto.Value{name}, vals(f[2:])...)
		v, e := c13call(c13maxHelper, args)
		if e != "" {
			return e
		}
		o := v.Object()
		if o == nil {
			return "not-an-object"
		}
		r, _ := o.Get("0")
		m, _ := o.Get("1")
		ms, _ := m.ToString()
		return numTok(f[1], r) + ";" + ms
	case "isNaN", "isFinite":
		v, e := c13call(f[0], vals(f[1:]))
		if e != "" {
			return e
		}
		if !v.IsBoolean() {
			return "not-a-boolean"
		}
		b, _ := v.ToBoolean()
		return h.BoolTok(b)
	case "enc":
		name := map[string]string{"uri": "encodeURI", "comp": "encodeURIComponent"}[f[1]]
		return strTok(c13call(name, []otto.Value{parseSV(f[2])}))
	case "encc":
		k, _ := otto.ToValue(f[1])
		return strTok(c13call(c13concatHelper, []otto.Value{k, parseSV(f[2]), parseSV(f[3])}))
	case "dec":
		name := map[string]string{"uri": "decodeURI", "comp": "decodeURIComponent"}[f[1]]
		return strTok(c13call(name, []otto.Value{parseSV(f[2])}))
	case "escape", "unescape":
		return strTok(c13call(f[0], []otto.Value{parseSV(f[1])}))
	}
	return "bad-op"
}

// ---------------------------------------------------------------- generators

var c13fn1 = []string{"sin", "cos", "tan", "asin", "acos", "atan", "exp", "log", "sqrt", "abs", "floor", "ceil", "round", "trunc"}

func c13ref1(fn string, x float64) float64 {
	switch fn {
	case "sin":
		return math.Sin(x)
	case "cos":
		return math.Cos(x)
	case "tan":
		return math.Tan(x)
	case "asin":
		return math.Asin(x)
	case "acos":
		return math.Acos(x)
	case "atan":
		return math.Atan(x)
	case "exp":
		return math.Exp(x)
	case "log":
		return math.Log(x)
	}
	return 0
}

func class(f float64) int {
	switch {
	case math.IsNaN(f):
		return 0
	case math.IsInf(f, 0):
		return 1
	case f == 0:
		return 2
	}
	return 3
}

// bucketStable: the 40-bit bucket of r is the bucket of every double within 8192 ulp of r.
func bucketStable(r float64) bool {
	if class(r) != 3 {
		return true
	}
	// buckets are centred on multiples of 2^24 (exact results such as 1.0 sit in the middle of theirs)
	low := (math.Float64bits(r) + 1<<23) & (1<<24 - 1)
	if low < 8192 || low > 1<<24-8192 {
		return false
	}
	a := math.Abs(r)
	return a < math.MaxFloat64*(1-1e-9)
}

// The bucket comparison of an "implementation-dependent approximation" is only meaningful away from
// bucket edges and over/underflow thresholds; such requests are not generated (counted as skipped).
func c13stable1(fn string, x float64) bool {
	if !c13approx[fn] {
		return true
	}
	r := c13ref1(fn, x)
	if !bucketStable(r) {
		return false
	}
	if fn == "exp" && class(x) == 3 && class(r) != 3 {
		return class(c13ref1(fn, x*(1-1e-9))) == class(r)
	}
	if fn == "exp" && class(r) == 3 && class(c13ref1(fn, x*(1+1e-9))) != 3 {
		return false
	}
	// Go computes Acos(x) = Pi/2 - Asin(x): the subtraction cancels near x = 1 (absolute error 1 ulp of
	// pi/2, relative error up to 1e-8).  ES5 leaves the precision open; the bucket comparison does not apply.
	if fn == "acos" && x > 0.99 && x < 1 {
		return false
	}
	return true
}

func c13stable2(fn string, a, b float64) bool {
	var r float64
	if fn == "pow" {
		r = math.Pow(a, b)
		if class(a) == 3 && class(b) == 3 {
			if class(math.Pow(a, b*(1-1e-9))) != class(r) || class(math.Pow(a, b*(1+1e-9))) != class(r) {
				return false
			}
			// pow.go multiplies by successive squarings: the relative error grows like |y| ulp.  ES5 leaves the
			// precision open; the 28-bit comparison is only applied for |y| <= 1024.
			if class(r) == 3 && math.Abs(b) > 1024 {
				return false
			}
		}
	} else {
		r = math.Atan2(a, b)
		// x > 0 and y/x below the normal range: the result is a subnormal approximation (or ±0); not compared.
		if class(a) == 3 && class(b) == 3 && b > 0 && math.Abs(a/b) < 2.3e-308 {
			return false
		}
	}
	return bucketStable(r)
}

func c13num(t string) float64 {
	f, _ := h.ParseVal(t).ToFloat()
	return f
}

func c13Doubles() []float64 {
	out := h.BoundaryDoubles()
	add := func(f float64) {
		for _, g := range []float64{f, math.Nextafter(f, math.Inf(1)), math.Nextafter(f, math.Inf(-1))} {
			out = append(out, g, -g)
		}
	}
	for _, f := range []float64{1, 0.5, 2, 3, 4, 0.25, 0.75, 1.25, 2.25, 2.75, 3.5, 4.5, 0.3, 0.7, 10, 100, 709.782712893384, 745.1332191019411, 744.4400719213812,
		math.Pi, math.Pi / 2, math.Pi / 4, 3 * math.Pi / 4, 2 * math.Pi, 1e10, 1e22, 536870912, 4503599627370496, 4503599627370497, 9007199254740991, 9007199254740992, 9007199254740993,
		2251799813685248.5, 2251799813685247.5, 1125899906842624.25, 1125899906842623.75, 0.49999999999999994, 0.9999, 1.0001, 1e-300, 1e300, math.E} {
		add(f)
	}
	return out
}

var c13nonNum = []string{"u", "n", "b:0", "b:1"}

func c13Strings() []string {
	var out []string
	for _, s := range []string{"", " ", "0", "-0", " 12 ", "1e3", ".5", "0x10", "Infinity", "-Infinity", "NaN", "abc", "1 2", "1e999", "  7\ufeff", "0x", "1_0", "inf"} {
		out = append(out, h.BytesTok(s))
	}
	// white space around a numeral: every StrWhiteSpaceChar of ES5 9.3.1, and the code points on which Go's
	// unicode.IsSpace / strings.TrimSpace disagree with it (U+0085 is Go-space only; U+FEFF, U+180E are ES5 only),
	// plus near misses that are not white space (U+200B, U+001C, U+2060)
	for _, ws := range []rune{0x9, 0xA, 0xB, 0xC, 0xD, 0x20, 0x85, 0xA0, 0x1680, 0x180E, 0x2000, 0x200A, 0x2028, 0x2029, 0x202F, 0x205F, 0x3000, 0xFEFF, 0x200B, 0x1C, 0x2060} {
		w := string(ws)
		for _, t := range []string{w, w + "1", "1" + w, w + "1" + w, w + w + "-2.5e1" + w, "1" + w + "2", w + "0x1F", w + "Infinity" + w} {
			out = append(out, h.BytesTok(t))
		}
	}
	out = append(out, "i32:-1", "i64:9007199254740993", "u8:255", "int:0", "u64:18446744073709551615", "i8:-128")
	return out
}

func genMath(c *h.Ctx) {
	bd := c13Doubles()
	var vs []string
	seen := map[string]bool{}
	for _, f := range bd {
		t := "f:" + h.F64Hex(f)
		if !seen[t] {
			seen[t] = true
			vs = append(vs, t)
		}
	}
	nn := append(append([]string{}, c13nonNum...), c13Strings()...)
	all := append(append([]string{}, vs...), nn...)
	add1 := func(fn, t, key string) {
		if !c13stable1(fn, c13num(t)) {
			c.Dist["skipped:unstable-bucket"]++
			return
		}
		c.Add("m1 "+fn+" "+t, key)
	}
	add2 := func(fn, a, b, key string) {
		if !c13stable2(fn, c13num(a), c13num(b)) {
			c.Dist["skipped:unstable-bucket"]++
			return
		}
		c.Add("m2 "+fn+" "+a+" "+b, key)
	}
	for _, fn := range c13fn1 {
		for _, t := range all {
			add1(fn, t, "m1:"+fn)
		}
		c.Add("m1 "+fn, "m1:noarg") // zero arguments
	}
	for _, op := range []string{"isNaN", "isFinite"} {
		for _, t := range all {
			c.Add(op+" "+t, op)
		}
	}
	randD := func() string { return "f:" + h.F64Hex(h.RandomDouble(c.Rng, bd)) }
	randV := func() string {
		if c.Rng.Chance(8) {
			return nn[c.Rng.Intn(len(nn))]
		}
		if c.Rng.Chance(35) {
			return vs[c.Rng.Intn(len(vs))]
		}
		// doubles of moderate size are where the library functions are interesting
		if c.Rng.Chance(50) {
			return "f:" + h.F64Hex(math.Ldexp(float64(int64(c.Rng.U64()>>11))/(1<<53), c.Rng.Intn(24)-12)*float64(1-2*c.Rng.Intn(2)))
		}
		return randD()
	}
	for i := 0; i < c.N(12000, 600000); i++ {
		fn := c13fn1[c.Rng.Intn(len(c13fn1))]
		add1(fn, randV(), "m1:random")
	}
	// the two amd64 assembly defects: Exp near the overflow threshold, Log (and Pow) of subnormals
	for i := 0; i < c.N(300, 20000); i++ {
		add1("exp", "f:"+h.F64Hex(709.3+0.6*float64(c.Rng.Intn(1<<30))/(1<<30)), "m1:exp-threshold")
		sub := math.Float64frombits(c.Rng.U64() >> uint(12+c.Rng.Intn(52)))
		add1("log", "f:"+h.F64Hex(sub), "m1:log-subnormal")
		add2("pow", "f:"+h.F64Hex(sub), "f:"+h.F64Hex(float64(c.Rng.Intn(33)-16)/8), "m2:pow-subnormal")
		add2("atan2", "f:"+h.F64Hex(-sub), "f:"+h.F64Hex(-float64(1+c.Rng.Intn(1000))), "m2:atan2-underflow")
	}
	// round: dense around ties and the 2^52 / 2^53 thresholds
	for i := 0; i < c.N(3000, 100000); i++ {
		k := float64(int64(c.Rng.U64()>>uint(11+c.Rng.Intn(53)))) + []float64{0, 0.5, 0.25, 0.75, 0.49999999999999994}[c.Rng.Intn(5)]
		if c.Rng.Bool() {
			k = -k
		}
		for _, fn := range []string{"round", "floor", "ceil", "trunc"} {
			c.Add("m1 "+fn+" f:"+h.F64Hex(k), "m1:halves")
		}
	}
	// pow / atan2: specials crossed exhaustively, then random
	var sp []string
	for _, f := range []float64{0, 1, 0.5, 2, 3, 4, 2.5, 0.3, 1.5, math.Inf(1), 5e-324, 9007199254740991, 9007199254740992, 9007199254740993, 1e300, 4503599627370497, 4503599627370496} {
		sp = append(sp, "f:"+h.F64Hex(f), "f:"+h.F64Hex(-f))
	}
	sp = append(sp, "f:"+h.NaNHex, "f:"+h.F64Hex(math.Nextafter(1, 2)), "f:"+h.F64Hex(math.Nextafter(1, 0)), "f:"+h.F64Hex(-math.Nextafter(1, 2)), "f:"+h.F64Hex(-math.Nextafter(1, 0)), "u", "n", "b:1", h.BytesTok("2"))
	for _, a := range sp {
		for _, b := range sp {
			add2("pow", a, b, "m2:pow")
			add2("atan2", a, b, "m2:atan2")
		}
		for _, b := range sp {
			if c13stable2("pow", c13num(a), c13num(b)) {
				c.Add("mxo pow "+a+" "+b, "mxo:pow")
			}
			if c13stable2("atan2", c13num(a), c13num(b)) {
				c.Add("mxo atan2 "+a+" "+b, "mxo:atan2")
			}
		}
		c.Add("m2 pow "+a, "m2:onearg")
		c.Add("m2 atan2 "+a, "m2:onearg")
	}
	if c.Thorough() {
		for _, a := range vs {
			for _, b := range vs {
				add2("pow", a, b, "m2:pow")
				add2("atan2", a, b, "m2:atan2")
			}
		}
	}
	for i := 0; i < c.N(10000, 400000); i++ {
		fn := "pow"
		if c.Rng.Chance(35) {
			fn = "atan2"
		}
		a, b := randV(), randV()
		if fn == "pow" && c.Rng.Chance(40) {
			b = "f:" + h.F64Hex(float64(c.Rng.Intn(81)-40)/[]float64{1, 2, 4}[c.Rng.Intn(3)])
		}
		add2(fn, a, b, "m2:random")
	}
	// max / min: 0..5 arguments over a small pool rich in NaN and signed zeros, then random
	pool := []string{"f:" + h.NaNHex, "f:0000000000000000", "f:8000000000000000", "f:7ff0000000000000", "f:fff0000000000000", "f:3ff0000000000000", "f:bff0000000000000", "f:0000000000000001", "f:8000000000000001", "u", "n", h.BytesTok("3")}
	for _, op := range []string{"max", "min"} {
		c.Add("mx "+op, "mx:0")
		for _, a := range pool {
			c.Add("mx "+op+" "+a, "mx:1")
			for _, b := range pool {
				c.Add("mx "+op+" "+a+" "+b, "mx:2")
				for _, d := range pool {
					if c.Thorough() || c.Rng.Chance(30) {
						c.Add("mx "+op+" "+a+" "+b+" "+d, "mx:3")
					}
				}
			}
		}
	}
	// the same with every argument wrapped in an object with a recording valueOf (which conversions happen)
	for _, op := range []string{"max", "min"} {
		c.Add("mxo "+op, "mxo:0")
		for _, a := range pool {
			c.Add("mxo "+op+" "+a, "mxo:1")
			for _, b := range pool {
				c.Add("mxo "+op+" "+a+" "+b, "mxo:2")
				for _, d := range pool {
					if c.Thorough() || c.Rng.Chance(20) {
						c.Add("mxo "+op+" "+a+" "+b+" "+d, "mxo:3")
					}
				}
			}
		}
	}
	for i := 0; i < c.N(6000, 200000); i++ {
		n := c.Rng.Intn(6)
		parts := []string{"mx", []string{"max", "min"}[c.Rng.Intn(2)]}
		for j := 0; j < n; j++ {
			if c.Rng.Chance(40) {
				parts = append(parts, pool[c.Rng.Intn(len(pool))])
			} else {
				parts = append(parts, randV())
			}
		}
		c.Add(strings.Join(parts, " "), fmt.Sprintf("mx:random%d", n))
		if c.Rng.Chance(30) {
			parts[0] = "mxo"
			c.Add(strings.Join(parts, " "), fmt.Sprintf("mxo:random%d", n))
		}
	}
}

// ---- strings

func hasLone16(us []uint16) bool {
	for i := 0; i < len(us); i++ {
		switch {
		case us[i] < 0xd800 || us[i] > 0xdfff:
		case us[i] < 0xdc00 && i+1 < len(us) && us[i+1] >= 0xdc00 && us[i+1] <= 0xdfff:
			i++
		default:
			return true
		}
	}
	return false
}

func svG(s string) string { return "g:" + hex.EncodeToString([]byte(s)) }
func svW(us []uint16) string {
	var b strings.Builder
	b.WriteString("w:")
	for _, u := range us {
		fmt.Fprintf(&b, "%04x", u)
	}
	return b.String()
}

var c13runes = []rune{0, 9, 10, 32, '%', '+', '@', '#', 'a', 'Z', '0', '~', '/', '?', 0x7f, 0x80, 0xa0, 0xe9, 0xff, 0x100, 0x7ff, 0x800, 0xfff, 0x1000, 0x20ac, 0xd7ff, 0xe000, 0xfffd, 0xfffe, 0xffff, 0x10000, 0x1f600, 0xfffff, 0x10ffff}

func randRune(r *h.Rng) rune {
	switch r.Intn(6) {
	case 0, 1:
		return rune(r.Intn(128))
	case 2:
		return c13runes[r.Intn(len(c13runes))]
	case 3:
		x := rune(r.Intn(0x10000))
		if x >= 0xd800 && x < 0xe000 {
			x -= 0x800
		}
		return x
	case 4:
		return rune(0x10000 + r.Intn(0x100000))
	}
	return rune(0x80 + r.Intn(0x780))
}

func randString(r *h.Rng, maxLen int) string {
	n := r.Intn(maxLen + 1)
	rs := make([]rune, n)
	for i := range rs {
		rs[i] = randRune(r)
	}
	return string(rs)
}

// pctEncode: an independent percent-encoder (every byte of the runes selected by `all`/chance), random hex case.
func pctEncode(r *h.Rng, s string, chance int) string {
	var b strings.Builder
	for _, ru := range s {
		if ru < 0x80 && !r.Chance(chance) && ru != '%' {
			b.WriteRune(ru)
			continue
		}
		var buf [4]byte
		n := utf8.EncodeRune(buf[:], ru)
		for _, by := range buf[:n] {
			if r.Chance(70) {
				fmt.Fprintf(&b, "%%%02X", by)
			} else {
				fmt.Fprintf(&b, "%%%02x", by)
			}
		}
	}
	return b.String()
}

// escEncode: an independent producer of the escape() format.
func escEncode(r *h.Rng, s string, chance int) string {
	var b strings.Builder
	for _, u := range utf16.Encode([]rune(s)) {
		switch {
		case u < 0x80 && u != '%' && !r.Chance(chance):
			b.WriteRune(rune(u))
		case u < 256 && r.Chance(80):
			fmt.Fprintf(&b, "%%%02X", u)
		default:
			if r.Chance(70) {
				fmt.Fprintf(&b, "%%u%04X", u)
			} else {
				fmt.Fprintf(&b, "%%u%04x", u)
			}
		}
	}
	return b.String()
}

const mutAlphabet = "%%%0123456789abcdefABCDEFuUgG+ ;/#@x\x7f"

func mutate(r *h.Rng, s string) string {
	b := []byte(s)
	switch r.Intn(5) {
	case 0: // delete
		if len(b) > 0 {
			i := r.Intn(len(b))
			b = append(b[:i:i], b[i+1:]...)
		}
	case 1: // replace
		if len(b) > 0 {
			b[r.Intn(len(b))] = mutAlphabet[r.Intn(len(mutAlphabet))]
		}
	case 2: // insert
		i := r.Intn(len(b) + 1)
		b = append(b[:i:i], append([]byte{mutAlphabet[r.Intn(len(mutAlphabet))]}, b[i:]...)...)
	case 3: // truncate
		if len(b) > 0 {
			b = b[:r.Intn(len(b))]
		}
	case 4: // change one hex digit to any hex digit (keeps the shape, changes the octet)
		if len(b) > 0 {
			i := r.Intn(len(b))
			for j := 0; j < len(b); j++ {
				k := (i + j) % len(b)
				if b[k] != '%' && strings.IndexByte("0123456789abcdefABCDEF", b[k]) >= 0 {
					b[k] = "0123456789ABCDEFabcdef89abcdefCDEF"[r.Intn(34)]
					break
				}
			}
		}
	}
	return string(b)
}

// addStr adds one string request in the Go-string representation (if valid UTF-8) and, sometimes, as []uint16.
func addStr(c *h.Ctx, op string, s string, key string, both bool) {
	if utf8.ValidString(s) {
		c.Add(op+" "+svG(s), key)
		if both {
			c.Add(op+" "+svW(utf16.Encode([]rune(s))), key+":w")
		}
	}
}

var c13strOps = []string{"enc uri", "enc comp", "dec uri", "dec comp", "escape", "unescape"}

func allSingleEdits(s string) []string {
	var out []string
	b := []byte(s)
	for i := range b {
		out = append(out, string(append(append([]byte{}, b[:i]...), b[i+1:]...)))
		for _, ch := range []byte("%0aFgu+\x80") {
			x := append([]byte{}, b...)
			x[i] = ch
			out = append(out, string(x))
		}
	}
	for i := 0; i <= len(b); i++ {
		for _, ch := range []byte("%0Fu") {
			out = append(out, string(append(append(append([]byte{}, b[:i]...), ch), b[i:]...)))
		}
		out = append(out, string(b[:i]))
	}
	return out
}

func genStrings(c *h.Ctx) {
	r := c.Rng
	// every ASCII character and every boundary rune alone and in context, all six operations, both representations
	var singles []rune
	for i := 0; i < 128; i++ {
		singles = append(singles, rune(i))
	}
	singles = append(singles, c13runes...)
	for _, ru := range singles {
		for _, op := range c13strOps {
			addStr(c, op, string(ru), "str:single", true)
			addStr(c, op, "a"+string(ru)+"b", "str:single", false)
		}
	}
	// every %XX (both cases of hex letters) alone, and every %XX after a two-byte lead: decode sets + UTF-8 validity
	for b := 0; b < 256; b++ {
		for _, f := range []string{"%%%02X", "%%%02x"} {
			p := fmt.Sprintf(f, b)
			for _, op := range []string{"dec uri", "dec comp", "unescape"} {
				addStr(c, op, p, "str:pct-all", false)
				addStr(c, op, "%C3"+p, "str:pct-all", false)
				addStr(c, op, "%E0"+p+"%80", "str:pct-all", false)
				addStr(c, op, "%ED"+p+"%80", "str:pct-all", false)
				addStr(c, op, "%F0"+p+"%80%80", "str:pct-all", false)
				addStr(c, op, "%F4"+p+"%80%80", "str:pct-all", false)
				addStr(c, op, p+"%80", "str:pct-all", false)
				addStr(c, op, p+"%80%80%80", "str:pct-all", false)
			}
		}
	}
	// lone / swapped surrogates (only representable as []uint16)
	sur := []uint16{0xd800, 0xdbff, 0xdc00, 0xdfff}
	for _, a := range sur {
		for _, op := range c13strOps {
			c.Add(op+" "+svW([]uint16{a}), "str:surrogates")
			c.Add(op+" "+svW([]uint16{'a', a, 'b'}), "str:surrogates")
			for _, b := range sur {
				c.Add(op+" "+svW([]uint16{a, b}), "str:surrogates")
				c.Add(op+" "+svW([]uint16{a, b, a}), "str:surrogates")
				c.Add(op+" "+svW([]uint16{a, 'x', b}), "str:surrogates")
			}
		}
	}
	// %uXXXX at the code-unit boundaries
	for _, u := range []int{0, 0x41, 0x7f, 0x80, 0xff, 0x100, 0xfff, 0x1000, 0xd7ff, 0xd800, 0xdbff, 0xdc00, 0xdfff, 0xe000, 0xfffd, 0xffff} {
		for _, f := range []string{"%%u%04X", "%%u%04x", "%%U%04X", "%%u%03X", "%%u%04Xz", "%%%%u%04X", "%%u%04X%%uDC00"} {
			addStr(c, "unescape", fmt.Sprintf(f, u), "str:pctu", true)
		}
	}
	// random strings: encode / escape directly; decode / unescape of independently encoded text and its mutations
	for i := 0; i < c.N(6000, 250000); i++ {
		s := randString(r, 10)
		both := r.Chance(30)
		for _, op := range []string{"enc uri", "enc comp", "escape"} {
			addStr(c, op, s, "str:random-encode", both)
		}
		e := pctEncode(r, s, []int{0, 30, 100}[r.Intn(3)])
		addStr(c, "dec uri", e, "str:valid-pct", both)
		addStr(c, "dec comp", e, "str:valid-pct", both)
		addStr(c, "unescape", e, "str:valid-pct", false)
		u := escEncode(r, s, []int{0, 30, 100}[r.Intn(3)])
		addStr(c, "unescape", u, "str:valid-esc", both)
		addStr(c, "dec comp", u, "str:valid-esc", false)
		for k := 0; k < 3; k++ {
			m := mutate(r, e)
			if r.Chance(30) {
				m = mutate(r, m)
			}
			addStr(c, "dec uri", m, "str:mutated-pct", false)
			addStr(c, "dec comp", m, "str:mutated-pct", false)
			addStr(c, "unescape", mutate(r, u), "str:mutated-esc", false)
		}
		// raw random text through the decoders as well
		if r.Chance(30) {
			for _, op := range []string{"dec uri", "dec comp", "unescape"} {
				addStr(c, op, s, "str:random-decode", both)
			}
		}
	}
	// all single-edit mutations of a few valid percent-encoded strings
	bases := []string{"%41", "%3B", "%3b%2F", "%C3%A9", "%E2%82%AC", "%F0%9F%98%80", "a%20b", "%25", "+%2B", "%u00E9", "%uD83D%uDE00", "%ED%9F%BF", "%EE%80%80", "%F4%8F%BF%BF", "%C2%80"}
	if c.Thorough() {
		for i := 0; i < 300; i++ {
			bases = append(bases, pctEncode(r, randString(r, 4), 50))
		}
	}
	for _, b := range bases {
		for _, m := range allSingleEdits(b) {
			addStr(c, "dec uri", m, "str:single-edit", false)
			addStr(c, "dec comp", m, "str:single-edit", false)
			addStr(c, "unescape", m, "str:single-edit", false)
		}
	}
	// concatenation by the interpreter, then the encoders: halves of pairs, unpaired surrogates, both representations
	halves := [][]uint16{{}, {'a'}, {0xd800}, {0xdbff}, {0xdc00}, {0xdfff}, {'a', 0xd800}, {0xdc00, 'b'}, {0xd83d, 0xde00}, {0xe9}, {0x20ac, 0xd83d}, {0xde00, '%'}}
	for _, a := range halves {
		for _, b := range halves {
			for _, k := range []string{"uri", "comp"} {
				c.Add("encc "+k+" "+svW(a)+" "+svW(b), "str:concat")
				if sa, sb := string(utf16.Decode(a)), string(utf16.Decode(b)); true {
					if !hasLone16(a) {
						c.Add("encc "+k+" "+svG(sa)+" "+svW(b), "str:concat")
					}
					if !hasLone16(b) {
						c.Add("encc "+k+" "+svW(a)+" "+svG(sb), "str:concat")
					}
					if !hasLone16(a) && !hasLone16(b) {
						c.Add("encc "+k+" "+svG(sa)+" "+svG(sb), "str:concat")
					}
				}
			}
		}
	}
	for i := 0; i < c.N(1500, 60000); i++ {
		a := utf16.Encode([]rune(randString(r, 4)))
		b := utf16.Encode([]rune(randString(r, 4)))
		if r.Chance(50) && len(a) > 0 {
			a[len(a)-1] = sur[r.Intn(4)]
		}
		if r.Chance(50) && len(b) > 0 {
			b[0] = sur[r.Intn(4)]
		}
		c.Add("encc "+[]string{"uri", "comp"}[r.Intn(2)]+" "+svW(a)+" "+svW(b), "str:concat-random")
	}
	// ill-formed UTF-16 in random positions
	for i := 0; i < c.N(1500, 60000); i++ {
		us := utf16.Encode([]rune(randString(r, 6)))
		if len(us) == 0 {
			us = []uint16{'a'}
		}
		us[r.Intn(len(us))] = sur[r.Intn(4)]
		c.Add(c13strOps[r.Intn(len(c13strOps))]+" "+svW(us), "str:ill-formed-utf16")
	}
}

// genText: the text form and Go kind of Math results.  The Lean side prints the digits of its own result,
// so only requests whose result is exactly determined are generated: the exact functions (abs floor ceil round
// trunc sqrt max min) on any argument, pow with base ±2 and an integral exponent, and the library functions
// on arguments of the special-value tables.
func genText(c *h.Ctx) {
	var big []float64
	for _, k := range []int{0, 1, 10, 31, 32, 52, 53, 54, 55, 56, 59, 60, 62, 63, 64, 65, 69, 70, 75, 100, 1023} {
		p := math.Ldexp(1, k)
		big = append(big, p, p+1, p-1, p*1.5, p+0.5, p-0.5, math.Nextafter(p, math.Inf(1)), math.Nextafter(p, 0), p*1.25+2048)
	}
	big = append(big, 0, 0.4, 0.5, 0.6, 1e15+0.5, 1e16, 1e17, 1e19, 1e20, 1e21, 1e22, 123456789012345680000, 9007199254740993, 72057594037927936, 9223372036854775807,
		9223372036854774784, 9223372036854775808, 18446744073709551616, 1.5e300, 5e-324, 1e-7, 1e-6, 123.456, math.Inf(1), math.NaN())
	exact := []string{"abs", "floor", "ceil", "round", "trunc", "sqrt"}
	add := func(line, key string) { c.Add(line, key) }
	for _, f := range big {
		for _, g := range []float64{f, -f} {
			t := "f:" + h.F64Hex(g)
			for _, fn := range exact {
				add("txt "+fn+" "+t, "txt:"+fn)
			}
			add("txt sqrt f:"+h.F64Hex(g*g), "txt:sqrt")
			add("txt max "+t+" f:3ff0000000000000", "txt:max")
			add("txt min "+t+" f:3ff0000000000000", "txt:min")
			add("txt max "+t, "txt:max")
		}
	}
	for i := 0; i < c.N(4000, 150000); i++ {
		g := math.Ldexp(float64(int64(c.Rng.U64()>>11)), c.Rng.Intn(40)-20) // integral and half-integral values around 2^33 … 2^73
		if c.Rng.Bool() {
			g = -g
		}
		if c.Rng.Chance(20) {
			g += 0.5
		}
		fn := append(exact, "max", "min")[c.Rng.Intn(8)]
		add("txt "+fn+" f:"+h.F64Hex(g), "txt:random")
	}
	for k := -5; k <= 70; k++ {
		for _, b := range []float64{2, -2} {
			add("txt pow f:"+h.F64Hex(b)+" f:"+h.F64Hex(float64(k)), "txt:pow")
		}
	}
	sp := []string{"f:" + h.NaNHex, "f:0000000000000000", "f:8000000000000000", "f:7ff0000000000000", "f:fff0000000000000", "u", "n"}
	for _, fn := range []string{"sin", "cos", "tan", "asin", "acos", "atan", "exp", "log"} {
		for _, t := range sp {
			add("txt "+fn+" "+t, "txt:special")
		}
	}
	add("txt acos f:3ff0000000000000", "txt:special")
	add("txt log f:3ff0000000000000", "txt:special")
	for _, a := range sp {
		for _, b := range sp {
			add("txt atan2 "+a+" "+b, "txt:special")
			add("txt pow "+a+" "+b, "txt:special")
		}
	}
}

func genC13(c *h.Ctx) {
	genMath(c)
	genText(c)
	genStrings(c)
}
