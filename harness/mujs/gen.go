// Package mujs generates terminating µJS programs (the statement language of the C01 Lean model)
// and renders their s-expressions to JavaScript.
package mujs

import (
	"fmt"
	"strings"

	"ottoverif/h"
)

// A node of the generated µJS program; it renders both to the Lean driver's s-expression and to JavaScript.
type node struct {
	sx string
	js string
}

type gen struct {
	r        *h.Rng
	nLabel   int
	nCounter int
	counters []string
	budget   int
	// context
	labels     []string // enclosing labelled statements (break targets)
	loopLabels []string // labels in the label set of an enclosing loop (continue targets)
	inLoop     int
	inSwitch   int
	pending    []string // labels directly attached to the statement being generated (label set)
}

var pool = []string{"a", "b", "c"}

func (g *gen) intE(d int) node {
	if d <= 0 || g.r.Chance(35) {
		switch g.r.Intn(3) {
		case 0:
			n := g.r.Intn(13) - 3
			return node{fmt.Sprintf("n%d", n), fmt.Sprintf("(%d)", n)}
		default:
			x := pool[g.r.Intn(len(pool))]
			return node{"var(" + x + ")", x}
		}
	}
	switch g.r.Intn(5) {
	case 0:
		x := pool[g.r.Intn(len(pool))]
		e := g.intE(d - 1)
		return node{"asg(" + x + "," + e.sx + ")", "(" + x + " = " + e.js + ")"}
	case 1:
		a, b := g.intE(d-1), g.intE(d-1)
		return node{"add(" + a.sx + "," + b.sx + ")", "(" + a.js + " + " + b.js + ")"}
	case 2:
		a, b := g.intE(d-1), g.intE(d-1)
		return node{"sub(" + a.sx + "," + b.sx + ")", "(" + a.js + " - " + b.js + ")"}
	default:
		e := g.intE(d - 1)
		return node{"log(" + e.sx + ")", "log(" + e.js + ")"}
	}
}

// hdr: a header expression (loop test, switch discriminant, if condition, with operand), sometimes
// passed through the script function __blk
func (g *gen) hdr(n node) node {
	if g.r.Chance(25) {
		return node{"cid(" + n.sx + ")", "__blk(" + n.js + ")"}
	}
	return n
}

func (g *gen) boolE(d int) node {
	switch g.r.Intn(6) {
	case 0:
		if g.r.Bool() {
			return node{"t", "true"}
		}
		return node{"f", "false"}
	case 1:
		if d > 0 {
			e := g.boolE(d - 1)
			return node{"not(" + e.sx + ")", "(!" + e.js + ")"}
		}
		fallthrough
	case 2:
		a, b := g.intE(d), g.intE(d)
		return node{"seq(" + a.sx + "," + b.sx + ")", "(" + a.js + " === " + b.js + ")"}
	default:
		a, b := g.intE(d), g.intE(d)
		return node{"lt(" + a.sx + "," + b.sx + ")", "(" + a.js + " < " + b.js + ")"}
	}
}

// objE: an object literal whose properties are a random subset of the pool names (so that a
// `with` over it shadows some of the program's variables and not others)
func (g *gen) objE() node {
	var sx, js []string
	for _, x := range pool {
		if g.r.Chance(55) {
			n := g.r.Intn(90) + 10
			sx = append(sx, fmt.Sprintf("%s(n%d)", x, n))
			js = append(js, fmt.Sprintf("%s: (%d)", x, n))
		}
	}
	return node{"obj(" + strings.Join(sx, ",") + ")", "({" + strings.Join(js, ", ") + "})"}
}

// withOperand: mostly objects; sometimes the variable o (undefined until assigned: TypeError),
// a number (ToObject wrapper: shadows nothing) or undefined
func (g *gen) withOperand() node {
	switch k := g.r.Intn(20); {
	case k < 11:
		return g.objE()
	case k < 16:
		return node{"var(o)", "o"}
	case k < 17:
		o := g.objE()
		return node{"asg(o," + o.sx + ")", "(o = " + o.js + ")"}
	case k < 19:
		return g.intE(1)
	default:
		return node{"u", "(void 0)"}
	}
}

func (g *gen) newCounter() string {
	g.nCounter++
	k := fmt.Sprintf("k%d", g.nCounter)
	g.counters = append(g.counters, k)
	return k
}

func sxLabel(l string) string {
	if l == "" {
		return "_"
	}
	return l
}

func joinSX(ns []node) string {
	p := make([]string, len(ns))
	for i, n := range ns {
		p[i] = n.sx
	}
	return strings.Join(p, ",")
}
func joinJS(ns []node, sep string) string {
	p := make([]string, len(ns))
	for i, n := range ns {
		p[i] = n.js
	}
	return strings.Join(p, sep)
}

func block(ns []node) node {
	return node{"B(" + joinSX(ns) + ")", "{ " + joinJS(ns, " ") + " }"}
}

// stmts generates a statement list of up to n statements.
func (g *gen) stmts(n, d int) []node {
	var out []node
	k := 1 + g.r.Intn(n)
	for i := 0; i < k && g.budget > 0; i++ {
		out = append(out, g.stmt(d)...)
	}
	return out
}

// one statement as a single node (wrapping a multi-statement expansion into a block)
func (g *gen) single(d int) node {
	saved := g.pending
	ns := g.stmt(d)
	g.pending = saved
	if len(ns) == 1 {
		return ns[0]
	}
	return block(ns)
}

// stmt returns one or two statements (a loop comes with its counter reset in front).
func (g *gen) stmt(d int) []node {
	g.budget--
	pending := g.pending
	g.pending = nil
	if d <= 0 || g.budget <= 0 {
		return []node{g.simple()}
	}
	switch g.r.Intn(19) {
	case 18: // a loop left for an outer label after an earlier pass produced a value
		return g.escape(d)
	case 16, 17: // with: the label set of a labelled `with` does not reach a loop in its body
		o := g.withOperand()
		var body node
		if g.r.Chance(70) {
			body = block(g.stmts(3, d-1))
		} else {
			body = g.single(d - 1)
		}
		return []node{{"Wi(" + o.sx + "," + body.sx + ")", "with (" + o.js + ") " + body.js}}
	case 0, 1, 2:
		return []node{g.simple()}
	case 3: // block
		saveL := g.pending
		ns := g.stmts(3, d-1)
		g.pending = saveL
		if g.r.Chance(10) {
			ns = nil
		}
		return []node{block(ns)}
	case 4: // if
		c := g.hdr(g.boolE(1))
		t := g.single(d - 1)
		if g.r.Bool() {
			if !strings.HasPrefix(t.sx, "B(") {
				t = block([]node{t}) // no dangling else
			}
			e := g.single(d - 1)
			return []node{{"I(" + c.sx + "," + t.sx + "," + e.sx + ")", "if " + c.js + " " + t.js + " else " + e.js}}
		}
		return []node{{"I(" + c.sx + "," + t.sx + ",E)", "if " + c.js + " " + t.js}}
	case 5, 6, 7: // loops
		return g.loop(d, pending)
	case 8, 9: // labelled
		g.nLabel++
		l := fmt.Sprintf("l%d", g.nLabel)
		g.labels = append(g.labels, l)
		g.pending = append(append([]string{}, pending...), l)
		var inner []node
		if g.r.Chance(40) {
			ps := g.pending
			g.pending = nil
			inner = g.loop(d-1, ps) // a labelled loop, so that `continue l` has a target
		} else {
			inner = g.stmt(d - 1)
		}
		g.labels = g.labels[:len(g.labels)-1]
		g.pending = nil
		// the label attaches to the LAST statement of the expansion (the loop itself)
		last := inner[len(inner)-1]
		inner[len(inner)-1] = node{"L(" + l + "," + last.sx + ")", l + ": " + last.js}
		return inner
	case 10, 11: // try
		b := g.stmts(3, d-1)
		hasCatch := g.r.Chance(70)
		hasFin := !hasCatch || g.r.Chance(50)
		var c, f []node
		sx := "Y(" + block(b).sx + ","
		js := "try " + block(b).js
		if hasCatch {
			c = g.stmts(2, d-1)
			if g.r.Chance(30) {
				c = append(c, node{"X(log(typeof(e)))", "log(typeof e);"})
			}
			if g.r.Chance(15) {
				c = append(c, node{"T(var(e))", "throw e;"})
			}
			sx += "1,e," + block(c).sx + ","
			js += " catch (e) " + block(c).js
		} else {
			sx += "0,e,B(),"
		}
		if hasFin {
			f = g.stmts(2, d-1)
			sx += "1," + block(f).sx + ")"
			js += " finally " + block(f).js
		} else {
			sx += "0,B())"
		}
		return []node{{sx, js}}
	case 12: // switch
		return []node{g.switchS(d, pending)}
	case 13: // throw
		e := g.intE(1)
		return []node{{"T(" + e.sx + ")", "throw " + e.js + ";"}}
	default:
		return []node{g.jump()}
	}
}

func (g *gen) simple() node {
	switch g.r.Intn(10) {
	case 0:
		if g.r.Chance(40) {
			o := g.objE()
			return node{"X(asg(o," + o.sx + "))", "o = " + o.js + ";"}
		}
		return node{"E", ";"}
	case 1:
		if g.r.Chance(8) {
			return node{"X(var(zz))", "zz;"} // unresolvable reference
		}
		fallthrough
	case 2:
		return g.jump()
	default:
		e := g.intE(2)
		return node{"X(" + e.sx + ")", e.js + ";"}
	}
}

func (g *gen) jump() node {
	// break
	if g.r.Bool() {
		var cands []string
		cands = append(cands, g.labels...)
		if g.inLoop > 0 || g.inSwitch > 0 {
			cands = append(cands, "", "")
		}
		if len(cands) > 0 {
			l := cands[g.r.Intn(len(cands))]
			if l == "" {
				return node{"K(_)", "break;"}
			}
			return node{"K(" + l + ")", "break " + l + ";"}
		}
	}
	var cands []string
	cands = append(cands, g.loopLabels...)
	cands = append(cands, g.loopLabels...) // labelled continues as often as plain ones
	if g.inLoop > 0 {
		cands = append(cands, "", "")
	}
	if len(cands) > 0 {
		l := cands[g.r.Intn(len(cands))]
		if l == "" {
			return node{"C(_)", "continue;"}
		}
		return node{"C(" + l + ")", "continue " + l + ";"}
	}
	e := g.intE(1)
	return node{"X(log(" + e.sx + "))", "log(" + e.js + ");"}
}

func (g *gen) loop(d int, pending []string) []node {
	k := g.newCounter()
	n := 1 + g.r.Intn(3)
	reset := node{"X(asg(" + k + ",n0))", k + " = 0;"}
	incr := "asg(" + k + ",add(var(" + k + "),n1))"
	incrJS := "(" + k + " = (" + k + " + (1)))"
	limit := fmt.Sprintf("n%d", n)
	limitJS := fmt.Sprintf("(%d)", n)
	saveLoop, saveLL, saveSw := g.inLoop, g.loopLabels, g.inSwitch
	g.inLoop++
	g.loopLabels = append(append([]string{}, g.loopLabels...), pending...)
	var body node
	if g.r.Chance(75) {
		body = block(g.stmts(3, d-1))
	} else {
		body = g.single(d - 1)
	}
	g.inLoop, g.loopLabels, g.inSwitch = saveLoop, saveLL, saveSw
	wtest := g.hdr(node{"lt(" + incr + "," + limit + ")", "(" + incrJS + " < " + limitJS + ")"})
	switch g.r.Intn(3) {
	case 0:
		return []node{reset, {"W(" + wtest.sx + "," + body.sx + ")", "while (" + wtest.js + ") " + body.js}}
	case 1:
		return []node{reset, {"D(" + body.sx + "," + wtest.sx + ")", "do " + body.js + " while (" + wtest.js + ");"}}
	default:
		ftest := g.hdr(node{"lt(var(" + k + ")," + limit + ")", "(" + k + " < " + limitJS + ")"})
		fupd := g.hdr(node{incr, incrJS})
		finit := g.hdr(node{"asg(" + k + ",n0)", "(" + k + " = (0))"})
		init, test, upd := finit.sx, ftest.sx, fupd.sx
		initJS, testJS, updJS := finit.js, ftest.js, fupd.js
		if g.r.Chance(15) {
			init, initJS = "_", ""
		}
		return []node{reset, {"F(" + init + "," + test + "," + upd + "," + body.sx + ")", "for (" + initJS + "; " + testJS + "; " + updJS + ") " + body.js}}
	}
}

// escape: a break or continue that leaves a loop for a label further out in the SECOND pass over the body, before that
// pass has produced a value, while the first pass did: the completion carries no value of the loop (12.6.x "return
// stmt"). Shapes: l: { loop }, l: if (..) loop, l: with (o) loop (the label set of the if / with does not reach the
// loop), m: loop { loop … continue m }.
func (g *gen) escape(d int) []node {
	g.nLabel++
	l := fmt.Sprintf("l%d", g.nLabel)
	k := g.newCounter()
	reset := node{"X(asg(" + k + ",n0))", k + " = 0;"}
	incr := "asg(" + k + ",add(var(" + k + "),n1))"
	incrJS := "(" + k + " = (" + k + " + (1)))"
	test := node{"lt(" + incr + ",n3)", "(" + incrJS + " < (3))"}
	mk := func(jump node) node {
		v := g.intE(1)
		body := []node{{"I(seq(var(" + k + "),n2)," + jump.sx + ",E)", "if (" + k + " === (2)) " + jump.js},
			{"X(" + v.sx + ")", v.js + ";"}}
		if g.r.Chance(30) {
			body = append(body, block([]node{g.simple()}))
		}
		b := block(body)
		switch g.r.Intn(3) {
		case 0:
			return node{"W(" + test.sx + "," + b.sx + ")", "while (" + test.js + ") " + b.js}
		case 1:
			return node{"D(" + b.sx + "," + test.sx + ")", "do " + b.js + " while (" + test.js + ");"}
		}
		return node{"F(_," + test.sx + ",_," + b.sx + ")", "for (; " + test.js + "; ) " + b.js}
	}
	brk := node{"K(" + l + ")", "break " + l + ";"}
	switch g.r.Intn(4) {
	case 0:
		pre := g.simple()
		if strings.HasPrefix(pre.sx, "K(") || strings.HasPrefix(pre.sx, "C(") {
			pre = node{"E", ";"}
		}
		in := block([]node{pre, reset, mk(brk)})
		return []node{{"L(" + l + "," + in.sx + ")", l + ": " + in.js}}
	case 1:
		lp := mk(brk)
		return []node{reset, {"L(" + l + ",I(t," + lp.sx + ",E))", l + ": if (true) " + lp.js}}
	case 2:
		lp := mk(brk)
		return []node{reset, {"L(" + l + ",Wi(obj()," + lp.sx + "))", l + ": with ({}) " + lp.js}}
	default:
		j := g.newCounter()
		otest := node{"lt(asg(" + j + ",add(var(" + j + "),n1)),n2)", "((" + j + " = (" + j + " + (1))) < (2))"}
		lp := mk(node{"C(" + l + ")", "continue " + l + ";"})
		ob := block([]node{reset, lp})
		return []node{{"X(asg(" + j + ",n0))", j + " = 0;"}, {"L(" + l + ",W(" + otest.sx + "," + ob.sx + "))", l + ": while (" + otest.js + ") " + ob.js}}
	}
}

func (g *gen) switchS(d int, pending []string) node {
	disc := g.hdr(g.intE(1))
	nc := 1 + g.r.Intn(4)
	def := -1
	if g.r.Chance(70) {
		def = g.r.Intn(nc)
	}
	g.inSwitch++
	sx := "S(" + disc.sx
	js := "switch " + "(" + disc.js + ") {"
	for i := 0; i < nc; i++ {
		var body []node
		if g.r.Chance(80) {
			body = g.stmts(2, d-1)
		}
		if g.r.Chance(40) {
			body = append(body, node{"K(_)", "break;"})
		}
		if i == def {
			sx += ",c(_"
			js += " default: "
		} else {
			var t node
			if g.r.Chance(70) {
				n := g.r.Intn(6) - 1
				t = node{fmt.Sprintf("n%d", n), fmt.Sprintf("(%d)", n)}
			} else {
				t = g.intE(1)
			}
			sx += ",c(" + t.sx
			js += " case " + t.js + ": "
		}
		for _, b := range body {
			sx += "," + b.sx
		}
		sx += ")"
		js += joinJS(body, " ")
	}
	g.inSwitch--
	return node{sx + ")", js + " }"}
}

// program returns (vars, sexpr, js)
func GenProgram(r *h.Rng, size int) (string, string, string) {
	g := &gen{r: r, budget: size}
	body := g.stmts(5, 3+r.Intn(3))
	if r.Chance(12) {
		// the program ends with such a loop: its completion value is the program's
		body = append(body, g.escape(2)...)
	} else if r.Chance(70) {
		e := g.intE(2)
		body = append(body, node{"X(" + e.sx + ")", e.js + ";"})
	}
	vars := append(append(append([]string{}, pool...), g.counters...), "o")
	var inits []string
	var initsJS []string
	for _, v := range pool {
		inits = append(inits, "asg("+v+",n0)")
		initsJS = append(initsJS, v+" = (0)")
	}
	decl := "var " + strings.Join(initsJS, ", ")
	for _, k := range g.counters {
		decl += ", " + k
	}
	decl += ", o"
	head := node{"V(" + strings.Join(inits, ",") + ")", decl + ";"}
	all := append([]node{head}, body...)
	return strings.Join(vars, ","), "P(" + joinSX(all) + ")", joinJS(all, " ")
}
