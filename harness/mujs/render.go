package mujs

import (
	"fmt"
	"strconv"
	"strings"

	"github.com/robertkrimen/otto"
)

// ---------------------------------------------------------------- s-expression -> JavaScript

type sx struct {
	name string
	args []*sx
}

func parseSX(s string, i int) (*sx, int) {
	j := i
	for j < len(s) && s[j] != '(' && s[j] != ')' && s[j] != ',' {
		j++
	}
	n := &sx{name: s[i:j]}
	if j < len(s) && s[j] == '(' {
		j++
		if s[j] == ')' {
			return n, j + 1
		}
		for {
			var a *sx
			a, j = parseSX(s, j)
			n.args = append(n.args, a)
			if s[j] == ',' {
				j++
				continue
			}
			if s[j] == ')' {
				return n, j + 1
			}
			panic("bad sexpr at " + strconv.Itoa(j))
		}
	}
	return n, j
}

func jsExpr(e *sx) string {
	switch e.name {
	case "asg":
		return "(" + e.args[0].name + " = " + jsExpr(e.args[1]) + ")"
	case "add":
		return "(" + jsExpr(e.args[0]) + " + " + jsExpr(e.args[1]) + ")"
	case "sub":
		return "(" + jsExpr(e.args[0]) + " - " + jsExpr(e.args[1]) + ")"
	case "lt":
		return "(" + jsExpr(e.args[0]) + " < " + jsExpr(e.args[1]) + ")"
	case "seq":
		return "(" + jsExpr(e.args[0]) + " === " + jsExpr(e.args[1]) + ")"
	case "not":
		return "(!" + jsExpr(e.args[0]) + ")"
	case "log":
		return "log(" + jsExpr(e.args[0]) + ")"
	case "typeof":
		return "(typeof " + e.args[0].name + ")"
	case "var":
		return e.args[0].name
	case "cid":
		return "__blk(" + jsExpr(e.args[0]) + ")"
	case "obj":
		var p []string
		for _, f := range e.args {
			p = append(p, f.name+": "+jsExpr(f.args[0]))
		}
		return "({" + strings.Join(p, ", ") + "})"
	case "u":
		return "(void 0)"
	case "t":
		return "true"
	case "f":
		return "false"
	}
	if strings.HasPrefix(e.name, "n") {
		return "(" + e.name[1:] + ")"
	}
	if strings.HasPrefix(e.name, "s") {
		return strconv.Quote(e.name[1:])
	}
	panic("bad expr " + e.name)
}

func jsOExpr(e *sx) string {
	if e.name == "_" {
		return ""
	}
	return jsExpr(e)
}

func jsBlock(ss []*sx) string {
	var b strings.Builder
	b.WriteString("{ ")
	for _, s := range ss {
		b.WriteString(jsStmt(s))
		b.WriteString(" ")
	}
	b.WriteString("}")
	return b.String()
}

func lab(s string) string {
	if s == "_" {
		return ""
	}
	return " " + s
}

func jsStmt(s *sx) string {
	switch s.name {
	case "E":
		return ";"
	case "X":
		return jsExpr(s.args[0]) + ";"
	case "V":
		var p []string
		for _, a := range s.args {
			p = append(p, a.args[0].name+" = "+jsExpr(a.args[1]))
		}
		return "var " + strings.Join(p, ", ") + ";"
	case "B":
		return jsBlock(s.args)
	case "I":
		if s.args[2].name == "E" {
			return "if (" + jsExpr(s.args[0]) + ") " + jsStmt(s.args[1])
		}
		return "if (" + jsExpr(s.args[0]) + ") " + jsStmt(s.args[1]) + " else " + jsStmt(s.args[2])
	case "W":
		return "while (" + jsExpr(s.args[0]) + ") " + jsStmt(s.args[1])
	case "D":
		return "do " + jsStmt(s.args[0]) + " while (" + jsExpr(s.args[1]) + ");"
	case "F":
		return "for (" + jsOExpr(s.args[0]) + "; " + jsOExpr(s.args[1]) + "; " + jsOExpr(s.args[2]) + ") " + jsStmt(s.args[3])
	case "L":
		return s.args[0].name + ": " + jsStmt(s.args[1])
	case "K":
		return "break" + lab(s.args[0].name) + ";"
	case "C":
		return "continue" + lab(s.args[0].name) + ";"
	case "R":
		return "return " + jsOExpr(s.args[0]) + ";"
	case "T":
		return "throw " + jsExpr(s.args[0]) + ";"
	case "Y":
		out := "try " + jsBlock(s.args[0].args)
		if s.args[1].name == "1" {
			out += " catch (" + s.args[2].name + ") " + jsBlock(s.args[3].args)
		}
		if s.args[4].name == "1" {
			out += " finally " + jsBlock(s.args[5].args)
		}
		return out
	case "Wi":
		return "with (" + jsExpr(s.args[0]) + ") " + jsStmt(s.args[1])
	case "S":
		out := "switch (" + jsExpr(s.args[0]) + ") {"
		for _, c := range s.args[1:] {
			if c.args[0].name == "_" {
				out += " default:"
			} else {
				out += " case " + jsExpr(c.args[0]) + ":"
			}
			for _, b := range c.args[1:] {
				out += " " + jsStmt(b)
			}
		}
		return out + " }"
	}
	panic("bad stmt " + s.name)
}

// RenderJS turns a program s-expression P(...) and the hoisted var list into JavaScript.
func RenderJS(vars, prog string) string {
	p, _ := parseSX(prog, 0)
	var b strings.Builder
	if vars != "-" && vars != "" {
		b.WriteString("var " + vars + ";\n")
	}
	if strings.Contains(prog, "cid(") {
		// a script function that returns its argument and runs labelled statements of its own on the way
		b.WriteString("function __blk(x) { __l0: { __l1: while (true) { break __l0; } } for (var __i = 0; __i < 2; __i++) { { continue; } } switch (1) { case 1: break; } return x; }\n")
	}
	for _, s := range p.args {
		b.WriteString(jsStmt(s))
		b.WriteString("\n")
	}
	return b.String()
}

// Tok renders a value of the µJS universe canonically.
func Tok(v otto.Value) string {
	switch {
	case v.IsUndefined():
		return "u"
	case v.IsNull():
		return "null"
	case v.IsBoolean():
		b, _ := v.ToBoolean()
		if b {
			return "t"
		}
		return "f"
	case v.IsNumber():
		f, _ := v.ToFloat()
		if f == float64(int64(f)) {
			return fmt.Sprintf("n%d", int64(f))
		}
		return fmt.Sprintf("nonint:%v", f)
	case v.IsString():
		s, _ := v.ToString()
		return "s" + s
	case v.IsObject():
		if v.Class() == "Error" {
			n, _ := v.Object().Get("name")
			return "err:" + n.String()
		}
		return "obj:" + v.Class()
	}
	return "?"
}
