package mujs

import (
	"strconv"
	"strings"
)

// µJS-with-functions: each constructor returns a node carrying both renderings
// (the Lean driver's s-expression and JavaScript text).
type N struct{ SX, JS string }

func joinN(ns []N, f func(N) string, sep string) string {
	p := make([]string, len(ns))
	for i, n := range ns {
		p[i] = f(n)
	}
	return strings.Join(p, sep)
}
func nSX(n N) string { return n.SX }
func nJS(n N) string { return n.JS }

func Num(n int) N    { return N{"n" + strconv.Itoa(n), "(" + strconv.Itoa(n) + ")"} }
func Str(s string) N { return N{"s" + s, strconv.Quote(s)} }
func Bool(b bool) N {
	if b {
		return N{"t", "true"}
	}
	return N{"f", "false"}
}
func Undef() N            { return N{"u", "(void 0)"} }
func Null() N             { return N{"null", "null"} }
func Var(x string) N      { return N{"v(" + x + ")", x} }
func This() N             { return N{"this", "this"} }
func Asg(x string, e N) N { return N{"as(" + x + "," + e.SX + ")", "(" + x + " = " + e.JS + ")"} }
func Get(o N, p string) N { return N{"g(" + o.SX + "," + p + ")", o.JS + "." + p} }
func GetE(o, k N) N       { return N{"ge(" + o.SX + "," + k.SX + ")", o.JS + "[" + k.JS + "]"} }
func Set(o N, p string, e N) N {
	return N{"st(" + o.SX + "," + p + "," + e.SX + ")", "(" + o.JS + "." + p + " = " + e.JS + ")"}
}
func SetE(o, k, e N) N {
	return N{"ste(" + o.SX + "," + k.SX + "," + e.SX + ")", "(" + o.JS + "[" + k.JS + "] = " + e.JS + ")"}
}
func Del(o N, p string) N { return N{"dl(" + o.SX + "," + p + ")", "(delete " + o.JS + "." + p + ")"} }
func DelV(x string) N     { return N{"dlv(" + x + ")", "(delete " + x + ")"} }

// DelX is delete (e) for an e that is not a reference (a conditional, a comma expression).
func DelX(e N) N { return N{"dlx(" + e.SX + ")", "(delete (" + e.JS + "))"} }

// WProto is String.prototype / Number.prototype / Boolean.prototype / Object.prototype (k = the constructor's name).
func WProto(k string) N { return N{"wp(" + k + ")", k + ".prototype"} }

// AccJS is the accessor descriptor of DefAcc: the getter logs "G<tag>:<receiver>" and returns "v<tag>", the setter
// logs "S<tag>:<receiver>:<value>"; the receiver is its class and, for a wrapper, the primitive inside.
func AccJS(tag string) string {
	recv := `var c = Object.prototype.toString.call(this).slice(8, -1); var r = c + ((c == "String" || c == "Number" || c == "Boolean") ? ":" + this : "");`
	return `{get: function(){ ` + recv + ` log("G` + tag + `:" + r); return "v` + tag + `"; }, set: function(v){ ` + recv +
		` log("S` + tag + `:" + r + ":" + (typeof v == "number" ? (v != v ? "nan" : "n" + v) : typeof v == "string" ? "s" + v : typeof v)); }, enumerable: false, configurable: true}`
}

// DefAcc defines (or redefines) o.p as an accessor property with the logging getter/setter pair `tag`; value: o.
func DefAcc(o N, p, tag string) N {
	return N{"dac(" + o.SX + "," + p + "," + tag + ")", "Object.defineProperty(" + o.JS + ", " + strconv.Quote(p) + ", " + AccJS(tag) + ")"}
}

// OpSet is o.p += e; Incr is o.p++.
func OpSet(o N, p string, e N) N {
	return N{"ops(" + o.SX + "," + p + "," + e.SX + ")", "(" + o.JS + "." + p + " += " + e.JS + ")"}
}
func Incr(o N, p string) N { return N{"inc(" + o.SX + "," + p + ")", "(" + o.JS + "." + p + "++)"} }

// AccFn is the getter (or setter) function that an object initialiser {get p() {…}} / {set p(v) {…}} creates where it
// is evaluated, fetched with Object.getOwnPropertyDescriptor.
func AccFn(isSet bool, f Fn) N {
	k, kw, ps := "g", "get", ""
	if isSet {
		k, kw, ps = "s", "set", strings.Join(f.Params, ", ")
	}
	g := Fn{Params: f.Params, Vars: f.Vars, Decls: f.Decls, Body: f.Body}
	if !isSet {
		g.Params = nil
	}
	return N{"acf(" + k + "," + g.Expr().SX + ")", "Object.getOwnPropertyDescriptor({" + kw + " p(" + ps + ") { " + bodyJS(g.Vars, g.Decls, g.Body, 0) + " }}, \"p\")." + kw}
}

// HostFn is the harness's host function __hostThis (it returns what it received as This).
func HostFn() N { return N{"hfn", "__hostThis"} }

// FnCtor is Function("<body>") for a function without name and parameters.
func FnCtor(f Fn) N {
	return N{"fnc(" + Fn{Vars: f.Vars, Decls: f.Decls, Body: f.Body}.Expr().SX + ")", "Function(" + strconv.Quote(bodyJS(f.Vars, f.Decls, f.Body, 0)) + ")"}
}

// ProtoOf is Object.getPrototypeOf(e); Regex is the literal /x/.
func ProtoOf(e N) N { return N{"pro(" + e.SX + ")", "Object.getPrototypeOf(" + e.JS + ")"} }
func Regex() N      { return N{"rgx", "/x/"} }

// Cond is (t ? a : b).
func Cond(t, a, b N) N {
	return N{"cnd(" + t.SX + "," + a.SX + "," + b.SX + ")", "(" + t.JS + " ? " + a.JS + " : " + b.JS + ")"}
}
func DelE(o, k N) N {
	return N{"dle(" + o.SX + "," + k.SX + ")", "(delete " + o.JS + "[" + k.JS + "])"}
}
func Call(f N, args ...N) N {
	return N{"c(" + f.SX + ",A(" + joinN(args, nSX, ",") + "))", "(0, " + f.JS + ")(" + joinN(args, nJS, ", ") + ")"}
}

// CallV calls a plain identifier (no base object either way, but rendered as f(...))
func CallV(f string, args ...N) N {
	return N{"c(v(" + f + "),A(" + joinN(args, nSX, ",") + "))", f + "(" + joinN(args, nJS, ", ") + ")"}
}
func MCall(o N, p string, args ...N) N {
	return N{"mc(" + o.SX + "," + p + ",A(" + joinN(args, nSX, ",") + "))", o.JS + "." + p + "(" + joinN(args, nJS, ", ") + ")"}
}
func New(f N, args ...N) N {
	return N{"nw(" + f.SX + ",A(" + joinN(args, nSX, ",") + "))", "(new (" + f.JS + ")(" + joinN(args, nJS, ", ") + "))"}
}
func Add(a, b N) N { return N{"add(" + a.SX + "," + b.SX + ")", "(" + a.JS + " + " + b.JS + ")"} }
func Sub(a, b N) N { return N{"sub(" + a.SX + "," + b.SX + ")", "(" + a.JS + " - " + b.JS + ")"} }
func Lt(a, b N) N  { return N{"lt(" + a.SX + "," + b.SX + ")", "(" + a.JS + " < " + b.JS + ")"} }
func Seq(a, b N) N { return N{"seq(" + a.SX + "," + b.SX + ")", "(" + a.JS + " === " + b.JS + ")"} }
func Not(a N) N    { return N{"not(" + a.SX + ")", "(!" + a.JS + ")"} }
func Typeof(a N) N { return N{"ty(" + a.SX + ")", "(typeof " + a.JS + ")"} }
func Inst(a, f N) N {
	return N{"in(" + a.SX + "," + f.SX + ")", "(" + a.JS + " instanceof " + f.JS + ")"}
}
func Log(a N) N { return N{"log(" + a.SX + ")", "log(" + a.JS + ")"} }

// DefNE defines (or redefines) o.p as a writable, configurable, NON-enumerable data property; value: o.
func DefNE(o N, p string, e N) N {
	return N{"dne(" + o.SX + "," + p + "," + e.SX + ")", "Object.defineProperty(" + o.JS + ", " + strconv.Quote(p) + ", {value: " + e.JS + ", enumerable: false, writable: true, configurable: true})"}
}

// DefRO defines (or redefines) o.p as a READ-ONLY, enumerable, configurable data property; value: o.
func DefRO(o N, p string, e N) N {
	return N{"dro(" + o.SX + "," + p + "," + e.SX + ")", "Object.defineProperty(" + o.JS + ", " + strconv.Quote(p) + ", {value: " + e.JS + ", enumerable: true, writable: false, configurable: true})"}
}

// DefFix defines (or redefines) o.p as a read-only, non-enumerable, NON-CONFIGURABLE data property; value: o.
func DefFix(o N, p string, e N) N {
	return N{"dfx(" + o.SX + "," + p + "," + e.SX + ")", "Object.defineProperty(" + o.JS + ", " + strconv.Quote(p) + ", {value: " + e.JS + ", enumerable: false, writable: false, configurable: false})"}
}

// Val is (0, e): the value of e, never a reference - a call through it has no base object.
func Val(a N) N { return N{"val(" + a.SX + ")", "(0, " + a.JS + ")"} }

type Prop struct {
	K string
	V N
}

func Obj(props ...Prop) N {
	var s, j []string
	for _, p := range props {
		s = append(s, "p("+p.K+","+p.V.SX+")")
		j = append(j, p.K+": "+p.V.JS)
	}
	return N{"ob(" + strings.Join(s, ",") + ")", "({" + strings.Join(j, ", ") + "})"}
}

type Decl struct {
	Name string
	F    Fn
}

// Fn is a function literal; Vars and Decls are its hoisted declarations.  HoistStyle chooses where the
// JavaScript text puts them: 0 = at the top, 1 = at the very end of the body (after all statements,
// even after a return), 2 = var names at the end, function declarations in the middle.
type Fn struct {
	Name       string
	Params     []string
	Vars       []string
	Decls      []Decl
	Body       []N
	HoistStyle int
}

func names(xs []string) string { return strings.Join(xs, ",") }

func bodySX(vars []string, decls []Decl, body []N) string {
	var ds []string
	for _, d := range decls {
		ds = append(ds, "d("+d.Name+","+d.F.Expr().SX+")")
	}
	return "V(" + names(vars) + "),D(" + strings.Join(ds, ",") + "),S(" + joinN(body, nSX, ",") + ")"
}

func bodyJS(vars []string, decls []Decl, body []N, style int) string {
	var ds []string
	for _, d := range decls {
		f := d.F
		ds = append(ds, "function "+d.Name+"("+strings.Join(f.Params, ", ")+") { "+bodyJS(f.Vars, f.Decls, f.Body, f.HoistStyle)+" }")
	}
	vs := ""
	if len(vars) > 0 {
		vs = "var " + strings.Join(vars, ", ") + ";"
	}
	stmts := joinN(body, nJS, " ")
	switch style {
	case 1:
		return stmts + " " + strings.Join(ds, " ") + " " + vs
	case 2:
		h := len(body) / 2
		return joinN(body[:h], nJS, " ") + " " + strings.Join(ds, " ") + " " + joinN(body[h:], nJS, " ") + " " + vs
	default:
		return vs + " " + strings.Join(ds, " ") + " " + stmts
	}
}

// Expr renders the function as an expression.
func (f Fn) Expr() N {
	nm := f.Name
	if nm == "" {
		nm = "_"
	}
	s := "fn(" + nm + ",PS(" + names(f.Params) + ")," + bodySX(f.Vars, f.Decls, f.Body) + ")"
	j := "(function " + f.Name + "(" + strings.Join(f.Params, ", ") + ") { " + bodyJS(f.Vars, f.Decls, f.Body, f.HoistStyle) + " })"
	return N{s, j}
}

// EvalD / EvalI: direct and indirect eval of a program given in parsed form.
func EvalD(vars []string, decls []Decl, body []N) N {
	return N{"evd(" + bodySX(vars, decls, body) + ")", "eval(" + strconv.Quote(bodyJS(vars, decls, body, 0)) + ")"}
}

// EvalX is a direct eval whose code text is NOT spelled in the source of the enclosing function: the string is put
// together from two-character pieces (what the code says is the same as with EvalD).
func EvalX(vars []string, decls []Decl, body []N) N {
	return N{"evx(" + bodySX(vars, decls, body) + ")", "eval(" + ChunkedString(bodyJS(vars, decls, body, 0)) + ")"}
}

// ChunkedString renders s as "ab" + "cd" + … so that no identifier of s occurs in the program text.
func ChunkedString(s string) string {
	var parts []string
	r := []rune(s)
	for i := 0; i < len(r); i += 2 {
		j := i + 2
		if j > len(r) {
			j = len(r)
		}
		parts = append(parts, strconv.Quote(string(r[i:j])))
	}
	if len(parts) == 0 {
		return `""`
	}
	return "(" + strings.Join(parts, " + ") + ")"
}

func EvalI(vars []string, decls []Decl, body []N) N {
	return N{"evi(" + bodySX(vars, decls, body) + ")", "(0, eval)(" + strconv.Quote(bodyJS(vars, decls, body, 0)) + ")"}
}

// statements
func X(e N) N   { return N{"X(" + e.SX + ")", e.JS + ";"} }
func Ret(e N) N { return N{"R(" + e.SX + ")", "return " + e.JS + ";"} }
func Ret0() N   { return N{"R(_)", "return;"} }
func If(c N, t, e []N) N {
	return N{"I(" + c.SX + ",S(" + joinN(t, nSX, ",") + "),S(" + joinN(e, nSX, ",") + "))", "if (" + c.JS + ") { " + joinN(t, nJS, " ") + " } else { " + joinN(e, nJS, " ") + " }"}
}
func While(c N, b []N) N {
	return N{"W(" + c.SX + ",S(" + joinN(b, nSX, ",") + "))", "while (" + c.JS + ") { " + joinN(b, nJS, " ") + " }"}
}
func Throw(e N) N { return N{"T(" + e.SX + ")", "throw " + e.JS + ";"} }
func Try(b []N, param string, c []N, f []N, hasCatch, hasFin bool) N {
	hc, hf := "0", "0"
	j := "try { " + joinN(b, nJS, " ") + " }"
	if hasCatch {
		hc = "1"
		j += " catch (" + param + ") { " + joinN(c, nJS, " ") + " }"
	}
	if hasFin {
		hf = "1"
		j += " finally { " + joinN(f, nJS, " ") + " }"
	}
	return N{"Y(S(" + joinN(b, nSX, ",") + ")," + hc + "," + param + ",S(" + joinN(c, nSX, ",") + ")," + hf + ",S(" + joinN(f, nSX, ",") + "))", j}
}

// VarS is `var x = e;` - the declaration of x itself must be listed in the Vars of the enclosing function.
func VarS(x string, e N) N { return N{"VS(" + x + "," + e.SX + ")", "var " + x + " = " + e.JS + ";"} }

// Block is { ... }
func Block(b ...N) N { return N{"B(" + joinN(b, nSX, ",") + ")", "{ " + joinN(b, nJS, " ") + " }"} }

// With is with (o) { ... }
func With(o N, b ...N) N {
	return N{"WI(" + o.SX + ",S(" + joinN(b, nSX, ",") + "))", "with (" + o.JS + ") { " + joinN(b, nJS, " ") + " }"}
}

// ForIn is for (x in o) { ... }, or for (var x in o) { ... } when isVar (x must then be in Vars).
func ForIn(isVar bool, x string, o N, b ...N) N {
	iv, kw := "0", ""
	if isVar {
		iv, kw = "1", "var "
	}
	return N{"FI(" + iv + "," + x + "," + o.SX + ",S(" + joinN(b, nSX, ",") + "))", "for (" + kw + x + " in " + o.JS + ") { " + joinN(b, nJS, " ") + " }"}
}

// ForInInit is for (var x = init in o) { ... } (x must be in Vars)
func ForInInit(x string, init, o N, b ...N) N {
	return N{"FII(" + x + "," + init.SX + "," + o.SX + ",S(" + joinN(b, nSX, ",") + "))", "for (var " + x + " = " + init.JS + " in " + o.JS + ") { " + joinN(b, nJS, " ") + " }"}
}

// Clause is one clause of a switch statement; Test == nil: the default clause.
type Clause struct {
	Test *N
	Body []N
}

// Switch is switch (d) { case e: … default: … }
func Switch(d N, cs ...Clause) N {
	sx, js := "SW("+d.SX, "switch ("+d.JS+") { "
	for _, c := range cs {
		if c.Test == nil {
			sx += ",DF(S(" + joinN(c.Body, nSX, ",") + "))"
			js += "default: " + joinN(c.Body, nJS, " ") + " "
		} else {
			sx += ",C(" + c.Test.SX + ",S(" + joinN(c.Body, nSX, ",") + "))"
			js += "case " + c.Test.JS + ": " + joinN(c.Body, nJS, " ") + " "
		}
	}
	return N{sx + ")", js + "}"}
}

// Fcc is String.fromCharCode(k)
func Fcc(k int) N {
	return N{"fcc(" + strconv.Itoa(k) + ")", "String.fromCharCode(" + strconv.Itoa(k) + ")"}
}

// Label is l: s
func Label(l string, s N) N { return N{"LB(" + l + "," + s.SX + ")", l + ": " + s.JS} }

func lbl(l string) string {
	if l == "" {
		return "_"
	}
	return l
}

// Break / Continue with an optional label ("" = none)
func Break(l string) N    { return N{"BR(" + lbl(l) + ")", strings.TrimSpace("break "+l) + ";"} }
func Continue(l string) N { return N{"CN(" + lbl(l) + ")", strings.TrimSpace("continue "+l) + ";"} }

// Program renders a whole program: (s-expression, JavaScript).
func Program(vars []string, decls []Decl, body []N, style int) (string, string) {
	return "FP(" + bodySX(vars, decls, body) + ")", bodyJS(vars, decls, body, style)
}
