package mujs

import (
	"strconv"
	"strings"
)

// RenderFnJS turns a function-layer program s-expression FP(V(..),D(..),S(..)) into JavaScript.
// Where hoisted declarations are placed in each body (top / end / middle) is derived from the
// length of the body's s-expression, so the same request always renders the same text.

func fnNames(n *sx) []string {
	var out []string
	for _, a := range n.args {
		out = append(out, a.name)
	}
	return out
}

func sxLen(n *sx) int {
	l := len(n.name)
	for _, a := range n.args {
		l += 1 + sxLen(a)
	}
	return l
}

func fnBodyJS(v, d, s *sx) string {
	style := (sxLen(s) + sxLen(d)) % 3
	var ds []string
	for _, dd := range d.args {
		f := dd.args[1]
		ds = append(ds, "function "+dd.args[0].name+"("+strings.Join(fnNames(f.args[1]), ", ")+") { "+fnBodyJS(f.args[2], f.args[3], f.args[4])+" }")
	}
	vs := ""
	if len(v.args) > 0 {
		vs = "var " + strings.Join(fnNames(v), ", ") + ";"
	}
	var st []string
	for _, x := range s.args {
		st = append(st, fnStmtJS(x))
	}
	switch style {
	case 1:
		return strings.Join(st, " ") + " " + strings.Join(ds, " ") + " " + vs
	case 2:
		h := len(st) / 2
		return strings.Join(st[:h], " ") + " " + strings.Join(ds, " ") + " " + strings.Join(st[h:], " ") + " " + vs
	default:
		return vs + " " + strings.Join(ds, " ") + " " + strings.Join(st, " ")
	}
}

func fnArgsJS(a *sx) string {
	var out []string
	for _, x := range a.args {
		out = append(out, fnExprJS(x))
	}
	return strings.Join(out, ", ")
}

func fnExprJS(e *sx) string {
	a := e.args
	switch e.name {
	case "this":
		return "this"
	case "v":
		return a[0].name
	case "as":
		return "(" + a[0].name + " = " + fnExprJS(a[1]) + ")"
	case "g":
		return fnExprJS(a[0]) + "." + a[1].name
	case "ge":
		return fnExprJS(a[0]) + "[" + fnExprJS(a[1]) + "]"
	case "st":
		return "(" + fnExprJS(a[0]) + "." + a[1].name + " = " + fnExprJS(a[2]) + ")"
	case "ste":
		return "(" + fnExprJS(a[0]) + "[" + fnExprJS(a[1]) + "] = " + fnExprJS(a[2]) + ")"
	case "dl":
		return "(delete " + fnExprJS(a[0]) + "." + a[1].name + ")"
	case "dlv":
		return "(delete " + a[0].name + ")"
	case "dlx":
		return "(delete (" + fnExprJS(a[0]) + "))"
	case "wp":
		return a[0].name + ".prototype"
	case "dac":
		return "Object.defineProperty(" + fnExprJS(a[0]) + ", " + strconv.Quote(a[1].name) + ", " + AccJS(a[2].name) + ")"
	case "ops":
		return "(" + fnExprJS(a[0]) + "." + a[1].name + " += " + fnExprJS(a[2]) + ")"
	case "inc":
		return "(" + fnExprJS(a[0]) + "." + a[1].name + "++)"
	case "acf":
		f := a[1].args
		kw, ps := "get", ""
		if a[0].name == "s" {
			kw = "set"
			var names []string
			for _, x := range f[1].args {
				names = append(names, x.name)
			}
			ps = strings.Join(names, ", ")
		}
		return "Object.getOwnPropertyDescriptor({" + kw + " p(" + ps + ") { " + fnBodyJS(f[2], f[3], f[4]) + " }}, \"p\")." + kw
	case "fnc":
		f := a[0].args
		return "Function(" + strconv.Quote(fnBodyJS(f[2], f[3], f[4])) + ")"
	case "pro":
		return "Object.getPrototypeOf(" + fnExprJS(a[0]) + ")"
	case "fcc":
		return "String.fromCharCode(" + a[0].name + ")"
	case "hfn":
		return "__hostThis"
	case "rgx":
		return "/x/"
	case "cnd":
		return "(" + fnExprJS(a[0]) + " ? " + fnExprJS(a[1]) + " : " + fnExprJS(a[2]) + ")"
	case "dle":
		return "(delete " + fnExprJS(a[0]) + "[" + fnExprJS(a[1]) + "])"
	case "c":
		if a[0].name == "v" {
			return a[0].args[0].name + "(" + fnArgsJS(a[1]) + ")"
		}
		if a[0].name == "cnd" {
			// a conditional is called as it stands: its result must be a value already (11.12)
			return fnExprJS(a[0]) + "(" + fnArgsJS(a[1]) + ")"
		}
		return "(0, " + fnExprJS(a[0]) + ")(" + fnArgsJS(a[1]) + ")"
	case "mc":
		return fnExprJS(a[0]) + "." + a[1].name + "(" + fnArgsJS(a[2]) + ")"
	case "nw":
		return "(new (" + fnExprJS(a[0]) + ")(" + fnArgsJS(a[1]) + "))"
	case "fn":
		nm := a[0].name
		if nm == "_" {
			nm = ""
		}
		return "(function " + nm + "(" + strings.Join(fnNames(a[1]), ", ") + ") { " + fnBodyJS(a[2], a[3], a[4]) + " })"
	case "ob":
		var ps []string
		for i, p := range a {
			k := strconv.Quote(p.args[0].name)
			if _, err := strconv.Atoi(p.args[0].name); err == nil && i%2 == 1 {
				k = p.args[0].name // a numeric key is spelt 1 as well as "1"
			}
			ps = append(ps, k+": "+fnExprJS(p.args[1]))
		}
		return "({" + strings.Join(ps, ", ") + "})"
	case "add":
		return "(" + fnExprJS(a[0]) + " + " + fnExprJS(a[1]) + ")"
	case "sub":
		return "(" + fnExprJS(a[0]) + " - " + fnExprJS(a[1]) + ")"
	case "lt":
		return "(" + fnExprJS(a[0]) + " < " + fnExprJS(a[1]) + ")"
	case "seq":
		return "(" + fnExprJS(a[0]) + " === " + fnExprJS(a[1]) + ")"
	case "not":
		return "(!" + fnExprJS(a[0]) + ")"
	case "ty":
		return "(typeof " + fnExprJS(a[0]) + ")"
	case "in":
		return "(" + fnExprJS(a[0]) + " instanceof " + fnExprJS(a[1]) + ")"
	case "log":
		return "log(" + fnExprJS(a[0]) + ")"
	case "dne":
		return "Object.defineProperty(" + fnExprJS(a[0]) + ", " + strconv.Quote(a[1].name) + ", {value: " + fnExprJS(a[2]) + ", enumerable: false, writable: true, configurable: true})"
	case "dfx":
		return "Object.defineProperty(" + fnExprJS(a[0]) + ", " + strconv.Quote(a[1].name) + ", {value: " + fnExprJS(a[2]) + ", enumerable: false, writable: false, configurable: false})"
	case "dro":
		return "Object.defineProperty(" + fnExprJS(a[0]) + ", " + strconv.Quote(a[1].name) + ", {value: " + fnExprJS(a[2]) + ", enumerable: true, writable: false, configurable: true})"
	case "val":
		return "(0, " + fnExprJS(a[0]) + ")"
	case "evd":
		return "eval(" + strconv.Quote(fnBodyJS(a[0], a[1], a[2])) + ")"
	case "evx":
		return "eval(" + ChunkedString(fnBodyJS(a[0], a[1], a[2])) + ")"
	case "evi":
		// a host function that re-enters the VM: hostCall("f") = Otto.Call("f", nil), which runs f() as global code
		if len(a[0].args) == 0 && len(a[1].args) == 0 && len(a[2].args) == 1 && a[2].args[0].name == "X" &&
			a[2].args[0].args[0].name == "c" && a[2].args[0].args[0].args[0].name == "v" && len(a[2].args[0].args[0].args[1].args) == 0 {
			return "hostCall(" + strconv.Quote(a[2].args[0].args[0].args[0].args[0].name) + ")"
		}
		// four spellings of an indirect call of eval, chosen by the shape of the term: only a call through the
		// identifier `eval` is direct (15.1.2.1.1), not a member call and not the value of a conditional
		switch sxLen(e) % 4 {
		case 1:
			return "eval.call(null, " + strconv.Quote(fnBodyJS(a[0], a[1], a[2])) + ")"
		case 2:
			return "({eval: eval}).eval(" + strconv.Quote(fnBodyJS(a[0], a[1], a[2])) + ")"
		case 3:
			return "(1 ? eval : 0)(" + strconv.Quote(fnBodyJS(a[0], a[1], a[2])) + ")"
		}
		return "(0, eval)(" + strconv.Quote(fnBodyJS(a[0], a[1], a[2])) + ")"
	case "u":
		return "(void 0)"
	case "null":
		return "null"
	case "t":
		return "true"
	case "f":
		return "false"
	}
	if strings.HasPrefix(e.name, "n") {
		return "(" + e.name[1:] + ")"
	}
	if strings.HasPrefix(e.name, "s") {
		return strconv.Quote(e.name[1:])
	}
	panic("bad fn expr " + e.name)
}

func fnBlockJS(s *sx) string {
	var st []string
	for _, x := range s.args {
		st = append(st, fnStmtJS(x))
	}
	return "{ " + strings.Join(st, " ") + " }"
}

// fnStmtsJS renders a statement list without braces (the consequent of a switch clause).
func fnStmtsJS(s *sx) string {
	var st []string
	for _, x := range s.args {
		st = append(st, fnStmtJS(x))
	}
	return strings.Join(st, " ")
}

func fnStmtJS(s *sx) string {
	a := s.args
	switch s.name {
	case "X":
		return fnExprJS(a[0]) + ";"
	case "R":
		if a[0].name == "_" && len(a[0].args) == 0 {
			return "return;"
		}
		return "return " + fnExprJS(a[0]) + ";"
	case "I":
		if len(a[2].args) == 0 {
			return "if (" + fnExprJS(a[0]) + ") " + fnBlockJS(a[1])
		}
		return "if (" + fnExprJS(a[0]) + ") " + fnBlockJS(a[1]) + " else " + fnBlockJS(a[2])
	case "W":
		return "while (" + fnExprJS(a[0]) + ") " + fnBlockJS(a[1])
	case "T":
		return "throw " + fnExprJS(a[0]) + ";"
	case "Y":
		out := "try " + fnBlockJS(a[0])
		if a[1].name == "1" {
			out += " catch (" + a[2].name + ") " + fnBlockJS(a[3])
		}
		if a[4].name == "1" {
			out += " finally " + fnBlockJS(a[5])
		}
		return out
	case "VS":
		return "var " + a[0].name + " = " + fnExprJS(a[1]) + ";"
	case "B":
		return fnBlockJS(s)
	case "WI":
		return "with (" + fnExprJS(a[0]) + ") " + fnBlockJS(a[1])
	case "FI":
		kw := ""
		if a[0].name == "1" {
			kw = "var "
		}
		return "for (" + kw + a[1].name + " in " + fnExprJS(a[2]) + ") " + fnBlockJS(a[3])
	case "FII":
		return "for (var " + a[0].name + " = " + fnExprJS(a[1]) + " in " + fnExprJS(a[2]) + ") " + fnBlockJS(a[3])
	case "LB":
		return a[0].name + ": " + fnStmtJS(a[1])
	case "SW":
		out := "switch (" + fnExprJS(a[0]) + ") { "
		for _, c := range a[1:] {
			if c.name == "DF" {
				out += "default: " + fnStmtsJS(c.args[0]) + " "
			} else {
				out += "case " + fnExprJS(c.args[0]) + ": " + fnStmtsJS(c.args[1]) + " "
			}
		}
		return out + "}"
	case "BR":
		if a[0].name == "_" {
			return "break;"
		}
		return "break " + a[0].name + ";"
	case "CN":
		if a[0].name == "_" {
			return "continue;"
		}
		return "continue " + a[0].name + ";"
	}
	panic("bad fn stmt " + s.name)
}

func RenderFnJS(prog string) string {
	p, _ := parseSX(prog, 0)
	return fnBodyJS(p.args[0], p.args[1], p.args[2])
}
