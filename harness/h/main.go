package h

import (
	"bufio"
	"encoding/json"
	"flag"
	"fmt"
	"os"
	"path/filepath"
	"strings"
)

// Main is the entry point of every per-property harness binary (harness/cmd/cNN).
//
//	ottoh-CNN --tier quick|thorough --seed N --out DIR [--findings FILE] [--replays DIR]
//	ottoh-CNN --replay FILE
func Main(id string) {
	fs := flag.NewFlagSet("ottoh", flag.ExitOnError)
	tier := fs.String("tier", "quick", "")
	seed := fs.Uint64("seed", 1, "")
	out := fs.String("out", ".", "")
	findings := fs.String("findings", "/verif/known_findings.jsonl", "")
	replays := fs.String("replays", "/verif/replays", "")
	replay := fs.String("replay", "", "")
	fs.Parse(os.Args[1:])

	p := Lookup(id)
	if p == nil {
		fmt.Fprintln(os.Stderr, "unknown property", id)
		os.Exit(2)
	}
	known := LoadFindings(*findings, id)

	var lines []string
	ctx := &Ctx{Tier: *tier, Seed: *seed, Rng: NewRng(*seed), Dist: map[string]int{}}
	if *replay != "" {
		f, err := os.Open(*replay)
		if err != nil {
			fmt.Fprintln(os.Stderr, err)
			os.Exit(2)
		}
		sc := bufio.NewScanner(f)
		sc.Buffer(make([]byte, 1<<22), 1<<22)
		for sc.Scan() {
			if strings.HasPrefix(sc.Text(), "request: ") {
				lines = append(lines, strings.TrimPrefix(sc.Text(), "request: "))
			}
		}
		f.Close()
	} else {
		InitCtx(ctx)
		// corpus of past minimised disagreements first
		if b, err := os.ReadFile(filepath.Join("/verif/corpus", id+".txt")); err == nil {
			for _, l := range strings.Split(string(b), "\n") {
				l = strings.TrimSpace(l)
				if l != "" && !strings.HasPrefix(l, "#") {
					ctx.Add(l, "corpus")
				}
			}
		}
		p.Gen(ctx)
		lines = ctx.Lines
	}

	impl := RunImpl(p, lines)
	rep, err := RunModel(id, lines)
	res := &Result{Property: id}
	if err != nil {
		res.Error = err.Error()
	} else {
		res = Classify(id, lines, impl, rep, known, *replays, *seed)
	}
	res.Tier, res.Seed, res.Dist = *tier, *seed, ctx.Dist
	seen := map[string]bool{}
	for i, l := range lines {
		if p.Trivial == nil || !p.Trivial(l) {
			if !seen[l] {
				seen[l] = true
				res.Nontrivial++
			}
		}
		if err == nil && len(res.Samples) < 8 && i%(len(lines)/8+1) == 0 {
			res.Samples = append(res.Samples, fmt.Sprintf("%s => impl=%s model=%s spec=%s dev=%s", l, impl[i], rep[i].Model, rep[i].Spec, rep[i].Dev))
		}
	}
	if *replay != "" {
		for i, l := range lines {
			if err == nil {
				fmt.Printf("replay %s => impl=%s model=%s spec=%s dev=%s\n", l, impl[i], rep[i].Model, rep[i].Spec, rep[i].Dev)
			}
		}
	}
	for _, d := range SortedKeys(res.KnownHit) {
		fmt.Printf("KNOWN-FINDING: property=%s %s: %s [%d inputs, e.g. %s]\n", id, d, known[d].What, res.KnownHit[d], res.KnownExample[d])
	}
	for _, v := range res.Violations {
		fmt.Printf("VIOLATION property=%s replay=%s\n", id, v.Replay)
	}
	if res.Error != "" {
		fmt.Fprintln(os.Stderr, "ottoh:", res.Error)
	}
	b, _ := json.MarshalIndent(res, "", " ")
	os.MkdirAll(*out, 0o755)
	os.WriteFile(filepath.Join(*out, "result.json"), b, 0o644)
	if res.Error != "" {
		os.Exit(3)
	}
	if res.ViolationCount > 0 {
		os.Exit(1)
	}
}
