// Package h is the common part of the correspondence harness: PRNG, the
// per-property registry, running the Lean model driver, classification of
// (impl, model, spec, dev) and the result/replay files.
package h

import (
	"bufio"
	"encoding/json"
	"fmt"
	"os"
	"os/exec"
	"path/filepath"
	"runtime"
	"runtime/pprof"
	"sort"
	"strconv"
	"strings"
	"sync"
	"time"
)

// ---------------------------------------------------------------- PRNG

type Rng struct{ s uint64 }

// NewRng seeds a splitmix64 generator.  The seed is hashed first: the raw state advances by a
// constant per draw, so seeds s and s+1 would otherwise give the same stream shifted by one.
func NewRng(seed uint64) *Rng {
	z := seed + 0x9E3779B97F4A7C15
	z = (z ^ (z >> 30)) * 0xBF58476D1CE4E5B9
	z = (z ^ (z >> 27)) * 0x94D049BB133111EB
	z = z ^ (z >> 31)
	z = (z ^ 0xD6E8FEB86659FD93) * 0xFF51AFD7ED558CCD
	return &Rng{s: z ^ (z >> 33)}
}
func (r *Rng) U64() uint64 {
	r.s += 0x9E3779B97F4A7C15
	z := r.s
	z = (z ^ (z >> 30)) * 0xBF58476D1CE4E5B9
	z = (z ^ (z >> 27)) * 0x94D049BB133111EB
	return z ^ (z >> 31)
}
func (r *Rng) Intn(n int) int {
	if n <= 0 {
		return 0
	}
	return int(r.U64() % uint64(n))
}
func (r *Rng) Bool() bool        { return r.U64()&1 == 1 }
func (r *Rng) Chance(p int) bool { return r.Intn(100) < p }
func (r *Rng) Fork() *Rng        { return NewRng(r.U64()) }

// ---------------------------------------------------------------- registry

// A Prop is one property's correspondence stream.
type Prop struct {
	ID string
	// Gen produces request lines (each line is also a request to the Lean driver).
	Gen func(c *Ctx)
	// Impl evaluates one request line on the real code and returns one canonical token
	// string (no newlines).  Panics are recovered by the caller and become "panic:<msg>".
	Impl func(line string) string
	// Trivial reports whether a request is trivial for the distinct_nontrivial count (optional).
	Trivial func(line string) bool
	// Serial forces single-threaded Impl evaluation.
	Serial bool
}

var props = map[string]*Prop{}

func Register(p *Prop)       { props[p.ID] = p }
func Lookup(id string) *Prop { return props[id] }

type Ctx struct {
	Tier  string
	Seed  uint64
	Rng   *Rng
	Lines []string
	Dist  map[string]int
	seen  map[string]bool
}

func (c *Ctx) Thorough() bool { return c.Tier == "thorough" }

// N picks a size by tier.
func (c *Ctx) N(quick, thorough int) int {
	if c.Thorough() {
		return thorough
	}
	return quick
}

// Add appends a request (deduplicated) and counts it under the given distribution keys.
func (c *Ctx) Add(line string, keys ...string) {
	if c.seen[line] {
		c.Dist["duplicate"]++
		return
	}
	c.seen[line] = true
	c.Lines = append(c.Lines, line)
	for _, k := range keys {
		c.Dist[k]++
	}
}

// ---------------------------------------------------------------- model driver

type Reply struct{ Model, Spec, Dev string }

func ModelExe() string {
	if p := os.Getenv("OTTOMODEL"); p != "" {
		return p
	}
	return ""
}

// RunModel pipes the lines through `ottomodel <id>` (in parallel chunks) and parses replies.
func RunModel(id string, lines []string) ([]Reply, error) {
	out := make([]Reply, len(lines))
	workers := runtime.NumCPU()
	if workers > 16 {
		workers = 16
	}
	if len(lines) < 2000 {
		workers = 1
	}
	chunk := (len(lines) + workers - 1) / workers
	var wg sync.WaitGroup
	var mu sync.Mutex
	var firstErr error
	for w := 0; w < workers; w++ {
		lo, hi := w*chunk, (w+1)*chunk
		if lo >= len(lines) {
			break
		}
		if hi > len(lines) {
			hi = len(lines)
		}
		wg.Add(1)
		go func(lo, hi int) {
			defer wg.Done()
			exe := ModelExe()
			if exe == "" {
				exe = "/verif/lean/.lake/build/bin/ottomodel_" + strings.ToLower(id)
			}
			cmd := exec.Command(exe)
			cmd.Stdin = strings.NewReader(strings.Join(lines[lo:hi], "\n") + "\n")
			cmd.Stderr = os.Stderr
			b, err := cmd.Output()
			if err != nil {
				mu.Lock()
				if firstErr == nil {
					firstErr = fmt.Errorf("ottomodel %s: %v", id, err)
				}
				mu.Unlock()
				return
			}
			rs := strings.Split(strings.TrimRight(string(b), "\n"), "\n")
			if len(rs) != hi-lo {
				mu.Lock()
				if firstErr == nil {
					firstErr = fmt.Errorf("ottomodel %s: %d replies for %d requests", id, len(rs), hi-lo)
				}
				mu.Unlock()
				return
			}
			for i, r := range rs {
				f := strings.Fields(r)
				if len(f) != 3 {
					out[lo+i] = Reply{Model: "bad-reply:" + strings.ReplaceAll(r, " ", "_"), Spec: "bad-reply", Dev: "-"}
					continue
				}
				out[lo+i] = Reply{f[0], f[1], f[2]}
			}
		}(lo, hi)
	}
	wg.Wait()
	return out, firstErr
}

// SafeImpl runs p.Impl with recover and a timeout.
func SafeImpl(p *Prop, line string) (res string) {
	done := make(chan string, 1)
	go func() {
		defer func() {
			if r := recover(); r != nil {
				done <- "panic:" + sanitize(fmt.Sprint(r))
			}
		}()
		done <- p.Impl(line)
	}()
	select {
	case s := <-done:
		return s
	case <-time.After(90 * time.Second): // generous: the machine may be heavily loaded
		abandoned.Store(line, true)
		return "timeout"
	}
}

// Sanitize makes a string a single space-free token (truncated).
func Sanitize(s string) string { return sanitize(s) }

func sanitize(s string) string {
	s = strings.Map(func(r rune) rune {
		if r == ' ' || r == '\n' || r == '\t' || r == '\r' {
			return '_'
		}
		return r
	}, s)
	if len(s) > 120 {
		s = s[:120]
	}
	return s
}

func RunImpl(p *Prop, lines []string) []string {
	out := make([]string, len(lines))
	workers := runtime.NumCPU()
	if p.Serial {
		workers = 1
	}
	var wg sync.WaitGroup
	ch := make(chan int, 1024)
	for w := 0; w < workers; w++ {
		wg.Add(1)
		w := w
		go func() {
			defer wg.Done()
			for i := range ch {
				inflight.Store(w, lines[i])
				out[i] = SafeImpl(p, lines[i])
			}
		}()
	}
	stop := make(chan struct{})
	defer close(stop)
	go memWatch(stop)
	for i := range lines {
		ch <- i
	}
	close(ch)
	wg.Wait()
	return out
}

// inflight: the request each worker is executing (for the memory watchdog's report).
var inflight sync.Map

// abandoned: requests whose goroutine was given up on after the time limit (it may still be running)
var abandoned sync.Map

// memWatch aborts the run (exit 3, with the requests in flight named on stderr) when the heap
// passes VERIF_HEAP_LIMIT_GB (default 40): an abandoned built-in loop cannot be stopped from outside,
// and letting the kernel OOM-kill the process loses the culprit.
func memWatch(stop chan struct{}) {
	limit := uint64(40)
	if v, err := strconv.Atoi(os.Getenv("VERIF_HEAP_LIMIT_GB")); err == nil && v > 0 {
		limit = uint64(v)
	}
	t := time.NewTicker(250 * time.Millisecond)
	defer t.Stop()
	for {
		select {
		case <-stop:
			return
		case <-t.C:
			var ms runtime.MemStats
			runtime.ReadMemStats(&ms)
			if ms.HeapAlloc > limit<<30 {
				fmt.Fprintf(os.Stderr, "memory watchdog: heap %d GiB > %d GiB; requests in flight:\n", ms.HeapAlloc>>30, limit)
				inflight.Range(func(k, v any) bool { fmt.Fprintf(os.Stderr, "  %v\n", v); return true })
				fmt.Fprintf(os.Stderr, "requests abandoned after the time limit (possibly still running):\n")
				abandoned.Range(func(k, v any) bool { fmt.Fprintf(os.Stderr, "  %v\n", k); return true })
				if pf := os.Getenv("VERIF_HEAP_PROFILE"); pf != "" {
					if f, err := os.Create(pf); err == nil {
						pprof.WriteHeapProfile(f)
						f.Close()
					}
					if f, err := os.Create(pf + ".goroutines"); err == nil {
						pprof.Lookup("goroutine").WriteTo(f, 1)
						f.Close()
					}
				}
				os.Exit(3)
			}
		}
	}
}

// ---------------------------------------------------------------- known findings

type Finding struct {
	Property string `json:"property"`
	Region   string `json:"region"`
	Witness  string `json:"witness"`
	What     string `json:"what"`
	Status   string `json:"status"`
}

func LoadFindings(path, id string) map[string]Finding {
	m := map[string]Finding{}
	f, err := os.Open(path)
	if err != nil {
		return m
	}
	defer f.Close()
	sc := bufio.NewScanner(f)
	sc.Buffer(make([]byte, 1<<20), 1<<20)
	for sc.Scan() {
		t := strings.TrimSpace(sc.Text())
		if t == "" || strings.HasPrefix(t, "#") || strings.HasPrefix(t, "fixed:") {
			continue
		}
		var fd Finding
		if json.Unmarshal([]byte(t), &fd) == nil && fd.Property == id && fd.Status == "known" {
			m[fd.Region] = fd
		}
	}
	return m
}

// ---------------------------------------------------------------- classification

type Violation struct {
	Line, Impl, Model, Spec, Dev, Why, Replay string
}

type Result struct {
	Property       string            `json:"property"`
	Tier           string            `json:"tier"`
	Seed           uint64            `json:"seed"`
	Evaluations    int               `json:"evaluations"`
	Nontrivial     int               `json:"distinct_nontrivial"`
	Agree          int               `json:"impl_eq_model_eq_spec"`
	ModelStale     int               `json:"model_stale"`
	ModelStaleEx   []string          `json:"model_stale_examples"`
	GapNotes       int               `json:"model_ne_spec_outside_dev_but_impl_eq_spec"`
	ByDev          map[string]int    `json:"by_dev"`
	Dist           map[string]int    `json:"distribution"`
	KnownHit       map[string]int    `json:"known_findings_hit"`
	KnownExample   map[string]string `json:"known_findings_example"`
	Samples        []string          `json:"samples"`
	Violations     []Violation       `json:"violations"`
	ViolationCount int               `json:"violation_count"`
	ViolationsBy   map[string]int    `json:"violations_by_dev_and_op"`
	Error          string            `json:"error,omitempty"`
}

// Classify applies the table of DESIGN.md §0 step 4.
func Classify(id string, lines, impl []string, rep []Reply, known map[string]Finding, replayDir string, seed uint64) *Result {
	r := &Result{Property: id, ByDev: map[string]int{}, KnownHit: map[string]int{}, KnownExample: map[string]string{}, ViolationsBy: map[string]int{}}
	r.Evaluations = len(lines)
	for i, line := range lines {
		I, M, S, D := impl[i], rep[i].Model, rep[i].Spec, rep[i].Dev
		r.ByDev[D]++
		if I == S {
			if I == M {
				r.Agree++
			} else {
				r.ModelStale++
				if len(r.ModelStaleEx) < 5 {
					r.ModelStaleEx = append(r.ModelStaleEx, fmt.Sprintf("%s impl=%s model=%s spec=%s dev=%s", line, I, M, S, D))
				}
				if D == "-" {
					r.GapNotes++
				}
			}
			continue
		}
		// impl differs from the specification
		if D != "-" && I == M {
			allKnown := true
			for _, d := range strings.Split(D, ",") {
				if _, ok := known[d]; !ok {
					allKnown = false
				}
			}
			if allKnown {
				for _, d := range strings.Split(D, ",") {
					r.KnownHit[d]++
					if _, ok := r.KnownExample[d]; !ok {
						r.KnownExample[d] = fmt.Sprintf("%s impl=%s spec=%s", line, I, S)
					}
				}
				continue
			}
		}
		why := "impl differs from spec outside every listed deviation region"
		if D != "-" {
			if I != M {
				why = "impl differs from spec AND from the model inside region " + D + " (a different wrong answer)"
			} else {
				why = "impl differs from spec in region " + D + " which is not a listed known finding"
			}
		}
		r.ViolationCount++
		r.ViolationsBy[D+":"+strings.Fields(line)[0]]++
		if len(r.Violations) < 20 {
			v := Violation{Line: line, Impl: I, Model: M, Spec: S, Dev: D, Why: why}
			v.Replay = WriteReplay(replayDir, id, seed, len(r.Violations), v)
			r.Violations = append(r.Violations, v)
		}
	}
	return r
}

func WriteReplay(dir, id string, seed uint64, n int, v Violation) string {
	os.MkdirAll(filepath.Join(dir, id), 0o755)
	p := filepath.Join(dir, id, fmt.Sprintf("%d-%d.txt", seed, n))
	body := fmt.Sprintf("property: %s\nrequest: %s\nimpl:  %s\nmodel: %s\nspec:  %s\ndev:   %s\nwhy:   %s\nrerun: ./check %s --replay %s\n",
		id, v.Line, v.Impl, v.Model, v.Spec, v.Dev, v.Why, id, p)
	os.WriteFile(p, []byte(body), 0o644)
	return p
}

func SortedKeys(m map[string]int) []string {
	ks := make([]string, 0, len(m))
	for k := range m {
		ks = append(ks, k)
	}
	sort.Strings(ks)
	return ks
}

func InitCtx(c *Ctx) { c.seen = map[string]bool{} }
