package h

import (
	"encoding/hex"
	"fmt"
	"math"
	"strconv"
	"strings"
	"unicode/utf16"

	"github.com/robertkrimen/otto"
)

const NaNHex = "7ff8000000000001"

func F64Hex(f float64) string {
	if math.IsNaN(f) {
		return NaNHex
	}
	return fmt.Sprintf("%016x", math.Float64bits(f))
}

func HexF64(s string) float64 {
	u, err := strconv.ParseUint(s, 16, 64)
	if err != nil {
		panic("bad f64 hex " + s)
	}
	return math.Float64frombits(u)
}

func BytesTok(s string) string { return "s:" + hex.EncodeToString([]byte(s)) }

// UnitsHex renders a Go string as hex UTF-16 code units (4 digits each).
func UnitsHex(s string) string {
	var b strings.Builder
	for _, u := range utf16.Encode([]rune(s)) {
		fmt.Fprintf(&b, "%04x", u)
	}
	return b.String()
}

// ParseVal turns a value token into an otto Value.
func ParseVal(t string) otto.Value {
	switch t {
	case "u":
		return otto.UndefinedValue()
	case "n":
		return otto.NullValue()
	}
	i := strings.IndexByte(t, ':')
	if i < 0 {
		panic("bad value token " + t)
	}
	k, p := t[:i], t[i+1:]
	mk := func(x interface{}) otto.Value {
		v, err := otto.ToValue(x)
		if err != nil {
			panic(err)
		}
		return v
	}
	switch k {
	case "b":
		return mk(p == "1")
	case "f":
		return mk(HexF64(p))
	case "s":
		b, err := hex.DecodeString(p)
		if err != nil {
			panic(err)
		}
		return mk(string(b))
	case "u64", "uint":
		n, err := strconv.ParseUint(p, 10, 64)
		if err != nil {
			panic(err)
		}
		if k == "u64" {
			return mk(n)
		}
		return mk(uint(n))
	}
	n, err := strconv.ParseInt(p, 10, 64)
	if err != nil {
		panic(err)
	}
	switch k {
	case "i8":
		return mk(int8(n))
	case "i16":
		return mk(int16(n))
	case "i32":
		return mk(int32(n))
	case "i64":
		return mk(n)
	case "int":
		return mk(int(n))
	case "u8":
		return mk(uint8(n))
	case "u16":
		return mk(uint16(n))
	case "u32":
		return mk(uint32(n))
	}
	panic("bad value token " + t)
}

// ValTok renders a primitive otto Value canonically (numbers by their float64 value).
func ValTok(v otto.Value) string {
	switch {
	case v.IsUndefined():
		return "u"
	case v.IsNull():
		return "n"
	case v.IsBoolean():
		b, _ := v.ToBoolean()
		if b {
			return "b:1"
		}
		return "b:0"
	case v.IsNumber():
		f, _ := v.ToFloat()
		return "f:" + F64Hex(f)
	case v.IsString():
		s, _ := v.ToString()
		return BytesTok(s)
	}
	return "obj"
}

func BoolTok(b bool) string {
	if b {
		return "true"
	}
	return "false"
}

// ---------------------------------------------------------------- boundary sets

// BoundaryDoubles is the dense set of IEEE-754 doubles used across properties.
func BoundaryDoubles() []float64 {
	var out []float64
	add := func(f float64) {
		out = append(out, f, -f)
	}
	for _, f := range []float64{0, math.Inf(1), math.SmallestNonzeroFloat64, math.MaxFloat64, 0.5, 1.5, 2.5, 0.1, 1e21, 1e-7, 123456789.125, 0.49999999999999994, 4503599627370495.5} {
		add(f)
	}
	out = append(out, math.NaN())
	ks := []int{0, 1, 2, 7, 8, 15, 16, 23, 24, 30, 31, 32, 33, 52, 53, 54, 62, 63, 64, 65, 1023, -1, -1022, -1074}
	for _, k := range ks {
		p := math.Ldexp(1, k)
		for _, f := range []float64{p, math.Nextafter(p, math.Inf(1)), math.Nextafter(p, 0), p + 1, p - 1, p + 0.5, p - 0.5} {
			add(f)
		}
	}
	add(math.Ldexp(1, 63) + 2048)
	add(math.Ldexp(1, 63) + 4096)
	add(math.Ldexp(1, 64) + 8192)
	add(math.Ldexp(1, 53) + 2)
	return out
}

// RandomDouble draws a double from a mixture: boundary, random bits, small ints, random ints.
func RandomDouble(r *Rng, bd []float64) float64 {
	switch r.Intn(5) {
	case 0:
		return bd[r.Intn(len(bd))]
	case 1:
		return math.Float64frombits(r.U64())
	case 2:
		return float64(r.Intn(41) - 20)
	case 3:
		return float64(int64(r.U64())>>uint(r.Intn(64))) + float64(r.Intn(4))*0.25
	default:
		return math.Ldexp(float64(int64(r.U64()>>11)), r.Intn(140)-70)
	}
}
