/-  `ottomodel_c13` — reads C13 requests on stdin, one reply line per request.  Core-only imports. -/
import OttoVerif.Base.Proto
import OttoVerif.C13.Driver
open OttoVerif

def main (_args : List String) : IO UInt32 := do
  Proto.loop (← IO.getStdin) (← IO.getStdout) C13.Driver.handle
  return 0
