import OttoVerif.Base.F64
import OttoVerif.Base.Proto
import OttoVerif.Base.Str
import OttoVerif.Base.GoStd
import OttoVerif.C05.Theorems
import OttoVerif.C05.Driver
