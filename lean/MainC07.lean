/-  `ottomodel_c07` — reads C07 requests on stdin, one reply line per request.  Core-only imports. -/
import OttoVerif.Base.Proto
import OttoVerif.C07.Driver
open OttoVerif

def main (_args : List String) : IO UInt32 := do
  Proto.loop (← IO.getStdin) (← IO.getStdout) C07.Driver.handle
  return 0
