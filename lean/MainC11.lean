/-  `ottomodel_c11` — reads C11 requests on stdin, one reply line per request.  Core-only imports. -/
import OttoVerif.Base.Proto
import OttoVerif.C11.Driver
open OttoVerif

def main (_args : List String) : IO UInt32 := do
  Proto.loop (← IO.getStdin) (← IO.getStdout) C11.Driver.handle
  return 0
