/-
  Audit — `#audit_modules M1 M2 …` prints, for every theorem declared in the named modules,
  `AUDIT <name> [<axioms,comma-separated>]`.  The check script compares against
  {propext, Classical.choice, Quot.sound}.
-/
import Lean
open Lean Elab Command

elab "#audit_modules " ms:ident* : command => do
  let env ← getEnv
  let wanted : Array Name := ms.map (·.getId)
  for m in wanted do
    match env.getModuleIdx? m with
    | none => throwError "module {m} not imported"
    | some idx =>
      let names := env.header.moduleData[idx.toNat]!.constNames
      for n in names do
        if n.isInternalDetail then continue
        let last := match n with | .str _ s => s | _ => ""
        let autoMatch : Bool := last.startsWith "match_" && (last.drop 6).all Char.isDigit
        if last.startsWith "eq_" || autoMatch || last.startsWith "proof_" || last.startsWith "_"
           || last == "sizeOf_spec" || last == "injEq" || last == "inj" || last.startsWith "congr_simp" then continue
        match env.find? n with
        | some (.thmInfo _) =>
          let ax ← Lean.collectAxioms n
          let axs := ",".intercalate (ax.toList.map toString)
          logInfo m!"AUDIT {(privateToUserName? n).getD n} [{axs}]"
        | _ => pure ()
