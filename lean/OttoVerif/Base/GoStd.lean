/-
  Base/GoStd — executable stubs of the Go standard-library behaviour otto relies on
  (strconv.ParseFloat / ParseInt / ParseUint syntax and rounding, strings.Trim).
  These are MODELLED, not verified (trusted base §2.6); each is validated per sample by the
  `gostd` stream of the harness.  Strings are Go strings: lists of bytes.
-/
import OttoVerif.Base.F64
import OttoVerif.Base.Str
namespace OttoVerif.GoStd
open OttoVerif.F64 OttoVerif.Str

def lower (c : Nat) : Nat := c ||| 0x20          -- strconv's `lower`
def isDigit (c : Nat) : Bool := 48 ≤ c ∧ c ≤ 57
def isHexLetter (c : Nat) : Bool := 97 ≤ lower c ∧ lower c ≤ 102
def ch (c : Char) : Nat := c.toNat

/-- strings.Trim(s, cutset) over runes; cutset given as a list of runes -/
def trimLeftRunes (cut : List Nat) : Nat → List Nat → List Nat
  | 0, bs => bs
  | fuel+1, bs =>
    match decodeRune bs with
    | none => bs
    | some (r, w) => if cut.contains r then trimLeftRunes cut fuel (bs.drop w) else bs

/-- forward segmentation into (rune, width) -/
def segments : Nat → List Nat → List (Nat × Nat)
  | 0, _ => []
  | fuel+1, bs =>
    match decodeRune bs with
    | none => []
    | some (r, w) => (r, w) :: segments fuel (bs.drop w)

/-- strings.TrimRight over runes.  Uses the forward segmentation; Go decodes backwards
    (utf8.DecodeLastRuneInString) – the two agree on valid UTF-8 and whenever the trailing rune is
    valid, which is all the cutset (valid runes only) can observe. -/
def trimRightRunes (cut : List Nat) (bs : List Nat) : List Nat :=
  let segs := segments bs.length bs
  let kept := (segs.reverse.dropWhile (fun p => cut.contains p.1)).reverse
  bs.take (kept.foldl (fun n p => n + p.2) 0)

def trim (cut : List Nat) (bs : List Nat) : List Nat :=
  trimRightRunes cut (trimLeftRunes cut bs.length bs)

/-- strconv's underscoreOK -/
def underscoreOK (s : List Nat) : Bool :=
  let s := match s with
    | c :: r => if c = ch '-' ∨ c = ch '+' then r else s
    | [] => s
  let (hex, body, saw0) : Bool × List Nat × Nat := match s with
    | a :: b :: r =>
      if a = ch '0' ∧ (lower b = ch 'b' ∨ lower b = ch 'o' ∨ lower b = ch 'x') then (lower b = ch 'x', r, ch '0')
      else (false, s, ch '^')
    | _ => (false, s, ch '^')
  let fin := body.foldl (fun (st : Option Nat) c =>
    match st with
    | none => none
    | some saw =>
      if isDigit c ∨ (hex ∧ isHexLetter c) then some (ch '0')
      else if c = ch '_' then (if saw ≠ ch '0' then none else some (ch '_'))
      else if saw = ch '_' then none
      else some (ch '!')) (some saw0)
  match fin with
  | none => false
  | some saw => saw ≠ ch '_'

inductive PI where | ok (i : Int) | range | syntax
deriving DecidableEq, Repr

def digitVal (c : Nat) : Option Nat :=
  if isDigit c then some (c - 48)
  else if 97 ≤ lower c ∧ lower c ≤ 122 then some (lower c - 97 + 10)
  else none

/-- strconv.ParseUint(s, base, 64) with base ∈ {0, 2..36}; returns the value unbounded plus a
    range flag computed the way Go does (value ≥ 2^64). -/
def parseUint (s0 : List Nat) (base : Nat) : PI :=
  if s0.isEmpty then .syntax else
  let base0 := base = 0
  let (b, s) : Nat × List Nat :=
    if base0 then
      match s0 with
      | 48 :: r =>
        match r with
        | c :: r' =>
          if s0.length ≥ 3 ∧ lower c = ch 'b' then (2, r')
          else if s0.length ≥ 3 ∧ lower c = ch 'o' then (8, r')
          else if s0.length ≥ 3 ∧ lower c = ch 'x' then (16, r')
          else (8, r)
        | [] => (8, r)
      | _ => (10, s0)
    else (base, s0)
  if b < 2 ∨ b > 36 then .syntax else
  -- digits
  let r := s.foldl (fun (st : Option (Nat × Bool)) c =>
    match st with
    | none => none
    | some (n, us) =>
      if c = ch '_' ∧ base0 then some (n, true)
      else match digitVal c with
        | none => none
        | some d => if d ≥ b then none else some (n * b + d, us)) (some (0, false))
  match r with
  | none => .syntax
  | some (n, us) =>
    if us ∧ !underscoreOK s0 then .syntax
    else if n ≥ 2^64 then .range else .ok n

/-- strconv.ParseInt(s, base, 64) -/
def parseInt (s : List Nat) (base : Nat) : PI :=
  if s.isEmpty then .syntax else
  let (neg, body) : Bool × List Nat := match s with
    | c :: r => if c = ch '+' then (false, r) else if c = ch '-' then (true, r) else (false, s)
    | [] => (false, s)
  match parseUint body base with
  | .syntax => .syntax
  | .range => .range
  | .ok un =>
    if !neg ∧ un ≥ 2^63 then .range
    else if neg ∧ un > 2^63 then .range
    else .ok (if neg then -un else un)

def prefixLenIgnoreCase (s : List Nat) (p : List Nat) : Nat :=
  match s, p with
  | c :: s', d :: p' => if (if 65 ≤ c ∧ c ≤ 90 then c + 32 else c) = d then 1 + prefixLenIgnoreCase s' p' else 0
  | _, _ => 0

/-- strconv `special`: (value, consumed) -/
def special (s : List Nat) : Option (FV × Nat) :=
  match s with
  | [] => none
  | c :: r =>
    let inf (sign : Bool) (nsign : Nat) (t : List Nat) : Option (FV × Nat) :=
      let n := prefixLenIgnoreCase t (Str.ofString "infinity")
      let n := if 3 < n ∧ n < 8 then 3 else n
      if n = 3 ∨ n = 8 then some (.inf sign, nsign + n) else none
    if c = ch '+' then inf false 1 r
    else if c = ch '-' then inf true 1 r
    else if c = ch 'i' ∨ c = ch 'I' then inf false 0 s
    else if c = ch 'n' ∨ c = ch 'N' then
      (if prefixLenIgnoreCase s (Str.ofString "nan") = 3 then some (.nan, 3) else none)
    else none

structure RF where
  neg : Bool
  hex : Bool
  mant : Nat          -- all mantissa digits, no truncation
  fracDigits : Nat    -- digits after the point
  exp : Int           -- explicit exponent (decimal: power of 10; hex: power of 2)
  consumed : Nat

/-- strconv `readFloat`, returning the exact value's ingredients -/
def readFloat (s : List Nat) : Option RF :=
  if s.isEmpty then none else
  let (neg, i0) : Bool × Nat := match s with
    | c :: _ => if c = ch '+' then (false, 1) else if c = ch '-' then (true, 1) else (false, 0)
    | [] => (false, 0)
  let t := s.drop i0
  let hex : Bool := match t with
    | a :: b :: _ :: _ => a = 48 ∧ lower b = ch 'x'
    | _ => false
  let i1 := if hex then i0 + 2 else i0
  let base := if hex then 16 else 10
  -- mantissa loop
  let rec mloop (fuel : Nat) (cs : List Nat) (i : Nat) (mant : Nat) (frac : Nat) (sawdot sawdig us : Bool) :
      (List Nat × Nat × Nat × Nat × Bool × Bool) :=
    match fuel, cs with
    | 0, _ => (cs, i, mant, frac, sawdig, us)
    | _, [] => (cs, i, mant, frac, sawdig, us)
    | fuel+1, c :: r =>
      if c = ch '_' then mloop fuel r (i+1) mant frac sawdot sawdig true
      else if c = ch '.' then (if sawdot then (cs, i, mant, frac, sawdig, us) else mloop fuel r (i+1) mant frac true sawdig us)
      else if isDigit c then mloop fuel r (i+1) (mant * base + (c - 48)) (if sawdot then frac + 1 else frac) sawdot true us
      else if hex ∧ isHexLetter c then mloop fuel r (i+1) (mant * base + (lower c - 97 + 10)) (if sawdot then frac + 1 else frac) sawdot true us
      else (cs, i, mant, frac, sawdig, us)
  let (rest, i2, mant, frac, sawdig, us1) := mloop (s.length + 1) (s.drop i1) i1 0 0 false false false
  if !sawdig then none else
  let expChar := if hex then ch 'p' else ch 'e'
  -- exponent
  let expRes : Option (Int × Nat × Bool) :=
    match rest with
    | c :: r =>
      if lower c = expChar then
        match r with
        | [] => none
        | d :: r' =>
          let (esign, r2, i3) : Int × List Nat × Nat :=
            if d = ch '+' then (1, r', i2 + 2) else if d = ch '-' then (-1, r', i2 + 2) else (1, r, i2 + 1)
          match r2 with
          | [] => none
          | d0 :: _ =>
            if !isDigit d0 then none else
            let ds := r2.takeWhile (fun c => isDigit c ∨ c = ch '_')
            let e := ds.foldl (fun (e : Nat) c => if c = ch '_' then e else if e < 10000 then e * 10 + (c - 48) else e) 0
            some (esign * (e : Int), i3 + ds.length, ds.contains (ch '_'))
      else (if hex then none else some (0, i2, false))
    | [] => (if hex then none else some (0, i2, false))
  match expRes with
  | none => none
  | some (e, i4, us2) =>
    if (us1 ∨ us2) ∧ !underscoreOK (s.take i4) then none
    else some { neg := neg, hex := hex, mant := mant, fracDigits := frac, exp := e, consumed := i4 }

/-- exact value of a readFloat result, correctly rounded (Go: Eisel–Lemire with exact fallback /
    atofHex with sticky bit — both are round-to-nearest-even of the exact value) -/
def rfValue (r : RF) : FV :=
  if r.mant = 0 then .fin r.neg 0 0 else
  if r.hex then
    let e2 : Int := r.exp - 4 * (r.fracDigits : Int)
    if e2 ≥ 0 then ofRatParts r.neg (r.mant * 2 ^ e2.toNat) 1 else ofRatParts r.neg r.mant (2 ^ (-e2).toNat)
  else
    let e10 : Int := r.exp - (r.fracDigits : Int)
    if e10 ≥ 0 then ofRatParts r.neg (r.mant * 10 ^ e10.toNat) 1 else ofRatParts r.neg r.mant (10 ^ (-e10).toNat)

/-- strconv.ParseFloat(s, 64): `none` = syntax error; range errors return ±Inf as Go does
    (otto ignores ErrRange). -/
def parseFloat (s : List Nat) : Option FV :=
  match special s with
  | some (v, n) => if n = s.length then some v else none
  | none =>
    match readFloat s with
    | none => none
    | some r => if r.consumed = s.length then some (rfValue r) else none

/-- longest-prefix variant (strconv's internal parseFloatPrefix is not exported; otto's
    parseFloat builtin uses its own regexp – see C06) -/
def parseFloatPrefix (s : List Nat) : Option (FV × Nat) :=
  match special s with
  | some (v, n) => some (v, n)
  | none => (readFloat s).map (fun r => (rfValue r, r.consumed))

end OttoVerif.GoStd
