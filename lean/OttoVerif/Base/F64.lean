/-
  Base/F64 — IEEE-754 binary64 as an exact, executable, integer-only model.

  A double is carried on the wire as its 64-bit pattern; inside models and specs it
  is the decoded view `FV`.  `fin s m e` denotes (-1)^s · m · 2^e with NO canonicity
  requirement, so a theorem stated `∀ x : FV` covers every double (and more).
  Go `float64` arithmetic is *modelled* here (trusted base §2.6), not verified.
-/
namespace OttoVerif.F64

inductive FV where
  | nan
  | inf (neg : Bool)
  | fin (neg : Bool) (m : Nat) (e : Int)
deriving DecidableEq, Repr, Inhabited

def pow2 (n : Nat) : Nat := 2 ^ n

/-- decode a bit pattern -/
def decode (b : UInt64) : FV :=
  let n := b.toNat
  let s := decide (n / 2^63 = 1)
  let ex : Nat := (n / 2^52) % 2^11
  let fr : Nat := n % 2^52
  if ex = 2047 then (if fr = 0 then .inf s else .nan)
  else if ex = 0 then .fin s fr (-1074)
  else .fin s (fr + 2^52) ((ex : Int) - 1075)

/-- round-half-even of a / b (b > 0) -/
def divRNE (a b : Nat) : Nat :=
  let q := a / b
  let r := a % b
  if 2 * r < b then q
  else if 2 * r > b then q + 1
  else if q % 2 = 0 then q else q + 1

/-- Round the positive rational num/den (num > 0, den > 0) to binary64:
    result `(m, e)` with value m·2^e, `m < 2^53`, `e ≥ -1074`, or `none` on overflow. -/
def roundPos (num den : Nat) : Option (Nat × Int) :=
  let l : Int := (Nat.log2 num : Int) - (Nat.log2 den : Int)
  -- candidate exponent so that num/den / 2^e0 ∈ [2^52, 2^53) up to one step
  let e0 : Int := l - 52
  let scaledLt (e : Int) : Bool :=   -- num/den / 2^e < 2^52 ?
    if e ≥ 0 then num < den * 2^(e.toNat) * 2^52 else num * 2^((-e).toNat) < den * 2^52
  let e1 : Int := if scaledLt e0 then e0 - 1 else e0
  let e : Int := if e1 < -1074 then -1074 else e1
  let m : Nat := if e ≥ 0 then divRNE num (den * 2^(e.toNat)) else divRNE (num * 2^((-e).toNat)) den
  let (m, e) := if m = 2^53 then (2^52, e + 1) else (m, e)
  if e > 971 then none else some (m, e)

/-- round (-1)^neg · num/den -/
def ofRatParts (neg : Bool) (num den : Nat) : FV :=
  if num = 0 then .fin neg 0 0
  else match roundPos num den with
    | none => .inf neg
    | some (m, e) => .fin neg m e

/-- canonical representative: for finite values, re-round (exact) so that equal values
    have equal representations; zero is `fin s 0 0`. -/
def canon : FV → FV
  | .nan => .nan
  | .inf s => .inf s
  | .fin s m e => if e ≥ 0 then ofRatParts s (m * 2^(e.toNat)) 1 else ofRatParts s m (2^((-e).toNat))

/-- encode a *canonical-izable* value to bits (rounds if needed). -/
def encode (x : FV) : UInt64 :=
  match canon x with
  | .nan => 0x7FF8000000000001
  | .inf s => if s then 0xFFF0000000000000 else 0x7FF0000000000000
  | .fin s m e =>
    let sb : Nat := if s then 2^63 else 0
    if m = 0 then UInt64.ofNat sb
    else if m < 2^52 then UInt64.ofNat (sb + m)        -- subnormal (e = -1074)
    else UInt64.ofNat (sb + ((e + 1075).toNat) * 2^52 + (m - 2^52))

def isNaN : FV → Bool | .nan => true | _ => false
def isInf : FV → Bool | .inf _ => true | _ => false
def isZero : FV → Bool | .fin _ 0 _ => true | _ => false
def signBit : FV → Bool | .nan => false | .inf s => s | .fin s _ _ => s

def zero : FV := .fin false 0 0
def negZero : FV := .fin true 0 0
def one : FV := .fin false 1 0

/-- |x| truncated toward zero, for finite x -/
def truncAbs (m : Nat) (e : Int) : Nat :=
  if e ≥ 0 then m * 2^(e.toNat) else m / 2^((-e).toNat)

/-- trunc toward zero as an integer (finite only; 0 for nan/inf) -/
def truncInt : FV → Int
  | .fin s m e => if s then -(truncAbs m e : Int) else (truncAbs m e : Int)
  | _ => 0

/-- is the finite value an integer? -/
def isIntegral (m : Nat) (e : Int) : Bool :=
  if e ≥ 0 then true else m % 2^((-e).toNat) = 0

/-- Go `float64(i)` for an integer: exact below 2^53 (kept un-normalised so that exactness is
    definitional), correctly rounded above. -/
def ofInt (i : Int) : FV :=
  if i.natAbs < 2^53 then .fin (decide (i < 0)) i.natAbs 0
  else if i < 0 then ofRatParts true i.natAbs 1 else ofRatParts false i.natAbs 1

def ofNat (n : Nat) : FV := ofRatParts false n 1

def neg : FV → FV
  | .nan => .nan
  | .inf s => .inf (!s)
  | .fin s m e => .fin (!s) m e

def abs : FV → FV
  | .nan => .nan
  | .inf _ => .inf false
  | .fin _ m e => .fin false m e

/-- exact signed integer numerator at common exponent min(e1,e2) -/
def alignInt (s : Bool) (m : Nat) (e emin : Int) : Int :=
  let v : Int := (m * 2^((e - emin).toNat) : Nat)
  if s then -v else v

def ofScaledInt (v : Int) (e : Int) (zeroNeg : Bool) : FV :=
  if v = 0 then .fin zeroNeg 0 0
  else
    let n := v.natAbs
    let s := decide (v < 0)
    if e ≥ 0 then ofRatParts s (n * 2^(e.toNat)) 1 else ofRatParts s n (2^((-e).toNat))

def add : FV → FV → FV
  | .nan, _ => .nan
  | _, .nan => .nan
  | .inf s, .inf t => if s = t then .inf s else .nan
  | .inf s, .fin .. => .inf s
  | .fin .., .inf t => .inf t
  | .fin s1 m1 e1, .fin s2 m2 e2 =>
    let emin := if e1 ≤ e2 then e1 else e2
    let v := alignInt s1 m1 e1 emin + alignInt s2 m2 e2 emin
    -- exact zero sum: -0 only if both operands are negative(-zero) in RNE mode
    ofScaledInt v emin (if m1 = 0 ∧ m2 = 0 then (s1 && s2) else false)

def sub (x y : FV) : FV := add x (neg y)

def mul : FV → FV → FV
  | .nan, _ => .nan
  | _, .nan => .nan
  | .inf s, .inf t => .inf (s != t)
  | .inf s, .fin t m _ => if m = 0 then .nan else .inf (s != t)
  | .fin s m _, .inf t => if m = 0 then .nan else .inf (s != t)
  | .fin s1 m1 e1, .fin s2 m2 e2 =>
    if m1 * m2 = 0 then .fin (s1 != s2) 0 0
    else ofScaledInt (if s1 != s2 then -((m1 * m2 : Nat) : Int) else ((m1 * m2 : Nat) : Int)) (e1 + e2) false

def div : FV → FV → FV
  | .nan, _ => .nan
  | _, .nan => .nan
  | .inf _, .inf _ => .nan
  | .inf s, .fin t _ _ => .inf (s != t)
  | .fin s _ _, .inf t => .fin (s != t) 0 0
  | .fin s1 m1 e1, .fin s2 m2 e2 =>
    if m2 = 0 then (if m1 = 0 then .nan else .inf (s1 != s2))
    else if m1 = 0 then .fin (s1 != s2) 0 0
    else
      let d := e1 - e2
      if d ≥ 0 then ofRatParts (s1 != s2) (m1 * 2^(d.toNat)) m2
      else ofRatParts (s1 != s2) m1 (m2 * 2^((-d).toNat))

/-- C fmod / Go math.Mod: result has sign of dividend, exact. -/
def fmod : FV → FV → FV
  | .nan, _ => .nan
  | _, .nan => .nan
  | .inf _, _ => .nan
  | .fin s m e, .inf _ => .fin s m e
  | .fin s1 m1 e1, .fin _ m2 e2 =>
    if m2 = 0 then .nan
    else if m1 = 0 then .fin s1 0 0
    else
      let emin := if e1 ≤ e2 then e1 else e2
      let a := m1 * 2^((e1 - emin).toNat)
      let b := m2 * 2^((e2 - emin).toNat)
      let r := a % b
      if r = 0 then .fin s1 0 0 else ofScaledInt (if s1 then -(r : Int) else (r : Int)) emin false

/-- compare finite/infinite non-NaN values: returns Ordering of real values (−0 = +0) -/
def cmpReal : FV → FV → Option Ordering
  | .nan, _ => none
  | _, .nan => none
  | .inf s, .inf t => some (if s = t then .eq else if s then .lt else .gt)
  | .inf s, .fin .. => some (if s then .lt else .gt)
  | .fin .., .inf t => some (if t then .gt else .lt)
  | .fin s1 m1 e1, .fin s2 m2 e2 =>
    let emin := if e1 ≤ e2 then e1 else e2
    let a := alignInt s1 m1 e1 emin
    let b := alignInt s2 m2 e2 emin
    some (if a < b then .lt else if a = b then .eq else .gt)

def lt (x y : FV) : Bool := cmpReal x y = some .lt
def le (x y : FV) : Bool := cmpReal x y = some .lt || cmpReal x y = some .eq
def eqNum (x y : FV) : Bool := cmpReal x y = some .eq

def floor : FV → FV
  | .nan => .nan
  | .inf s => .inf s
  | .fin s m e =>
    if isIntegral m e then .fin s m e
    else
      let t := truncAbs m e
      if s then ofScaledInt (-((t + 1 : Nat) : Int)) 0 true else ofScaledInt (t : Int) 0 false

def ceil : FV → FV
  | .nan => .nan
  | .inf s => .inf s
  | .fin s m e =>
    if isIntegral m e then .fin s m e
    else
      let t := truncAbs m e
      if s then ofScaledInt (-(t : Int)) 0 true else ofScaledInt ((t + 1 : Nat) : Int) 0 false

def trunc : FV → FV
  | .nan => .nan
  | .inf s => .inf s
  | .fin s m e => if isIntegral m e then .fin s m e else ofScaledInt (if s then -(truncAbs m e : Int) else (truncAbs m e : Int)) 0 s

/-- bit-level sameness after canonicalisation (all NaNs identified) -/
def same (x y : FV) : Bool := encode x == encode y

end OttoVerif.F64
