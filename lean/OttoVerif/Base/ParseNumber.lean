/-
  Base/ParseNumber — model of otto's string→number conversion `parseNumber` (value_number.go:14).
  Shared with C05 (ToNumber on strings).
-/
import OttoVerif.Base.GoStd
namespace OttoVerif.PN
open OttoVerif.F64 OttoVerif.GoStd

/-- builtinStringTrimWhitespace (builtin_string.go:472), as runes -/
def wsRunes : List Nat :=
  [0x9, 0xA, 0xB, 0xC, 0xD, 0x20, 0xA0, 0x1680, 0x180E, 0x2000, 0x2001, 0x2002, 0x2003, 0x2004, 0x2005,
   0x2006, 0x2007, 0x2008, 0x2009, 0x200A, 0x2028, 0x2029, 0x202F, 0x205F, 0x3000, 0xFEFF]

def pfOrNaN (v : List Nat) : FV := match parseFloat v with | some x => x | none => .nan

def startsWith0x : List Nat → Bool
  | 48 :: c :: _ => c = 120 ∨ c = 88
  | _ => false

/-- parseNumber (value_number.go:14) -/
def parseNumber (s : List Nat) : FV :=
  let v := trim wsRunes s
  if v.isEmpty then zero
  else if v.contains 46 then pfOrNaN v            -- strings.ContainsRune(value, '.')
  else if startsWith0x v then
    match parseInt v 0 with
    | .ok i => ofInt i
    | _ => .nan
  else pfOrNaN v

end OttoVerif.PN
