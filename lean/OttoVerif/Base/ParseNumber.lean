/-
  Base/ParseNumber — model of otto's string→number conversion `parseNumber` (value_number.go:17),
  as repaired by 8696ffc (grammar check) and 2b35617 (hexadecimal strings beyond int64).
  Shared with C05, C08, C09, C13, C15 (ToNumber on strings).  The same definitions live in
  C06/Model.lean, where they are proved against ES5 §9.3.1 (C06.Thm.reDecRest_eq,
  toNumber_complete_body, toNumber_decimal_sound, …); C06.Thm.pn_parseNumber_eq ties the two copies.
-/
import OttoVerif.Base.GoStd
namespace OttoVerif.PN
open OttoVerif.F64 OttoVerif.GoStd

/-- builtinStringTrimWhitespace (builtin_string.go:472), as runes -/
def wsRunes : List Nat :=
  [0x9, 0xA, 0xB, 0xC, 0xD, 0x20, 0xA0, 0x1680, 0x180E, 0x2000, 0x2001, 0x2002, 0x2003, 0x2004, 0x2005,
   0x2006, 0x2007, 0x2008, 0x2009, 0x200A, 0x2028, 0x2029, 0x202F, 0x205F, 0x3000, 0xFEFF]

def pfOrNaN (v : List Nat) : FV := match parseFloat v with | some x => x | none => .nan

def startsWith0x : List Nat → Bool
  | 48 :: c :: _ => c = 120 ∨ c = 88
  | _ => false

/-! the regular expression `stringToNumberValid` (value_number.go:15)
    `^(?:[\+\-]?(?:Infinity|(?:[0-9]+\.?[0-9]*|\.[0-9]+)(?:[eE][\+\-]?[0-9]+)?)|0[xX][0-9a-fA-F]+)$`
    as a deterministic scanner (every repetition is greedy and followed by something that cannot start
    with what it repeats, so leftmost-first = longest). -/

def reIsDigit (c : Nat) : Bool := 48 ≤ c ∧ c ≤ 57

/-- `\.?[0-9]*` after a non-empty integer part, or `\.[0-9]+` after an empty one: (fraction digits, rest) -/
def reFrac (ipEmpty : Bool) (r1 : List Nat) : List Nat × List Nat :=
  match r1 with
  | c :: t =>
    if c = 46 then
      let fp := t.takeWhile reIsDigit
      if ipEmpty ∧ fp.isEmpty then ([], r1) else (fp, t.dropWhile reIsDigit)
    else ([], r1)
  | [] => ([], r1)

/-- `[\+\-]?` -/
def reSign (t : List Nat) : List Nat :=
  match t with
  | c :: u => if c = 43 ∨ c = 45 then u else t
  | [] => t

/-- `(?:[eE][\+\-]?[0-9]+)?`: the rest after the optional exponent (taken only when complete) -/
def reExpRest (r2 : List Nat) : List Nat :=
  match r2 with
  | c :: t =>
    if c = 101 ∨ c = 69 then
      let ed := (reSign t).takeWhile reIsDigit
      if ed.isEmpty then r2 else (reSign t).dropWhile reIsDigit
    else r2
  | [] => r2

/-- the text left after the match of the signed decimal alternative at the start of `s`; `none` = no match -/
def reDecRest (s : List Nat) : Option (List Nat) :=
  let body := reSign s
  if [73, 110, 102, 105, 110, 105, 116, 121].isPrefixOf body then some (body.drop 8) else     -- "Infinity"
  let ip := body.takeWhile reIsDigit
  let r1 := body.dropWhile reIsDigit
  let fp := (reFrac ip.isEmpty r1).1
  let r2 := (reFrac ip.isEmpty r1).2
  if ip.isEmpty ∧ fp.isEmpty then none else some (reExpRest r2)

def reIsHexDigit (c : Nat) : Bool := (48 ≤ c ∧ c ≤ 57) ∨ (97 ≤ c ∧ c ≤ 102) ∨ (65 ≤ c ∧ c ≤ 70)
def hexDigitVal (c : Nat) : Nat := if c ≤ 57 then c - 48 else if c ≥ 97 then c - 87 else c - 55

/-- `0[xX][0-9a-fA-F]+` matching the whole string -/
def isHexLit (v : List Nat) : Bool :=
  match v with
  | 48 :: x :: hs => (x = 120 ∨ x = 88) && !hs.isEmpty && hs.all reIsHexDigit
  | _ => false

def stringToNumberValid (v : List Nat) : Bool := reDecRest v == some [] || isHexLit v

/-- `new(big.Float).SetInt(n).Float64()`: the integer n rounded once to nearest-even -/
def bigToFloat (n : Nat) : FV := ofRatParts false n 1

/-- parseNumber (value_number.go:17) after the Trim -/
def parseNumberBody (v : List Nat) : FV :=
  if v.isEmpty then zero
  else if !stringToNumberValid v then .nan          -- strconv accepts more: 1_000, 0x1.8p1, inf, …
  else if v.contains 46 then pfOrNaN v              -- strings.ContainsRune(value, '.')
  else if startsWith0x v then
    match parseInt v 0 with
    | .ok i => ofInt i
    | .range => bigToFloat ((v.drop 2).foldl (fun n c => n * 16 + hexDigitVal c) 0)   -- big.Int.SetString(value, 0)
    | .syntax => .nan
  else pfOrNaN v

/-- parseNumber (value_number.go:17) -/
def parseNumber (s : List Nat) : FV := parseNumberBody (trim wsRunes s)

end OttoVerif.PN
