/-
  Base/Str — Go's UTF-8 view (List of bytes) and ES5's UTF-16 view (List of code units).
  `decodeRunes` follows Go's `for _, r := range s` / utf8.DecodeRuneInString: an invalid or
  truncated sequence yields U+FFFD and consumes ONE byte; surrogate code points and over-long
  forms are invalid.  (Stub of unicode/utf8 and unicode/utf16 — trusted base §2.6.)
-/
namespace OttoVerif.Str

def runeError : Nat := 0xFFFD

def isCont (b : Nat) : Bool := 0x80 ≤ b ∧ b ≤ 0xBF

/-- decode one rune: (rune, width) -/
def decodeRune : List Nat → Option (Nat × Nat)
  | [] => none
  | b0 :: rest =>
    if b0 < 0x80 then some (b0, 1)
    else if b0 < 0xC2 then some (runeError, 1)
    else if b0 < 0xE0 then
      match rest with
      | b1 :: _ => if isCont b1 then some ((b0 - 0xC0) * 64 + (b1 - 0x80), 2) else some (runeError, 1)
      | _ => some (runeError, 1)
    else if b0 < 0xF0 then
      match rest with
      | b1 :: b2 :: _ =>
        let lo := if b0 = 0xE0 then 0xA0 else 0x80
        let hi := if b0 = 0xED then 0x9F else 0xBF
        if lo ≤ b1 ∧ b1 ≤ hi ∧ isCont b2 then some ((b0 - 0xE0) * 4096 + (b1 - 0x80) * 64 + (b2 - 0x80), 3)
        else some (runeError, 1)
      | _ => some (runeError, 1)
    else if b0 < 0xF5 then
      match rest with
      | b1 :: b2 :: b3 :: _ =>
        let lo := if b0 = 0xF0 then 0x90 else 0x80
        let hi := if b0 = 0xF4 then 0x8F else 0xBF
        if lo ≤ b1 ∧ b1 ≤ hi ∧ isCont b2 ∧ isCont b3 then
          some ((b0 - 0xF0) * 262144 + (b1 - 0x80) * 4096 + (b2 - 0x80) * 64 + (b3 - 0x80), 4)
        else some (runeError, 1)
      | _ => some (runeError, 1)
    else some (runeError, 1)

def decodeRunesAux : Nat → List Nat → List Nat
  | 0, _ => []
  | fuel+1, bs =>
    match decodeRune bs with
    | none => []
    | some (r, w) => r :: decodeRunesAux fuel (bs.drop w)

/-- `[]rune(s)` -/
def decodeRunes (bs : List Nat) : List Nat := decodeRunesAux bs.length bs

/-- is the byte string valid UTF-8 (utf8.ValidString)? -/
def validAux : Nat → List Nat → Bool
  | 0, bs => bs.isEmpty
  | fuel+1, bs =>
    match decodeRune bs with
    | none => true
    | some (r, w) => if r = runeError ∧ w = 1 then false else validAux fuel (bs.drop w)
def validUTF8 (bs : List Nat) : Bool := validAux bs.length bs

/-- utf8.EncodeRune / `string(rune)`: surrogates and out-of-range become U+FFFD -/
def encodeRune (r : Nat) : List Nat :=
  let r := if (0xD800 ≤ r ∧ r ≤ 0xDFFF) ∨ r > 0x10FFFF then runeError else r
  if r < 0x80 then [r]
  else if r < 0x800 then [0xC0 + r / 64, 0x80 + r % 64]
  else if r < 0x10000 then [0xE0 + r / 4096, 0x80 + (r / 64) % 64, 0x80 + r % 64]
  else [0xF0 + r / 262144, 0x80 + (r / 4096) % 64, 0x80 + (r / 64) % 64, 0x80 + r % 64]

def encodeRunes (rs : List Nat) : List Nat := rs.flatMap encodeRune

/-- utf16.Encode: runes → code units (invalid runes → U+FFFD) -/
def utf16Encode (rs : List Nat) : List Nat :=
  rs.flatMap fun r =>
    if (0xD800 ≤ r ∧ r ≤ 0xDFFF) ∨ r > 0x10FFFF then [runeError]
    else if r < 0x10000 then [r]
    else let r' := r - 0x10000; [0xD800 + r' / 1024, 0xDC00 + r' % 1024]

/-- utf16.Decode: code units → runes (lone surrogates → U+FFFD) -/
def utf16Decode : List Nat → List Nat
  | [] => []
  | [u] => if 0xD800 ≤ u ∧ u < 0xE000 then [runeError] else [u]
  | u :: v :: rest =>
    if 0xD800 ≤ u ∧ u < 0xDC00 ∧ 0xDC00 ≤ v ∧ v < 0xE000 then
      ((u - 0xD800) * 1024 + (v - 0xDC00) + 0x10000) :: utf16Decode rest
    else if 0xD800 ≤ u ∧ u < 0xE000 then runeError :: utf16Decode (v :: rest)
    else u :: utf16Decode (v :: rest)

/-- the UTF-16 code units an ES5 program sees for a Go string -/
def unitsOfBytes (bs : List Nat) : List Nat := utf16Encode (decodeRunes bs)
/-- the Go string for a sequence of code units (otto: string(utf16.Decode(units))) -/
def bytesOfUnits (us : List Nat) : List Nat := encodeRunes (utf16Decode us)

def ofString (s : String) : List Nat := s.toUTF8.toList.map (·.toNat)

end OttoVerif.Str
