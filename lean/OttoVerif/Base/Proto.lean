/-
  Base/Proto — line-protocol helpers shared by every driver (core-only).
  Tokens never contain spaces.  Doubles: 16 hex digits of the bit pattern.
  Strings: `s:` + hex of UTF-16 code units (4 hex digits each), `b:` + hex of raw bytes.
-/
import OttoVerif.Base.F64
namespace OttoVerif.Proto
open OttoVerif.F64

def hexDigit? (c : Char) : Option Nat :=
  if '0' ≤ c ∧ c ≤ '9' then some (c.toNat - '0'.toNat)
  else if 'a' ≤ c ∧ c ≤ 'f' then some (c.toNat - 'a'.toNat + 10)
  else if 'A' ≤ c ∧ c ≤ 'F' then some (c.toNat - 'A'.toNat + 10)
  else none

def hexNat? (s : String) : Option Nat :=
  if s.isEmpty then none else
  s.toList.foldl (fun acc c => match acc, hexDigit? c with
    | some a, some d => some (a * 16 + d)
    | _, _ => none) (some 0)

def hexDigitChar (n : Nat) : Char :=
  if n < 10 then Char.ofNat (n + '0'.toNat) else Char.ofNat (n - 10 + 'a'.toNat)

def toHexPadded (width : Nat) (n : Nat) : String :=
  let ds := (Nat.toDigits 16 n)
  String.ofList (List.replicate (width - ds.length) '0' ++ ds)

def f64? (s : String) : Option FV := (hexNat? s).map (fun n => decode (UInt64.ofNat n))
def f64Out (x : FV) : String := toHexPadded 16 (encode x).toNat

/-- groups of `k` hex digits → numbers -/
partial def hexGroups (k : Nat) (cs : List Char) (acc : Array Nat) : Option (Array Nat) :=
  if cs.isEmpty then some acc
  else if cs.length < k then none
  else match hexNat? (String.ofList (cs.take k)) with
    | some n => hexGroups k (cs.drop k) (acc.push n)
    | none => none

def units? (s : String) : Option (List Nat) := (hexGroups 4 s.toList #[]).map Array.toList
def bytes? (s : String) : Option (List Nat) := (hexGroups 2 s.toList #[]).map Array.toList
def unitsOut (us : List Nat) : String := String.join (us.map (toHexPadded 4))
def bytesOut (bs : List Nat) : String := String.join (bs.map (toHexPadded 2))

def int? (s : String) : Option Int := s.toInt?

def words (line : String) : List String :=
  (line.splitOn " ").filter (fun w => !w.isEmpty)

def stripEOL (s : String) : String :=
  let cs := s.toList.reverse.dropWhile (fun c => c = '\n' ∨ c = '\r')
  String.ofList cs.reverse

/-- Generic stdin loop: one reply line per request line. -/
partial def loop (h : IO.FS.Stream) (out : IO.FS.Stream) (f : List String → String) : IO Unit := do
  let line ← h.getLine
  if line.isEmpty then
    out.flush
    return ()
  out.putStrLn (f (words (stripEOL line)))
  loop h out f

end OttoVerif.Proto
