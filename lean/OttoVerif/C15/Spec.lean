/-
  C15/Spec — what the property demands, written from the property text and ES5, not from the code.

  (a) Go -> JavaScript -> Go.  A Go value `g` set into a runtime and read back:
        Export           returns a value EQUAL TO THE ORIGINAL (same dynamic type, same value);
        ToInteger        the integer `g` denotes (ES5 §9.4 ToInteger of its number value for non-integers),
                         clamped to int64 — the clamp is the documented contract of ToInteger;
        ToFloat          the double nearest to `g` (ES5 §9.3 ToNumber of the JavaScript counterpart);
        ToBoolean        ES5 §9.2 of the counterpart;   ToString  ES5 §9.8 (integers: their exact decimal form);
        MarshalJSON      the JSON text JSON.stringify gives for the counterpart (§15.12.3), integers exact;
      and a script sees the natural counterpart: nil ↦ undefined, bool ↦ boolean, every numeric kind ↦ the
      Number nearest to it, string ↦ the String of its UTF-16 code units, containers/structs ↦ objects;
      pointers are transparent (a nil pointer is undefined).
  (b) JavaScript -> Go.  The Value predicates agree with typeof / Number(); Export of JSON-like data is
      structurally equal to that data (the JSON data model: arrays keep their length, `undefined`
      array elements and holes read as null, `undefined` properties are absent — as JSON.stringify).
  ToNumber on strings is the parameter `pn` (C06's subject), as in C05.
-/
import OttoVerif.C15.Model
namespace OttoVerif.C15.Spec
open OttoVerif.F64
open OttoVerif.C05 (NK Val Env)
open OttoVerif.C15

/-- number value of a scalar (§9.3 on the counterpart) -/
def scNumber (E : Env) : Sc → FV
  | .bool b => if b then one else zero
  | .int _ i => ofInt i
  | .f32 x => x
  | .f64 x => x
  | .str s => E.pn s

/-- the value a pointer chain leads to (pointers are transparent) -/
def target : GoVal → GoVal
  | .ptr g => target g
  | .nilptr _ => .nil
  | g => g

/-- (a) Export: equal to the original -/
def roundtrip (g : GoVal) : Res GoVal := .ok g

/-- §9.3 ToNumber of the counterpart; objects are outside this spec (`err`) -/
def toFloat (E : Env) (g : GoVal) : Res FV :=
  match target g with
  | .nil => .ok .nan
  | .sc _ s => .ok (scNumber E s)
  | _ => .err

def clamp (i : Int) : Int := if i > int64Max then int64Max else if i < int64Min then int64Min else i

/-- §9.4 ToInteger as a mathematical integer, ±∞ kept symbolic by the clamp -/
def toIntegerOfNumber (x : FV) : Int :=
  match x with
  | .nan => 0
  | .inf s => if s then int64Min else int64Max
  | .fin .. => clamp (truncInt x)

def toInteger (E : Env) (g : GoVal) : Res Int :=
  match target g with
  | .nil => .ok 0
  | .sc _ (.int _ i) => .ok (clamp i)              -- the integer itself
  | .sc _ s => .ok (toIntegerOfNumber (scNumber E s))
  | _ => .err

/-- §9.2 -/
def toBoolean (g : GoVal) : Res Bool :=
  match target g with
  | .nil => .ok false
  | .sc _ (.bool b) => .ok b
  | .sc _ (.int _ i) => .ok (!(i = 0))
  | .sc _ (.f32 x) => .ok (!(isNaN x || isZero x))
  | .sc _ (.f64 x) => .ok (!(isNaN x || isZero x))
  | .sc _ (.str s) => .ok (!s.isEmpty)
  | _ => .ok true

/-- §9.8.1 for the values whose digit string is not C06's subject -/
def numToString (x : FV) : Option (List Nat) :=
  match x with
  | .nan => some sNaN
  | .inf s => some (if s then 45 :: sInfinity else sInfinity)
  | .fin _ m _ =>
    if m = 0 then some [48]                                   -- +0 and −0 are "0"
    else if smallWhole x then some (decStr (truncInt x)) else none

def toStringG (g : GoVal) : Res (Option (List Nat)) :=
  match target g with
  | .nil => .ok (some sUndefined)
  | .sc _ (.bool b) => .ok (some (if b then sTrue else sFalse))
  | .sc _ (.int _ i) => .ok (some (decStr i))
  | .sc _ (.f32 x) => .ok (numToString x)
  | .sc _ (.f64 x) => .ok (numToString x)
  | .sc _ (.str s) => .ok (some s)
  | _ => .err

/-- §15.12.3 Str: non-finite numbers are "null"; finite numbers are ToString(number), so −0 is "0" -/
def marshalNum (x : FV) : JTok :=
  match x with
  | .fin s m e => .num (.fin (s && m != 0) m e)        -- −0 loses its sign, everything else is kept
  | _ => .null

def marshal (g : GoVal) : Res JTok :=
  match target g with
  | .nil => .ok .null
  | .sc _ (.bool b) => .ok (.bool b)
  | .sc _ (.int _ i) => .ok (.int i)
  | .sc _ (.f32 x) => .ok (marshalNum x)
  | .sc _ (.f64 x) => .ok (marshalNum x)
  | .sc _ (.str s) => .ok (.str (OttoVerif.Str.unitsOfBytes s))
  | _ => .err

/-- the natural JavaScript counterpart as a script observes it -/
def view (E : Env) (g : GoVal) : Res View :=
  match target g with
  | .nil => .ok .undefined
  | .sc _ (.bool b) => .ok (.bool b)
  | .sc _ (.str s) => .ok (.str (OttoVerif.Str.unitsOfBytes s).length s)
  | .sc _ s => .ok (.num (scNumber E s))
  | _ => .ok .object

def typeofG (g : GoVal) : Res TypeOf :=
  match target g with
  | .nil => .ok .undefined
  | .sc _ (.bool _) => .ok .boolean
  | .sc _ (.str _) => .ok .string
  | .sc _ _ => .ok .number
  | _ => .ok .object

/-! ### (b) JavaScript side -/

/-- §11.4.3 typeof -/
def typeofJS : JS → TypeOf
  | .prim .undef => .undefined
  | .prim .null => .object
  | .prim (.bool _) => .boolean
  | .prim (.str _) => .string
  | .prim _ => .number
  | .f32 _ => .number
  | _ => .object

/-- §9.3 on a JavaScript primitive -/
def toNumberJS (E : Env) : JS → Res FV
  | .prim v => .ok (OttoVerif.C05.toFloat E v)      -- = C05.Spec.toNumber (theorem C05.toNumber_eq)
  | .f32 x => .ok x
  | _ => .err

def isNullJS : JS → Bool
  | .prim .null => true
  | _ => false

/-- predicates stated through typeof and Number(): IsNaN(v) = isNaN(Number(v)) (§15.1.2.4) -/
def preds (E : Env) (j : JS) : Res Preds :=
  (toNumberJS E j).map fun n =>
    let t := typeofJS j
    { isUndefined := t == .undefined, isDefined := t != .undefined, isNull := isNullJS j,
      isBoolean := t == .boolean, isNumber := t == .number, isString := t == .string,
      isObject := t == .object && !isNullJS j, isPrimitive := !(t == .object && !isNullJS j),
      isNaN := isNaN n }

/- the JSON data model -/
mutual
inductive Tree
  | null
  | bool (b : Bool)
  | num (x : FV)
  | str (s : List Nat)
  | arr (es : Trees)
  | obj (kvs : TreeKVs)
inductive Trees
  | nil
  | cons (t : Tree) (r : Trees)
inductive TreeKVs
  | nil
  | cons (k : List Nat) (t : Tree) (r : TreeKVs)
end
deriving instance DecidableEq for Tree, Trees, TreeKVs

def scTree (E : Env) : Sc → Tree
  | .bool b => .bool b
  | .str s => .str s
  | s => .num (scNumber E s)

mutual
/-- structure of a Go value with the static types forgotten -/
def erase (E : Env) : GoVal → Tree
  | .nil => .null
  | .sc _ s => scTree E s
  | .ptr g => erase E g
  | .nilptr _ => .null
  | .slice _ _ es => .arr (eraseList E es)
  | .map _ _ kvs => .obj (eraseKVs E kvs)
  | .strct _ fs => .obj (eraseKVs E fs)
def eraseList (E : Env) : GoVals → Trees
  | .nil => .nil
  | .cons g r => .cons (erase E g) (eraseList E r)
def eraseKVs (E : Env) : GoKVs → TreeKVs
  | .nil => .nil
  | .cons k g r => .cons k (erase E g) (eraseKVs E r)
end

def primTree (E : Env) : Val → Tree
  | .undef => .null
  | .null => .null
  | .bool b => .bool b
  | .str s => .str s
  | v => .num (OttoVerif.C05.toFloat E v)

mutual
/-- the JSON-like datum a JavaScript value is (as JSON.stringify reads it) -/
def treeOf (E : Env) : JS → Tree
  | .prim v => primTree E v
  | .f32 x => .num x
  | .goObj g => erase E g
  | .arr es => .arr (treeOfElems E es)
  | .obj ps => .obj (treeOfProps E ps)
def treeOfElems (E : Env) : JSElems → Trees
  | .nil => .nil
  | .hole r => .cons .null (treeOfElems E r)          -- a hole reads as undefined -> null; length is kept
  | .cons v r => .cons (treeOf E v) (treeOfElems E r)
def treeOfProps (E : Env) : JSProps → TreeKVs
  | .nil => .nil
  | .cons k v r => if isUndef v then treeOfProps E r else .cons k (treeOf E v) (treeOfProps E r)
end

/-- (b) Export: a Go value structurally equal to the datum -/
def exportTree (E : Env) (j : JS) : Res Tree := .ok (treeOf E j)

mutual
/-- (b) Export with Go types as documented at Value.Export: "Array -> []interface{}",
    "Object -> map[string]interface{}", "number -> a number type" (the kind the Value holds),
    bridged Go values as they are. -/
def docOf : JS → GoVal
  | .prim .undef => .nil
  | .prim .null => .nil
  | .prim (.bool b) => .sc false (.bool b)
  | .prim (.int k i) => .sc false (.int k i)
  | .prim (.f64 x) => .sc false (.f64 x)
  | .prim (.str s) => .sc false (.str s)
  | .f32 x => .sc false (.f32 x)
  | .goObj g => g
  | .arr es => .slice .iface false (docOfElems es)
  | .obj ps => .map .iface false (docOfProps ps)
def docOfElems : JSElems → GoVals
  | .nil => .nil
  | .hole r => .cons .nil (docOfElems r)
  | .cons v r => .cons (docOf v) (docOfElems r)
def docOfProps : JSProps → GoKVs
  | .nil => .nil
  | .cons k v r => if isUndef v then docOfProps r else .cons k (docOf v) (docOfProps r)
end

def exportDoc (j : JS) : Res GoVal := .ok (docOf j)

/-! ### (b') Export of object graphs

  JSON-like data is acyclic; shared sub-objects are ordinary data (JSON.stringify writes them out at every
  occurrence), so Export of an acyclic graph must be structurally equal to its TREE UNFOLDING – object
  identity is invisible.  On a cyclic graph the unfolding is cut exactly at a back edge (a reference to an
  object that is an ancestor of the position), where the raw value is returned. -/

def cutTree (E : Env) (a : Nat) : Tree := erase E (rawValue a)

def mapTrees (f : HVal → Res Tree) : List (Option HVal) → Res Trees
  | [] => .ok .nil
  | none :: r => (mapTrees f r).map fun ts => .cons .null ts            -- a hole keeps its place (reads as undefined)
  | some v :: r => (f v).bind fun t => (mapTrees f r).map fun ts => .cons t ts

def mapTreeKVs (f : HVal → Res Tree) : List (List Nat × HVal) → Res TreeKVs
  | [] => .ok .nil
  | (k, v) :: r =>
    if isUndefH v then mapTreeKVs f r
    else (f v).bind fun t => (mapTreeKVs f r).map fun ts => .cons k t ts

/-- tree unfolding; identity plays no role -/
def unfoldTree (E : Env) (H : Heap) : Nat → HVal → Res Tree
  | _, .leaf j => .ok (treeOf E j)
  | 0, .ref _ => .err
  | fuel + 1, .ref a =>
    match H[a]? with
    | none => .err
    | some (.arr es) => (mapTrees (unfoldTree E H fuel) es).map .arr
    | some (.obj ps) => (mapTreeKVs (unfoldTree E H fuel) ps).map .obj

/-- unfolding cut at back edges: `anc` = the ancestors of the position -/
def unfoldCut (E : Env) (H : Heap) : Nat → List Nat → HVal → Res Tree
  | _, _, .leaf j => .ok (treeOf E j)
  | 0, _, .ref _ => .err
  | fuel + 1, anc, .ref a =>
    if a ∈ anc then .ok (cutTree E a)
    else match H[a]? with
      | none => .err
      | some (.arr es) => (mapTrees (unfoldCut E H fuel (a :: anc)) es).map .arr
      | some (.obj ps) => (mapTreeKVs (unfoldCut E H fuel (a :: anc)) ps).map .obj

/-- (b') Export of the graph rooted at v -/
def exportGraph (E : Env) (H : Heap) (v : HVal) : Res Tree := unfoldCut E H (H.length + 1) [] v

/-! ### (c) calls: the equivalent in-language call (ES5 §11.2.3, §15.3.4.4, §10.4.3) -/

/-- thisArg of the equivalent in-language call: `probe.call(T, a…)`, `obj.probe(a…)`, `probe(a…)`,
    where T is the counterpart of the Go value -/
inductive LangThis
  | self
  | undef
  | counterpart (g : GoVal)
  | fresh                               -- `new F(a…)` (§11.2.2, §13.2.2): a newly created object

def langThis : Path → LangThis
  | .valueCall none => .self                     -- probe.call(obj, a…)
  | .valueCall (some g) => .counterpart g        -- probe.call(T, a…)
  | .objectCall => .self                         -- obj.probe(a…)   (§11.2.3: this = base of the reference)
  | .ottoCallNil member => if member then .self else .undef      -- obj.probe(a…) / probe(a…)
  | .ottoCallThis _ g => .counterpart g          -- (src).call(T, a…)
  | .ottoCallNew _ => .fresh                     -- new src(a…)

/-- §10.4.3 entering function code (non-strict): undefined/null -> global object, primitives -> ToObject -/
def enterThis (E : Env) : LangThis → Res ThisObs
  | .self => .ok .self
  | .fresh => .ok .instance
  | .undef => .ok .global
  | .counterpart g => (view E g).bind fun v => match v with
    | .undefined => .ok .global
    | .null => .ok .global
    | .object => .err
    | v => .ok (.boxed v)

def argViews (E : Env) : List GoVal → Res (List View)
  | [] => .ok []
  | g :: r => (view E g).bind fun v => (argViews E r).map fun vs => v :: vs

def langCall (E : Env) (p : Path) (args : List GoVal) : Res (ThisObs × List View) :=
  (enterThis E (langThis p)).bind fun t => (argViews E args).map fun vs => (t, vs)

/-- the in-language call evaluates the callee ONCE (§11.2.3 step 8 / §11.2.2); its completion – a value or
    a thrown exception (§12.13, caught here by try/catch) – is the completion of the call expression -/
def langRun (E : Env) (p : Path) (b : Exit) (args : List GoVal) : Res Run :=
  (langCall E p args).map fun (t, vs) => ⟨[t], exitOf b (isNewPath p) 1 t vs⟩

/-! ### (d) re-entrant calls: Otto.Call / Otto.Run / Value.Call / Object.Call made by a host function behave
    as the call written as GLOBAL code, whatever the calling JavaScript function shadows; Otto.Eval is the
    documented exception ("without leaving the current scope"): it is a direct eval in the caller (§10.4.2). -/
def reentryResolves (r : Reentry) (s : Shadow) : Binding :=
  match r, s with
  | .ottoEval, .none => .global
  | .ottoEval, _ => .local
  | _, _ => .global

/-! ### (e) the Go API never panics on hostile or degenerate input: it returns an error or a defined result -/
def apiSpec : ApiCase → ApiOut
  | .runThrowToStringThrows => .errPlain      -- Run returns an error (catchPanic's contract)
  | .runThrowUnconvertible => .errPlain
  | .badIsNaN => .text "false"                -- it does not convert to NaN (the conversion throws)
  | .badToString => .errClass "RangeError"
  | .badToInteger => .errClass "RangeError"
  | .badToFloat => .errClass "RangeError"
  | .badToBoolean => .text "true"             -- §9.2: an object is true, no conversion runs
  | .badString => .text ""                    -- documented: empty string if there is an error
  | .badClass => .text "Object"
  | .callerLocationNoScript => .text "<unknown>"   -- there is no calling frame
  | .callerLocationScript => .text "<anonymous>:1:1"
  | .setNilObject => .text "undefined"        -- like every other nil pointer (value.go "FIXME: UNDEFINED")
  | .toValueNilObject => .text "undefined"
  | .argNilObject => .text "undefined"
  | .toValueNilValue => .text "undefined"
  | .marshalFunction => .text "null"          -- a json.Marshaler must return JSON; as undefined -> null, and [f] -> [null]
  | .marshalObjectWithFunction => .text "{\"b\":1}"
  | .marshalUndefined => .text "null"
  | .callTwoStatements => .text "G/fundefined,g7"   -- not ONE expression: general path = (eval source).call(undefined, 7)
  | .callTwoStatementsThis => .text "G/fundefined,g7"
  | .callExprStatement => .text "G/g7"
  | .runThrowToStringHostThrows => .errPlain
  | .setZeroObject => .text "undefined"       -- an Object value that holds no object: like a nil *Object
  | .setPtrZeroObject => .text "undefined"
  | .exportStringObject => .text "O(,30,s:61,31,s:62)"   -- as documented at Export (wrapper objects are not JSON-like data)
  | .exportNumberObject => .text "O()"
  | .exportFunction => .text "O()"
  | .exportDate => .text "O()"

/-! ### (f) arithmetic on Go values: §11.5, §11.6 on the Number counterparts (IEEE 754 operation on the
    ToNumber values); the result read back is that double (−0 keeps its sign), as a float64 -/
def numberOfGo (E : Env) (g : GoVal) : Res FV :=
  match target g with
  | .nil => .ok .nan
  | .sc _ (.str _) => .err                     -- string operands (concatenation, ToNumber of strings) are C05/C09's
  | .sc _ s => .ok (scNumber E s)
  | _ => .err

def arith (E : Env) (op : OttoVerif.C05.BinOp) (g1 g2 : GoVal) : Res Val :=
  (numberOfGo E g1).bind fun a => (numberOfGo E g2).bind fun b =>
    match op with
    | .add => .ok (.f64 (add a b))
    | .sub => .ok (.f64 (sub a b))
    | .mul => .ok (.f64 (mul a b))
    | .div => .ok (.f64 (div a b))
    | .rem => .ok (.f64 (fmod a b))
    | _ => .err

/-- (g) FunctionCall.Otto is the runtime the host function runs on -/
def hostOttoOnCopy : Reentry → Runtime
  | _ => .copy

/-! ### Deviation regions (decidable predicates over the request; witnesses in Theorems.lean) -/
namespace Dev

/-- the JavaScript value `Set` stores -/
def stored (g : GoVal) : Option JS := match toValue g with | .ok j => some j | _ => none

def isPtr : GoVal → Bool
  | .ptr _ => true
  | .nilptr _ => true
  | _ => false

/-- a pointer that Set rejects: it leads to a slice/map, or through two levels to a struct -/
def rejectedPtr (g : GoVal) : Bool := match toValue g with | .typeError => true | _ => false

/-- a pointer that is stored as its pointee -/
def derefPtr (g : GoVal) : Bool :=
  isPtr g && match toValue g with | .ok (.goObj _) => false | .ok _ => true | _ => false

def isNamed : GoVal → Bool
  | .sc true _ => true
  | _ => false

def isPlainF32 : GoVal → Bool
  | .sc false (.f32 _) => true
  | _ => false

/-! #### JavaScript -> Go: the Array typing rule of `export`, on types alone -/

def stepT (st : St) (t : Option GT) : St :=
  let s := sigOf t
  if st.state = 0 then ⟨1, s, t, t⟩
  else if st.state = 1 ∧ (st.sig ≠ s ∨ t ≠ st.first) then ⟨2, st.sig, t, st.first⟩
  else ⟨st.state, st.sig, t, st.first⟩

def scanT : St → List (Option GT) → St
  | st, [] => st
  | st, t :: r => scanT (stepT st t) r

/-- element type of the slice `export` builds for an Array whose exported elements have types `ts` -/
def arrElemType (ts : List (Option GT)) : GT :=
  let st := scanT St.init ts
  match st.t with
  | none => .iface
  | some t => if st.state ≠ 1 ∨ st.sig.k = 20 then .iface else t

mutual
/-- dynamic type of what `export` returns (when it returns) -/
def expType : JS → Option GT
  | .prim .undef => none
  | .prim .null => none
  | .prim (.bool _) => some (.sc false .bool)
  | .prim (.int k _) => some (.sc false (.num k))
  | .prim (.f64 _) => some (.sc false .f64)
  | .prim (.str _) => some (.sc false .str)
  | .f32 _ => some (.sc false .f32)
  | .goObj g => typeOf g
  | .arr es => some (.slice (arrElemType (expTypes es)))
  | .obj _ => some (.map .iface)
def expTypes : JSElems → List (Option GT)
  | .nil => []
  | .hole r => expTypes r
  | .cons v r => expType v :: expTypes r
end

mutual
/-- some Array inside has a hole -/
def hasHole : JS → Bool
  | .arr es => holeElems es
  | .obj ps => holeProps ps
  | _ => false
def holeElems : JSElems → Bool
  | .nil => false
  | .hole _ => true
  | .cons v r => hasHole v || holeElems r
def holeProps : JSProps → Bool
  | .nil => false
  | .cons _ v r => hasHole v || holeProps r
end

mutual
/-- some non-empty Array inside is exported as a typed slice ([]T, T ≠ interface{}) -/
def typedArr : JS → Bool
  | .arr es => typedElems es || (arrElemType (expTypes es) != .iface)
  | .obj ps => typedProps ps
  | _ => false
def typedElems : JSElems → Bool
  | .nil => false
  | .hole r => typedElems r
  | .cons v r => typedArr v || typedElems r
def typedProps : JSProps → Bool
  | .nil => false
  | .cons _ v r => (!isUndef v && typedArr v) || typedProps r
end

/-- some heap Array has a hole, or a leaf does -/
def hvalHole : HVal → Bool
  | .leaf j => hasHole j
  | .ref _ => false
def nodeHole : HNode → Bool
  | .arr es => es.any fun e => match e with | none => true | some v => hvalHole v
  | .obj ps => ps.any fun p => hvalHole p.2
def heapHole (H : Heap) (v : HVal) : Bool := hvalHole v || H.any nodeHole

end Dev

end OttoVerif.C15.Spec
