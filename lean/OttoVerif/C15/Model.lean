/-
  C15/Model — transcription of otto's Go <-> JavaScript value bridge.

  otto (Go):
    value.go     toValue (l.269: the type switch and the reflect.Value arm), Value.export/exportPath (l.620-730:
                 the set `path` of objects being exported – entered before descending, left on EVERY return – incl. the
                 state 0/1/2 common-type inference for Arrays and the reflect.MakeSlice/Set copy),
                 Value.MarshalJSON (l.969), IsNaN (l.158) and the Is* predicates, ToInteger/ToFloat/
                 ToString/ToBoolean (l.390-460)
    runtime.go   (*runtime).toValue (l.634: Ptr/Struct/Map/Slice arms, then value.go toValue)
    otto.go      Otto.Set/Get/ToValue (l.323-360, 624), Object.MarshalJSON (l.753)
    value_number.go  Value.float64 (l.46), Value.number (l.149)
    value_string.go  Value.string (l.51)      value_boolean.go  Value.bool (l.10)
    cmpl_evaluate_expression.go  typeof (l.409)
  Go standard library, modelled as stubs (trusted base §2.6): reflect.TypeOf/Kind/MakeSlice/Set
  (assignability = type identity on the universe below), strconv.FormatInt, encoding/json.Marshal of
  scalars (integers in decimal, finite floats as a text that reads back exactly, error on NaN/Inf).
-/
import OttoVerif.Base.F64
import OttoVerif.Base.Str
import OttoVerif.C05.Model
namespace OttoVerif.C15
open OttoVerif.F64
open OttoVerif.C05 (NK Val Env toFloat toBool)

/-! ### Go values -/

/-- basic Go types -/
inductive BT | bool | num (k : NK) | f32 | f64 | str
deriving DecidableEq, Repr, Inhabited

/-- Go types of the universe: basic types (`named` = a defined type such as `type MyInt int`), interface{},
    []T, map[string]T, *T and struct types (identified by a number). -/
inductive GT
  | iface
  | sc (named : Bool) (b : BT)
  | slice (t : GT)
  | map (t : GT)
  | ptr (t : GT)
  | strct (id : Nat)
deriving DecidableEq, Repr, Inhabited

/-- scalar payloads -/
inductive Sc
  | bool (b : Bool)
  | int (k : NK) (i : Int)
  | f32 (x : FV)            -- a float32 (its exact value, representable in binary32)
  | f64 (x : FV)
  | str (s : List Nat)      -- UTF-8 bytes
deriving DecidableEq, Repr, Inhabited

def Sc.bt : Sc → BT
  | .bool _ => .bool | .int k _ => .num k | .f32 _ => .f32 | .f64 _ => .f64 | .str _ => .str

mutual
/-- Go values as seen through `interface{}` -/
inductive GoVal
  | nil                                               -- the nil interface
  | sc (named : Bool) (s : Sc)
  | ptr (g : GoVal)                                   -- non-nil pointer to g
  | nilptr (t : GT)                                   -- nil pointer of type *t
  | slice (t : GT) (isNil : Bool) (es : GoVals)       -- []t
  | map (t : GT) (isNil : Bool) (kvs : GoKVs)         -- map[string]t
  | strct (id : Nat) (fs : GoKVs)                     -- a struct value (fields by name)
inductive GoVals
  | nil
  | cons (g : GoVal) (r : GoVals)
inductive GoKVs
  | nil
  | cons (k : List Nat) (g : GoVal) (r : GoKVs)
end
deriving instance DecidableEq for GoVal, GoVals, GoKVs

/-- reflect.TypeOf (none = nil interface) -/
def typeOf : GoVal → Option GT
  | .nil => none
  | .sc n s => some (.sc n s.bt)
  | .ptr g => match typeOf g with | some t => some (.ptr t) | none => some (.ptr .iface)
  | .nilptr t => some (.ptr t)
  | .slice t _ _ => some (.slice t)
  | .map t _ _ => some (.map t)
  | .strct id _ => some (.strct id)

/-! ### JavaScript values (otto `Value`) -/

mutual
inductive JS
  | prim (v : Val)                    -- undefined, null, boolean, number (Go kind kept), string
  | f32 (x : FV)                      -- a number Value whose payload is a Go float32 (reflect arm only)
  | goObj (g : GoVal)                 -- object wrapping a Go slice/map/struct (type_go_*.go)
  | arr (es : JSElems)                -- native Array (elements in index order, with holes)
  | obj (ps : JSProps)                -- native Object (own enumerable properties in order)
inductive JSElems
  | nil
  | hole (r : JSElems)
  | cons (v : JS) (r : JSElems)
inductive JSProps
  | nil
  | cons (k : List Nat) (v : JS) (r : JSProps)
end
deriving instance DecidableEq for JS, JSElems, JSProps

inductive Res (α : Type) where
  | ok (a : α)
  | typeError          -- error returned to the caller (TypeError)
  | panic              -- a Go panic leaves the API call
  | err                -- a plain Go error value is returned
deriving DecidableEq, Repr, Inhabited

def Res.bind {α β} : Res α → (α → Res β) → Res β
  | .ok a, f => f a
  | .typeError, _ => .typeError
  | .panic, _ => .panic
  | .err, _ => .err

def Res.map {α β} (f : α → β) : Res α → Res β
  | .ok a => .ok (f a)
  | .typeError => .typeError
  | .panic => .panic
  | .err => .err

def jsUndef : JS := .prim .undef

/-! ### Go -> JavaScript -/

/-- the arms of the type switch in value.go toValue (l.270-299): float32 is widened -/
def directScalar : Sc → JS
  | .bool b => .prim (.bool b)
  | .int k i => .prim (.int k i)
  | .f32 x => .prim (.f64 x)          -- `float64(value)`
  | .f64 x => .prim (.f64 x)
  | .str s => .prim (.str s)

/-- the reflect.Value arm (l.315-361): by Kind; Float32 is widened like the direct arm (`value.Float()`) -/
def reflectScalar : Sc → JS
  | .bool b => .prim (.bool b)
  | .int k i => .prim (.int k i)
  | .f32 x => .prim (.f64 x)          -- `value.Float()`
  | .f64 x => .prim (.f64 x)
  | .str s => .prim (.str s)

/-- value.go toValue on a reflect.Value: the pointer-chasing loop, then the Kind switch -/
def derefToValue : GoVal → Res JS
  | .ptr g => derefToValue g
  | .nilptr _ => .ok jsUndef
  | .sc _ s => .ok (reflectScalar s)
  | .nil => .typeError                     -- Kind Interface: "invalid value"
  | .slice .. => .typeError                -- reflectValuePanic: "missing runtime"
  | .map .. => .typeError
  | .strct .. => .typeError

/-- Otto.ToValue = (*runtime).toValue (runtime.go:634) followed by value.go toValue -/
def toValue : GoVal → Res JS
  | .nil => .ok jsUndef
  | .sc false s => .ok (directScalar s)
  | .sc true s => .ok (reflectScalar s)        -- defined types miss the type switch: reflect arm
  | .ptr (.strct id fs) => .ok (.goObj (.ptr (.strct id fs)))
  | .ptr g => derefToValue g
  | .nilptr _ => .ok jsUndef
  | .slice t n es => .ok (.goObj (.slice t n es))
  | .map t n kvs => .ok (.goObj (.map t n kvs))
  | .strct id fs => .ok (.goObj (.strct id fs))

/-! ### JavaScript -> Go : Value.export (value.go:619) -/

/-- reflect.Kind numbers -/
def kindOfBT : BT → Nat
  | .bool => 1
  | .num .int => 2 | .num .i8 => 3 | .num .i16 => 4 | .num .i32 => 5 | .num .i64 => 6
  | .num .uint => 7 | .num .u8 => 8 | .num .u16 => 9 | .num .u32 => 10 | .num .u64 => 11
  | .f32 => 13 | .f64 => 14 | .str => 24

def kindOf : GT → Nat
  | .iface => 20
  | .sc _ b => kindOfBT b
  | .slice _ => 23
  | .map _ => 21
  | .ptr _ => 22
  | .strct _ => 25

/-- (k, kk, ek) of the loop body (l.659-671) -/
structure Sig where
  k : Nat
  kk : Nat
  ek : Nat
deriving DecidableEq, Repr, Inhabited

def sigOf : Option GT → Sig
  | none => ⟨0, 0, 0⟩
  | some (.map t) => ⟨21, 24, kindOf t⟩        -- map[string]t: key kind String
  | some (.slice t) => ⟨23, 0, kindOf t⟩
  | some (.ptr t) => ⟨22, 0, kindOf t⟩
  | some t => ⟨kindOf t, 0, 0⟩

/-- loop state: `state`, (`kind`,`keyKind`,`elemKind`), `t` (type of the LAST element seen) and
    `first` (type of the FIRST element) -/
structure St where
  state : Nat
  sig : Sig
  t : Option GT
  first : Option GT
deriving DecidableEq, Repr, Inhabited

def St.init : St := ⟨0, ⟨0, 0, 0⟩, none, none⟩

/-- one iteration for an exported element (l.673-679) -/
def step (st : St) (g : GoVal) : St :=
  let t := typeOf g
  let s := sigOf t
  if st.state = 0 then ⟨1, s, t, t⟩
  else if st.state = 1 ∧ (st.sig ≠ s ∨ t ≠ st.first) then ⟨2, st.sig, t, st.first⟩
  else ⟨st.state, st.sig, t, st.first⟩

def scan : St → GoVals → St
  | st, .nil => st
  | st, .cons g r => scan (step st g) r

/-- reflect `val.Index(i).Set(reflect.ValueOf(v))`: panics unless v's type is assignable to t
    (= identical, on this universe: basic types are all defined types, composites are unnamed) -/
def allAssignable (t : GT) : GoVals → Bool
  | .nil => true
  | .cons g r => (typeOf g == some t) && allAssignable t r

/-- l.684-695 -/
def finishArr (gs : GoVals) : Res GoVal :=
  let st := scan St.init gs
  match st.t with
  | none => .ok (.slice .iface false gs)
  | some t =>
    if st.state ≠ 1 ∨ st.sig.k = 20 then .ok (.slice .iface false gs)
    else if allAssignable t gs then .ok (.slice t false gs)
    else .panic

def isUndef : JS → Bool
  | .prim .undef => true
  | _ => false

mutual
def exportV : JS → Res GoVal
  | .prim .undef => .ok .nil
  | .prim .null => .ok .nil
  | .prim (.bool b) => .ok (.sc false (.bool b))
  | .prim (.int k i) => .ok (.sc false (.int k i))
  | .prim (.f64 x) => .ok (.sc false (.f64 x))
  | .prim (.str s) => .ok (.sc false (.str s))
  | .f32 x => .ok (.sc false (.f32 x))
  | .goObj g => .ok g                              -- value.value.Interface()
  | .arr es => (exportElems es).bind finishArr
  | .obj ps => (exportProps ps).map (fun kvs => .map .iface false kvs)
/-- holes are skipped (`if !obj.hasProperty(name) { continue }`) -/
def exportElems : JSElems → Res GoVals
  | .nil => .ok .nil
  | .hole r => exportElems r
  | .cons v r => (exportV v).bind fun g => (exportElems r).map fun gs => .cons g gs
/-- undefined-valued properties are dropped (`if value.IsDefined()`) -/
def exportProps : JSProps → Res GoKVs
  | .nil => .ok .nil
  | .cons k v r =>
    if isUndef v then exportProps r
    else (exportV v).bind fun g => (exportProps r).map fun kvs => .cons k g kvs
end

/-! ### `exportPath` on object GRAPHS (value.go:627): sharing and cycles

  A JavaScript heap: native Arrays and Objects by address; members are self-contained values
  (`leaf`, a tree as above) or references to other heap objects – the same object may be referenced from
  several places (sharing) and from below itself (a cycle).  `path` is the set of objects whose export is
  in progress: `path[obj] = struct{}{}` on entry, `defer delete(path, obj)` – i.e. it holds exactly the
  ANCESTORS of the value being exported.  Passing `a :: path` downwards and nothing back up is that discipline. -/

inductive HVal
  | leaf (j : JS)
  | ref (a : Nat)
deriving DecidableEq, Inhabited

inductive HNode
  | arr (es : List (Option HVal))               -- none = hole
  | obj (ps : List (List Nat × HVal))
deriving DecidableEq, Inhabited

abbrev Heap := List HNode

/-- reflect type id of `otto.Value` (a struct type) -/
def valueTypeId : Nat := 999
/-- the raw `otto.Value` of heap object `a`, as it appears inside an exported Go value -/
def rawValue (a : Nat) : GoVal := .strct valueTypeId (.cons [] (.sc false (.int .int a)) .nil)

def isUndefH : HVal → Bool
  | .leaf j => isUndef j
  | .ref _ => false

/-- the Array loop over present elements -/
def mapElems (f : HVal → Res GoVal) : List (Option HVal) → Res GoVals
  | [] => .ok .nil
  | none :: r => mapElems f r                                        -- holes are skipped
  | some v :: r => (f v).bind fun g => (mapElems f r).map fun gs => .cons g gs

/-- the Object enumeration, skipping undefined-valued properties -/
def mapProps (f : HVal → Res GoVal) : List (List Nat × HVal) → Res GoKVs
  | [] => .ok .nil
  | (k, v) :: r =>
    if isUndefH v then mapProps f r
    else (f v).bind fun g => (mapProps f r).map fun kvs => .cons k g kvs

/-- exportPath; `fuel` bounds the depth (any fuel > heap size is enough: the path never repeats an address) -/
def exportH (H : Heap) : Nat → List Nat → HVal → Res GoVal
  | _, _, .leaf j => exportV j
  | 0, _, .ref _ => .err
  | fuel + 1, path, .ref a =>
    if a ∈ path then .ok (rawValue a)                    -- `if _, cyclic := path[obj]; cyclic { return v }`
    else match H[a]? with
      | none => .err
      | some (.arr es) => (mapElems (exportH H fuel (a :: path)) es).bind finishArr
      | some (.obj ps) => (mapProps (exportH H fuel (a :: path)) ps).map fun kvs => .map .iface false kvs

/-! ### Value methods on what Get returns -/

/-- Value.float64 (value_number.go:46): no arm for a float32 payload -> panic(fmt.Errorf(..)),
    which catchPanic re-panics.  Objects (DefaultValue) are outside this model. -/
def valFloat (E : Env) : JS → Res FV
  | .prim v => .ok (toFloat E v)
  | .f32 _ => .panic
  | _ => .err

def int64Max : Int := 2^63 - 1
def int64Min : Int := -(2^63)

/-- Value.number().int64 on a float64 (value_number.go:176-215): 0 for ±0 and NaN; MaxInt64 when
    `float >= floatMaxInt64` (= 2^63 as a float64); MinInt64 when `float <= floatMinInt64`; else `int64(float)`.
    The comparison of a finite double with the integer ±2^63 is decided on its truncation
    (x ≥ 2^63 ⇔ trunc x ≥ 2^63), which keeps Base/F64's rational comparison out of the proofs. -/
def numberOfFloat (f : FV) : Int :=
  if isZero f then 0
  else match f with
    | .nan => 0
    | .inf s => if s then int64Min else int64Max
    | .fin .. =>
      if truncInt f ≥ 2^63 then int64Max
      else if truncInt f ≤ -(2^63) then int64Min
      else truncInt f                                 -- int64(float), in range here

/-- ToInteger = Value.number().int64 (value_number.go:149) -/
def valInteger (E : Env) : JS → Res Int
  | .prim (.int .i8 i) => .ok i
  | .prim (.int .i16 i) => .ok i
  | .prim (.int .u8 i) => .ok i
  | .prim (.int .u16 i) => .ok i
  | .prim (.int .u32 i) => .ok i
  | .prim (.int .int i) => .ok i
  | .prim (.int .i64 i) => .ok i
  | .prim (.int .i32 i) => .ok i
  | .prim (.int .uint i) => if i ≤ int64Max then .ok i else .ok (numberOfFloat (toFloat E (.int .uint i)))
  | .prim (.int .u64 i) => if i ≤ int64Max then .ok i else .ok (numberOfFloat (toFloat E (.int .u64 i)))
  | .prim v => .ok (numberOfFloat (toFloat E v))      -- everything else goes through float64
  | .f32 _ => .panic
  | _ => .err

/-- Value.bool (value_boolean.go:10) -/
def valBool : JS → Res Bool
  | .prim v => .ok (toBool v)
  | .f32 x => .ok (!(isZero x))             -- `value != 0` (NaN != 0 is true)
  | _ => .ok true

/-- decimal digits (strconv.FormatInt/FormatUint base 10) -/
def decStr (i : Int) : List Nat :=
  let ds := (Nat.toDigits 10 i.natAbs).map Char.toNat
  if i < 0 then 45 :: ds else ds

def sUndefined : List Nat := [117, 110, 100, 101, 102, 105, 110, 101, 100]
def sNull : List Nat := [110, 117, 108, 108]
def sTrue : List Nat := [116, 114, 117, 101]
def sFalse : List Nat := [102, 97, 108, 115, 101]
def sNaN : List Nat := [78, 97, 78]
def sInfinity : List Nat := [73, 110, 102, 105, 110, 105, 116, 121]

/-- is the finite value a whole number of magnitude < 2^53 (its shortest decimal form is its digits)? -/
def smallWhole : FV → Bool
  | .fin _ m e => isIntegral m e && decide (truncAbs m e < 2^53)
  | _ => false

/-- whole and below 2^24: also the shortest float32 digits are the integer's digits -/
def smallWhole32 : FV → Bool
  | .fin _ m e => isIntegral m e && decide (truncAbs m e < 2^24)
  | _ => false

/-- Value.string (value_string.go:51).  Finite non-whole (or huge) floats are C06's subject:
    here they are `none` (not requested by this property's generator). -/
def valString : JS → Res (Option (List Nat))
  | .prim .undef => .ok (some sUndefined)
  | .prim .null => .ok (some sNull)
  | .prim (.bool b) => .ok (some (if b then sTrue else sFalse))
  | .prim (.int _ i) => .ok (some (decStr i))
  | .prim (.str s) => .ok (some s)
  | .prim (.f64 x) =>
    if isZero x then .ok (some [48])                     -- "Take care not to return -0"
    else match x with
      | .nan => .ok (some sNaN)
      | .inf s => .ok (some (if s then 45 :: sInfinity else sInfinity))
      | .fin .. => if smallWhole x then .ok (some (decStr (truncInt x))) else .ok none
  | .f32 x =>                                            -- floatToString(float64(value), 32): float32 digits
    if isZero x then .ok (some [48])
    else match x with
      | .nan => .ok (some sNaN)
      | .inf s => .ok (some (if s then 45 :: sInfinity else sInfinity))
      | .fin .. => if smallWhole32 x then .ok (some (decStr (truncInt x))) else .ok none
  | _ => .err

/-- what a JSON text denotes, as far as this property looks: -/
inductive JTok
  | null
  | bool (b : Bool)
  | int (i : Int)            -- a number written by FormatInt (exact decimal integer)
  | num (x : FV)             -- a number written by the float encoder: the double it reads back as
  | str (us : List Nat)      -- a string: its UTF-16 code units after decoding the JSON text
deriving DecidableEq, Repr, Inhabited

/-- Value.MarshalJSON (value.go:969) on primitives: `json.Marshal(v.value)` for numbers and booleans
    (a float64 NaN/Inf is written as null, a zero as 0), `json.Marshal(v.string())` for strings
    (invalid UTF-8 becomes U+FFFD). -/
def valMarshal : JS → Res JTok
  | .prim .undef => .ok .null
  | .prim .null => .ok .null
  | .prim (.bool b) => .ok (.bool b)
  | .prim (.int _ i) => .ok (.int i)
  | .prim (.f64 x) => match x with
    | .fin s m e => if m = 0 then .ok (.num (.fin false 0 e)) else .ok (.num (.fin s m e))    -- `f == 0` -> "0"
    | _ => .ok .null                                       -- NaN, ±Inf -> "null"
  | .prim (.str s) => .ok (.str (OttoVerif.Str.unitsOfBytes s))
  | .f32 x => match x with
    | .fin .. => .ok (.num x)             -- float32 encoder: shortest float32 digits (reads back as x in float32)
    | _ => .err
  | _ => .err

/-! ### what a script sees -/

inductive TypeOf | undefined | object | boolean | number | string | function
deriving DecidableEq, Repr, Inhabited

/-- typeof (cmpl_evaluate_expression.go:409) -/
def typeofJS : JS → TypeOf
  | .prim .undef => .undefined
  | .prim .null => .object
  | .prim (.bool _) => .boolean
  | .prim (.int ..) => .number
  | .prim (.f64 _) => .number
  | .prim (.str _) => .string
  | .f32 _ => .number
  | _ => .object

/-- the primitive a script observes: number value (`x - 0`), string length and content, boolean
    (code-unit indexing is C09's subject) -/
inductive View
  | undefined | null
  | bool (b : Bool)
  | num (x : FV)
  | str (len : Nat) (bytes : List Nat)     -- x.length and the Go string of ''+x
  | object
deriving DecidableEq, Repr, Inhabited

def viewJS (E : Env) : JS → Res View
  | .prim .undef => .ok .undefined
  | .prim .null => .ok .null
  | .prim (.bool b) => .ok (.bool b)
  | .prim (.int k i) => .ok (.num (toFloat E (.int k i)))
  | .prim (.f64 x) => .ok (.num x)
  | .prim (.str s) => .ok (.str (OttoVerif.Str.unitsOfBytes s).length s)
  | .f32 _ => .panic                                  -- any arithmetic calls Value.float64
  | _ => .ok .object

/-! ### Value predicates (value.go:60-190) -/

structure Preds where
  isUndefined : Bool
  isDefined : Bool
  isNull : Bool
  isBoolean : Bool
  isNumber : Bool
  isString : Bool
  isObject : Bool
  isPrimitive : Bool
  isNaN : Bool
deriving DecidableEq, Repr, Inhabited

/-- Value.IsNaN (value.go:158): the type switch lists float64, float32, int/int8/int32/int64,
    uint/uint8/uint32/uint64; int16/uint16 and everything else fall to `math.IsNaN(v.float64())`. -/
def isNaNJS (E : Env) : JS → Res Bool
  | .prim (.f64 x) => .ok (isNaN x)
  | .f32 x => .ok (isNaN x)
  | .prim (.int .i16 i) => .ok (isNaN (toFloat E (.int .i16 i)))
  | .prim (.int .u16 i) => .ok (isNaN (toFloat E (.int .u16 i)))
  | .prim (.int _ _) => .ok false
  | .prim v => .ok (isNaN (toFloat E v))
  | _ => .err

def kindNum : JS → Nat     -- valueKind
  | .prim v => v.kind
  | .f32 _ => 2
  | _ => 5

def predsJS (E : Env) (j : JS) : Res Preds :=
  (isNaNJS E j).map fun n =>
    { isUndefined := kindNum j == 0, isDefined := kindNum j != 0, isNull := kindNum j == 1,
      isBoolean := kindNum j == 4, isNumber := kindNum j == 2, isString := kindNum j == 3,
      isObject := kindNum j == 5, isPrimitive := !(kindNum j == 5), isNaN := n }

/-! ### Value.Call / Object.Call / Otto.Call (value.go:101, otto.go:662, otto.go:536) -/

/-- the `this` handed to [[Call]]: the probe's own object, or a Value -/
inductive CallThis
  | self
  | val (j : JS)
  | fresh                                  -- [[Construct]]: a newly created object
deriving DecidableEq, Inhabited

/-- how the call is made through the Go API.  `member` = the callee is written `obj.probe` (else `probe`). -/
inductive Path
  | valueCall (this : Option GoVal)        -- fn.Call(this, args…): this = ToValue(g), or the object itself (none)
  | objectCall                             -- obj.Call("probe", args…)
  | ottoCallNil (member : Bool)            -- vm.Call(src, nil, args…)
  | ottoCallThis (member : Bool) (this : GoVal)   -- vm.Call(src, this, args…), this ≠ nil
  | ottoCallNew (this : Option GoVal)             -- vm.Call("new " + src, this, args…): "the this argument has no effect"
deriving DecidableEq, Inhabited

/-- the thisValue each path passes to function.call -/
def apiThis : Path → Res CallThis
  | .valueCall none => .ok .self
  | .valueCall (some g) => (toValue g).map .val
  | .objectCall => .ok .self                                   -- `function.Call(o.Value(), …)`
  | .ottoCallNil member => .ok (if member then .self else .val jsUndef)
      -- otto.go:551: `source()` is compiled and evaluated as a call expression, so `this` is the reference base
  | .ottoCallThis _ g => (toValue g).map .val                   -- otto.go:569 `o.ToValue(this)`, then fn.Call(val, …)
  | .ottoCallNew none => .ok .fresh                             -- fn.constructSafe: `this` is not used
  | .ottoCallNew (some g) => (toValue g).map fun _ => .fresh    -- ToValue(this) must still succeed

/-- what a function body observes as `this` -/
inductive ThisObs
  | global
  | self
  | boxed (v : View)       -- a wrapper object whose [[PrimitiveValue]] is v
  | instance               -- the object created by `new`
deriving DecidableEq, Repr, Inhabited

/-- enterFunctionScope (runtime.go:93): undefined/null -> the global object, else toObject(this) -/
def enterThis (E : Env) : CallThis → Res ThisObs
  | .self => .ok .self
  | .fresh => .ok .instance
  | .val (.prim .undef) => .ok .global
  | .val (.prim .null) => .ok .global
  | .val (.prim v) => (viewJS E (.prim v)).map .boxed
  | .val _ => .err                                            -- float32 payloads and objects: not covered here

def argViews (E : Env) : List GoVal → Res (List View)
  | [] => .ok []
  | g :: r => ((toValue g).bind (viewJS E)).bind fun v => (argViews E r).map fun vs => v :: vs

/-- observation of an API call: (this, arguments) as the callee sees them -/
def apiCall (E : Env) (p : Path) (args : List GoVal) : Res (ThisObs × List View) :=
  ((apiThis p).bind (enterThis E)).bind fun t => (argViews E args).map fun vs => (t, vs)

/-! #### callees with side effects that return or throw

  The probe function logs its `this`, bumps a counter and then leaves by one of four exits.  What the
  API paths contribute is HOW OFTEN and WITH WHAT the callee is invoked, and which outcome reaches the
  caller: every path invokes the callee exactly once – catchPanic turns an exception into the returned
  error, nothing is retried (otto.go:556-561 returns the error of the special `this == nil` path). -/

/-- the values the probe can throw (a fixed global value of each kind) -/
inductive ThrowKind
  | refProto      -- ReferenceError.prototype
  | errProto      -- Error.prototype
  | rangeErr      -- new RangeError('m')
  | emptyErr      -- new Error()
  | plainObj      -- ({a:1})
  | num | null | undef | bool | str          -- 5, null, undefined, true, 's'
  | fn            -- function f(){}
  | arr           -- [1,2]
  | created       -- Object.create(TypeError.prototype)
  | custom        -- an instance of a constructor whose prototype is an Error (name 'MyErr', message 'mm')
deriving DecidableEq, Repr, Inhabited

/-- the text of the error the caller gets: ToString of the thrown value (§15.11.4.4 for Error objects);
    spaces written as `_` -/
def ThrowKind.text : ThrowKind → String
  | .refProto => "ReferenceError" | .errProto => "Error" | .rangeErr => "RangeError:_m" | .emptyErr => "Error"
  | .plainObj => "[object_Object]" | .num => "5" | .null => "null" | .undef => "undefined" | .bool => "true"
  | .str => "s" | .fn => "function_f(){}" | .arr => "1,2" | .created => "TypeError" | .custom => "MyErr:_mm"

inductive Exit
  | throwKind (k : ThrowKind)   -- throw that value (every invocation)
  | ret              -- return a description of (this, arguments)
  | throwTypeError   -- throw new TypeError("t:" + this + ":" + count)
  | throwOnce        -- throw new Error(…) on the first invocation only, return afterwards
  | throwValue       -- throw the primitive string "s:" + this
deriving DecidableEq, Repr, Inhabited

inductive Outcome
  | ret (this : ThisObs) (args : List View)
  | retObject                                        -- `new`: the constructed object
  | throwErr (cls : String) (this : ThisObs) (n : Nat)
  | throwValue (this : ThisObs)
  | threw (text : String)                            -- an exception whose value converts to that text
deriving DecidableEq, Repr, Inhabited

def isNewPath : Path → Bool
  | .ottoCallNew _ => true
  | _ => false

/-- the probe's n-th invocation (n counted from 1) -/
def exitOf (b : Exit) (isNew : Bool) (n : Nat) (t : ThisObs) (vs : List View) : Outcome :=
  match b with
  | .throwKind k => .threw k.text
  | .ret => if isNew then .retObject else .ret t vs
  | .throwTypeError => .throwErr "TypeError" t n
  | .throwOnce => if n = 1 then .throwErr "Error" t n else (if isNew then .retObject else .ret t vs)
  | .throwValue => .throwValue t

/-- a run: the invocations the callee saw, in order, and the outcome handed to the caller -/
structure Run where
  invocations : List ThisObs
  outcome : Outcome
deriving DecidableEq, Repr, Inhabited

/-- one [[Call]]/[[Construct]]; its completion (normal or abrupt) is the result of the API call -/
def apiRun (E : Env) (p : Path) (b : Exit) (args : List GoVal) : Res Run :=
  (apiCall E p args).map fun (t, vs) => ⟨[t], exitOf b (isNewPath p) 1 t vs⟩

/-! ### re-entrant use of the API from a Go host function while a script is running

  `caller` is a JavaScript function that shadows the name used in `source` (by a var, a parameter, a catch
  binding or a with object) and calls a Go host function, which uses the API on the same runtime.
  Otto.Call and Otto.Run push a fresh GLOBAL scope (otto.go:545 `o.runtime.enterGlobalScope()`, unconditional;
  runtime.go cmplRunOrEval for Run), Otto.Eval keeps the current scope when there is one (otto.go:306), whose
  lexical environment chains to the caller's; Otto.Get reads the global stash; Object.Call reads a property. -/

inductive Shadow | none | var | param | catch | with
deriving DecidableEq, Repr, Inhabited

inductive Reentry
  | ottoCall        -- call.Otto.Call(src, nil, a)
  | ottoCallThis    -- call.Otto.Call(src, this, a)
  | ottoRun         -- call.Otto.Run(src + "(a)")
  | ottoEval        -- call.Otto.Eval(src + "(a)")
  | valueCall       -- v, _ := call.Otto.Get(name); v.Call(undefined, a)
  | objectCall      -- o, _ := call.Otto.Object("holder"); o.Call(name, a)
deriving DecidableEq, Repr, Inhabited

/-- which binding of the name the source resolves to -/
inductive Binding | global | local
deriving DecidableEq, Repr, Inhabited

def scopeIsGlobal : Reentry → Bool
  | .ottoEval => false        -- "without leaving the current scope (if there is one)"
  | _ => true

def reentryResolves (r : Reentry) (s : Shadow) : Binding :=
  if scopeIsGlobal r then .global
  else match s with
    | .none => .global
    | _ => .local

/-! ### Go-API edge cases (finite): what the entry points do with hostile or degenerate input -/

inductive ApiCase
  | runThrowToStringThrows      -- vm.Run("throw {toString:function(){throw 1}}")
  | runThrowUnconvertible       -- vm.Run("throw {toString:function(){return {}},valueOf:function(){return {}}}")
  | badIsNaN | badToString | badToInteger | badToFloat | badToBoolean | badString | badClass
                                -- the method on an object whose valueOf and toString throw RangeError
  | callerLocationNoScript      -- FunctionCall.CallerLocation() in a host function invoked by Value.Call, no script running
  | callerLocationScript        -- the same from `host()` in a script
  | setNilObject                -- vm.Set("x", prim.Object())  (a nil *Object)
  | toValueNilObject            -- vm.ToValue((*Object)(nil))
  | argNilObject                -- fn.Call(undefined, (*Object)(nil))
  | toValueNilValue             -- vm.ToValue((*Value)(nil))
  | marshalFunction             -- Value.MarshalJSON of a function
  | marshalObjectWithFunction   -- of {a:function(){},b:1}
  | marshalUndefined
  | callTwoStatements           -- vm.Call("f(); g", nil, 7)
  | callTwoStatementsThis       -- vm.Call("f(); g", 1, 7)
  | callExprStatement           -- vm.Call("g //", nil, 7)
  | runThrowToStringHostThrows  -- vm.Run("throw {toString: hostFn}"), hostFn does panic(vm.MakeTypeError("x"))
  | setZeroObject               -- vm.Set("zo", otto.Object{})
  | setPtrZeroObject            -- vm.Set("zo", &otto.Object{})
  | exportStringObject | exportNumberObject | exportFunction | exportDate
                                -- Export of new String("ab"), new Number(5), function(){}, new Date(0)
deriving DecidableEq, Repr, Inhabited

inductive ApiOut
  | goPanic
  | errPlain                    -- a non-nil error that is not an *otto.Error
  | errClass (cls : String)     -- *otto.Error of that class
  | text (s : String)           -- the result (rendered)
deriving DecidableEq, Repr, Inhabited

/-- the code (error.go catchPanic, value.go IsNaN/toValue, type_function.go CallerLocation,
    otto.go Object.MarshalJSON and Otto.Call) -/
def apiModel : ApiCase → ApiOut
  | .runThrowToStringThrows => .errPlain      -- catchPanic keeps the second exception inside: errors.New("[object Object]")
  | .runThrowUnconvertible => .errPlain
  | .badIsNaN => .text "false"                -- catchPanic around the conversion; result stays false
  | .badToString => .errClass "RangeError"
  | .badToInteger => .errClass "RangeError"
  | .badToFloat => .errClass "RangeError"
  | .badToBoolean => .text "true"
  | .badString => .text ""
  | .badClass => .text "Object"
  | .callerLocationNoScript => .text "<unknown>"   -- scope.outer == nil: frame{}.location()
  | .callerLocationScript => .text "<anonymous>:1:1"
  | .setNilObject => .text "undefined"        -- toValue: `case *Object: if value == nil { return Value{} }`
  | .toValueNilObject => .text "undefined"
  | .argNilObject => .text "undefined"
  | .toValueNilValue => .text "undefined"
  | .marshalFunction => .text "null"          -- JSON.stringify gave undefined -> "null"
  | .marshalObjectWithFunction => .text "{\"b\":1}"
  | .marshalUndefined => .text "null"
  | .callTwoStatements => .text "G/fundefined,g7"   -- len(program.body) != 1: general path
  | .callTwoStatementsThis => .text "G/fundefined,g7"
  | .callExprStatement => .text "G/g7"
  | .runThrowToStringHostThrows => .errPlain  -- the inner recover keeps *exception, *Error, ottoError and Value panics inside
  | .setZeroObject => .text "undefined"       -- toValue: an Object whose inner pointer is nil is undefined
  | .setPtrZeroObject => .text "undefined"
  | .exportStringObject => .text "O(,30,s:61,31,s:62)"   -- "Object -> map[string]interface{}" of the own enumerable properties
  | .exportNumberObject => .text "O()"
  | .exportFunction => .text "O()"
  | .exportDate => .text "O()"

/-! ### arithmetic on Go values set into the runtime: `vm.Set("a", g1); vm.Set("b", g2); vm.Run("a op b")`
    (evaluate.go calculateBinaryExpression, modelled in C05.binNum) read back with Export / ToFloat / ToString -/

def primOf : JS → Option Val
  | .prim v => some v
  | _ => none

/-- the Value `a op b` evaluates to, for non-string primitives -/
def arith (E : Env) (op : OttoVerif.C05.BinOp) (g1 g2 : GoVal) : Res Val :=
  (toValue g1).bind fun j1 => (toValue g2).bind fun j2 =>
    match primOf j1, primOf j2 with
    | some x, some y => .ok (OttoVerif.C05.binNum E op x y)
    | _, _ => .err

/-! ### Copy(): a host function running on a copy gets the copy as FunctionCall.Otto
    (otto.go Copy: `out.runtime.otto = out`; type_function.go: `Otto: rt.otto`) -/
inductive Runtime | template | copy
deriving DecidableEq, Repr, Inhabited

def hostOttoOnCopy : Reentry → Runtime
  | _ => .copy

end OttoVerif.C15
