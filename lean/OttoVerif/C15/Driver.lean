/-
  C15/Driver — line protocol front end (core-only).
  request:  go <op> <GoVal>  |  js <op> <JS>  |  call <path> <this> <nargs>      reply:  <model> <spec> <dev>

  GoVal ::= nil | b:0|1 | <kind>:<int> | f32:<16hex> | f64:<16hex> | s:<hex bytes>      (kind = i8..u64,int,uint)
          | N(<scalar>)                 a defined type over the same basic type
          | P(<GoVal>) | Z(<GT>)        pointer / nil pointer of type *GT
          | L(<GT>,<0|1 nil>{,<GoVal>}) | M(<GT>,<0|1>{,<hexkey>,<GoVal>}) | S(<id>{,<hexkey>,<GoVal>})
  GT    ::= I | b | <kind> | f32 | f64 | s | N(<basic>) | L(<GT>) | M(<GT>) | P(<GT>) | S(<id>)
  JS    ::= u | n | <scalar as above> | G(<GoVal>)  (what Set stores for it) | A({<JS>|H,}) | O({<hexkey>,<JS>,})
  Maps are printed with keys sorted (Go map order never reaches a token).
-/
import OttoVerif.Base.Proto
import OttoVerif.Base.ParseNumber
import OttoVerif.C15.Spec
namespace OttoVerif.C15.Driver
open OttoVerif.F64 OttoVerif.Proto OttoVerif.C15
open OttoVerif.C05 (NK Val Env)

def env : Env := { pn := OttoVerif.PN.parseNumber }

/-! ### tokenizer -/

def isPunct (c : Char) : Bool := c = '(' || c = ')' || c = ','

def lexAux : List Char → List Char → List String → List String
  | [], cur, acc => (if cur.isEmpty then acc else String.ofList cur.reverse :: acc).reverse
  | c :: r, cur, acc =>
    if isPunct c then
      let acc := if cur.isEmpty then acc else String.ofList cur.reverse :: acc
      lexAux r [] (String.singleton c :: acc)
    else lexAux r (c :: cur) acc

def lex (s : String) : List String := lexAux s.toList [] []

/-! ### parsers (fuel = number of tokens) -/

def nk? : String → Option NK
  | "i8" => some .i8 | "i16" => some .i16 | "i32" => some .i32 | "i64" => some .i64 | "int" => some .int
  | "u8" => some .u8 | "u16" => some .u16 | "u32" => some .u32 | "u64" => some .u64 | "uint" => some .uint
  | _ => none

def nkOut : NK → String
  | .i8 => "i8" | .i16 => "i16" | .i32 => "i32" | .i64 => "i64" | .int => "int"
  | .u8 => "u8" | .u16 => "u16" | .u32 => "u32" | .u64 => "u64" | .uint => "uint"

def bt? (s : String) : Option BT :=
  match s with
  | "b" => some .bool | "f32" => some .f32 | "f64" => some .f64 | "s" => some .str
  | _ => (nk? s).map .num

def btOut : BT → String
  | .bool => "b" | .f32 => "f32" | .f64 => "f64" | .str => "s" | .num k => nkOut k

/-- map / property keys: hex of the bytes, `_` for the empty key -/
def key? (k : String) : Option (List Nat) := if k = "_" then some [] else bytes? k
def keyOut (k : List Nat) : String := if k.isEmpty then "_" else bytesOut k

def sc? (t : String) : Option Sc :=
  match t.splitOn ":" with
  | ["b", "0"] => some (.bool false)
  | ["b", "1"] => some (.bool true)
  | ["f32", h] => (f64? h).map .f32
  | ["f64", h] => (f64? h).map .f64
  | ["s", h] => (bytes? h).map .str
  | [k, i] => do let k ← nk? k; let i ← int? i; pure (.int k i)
  | _ => none

def parseT : Nat → List String → Option (GT × List String)
  | 0, _ => none
  | _ + 1, "I" :: r => some (.iface, r)
  | _ + 1, "N" :: "(" :: a :: ")" :: r => (bt? a).map fun b => (.sc true b, r)
  | f + 1, "L" :: "(" :: r => match parseT f r with
    | some (t, ")" :: r) => some (.slice t, r)
    | _ => none
  | f + 1, "M" :: "(" :: r => match parseT f r with
    | some (t, ")" :: r) => some (.map t, r)
    | _ => none
  | f + 1, "P" :: "(" :: r => match parseT f r with
    | some (t, ")" :: r) => some (.ptr t, r)
    | _ => none
  | _ + 1, "S" :: "(" :: a :: ")" :: r => a.toNat?.map fun n => (.strct n, r)
  | _ + 1, a :: r => (bt? a).map fun b => (.sc false b, r)
  | _ + 1, [] => none

mutual
def parseG : Nat → List String → Option (GoVal × List String)
  | 0, _ => none
  | _ + 1, "nil" :: r => some (.nil, r)
  | _ + 1, "N" :: "(" :: a :: ")" :: r => (sc? a).map fun s => (.sc true s, r)
  | f + 1, "P" :: "(" :: r => match parseG f r with
    | some (g, ")" :: r) => some (.ptr g, r)
    | _ => none
  | f + 1, "Z" :: "(" :: r => match parseT f r with
    | some (t, ")" :: r) => some (.nilptr t, r)
    | _ => none
  | f + 1, "L" :: "(" :: r => match parseT f r with
    | some (t, "," :: n :: r) => match parseGs f r with
      | some (es, r) => some (.slice t (n == "1") es, r)
      | none => none
    | _ => none
  | f + 1, "M" :: "(" :: r => match parseT f r with
    | some (t, "," :: n :: r) => match parseKVs f r with
      | some (kvs, r) => some (.map t (n == "1") kvs, r)
      | none => none
    | _ => none
  | f + 1, "S" :: "(" :: a :: r => match a.toNat?, parseKVs f r with
    | some id, some (kvs, r) => some (.strct id kvs, r)
    | _, _ => none
  | _ + 1, a :: r => (sc? a).map fun s => (.sc false s, r)
  | _ + 1, [] => none
/-- `{,<GoVal>}` up to the closing parenthesis -/
def parseGs : Nat → List String → Option (GoVals × List String)
  | 0, _ => none
  | _ + 1, ")" :: r => some (.nil, r)
  | f + 1, "," :: r => match parseG f r with
    | some (g, r) => match parseGs f r with
      | some (gs, r) => some (.cons g gs, r)
      | none => none
    | none => none
  | _ + 1, _ => none
def parseKVs : Nat → List String → Option (GoKVs × List String)
  | 0, _ => none
  | _ + 1, ")" :: r => some (.nil, r)
  | f + 1, "," :: k :: "," :: r => match key? k, parseG f r with
    | some k, some (g, r) => match parseKVs f r with
      | some (kvs, r) => some (.cons k g kvs, r)
      | none => none
    | _, _ => none
  | _ + 1, _ => none
end

def goVal? (s : String) : Option GoVal :=
  let ts := lex s
  match parseG (ts.length + 1) ts with
  | some (g, []) => some g
  | _ => none

def prim? (t : String) : Option Val :=
  if t = "u" then some .undef
  else if t = "n" then some .null
  else match sc? t with
    | some (.bool b) => some (.bool b)
    | some (.int k i) => some (.int k i)
    | some (.f64 x) => some (.f64 x)
    | some (.str s) => some (.str s)
    | _ => none

mutual
def parseJ : Nat → List String → Option (JS × List String)
  | 0, _ => none
  | f + 1, "G" :: "(" :: r => match parseG f r with
    | some (g, ")" :: r) => match toValue g with
      | .ok j => some (j, r)
      | _ => none
    | _ => none
  | f + 1, "A" :: "(" :: r => match parseJs f r with
    | some (es, r) => some (.arr es, r)
    | none => none
  | f + 1, "O" :: "(" :: r => match parseJProps f r with
    | some (ps, r) => some (.obj ps, r)
    | none => none
  | _ + 1, a :: r => (prim? a).map fun v => (.prim v, r)
  | _ + 1, [] => none
/-- `{<JS>|H ,}` up to the closing parenthesis (every element is followed by a comma) -/
def parseJs : Nat → List String → Option (JSElems × List String)
  | 0, _ => none
  | _ + 1, ")" :: r => some (.nil, r)
  | f + 1, "H" :: "," :: r => match parseJs f r with
    | some (es, r) => some (.hole es, r)
    | none => none
  | f + 1, r => match parseJ f r with
    | some (v, "," :: r) => match parseJs f r with
      | some (es, r) => some (.cons v es, r)
      | none => none
    | _ => none
def parseJProps : Nat → List String → Option (JSProps × List String)
  | 0, _ => none
  | _ + 1, ")" :: r => some (.nil, r)
  | f + 1, k :: "," :: r => match key? k, parseJ f r with
    | some k, some (v, "," :: r) => match parseJProps f r with
      | some (ps, r) => some (.cons k v ps, r)
      | none => none
    | _, _ => none
  | _ + 1, _ => none
end

def js? (s : String) : Option JS :=
  let ts := lex s
  match parseJ (ts.length + 1) ts with
  | some (j, []) => some j
  | _ => none

/-! ### printers -/

def bytesLt : List Nat → List Nat → Bool
  | [], [] => false
  | [], _ :: _ => true
  | _ :: _, [] => false
  | a :: as, b :: bs => if a < b then true else if a > b then false else bytesLt as bs

def insertKV (k : List Nat) (v : String) : List (List Nat × String) → List (List Nat × String)
  | [] => [(k, v)]
  | (k', v') :: r => if bytesLt k k' then (k, v) :: (k', v') :: r else (k', v') :: insertKV k v r

def joinKVs (l : List (List Nat × String)) : String :=
  String.join (l.map fun (k, v) => "," ++ keyOut k ++ "," ++ v)

def gtOut : GT → String
  | .iface => "I"
  | .sc false b => btOut b
  | .sc true b => "N(" ++ btOut b ++ ")"
  | .slice t => "L(" ++ gtOut t ++ ")"
  | .map t => "M(" ++ gtOut t ++ ")"
  | .ptr t => "P(" ++ gtOut t ++ ")"
  | .strct id => "S(" ++ toString id ++ ")"

def scOut : Sc → String
  | .bool b => if b then "b:1" else "b:0"
  | .int k i => nkOut k ++ ":" ++ toString i
  | .f32 x => "f32:" ++ f64Out x
  | .f64 x => "f64:" ++ f64Out x
  | .str s => "s:" ++ bytesOut s

mutual
def goOut : GoVal → String
  | .nil => "nil"
  | .sc false s => scOut s
  | .sc true s => "N(" ++ scOut s ++ ")"
  | .ptr g => "P(" ++ goOut g ++ ")"
  | .nilptr t => "Z(" ++ gtOut t ++ ")"
  | .slice t n es => "L(" ++ gtOut t ++ "," ++ (if n then "1" else "0") ++ gosOut es ++ ")"
  | .map t n kvs => "M(" ++ gtOut t ++ "," ++ (if n then "1" else "0") ++ joinKVs (kvsOut kvs) ++ ")"
  | .strct id fs => "S(" ++ toString id ++ joinKVs (kvsOut fs) ++ ")"
def gosOut : GoVals → String
  | .nil => ""
  | .cons g r => "," ++ goOut g ++ gosOut r
def kvsOut : GoKVs → List (List Nat × String)
  | .nil => []
  | .cons k g r => insertKV k (goOut g) (kvsOut r)
end

open Spec in
mutual
def treeOut : Tree → String
  | .null => "z"
  | .bool b => if b then "t" else "f"
  | .num x => "n:" ++ f64Out x
  | .str s => "s:" ++ bytesOut s
  | .arr es => "A(" ++ treesOut es ++ ")"
  | .obj kvs => "O(" ++ joinKVs (tkvsOut kvs) ++ ")"
def treesOut : Trees → String
  | .nil => ""
  | .cons t r => treeOut t ++ "," ++ treesOut r
def tkvsOut : TreeKVs → List (List Nat × String)
  | .nil => []
  | .cons k t r => insertKV k (treeOut t) (tkvsOut r)
end

def resOut {α} (f : α → String) : Res α → String
  | .ok a => f a
  | .typeError => "throw:TypeError"
  | .panic => "panic"
  | .err => "err"

def boolOut (b : Bool) : String := if b then "true" else "false"

def optStrOut : Option (List Nat) → String
  | some s => "s:" ++ bytesOut s
  | none => "unmodelled"

def jtokOut : JTok → String
  | .null => "null"
  | .bool b => boolOut b
  | .int i => "i:" ++ toString i
  | .num x => "n:" ++ f64Out x
  | .str us => "s:" ++ unitsOut us

def typeofOut : TypeOf → String
  | .undefined => "undefined" | .object => "object" | .boolean => "boolean"
  | .number => "number" | .string => "string" | .function => "function"

def viewOut : View → String
  | .undefined => "undefined" | .null => "null"
  | .bool b => "b:" ++ (if b then "1" else "0")
  | .num x => "n:" ++ f64Out x
  | .str n bs => "s:" ++ toString n ++ ":" ++ bytesOut bs
  | .object => "object"

def predsOut (p : Preds) : String :=
  let b (x : Bool) := if x then "1" else "0"
  b p.isUndefined ++ b p.isDefined ++ b p.isNull ++ b p.isBoolean ++ b p.isNumber ++ b p.isString ++
    b p.isObject ++ b p.isPrimitive ++ b p.isNaN

/-! ### deviation regions -/

def devList (l : List (Bool × String)) : String :=
  match (l.filter (·.1)).map (·.2) with
  | [] => "-"
  | ds => ",".intercalate ds

open Spec.Dev in
def devGo (op : String) (g : GoVal) : String :=
  match op with
  | "export" => devList [(rejectedPtr g, "pointer_to_container_rejected"), (derefPtr g, "pointer_deref"),
                         (isNamed g, "named_type_erased"), (isPlainF32 g, "float32_widened")]
  | _ => devList [(rejectedPtr g, "pointer_to_container_rejected")]

def reply (m s dev : String) : String := m ++ " " ++ s ++ " " ++ dev

def goOp (op : String) (g : GoVal) : Option String :=
  let st := toValue g
  match op with
  | "export" => some (reply (resOut goOut (st.bind exportV)) (resOut goOut (Spec.roundtrip g)) (devGo op g))
  | "toInteger" => some (reply (resOut toString (st.bind (valInteger env))) (resOut toString (Spec.toInteger env g)) (devGo op g))
  | "toFloat" => some (reply (resOut f64Out (st.bind (valFloat env))) (resOut f64Out (Spec.toFloat env g)) (devGo op g))
  | "toBoolean" => some (reply (resOut boolOut (st.bind valBool)) (resOut boolOut (Spec.toBoolean g)) (devGo op g))
  | "toString" => some (reply (resOut optStrOut (st.bind valString)) (resOut optStrOut (Spec.toStringG g)) (devGo op g))
  | "marshal" => some (reply (resOut jtokOut (st.bind valMarshal)) (resOut jtokOut (Spec.marshal g)) (devGo op g))
  | "view" =>
    let m := st.bind fun j => (viewJS env j).map fun v => typeofOut (typeofJS j) ++ "/" ++ viewOut v
    let s := (Spec.typeofG g).bind fun t => (Spec.view env g).map fun v => typeofOut t ++ "/" ++ viewOut v
    some (reply (resOut id m) (resOut id s) (devGo op g))
  | _ => none

open Spec.Dev in
def jsOp (op : String) (j : JS) : Option String :=
  match op with
  | "export" =>      -- structure only
    some (reply (resOut treeOut ((exportV j).map (Spec.erase env))) (resOut treeOut (Spec.exportTree env j))
      (devList [(hasHole j, "export_array_hole")]))
  | "exportT" =>     -- with Go types; the documented typing is []interface{} / map[string]interface{}
    some (reply (resOut goOut (exportV j)) (resOut goOut (Spec.exportDoc j)) (devList [(hasHole j, "export_array_hole"), (typedArr j, "export_array_typed")]))
  | "preds" =>
    some (reply (resOut predsOut (predsJS env j)) (resOut predsOut (Spec.preds env j)) "-")
  | "typeof" =>
    some (reply (typeofOut (typeofJS j)) (typeofOut (Spec.typeofJS j)) "-")
  | _ => none

/-! ### heap graphs:  `jsh export <root> <node0>;<node1>;…`   node ::= A({<HVal>|H ,}) | O({<key>,<HVal>,})   HVal ::= R<addr> | <JS> -/

def ref? (t : String) : Option Nat :=
  if t.startsWith "R" then (t.drop 1).toNat? else none

def parseHElems : Nat → List String → Option (List (Option HVal) × List String)
  | 0, _ => none
  | _ + 1, ")" :: r => some ([], r)
  | f + 1, "H" :: "," :: r => (parseHElems f r).map fun (es, r) => (none :: es, r)
  | f + 1, t :: r =>
    match ref? t, r with
    | some a, "," :: r => (parseHElems f r).map fun (es, r) => (some (.ref a) :: es, r)
    | _, _ => match parseJ (f + 1) (t :: r) with
      | some (j, "," :: r) => (parseHElems f r).map fun (es, r) => (some (.leaf j) :: es, r)
      | _ => none
  | _ + 1, [] => none

def parseHProps : Nat → List String → Option (List (List Nat × HVal) × List String)
  | 0, _ => none
  | _ + 1, ")" :: r => some ([], r)
  | f + 1, k :: "," :: t :: r =>
    match key? k with
    | none => none
    | some k =>
      match ref? t, r with
      | some a, "," :: r => (parseHProps f r).map fun (ps, r) => ((k, .ref a) :: ps, r)
      | _, _ => match parseJ (f + 1) (t :: r) with
        | some (j, "," :: r) => (parseHProps f r).map fun (ps, r) => ((k, .leaf j) :: ps, r)
        | _ => none
  | _ + 1, _ => none

def node? (s : String) : Option HNode :=
  let ts := lex s
  match ts with
  | "A" :: "(" :: r => match parseHElems (ts.length + 1) r with
    | some (es, []) => some (.arr es)
    | _ => none
  | "O" :: "(" :: r => match parseHProps (ts.length + 1) r with
    | some (ps, []) => some (.obj ps)
    | _ => none
  | _ => none

def heap? (s : String) : Option Heap :=
  if s = "-" then some [] else
  (s.splitOn ";").foldr (fun n acc => match node? n, acc with
    | some x, some l => some (x :: l)
    | _, _ => none) (some [])

def hval? (t : String) : Option HVal :=
  match ref? t with
  | some a => some (.ref a)
  | none => (js? t).map .leaf

open Spec.Dev in
def jshOp (op : String) (H : Heap) (v : HVal) : Option String :=
  match op with
  | "export" =>
    let m := exportH H (H.length + 1) [] v
    some (reply (resOut treeOut (m.map (Spec.erase env))) (resOut treeOut (Spec.exportGraph env H v))
      (devList [(heapHole H v, "export_array_hole")]))
  | _ => none

/-! ### re-entrant calls and API edge cases -/

def shadow? : String → Option Shadow
  | "none" => some .none | "var" => some .var | "param" => some .param | "catch" => some .catch | "with" => some .with
  | _ => none

def reentry? : String → Option Reentry
  | "ottoCall" => some .ottoCall | "ottoCallThis" => some .ottoCallThis | "ottoRun" => some .ottoRun
  | "ottoEval" => some .ottoEval | "valueCall" => some .valueCall | "objectCall" => some .objectCall | _ => none

def bindingOut : Binding → String | .global => "global" | .local => "local"

def apiCase? : String → Option ApiCase
  | "runThrowToStringThrows" => some .runThrowToStringThrows | "runThrowUnconvertible" => some .runThrowUnconvertible
  | "badIsNaN" => some .badIsNaN | "badToString" => some .badToString | "badToInteger" => some .badToInteger
  | "badToFloat" => some .badToFloat | "badToBoolean" => some .badToBoolean | "badString" => some .badString
  | "badClass" => some .badClass | "callerLocationNoScript" => some .callerLocationNoScript
  | "callerLocationScript" => some .callerLocationScript | "setNilObject" => some .setNilObject
  | "toValueNilObject" => some .toValueNilObject | "argNilObject" => some .argNilObject
  | "toValueNilValue" => some .toValueNilValue | "marshalFunction" => some .marshalFunction
  | "marshalObjectWithFunction" => some .marshalObjectWithFunction | "marshalUndefined" => some .marshalUndefined
  | "callTwoStatements" => some .callTwoStatements | "callTwoStatementsThis" => some .callTwoStatementsThis
  | "callExprStatement" => some .callExprStatement
  | "runThrowToStringHostThrows" => some .runThrowToStringHostThrows | "setZeroObject" => some .setZeroObject
  | "setPtrZeroObject" => some .setPtrZeroObject | "exportStringObject" => some .exportStringObject
  | "exportNumberObject" => some .exportNumberObject | "exportFunction" => some .exportFunction
  | "exportDate" => some .exportDate | _ => none

def apiOutTok : ApiOut → String
  | .goPanic => "panic"
  | .errPlain => "err"
  | .errClass c => "throw:" ++ c
  | .text s => "t:" ++ bytesOut (OttoVerif.Str.ofString s)

/-! ### calls -/

def asciiOut (bs : List Nat) : String := String.ofList (bs.map Char.ofNat)

/-- what the probe function prints for a value: typeof + ":" + String(x) (strings in hex) -/
def obsView : View → String
  | .undefined => "undefined:undefined"
  | .null => "object:null"
  | .bool b => "boolean:" ++ boolOut b
  | .num x => "number:" ++ (match Spec.numToString x with | some d => asciiOut d | none => "unmodelled")
  | .str _ bs => "string:" ++ bytesOut bs
  | .object => "object:object"

def obsThis : ThisObs → String
  | .global => "global"
  | .self => "self"
  | .boxed v => "boxed:" ++ obsView v
  | .instance => "instance"

def obsCall (o : ThisObs × List View) : String := obsThis o.1 ++ "|" ++ ";".intercalate (o.2.map obsView)

def goVals? : List String → Option (List GoVal)
  | [] => some []
  | a :: r => do let g ← goVal? a; let gs ← goVals? r; pure (g :: gs)

def path? (kind mem this : String) : Option Path :=
  let m := mem == "m"
  match kind with
  | "vcall" => if this = "self" then some (.valueCall none) else (goVal? this).map fun g => .valueCall (some g)
  | "ocall" => some .objectCall
  | "gcall" => some (.ottoCallNil m)
  | "gcallT" => (goVal? this).map fun g => .ottoCallThis m g
  | "gnew" => if this = "-" then some (.ottoCallNew none) else (goVal? this).map fun g => .ottoCallNew (some g)
  | _ => none

def arithOp? : String → Option OttoVerif.C05.BinOp
  | "add" => some .add | "sub" => some .sub | "mul" => some .mul | "div" => some .div | "rem" => some .rem | _ => none

def throwKind? : String → Option ThrowKind
  | "refProto" => some .refProto | "errProto" => some .errProto | "rangeErr" => some .rangeErr | "emptyErr" => some .emptyErr
  | "plainObj" => some .plainObj | "num" => some .num | "null" => some .null | "undef" => some .undef | "bool" => some .bool
  | "str" => some .str | "fn" => some .fn | "arr" => some .arr | "created" => some .created | "custom" => some .custom
  | _ => none

def exit? : String → Option Exit
  | "ret" => some .ret | "throwTypeError" => some .throwTypeError
  | "throwOnce" => some .throwOnce | "throwValue" => some .throwValue
  | s => match s.splitOn ":" with
    | ["throw", k] => (throwKind? k).map .throwKind
    | _ => none

def obsArgs (vs : List View) : String := ";".intercalate (vs.map obsView)

def obsOutcome : Outcome → String
  | .ret t vs => "ret:" ++ obsThis t ++ "|" ++ obsArgs vs
  | .retObject => "ret:object"
  | .throwErr cls t n => "throw:" ++ cls ++ ":t:" ++ obsThis t ++ ":" ++ toString n
  | .throwValue t => "throw:value:s:" ++ obsThis t
  | .threw text => "threw:" ++ text

/-- outcome / number of invocations / the `this` of each invocation -/
def obsRun (r : Run) : String :=
  obsOutcome r.outcome ++ "/" ++ toString r.invocations.length ++ "/" ++ ",".intercalate (r.invocations.map obsThis)

def callxOp (p : Path) (b : Exit) (args : List GoVal) : String :=
  let lang := resOut obsRun (Spec.langRun env p b args)
  reply (resOut obsRun (apiRun env p b args) ++ "#" ++ lang) (lang ++ "#" ++ lang) "-"

def callOp (p : Path) (args : List GoVal) : String :=
  let lang := resOut obsCall (Spec.langCall env p args)
  reply (resOut obsCall (apiCall env p args) ++ "#" ++ lang) (lang ++ "#" ++ lang) "-"

def handle (ws : List String) : String :=
  match ws with
  | ["go", op, a] => match goVal? a with
    | some g => (goOp op g).getD "bad-op"
    | none => "bad-op"
  | ["js", op, a] => match js? a with
    | some j => (jsOp op j).getD "bad-op"
    | none => "bad-op"
  | ["jsh", op, root, heap] => match hval? root, heap? heap with
    | some v, some H => (jshOp op H v).getD "bad-op"
    | _, _ => "bad-op"
  | ["reent", r, sh, _member, _depth] => match reentry? r, shadow? sh with
    | some r, some sh =>
      let sp := bindingOut (Spec.reentryResolves r sh)
      reply (bindingOut (reentryResolves r sh) ++ "#" ++ sp) (sp ++ "#" ++ sp) "-"
    | _, _ => "bad-op"
  | ["arith", o, a, b] => match arithOp? o, goVal? a, goVal? b with
    | some o, some g1, some g2 =>
      let out (r : Res Val) : String := resOut (fun v =>
        resOut goOut (exportV (.prim v)) ++ "/" ++
        resOut f64Out (valFloat env (.prim v)) ++ "/" ++ resOut optStrOut (valString (.prim v))) r
      reply (out (arith env o g1 g2)) (out (Spec.arith env o g1 g2)) "-"
    | _, _, _ => "bad-op"
  | ["reentcopy", r] => match reentry? r with
    | some r =>
      let f : Runtime → String := fun x => match x with | .template => "template" | .copy => "copy"
      reply (f (hostOttoOnCopy r)) (f (Spec.hostOttoOnCopy r)) "-"
    | none => "bad-op"
  | ["api", c] => match apiCase? c with
    | some c => reply (apiOutTok (apiModel c)) (apiOutTok (Spec.apiSpec c)) "-"
    | none => "bad-op"
  | "callx" :: kind :: mem :: this :: ex :: args => match path? kind mem this, exit? ex, goVals? args with
    | some p, some b, some gs => callxOp p b gs
    | _, _, _ => "bad-op"
  | "call" :: kind :: mem :: this :: args => match path? kind mem this, goVals? args with
    | some p, some gs => callOp p gs
    | _, _ => "bad-op"
  | _ => "bad-op"

end OttoVerif.C15.Driver
