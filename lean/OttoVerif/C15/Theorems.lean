/-  C15/Theorems — the ledger for property C15 (every theorem here is audited).  Placeholder. -/
namespace OttoVerif.C15.Thm
end OttoVerif.C15.Thm
