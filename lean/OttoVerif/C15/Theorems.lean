/-
  C15/Theorems — the ledger for property C15.  Every `theorem` in this file is audited
  (`#print axioms` ⊆ {propext, Classical.choice, Quot.sound}) on every run.

  Part A  Go -> JavaScript -> Go on scalars, pointers and containers (Set / Get / Export / To* / MarshalJSON)
  Part B  JavaScript -> Go: predicates, and `export` of JSON-like data (structure, Go typing, panic)
  Part B' `exportPath` on object graphs: sharing is invisible (acyclic), the cut is exactly at a back edge (cyclic)
  Part C  Value.Call / Object.Call / Otto.Call against the equivalent in-language call
  Each deviation region used by the driver (Spec.Dev) has a kernel-checked witness at the end.
-/
import OttoVerif.C15.Spec
namespace OttoVerif.C15.Thm
open OttoVerif.F64 OttoVerif.C15
open OttoVerif.C05 (NK Val Env)

/-- what Set; Get; Export computes -/
def roundtrip (g : GoVal) : Res GoVal := (toValue g).bind exportV

/-! ## Part A -/

/-- Scalars of every basic type except float32 come back identical (same dynamic type, same value);
    so does the nil interface. -/
theorem roundtrip_scalar (s : Sc) (h : s.bt ≠ .f32) : roundtrip (.sc false s) = .ok (.sc false s) := by
  cases s <;> first | rfl | (simp [Sc.bt] at h)

theorem roundtrip_nil : roundtrip .nil = .ok .nil := rfl

/-- float32 comes back as the float64 of the same value (widened – value.go:293, and :345 for defined types). -/
theorem roundtrip_float32 (x : FV) : roundtrip (.sc false (.f32 x)) = .ok (.sc false (.f64 x)) := rfl

/-- Slices, maps, structs and pointers to structs of ANY element type, nesting depth and content come
    back identical – `export` returns the bridged Go value itself (value.go:632-641). -/
theorem roundtrip_container (g : GoVal)
    (h : (∃ t n es, g = .slice t n es) ∨ (∃ t n kvs, g = .map t n kvs) ∨ (∃ id fs, g = .strct id fs) ∨
         (∃ id fs, g = .ptr (.strct id fs))) :
    roundtrip g = .ok g := by
  rcases h with ⟨t, n, es, rfl⟩ | ⟨t, n, kvs, rfl⟩ | ⟨id, fs, rfl⟩ | ⟨id, fs, rfl⟩ <;> rfl

/-- the pointer-chasing loop stores the pointee's scalar (or undefined for a nil pointer) and the
    exported value is structurally the pointee -/
theorem deref_value (E : Env) : (g : GoVal) → (j : JS) → derefToValue g = .ok j →
    ∃ g', exportV j = .ok g' ∧ Spec.erase E g' = Spec.erase E g
  | .nil, j, h => by simp [derefToValue] at h
  | .sc n s, j, h => by
    simp only [derefToValue, Res.ok.injEq] at h; subst h
    cases s <;> exact ⟨_, rfl, rfl⟩
  | .ptr g, j, h => by
    simp only [derefToValue] at h
    obtain ⟨g', h1, h2⟩ := deref_value E g j h
    exact ⟨g', h1, by simpa [Spec.erase] using h2⟩
  | .nilptr t, j, h => by
    simp only [derefToValue, Res.ok.injEq] at h; subst h
    exact ⟨.nil, rfl, rfl⟩
  | .slice t n es, j, h => by simp [derefToValue] at h
  | .map t n kvs, j, h => by simp [derefToValue] at h
  | .strct id fs, j, h => by simp [derefToValue] at h

/-- Whatever Set accepts comes back with the same VALUE (structure with static types forgotten):
    defined types lose their name, pointers to scalars are replaced by the pointee, float32 is widened,
    but no value is ever altered.  (Set rejects exactly `Dev.rejectedPtr`.) -/
theorem roundtrip_value_preserved (E : Env) (g : GoVal) (j : JS) (h : toValue g = .ok j) :
    ∃ g', exportV j = .ok g' ∧ Spec.erase E g' = Spec.erase E g := by
  cases g with
  | nil => simp only [toValue, Res.ok.injEq] at h; subst h; exact ⟨.nil, rfl, rfl⟩
  | sc n s =>
    cases n <;> simp only [toValue, Res.ok.injEq] at h <;> subst h <;> cases s <;> exact ⟨_, rfl, rfl⟩
  | ptr g =>
    cases g with
    | strct id fs => simp only [toValue, Res.ok.injEq] at h; subst h; exact ⟨_, rfl, rfl⟩
    | nil => simp [toValue, derefToValue] at h
    | sc n s =>
      obtain ⟨g', h1, h2⟩ := deref_value E (.sc n s) j (by simpa [toValue] using h)
      exact ⟨g', h1, by simpa [Spec.erase] using h2⟩
    | ptr g =>
      obtain ⟨g', h1, h2⟩ := deref_value E (.ptr g) j (by simpa [toValue] using h)
      exact ⟨g', h1, by simpa [Spec.erase] using h2⟩
    | nilptr t =>
      obtain ⟨g', h1, h2⟩ := deref_value E (.nilptr t) j (by simpa [toValue] using h)
      exact ⟨g', h1, by simpa [Spec.erase] using h2⟩
    | slice t n es => simp [toValue, derefToValue] at h
    | map t n kvs => simp [toValue, derefToValue] at h
  | nilptr t => simp only [toValue, Res.ok.injEq] at h; subst h; exact ⟨.nil, rfl, rfl⟩
  | slice t n es => simp only [toValue, Res.ok.injEq] at h; subst h; exact ⟨_, rfl, rfl⟩
  | map t n kvs => simp only [toValue, Res.ok.injEq] at h; subst h; exact ⟨_, rfl, rfl⟩
  | strct id fs => simp only [toValue, Res.ok.injEq] at h; subst h; exact ⟨_, rfl, rfl⟩


/-- is the value a container or struct (what a script sees as an object)? -/
def isObjG : GoVal → Prop
  | .slice .. => True
  | .map .. => True
  | .strct .. => True
  | _ => False

/-- classification of what Set stores -/
inductive Stored (g : GoVal) (j : JS) : Prop
  | undef : Spec.target g = .nil → j = jsUndef → Stored g j
  | direct (s : Sc) : Spec.target g = .sc false s → j = directScalar s → Stored g j
  | refl (n : Bool) (s : Sc) : Spec.target g = .sc n s → j = reflectScalar s → Stored g j
  | obj (g' : GoVal) : j = .goObj g' → isObjG (Spec.target g) → Stored g j

theorem deref_stored : (g : GoVal) → (j : JS) → derefToValue g = .ok j → Stored g j
  | .nil, j, h => by simp [derefToValue] at h
  | .sc n s, j, h => by
    simp only [derefToValue, Res.ok.injEq] at h
    exact .refl n s rfl h.symm
  | .ptr g, j, h => by
    simp only [derefToValue] at h
    cases deref_stored g j h with
    | undef a b => exact .undef (by simpa [Spec.target] using a) b
    | direct s a b => exact .direct s (by simpa [Spec.target] using a) b
    | refl n s a b => exact .refl n s (by simpa [Spec.target] using a) b
    | obj g' a b => exact .obj g' a (by simpa [Spec.target] using b)
  | .nilptr t, j, h => by
    simp only [derefToValue, Res.ok.injEq] at h
    exact .undef rfl h.symm
  | .slice t n es, j, h => by simp [derefToValue] at h
  | .map t n kvs, j, h => by simp [derefToValue] at h
  | .strct id fs, j, h => by simp [derefToValue] at h

theorem toValue_stored (g : GoVal) (j : JS) (h : toValue g = .ok j) : Stored g j := by
  cases g with
  | nil => simp only [toValue, Res.ok.injEq] at h; exact .undef rfl h.symm
  | sc n s =>
    cases n <;> simp only [toValue, Res.ok.injEq] at h
    · exact .direct s rfl h.symm
    · exact .refl true s rfl h.symm
  | ptr g =>
    cases g with
    | strct id fs => simp only [toValue, Res.ok.injEq] at h; exact .obj _ h.symm (by simp [Spec.target, isObjG])
    | nil => simp [toValue, derefToValue] at h
    | sc n s => exact deref_stored (.ptr (.sc n s)) j (by simpa [toValue, derefToValue] using h)
    | ptr g => exact deref_stored (.ptr (.ptr g)) j (by simpa [toValue, derefToValue] using h)
    | nilptr t => exact deref_stored (.ptr (.nilptr t)) j (by simpa [toValue, derefToValue] using h)
    | slice t n es => simp [toValue, derefToValue] at h
    | map t n kvs => simp [toValue, derefToValue] at h
  | nilptr t => simp only [toValue, Res.ok.injEq] at h; exact .undef rfl h.symm
  | slice t n es => simp only [toValue, Res.ok.injEq] at h; exact .obj _ h.symm (by simp [Spec.target, isObjG])
  | map t n kvs => simp only [toValue, Res.ok.injEq] at h; exact .obj _ h.symm (by simp [Spec.target, isObjG])
  | strct id fs => simp only [toValue, Res.ok.injEq] at h; exact .obj _ h.symm (by simp [Spec.target, isObjG])

/-- the stored Value has no float32 payload -/
def NoF32 : JS → Prop
  | .f32 _ => False
  | _ => True

/-- Set never stores a float32 payload: both arms of toValue widen -/
theorem toValue_noF32 (g : GoVal) (j : JS) (h : toValue g = .ok j) : NoF32 j := by
  cases toValue_stored g j h with
  | undef a b => subst b; trivial
  | direct s a b => subst b; cases s <;> trivial
  | refl n s a b => subst b; cases s <;> trivial
  | obj g' a b => subst a; trivial

theorem toFloat_eq (E : Env) (g : GoVal) (j : JS) (h : toValue g = .ok j) :
    valFloat E j = Spec.toFloat E g := by
  have hf := toValue_noF32 g j h
  cases toValue_stored g j h with
  | undef a b => subst b; simp [Spec.toFloat, a, valFloat, jsUndef, OttoVerif.C05.toFloat]
  | direct s a b => subst b; cases s <;> simp [Spec.toFloat, a, valFloat, directScalar, OttoVerif.C05.toFloat, Spec.scNumber]
  | refl n s a b =>
    subst b
    cases s <;> simp [Spec.toFloat, a, valFloat, reflectScalar, OttoVerif.C05.toFloat, Spec.scNumber, NoF32] at hf ⊢
  | obj g' a b =>
    subst a
    cases ht : Spec.target g <;> simp [ht, isObjG] at b <;> simp [Spec.toFloat, ht, valFloat]



theorem numberOfFloat_eq (x : FV) : numberOfFloat x = Spec.toIntegerOfNumber x := by
  cases x with
  | nan => simp [numberOfFloat, Spec.toIntegerOfNumber, isZero]
  | inf s => simp [numberOfFloat, Spec.toIntegerOfNumber, isZero]
  | fin s m e =>
    by_cases hm : m = 0
    · subst hm
      simp [numberOfFloat, Spec.toIntegerOfNumber, isZero, Spec.clamp, truncInt, truncAbs, int64Max, int64Min]
    · have hz : isZero (.fin s m e) = false := by
        cases m with
        | zero => exact absurd rfl hm
        | succ k => rfl
      simp only [numberOfFloat, hz, Spec.toIntegerOfNumber, Spec.clamp, int64Max, int64Min]
      simp only [Bool.false_eq_true, if_false]
      generalize truncInt (FV.fin s m e) = t
      split <;> (try split) <;> (try split) <;> (try split) <;> omega

theorem ofInt_small (i : Int) (h : i.natAbs < 2^53) : ofInt i = .fin (decide (i < 0)) i.natAbs 0 := by
  simp [ofInt, h]

theorem numberOfFloat_ofInt_small (i : Int) (h : i.natAbs < 2^53) : numberOfFloat (ofInt i) = Spec.clamp i := by
  rw [numberOfFloat_eq, ofInt_small i h]
  simp only [Spec.toIntegerOfNumber, truncInt, truncAbs]
  simp
  split <;> congr 1 <;> omega



theorem divRNE_bounds (a b : Nat) : a / b ≤ divRNE a b ∧ divRNE a b ≤ a / b + 1 := by
  unfold divRNE
  dsimp only
  split
  · omega
  · split
    · omega
    · split <;> omega

theorem roundPos_big (n : Nat) (h1 : 2^63 ≤ n) (h2 : n < 2^64) :
    ∃ m e, roundPos n 1 = some (m, e) ∧ 0 < m ∧ (2:Int)^63 ≤ ((truncAbs m e : Nat) : Int) := by
  have hn : n ≠ 0 := by omega
  have hl : Nat.log2 n = 63 := (Nat.log2_eq_iff hn).mpr ⟨h1, h2⟩
  have hl1 : Nat.log2 1 = 0 := by decide
  have hlt : ¬ (n < 9223372036854775808) := by omega
  have e1 : ((63 : Nat) : Int) - ((0 : Nat) : Int) - 52 = 11 := by decide
  have hb := divRNE_bounds n 2048
  unfold roundPos
  simp only [hl, hl1, e1]
  simp [hlt]
  generalize divRNE n 2048 = d at hb ⊢
  by_cases hd2 : d = 9007199254740992
  · refine ⟨4503599627370496, 12, ?_, by decide, ?_⟩
    · simp [hd2]
    · simp [truncAbs]
  · refine ⟨d, 11, ?_, by omega, ?_⟩
    · simp [hd2]
    · simp [truncAbs]; omega

/-- a uint64 at or above 2^63 converts to a float64 at or above 2^63 -/
theorem numberOfFloat_ofInt_big (i : Int) (h1 : 2^63 ≤ i) (h2 : i < 2^64) : numberOfFloat (ofInt i) = int64Max := by
  have hna : i.natAbs = i.toNat := by omega
  have hn1 : 2^63 ≤ i.toNat := by omega
  have hn2 : i.toNat < 2^64 := by omega
  obtain ⟨m, e, hr, hm, ht⟩ := roundPos_big i.toNat hn1 hn2
  have h53 : ¬ (i.natAbs < 2^53) := by omega
  have hneg : ¬ (i < 0) := by omega
  have hnz : i.toNat ≠ 0 := by omega
  unfold ofInt
  rw [if_neg h53, if_neg hneg]
  unfold ofRatParts
  rw [hna, if_neg hnz, hr]
  show numberOfFloat (.fin false m e) = int64Max
  cases m with
  | zero => omega
  | succ k =>
    have ht' : truncInt (.fin false (k+1) e) ≥ 2^63 := by simpa [truncInt] using ht
    simp only [numberOfFloat, isZero]
    simp
    intro hlt
    omega


/-- Go's static types bound integer payloads (64-bit `int`/`uint`). -/
def IntOK : Sc → Prop
  | .int .uint i => 0 ≤ i ∧ i < 2^64
  | .int .u64 i => 0 ≤ i ∧ i < 2^64
  | .int _ i => -(2^63 : Int) ≤ i ∧ i < 2^63
  | _ => True

def TargetIntOK (g : GoVal) : Prop :=
  match Spec.target g with
  | .sc _ s => IntOK s
  | _ => True

theorem clamp_id (i : Int) (h : -(2^63 : Int) ≤ i ∧ i < 2^63) : Spec.clamp i = i := by
  unfold Spec.clamp int64Max int64Min
  rw [if_neg (by omega), if_neg (by omega)]

theorem clamp_big (i : Int) (h : 2^63 ≤ i) : Spec.clamp i = int64Max := by
  unfold Spec.clamp int64Max
  rw [if_pos (by omega)]

theorem valInteger_unsigned (E : Env) (k : NK) (i : Int) (hk : k = .uint ∨ k = .u64) (hi : 0 ≤ i ∧ i < 2^64) :
    valInteger E (.prim (.int k i)) = .ok (Spec.clamp i) := by
  by_cases hle : i ≤ int64Max
  · have : Spec.clamp i = i := clamp_id i ⟨by omega, by unfold int64Max at hle; omega⟩
    rcases hk with rfl | rfl <;> simp [valInteger, hle, this]
  · have hb : 2^63 ≤ i := by unfold int64Max at hle; omega
    rcases hk with rfl | rfl <;>
      simp [valInteger, hle, OttoVerif.C05.toFloat, numberOfFloat_ofInt_big i hb hi.2, clamp_big i hb]

theorem valInteger_scalar (E : Env) (s : Sc) (hi : IntOK s) (j : JS)
    (hj : j = directScalar s ∨ j = reflectScalar s) :
    valInteger E j = .ok (match s with | .int _ i => Spec.clamp i | s => Spec.toIntegerOfNumber (Spec.scNumber E s)) := by
  cases s with
  | bool b => rcases hj with rfl | rfl <;> simp [directScalar, reflectScalar, valInteger, OttoVerif.C05.toFloat, Spec.scNumber, numberOfFloat_eq]
  | f64 x => rcases hj with rfl | rfl <;> simp [directScalar, reflectScalar, valInteger, OttoVerif.C05.toFloat, Spec.scNumber, numberOfFloat_eq]
  | f32 x => rcases hj with rfl | rfl <;> simp [directScalar, reflectScalar, valInteger, OttoVerif.C05.toFloat, Spec.scNumber, numberOfFloat_eq]
  | str b => rcases hj with rfl | rfl <;> simp [directScalar, reflectScalar, valInteger, OttoVerif.C05.toFloat, Spec.scNumber, numberOfFloat_eq]
  | int k i =>
    have hj' : j = .prim (.int k i) := by rcases hj with rfl | rfl <;> rfl
    subst hj'
    cases k <;> simp only [IntOK] at hi <;>
      first
        | exact valInteger_unsigned E _ i (by simp) hi
        | (simp only [valInteger]; rw [clamp_id i hi])

/-- ToInteger: the integer the Go value denotes, clamped to int64 (float payloads: ES5 §9.4) –
    for every integer kind and width, every float, bool, string, nil and pointer chain. -/
theorem toInteger_eq (E : Env) (g : GoVal) (j : JS) (h : toValue g = .ok j)
    (hi : TargetIntOK g) : valInteger E j = Spec.toInteger E g := by
  cases toValue_stored g j h with
  | undef a b => subst b; simp [Spec.toInteger, a, valInteger, jsUndef, OttoVerif.C05.toFloat, numberOfFloat, isZero]
  | direct s a b =>
    simp only [TargetIntOK, a] at hi
    rw [valInteger_scalar E s hi j (.inl b)]
    cases s <;> simp [Spec.toInteger, a]
  | refl n s a b =>
    simp only [TargetIntOK, a] at hi
    rw [valInteger_scalar E s hi j (.inr b)]
    cases s <;> simp [Spec.toInteger, a]
  | obj g' a b =>
    subst a
    cases ht : Spec.target g <;> simp [ht, isObjG] at b <;> simp [Spec.toInteger, ht, valInteger]

/-- ToBoolean: ES5 §9.2 of the counterpart. -/
theorem toBoolean_eq (g : GoVal) (j : JS) (h : toValue g = .ok j) :
    valBool j = Spec.toBoolean g := by
  cases toValue_stored g j h with
  | undef a b => subst b; simp [Spec.toBoolean, a, valBool, jsUndef, OttoVerif.C05.toBool]
  | direct s a b =>
    subst b
    cases s with
    | str b => cases b <;> simp [Spec.toBoolean, a, valBool, directScalar, OttoVerif.C05.toBool]
    | _ => simp [Spec.toBoolean, a, valBool, directScalar, OttoVerif.C05.toBool, bne, BEq.beq]
  | refl n s a b =>
    subst b
    cases s with
    | str b => cases b <;> simp [Spec.toBoolean, a, valBool, reflectScalar, OttoVerif.C05.toBool]
    | _ => simp [Spec.toBoolean, a, valBool, reflectScalar, OttoVerif.C05.toBool, bne, BEq.beq]
  | obj g' a b =>
    subst a
    cases ht : Spec.target g <;> simp [ht, isObjG] at b <;> simp [Spec.toBoolean, ht, valBool]

theorem numToString_f64 (x : FV) : valString (.prim (.f64 x)) = .ok (Spec.numToString x) := by
  cases x with
  | nan => simp [valString, Spec.numToString, isZero]
  | inf s => simp [valString, Spec.numToString, isZero]
  | fin s m e =>
    cases m with
    | zero => simp [valString, Spec.numToString, isZero]
    | succ k => simp [valString, Spec.numToString, isZero]; split <;> rfl

/-- ToString: ES5 §9.8 of the counterpart (integers: exact decimal digits); `none` marks the finite
    non-whole doubles whose digit string is C06's subject — on both sides alike. -/
theorem toString_eq (g : GoVal) (j : JS) (h : toValue g = .ok j) :
    valString j = Spec.toStringG g := by
  cases toValue_stored g j h with
  | undef a b => subst b; simp [Spec.toStringG, a, valString, jsUndef]
  | direct s a b =>
    subst b
    cases s with
    | f32 x => simp only [directScalar, numToString_f64, Spec.toStringG, a]
    | f64 x => simp only [directScalar, numToString_f64, Spec.toStringG, a]
    | _ => simp [Spec.toStringG, a, valString, directScalar]
  | refl n s a b =>
    subst b
    cases s with
    | f32 x => simp only [reflectScalar, numToString_f64, Spec.toStringG, a]
    | f64 x => simp only [reflectScalar, numToString_f64, Spec.toStringG, a]
    | _ => simp [Spec.toStringG, a, valString, reflectScalar]
  | obj g' a b =>
    subst a
    cases ht : Spec.target g <;> simp [ht, isObjG] at b <;> simp [Spec.toStringG, ht, valString]

theorem marshalNum_eq (x : FV) : valMarshal (.prim (.f64 x)) = .ok (Spec.marshalNum x) := by
  cases x with
  | nan => rfl
  | inf s => rfl
  | fin s m e =>
    cases m with
    | zero => simp [valMarshal, Spec.marshalNum]
    | succ k => simp [valMarshal, Spec.marshalNum]

/-- MarshalJSON of a primitive = JSON.stringify of the counterpart (§15.12.3), integers exact:
    NaN and ±Infinity are null, −0 is 0. -/
theorem marshal_eq (g : GoVal) (j : JS) (h : toValue g = .ok j) :
    valMarshal j = Spec.marshal g := by
  cases toValue_stored g j h with
  | undef a b => subst b; simp [Spec.marshal, a, valMarshal, jsUndef]
  | direct s a b =>
    subst b
    cases s with
    | f32 x => simp only [directScalar, marshalNum_eq, Spec.marshal, a]
    | f64 x => simp only [directScalar, marshalNum_eq, Spec.marshal, a]
    | _ => simp [Spec.marshal, a, valMarshal, directScalar]
  | refl n s a b =>
    subst b
    cases s with
    | f32 x => simp only [reflectScalar, marshalNum_eq, Spec.marshal, a]
    | f64 x => simp only [reflectScalar, marshalNum_eq, Spec.marshal, a]
    | _ => simp [Spec.marshal, a, valMarshal, reflectScalar]
  | obj g' a b =>
    subst a
    cases ht : Spec.target g <;> simp [ht, isObjG] at b <;> simp [Spec.marshal, ht, valMarshal]

/-- what a script sees (typeof, and the primitive value) is the natural counterpart -/
theorem view_eq (E : Env) (g : GoVal) (j : JS) (h : toValue g = .ok j) :
    viewJS E j = Spec.view E g ∧ Res.ok (typeofJS j) = Spec.typeofG g := by
  cases toValue_stored g j h with
  | undef a b => subst b; simp [Spec.view, Spec.typeofG, a, viewJS, typeofJS, jsUndef]
  | direct s a b =>
    subst b
    cases s <;> simp [Spec.view, Spec.typeofG, a, viewJS, typeofJS, directScalar, Spec.scNumber, OttoVerif.C05.toFloat]
  | refl n s a b =>
    subst b
    cases s <;> simp [Spec.view, Spec.typeofG, a, viewJS, typeofJS, reflectScalar, Spec.scNumber, OttoVerif.C05.toFloat]
  | obj g' a b =>
    subst a
    cases ht : Spec.target g <;> simp [ht, isObjG] at b <;> simp [Spec.view, Spec.typeofG, ht, viewJS, typeofJS]

/-! ## Part B -/

theorem ofRatParts_not_nan (s : Bool) (n d : Nat) : isNaN (ofRatParts s n d) = false := by
  unfold ofRatParts
  split
  · rfl
  · split <;> rfl

theorem ofInt_not_nan (i : Int) : isNaN (ofInt i) = false := by
  unfold ofInt
  split
  · rfl
  · split <;> exact ofRatParts_not_nan _ _ _

/-- primitive JavaScript values (and float32-payload numbers) -/
def IsPrim : JS → Prop
  | .prim _ => True
  | .f32 _ => True
  | _ => False

/-- The Value predicates agree with typeof and Number(): IsUndefined/IsDefined/IsNull/IsBoolean/IsNumber/
    IsString/IsObject/IsPrimitive are the typeof table, IsNaN(v) = isNaN(Number(v)) — for every primitive
    value and every Go numeric kind a number Value can carry. -/
theorem predicates_agree (E : Env) (j : JS) (h : IsPrim j) : predsJS E j = Spec.preds E j := by
  cases j with
  | prim v =>
    cases v with
    | int k i =>
      cases k <;> simp [predsJS, Spec.preds, isNaNJS, Spec.toNumberJS, Res.map, kindNum, Val.kind, Spec.typeofJS, Spec.isNullJS, OttoVerif.C05.toFloat, ofInt_not_nan]
    | _ => simp [predsJS, Spec.preds, isNaNJS, Spec.toNumberJS, Res.map, kindNum, Val.kind, Spec.typeofJS, Spec.isNullJS, OttoVerif.C05.toFloat]
  | f32 x => simp [predsJS, Spec.preds, isNaNJS, Spec.toNumberJS, Res.map, kindNum, Spec.typeofJS, Spec.isNullJS]
  | _ => simp [IsPrim] at h

theorem typeof_agree (j : JS) : typeofJS j = Spec.typeofJS j := by
  cases j with
  | prim v => cases v <;> rfl
  | _ => rfl


open Spec.Dev


/-! ### JavaScript -> Go: `export` of JSON-like data -/

theorem finishArr_ok (gs : GoVals) (g : GoVal) (h : finishArr gs = .ok g) : ∃ t, g = .slice t false gs := by
  unfold finishArr at h
  dsimp only at h
  split at h
  · exact ⟨_, (Res.ok.inj h).symm⟩
  · split at h
    · exact ⟨_, (Res.ok.inj h).symm⟩
    · split at h
      · exact ⟨_, (Res.ok.inj h).symm⟩
      · cases h

mutual
/-- Export of hole-free JSON-like data is structurally equal to that data, at every nesting depth. -/
theorem export_structural (E : Env) : (j : JS) → hasHole j = false → (g : GoVal) → exportV j = .ok g →
    Spec.erase E g = Spec.treeOf E j
  | .prim v, _, g, h => by
    cases v <;> simp only [exportV, Res.ok.injEq] at h <;> subst h <;> rfl
  | .f32 x, _, g, h => by simp only [exportV, Res.ok.injEq] at h; subst h; rfl
  | .goObj g', _, g, h => by simp only [exportV, Res.ok.injEq] at h; subst h; simp [Spec.treeOf]
  | .arr es, hh, g, h => by
    simp only [exportV] at h
    cases he : exportElems es with
    | ok gs =>
      rw [he] at h
      obtain ⟨t, rfl⟩ := finishArr_ok gs g h
      simp only [Spec.erase, Spec.treeOf]
      rw [export_structural_elems E es (by simpa [hasHole] using hh) gs he]
    | typeError => rw [he] at h; cases h
    | panic => rw [he] at h; cases h
    | err => rw [he] at h; cases h
  | .obj ps, hh, g, h => by
    simp only [exportV] at h
    cases he : exportProps ps with
    | ok kvs =>
      rw [he] at h
      simp only [Res.map, Res.ok.injEq] at h; subst h
      simp only [Spec.erase, Spec.treeOf]
      rw [export_structural_props E ps (by simpa [hasHole] using hh) kvs he]
    | typeError => rw [he] at h; cases h
    | panic => rw [he] at h; cases h
    | err => rw [he] at h; cases h
theorem export_structural_elems (E : Env) : (es : JSElems) → holeElems es = false → (gs : GoVals) →
    exportElems es = .ok gs → Spec.eraseList E gs = Spec.treeOfElems E es
  | .nil, _, gs, h => by simp only [exportElems, Res.ok.injEq] at h; subst h; rfl
  | .hole r, hh, gs, h => by simp [holeElems] at hh
  | .cons v r, hh, gs, h => by
    simp only [holeElems, Bool.or_eq_false_iff] at hh
    simp only [exportElems] at h
    cases hv : exportV v with
    | ok g =>
      rw [hv] at h
      cases hr : exportElems r with
      | ok gs' =>
        rw [hr] at h
        simp only [Res.bind, Res.map, Res.ok.injEq] at h; subst h
        simp only [Spec.eraseList, Spec.treeOfElems]
        rw [export_structural E v hh.1 g hv, export_structural_elems E r hh.2 gs' hr]
      | typeError => rw [hr] at h; cases h
      | panic => rw [hr] at h; cases h
      | err => rw [hr] at h; cases h
    | typeError => rw [hv] at h; cases h
    | panic => rw [hv] at h; cases h
    | err => rw [hv] at h; cases h
theorem export_structural_props (E : Env) : (ps : JSProps) → holeProps ps = false → (kvs : GoKVs) →
    exportProps ps = .ok kvs → Spec.eraseKVs E kvs = Spec.treeOfProps E ps
  | .nil, _, kvs, h => by simp only [exportProps, Res.ok.injEq] at h; subst h; rfl
  | .cons k v r, hh, kvs, h => by
    simp only [holeProps, Bool.or_eq_false_iff] at hh
    simp only [exportProps] at h
    by_cases hu : isUndef v = true
    · simp only [hu, if_true] at h
      simp only [Spec.treeOfProps, hu, if_true]
      exact export_structural_props E r hh.2 kvs h
    · simp only [hu, if_false, Bool.false_eq_true] at h
      simp only [Spec.treeOfProps, hu, if_false, Bool.false_eq_true]
      cases hv : exportV v with
      | ok g =>
        rw [hv] at h
        cases hr : exportProps r with
        | ok kvs' =>
          rw [hr] at h
          simp only [Res.bind, Res.map, Res.ok.injEq] at h; subst h
          simp only [Spec.eraseKVs]
          rw [export_structural E v hh.1 g hv, export_structural_props E r hh.2 kvs' hr]
        | typeError => rw [hr] at h; cases h
        | panic => rw [hr] at h; cases h
        | err => rw [hr] at h; cases h
      | typeError => rw [hv] at h; cases h
      | panic => rw [hv] at h; cases h
      | err => rw [hv] at h; cases h
end

def typesOf : GoVals → List (Option GT)
  | .nil => []
  | .cons g r => typeOf g :: typesOf r

theorem scan_eq : (gs : GoVals) → (st : St) → scan st gs = scanT st (typesOf gs)
  | .nil, st => rfl
  | .cons g r, st => by simp only [scan, typesOf, scanT]; rw [scan_eq r]; rfl

theorem allAssignable_eq (t : GT) : (gs : GoVals) → allAssignable t gs = (typesOf gs).all (· == some t)
  | .nil => rfl
  | .cons g r => by simp only [allAssignable, typesOf, List.all_cons]; rw [allAssignable_eq t r]

/-- once the loop has seen two different element types it stays in state 2 -/
theorem scanT_state2 : (ts : List (Option GT)) → (st : St) → st.state ≠ 0 → st.state ≠ 1 →
    (scanT st ts).state = st.state
  | [], st, _, _ => rfl
  | t :: r, st, h0, h1 => by
    simp only [scanT]
    have hs : (stepT st t).state = st.state := by simp [stepT, h0, h1]
    rw [scanT_state2 r (stepT st t) (by rw [hs]; exact h0) (by rw [hs]; exact h1), hs]

/-- the loop invariant of the common-type inference: while in state 1 every element seen has the type of
    the first one, and `t` (the last type) is that type -/
theorem scanT_inv : (ts : List (Option GT)) → (st : St) → st.state = 1 → st.t = st.first →
    (scanT st ts).state = 1 → (scanT st ts).t = st.first ∧ ∀ x ∈ ts, x = st.first
  | [], st, _, ht, _ => ⟨ht, fun _ hx => by cases hx⟩
  | t :: r, st, h1, ht, hfin => by
    simp only [scanT] at hfin ⊢
    by_cases hc : st.sig ≠ sigOf t ∨ t ≠ st.first
    · -- the step moves to state 2, which is final: contradiction with hfin
      have hs : (stepT st t).state = 2 := by simp [stepT, h1, hc]
      have := scanT_state2 r (stepT st t) (by rw [hs]; decide) (by rw [hs]; decide)
      rw [this, hs] at hfin
      cases hfin
    · have hte : t = st.first := by
        by_cases h : t = st.first
        · exact h
        · exact absurd (Or.inr h) hc
      have hstep : stepT st t = ⟨1, st.sig, t, st.first⟩ := by simp [stepT, h1, hc]
      rw [hstep] at hfin ⊢
      have ih := scanT_inv r ⟨1, st.sig, t, st.first⟩ rfl hte hfin
      exact ⟨ih.1, fun x hx => by
        rcases List.mem_cons.mp hx with rfl | hx'
        · exact hte
        · exact ih.2 x hx'⟩

/-- from the initial state: in state 1 at the end, all element types equal the last type `t` -/
theorem scanT_init_inv (ts : List (Option GT)) (h : (scanT St.init ts).state = 1) :
    ∀ x ∈ ts, x = (scanT St.init ts).t := by
  cases ts with
  | nil => intro x hx; cases hx
  | cons t r =>
    have hstep : stepT St.init t = ⟨1, sigOf t, t, t⟩ := by simp [stepT, St.init]
    simp only [scanT, hstep] at h ⊢
    have ih := scanT_inv r ⟨1, sigOf t, t, t⟩ rfl rfl h
    intro x hx
    rw [ih.1]
    rcases List.mem_cons.mp hx with rfl | hx'
    · rfl
    · exact ih.2 x hx'

/-- the Array typing rule, unconditionally: `export` of an Array builds the slice whose element type is
    `arrElemType` of the element types – the reflect.Set copy can never panic, because state 1 means that
    all elements have one and the same type. -/
theorem finishArr_val (gs : GoVals) : finishArr gs = .ok (.slice (arrElemType (typesOf gs)) false gs) := by
  unfold finishArr arrElemType
  rw [scan_eq]
  dsimp only
  have hinv := scanT_init_inv (typesOf gs)
  generalize scanT St.init (typesOf gs) = st at hinv
  obtain ⟨state, sig, t, first⟩ := st
  cases t with
  | none => rfl
  | some t =>
    dsimp only at hinv ⊢
    by_cases hc : state ≠ 1 ∨ sig.k = 20
    · simp [hc]
    · have hs : state = 1 := by
        by_cases h : state = 1
        · exact h
        · exact absurd (Or.inl h) hc
      have hall : (typesOf gs).all (· == some t) = true := by
        simp only [List.all_eq_true, beq_iff_eq]
        exact fun x hx => hinv hs x hx
      rw [if_neg hc, if_neg hc, allAssignable_eq, hall]
      rfl

mutual
/-- `export` is total and typed: it always returns (no panic, no error) and the dynamic type of the result
    is `expType j` – the Array typing rule, characterised exactly. -/
theorem export_ok : (j : JS) → ∃ g, exportV j = .ok g ∧ typeOf g = expType j
  | .prim v => by cases v <;> exact ⟨_, rfl, rfl⟩
  | .f32 x => ⟨_, rfl, rfl⟩
  | .goObj g' => ⟨g', rfl, rfl⟩
  | .arr es => by
    obtain ⟨gs, he, ht⟩ := export_ok_elems es
    refine ⟨.slice (arrElemType (typesOf gs)) false gs, ?_, ?_⟩
    · simp only [exportV, he, Res.bind, finishArr_val]
    · simp only [typeOf, expType, ht]
  | .obj ps => by
    obtain ⟨kvs, he⟩ := export_ok_props ps
    exact ⟨.map .iface false kvs, by simp only [exportV, he, Res.map], rfl⟩
theorem export_ok_elems : (es : JSElems) → ∃ gs, exportElems es = .ok gs ∧ typesOf gs = expTypes es
  | .nil => ⟨.nil, rfl, rfl⟩
  | .hole r => by
    obtain ⟨gs, he, ht⟩ := export_ok_elems r
    exact ⟨gs, by simp only [exportElems, he], by simp only [expTypes, ht]⟩
  | .cons v r => by
    obtain ⟨g, hv, hvt⟩ := export_ok v
    obtain ⟨gs, he, ht⟩ := export_ok_elems r
    exact ⟨.cons g gs, by simp only [exportElems, hv, he, Res.bind, Res.map], by simp only [typesOf, expTypes, ht, hvt]⟩
theorem export_ok_props : (ps : JSProps) → ∃ kvs, exportProps ps = .ok kvs
  | .nil => ⟨.nil, rfl⟩
  | .cons k v r => by
    obtain ⟨g, hv, _⟩ := export_ok v
    obtain ⟨kvs, he⟩ := export_ok_props r
    by_cases hu : isUndef v = true
    · exact ⟨kvs, by simp only [exportProps, hu, if_true, he]⟩
    · exact ⟨.cons k g kvs, by simp only [exportProps, hu, if_false, Bool.false_eq_true, hv, he, Res.bind, Res.map]⟩
end

theorem export_total (j : JS) : ∃ g, exportV j = .ok g := by
  obtain ⟨g, h, _⟩ := export_ok j; exact ⟨g, h⟩

theorem export_typing (j : JS) (g : GoVal) (h : exportV j = .ok g) : typeOf g = expType j := by
  obtain ⟨g', h', ht⟩ := export_ok j
  rw [h] at h'; cases h'; exact ht

mutual
/-- Outside the two JavaScript->Go regions (hole, typed Array) `export` returns exactly the documented
    shape: []interface{} for Arrays, map[string]interface{} for Objects, at every depth. -/
theorem export_doc : (j : JS) → hasHole j = false → typedArr j = false → exportV j = .ok (Spec.docOf j)
  | .prim v, _, _ => by cases v <;> rfl
  | .f32 x, _, _ => rfl
  | .goObj g, _, _ => rfl
  | .arr es, hh, ht => by
    simp only [hasHole] at hh
    simp only [typedArr, Bool.or_eq_false_iff, bne_eq_false_iff_eq] at ht
    have he := export_doc_elems es hh ht.1
    obtain ⟨gs, he', hts⟩ := export_ok_elems es
    rw [he] at he'; cases he'
    simp only [exportV, he, Res.bind, Spec.docOf, finishArr_val, hts, ht.2]
  | .obj ps, hh, ht => by
    simp only [hasHole] at hh
    simp only [typedArr] at ht
    simp only [exportV, export_doc_props ps hh ht, Res.map, Spec.docOf]
theorem export_doc_elems : (es : JSElems) → holeElems es = false → typedElems es = false →
    exportElems es = .ok (Spec.docOfElems es)
  | .nil, _, _ => rfl
  | .hole r, hh, _ => by simp [holeElems] at hh
  | .cons v r, hh, ht => by
    simp only [holeElems, Bool.or_eq_false_iff] at hh
    simp only [typedElems, Bool.or_eq_false_iff] at ht
    simp only [exportElems, export_doc v hh.1 ht.1, export_doc_elems r hh.2 ht.2, Res.bind, Res.map, Spec.docOfElems]
theorem export_doc_props : (ps : JSProps) → holeProps ps = false → typedProps ps = false →
    exportProps ps = .ok (Spec.docOfProps ps)
  | .nil, _, _ => rfl
  | .cons k v r, hh, ht => by
    simp only [holeProps, Bool.or_eq_false_iff] at hh
    simp only [typedProps, Bool.or_eq_false_iff] at ht
    simp only [exportProps, Spec.docOfProps]
    by_cases hu : isUndef v = true
    · simp only [hu, if_true]; exact export_doc_props r hh.2 ht.2
    · simp only [hu, Bool.not_false, Bool.true_and, Bool.false_eq_true, if_false] at ht ⊢
      simp only [export_doc v hh.1 ht.1, export_doc_props r hh.2 ht.2, Res.bind, Res.map]
end

/-! ## Non-vacuity and deviation witnesses (kernel-checked; each is replayed on the real code by the harness) -/

def env0 : Env := { pn := fun _ => .nan }

-- hypotheses are satisfiable on non-trivial instances
example : hasHole (.arr (.cons (.prim (.int .i64 1)) (.cons (.obj (.cons [97] (.prim (.str [120])) .nil)) .nil))) = false := by decide
example : (toValue (.ptr (.ptr (.sc true (.int .u8 200))))) = .ok (.prim (.int .u8 200)) := by decide
example : TargetIntOK (.ptr (.sc false (.int .u64 (2^64 - 1)))) := by simp [TargetIntOK, Spec.target, IntOK]

-- Part A: the remaining regions (static type changes, rejected pointers)
example : roundtrip (.sc true (.int .int 5)) ≠ Spec.roundtrip (.sc true (.int .int 5)) := by decide              -- named_type_erased
example : roundtrip (.ptr (.sc false (.int .int 7))) ≠ Spec.roundtrip (.ptr (.sc false (.int .int 7))) := by decide  -- pointer_deref
example : roundtrip (.nilptr (.sc false (.num .int))) ≠ Spec.roundtrip (.nilptr (.sc false (.num .int))) := by decide
example : roundtrip (.sc false (.f32 one)) ≠ Spec.roundtrip (.sc false (.f32 one)) := by decide                     -- float32_widened
example : roundtrip (.ptr (.slice .iface false .nil)) = .typeError := by decide                                     -- pointer_to_container_rejected
example : roundtrip (.ptr (.ptr (.strct 0 .nil))) = .typeError := by decide
-- repaired regions, now plain instances of the theorems
example : (toValue (.sc true (.f32 one))).bind (valFloat env0) = .ok one := by decide
example : (toValue (.sc true (.f32 .nan))).bind valBool = .ok false := by decide
example : (toValue (.sc false (.f64 .nan))).bind valMarshal = .ok .null := by decide
example : (toValue (.sc false (.f64 negZero))).bind valMarshal = .ok (.num zero) := by decide
example : (toValue (.sc false (.int .u64 (2^53 + 1)))).bind (valInteger env0) = .ok (2^53 + 1) := by decide

-- Part B
def wHole : JS := .arr (.cons (.prim (.int .i64 1)) (.hole (.cons (.prim (.int .i64 3)) .nil)))
example : hasHole wHole = true ∧ (exportV wHole).map (Spec.erase env0) ≠ Spec.exportTree env0 wHole := by decide     -- export_array_hole
def wTyped : JS := .arr (.cons (.prim (.int .i64 1)) (.cons (.prim (.int .i64 2)) .nil))
example : typedArr wTyped = true ∧ exportV wTyped ≠ Spec.exportDoc wTyped := by decide                              -- export_array_typed
/-- [[[1]],[["a"]]] : both elements have Kind signature (Slice, -, Slice) but types [][]int64 and [][]string:
    no common type, exported as []interface{} -/
def wClash : JS :=
  .arr (.cons (.arr (.cons (.arr (.cons (.prim (.int .i64 1)) .nil)) .nil))
       (.cons (.arr (.cons (.arr (.cons (.prim (.str [97])) .nil)) .nil)) .nil))
example : expType wClash = some (.slice .iface) := by decide

/-! ## Part C: calls -/

/-- Set accepts the value -/
def OKVal (g : GoVal) : Prop := ∃ j, toValue g = .ok j

theorem argViews_eq (E : Env) : (args : List GoVal) → (∀ g ∈ args, OKVal g) →
    argViews E args = Spec.argViews E args
  | [], _ => rfl
  | g :: r, h => by
    obtain ⟨j, hj⟩ := h g (by simp)
    have hv := (view_eq E g j hj).1
    simp only [argViews, Spec.argViews, hj, Res.bind, hv]
    rw [argViews_eq E r (fun g' hg' => h g' (by simp [hg']))]

theorem enterThis_eq (E : Env) (g : GoVal) (h : OKVal g) :
    ((toValue g).map CallThis.val).bind (enterThis E) = Spec.enterThis E (.counterpart g) := by
  obtain ⟨j, hj⟩ := h
  have hf := toValue_noF32 g j hj
  have hv := (view_eq E g j hj).1
  simp only [hj, Res.map, Res.bind, Spec.enterThis, ← hv]
  cases j with
  | prim v => cases v <;> simp [enterThis, viewJS, Res.map]
  | f32 x => simp [NoF32] at hf
  | goObj g' => simp [enterThis, viewJS]
  | arr es => simp [enterThis, viewJS]
  | obj ps => simp [enterThis, viewJS]

/-- every `this` a path converts from Go -/
def pathThis : Path → List GoVal
  | .valueCall (some g) => [g]
  | .ottoCallThis _ g => [g]
  | .ottoCallNew (some g) => [g]
  | _ => []

/-- Value.Call, Object.Call and Otto.Call (both forms) hand the callee the same `this` and the same
    arguments as the equivalent in-language call (`f.call(T, a…)`, `obj.m(a…)`, `f(a…)`), for every
    argument list of values that Set accepts. -/
theorem call_equiv (E : Env) (p : Path) (args : List GoVal)
    (hthis : ∀ g ∈ pathThis p, OKVal g) (hargs : ∀ g ∈ args, OKVal g) :
    apiCall E p args = Spec.langCall E p args := by
  simp only [apiCall, Spec.langCall, argViews_eq E args hargs]
  congr 1
  cases p with
  | valueCall t =>
    cases t with
    | none => rfl
    | some g => exact enterThis_eq E g (hthis g (by simp [pathThis]))
  | objectCall => rfl
  | ottoCallNil m => cases m <;> rfl
  | ottoCallThis m g => exact enterThis_eq E g (hthis g (by simp [pathThis]))
  | ottoCallNew t =>
    cases t with
    | none => rfl
    | some g =>
      obtain ⟨j, hj⟩ := hthis g (by simp [pathThis])
      simp [apiThis, hj, Res.map, Res.bind, enterThis, Spec.langThis, Spec.enterThis]

/-- The same for callees with side effects and for BOTH exits: through every API path the callee is
    invoked exactly once, with the `this` and arguments of the equivalent in-language call, and its
    completion – the returned value or the thrown exception – is what the caller gets. -/
theorem call_equiv_exits (E : Env) (p : Path) (b : Exit) (args : List GoVal)
    (hthis : ∀ g ∈ pathThis p, OKVal g) (hargs : ∀ g ∈ args, OKVal g) :
    apiRun E p b args = Spec.langRun E p b args ∧
    ∀ r, apiRun E p b args = .ok r → r.invocations.length = 1 := by
  refine ⟨by simp only [apiRun, Spec.langRun, call_equiv E p args hthis hargs], fun r hr => ?_⟩
  simp only [apiRun] at hr
  cases hc : apiCall E p args with
  | ok tv => rw [hc] at hr; simp only [Res.map, Res.ok.injEq] at hr; subst hr; rfl
  | typeError => rw [hc] at hr; cases hr
  | panic => rw [hc] at hr; cases hr
  | err => rw [hc] at hr; cases hr

-- a throwing method called through Otto.Call(src, nil): one invocation, this = the object, the TypeError reaches the caller
example : apiRun env0 (.ottoCallNil true) .throwTypeError [] = .ok ⟨[.self], .throwErr "TypeError" .self 1⟩ := by decide

example : OKVal (.ptr (.sc true (.f32 one))) := ⟨_, rfl⟩

/-! ## Part B': object graphs – sharing and cycles -/

/-- no hole in the element list (and none inside its leaves) -/
def ElemsOK (es : List (Option HVal)) : Prop := ∀ e ∈ es, ∃ v, e = some v ∧ hvalHole v = false
def PropsOK (ps : List (List Nat × HVal)) : Prop := ∀ p ∈ ps, hvalHole p.2 = false
def NodeOK : HNode → Prop
  | .arr es => ElemsOK es
  | .obj ps => PropsOK ps
def HeapOK (H : Heap) : Prop := ∀ (a : Nat) (n : HNode), H[a]? = some n → NodeOK n

theorem mapElems_struct (E : Env) (f : HVal → Res GoVal) (u : HVal → Res Spec.Tree)
    (hfu : ∀ v g, hvalHole v = false → f v = .ok g → u v = .ok (Spec.erase E g)) :
    (es : List (Option HVal)) → ElemsOK es → (gs : GoVals) → mapElems f es = .ok gs →
    Spec.mapTrees u es = .ok (Spec.eraseList E gs)
  | [], _, gs, h => by simp only [mapElems, Res.ok.injEq] at h; subst h; rfl
  | none :: r, hok, gs, h => by
    obtain ⟨v, hv, _⟩ := hok none (by simp)
    cases hv
  | some v :: r, hok, gs, h => by
    obtain ⟨v', hv', hh⟩ := hok (some v) (by simp)
    cases hv'
    simp only [mapElems] at h
    cases hfv : f v with
    | ok g =>
      rw [hfv] at h
      cases hr : mapElems f r with
      | ok gs' =>
        rw [hr] at h
        simp only [Res.bind, Res.map, Res.ok.injEq] at h; subst h
        have ih := mapElems_struct E f u hfu r (fun e he => hok e (by simp [he])) gs' hr
        simp only [Spec.mapTrees, hfu v g hh hfv, Res.bind, ih, Res.map, Spec.eraseList]
      | typeError => rw [hr] at h; cases h
      | panic => rw [hr] at h; cases h
      | err => rw [hr] at h; cases h
    | typeError => rw [hfv] at h; cases h
    | panic => rw [hfv] at h; cases h
    | err => rw [hfv] at h; cases h

theorem mapProps_struct (E : Env) (f : HVal → Res GoVal) (u : HVal → Res Spec.Tree)
    (hfu : ∀ v g, hvalHole v = false → f v = .ok g → u v = .ok (Spec.erase E g)) :
    (ps : List (List Nat × HVal)) → PropsOK ps → (kvs : GoKVs) → mapProps f ps = .ok kvs →
    Spec.mapTreeKVs u ps = .ok (Spec.eraseKVs E kvs)
  | [], _, kvs, h => by simp only [mapProps, Res.ok.injEq] at h; subst h; rfl
  | (k, v) :: r, hok, kvs, h => by
    have hh : hvalHole v = false := hok (k, v) (by simp)
    have hokr : PropsOK r := fun p hp => hok p (by simp [hp])
    simp only [mapProps] at h
    by_cases hu : isUndefH v = true
    · simp only [hu, if_true] at h
      simp only [Spec.mapTreeKVs, hu, if_true]
      exact mapProps_struct E f u hfu r hokr kvs h
    · simp only [hu, if_false, Bool.false_eq_true] at h
      simp only [Spec.mapTreeKVs, hu, if_false, Bool.false_eq_true]
      cases hfv : f v with
      | ok g =>
        rw [hfv] at h
        cases hr : mapProps f r with
        | ok kvs' =>
          rw [hr] at h
          simp only [Res.bind, Res.map, Res.ok.injEq] at h; subst h
          have ih := mapProps_struct E f u hfu r hokr kvs' hr
          simp only [hfu v g hh hfv, Res.bind, ih, Res.map, Spec.eraseKVs]
        | typeError => rw [hr] at h; cases h
        | panic => rw [hr] at h; cases h
        | err => rw [hr] at h; cases h
      | typeError => rw [hfv] at h; cases h
      | panic => rw [hfv] at h; cases h
      | err => rw [hfv] at h; cases h

/-- Export of a hole-free object graph is structurally the unfolding of the graph cut at back edges:
    a reference is replaced by the raw value iff it points to an ANCESTOR of its position – for every
    heap (shared, cyclic), every position and every set of ancestors. -/
theorem exportH_structural (E : Env) (H : Heap) (hH : HeapOK H) :
    (fuel : Nat) → (path : List Nat) → (v : HVal) → (g : GoVal) → hvalHole v = false →
    exportH H fuel path v = .ok g → Spec.unfoldCut E H fuel path v = .ok (Spec.erase E g)
  | fuel, path, .leaf j, g, hh, h => by
    cases fuel <;> simp only [exportH] at h <;> simp only [Spec.unfoldCut] <;>
      rw [export_structural E j (by simpa [hvalHole] using hh) g h]
  | 0, path, .ref a, g, _, h => by simp [exportH] at h
  | fuel + 1, path, .ref a, g, _, h => by
    simp only [exportH] at h
    simp only [Spec.unfoldCut]
    by_cases hp : a ∈ path
    · simp only [hp, if_true, Res.ok.injEq] at h
      subst h
      simp [hp, Spec.cutTree]
    · simp only [hp, if_false] at h
      simp only [hp, if_false]
      have ih := fun v g hh h => exportH_structural E H hH fuel (a :: path) v g hh h
      cases hn : H[a]? with
      | none => rw [hn] at h; cases h
      | some n =>
        rw [hn] at h
        have hok := hH a n hn
        cases n with
        | arr es =>
          simp only at h ⊢
          cases he : mapElems (exportH H fuel (a :: path)) es with
          | ok gs =>
            rw [he] at h
            obtain ⟨t, rfl⟩ := finishArr_ok gs g h
            rw [mapElems_struct E _ _ ih es hok gs he]
            simp [Res.map, Spec.erase]
          | typeError => rw [he] at h; cases h
          | panic => rw [he] at h; cases h
          | err => rw [he] at h; cases h
        | obj ps =>
          simp only at h ⊢
          cases he : mapProps (exportH H fuel (a :: path)) ps with
          | ok kvs =>
            rw [he] at h
            simp only [Res.map, Res.ok.injEq] at h; subst h
            rw [mapProps_struct E _ _ ih ps hok kvs he]
            simp [Res.map, Spec.erase]
          | typeError => rw [he] at h; cases h
          | panic => rw [he] at h; cases h
          | err => rw [he] at h; cases h



/-- acyclic heaps, presented in topological order: every reference points to a lower address
    (every finite acyclic graph can be numbered this way) -/
def RefBelow (a : Nat) : HVal → Prop
  | .ref b => b < a
  | .leaf _ => True
def NodeOrd (a : Nat) : HNode → Prop
  | .arr es => ∀ v, some v ∈ es → RefBelow a v
  | .obj ps => ∀ p ∈ ps, RefBelow a p.2
def Ordered (H : Heap) : Prop := ∀ (a : Nat) (n : HNode), H[a]? = some n → NodeOrd a n

theorem mapTrees_congr (f g : HVal → Res Spec.Tree) :
    (es : List (Option HVal)) → (∀ v, some v ∈ es → f v = g v) → Spec.mapTrees f es = Spec.mapTrees g es
  | [], _ => rfl
  | none :: r, h => by
    simp only [Spec.mapTrees]; rw [mapTrees_congr f g r (fun v hv => h v (by simp [hv]))]
  | some v :: r, h => by
    simp only [Spec.mapTrees]
    rw [h v (by simp), mapTrees_congr f g r (fun v hv => h v (by simp [hv]))]

theorem mapTreeKVs_congr (f g : HVal → Res Spec.Tree) :
    (ps : List (List Nat × HVal)) → (∀ p ∈ ps, f p.2 = g p.2) → Spec.mapTreeKVs f ps = Spec.mapTreeKVs g ps
  | [], _ => rfl
  | (k, v) :: r, h => by
    simp only [Spec.mapTreeKVs]
    rw [h (k, v) (by simp), mapTreeKVs_congr f g r (fun p hp => h p (by simp [hp]))]

/-- On an acyclic heap the cut never happens: the unfolding with ancestors equals the plain tree
    unfolding, in which object identity plays no role – SHARING IS INVISIBLE. -/
theorem unfold_dag (E : Env) (H : Heap) (hO : Ordered H) :
    (fuel : Nat) → (anc : List Nat) → (v : HVal) → (∀ b, v = .ref b → ∀ p ∈ anc, b < p) →
    Spec.unfoldCut E H fuel anc v = Spec.unfoldTree E H fuel v
  | fuel, anc, .leaf j, _ => by cases fuel <;> rfl
  | 0, anc, .ref a, _ => rfl
  | fuel + 1, anc, .ref a, h => by
    have ha : a ∉ anc := fun hin => Nat.lt_irrefl a (h a rfl a hin)
    simp only [Spec.unfoldCut, Spec.unfoldTree, ha, if_false]
    cases hn : H[a]? with
    | none => rfl
    | some n =>
      have hord := hO a n hn
      have key : ∀ v, RefBelow a v → Spec.unfoldCut E H fuel (a :: anc) v = Spec.unfoldTree E H fuel v := by
        intro v hv
        apply unfold_dag E H hO fuel (a :: anc) v
        intro b hb p hp
        subst hb
        simp only [RefBelow] at hv
        rcases List.mem_cons.mp hp with rfl | hp'
        · exact hv
        · exact Nat.lt_trans hv (h a rfl p hp')
      cases n with
      | arr es =>
        simp only
        rw [mapTrees_congr _ _ es (fun v hv => key v (hord v hv))]
      | obj ps =>
        simp only
        rw [mapTreeKVs_congr _ _ ps (fun p hp => key p.2 (hord p hp))]

/-- Export of a hole-free ACYCLIC graph = its tree unfolding, however much of it is shared. -/
theorem export_dag (E : Env) (H : Heap) (hH : HeapOK H) (hO : Ordered H) (fuel : Nat) (v : HVal) (g : GoVal)
    (hh : hvalHole v = false) (h : exportH H fuel [] v = .ok g) :
    Spec.unfoldTree E H fuel v = .ok (Spec.erase E g) := by
  rw [← unfold_dag E H hO fuel [] v (fun _ _ p hp => by cases hp)]
  exact exportH_structural E H hH fuel [] v g hh h

/-- the cut happens exactly at a back edge -/
theorem export_cut (H : Heap) (fuel : Nat) (path : List Nat) (a : Nat) :
    (a ∈ path → exportH H (fuel + 1) path (.ref a) = .ok (rawValue a)) ∧
    (a ∉ path → ∀ es, H[a]? = some (.arr es) →
      exportH H (fuel + 1) path (.ref a) = (mapElems (exportH H fuel (a :: path)) es).bind finishArr) ∧
    (a ∉ path → ∀ ps, H[a]? = some (.obj ps) →
      exportH H (fuel + 1) path (.ref a) = (mapProps (exportH H fuel (a :: path)) ps).map fun kvs => .map .iface false kvs) := by
  refine ⟨fun h => by simp [exportH, h], fun h es hn => by simp [exportH, h, hn], fun h ps hn => by simp [exportH, h, hn]⟩

-- {first: r, second: r} with r = [1,2,3]: shared, acyclic – both occurrences are exported in full
def hShared : Heap := [.arr [some (.leaf (.prim (.int .i64 1))), some (.leaf (.prim (.int .i64 2)))],
                       .obj [([102], .ref 0), ([115], .ref 0)]]
example : Ordered hShared ∧ HeapOK hShared := by
  constructor
  · intro a n h
    match a, h with
    | 0, h => simp [hShared] at h; subst h; simp [NodeOrd, RefBelow]
    | 1, h => simp [hShared] at h; subst h; simp [NodeOrd, RefBelow]
    | a + 2, h => simp [hShared] at h
  · intro a n h
    match a, h with
    | 0, h => simp [hShared] at h; subst h; simp [NodeOK, ElemsOK, hvalHole, hasHole]
    | 1, h => simp [hShared] at h; subst h; simp [NodeOK, PropsOK, hvalHole]
    | a + 2, h => simp [hShared] at h
example : (exportH hShared 3 [] (.ref 1)).map (Spec.erase env0) = Spec.unfoldTree env0 hShared 3 (.ref 1) := by decide
-- o.self = o : the cut, and nothing but the cut
example : exportH [.obj [([115], .ref 0)]] 2 [] (.ref 0) = .ok (.map .iface false (.cons [115] (rawValue 0) .nil)) := by decide


/-! ## Part D: re-entrant API use, and API edge cases (finite domains: proved by case analysis AND enumerated by the harness) -/

/-- Whatever the calling JavaScript function shadows (var, parameter, catch binding, with object), a re-entrant
    Otto.Call / Otto.Run / Value.Call / Object.Call from a host function resolves the callee as GLOBAL code, and
    Otto.Eval as a direct eval in the caller – as the equivalent in-language code does. -/
theorem reentry_equiv (r : Reentry) (s : Shadow) : reentryResolves r s = Spec.reentryResolves r s := by
  cases r <;> cases s <;> rfl

theorem reentry_global (r : Reentry) (s : Shadow) (h : r ≠ .ottoEval) : reentryResolves r s = .global := by
  cases r <;> first | rfl | exact absurd rfl h

/-- Every API edge case gives the specified result – in particular none ends in a Go panic. -/
theorem api_cases (c : ApiCase) : apiModel c = Spec.apiSpec c := by
  cases c <;> rfl

theorem api_no_panic (c : ApiCase) : apiModel c ≠ .goPanic := by
  cases c <;> simp [apiModel]

/-! ## Part E: arithmetic on Go values; Copy() -/

/-- is the stored value a non-string primitive? -/
def NumLike (g : GoVal) : Prop :=
  match Spec.target g with
  | .nil => True
  | .sc _ (.str _) => False
  | .sc _ _ => True
  | _ => False

theorem stored_numlike (E : Env) (g : GoVal) (j : JS) (h : toValue g = .ok j) (hn : NumLike g) :
    ∃ v, primOf j = some v ∧ Spec.numberOfGo E g = .ok (OttoVerif.C05.toFloat E v) := by
  cases toValue_stored g j h with
  | undef a b => subst b; exact ⟨.undef, rfl, by simp [Spec.numberOfGo, a, OttoVerif.C05.toFloat]⟩
  | direct s a b =>
    subst b
    simp only [NumLike, a] at hn
    cases s with
    | str bs => exact hn.elim
    | _ => exact ⟨_, rfl, by simp [Spec.numberOfGo, a, Spec.scNumber, OttoVerif.C05.toFloat]⟩
  | refl n s a b =>
    subst b
    simp only [NumLike, a] at hn
    cases s with
    | str bs => exact hn.elim
    | _ => exact ⟨_, rfl, by simp [Spec.numberOfGo, a, Spec.scNumber, OttoVerif.C05.toFloat]⟩
  | obj g' a b =>
    cases ht : Spec.target g <;> simp [ht, isObjG] at b <;> simp [NumLike, ht] at hn

/-- `vm.Set("a", g1); vm.Set("b", g2); vm.Run("a op b")` for + − * % on every pair of Go numeric kinds, bool and nil:
    the Value that comes back is the float64 of the IEEE operation on the two Number counterparts (so −0 keeps its
    sign and no integer fast path exists).  Division goes through C05's `evaluateDivide` (C05's theorem). -/
theorem arith_roundtrip (E : Env) (op : OttoVerif.C05.BinOp) (g1 g2 : GoVal) (j1 j2 : JS)
    (h1 : toValue g1 = .ok j1) (h2 : toValue g2 = .ok j2) (n1 : NumLike g1) (n2 : NumLike g2)
    (hop : op = .add ∨ op = .sub ∨ op = .mul ∨ op = .rem) :
    arith E op g1 g2 = Spec.arith E op g1 g2 := by
  obtain ⟨x, hx, hnx⟩ := stored_numlike E g1 j1 h1 n1
  obtain ⟨y, hy, hny⟩ := stored_numlike E g2 j2 h2 n2
  simp only [arith, Spec.arith, h1, h2, Res.bind, hx, hy, hnx, hny]
  rcases hop with rfl | rfl | rfl | rfl <;> rfl

/-- a host function running on a copy sees the copy -/
theorem copy_host_otto (r : Reentry) : hostOttoOnCopy r = Spec.hostOttoOnCopy r := rfl

-- int32 × int32: the sign of zero survives
example : arith env0 .mul (.sc false (.int .i32 0)) (.sc false (.int .i32 (-5))) = .ok (.f64 negZero) := by decide

end OttoVerif.C15.Thm
