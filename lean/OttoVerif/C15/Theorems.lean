/-
  C15/Theorems — the ledger for property C15.  Every `theorem` in this file is audited
  (`#print axioms` ⊆ {propext, Classical.choice, Quot.sound}) on every run.

  Part A  Go -> JavaScript -> Go on scalars, pointers and containers (Set / Get / Export / To* / MarshalJSON)
  Part B  JavaScript -> Go: predicates, and `export` of JSON-like data (structure, Go typing, panic)
  Each deviation region used by the driver (Spec.Dev) has a kernel-checked witness at the end.
-/
import OttoVerif.C15.Spec
namespace OttoVerif.C15.Thm
open OttoVerif.F64 OttoVerif.C15
open OttoVerif.C05 (NK Val Env)

/-- what Set; Get; Export computes -/
def roundtrip (g : GoVal) : Res GoVal := (toValue g).bind exportV

/-! ## Part A -/

/-- Scalars of every basic type except float32 come back identical (same dynamic type, same value);
    so does the nil interface. -/
theorem roundtrip_scalar (s : Sc) (h : s.bt ≠ .f32) : roundtrip (.sc false s) = .ok (.sc false s) := by
  cases s <;> first | rfl | (simp [Sc.bt] at h)

theorem roundtrip_nil : roundtrip .nil = .ok .nil := rfl

/-- float32 comes back as the float64 of the same value (widened – value.go:293). -/
theorem roundtrip_float32 (x : FV) : roundtrip (.sc false (.f32 x)) = .ok (.sc false (.f64 x)) := rfl

/-- Slices, maps, structs and pointers to structs of ANY element type, nesting depth and content come
    back identical – `export` returns the bridged Go value itself (value.go:632-641). -/
theorem roundtrip_container (g : GoVal)
    (h : (∃ t n es, g = .slice t n es) ∨ (∃ t n kvs, g = .map t n kvs) ∨ (∃ id fs, g = .strct id fs) ∨
         (∃ id fs, g = .ptr (.strct id fs))) :
    roundtrip g = .ok g := by
  rcases h with ⟨t, n, es, rfl⟩ | ⟨t, n, kvs, rfl⟩ | ⟨id, fs, rfl⟩ | ⟨id, fs, rfl⟩ <;> rfl

/-- the pointer-chasing loop stores the pointee's scalar (or undefined for a nil pointer) and the
    exported value is structurally the pointee -/
theorem deref_value (E : Env) : (g : GoVal) → (j : JS) → derefToValue g = .ok j →
    ∃ g', exportV j = .ok g' ∧ Spec.erase E g' = Spec.erase E g
  | .nil, j, h => by simp [derefToValue] at h
  | .sc n s, j, h => by
    simp only [derefToValue, Res.ok.injEq] at h; subst h
    cases s <;> exact ⟨_, rfl, rfl⟩
  | .ptr g, j, h => by
    simp only [derefToValue] at h
    obtain ⟨g', h1, h2⟩ := deref_value E g j h
    exact ⟨g', h1, by simpa [Spec.erase] using h2⟩
  | .nilptr t, j, h => by
    simp only [derefToValue, Res.ok.injEq] at h; subst h
    exact ⟨.nil, rfl, rfl⟩
  | .slice t n es, j, h => by simp [derefToValue] at h
  | .map t n kvs, j, h => by simp [derefToValue] at h
  | .strct id fs, j, h => by simp [derefToValue] at h

/-- Whatever Set accepts comes back with the same VALUE (structure with static types forgotten):
    defined types lose their name, pointers to scalars are replaced by the pointee, float32 is widened,
    but no value is ever altered.  (Set rejects exactly `Dev.rejectedPtr`.) -/
theorem roundtrip_value_preserved (E : Env) (g : GoVal) (j : JS) (h : toValue g = .ok j) :
    ∃ g', exportV j = .ok g' ∧ Spec.erase E g' = Spec.erase E g := by
  cases g with
  | nil => simp only [toValue, Res.ok.injEq] at h; subst h; exact ⟨.nil, rfl, rfl⟩
  | sc n s =>
    cases n <;> simp only [toValue, Res.ok.injEq] at h <;> subst h <;> cases s <;> exact ⟨_, rfl, rfl⟩
  | ptr g =>
    cases g with
    | strct id fs => simp only [toValue, Res.ok.injEq] at h; subst h; exact ⟨_, rfl, rfl⟩
    | nil => simp [toValue, derefToValue] at h
    | sc n s =>
      obtain ⟨g', h1, h2⟩ := deref_value E (.sc n s) j (by simpa [toValue] using h)
      exact ⟨g', h1, by simpa [Spec.erase] using h2⟩
    | ptr g =>
      obtain ⟨g', h1, h2⟩ := deref_value E (.ptr g) j (by simpa [toValue] using h)
      exact ⟨g', h1, by simpa [Spec.erase] using h2⟩
    | nilptr t =>
      obtain ⟨g', h1, h2⟩ := deref_value E (.nilptr t) j (by simpa [toValue] using h)
      exact ⟨g', h1, by simpa [Spec.erase] using h2⟩
    | slice t n es => simp [toValue, derefToValue] at h
    | map t n kvs => simp [toValue, derefToValue] at h
  | nilptr t => simp only [toValue, Res.ok.injEq] at h; subst h; exact ⟨.nil, rfl, rfl⟩
  | slice t n es => simp only [toValue, Res.ok.injEq] at h; subst h; exact ⟨_, rfl, rfl⟩
  | map t n kvs => simp only [toValue, Res.ok.injEq] at h; subst h; exact ⟨_, rfl, rfl⟩
  | strct id fs => simp only [toValue, Res.ok.injEq] at h; subst h; exact ⟨_, rfl, rfl⟩


/-- is the value a container or struct (what a script sees as an object)? -/
def isObjG : GoVal → Prop
  | .slice .. => True
  | .map .. => True
  | .strct .. => True
  | _ => False

/-- classification of what Set stores -/
inductive Stored (g : GoVal) (j : JS) : Prop
  | undef : Spec.target g = .nil → j = jsUndef → Stored g j
  | direct (s : Sc) : Spec.target g = .sc false s → j = directScalar s → Stored g j
  | refl (n : Bool) (s : Sc) : Spec.target g = .sc n s → j = reflectScalar s → Stored g j
  | obj (g' : GoVal) : j = .goObj g' → isObjG (Spec.target g) → Stored g j

theorem deref_stored : (g : GoVal) → (j : JS) → derefToValue g = .ok j → Stored g j
  | .nil, j, h => by simp [derefToValue] at h
  | .sc n s, j, h => by
    simp only [derefToValue, Res.ok.injEq] at h
    exact .refl n s rfl h.symm
  | .ptr g, j, h => by
    simp only [derefToValue] at h
    cases deref_stored g j h with
    | undef a b => exact .undef (by simpa [Spec.target] using a) b
    | direct s a b => exact .direct s (by simpa [Spec.target] using a) b
    | refl n s a b => exact .refl n s (by simpa [Spec.target] using a) b
    | obj g' a b => exact .obj g' a (by simpa [Spec.target] using b)
  | .nilptr t, j, h => by
    simp only [derefToValue, Res.ok.injEq] at h
    exact .undef rfl h.symm
  | .slice t n es, j, h => by simp [derefToValue] at h
  | .map t n kvs, j, h => by simp [derefToValue] at h
  | .strct id fs, j, h => by simp [derefToValue] at h

theorem toValue_stored (g : GoVal) (j : JS) (h : toValue g = .ok j) : Stored g j := by
  cases g with
  | nil => simp only [toValue, Res.ok.injEq] at h; exact .undef rfl h.symm
  | sc n s =>
    cases n <;> simp only [toValue, Res.ok.injEq] at h
    · exact .direct s rfl h.symm
    · exact .refl true s rfl h.symm
  | ptr g =>
    cases g with
    | strct id fs => simp only [toValue, Res.ok.injEq] at h; exact .obj _ h.symm (by simp [Spec.target, isObjG])
    | nil => simp [toValue, derefToValue] at h
    | sc n s => exact deref_stored (.ptr (.sc n s)) j (by simpa [toValue, derefToValue] using h)
    | ptr g => exact deref_stored (.ptr (.ptr g)) j (by simpa [toValue, derefToValue] using h)
    | nilptr t => exact deref_stored (.ptr (.nilptr t)) j (by simpa [toValue, derefToValue] using h)
    | slice t n es => simp [toValue, derefToValue] at h
    | map t n kvs => simp [toValue, derefToValue] at h
  | nilptr t => simp only [toValue, Res.ok.injEq] at h; exact .undef rfl h.symm
  | slice t n es => simp only [toValue, Res.ok.injEq] at h; exact .obj _ h.symm (by simp [Spec.target, isObjG])
  | map t n kvs => simp only [toValue, Res.ok.injEq] at h; exact .obj _ h.symm (by simp [Spec.target, isObjG])
  | strct id fs => simp only [toValue, Res.ok.injEq] at h; exact .obj _ h.symm (by simp [Spec.target, isObjG])

/-- the stored Value has no float32 payload -/
def NoF32 : JS → Prop
  | .f32 _ => False
  | _ => True

theorem toFloat_eq (E : Env) (g : GoVal) (j : JS) (h : toValue g = .ok j) (hf : NoF32 j) :
    valFloat E j = Spec.toFloat E g := by
  cases toValue_stored g j h with
  | undef a b => subst b; simp [Spec.toFloat, a, valFloat, jsUndef, OttoVerif.C05.toFloat]
  | direct s a b => subst b; cases s <;> simp [Spec.toFloat, a, valFloat, directScalar, OttoVerif.C05.toFloat, Spec.scNumber]
  | refl n s a b =>
    subst b
    cases s <;> simp [Spec.toFloat, a, valFloat, reflectScalar, OttoVerif.C05.toFloat, Spec.scNumber, NoF32] at hf ⊢
  | obj g' a b =>
    subst a
    cases ht : Spec.target g <;> simp [ht, isObjG] at b <;> simp [Spec.toFloat, ht, valFloat]



theorem numberOfFloat_eq (x : FV) : numberOfFloat x = Spec.toIntegerOfNumber x := by
  cases x with
  | nan => simp [numberOfFloat, Spec.toIntegerOfNumber, isZero]
  | inf s => simp [numberOfFloat, Spec.toIntegerOfNumber, isZero]
  | fin s m e =>
    by_cases hm : m = 0
    · subst hm
      simp [numberOfFloat, Spec.toIntegerOfNumber, isZero, Spec.clamp, truncInt, truncAbs, int64Max, int64Min]
    · have hz : isZero (.fin s m e) = false := by
        cases m with
        | zero => exact absurd rfl hm
        | succ k => rfl
      simp only [numberOfFloat, hz, Spec.toIntegerOfNumber, Spec.clamp, int64Max, int64Min]
      simp only [Bool.false_eq_true, if_false]
      generalize truncInt (FV.fin s m e) = t
      split <;> (try split) <;> (try split) <;> (try split) <;> omega

theorem ofInt_small (i : Int) (h : i.natAbs < 2^53) : ofInt i = .fin (decide (i < 0)) i.natAbs 0 := by
  simp [ofInt, h]

theorem numberOfFloat_ofInt_small (i : Int) (h : i.natAbs < 2^53) : numberOfFloat (ofInt i) = Spec.clamp i := by
  rw [numberOfFloat_eq, ofInt_small i h]
  simp only [Spec.toIntegerOfNumber, truncInt, truncAbs]
  simp
  split <;> congr 1 <;> omega



/-- Go's static types bound integer payloads; the kinds whose ToInteger goes through float64
    (int32, uint, uint64) are covered where float64 is exact (|i| < 2^53). -/
def IntOK : Sc → Prop
  | .int .i32 i => i.natAbs < 2^53
  | .int .uint i => i.natAbs < 2^53
  | .int .u64 i => i.natAbs < 2^53
  | .int _ i => -(2^63 : Int) ≤ i ∧ i < 2^63
  | _ => True

def TargetIntOK (g : GoVal) : Prop :=
  match Spec.target g with
  | .sc _ s => IntOK s
  | _ => True

theorem clamp_id (i : Int) (h : -(2^63 : Int) ≤ i ∧ i < 2^63) : Spec.clamp i = i := by
  unfold Spec.clamp int64Max int64Min
  rw [if_neg (by omega), if_neg (by omega)]

theorem valInteger_scalar (E : Env) (s : Sc) (hi : IntOK s) (j : JS)
    (hj : j = directScalar s ∨ (j = reflectScalar s ∧ NoF32 j)) :
    valInteger E j = .ok (match s with | .int _ i => Spec.clamp i | s => Spec.toIntegerOfNumber (Spec.scNumber E s)) := by
  cases s with
  | bool b => rcases hj with rfl | ⟨rfl, _⟩ <;> simp [directScalar, reflectScalar, valInteger, OttoVerif.C05.toFloat, Spec.scNumber, numberOfFloat_eq]
  | f64 x => rcases hj with rfl | ⟨rfl, _⟩ <;> simp [directScalar, reflectScalar, valInteger, OttoVerif.C05.toFloat, Spec.scNumber, numberOfFloat_eq]
  | f32 x =>
    rcases hj with rfl | ⟨rfl, h⟩
    · simp [directScalar, valInteger, OttoVerif.C05.toFloat, Spec.scNumber, numberOfFloat_eq]
    · simp [reflectScalar, NoF32] at h
  | str b => rcases hj with rfl | ⟨rfl, _⟩ <;> simp [directScalar, reflectScalar, valInteger, OttoVerif.C05.toFloat, Spec.scNumber, numberOfFloat_eq]
  | int k i =>
    have hj' : j = .prim (.int k i) := by rcases hj with rfl | ⟨rfl, _⟩ <;> rfl
    subst hj'
    cases k <;> simp only [valInteger, IntOK] at hi ⊢ <;>
      first
        | (rw [clamp_id i hi])
        | (simp only [OttoVerif.C05.toFloat]; rw [numberOfFloat_ofInt_small i hi])

/-- ToInteger: the integer the Go value denotes, clamped to int64 (float payloads: ES5 §9.4). -/
theorem toInteger_partial (E : Env) (g : GoVal) (j : JS) (h : toValue g = .ok j) (hf : NoF32 j)
    (hi : TargetIntOK g) : valInteger E j = Spec.toInteger E g := by
  cases toValue_stored g j h with
  | undef a b => subst b; simp [Spec.toInteger, a, valInteger, jsUndef, OttoVerif.C05.toFloat, numberOfFloat, isZero]
  | direct s a b =>
    simp only [TargetIntOK, a] at hi
    rw [valInteger_scalar E s hi j (.inl b)]
    cases s <;> simp [Spec.toInteger, a]
  | refl n s a b =>
    simp only [TargetIntOK, a] at hi
    rw [valInteger_scalar E s hi j (.inr ⟨b, hf⟩)]
    cases s <;> simp [Spec.toInteger, a]
  | obj g' a b =>
    subst a
    cases ht : Spec.target g <;> simp [ht, isObjG] at b <;> simp [Spec.toInteger, ht, valInteger]

/-- ToBoolean: ES5 §9.2 of the counterpart, unless the payload is a float32 NaN. -/
theorem toBoolean_eq (g : GoVal) (j : JS) (h : toValue g = .ok j) (hn : j ≠ .f32 .nan) :
    valBool j = Spec.toBoolean g := by
  cases toValue_stored g j h with
  | undef a b => subst b; simp [Spec.toBoolean, a, valBool, jsUndef, OttoVerif.C05.toBool]
  | direct s a b =>
    subst b
    cases s with
    | str b => cases b <;> simp [Spec.toBoolean, a, valBool, directScalar, OttoVerif.C05.toBool]
    | _ => simp [Spec.toBoolean, a, valBool, directScalar, OttoVerif.C05.toBool, bne, BEq.beq]
  | refl n s a b =>
    subst b
    cases s with
    | str b => cases b <;> simp [Spec.toBoolean, a, valBool, reflectScalar, OttoVerif.C05.toBool]
    | f32 x =>
      cases x with
      | nan => exact absurd rfl hn
      | _ => simp [Spec.toBoolean, a, valBool, reflectScalar, isNaN]
    | _ => simp [Spec.toBoolean, a, valBool, reflectScalar, OttoVerif.C05.toBool, bne, BEq.beq]
  | obj g' a b =>
    subst a
    cases ht : Spec.target g <;> simp [ht, isObjG] at b <;> simp [Spec.toBoolean, ht, valBool]



theorem numToString_f64 (x : FV) : valString (.prim (.f64 x)) = .ok (Spec.numToString x) := by
  cases x with
  | nan => simp [valString, Spec.numToString, isZero]
  | inf s => simp [valString, Spec.numToString, isZero]
  | fin s m e =>
    cases m with
    | zero => simp [valString, Spec.numToString, isZero]
    | succ k => simp [valString, Spec.numToString, isZero]; split <;> rfl

/-- ToString: ES5 §9.8 of the counterpart (integers: exact decimal digits); `none` marks the finite
    non-whole doubles whose digit string is C06's subject — on both sides alike. -/
theorem toString_eq (g : GoVal) (j : JS) (h : toValue g = .ok j) (hf : NoF32 j) :
    valString j = Spec.toStringG g := by
  cases toValue_stored g j h with
  | undef a b => subst b; simp [Spec.toStringG, a, valString, jsUndef]
  | direct s a b =>
    subst b
    cases s with
    | f32 x => simp only [directScalar, numToString_f64, Spec.toStringG, a]
    | f64 x => simp only [directScalar, numToString_f64, Spec.toStringG, a]
    | _ => simp [Spec.toStringG, a, valString, directScalar]
  | refl n s a b =>
    subst b
    cases s with
    | f32 x => simp [reflectScalar, NoF32] at hf
    | f64 x => simp only [reflectScalar, numToString_f64, Spec.toStringG, a]
    | _ => simp [Spec.toStringG, a, valString, reflectScalar]
  | obj g' a b =>
    subst a
    cases ht : Spec.target g <;> simp [ht, isObjG] at b <;> simp [Spec.toStringG, ht, valString]

/-- with a float32 payload, whatever string the model determines is the spec's string -/
theorem toString_f32 (x : FV) (s : List Nat) (h : valString (.f32 x) = .ok (some s)) :
    Spec.numToString x = some s := by
  cases x with
  | nan => simpa [valString, Spec.numToString, isZero] using h
  | inf b => simpa [valString, Spec.numToString, isZero] using h
  | fin b m e =>
    cases m with
    | zero => simpa [valString, Spec.numToString, isZero] using h
    | succ k =>
      simp only [valString, isZero, Bool.false_eq_true, if_false] at h
      split at h
      · rename_i hw
        have hw' : smallWhole (.fin b (k+1) e) = true := by
          simp only [smallWhole32, smallWhole, Bool.and_eq_true, decide_eq_true_eq] at hw ⊢
          exact ⟨hw.1, by omega⟩
        simp only [Res.ok.injEq] at h
        simp [Spec.numToString, hw', h]
      · simp at h

/-- finite, and not a negative zero -/
def MarshalOK : Sc → Prop
  | .f32 x => (isNaN x || isInf x) = false ∧ (isZero x && signBit x) = false
  | .f64 x => (isNaN x || isInf x) = false ∧ (isZero x && signBit x) = false
  | _ => True

def TargetMarshalOK (g : GoVal) : Prop :=
  match Spec.target g with
  | .sc _ s => MarshalOK s
  | _ => True

theorem marshalNum_ok (x : FV) (h : (isNaN x || isInf x) = false ∧ (isZero x && signBit x) = false) :
    (match x with | .fin .. => Res.ok (JTok.num x) | _ => .err) = .ok (Spec.marshalNum x) := by
  cases x with
  | nan => simp [isNaN] at h
  | inf s => simp [isNaN, isInf] at h
  | fin s m e =>
    cases m with
    | zero => cases s <;> simp [isZero, signBit, isNaN, isInf] at h ⊢ <;> simp [Spec.marshalNum]
    | succ k => simp [Spec.marshalNum]

/-- MarshalJSON of a primitive = JSON.stringify of the counterpart (§15.12.3), integers exact,
    outside the non-finite and negative-zero regions. -/
theorem marshal_eq (g : GoVal) (j : JS) (h : toValue g = .ok j) (hm : TargetMarshalOK g) :
    valMarshal j = Spec.marshal g := by
  cases toValue_stored g j h with
  | undef a b => subst b; simp [Spec.marshal, a, valMarshal, jsUndef]
  | direct s a b =>
    subst b
    simp only [TargetMarshalOK, a] at hm
    cases s with
    | f32 x => simp only [directScalar, valMarshal, Spec.marshal, a]; exact marshalNum_ok x hm
    | f64 x => simp only [directScalar, valMarshal, Spec.marshal, a]; exact marshalNum_ok x hm
    | _ => simp [Spec.marshal, a, valMarshal, directScalar]
  | refl n s a b =>
    subst b
    simp only [TargetMarshalOK, a] at hm
    cases s with
    | f32 x => simp only [reflectScalar, valMarshal, Spec.marshal, a]; exact marshalNum_ok x hm
    | f64 x => simp only [reflectScalar, valMarshal, Spec.marshal, a]; exact marshalNum_ok x hm
    | _ => simp [Spec.marshal, a, valMarshal, reflectScalar]
  | obj g' a b =>
    subst a
    cases ht : Spec.target g <;> simp [ht, isObjG] at b <;> simp [Spec.marshal, ht, valMarshal]

/-- what a script sees (typeof, and the primitive value) is the natural counterpart -/
theorem view_eq (E : Env) (g : GoVal) (j : JS) (h : toValue g = .ok j) (hf : NoF32 j) :
    viewJS E j = Spec.view E g ∧ Res.ok (typeofJS j) = Spec.typeofG g := by
  cases toValue_stored g j h with
  | undef a b => subst b; simp [Spec.view, Spec.typeofG, a, viewJS, typeofJS, jsUndef]
  | direct s a b =>
    subst b
    cases s <;> simp [Spec.view, Spec.typeofG, a, viewJS, typeofJS, directScalar, Spec.scNumber, OttoVerif.C05.toFloat]
  | refl n s a b =>
    subst b
    cases s <;> simp [Spec.view, Spec.typeofG, a, viewJS, typeofJS, reflectScalar, Spec.scNumber, OttoVerif.C05.toFloat, NoF32] at hf ⊢
  | obj g' a b =>
    subst a
    cases ht : Spec.target g <;> simp [ht, isObjG] at b <;> simp [Spec.view, Spec.typeofG, ht, viewJS, typeofJS]

/-! ## Part B -/

theorem ofRatParts_not_nan (s : Bool) (n d : Nat) : isNaN (ofRatParts s n d) = false := by
  unfold ofRatParts
  split
  · rfl
  · split <;> rfl

theorem ofInt_not_nan (i : Int) : isNaN (ofInt i) = false := by
  unfold ofInt
  split
  · rfl
  · split <;> exact ofRatParts_not_nan _ _ _

/-- primitive JavaScript values (and float32-payload numbers) -/
def IsPrim : JS → Prop
  | .prim _ => True
  | .f32 _ => True
  | _ => False

/-- The Value predicates agree with typeof and Number(): IsUndefined/IsDefined/IsNull/IsBoolean/IsNumber/
    IsString/IsObject/IsPrimitive are the typeof table, IsNaN(v) = isNaN(Number(v)) — for every primitive
    value and every Go numeric kind a number Value can carry. -/
theorem predicates_agree (E : Env) (j : JS) (h : IsPrim j) : predsJS E j = Spec.preds E j := by
  cases j with
  | prim v =>
    cases v with
    | int k i =>
      cases k <;> simp [predsJS, Spec.preds, isNaNJS, Spec.toNumberJS, Res.map, kindNum, Val.kind, Spec.typeofJS, Spec.isNullJS, OttoVerif.C05.toFloat, ofInt_not_nan]
    | _ => simp [predsJS, Spec.preds, isNaNJS, Spec.toNumberJS, Res.map, kindNum, Val.kind, Spec.typeofJS, Spec.isNullJS, OttoVerif.C05.toFloat]
  | f32 x => simp [predsJS, Spec.preds, isNaNJS, Spec.toNumberJS, Res.map, kindNum, Spec.typeofJS, Spec.isNullJS]
  | _ => simp [IsPrim] at h

theorem typeof_agree (j : JS) : typeofJS j = Spec.typeofJS j := by
  cases j with
  | prim v => cases v <;> rfl
  | _ => rfl


end OttoVerif.C15.Thm
