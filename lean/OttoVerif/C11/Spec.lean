/-
  C11/Spec — ES5.1 §15.12 (the JSON object), written from the standard.

  §15.12.1  the JSON grammar: the recogniser is `parseText` (C11/Model, lexical layer: JSONWhiteSpace =
            TAB CR LF SP; JSONString characters exclude U+0000–U+001F, `"` and `\`; the eight simple
            escapes and `\uXXXX`; JSONNumber = -? (0 | [1-9][0-9]*) (. [0-9]+)? ([eE][+-]?[0-9]+)?;
            null true false; arrays and objects without trailing commas).  `inJSON t` = it accepts `t`.
  §15.12.2  JSON.parse: the value a text denotes (`denote`): numbers by §9.3.1 (nearest double, ±∞ beyond
            the range), strings code unit by code unit (a `\uXXXX` escape IS one code unit), objects by
            [[DefineOwnProperty]] member after member (a duplicate overwrites the value, keeps the position);
            the reviver walk (`revive`).
  §15.12.3  JSON.stringify: `serial` is the abstract operation Str(key, holder) with its result kept as a
            tree, `render` is the text of that tree (Quote, JO, JA with indent and gap, ToString(Number)).
-/
import OttoVerif.C11.Model
namespace OttoVerif.C11.Spec
open OttoVerif.F64 OttoVerif.C11

/-! ### §15.12.1 / §15.12.2 -/

def inJSON (t : Str) : Bool := (parseText t).isSome

mutual
def denote : RT → JV
  | .null => .null
  | .bool b => .bool b
  | .num n => .num n.value
  | .str s => .str (s.map Item.unit)
  | .arr l => .arr (denoteL l)
  | .obj m => .obj (defineAll .nil (denoteM m))
def denoteL : RTs → JVs
  | .nil => .nil
  | .cons v t => .cons (denote v) (denoteL t)
def denoteM : RMs → JMs
  | .nil => .nil
  | .cons k v t => .cons (k.map Item.unit) (denote v) (denoteM t)
end

/-- JSON.parse(text) without reviver: `none` = SyntaxError -/
def jsonParse (text : Str) : Option JV := (parseText text).map denote

/-! ### §15.12.2 the reviver: Walk(holder, name) -/

mutual
/-- Walk(holder, name) with val = holder.[[Get]](name) passed in (`hk`: the holder is an array 65 / an
    object 79): the elements resp. the own enumerable properties are walked first and replaced by the
    result, or deleted when it is undefined; then the reviver is called on the holder's property.
    Returns what that call did and the (holder kind, key) of the reviver calls in call order. -/
def revive (f : Reviver) : Nat → Nat → Str → RV → RRes × List Str
  | 0, _, _, _ => (⟨none, .none⟩, [])
  | fuel + 1, hk, name, .arr l =>
    let r := reviveArr f fuel 0 (RVs.len l) l            -- 2.a.i: len = val.[[Get]]("length"), once
    (f name (.arr r.1), r.2 ++ [hk :: name])
  | fuel + 1, hk, name, .obj m =>
    let r := reviveObj f fuel (RMs'.keys m) m
    (f name (.obj r.1), r.2 ++ [hk :: name])
  | _ + 1, hk, name, v => (f name v, [hk :: name])
/-- step 2.a.ii-iii: "Repeat while I < len": newElement = Walk(val, ToString(I)) — [[Get]] gives
    undefined for an element that is gone — then [[Delete]] or [[DefineOwnProperty]]; whatever the
    reviver does to the length of `this`, exactly the indices below the ORIGINAL len are visited -/
def reviveArr (f : Reviver) : Nat → Nat → Nat → RVs → RVs × List Str
  | 0, _, _, cur => (cur, [])
  | fuel + 1, i, len, cur =>
    if i < len then
      let r := revive f fuel 65 (decimalNat i) (RVs.getI i cur)
      let cur1 := r.1.eff.onArr cur                    -- what the reviver did to `this`
      let rest := reviveArr f fuel (i + 1) len (match r.1.val with
        | none => RVs.delI i cur1
        | some x => RVs.setI i x cur1)
      (rest.1, r.2 ++ rest.2)
    else (cur, [])
/-- step 2.b: keys = the own enumerable property names, taken BEFORE any is walked; for each P in
    keys: newElement = Walk(val, P) — [[Get]] gives undefined for a property deleted meanwhile, a
    property added meanwhile is not visited — then [[Delete]] or [[DefineOwnProperty]] -/
def reviveObj (f : Reviver) : Nat → List Str → RMs' → RMs' × List Str
  | 0, _, cur => (cur, [])
  | _ + 1, [], cur => (cur, [])
  | fuel + 1, p :: keys, cur =>
    let val := match RMs'.get p cur with
      | some v => v
      | none => .undef
    let r := revive f fuel 79 p val
    let cur1 := r.1.eff.onObj cur                      -- what the reviver did to `this`
    let rest := reviveObj f fuel keys (match r.1.val with
      | none => RMs'.del p cur1
      | some x => RMs'.set p x cur1)
    (rest.1, r.2 ++ rest.2)
end

/-! ### §15.12.3 -/

/-- step 4.b: the PropertyList of an array replacer -/
def PLItem.name (numStr : FV → Str) : PLItem → Option Str
  | .str s => some s
  | .boxStr s => some s
  | .num x => some (numStr x)
  | .boxNum x => some (numStr x)
  | .other => none

def propertyList (numStr : FV → Str) : List PLItem → List Str → List Str
  | [], _ => []
  | it :: rest, seen =>
    match PLItem.name numStr it with
    | none => propertyList numStr rest seen
    | some n => if seen.contains n then propertyList numStr rest seen else n :: propertyList numStr rest (n :: seen)

/-- ToInteger clamped to 0..10 (steps 5-6) -/
def gapCount (x : FV) : Nat :=
  match x with
  | .nan => 0
  | .inf s => if s then 0 else 10
  | .fin s m e => if s then 0 else min 10 (truncAbs m e)

/-- steps 5-8: the gap -/
def gapOf : Space → Str
  | .str s => s.take 10
  | .num x => List.replicate (gapCount x) 32
  | _ => []

structure SCtx where
  repl : Option (Str → SV → SV)
  plist : Option (List Str)
  cv : Conv
  /-- the inherited `toJSON` of an object value, applied to the key (`none`: [[Get]] finds nothing callable) -/
  pj : SV → Str → Option SV

/-- §9.3 ToNumber of a primitive -/
def toNumberPrim (cv : Conv) : Prim → FV
  | .undef => .nan
  | .null => .fin false 0 0
  | .bool true => .fin false 1 0
  | .bool false => .fin false 0 0
  | .num x => x
  | .str s => cv.strNum s

/-- §9.8 ToString of a primitive -/
def toStringPrim (cv : Conv) : Prim → Str
  | .undef => [117, 110, 100, 101, 102, 105, 110, 101, 100]
  | .null => [110, 117, 108, 108]
  | .bool true => [116, 114, 117, 101]
  | .bool false => [102, 97, 108, 115, 101]
  | .num x => cv.numStr x
  | .str s => s

/-- §8.12.8 [[DefaultValue]] with hint Number: valueOf, then toString, else TypeError (`none`);
    the arguments are the results of the two methods (`none` = not callable) -/
def defaultValueNumber (valueOf toString : Option Prim) : Option Prim :=
  match valueOf with
  | some p => some p
  | none => toString

/-- … with hint String: toString, then valueOf -/
def defaultValueString (valueOf toString : Option Prim) : Option Prim :=
  match toString with
  | some p => some p
  | none => valueOf

/-- Str step 4 (and steps 5-6 of JSON.stringify for `space`): a Number object is replaced by
    ToNumber(value), a String object by ToString(value), a Boolean object by its [[PrimitiveValue]] -/
def unbox4 (cv : Conv) : SV → SV
  | .boxNum x => .num x
  | .boxStr s => .str s
  | .boxBool b => .bool b
  | .wrapNum x vo ts =>
    match defaultValueNumber (vo.call (.num x)) (ts.call (.str (cv.numStr x))) with
    | some p => .num (toNumberPrim cv p)
    | none => .raise
  | .wrapStr s vo ts =>
    match defaultValueString (vo.call (.str s)) (ts.call (.str s)) with
    | some p => .str (toStringPrim cv p)
    | none => .raise
  | v => v

/-- steps 5-8 input: the `space` argument after unwrapping -/
def spaceOf (cv : Conv) (arg : Option SV) : Space :=
  match arg with
  | none => .absent
  | some a =>
    match unbox4 cv a with
    | .str s => .str s
    | .num x => .num x
    | .raise => .typeError
    | _ => .other

def isFiniteF : FV → Bool
  | .fin .. => true
  | _ => false

/-- Type(value) is Object (§8) -/
def typeIsObject : SV → Bool
  | .undef | .null | .bool _ | .num _ | .str _ | .raise | .getter .. => false
  | _ => true

/-- Str step 2: "If Type(value) is Object, then: let toJSON be value.[[Get]]("toJSON"); if
    IsCallable(toJSON), value := toJSON.[[Call]](value, key)".  A primitive is never asked. -/
def step2 (pj : SV → Str → Option SV) (key : Str) (v : SV) : SV :=
  match v with
  | .undef | .null | .bool _ | .num _ | .str _ | .raise | .getter .. => v
  | .tojson r => r                               -- an own toJSON
  | v => (pj v key).getD v                       -- an inherited one, if any

mutual
/-- Str(key, holder) (steps 1-11), JA and JO; the holder's property value is passed directly.
    `depth` = length of `stack`. -/
def serial (C : SCtx) : Nat → Nat → Str → SV → WR JV
  | 0, _, _, _ => .oof
  | fuel + 1, depth, key, v0 =>
    let v1 := step2 C.pj key (viaGet v0)          -- 1: [[Get]]; 2: toJSON
    let v2 := match C.repl with                   -- 3: ReplacerFunction
      | some f => f key v1
      | none => v1
    match unbox4 C.cv v2 with                     -- 4
    | .null => .val .null                         -- 5
    | .bool b => .val (.bool b)                   -- 6, 7
    | .str s => .val (.str s)                     -- 8
    | .num x => .val (if isFiniteF x then .num x else .null)     -- 9
    | .raise => .throw
    | .back k => if k < depth then .throw else .val (.obj .nil)  -- JO/JA step 1: cyclic
    | .arr l =>
      match serialArr C fuel (depth + 1) 0 l with
      | .val a => .val (.arr a)
      | .absent => .absent
      | .throw => .throw
      | .oof => .oof
    | .obj m =>
      let r := match C.plist with
        | some ks => serialList C fuel (depth + 1) m ks
        | none => serialObj C fuel (depth + 1) m
      match r with
      | .val a => .val (.obj a)
      | .absent => .absent
      | .throw => .throw
      | .oof => .oof
    | .objP own ne proto =>
      -- JO: K = PropertyList, else the OWN ENUMERABLE keys; each member is value.[[Get]](P), which
      -- finds own properties (enumerable or not) and then follows the prototype chain
      let r := match C.plist with
        | some ks => serialList C fuel (depth + 1) (SMs.app own (SMs.app ne proto)) ks
        | none => serialObj C fuel (depth + 1) own
      match r with
      | .val a => .val (.obj a)
      | .absent => .absent
      | .throw => .throw
      | .oof => .oof
    | .tojson _ => .val (.obj .nil)               -- own property `toJSON` is a function: omitted
    | _ => .absent                                -- 11: undefined, callable objects
/-- JA: every index; undefined becomes null -/
def serialArr (C : SCtx) : Nat → Nat → Nat → SVs → WR JVs
  | 0, _, _, _ => .oof
  | _ + 1, _, _, .nil => .val .nil
  | fuel + 1, depth, i, .cons v t =>
    match serial C fuel depth (decimalNat i) v with
    | .throw => .throw
    | .oof => .oof
    | r =>
      match serialArr C fuel depth (i + 1) t with
      | .val a => .val (.cons (match r with | .val g => g | _ => .null) a)
      | e => e
/-- JO with K = own enumerable keys: members whose Str is undefined are omitted -/
def serialObj (C : SCtx) : Nat → Nat → SMs → WR JMs
  | 0, _, _ => .oof
  | _ + 1, _, .nil => .val .nil
  | fuel + 1, depth, .cons k v t =>
    match serial C fuel depth k v with
    | .throw => .throw
    | .oof => .oof
    | r =>
      match serialObj C fuel depth t with
      | .val a => .val (match r with | .val g => .cons k g a | _ => a)
      | e => e
/-- JO with K = PropertyList -/
def serialList (C : SCtx) : Nat → Nat → SMs → List Str → WR JMs
  | 0, _, _, _ => .oof
  | _ + 1, _, _, [] => .val .nil
  | fuel + 1, depth, m, k :: ks =>
    match serial C fuel depth k (SMs.get k m) with
    | .throw => .throw
    | .oof => .oof
    | r =>
      match serialList C fuel depth m ks with
      | .val a => .val (match r with | .val g => .cons k g a | _ => a)
      | e => e
end

/-- Quote(value) -/
def escChar (c : Nat) : Str :=
  if c = 34 then [92, 34]
  else if c = 92 then [92, 92]
  else if c = 8 then [92, 98]
  else if c = 12 then [92, 102]
  else if c = 10 then [92, 110]
  else if c = 13 then [92, 114]
  else if c = 9 then [92, 116]
  else if c < 32 then 92 :: 117 :: hex4 c
  else [c]

def quote (s : Str) : Str := 34 :: (s.flatMap escChar ++ [34])

/-- the line break before an item at indentation `ind` (nothing when the gap is empty) -/
def sep (gap ind : Str) : Str := if gap.isEmpty then [] else 10 :: ind

mutual
/-- the text of a serialisation tree at indentation `ind` (JO steps 8-11, JA steps 6-10) -/
def render (gap : Str) : Str → JV → Str
  | _, .null => nullT
  | _, .bool b => if b then trueT else falseT
  | _, .str s => quote s
  | _, .num x => C06.Spec.toStringNum x
  | _, .arr .nil => [91, 93]
  | ind, .arr (.cons v t) => 91 :: (sep gap (ind ++ gap) ++ render gap (ind ++ gap) v ++ renderL gap ind t)
  | _, .obj .nil => [123, 125]
  | ind, .obj (.cons k v t) =>
    123 :: (sep gap (ind ++ gap) ++ quote k ++ colon gap ++ render gap (ind ++ gap) v ++ renderM gap ind t)
def renderL (gap : Str) : Str → JVs → Str
  | ind, .nil => sep gap ind ++ [93]
  | ind, .cons v t => 44 :: (sep gap (ind ++ gap) ++ render gap (ind ++ gap) v ++ renderL gap ind t)
def renderM (gap : Str) : Str → JMs → Str
  | ind, .nil => sep gap ind ++ [125]
  | ind, .cons k v t =>
    44 :: (sep gap (ind ++ gap) ++ quote k ++ colon gap ++ render gap (ind ++ gap) v ++ renderM gap ind t)
end

def sctxOf (cv : Conv) (pj : SV → Str → Option SV) : Replacer → SCtx
  | .none => { repl := none, plist := none, cv := cv, pj := pj }
  | .list items => { repl := none, plist := some (propertyList cv.numStr items []), cv := cv, pj := pj }
  | .fn f => { repl := some f, plist := none, cv := cv, pj := pj }

/-- JSON.stringify(value, replacer, space) -/
def jsonStringify (cv : Conv) (pj : SV → Str → Option SV) (fuel : Nat) (v : SV) (r : Replacer) (sp : Space) : Out :=
  if (match sp with | .typeError => true | _ => false) then .typeError else
  match serial (sctxOf cv pj r) fuel 0 [] v with
  | .val t => .text (render (gapOf sp) [] t)
  | .absent => .undef
  | .throw => .typeError
  | .oof => .oof

/-! ### deviation regions (decidable predicates on the request) -/

/-- an escaped surrogate half that is not part of an escaped high+low pair -/
def loneEsc : List Item → Bool
  | [] => false
  | .raw _ :: t => loneEsc t
  | [.esc u] => isSurr u
  | .esc u :: .esc w :: t => if isHi u ∧ isLo w then loneEsc t else isSurr u || loneEsc (.esc w :: t)
  | .esc u :: .raw _ :: t => isSurr u || loneEsc t

mutual
/-- some string literal (value or key) of the syntax tree satisfies `ps` -/
def rtAny (ps : List Item → Bool) : RT → Bool
  | .str s => ps s
  | .arr l => rtAnyL ps l
  | .obj m => rtAnyM ps m
  | _ => false
def rtAnyL (ps : List Item → Bool) : RTs → Bool
  | .nil => false
  | .cons v t => rtAny ps v || rtAnyL ps t
def rtAnyM (ps : List Item → Bool) : RMs → Bool
  | .nil => false
  | .cons k v t => ps k || rtAny ps v || rtAnyM ps t
end

/-- the characters Go's encoder escapes although Quote copies them: U+2028 and U+2029 -/
def lsps (c : Nat) : Bool := c = 0x2028 || c = 0x2029

def sortedKeys : JMs → Bool
  | .nil => true
  | .cons _ _ .nil => true
  | .cons k _ (.cons k' v' t) => ltKeyBytes k k' && sortedKeys (.cons k' v' t)

mutual
def jvAny (ps : Str → Bool) (pm : JMs → Bool) : JV → Bool
  | .str s => ps s
  | .arr l => jvAnyL ps pm l
  | .obj m => pm m || jvAnyM ps pm m
  | _ => false
def jvAnyL (ps : Str → Bool) (pm : JMs → Bool) : JVs → Bool
  | .nil => false
  | .cons v t => jvAny ps pm v || jvAnyL ps pm t
def jvAnyM (ps : Str → Bool) (pm : JMs → Bool) : JMs → Bool
  | .nil => false
  | .cons k v t => ps k || jvAny ps pm v || jvAnyM ps pm t
end

def no1 {α : Type} : α → Bool := fun _ => false

/-- the first ten code units of a string gap hold an unpaired surrogate (possibly a pair cut in two) -/
def gapLone (sp : Space) : Bool :=
  match sp with
  | .str s => goStr (s.take 10) != s.take 10
  | _ => false

end OttoVerif.C11.Spec
