/-
  C11/Theorems — the ledger for property C11.  Every `theorem` in this file is audited
  (`#print axioms` ⊆ {propext, Classical.choice, Quot.sound}) on every run.

  Model = otto's code (C11/Model), Spec = ES5 15.12 (C11/Spec).  Deviation regions are the decidable
  predicates of C11/Spec ("deviation regions"); each has a kernel-checked witness below.
-/
import OttoVerif.C11.Lemmas
namespace OttoVerif.C11.Thm
open OttoVerif.C11 OttoVerif.C11.Spec OttoVerif.C11.Lem
open OttoVerif.F64 (FV)

/-! ## JSON.parse -/

/-- `grammar_accepts`: otto accepts exactly the texts of the ES5 JSON grammar, except that a number
    literal outside the double range is rejected (region parse_num_overflow).  The hypothesis
    `goStr t = t` says the text has no unpaired surrogate (region parse_lone_surrogate). -/
theorem grammar_accepts (t : Str) (hs : goStr t = t)
    (hov : ∀ rt, parseText t = some rt → rtAny overflows (fun _ => false) rt = false) :
    (C11.jsonParse t).isSome = inJSON t := by
  unfold C11.jsonParse inJSON
  rw [hs]
  cases h : parseText t with
  | none => rfl
  | some rt =>
    obtain ⟨v, hv⟩ := decode_some rt (hov rt h)
    simp [hv]

/-- every text the grammar rejects is rejected by otto (SyntaxError), with no exception -/
theorem rejects_invalid (t : Str) (hs : goStr t = t) (h : inJSON t = false) : C11.jsonParse t = none := by
  unfold C11.jsonParse; unfold inJSON at h
  rw [hs]; cases hp : parseText t <;> simp_all

/-- `denotation`: outside the overflow and lone-surrogate regions an accepted text yields the value
    ES5 prescribes, up to the order of object properties (`canon` sorts the keys of both sides). -/
theorem denotation (t : Str) (hs : goStr t = t) (rt : RT) (hp : parseText t = some rt)
    (hc : rtAny overflows loneEsc rt = false) :
    C11.jsonParse t = (Spec.jsonParse t).map canon := by
  unfold C11.jsonParse Spec.jsonParse
  rw [hs, hp]; simp [decode_eq rt hc]

/-- … and exactly that value when no object of the result has two or more properties
    (outside region parse_key_order) -/
theorem denotation_exact (t : Str) (hs : goStr t = t) (rt : RT) (hp : parseText t = some rt)
    (hc : rtAny overflows loneEsc rt = false) (hu : unordered (denote rt) = false) :
    C11.jsonParse t = Spec.jsonParse t := by
  rw [denotation t hs rt hp hc]
  unfold Spec.jsonParse; rw [hp]; simp [canon_id _ hu]

/-- string literals: Go's unquote equals the ES5 code-unit reading unless an escaped surrogate half
    is unpaired -/
theorem string_literal_eq (s : List Item) (h : loneEsc s = false) : goCombine s = s.map Item.unit :=
  goCombine_eq s h

/-- `reviver_order`: for EVERY reviver function and every parsed value (objects have pairwise distinct
    property names, as every object has) builtinJSONReviveWalk makes exactly the calls ES5 15.12.2
    Walk makes — bottom-up, holder/key arguments, property or element deleted on undefined and
    redefined otherwise — in the same order, with the same result, for the property order given. -/
theorem reviver_order (f : Reviver) (fuel : Nat) (name : Str) (v : RV) (h : distinctKeys v = true) :
    reviveM f fuel name v = Spec.revive f fuel name v :=
  reviveM_eq f fuel name v h

/-! ## JSON.stringify: the rule table -/

/-- `stringify_rules`: for EVERY value tree, replacer function, property list, key and stack depth the
    walk of builtinJSONStringifyWalk produces the Go image (`gvOf`) of the tree ES5's Str/JO/JA
    produce: toJSON first, then the replacer function, then unboxing of Number/String/Boolean objects,
    undefined and functions omitted from objects and null in arrays, non-finite numbers null,
    TypeError exactly on a reference to an enclosing container (cycle), property-list filtering.
    (`gvOf` is where the remaining differences live: keys go through a Go map, strings through
    `goStr`, numbers through `walkNum`; they are the str_* regions.) -/
theorem stringify_rules (M : MCtx) (S : SCtx) (hr : M.repl = S.repl) (hp : M.plist = S.plist)
    (fuel depth : Nat) (key : Str) (v : SV) :
    walk M fuel depth key v = WR.map gvOf (serial S fuel depth key v) :=
  walk_eq M S hr hp fuel depth key v

/-- `cycle_detect`: a reference to the k-th enclosing container throws exactly when it is enclosed
    (k < depth), in the model and in the spec alike, whatever the replacer does not change -/
theorem cycle_detect (M : MCtx) (hn : M.repl = none) (fuel depth k : Nat) (key : Str) (h : k < depth) :
    walk M (fuel + 1) depth key (.back k) = .throw := by
  simp [walk, hn, viaToJSON, unbox, h]

/-- undefined / function: absent at top level and in objects … -/
theorem omit_undefined_function (M : MCtx) (hn : M.repl = none) (fuel depth : Nat) (key : Str) :
    walk M (fuel + 1) depth key .undef = .absent ∧ walk M (fuel + 1) depth key .func = .absent := by
  simp [walk, hn, viaToJSON, unbox]

/-- … and `null` inside arrays -/
theorem array_undefined_is_null (M : MCtx) (hn : M.repl = none) (fuel depth i : Nat) :
    walkArr M (fuel + 3) depth i (.cons .undef (.cons .func .nil)) = .val (.cons .nil (.cons .nil .nil)) := by
  simp [walkArr, walk, hn, viaToJSON, unbox]

/-- the gap never exceeds ten characters (ES5 15.12.3 steps 6-7), for every `space` argument -/
theorem spec_gap_le_10 (sp : Space) : (Spec.gapOf sp).length ≤ 10 := by
  cases sp with
  | str s => simp [Spec.gapOf]; omega
  | num x =>
    cases x with
    | nan => simp [Spec.gapOf, Spec.gapCount]
    | inf s => cases s <;> simp [Spec.gapOf, Spec.gapCount]
    | fin s m e => simp only [Spec.gapOf, Spec.gapCount, List.length_replicate]; split <;> omega
  | _ => simp [Spec.gapOf]

/-- a numeric `space` gives the same gap in otto as in ES5 (clamped to 0..10), for every double -/
theorem gap_number_eq (x : FV) : C11.gapOf (.num x) = Spec.gapOf (.num x) := by
  cases x with
  | nan => rfl
  | inf s => rfl
  | fin s m e =>
    simp only [C11.gapOf, Spec.gapOf, C11.gapCount, Spec.gapCount, Nat.min_def]
    cases s
    · simp only [Bool.false_eq_true, if_false]
      split <;> split <;> first | rfl | (congr 1; omega)
    · rfl

/-! ## JSON.stringify: the emitted text -/

/-- `stringify_valid` + `roundtrip_value`: for EVERY Go value tree the walk can produce (all code
    units incl. controls, quotes, U+2028/9 and surrogate halves; any nesting), with a white-space gap,
    the text written by json.Marshal+Indent is accepted by the ES5 JSON grammar, and reading it back
    gives exactly that tree (`jvOf`): strings code unit for code unit, containers element by element,
    numbers as the value of their printed digits.  The reading falls in no parse deviation region, so
    otto's own JSON.parse returns the same tree up to key order.  `GOK` asks that code units are
    below 2^16 and that each printed number is a JSONNumber in range (`NumTxt`, validated per sample). -/
theorem stringify_valid (L : OttoVerif.C06.Lib) (gap : Str) (hgap : gap.all isWS = true) (g : GV) (hg : GOK L g) :
    inJSON (marshal L gap 0 g) = true ∧
    Spec.jsonParse (marshal L gap 0 g) = some (jvOf L g) ∧
    (parseText (marshal L gap 0 g)).bind decode = some (canon (jvOf L g)) := by
  obtain ⟨rt, h1, h2, h3⟩ := parseText_marshal L gap hgap g hg
  refine ⟨by simp [inJSON, h1], by simp [Spec.jsonParse, h1, h2], ?_⟩
  simp [h1, decode_eq rt h3, h2]

/-- a quoted string reads back code unit for code unit (Go's escaping incl. the HTML-safe escapes) -/
theorem quote_roundtrip (s : Str) (hs : ∀ c ∈ s, c < 65536) (rest : List Nat) :
    ∃ items, scanString (s.flatMap goEscChar ++ 34 :: rest) = some (items, rest) ∧
      items.map Item.unit = s ∧ goCombine items = s := by
  obtain ⟨items, h1, h2, h3⟩ := scan_goQuote s hs rest
  exact ⟨items, h1, h2, by rw [goCombine_eq items h3, h2]⟩

/-- outside region str_html_escape Go's string escaping IS ES5's Quote, for every string -/
theorem quote_eq (s : Str) (h : s.any htmlChar = false) : goQuote s = quote s := goQuote_eq s h

/-! ## non-vacuity -/

example : GOK OttoVerif.C06.Spec.exactLib (.arr (.cons (.str [60, 0xD83D, 0xDE00, 10]) (.cons .nil (.cons (.map (.cons [97] (.bool true) .nil)) .nil)))) := by
  simp [GOK, GOKL, GOKM, unitsOK]

example : inJSON (marshal OttoVerif.C06.Spec.exactLib [32, 32] 0
    (.arr (.cons (.str [60, 10]) (.cons .nil (.cons (.map (.cons [97] (.bool true) .nil)) .nil))))) = true := by decide +kernel

/-! ## deviation witnesses (model ≠ spec, kernel-checked) -/

def firstStr : Option JV → Str
  | some (.str s) => s
  | _ => []
def firstKey : Option JV → Str
  | some (.obj (.cons k _ _)) => k
  | _ => []

/-- parse_num_overflow: the text 1e999 -/
example : C11.jsonParse [49, 101, 57, 57, 57] ≠ Spec.jsonParse [49, 101, 57, 57, 57] :=
  fun h => absurd (congrArg Option.isSome h) (by decide +kernel)
/-- parse_lone_surrogate: a string literal holding the escape for 0xD800 -/
example : C11.jsonParse [34, 92, 117, 100, 56, 48, 48, 34] ≠ Spec.jsonParse [34, 92, 117, 100, 56, 48, 48, 34] :=
  fun h => absurd (congrArg firstStr h) (by decide +kernel)
/-- parse_key_order: {"b":null,"a":null} — the model keeps the property SET (sorted), ES5 the text order -/
example : C11.jsonParse [123, 34, 98, 34, 58, 110, 117, 108, 108, 44, 34, 97, 34, 58, 110, 117, 108, 108, 125]
    ≠ Spec.jsonParse [123, 34, 98, 34, 58, 110, 117, 108, 108, 44, 34, 97, 34, 58, 110, 117, 108, 108, 125] :=
  fun h => absurd (congrArg firstKey h) (by decide +kernel)

example : distinctKeys (.obj (.cons [97] .null (.cons [98] (.arr (.cons (.obj .nil) .nil)) .nil))) = true := by decide

def idNum : FV → Str := fun _ => [48]

/-- str_key_order: {b:null,a:null} -/
example : C11.jsonStringify OttoVerif.C06.Spec.exactLib idNum 9 (.obj (.cons [98] .null (.cons [97] .null .nil))) .none .absent
    ≠ Spec.jsonStringify idNum 9 (.obj (.cons [98] .null (.cons [97] .null .nil))) .none .absent := by decide +kernel
/-- str_html_escape: "<" -/
example : C11.jsonStringify OttoVerif.C06.Spec.exactLib idNum 9 (.str [60]) .none .absent
    ≠ Spec.jsonStringify idNum 9 (.str [60]) .none .absent := by decide +kernel
/-- str_lone_surrogate: "\ud800" -/
example : C11.jsonStringify OttoVerif.C06.Spec.exactLib idNum 9 (.str [0xD800]) .none .absent
    ≠ Spec.jsonStringify idNum 9 (.str [0xD800]) .none .absent := by decide +kernel
/-- str_proplist_slots: {"":null,a:true} with replacer [true,"a"] -/
example : C11.jsonStringify OttoVerif.C06.Spec.exactLib idNum 9 (.obj (.cons [] .null (.cons [97] (.bool true) .nil))) (.list [.other, .str [97]]) .absent
    ≠ Spec.jsonStringify idNum 9 (.obj (.cons [] .null (.cons [97] (.bool true) .nil))) (.list [.other, .str [97]]) .absent := by decide +kernel
/-- str_int_digits: 2^62 -/
example : C11.jsonStringify OttoVerif.C06.Spec.exactLib idNum 9 (.num (.fin false (2 ^ 52) 10)) .none .absent
    ≠ Spec.jsonStringify idNum 9 (.num (.fin false (2 ^ 52) 10)) .none .absent := by decide +kernel
/-- str_gap_bytes: seven times U+00E9 -/
example : C11.gapOf (.str [0xE9, 0xE9, 0xE9, 0xE9, 0xE9, 0xE9, 0xE9]) ≠ Spec.gapOf (.str [0xE9, 0xE9, 0xE9, 0xE9, 0xE9, 0xE9, 0xE9]) := by decide +kernel

end OttoVerif.C11.Thm
