/-
  C11/Theorems — the ledger for property C11.  Every `theorem` in this file is audited
  (`#print axioms` ⊆ {propext, Classical.choice, Quot.sound}) on every run.

  Model = otto's code (C11/Model), Spec = ES5 15.12 (C11/Spec).  Deviation regions are the decidable
  predicates of C11/Spec ("deviation regions"); each has a kernel-checked witness below.
-/
import OttoVerif.C11.Lemmas
namespace OttoVerif.C11.Thm
open OttoVerif.C11 OttoVerif.C11.Spec OttoVerif.C11.Lem
open OttoVerif.F64 (FV)

/-! ## JSON.parse -/

/-- `grammar_accepts`: otto accepts exactly the texts of the ES5 JSON grammar.  The hypothesis
    `goStr t = t` says the text has no unpaired surrogate (region parse_lone_surrogate). -/
theorem grammar_accepts (t : Str) (hs : goStr t = t) : (C11.jsonParse t).isSome = inJSON t := by
  unfold C11.jsonParse inJSON
  rw [hs]
  cases h : parseText t with
  | none => rfl
  | some rt =>
    obtain ⟨v, hv⟩ := decode_some rt
    simp [hv]

/-- every text the grammar rejects is rejected by otto (SyntaxError), with no exception -/
theorem rejects_invalid (t : Str) (hs : goStr t = t) (h : inJSON t = false) : C11.jsonParse t = none := by
  unfold C11.jsonParse; unfold inJSON at h
  rw [hs]; cases hp : parseText t <;> simp_all

/-- `denotation`: an accepted text yields exactly the value ES5 prescribes — numbers as the nearest
    double (±∞ beyond the range), strings code unit by code unit, properties in text order with a
    duplicate overwriting the value — unless a string literal holds an escaped surrogate half that is
    not paired (region parse_lone_surrogate). -/
theorem denotation (t : Str) (hs : goStr t = t) (rt : RT) (hp : parseText t = some rt)
    (hc : rtAny loneEsc rt = false) :
    C11.jsonParse t = Spec.jsonParse t := by
  unfold C11.jsonParse Spec.jsonParse
  rw [hs, hp]; simp [decode_eq rt hc]

/-- string literals: Go's unquote equals the ES5 code-unit reading unless an escaped surrogate half
    is unpaired -/
theorem string_literal_eq (s : List Item) (h : loneEsc s = false) : goCombine s = s.map Item.unit :=
  goCombine_eq s h

/-- `reviver_order`: for EVERY reviver — also one that changes its holder while it runs (deletes or
    adds a sibling key, sets the array's length, pushes, pops, deletes or assigns an element ahead or
    behind) — and every parsed value, builtinJSONReviveWalk makes exactly the calls ES5 15.12.2 Walk
    makes: bottom-up; for an array the indices below the length READ ONCE before the loop, for an object
    the keys taken before any is walked (a property or element gone meanwhile is still visited, with
    undefined; one added meanwhile is not); holder/key arguments; deleted on undefined and (re)defined
    otherwise; same order, same result. -/
theorem reviver_order (f : Reviver) (fuel hk : Nat) (name : Str) (v : RV) :
    reviveM f fuel hk name v = Spec.revive f fuel hk name v :=
  reviveM_eq f fuel hk name v

/-- a reviver that pushes onto its holder on every call terminates after the original elements:
    the array loop makes at most `len - i` reviver calls for its own level whatever the reviver does
    (here: the loop at index `len` is over) -/
theorem revive_array_stops (f : Reviver) (fuel len : Nat) (cur : RVs) :
    reviveArrM f (fuel + 1) len len cur = (cur, []) := by
  simp [reviveArrM]

/-- shrinking the holder: `[1,2,3,4]` with a reviver that sets `this.length = 2` when called for "1":
    the calls are 0,1,2,3 (then the root) and the result is [1,2,hole,hole] -/
example : (reviveTop (fun k v => ⟨some v, if k = [49] then .setLen 2 else .none⟩) 9
      (.arr (.cons (.num .nan) (.cons .null (.cons (.bool true) (.cons (.bool false) .nil)))))).2
    = [[65, 48], [65, 49], [65, 50], [65, 51], [79]] := by decide +kernel

/-! ## JSON.stringify: the rule table -/

/-- `stringify_rules`: for EVERY value tree, replacer function, property list, key and stack depth the
    walk of builtinJSONStringifyWalk produces the Go image (`gvOf`) of the tree ES5's Str/JO/JA
    produce: toJSON first, then the replacer function, then unboxing of Number/String/Boolean objects,
    accessor properties read through their getter, undefined and functions omitted from objects and
    null in arrays, non-finite numbers null,
    TypeError exactly on a reference to an enclosing container (cycle), property-list filtering.
    (`gvOf` is where the remaining differences live: keys go through a Go map, strings through
    `goStr`, numbers through `walkNum`; they are the str_* regions.) -/
theorem stringify_rules (M : MCtx) (S : SCtx) (hr : M.repl = S.repl) (hp : M.plist = S.plist) (hc : M.cv = S.cv)
    (hj : M.pj = S.pj) (fuel depth : Nat) (key : Str) (v : SV) :
    walk M fuel depth key v = WR.map gvOf (serial S fuel depth key v) :=
  walk_eq M S hr hp hc hj fuel depth key v

def smHas (k : Str) : SMs → Bool
  | .nil => false
  | .cons k' _ t => k' == k || smHas k t

/-- `inherited_get`: the member a property list names is read with [[Get]] — an own property
    (enumerable or not) shadows the prototype's, and a name the object does not own is looked up on the
    prototype chain (`objP own nonEnum proto` is looked up in own ++ nonEnum ++ proto) -/
theorem inherited_get (k : Str) (rest : SMs) : ∀ own : SMs,
    SMs.get k (SMs.app own rest) = if smHas k own then SMs.get k own else SMs.get k rest
  | .nil => by simp [SMs.app, smHas]
  | .cons k' v t => by
    by_cases h : k' = k
    · simp [SMs.app, SMs.get, smHas, h]
    · simp [SMs.app, SMs.get, smHas, h, inherited_get k rest t]

/-- `tojson_objects_only`: whatever toJSON methods or getters sit on String.prototype,
    Number.prototype, Boolean.prototype or Object.prototype (`pj`), a PRIMITIVE value — undefined,
    null, boolean, number, string — is never asked for one (ES5 15.12.3 Str step 2: "If Type(value) is
    Object"); for an object an own toJSON comes before an inherited one. -/
theorem tojson_objects_only (pj : SV → Str → Option SV) (key : Str) :
    viaToJSON pj key .undef = .undef ∧ viaToJSON pj key .null = .null ∧
    (∀ b, viaToJSON pj key (.bool b) = .bool b) ∧ (∀ x, viaToJSON pj key (.num x) = .num x) ∧
    (∀ s, viaToJSON pj key (.str s) = .str s) ∧ (∀ r, viaToJSON pj key (.tojson r) = r) := by
  simp [viaToJSON, isObjectKind]

/-- the lookup agrees with ES5 on every value and every prototype pollution -/
theorem tojson_step_eq (pj : SV → Str → Option SV) (key : Str) (v : SV) : viaToJSON pj key v = step2 pj key v :=
  viaToJSON_eq pj key v

/-- `wrapper_unboxing`: a Number object is serialised as ToNumber of it and a String object as ToString
    of it — [[DefaultValue]] calls `valueOf` / `toString` in the order of the hint, an own method
    overrides the inherited one, a non-callable one is passed over, TypeError when neither is callable —
    for every scripted pair of methods; a Boolean object gives its internal value.  The same function
    unwraps the `space` argument (`spaceOf`). -/
theorem wrapper_unboxing (cv : Conv) (v : SV) : unbox cv v = unbox4 cv v := unbox_eq cv v

theorem space_arg_eq (cv : Conv) (a : Option SV) : C11.spaceOf cv a = Spec.spaceOf cv a := by
  cases a with
  | none => rfl
  | some v =>
    simp only [C11.spaceOf, Spec.spaceOf, unbox_eq]
    cases unbox4 cv v <;> rfl

/-- `new Number(1)` with an own `valueOf` returning 42 serialises as the number 42 -/
example (cv : Conv) : unbox cv (.wrapNum (.fin false 1 0) (.ret (.num (.fin false 42 0))) .inherited) = .num (.fin false 42 0) := rfl
/-- `toString = null` and a custom `valueOf` on a String object: ToString falls back to valueOf -/
example (cv : Conv) : unbox cv (.wrapStr [97] (.ret (.str [98])) .notCallable) = .str [98] := rfl

/-- `cycle_detect`: a reference to the k-th enclosing container throws exactly when it is enclosed
    (k < depth), in the model and in the spec alike, whatever the replacer does not change -/
theorem cycle_detect (M : MCtx) (hn : M.repl = none) (fuel depth k : Nat) (key : Str) (h : k < depth)
    (hj : M.pj (.back k) key = none) :
    walk M (fuel + 1) depth key (.back k) = .throw := by
  simp [walk, hn, viaToJSON, isObjectKind, hj, viaGet, unbox, h]

/-- undefined / function: absent at top level and in objects … -/
theorem omit_undefined_function (M : MCtx) (hn : M.repl = none) (fuel depth : Nat) (key : Str)
    (hj : M.pj .func key = none) :
    walk M (fuel + 1) depth key .undef = .absent ∧ walk M (fuel + 1) depth key .func = .absent := by
  simp [walk, hn, viaToJSON, isObjectKind, hj, viaGet, unbox]

/-- … and `null` inside arrays -/
theorem array_undefined_is_null (M : MCtx) (hn : M.repl = none) (fuel depth i : Nat)
    (hj : ∀ k, M.pj .func k = none) :
    walkArr M (fuel + 3) depth i (.cons .undef (.cons .func .nil)) = .val (.cons .nil (.cons .nil .nil)) := by
  simp [walkArr, walk, hn, viaToJSON, isObjectKind, hj, viaGet, unbox]

/-- the gap never exceeds ten characters (ES5 15.12.3 steps 6-7), for every `space` argument -/
theorem spec_gap_le_10 (sp : Space) : (Spec.gapOf sp).length ≤ 10 := by
  cases sp with
  | str s => simp [Spec.gapOf]; omega
  | num x =>
    cases x with
    | nan => simp [Spec.gapOf, Spec.gapCount]
    | inf s => cases s <;> simp [Spec.gapOf, Spec.gapCount]
    | fin s m e => simp only [Spec.gapOf, Spec.gapCount, List.length_replicate]; split <;> omega
  | _ => simp [Spec.gapOf]

/-- a numeric `space` gives the same gap in otto as in ES5 (clamped to 0..10), for every double -/
theorem gap_number_eq (x : FV) : C11.gapOf (.num x) = Spec.gapOf (.num x) := by
  cases x with
  | nan => rfl
  | inf s => rfl
  | fin s m e =>
    simp only [C11.gapOf, Spec.gapOf, C11.gapCount, Spec.gapCount, Nat.min_def]
    cases s
    · simp only [Bool.false_eq_true, if_false]
      split <;> split <;> first | rfl | (congr 1; omega)
    · rfl

/-- a string `space` gives the ES5 gap (its first ten code units) unless those hold an unpaired
    surrogate (region str_lone_surrogate) -/
theorem gap_string_eq (s : Str) (h : goStr (s.take 10) = s.take 10) : C11.gapOf (.str s) = Spec.gapOf (.str s) := by
  simp [C11.gapOf, Spec.gapOf, h]

/-- the array replacer: otto's property list is ES5's PropertyList (15.12.3 step 4.b) for every
    replacer array whose names need no surrogate repair — accepted names in order, duplicates and
    other values skipped -/
theorem property_list_eq (numStr : FV → Str) (items : List PLItem)
    (h : ∀ it ∈ items, C11.PLItem.name numStr it = Spec.PLItem.name numStr it) :
    C11.propertyList numStr items = Spec.propertyList numStr items [] := by
  unfold C11.propertyList
  generalize ([] : List Str) = seen
  induction items generalizing seen with
  | nil => rfl
  | cons it rest ih =>
    have h1 := h it (by simp)
    have h2 : ∀ x ∈ rest, C11.PLItem.name numStr x = Spec.PLItem.name numStr x :=
      fun x hx => h x (List.mem_cons_of_mem _ hx)
    simp only [plNames, Spec.propertyList, h1]
    cases Spec.PLItem.name numStr it with
    | none => exact ih h2 seen
    | some n => by_cases hc : seen.contains n = true <;> simp [hc, ih h2]

/-! ## JSON.stringify: the emitted text -/

/-- `stringify_valid` + `roundtrip_value`: for EVERY Go value tree the walk can produce (all code
    units incl. controls, quotes, U+2028/9 and surrogate halves; any nesting), with a white-space gap,
    the text written by json.Marshal+Indent is accepted by the ES5 JSON grammar, and reading it back
    gives exactly that tree (`jvOf`): strings code unit for code unit, containers element by element,
    numbers as the value of their printed digits.  The reading falls in no parse deviation region, so
    otto's own JSON.parse returns the same tree.  `GOK` asks that code units are below 2^16 and that
    each printed number is a JSONNumber (`NumTxt`, validated per sample). -/
theorem stringify_valid (L : OttoVerif.C06.Lib) (gap : Str) (hgap : gap.all isWS = true) (g : GV) (hg : GOK L g) :
    inJSON (marshal L gap 0 g) = true ∧
    Spec.jsonParse (marshal L gap 0 g) = some (jvOf L g) ∧
    (parseText (marshal L gap 0 g)).bind decode = some (jvOf L g) := by
  obtain ⟨rt, h1, h2, h3⟩ := parseText_marshal L gap hgap g hg
  refine ⟨by simp [inJSON, h1], by simp [Spec.jsonParse, h1, h2], ?_⟩
  simp [h1, decode_eq rt h3, h2]

/-- a quoted string reads back code unit for code unit (Go's escaping incl. the HTML-safe escapes) -/
theorem quote_roundtrip (s : Str) (hs : ∀ c ∈ s, c < 65536) (rest : List Nat) :
    ∃ items, scanString (s.flatMap goEscChar ++ 34 :: rest) = some (items, rest) ∧
      items.map Item.unit = s ∧ goCombine items = s := by
  obtain ⟨items, h1, h2, h3⟩ := scan_goQuote s hs rest
  exact ⟨items, h1, h2, by rw [goCombine_eq items h3, h2]⟩

/-- outside region str_u2028_escape Go's string escaping IS ES5's Quote, for every string -/
theorem quote_eq (s : Str) (h : s.any lsps = false) : goQuote s = quote s := goQuote_eq s h

/-! ## non-vacuity -/

example : GOK OttoVerif.C06.Spec.exactLib (.arr (.cons (.str [60, 0xD83D, 0xDE00, 10]) (.cons .nil (.cons (.map (.cons [97] (.bool true) .nil)) .nil)))) := by
  simp [GOK, GOKL, GOKM, unitsOK]

example : inJSON (marshal OttoVerif.C06.Spec.exactLib [32, 32] 0
    (.arr (.cons (.str [60, 10]) (.cons .nil (.cons (.map (.cons [97] (.bool true) .nil)) .nil))))) = true := by decide +kernel

/-! ## deviation witnesses (model ≠ spec, kernel-checked) -/

def firstStr : Option JV → Str
  | some (.str s) => s
  | _ => []

/-- parse_lone_surrogate: a string literal holding the escape for 0xD800 -/
example : C11.jsonParse [34, 92, 117, 100, 56, 48, 48, 34] ≠ Spec.jsonParse [34, 92, 117, 100, 56, 48, 48, 34] :=
  fun h => absurd (congrArg firstStr h) (by decide +kernel)

def idNum : Conv := { numStr := fun _ => [48], strNum := fun _ => .nan }

/-- str_key_order: {b:null,a:null} -/
example : C11.jsonStringify OttoVerif.C06.Spec.exactLib idNum noProtoToJSON 9 (.obj (.cons [98] .null (.cons [97] .null .nil))) .none .absent
    ≠ Spec.jsonStringify idNum noProtoToJSON 9 (.obj (.cons [98] .null (.cons [97] .null .nil))) .none .absent := by decide +kernel
/-- str_u2028_escape: the one-character string U+2028 -/
example : C11.jsonStringify OttoVerif.C06.Spec.exactLib idNum noProtoToJSON 9 (.str [0x2028]) .none .absent
    ≠ Spec.jsonStringify idNum noProtoToJSON 9 (.str [0x2028]) .none .absent := by decide +kernel
/-- str_lone_surrogate: the one-character string 0xD800 -/
example : C11.jsonStringify OttoVerif.C06.Spec.exactLib idNum noProtoToJSON 9 (.str [0xD800]) .none .absent
    ≠ Spec.jsonStringify idNum noProtoToJSON 9 (.str [0xD800]) .none .absent := by decide +kernel
/-- str_lone_surrogate, in the gap: nine spaces and a surrogate pair, cut after its first half -/
example : C11.gapOf (.str [32, 32, 32, 32, 32, 32, 32, 32, 32, 0xD83D, 0xDE00]) ≠ Spec.gapOf (.str [32, 32, 32, 32, 32, 32, 32, 32, 32, 0xD83D, 0xDE00]) := by decide +kernel

end OttoVerif.C11.Thm
