/-
  C11/Theorems — the ledger for property C11.  Every `theorem` in this file is audited
  (`#print axioms` ⊆ {propext, Classical.choice, Quot.sound}) on every run.
-/
import OttoVerif.C11.Spec
namespace OttoVerif.C11.Thm
open OttoVerif.F64 OttoVerif.C11

/-- the gap never exceeds ten characters (ES5 15.12.3 steps 6-7), for every `space` argument -/
theorem spec_gap_le_10 (sp : Space) : (Spec.gapOf sp).length ≤ 10 := by
  cases sp with
  | str s => simp [Spec.gapOf]; omega
  | num x =>
    cases x with
    | nan => simp [Spec.gapOf, Spec.gapCount]
    | inf s => cases s <;> simp [Spec.gapOf, Spec.gapCount]
    | fin s m e => simp only [Spec.gapOf, Spec.gapCount, List.length_replicate]; split <;> omega
  | _ => simp [Spec.gapOf]

end OttoVerif.C11.Thm
