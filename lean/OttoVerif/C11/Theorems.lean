/-  C11/Theorems — the ledger for property C11 (every theorem here is audited).  Placeholder. -/
namespace OttoVerif.C11.Thm
end OttoVerif.C11.Thm
