/-
  C11/Model — transcription of otto's JSON code (builtin_json.go) and stubs of the parts of Go's
  encoding/json it relies on.

  otto (Go), builtin_json.go:
    builtinJSONParse               json.Unmarshal into jsonValue (UnmarshalJSON: objects become ordered
                                   []jsonMember, number tokens are converted with ParseFloat ignoring
                                   ErrRange), then builtinJSONParseWalk: arrays -> newArrayOf, objects ->
                                   members created with defineProperty (0o111) in text order; the wrapper
                                   property "" (reviver, stringify) is created the same way, so nothing
                                   inherited from Object.prototype can intercept
    builtinJSONReviveWalk (l.42)   reviver walk: arrays by index, objects through the LIVE propertyOrder slice
    builtinJSONStringify (l.109)   replacer array -> propertyList (l.114-142), space -> gap (l.148-174),
                                   wrapper holder, builtinJSONStringifyWalk (l.195) into Go values,
                                   json.Marshal (+ json.Indent when gap != "")
    value_number.go number() (l.149)  integer / float / infinity / NaN kinds of a number value
  Go standard library (modelled stubs, trusted base §2.6, validated per sample by the harness):
    encoding/json Unmarshal: the RFC 8259 grammar (scanner.go), literal conversion (decode.go: convertNumber
      = strconv.ParseFloat with a range ERROR; unquote: \uXXXX surrogate halves that do not pair -> U+FFFD),
      objects into an unordered map (last duplicate wins);
    encoding/json Encoder (SetEscapeHTML(false)): map keys sorted by bytes, string escaping (encode.go appendString),
      int64 in decimal, float64 by floatEncoder ('f', or 'e' when abs<1e-6 || abs>=1e21, "e-0X" -> "e-X");
    encoding/json Indent: newline + depth*indent after '{' '[' ',' and before '}' ']', ": " after keys,
      empty containers stay "{}" / "[]".
  Strings are lists of UTF-16 code units (what an ES5 program sees).  otto holds strings as Go strings
  (UTF-8) or []uint16; `Value.string()` (value_string.go:50) turns the latter into a Go string with
  utf16.Decode, i.e. every unpaired surrogate becomes U+FFFD.  At the code-unit level that is `goStr`.
  Go's decoder and encoder treat non-ASCII bytes inside strings opaquely, so the byte level is not
  modelled separately (assumption recorded in checks/C11.json), not even for the gap.
-/
import OttoVerif.Base.F64
import OttoVerif.Base.Str
import OttoVerif.C06.Spec
namespace OttoVerif.C11
open OttoVerif.F64

abbrev Str := List Nat

/-! ### JSON values (own cons-lists, no nested inductives) -/
mutual
inductive JV where
  | null
  | bool (b : Bool)
  | num (x : FV)
  | str (s : Str)
  | arr (l : JVs)
  | obj (m : JMs)
inductive JVs where
  | nil
  | cons (v : JV) (t : JVs)
inductive JMs where
  | nil
  | cons (k : Str) (v : JV) (t : JMs)
end

/-! ### lexical layer shared by the ES5 grammar (Spec) and the Go decoder stub (Model) -/

def isWS (c : Nat) : Bool := c = 32 || c = 9 || c = 10 || c = 13

def skipWS : List Nat → List Nat
  | [] => []
  | c :: r => if isWS c then skipWS r else c :: r

/-- one character of a string literal: written raw, or through an escape sequence -/
inductive Item where
  | raw (u : Nat)
  | esc (u : Nat)
deriving DecidableEq, Repr

def Item.unit : Item → Nat
  | .raw u => u
  | .esc u => u

def hexVal (c : Nat) : Option Nat :=
  if 48 ≤ c ∧ c ≤ 57 then some (c - 48)
  else if 97 ≤ c ∧ c ≤ 102 then some (c - 87)
  else if 65 ≤ c ∧ c ≤ 70 then some (c - 55)
  else none

/-- `\" \\ \/ \b \f \n \r \t` -/
def simpleEsc (c : Nat) : Option Nat :=
  if c = 34 then some 34 else if c = 92 then some 92 else if c = 47 then some 47
  else if c = 98 then some 8 else if c = 102 then some 12 else if c = 110 then some 10
  else if c = 114 then some 13 else if c = 116 then some 9 else none

/-- the characters of a string literal after the opening quote, up to and including the closing quote.
    Raw characters below U+0020 are rejected (ES5 JSONStringCharacter; Go scanner.go stateInString). -/
def scanString : List Nat → Option (List Item × List Nat)
  | [] => none
  | c :: r =>
    if c = 34 then some ([], r)
    else if c = 92 then
      match r with
      | [] => none
      | e :: r2 =>
        if e = 117 then
          match r2 with
          | a :: b :: c' :: d :: r3 =>
            match hexVal a, hexVal b, hexVal c', hexVal d with
            | some a, some b, some c', some d =>
              (scanString r3).map (fun p => (Item.esc (((a * 16 + b) * 16 + c') * 16 + d) :: p.1, p.2))
            | _, _, _, _ => none
          | _ => none
        else
          match simpleEsc e with
          | some u => (scanString r2).map (fun p => (Item.esc u :: p.1, p.2))
          | none => none
    else if c < 32 then none
    else (scanString r).map (fun p => (Item.raw c :: p.1, p.2))

def isDigit (c : Nat) : Bool := 48 ≤ c && c ≤ 57

def takeDigits : List Nat → List Nat × List Nat
  | [] => ([], [])
  | c :: r => if isDigit c then ((c :: (takeDigits r).1), (takeDigits r).2) else ([], c :: r)

/-- a number literal: sign, integer digits, fraction digits, exponent -/
structure NumLit where
  neg : Bool
  int : List Nat
  frac : List Nat
  exp : Int
deriving DecidableEq, Repr

def digitsVal (ds : List Nat) : Nat := ds.foldl (fun a c => a * 10 + (c - 48)) 0

/-- optional exponent part; `none` = malformed (`e` without digits) -/
def scanExp (cs : List Nat) : Option (Int × List Nat) :=
  match cs with
  | c :: r =>
    if c = 101 ∨ c = 69 then
      let (sg, r1) : Int × List Nat := match r with
        | 43 :: r' => (1, r')
        | 45 :: r' => (-1, r')
        | _ => (1, r)
      let p := takeDigits r1
      if p.1.isEmpty then none else some (sg * (digitsVal p.1 : Int), p.2)
    else some (0, cs)
  | [] => some (0, [])

/-- optional fraction part; `none` = malformed (`.` without digits) -/
def scanFrac (cs : List Nat) : Option (List Nat × List Nat) :=
  match cs with
  | 46 :: r => let p := takeDigits r; if p.1.isEmpty then none else some p
  | _ => some ([], cs)

def scanAfterInt (neg : Bool) (int : List Nat) (cs : List Nat) : Option (NumLit × List Nat) :=
  (scanFrac cs).bind fun f => (scanExp f.2).map fun e => ({ neg := neg, int := int, frac := f.1, exp := e.1 }, e.2)

def scanUnsigned (neg : Bool) (cs : List Nat) : Option (NumLit × List Nat) :=
  match cs with
  | [] => none
  | c :: r =>
    if c = 48 then scanAfterInt neg [48] r
    else if 49 ≤ c ∧ c ≤ 57 then scanAfterInt neg (c :: (takeDigits r).1) (takeDigits r).2
    else none

/-- JSONNumber :: -? DecimalIntegerLiteral JSONFraction? ExponentPart?  (maximal munch) -/
def scanNumber (cs : List Nat) : Option (NumLit × List Nat) :=
  match cs with
  | 45 :: r => scanUnsigned true r
  | _ => scanUnsigned false cs

/-- the double nearest to the exact decimal value (round to nearest even; ±∞ beyond the range) -/
def NumLit.value (n : NumLit) : FV :=
  let mant := digitsVal (n.int ++ n.frac)
  let e10 : Int := n.exp - (n.frac.length : Int)
  if mant = 0 then .fin n.neg 0 0
  else if e10 ≥ 0 then (if e10 > 400 then .inf n.neg else ofRatParts n.neg (mant * 10 ^ e10.toNat) 1)
  else if -e10 > ((n.int.length + n.frac.length : Nat) : Int) + 400 then .fin n.neg 0 0
  else ofRatParts n.neg mant (10 ^ (-e10).toNat)

/-  Raw syntax trees: what the grammar recognises, before any literal is converted.  Both the ES5
    denotation (Spec) and Go's decoder (below) are functions on these trees. -/
mutual
inductive RT where
  | null
  | bool (b : Bool)
  | num (n : NumLit)
  | str (s : List Item)
  | arr (l : RTs)
  | obj (m : RMs)
inductive RTs where
  | nil
  | cons (v : RT) (t : RTs)
inductive RMs where
  | nil
  | cons (k : List Item) (v : RT) (t : RMs)
end

mutual
/-- JSONValue, with optional leading white space (ES5 15.12.1.2; Go scanner.go) -/
def parseValue : Nat → List Nat → Option (RT × List Nat)
  | 0, _ => none
  | fuel + 1, cs =>
    match skipWS cs with
    | [] => none
    | c :: r =>
      if c = 34 then (scanString r).map fun p => (RT.str p.1, p.2)
      else if c = 91 then
        match skipWS r with
        | 93 :: r' => some (RT.arr .nil, r')
        | _ => (parseElems fuel r).map fun p => (RT.arr p.1, p.2)
      else if c = 123 then
        match skipWS r with
        | 125 :: r' => some (RT.obj .nil, r')
        | _ => (parseMembers fuel r).map fun p => (RT.obj p.1, p.2)
      else if c = 110 then
        match r with
        | 117 :: 108 :: 108 :: r' => some (RT.null, r')
        | _ => none
      else if c = 116 then
        match r with
        | 114 :: 117 :: 101 :: r' => some (RT.bool true, r')
        | _ => none
      else if c = 102 then
        match r with
        | 97 :: 108 :: 115 :: 101 :: r' => some (RT.bool false, r')
        | _ => none
      else (scanNumber (c :: r)).map fun p => (RT.num p.1, p.2)
/-- JSONElementList followed by `]` -/
def parseElems : Nat → List Nat → Option (RTs × List Nat)
  | 0, _ => none
  | fuel + 1, cs =>
    (parseValue fuel cs).bind fun p =>
      match skipWS p.2 with
      | 44 :: r => (parseElems fuel r).map fun q => (RTs.cons p.1 q.1, q.2)
      | 93 :: r => some (RTs.cons p.1 .nil, r)
      | _ => none
/-- JSONMemberList followed by `}` -/
def parseMembers : Nat → List Nat → Option (RMs × List Nat)
  | 0, _ => none
  | fuel + 1, cs =>
    match skipWS cs with
    | 34 :: r =>
      (scanString r).bind fun k =>
        match skipWS k.2 with
        | 58 :: r2 =>
          (parseValue fuel r2).bind fun p =>
            match skipWS p.2 with
            | 44 :: r3 => (parseMembers fuel r3).map fun q => (RMs.cons k.1 p.1 q.1, q.2)
            | 125 :: r3 => some (RMs.cons k.1 p.1 .nil, r3)
            | _ => none
        | _ => none
    | _ => none
end

/-- JSONText: one value surrounded by white space -/
def parseText (cs : List Nat) : Option RT :=
  match parseValue (cs.length + 1) cs with
  | some (v, rest) => if (skipWS rest).isEmpty then some v else none
  | none => none

/-! ### object construction -/

/-- define own property `k` := v : replace the value in place if the key exists, else append
    (ES5 [[DefineOwnProperty]] / otto `put` on a plain object: propertyOrder keeps the first position) -/
def setKey (k : Str) (v : JV) : JMs → JMs
  | .nil => .cons k v .nil
  | .cons k' v' t => if k' = k then .cons k' v t else .cons k' v' (setKey k v t)

/-- members defined one after the other, starting from `acc` -/
def defineAll : JMs → JMs → JMs
  | acc, .nil => acc
  | acc, .cons k v t => defineAll (setKey k v acc) t

/-- lexicographic order on code-unit lists -/
def ltStr : List Nat → List Nat → Bool
  | [], [] => false
  | [], _ :: _ => true
  | _ :: _, [] => false
  | a :: s, b :: t => if a < b then true else if b < a then false else ltStr s t

/-! ### Go's decoder: literal conversion (decode.go) -/

def isSurr (u : Nat) : Bool := 0xD800 ≤ u && u < 0xE000
def isHi (u : Nat) : Bool := 0xD800 ≤ u && u < 0xDC00
def isLo (u : Nat) : Bool := 0xDC00 ≤ u && u < 0xE000

/-- decode.go unquoteBytes: a `\uXXXX` surrogate is combined with a following `\uXXXX` low half,
    otherwise it becomes U+FFFD; raw characters are copied -/
def goCombine : List Item → Str
  | [] => []
  | .raw u :: t => u :: goCombine t
  | [.esc u] => if isSurr u then [0xFFFD] else [u]
  | .esc u :: .esc w :: t =>
    if isHi u ∧ isLo w then u :: w :: goCombine t
    else if isSurr u then 0xFFFD :: goCombine (.esc w :: t)
    else u :: goCombine (.esc w :: t)
  | .esc u :: .raw w :: t =>
    if isSurr u then 0xFFFD :: w :: goCombine t else u :: w :: goCombine t

/-- jsonValue.UnmarshalJSON: strconv.ParseFloat(literal, 64) with ErrRange ignored (±Inf) -/
def goNum (n : NumLit) : Option FV := some n.value

/-- `Value.string()` of a []uint16 string / `[]byte(string)`: unpaired surrogates become U+FFFD -/
def goStr (s : Str) : Str := Str.utf16Encode (Str.utf16Decode s)

/-  json.Unmarshal's literal conversion (through jsonValue.UnmarshalJSON) followed by
    builtinJSONParseWalk: the members of an object are `put` one after the other in text order. -/
mutual
def decode : RT → Option JV
  | .null => some .null
  | .bool b => some (.bool b)
  | .num n => (goNum n).map JV.num
  | .str s => some (.str (goCombine s))
  | .arr l => (decodeL l).map JV.arr
  | .obj m => (decodeM m).map fun ms => JV.obj (defineAll .nil ms)
def decodeL : RTs → Option JVs
  | .nil => some .nil
  | .cons v t => (decode v).bind fun a => (decodeL t).map fun b => JVs.cons a b
def decodeM : RMs → Option JMs
  | .nil => some .nil
  | .cons k v t => (decode v).bind fun a => (decodeM t).map fun b => JMs.cons (goCombine k) a b
end

/-- JSON.parse without reviver (l.15-40): `none` = SyntaxError.  The argument is ToString'ed and
    handed over as a Go string (`goStr`). -/
def jsonParse (text : Str) : Option JV :=
  (parseText (goStr text)).bind decode

/-! ### JSON.stringify: values handed in -/

/-  The argument of JSON.stringify, as a tree.  `tojson r` is an object whose `toJSON` method returns
    `r`; `back k` is a reference to the k-th enclosing array/object (k = 0: the nearest), the only way
    a tree can be cyclic. -/
/-- a primitive a method of a wrapper object returns -/
inductive Prim where
  | undef
  | null
  | bool (b : Bool)
  | num (x : FV)
  | str (s : Str)
deriving DecidableEq

/-- `valueOf` / `toString` of a wrapper object: the one inherited from the prototype, an own
    property that is not callable, or an own function returning a primitive -/
inductive Meth where
  | inherited
  | notCallable
  | ret (p : Prim)
deriving DecidableEq

/-- number <-> string conversions of primitives (C05 / C06 territory, shared by both sides) -/
structure Conv where
  numStr : FV → Str
  strNum : Str → FV

mutual
inductive SV where
  | undef
  | null
  | bool (b : Bool)
  | num (x : FV)
  | str (s : Str)
  | func
  | boxNum (x : FV)
  | boxStr (s : Str)
  | boxBool (b : Bool)
  | arr (l : SVs)
  | obj (m : SMs)
  | tojson (r : SV)
  | back (k : Nat)
  /-- `new Number(x)` with scripted `valueOf` / `toString` -/
  | wrapNum (x : FV) (vo ts : Meth)
  /-- `new String(s)` with scripted `valueOf` / `toString` -/
  | wrapStr (s : Str) (vo ts : Meth)
  /-- a value whose conversion throws TypeError -/
  | raise
  /-- an accessor property: its getter returns `r` and makes the holder's property `hide`
      non-enumerable while it runs -/
  | getter (r : SV) (hide : Str)
  /-- an object with a prototype: own enumerable members, own NON-enumerable members, and the
      members it inherits (Object.create(proto) / new C with C.prototype = proto) -/
  | objP (own nonEnum proto : SMs)
inductive SVs where
  | nil
  | cons (v : SV) (t : SVs)
inductive SMs where
  | nil
  | cons (k : Str) (v : SV) (t : SMs)
end

def SMs.app : SMs → SMs → SMs
  | .nil, m => m
  | .cons k v t, m => .cons k v (SMs.app t m)

def SMs.get (k : Str) : SMs → SV
  | .nil => .undef
  | .cons k' v t => if k' = k then v else SMs.get k t

/-  Go values produced by builtinJSONStringifyWalk -/
mutual
inductive GV where
  | nil
  | bool (b : Bool)
  | str (s : Str)
  | int (i : Int)
  | float (x : FV)
  | arr (l : GVs)
  | map (m : GMs)
inductive GVs where
  | nil
  | cons (v : GV) (t : GVs)
inductive GMs where
  | nil
  | cons (k : Str) (v : GV) (t : GMs)
end

/-- result of a walk: a value, "does not exist" (undefined), a TypeError, or out of fuel -/
inductive WR (α : Type) where
  | val (a : α)
  | absent
  | throw
  | oof

/-- value_number.go number() + the number switch of builtinJSONStringifyWalk: an integral float64
    below 2^53 in magnitude is handed over as int64, every other finite one as float64 -/
def walkNum (x : FV) : GV :=
  match x with
  | .nan => .nil
  | .inf _ => .nil
  | .fin s m e =>
    if m = 0 then .int 0
    else if truncAbs m e ≥ 2 ^ 53 then .float x
    else if isIntegral m e then .int (truncInt (.fin s m e))
    else .float x

/-- Go's `map[string]interface{}` assignment `obj[name] = value` -/
def gmSet (k : Str) (v : GV) : GMs → GMs
  | .nil => .cons k v .nil
  | .cons k' v' t => if k' = k then .cons k' v t else .cons k' v' (gmSet k v t)

/-- strings.Compare on the UTF-8 encodings = code point order -/
def ltKeyBytes (a b : Str) : Bool := ltStr (Str.bytesOfUnits a) (Str.bytesOfUnits b)

def gmInsert (k : Str) (v : GV) : GMs → GMs
  | .nil => .cons k v .nil
  | .cons k' v' t => if ltKeyBytes k' k then .cons k' v' (gmInsert k v t) else .cons k v (.cons k' v' t)

/-- encode.go mapEncoder: keys sorted by bytes -/
def gmSort : GMs → GMs
  | .nil => .nil
  | .cons k v t => gmInsert k v (gmSort t)

structure MCtx where
  /-- the replacer function, if any: (key, value) ↦ value -/
  repl : Option (Str → SV → SV)
  /-- ctx.propertyList (nil = absent) -/
  plist : Option (List Str)
  cv : Conv
  /-- what `obj.get("toJSON")` finds on the PROTOTYPE chain of an object value and what calling it
      with the key returns (`none`: nothing callable is inherited) — a polluted runtime -/
  pj : SV → Str → Option SV

/-- what calling the method gives (`dflt`: the result of the inherited one); `none` = not callable -/
def Meth.call (dflt : Prim) : Meth → Option Prim
  | .inherited => some dflt
  | .notCallable => none
  | .ret p => some p

/-- object.go DefaultValue (l.70): `methodSequence` is valueOf, toString — reversed for the string
    hint; the first callable method's (primitive) result is returned, else TypeError (`none`) -/
def defaultValue (hintString : Bool) (vo ts : Option Prim) : Option Prim :=
  let methodSequence := if hintString then [ts, vo] else [vo, ts]
  methodSequence.findSome? id

/-- Value.float64() of a primitive (value_number.go) -/
def primFloat (cv : Conv) : Prim → FV
  | .undef => .nan
  | .null => .fin false 0 0
  | .bool b => if b then .fin false 1 0 else .fin false 0 0
  | .num x => x
  | .str s => cv.strNum s

/-- Value.string() of a primitive (value_string.go) -/
def primString (cv : Conv) : Prim → Str
  | .undef => [117, 110, 100, 101, 102, 105, 110, 101, 100]
  | .null => [110, 117, 108, 108]
  | .bool b => if b then [116, 114, 117, 101] else [102, 97, 108, 115, 101]
  | .num x => cv.numStr x
  | .str s => s

/-- the wrapper arms of builtinJSONStringifyWalk and of the `space` handling: Boolean -> the held
    value; String -> `value.string()` (DefaultValue with the string hint); Number ->
    `value.numberValue()` (DefaultValue with the number hint) -/
def unbox (cv : Conv) : SV → SV
  | .boxNum x => .num x
  | .boxStr s => .str s
  | .boxBool b => .bool b
  | .wrapNum x vo ts =>
    match defaultValue false (vo.call (.num x)) (ts.call (.str (cv.numStr x))) with
    | some p => .num (primFloat cv p)
    | none => .raise
  | .wrapStr s vo ts =>
    match defaultValue true (vo.call (.str s)) (ts.call (.str s)) with
    | some p => .str (primString cv p)
    | none => .raise
  | v => v

def decimalNat (n : Nat) : Str := C06.Spec.decimalStr n

/-- `holder.get(key)` / ES5 Str step 1: an accessor's getter runs.  What it does to the enumerability of
    other properties has no effect: the names were collected before any property was read. -/
def viaGet : SV → SV
  | .getter r _ => r
  | v => v

/-- `value.IsObject()`: the value's kind is valueObject (null and undefined are not) -/
def isObjectKind : SV → Bool
  | .func | .boxNum _ | .boxStr _ | .boxBool _ | .arr _ | .obj _ | .tojson _ | .back _
  | .wrapNum .. | .wrapStr .. | .objP .. => true
  | _ => false

/-- the toJSON step of builtinJSONStringifyWalk: ONLY `if value.IsObject()` is `obj.get("toJSON")`
    looked up; a function found (own: `tojson r`; inherited: `pj`) is called with the key and its
    result replaces the value -/
def viaToJSON (pj : SV → Str → Option SV) (key : Str) (v : SV) : SV :=
  if isObjectKind v then
    match v with
    | .tojson r => r
    | _ => match pj v key with
      | some r => r
      | none => v
  else v

mutual
/-- builtinJSONStringifyWalk (l.195).  `depth` = number of enclosing containers on ctx.stack. -/
def walk (C : MCtx) : Nat → Nat → Str → SV → WR GV
  | 0, _, _, _ => .oof
  | fuel + 1, depth, key, v0 =>
    let v1 := viaToJSON C.pj key (viaGet v0)    -- holder.get(key); toJSON
    let v2 := match C.repl with        -- l.211
      | some f => f key v1
      | none => v1
    match unbox C.cv v2 with           -- l.215-224
    | .bool b => .val (.bool b)
    | .str s => .val (.str (goStr s))
    | .num x => .val (walkNum x)
    | .null => .val .nil
    | .raise => .throw
    | .back k => if k < depth then .throw else .val (.map .nil)          -- l.246-250
    | .arr l =>
      match walkArr C fuel (depth + 1) 0 l with
      | .val a => .val (.arr a)
      | .absent => .absent
      | .throw => .throw
      | .oof => .oof
    | .obj m =>
      let r := match C.plist with
        | some ks => walkList C fuel (depth + 1) .nil m ks
        | none => walkObj C fuel (depth + 1) .nil m
      match r with
      | .val a => .val (.map a)
      | .absent => .absent
      | .throw => .throw
      | .oof => .oof
    | .objP own ne proto =>
      -- the property list is looked up with `objHolder.get(name)`: own properties (enumerable or
      -- not) first, then the prototype chain; without a list only the own enumerable names are walked
      let r := match C.plist with
        | some ks => walkList C fuel (depth + 1) .nil (SMs.app own (SMs.app ne proto)) ks
        | none => walkObj C fuel (depth + 1) .nil own
      match r with
      | .val a => .val (.map a)
      | .absent => .absent
      | .throw => .throw
      | .oof => .oof
    | .tojson _ => .val (.map .nil)     -- a plain object whose only own property is a function
    | _ => .absent                      -- undefined, function (l.296)
/-- l.266-272: every index, missing results become nil -/
def walkArr (C : MCtx) : Nat → Nat → Nat → SVs → WR GVs
  | 0, _, _, _ => .oof
  | _ + 1, _, _, .nil => .val .nil
  | fuel + 1, depth, i, .cons v t =>
    match walk C fuel depth (decimalNat i) v with
    | .throw => .throw
    | .oof => .oof
    | r =>
      match walkArr C fuel depth (i + 1) t with
      | .val a => .val (.cons (match r with | .val g => g | _ => .nil) a)
      | e => e
/-- l.285-291: own enumerable properties in propertyOrder, `obj[name] = value` when it exists -/
def walkObj (C : MCtx) : Nat → Nat → GMs → SMs → WR GMs
  | 0, _, _, _ => .oof
  | _ + 1, _, acc, .nil => .val acc
  | fuel + 1, depth, acc, .cons k v t =>
    match walk C fuel depth k v with
    | .throw => .throw
    | .oof => .oof
    | .val g => walkObj C fuel depth (gmSet (goStr k) g acc) t
    | .absent => walkObj C fuel depth acc t
/-- l.275-281: the property list -/
def walkList (C : MCtx) : Nat → Nat → GMs → SMs → List Str → WR GMs
  | 0, _, _, _, _ => .oof
  | _ + 1, _, acc, _, [] => .val acc
  | fuel + 1, depth, acc, m, k :: ks =>
    match walk C fuel depth k (SMs.get k m) with
    | .throw => .throw
    | .oof => .oof
    | .val g => walkList C fuel depth (gmSet (goStr k) g acc) m ks
    | .absent => walkList C fuel depth acc m ks
end

/-! ### JSON.parse with a reviver (builtinJSONReviveWalk, l.42) -/

/-  Values during the reviver walk: JSON values plus `undef` (a hole left by a deletion, or a
    reviver result). -/
mutual
inductive RV where
  | undef
  | null
  | bool (b : Bool)
  | num (x : FV)
  | str (s : Str)
  | arr (l : RVs)
  | obj (m : RMs')
inductive RVs where
  | nil
  | cons (v : RV) (t : RVs)
inductive RMs' where
  | nil
  | cons (k : Str) (v : RV) (t : RMs')
end

mutual
def rvOf : JV → RV
  | .null => .null
  | .bool b => .bool b
  | .num x => .num x
  | .str s => .str s
  | .arr l => .arr (rvOfL l)
  | .obj m => .obj (rvOfM m)
def rvOfL : JVs → RVs
  | .nil => .nil
  | .cons v t => .cons (rvOf v) (rvOfL t)
def rvOfM : JMs → RMs'
  | .nil => .nil
  | .cons k v t => .cons k (rvOf v) (rvOfM t)
end

/-- what a reviver does to its holder (`this`) while it runs.  Key effects apply to an object holder,
    length / index effects to an array holder; on the other kind they do nothing observable. -/
inductive HEff where
  | none
  | delKey (k : Str)              -- delete this[k]
  | setKey (k : Str) (v : RV)     -- this[k] = v   (a new key is appended)
  | setLen (n : Nat)              -- this.length = n
  | push (v : RV)                 -- this.push(v)
  | pop                           -- this.pop()
  | delIdx (i : Nat)              -- delete this[i]   (a hole; the length stays)
  | setIdx (i : Nat) (v : RV)     -- this[i] = v      (extends the array when i >= length)

/-- what a reviver call does: its result (`none` = undefined) and its effect on the holder -/
structure RRes where
  val : Option RV
  eff : HEff

/-- a reviver: (key, value) ↦ effect -/
abbrev Reviver := Str → RV → RRes

def RMs'.get (k : Str) : RMs' → Option RV
  | .nil => none
  | .cons k' v t => if k' = k then some v else RMs'.get k t
def RMs'.set (k : Str) (v : RV) : RMs' → RMs'
  | .nil => .cons k v .nil
  | .cons k' v' t => if k' = k then .cons k' v t else .cons k' v' (RMs'.set k v t)
def RMs'.del (k : Str) : RMs' → RMs'
  | .nil => .nil
  | .cons k' v' t => if k' = k then t else .cons k' v' (RMs'.del k t)
def RMs'.keys : RMs' → List Str
  | .nil => []
  | .cons k _ t => k :: RMs'.keys t

/-! arrays as element lists: `undef` is a hole (or an undefined element: both read as undefined) -/
def RVs.len : RVs → Nat
  | .nil => 0
  | .cons _ t => 1 + RVs.len t
def RVs.getI : Nat → RVs → RV
  | _, .nil => .undef
  | 0, .cons v _ => v
  | i + 1, .cons _ t => RVs.getI i t
/-- the first n elements, padded with holes -/
def RVs.resize : Nat → RVs → RVs
  | 0, _ => .nil
  | n + 1, .nil => .cons .undef (RVs.resize n .nil)
  | n + 1, .cons v t => .cons v (RVs.resize n t)
/-- element i := v; an index at or beyond the length extends the array (ES5 15.4.5.1) -/
def RVs.setI : Nat → RV → RVs → RVs
  | 0, v, .nil => .cons v .nil
  | 0, v, .cons _ t => .cons v t
  | i + 1, v, .nil => .cons .undef (RVs.setI i v .nil)
  | i + 1, v, .cons w t => .cons w (RVs.setI i v t)
/-- delete this[i]: a hole when the index exists, nothing otherwise -/
def RVs.delI : Nat → RVs → RVs
  | _, .nil => .nil
  | 0, .cons _ t => .cons .undef t
  | i + 1, .cons w t => .cons w (RVs.delI i t)

def HEff.onObj : HEff → RMs' → RMs'
  | .delKey k, m => RMs'.del k m
  | .setKey k v, m => RMs'.set k v m
  | _, m => m

def HEff.onArr : HEff → RVs → RVs
  | .setLen n, l => RVs.resize n l
  | .push v, l => RVs.setI (RVs.len l) v l
  | .pop, l => RVs.resize (RVs.len l - 1) l
  | .delIdx i, l => RVs.delI i l
  | .setIdx i v, l => RVs.setI i v l
  | _, l => l

mutual
/-- builtinJSONReviveWalk(holder, name) with `value = holder.get(name)` passed in; `hk` = the kind of
    the holder (65 'A' array, 79 'O' object).  Returns what the reviver call did and the (holder kind,
    key) of the reviver calls in call order.  (Fuel: every call consumes one.) -/
def reviveM (f : Reviver) : Nat → Nat → Str → RV → RRes × List Str
  | 0, _, _, _ => (⟨none, .none⟩, [])
  | fuel + 1, hk, name, .arr l =>
    let r := reviveArrM f fuel 0 (RVs.len l) l
    (f name (.arr r.1), r.2 ++ [hk :: name])
  | fuel + 1, hk, name, .obj m =>
    let r := reviveObjM f fuel (RMs'.keys m) m
    (f name (.obj r.1), r.2 ++ [hk :: name])
  | _ + 1, hk, name, v => (f name v, [hk :: name])
/-- the array branch: `length := objectLength(obj)` is read ONCE, then index = 0 .. length-1:
    builtinJSONReviveWalk(obj, index) — `obj.get(index)` is undefined for a hole or beyond the current
    length — and undefined deletes the element, anything else defines it (which extends an array that
    the reviver has shortened meanwhile) -/
def reviveArrM (f : Reviver) : Nat → Nat → Nat → RVs → RVs × List Str
  | 0, _, _, cur => (cur, [])
  | fuel + 1, i, len, cur =>
    if i < len then
      let r := reviveM f fuel 65 (decimalNat i) (RVs.getI i cur)
      let cur1 := r.1.eff.onArr cur
      let cur2 := match r.1.val with
        | none => RVs.delI i cur1
        | some x => RVs.setI i x cur1
      let rest := reviveArrM f fuel (i + 1) len cur2
      (rest.1, r.2 ++ rest.2)
    else (cur, [])
/-- the names are collected first (`obj.enumerate` into a slice); then for each name
    builtinJSONReviveWalk(obj, name) — `obj.get(name)` is undefined when the property is gone
    meanwhile — and undefined deletes the property, anything else (re)defines it -/
def reviveObjM (f : Reviver) : Nat → List Str → RMs' → RMs' × List Str
  | 0, _, cur => (cur, [])
  | _ + 1, [], cur => (cur, [])
  | fuel + 1, name :: names, cur =>
    let v0 := match RMs'.get name cur with
      | some v => v
      | none => .undef
    let r := reviveM f fuel 79 name v0
    let cur1 := r.1.eff.onObj cur
    match r.1.val with
    | none =>
      let rest := reviveObjM f fuel names (RMs'.del name cur1)
      (rest.1, r.2 ++ rest.2)
    | some x =>
      let rest := reviveObjM f fuel names (RMs'.set name x cur1)
      (rest.1, r.2 ++ rest.2)
end

/-- JSON.parse(text, reviver) for the parsed value `v` whose object properties are in the order
    given (l.34-38: wrapper object with the empty key) -/
def reviveTop (f : Reviver) (fuel : Nat) (v : RV) : Option RV × List Str :=
  let r := reviveM f fuel 79 [] v
  (r.1.val, r.2)

/-! ### Go's encoder -/

def hex4 (n : Nat) : Str :=
  let d (k : Nat) : Nat := let v := (n / 16 ^ k) % 16; if v < 10 then 48 + v else 87 + v
  [d 3, d 2, d 1, d 0]

/-- encode.go appendString with escapeHTML = false (Go 1.23): U+2028 and U+2029 are still escaped -/
def goEscChar (c : Nat) : Str :=
  if c = 34 then [92, 34]
  else if c = 92 then [92, 92]
  else if c = 8 then [92, 98]
  else if c = 12 then [92, 102]
  else if c = 10 then [92, 110]
  else if c = 13 then [92, 114]
  else if c = 9 then [92, 116]
  else if c < 32 ∨ c = 0x2028 ∨ c = 0x2029 then 92 :: 117 :: hex4 c
  else [c]

def goQuote (s : Str) : Str := 34 :: (s.flatMap goEscChar ++ [34])

def f1e21 : FV := .fin false (5 ^ 21) 21
def f1em6 : FV := ofRatParts false 1 1000000

/-- encode.go floatEncoder, bits = 64 -/
def goFloat (L : C06.Lib) (x : FV) : Str :=
  let a := F64.abs x
  if !isZero x ∧ (lt a f1em6 ∨ le f1e21 a) then
    let b := C06.formatFloat L x .e (-1)
    let n := b.length
    if n ≥ 4 ∧ b.getD (n - 4) 0 = 101 ∧ b.getD (n - 3) 0 = 45 ∧ b.getD (n - 2) 0 = 48 then
      b.take (n - 2) ++ [b.getD (n - 1) 0]
    else b
  else C06.formatFloat L x .f (-1)

def nullT : Str := [110, 117, 108, 108]
def trueT : Str := [116, 114, 117, 101]
def falseT : Str := [102, 97, 108, 115, 101]

/-- Indent's appendNewline: "\n" + indent × depth; nothing in compact mode -/
def nl (gap : Str) (depth : Nat) : Str :=
  if gap.isEmpty then [] else 10 :: (List.replicate depth gap).flatten

def colon (gap : Str) : Str := if gap.isEmpty then [58] else [58, 32]

mutual
/-- json.Marshal followed (when gap ≠ "") by json.Indent(prefix "", indent gap) -/
def marshal (L : C06.Lib) (gap : Str) : Nat → GV → Str
  | _, .nil => nullT
  | _, .bool b => if b then trueT else falseT
  | _, .str s => goQuote s
  | _, .int i => C06.formatInt i 10
  | _, .float x => goFloat L x
  | _, .arr .nil => [91, 93]
  | d, .arr (.cons v t) => 91 :: (nl gap (d + 1) ++ marshal L gap (d + 1) v ++ marshalL L gap d t)
  | _, .map .nil => [123, 125]
  | d, .map (.cons k v t) =>
    123 :: (nl gap (d + 1) ++ goQuote k ++ colon gap ++ marshal L gap (d + 1) v ++ marshalM L gap d t)
/-- the remaining elements and the closing bracket of an array opened at depth `d` -/
def marshalL (L : C06.Lib) (gap : Str) : Nat → GVs → Str
  | d, .nil => nl gap d ++ [93]
  | d, .cons v t => 44 :: (nl gap (d + 1) ++ marshal L gap (d + 1) v ++ marshalL L gap d t)
def marshalM (L : C06.Lib) (gap : Str) : Nat → GMs → Str
  | d, .nil => nl gap d ++ [125]
  | d, .cons k v t =>
    44 :: (nl gap (d + 1) ++ goQuote k ++ colon gap ++ marshal L gap (d + 1) v ++ marshalM L gap d t)
end

mutual
/-- mapEncoder sorts the keys at every level -/
def sortMaps : GV → GV
  | .arr l => .arr (sortMapsL l)
  | .map m => .map (gmSort (sortMapsM m))
  | v => v
def sortMapsL : GVs → GVs
  | .nil => .nil
  | .cons v t => .cons (sortMaps v) (sortMapsL t)
def sortMapsM : GMs → GMs
  | .nil => .nil
  | .cons k v t => .cons k (sortMaps v) (sortMapsM t)
end

/-! ### the arguments -/

/-- an element of the replacer array -/
inductive PLItem where
  | str (s : Str)
  | num (x : FV)
  | boxStr (s : Str)
  | boxNum (x : FV)
  | other
deriving DecidableEq

/-- the name an accepted item contributes (`value.string()`), `none` = skipped (l.123-133) -/
def PLItem.name (numStr : FV → Str) : PLItem → Option Str
  | .str s => some (goStr s)
  | .boxStr s => some (goStr s)
  | .num x => some (numStr x)
  | .boxNum x => some (numStr x)
  | .other => none

/-- the replacer array: every accepted name not seen before is appended (`propertyList[length] = name`) -/
def plNames (numStr : FV → Str) : List PLItem → List Str → List Str
  | [], _ => []
  | it :: rest, seen =>
    match it.name numStr with
    | none => plNames numStr rest seen
    | some n => if seen.contains n then plNames numStr rest seen else n :: plNames numStr rest (n :: seen)

def propertyList (numStr : FV → Str) (items : List PLItem) : List Str := plNames numStr items []

inductive Replacer where
  | none
  | list (items : List PLItem)
  | fn (f : Str → SV → SV)

/-- the `space` argument -/
inductive Space where
  | absent
  | str (s : Str)
  | num (x : FV)
  | other
  /-- converting the argument threw TypeError -/
  | typeError

/-- the `space` argument: a String / Number object is replaced by `string()` / `numberValue()` -/
def spaceOf (cv : Conv) (arg : Option SV) : Space :=
  match arg with
  | none => .absent
  | some a =>
    match unbox cv a with
    | .str s => .str s
    | .num x => .num x
    | .raise => .typeError
    | _ => .other

/-- number().int64 of a float64-kinded value (value_number.go:149) clamped as at l.166-172 -/
def gapCount (x : FV) : Nat :=
  match x with
  | .nan => 0
  | .inf s => if s then 0 else 10
  | .fin s m e => if s then 0 else if truncAbs m e > 10 then 10 else truncAbs m e

/-- the `space` argument: a string is cut at 10 UTF-16 code units (and, being a Go string, cannot
    hold an unpaired surrogate) -/
def gapOf : Space → Str
  | .str s => goStr (s.take 10)
  | .num x => List.replicate (gapCount x) 32
  | _ => []

/-- outcome of JSON.stringify -/
inductive Out where
  | text (s : Str)
  | undef
  | typeError
  | oof
deriving DecidableEq

def mctxOf (cv : Conv) (pj : SV → Str → Option SV) : Replacer → MCtx
  | .none => { repl := none, plist := none, cv := cv, pj := pj }
  | .list items => { repl := none, plist := some (propertyList cv.numStr items), cv := cv, pj := pj }
  | .fn f => { repl := some f, plist := none, cv := cv, pj := pj }

/-- a pristine runtime: no toJSON on any built-in prototype (Date aside, which is not modelled) -/
def noProtoToJSON : SV → Str → Option SV := fun _ _ => none

/-- builtinJSONStringify (l.109) -/
def jsonStringify (L : C06.Lib) (cv : Conv) (pj : SV → Str → Option SV) (fuel : Nat) (v : SV) (r : Replacer) (sp : Space) : Out :=
  if (match sp with | .typeError => true | _ => false) then .typeError else
  match walk (mctxOf cv pj r) fuel 0 [] v with
  | .val g => .text (marshal L (gapOf sp) 0 (sortMaps g))
  | .absent => .undef
  | .throw => .typeError
  | .oof => .oof

end OttoVerif.C11
