/-
  C11/Lemmas — helper definitions and lemmas for the C11 ledger (core-only).
-/
import OttoVerif.C11.Spec
namespace OttoVerif.C11.Lem
open OttoVerif.C11 OttoVerif.C11.Spec
open OttoVerif.F64 (FV)


theorem goCombine_eq : ∀ (s : List Item), loneEsc s = false → goCombine s = s.map Item.unit
  | [], _ => rfl
  | .raw u :: t, h => by
    simp only [loneEsc] at h
    simp [goCombine, Item.unit, goCombine_eq t h]
  | [.esc u], h => by
    simp only [loneEsc] at h
    simp [goCombine, h, Item.unit]
  | .esc u :: .esc w :: t, h => by
    simp only [loneEsc] at h
    by_cases hp : isHi u = true ∧ isLo w = true
    · simp only [hp, and_self, if_true] at h
      simp [goCombine, hp, Item.unit, goCombine_eq t h]
    · simp only [hp, if_false, Bool.or_eq_false_iff] at h
      have := goCombine_eq (.esc w :: t) h.2
      simp [goCombine, hp, h.1, this, Item.unit]
  | .esc u :: .raw w :: t, h => by
    simp only [loneEsc, Bool.or_eq_false_iff] at h
    simp [goCombine, h.1, Item.unit, goCombine_eq t h.2]

mutual
theorem decode_eq : ∀ rt, rtAny loneEsc rt = false → decode rt = some (denote rt)
  | .null, _ => rfl
  | .bool _, _ => rfl
  | .num n, _ => by simp [decode, goNum, denote]
  | .str s, h => by simp only [rtAny] at h; simp [decode, goCombine_eq s h, denote]
  | .arr l, h => by simp only [rtAny] at h; simp [decode, decodeL_eq l h, denote]
  | .obj m, h => by
    simp only [rtAny] at h
    simp [decode, decodeM_eq m h, denote]
theorem decodeL_eq : ∀ l, rtAnyL loneEsc l = false → decodeL l = some (denoteL l)
  | .nil, _ => rfl
  | .cons v t, h => by
    simp only [rtAnyL, Bool.or_eq_false_iff] at h
    simp [decodeL, decode_eq v h.1, decodeL_eq t h.2, denoteL]
theorem decodeM_eq : ∀ m, rtAnyM loneEsc m = false → decodeM m = some (denoteM m)
  | .nil, _ => rfl
  | .cons k v t, h => by
    simp only [rtAnyM, Bool.or_eq_false_iff] at h
    simp [decodeM, decode_eq v h.1.2, decodeM_eq t h.2, denoteM, goCombine_eq k h.1.1]
end

mutual
/-- Go's literal conversion never fails on a text the grammar accepts -/
theorem decode_some : ∀ rt, ∃ v, decode rt = some v
  | .null => ⟨_, rfl⟩
  | .bool _ => ⟨_, rfl⟩
  | .num n => by simp [decode, goNum]
  | .str s => ⟨_, rfl⟩
  | .arr l => by
    obtain ⟨a, ha⟩ := decodeL_some l
    simp [decode, ha]
  | .obj m => by
    obtain ⟨a, ha⟩ := decodeM_some m
    simp [decode, ha]
theorem decodeL_some : ∀ l, ∃ v, decodeL l = some v
  | .nil => ⟨_, rfl⟩
  | .cons v t => by
    obtain ⟨a, ha⟩ := decode_some v
    obtain ⟨b, hb⟩ := decodeL_some t
    simp [decodeL, ha, hb]
theorem decodeM_some : ∀ m, ∃ v, decodeM m = some v
  | .nil => ⟨_, rfl⟩
  | .cons k v t => by
    obtain ⟨a, ha⟩ := decode_some v
    obtain ⟨b, hb⟩ := decodeM_some t
    simp [decodeM, ha, hb]
end

/-! ### the model's walk against ES5 Str -/


mutual
def gvOf : JV → GV
  | .null => .nil
  | .bool b => .bool b
  | .num x => walkNum x
  | .str s => .str (goStr s)
  | .arr l => .arr (gvOfL l)
  | .obj m => .map (gvOfM .nil m)
def gvOfL : JVs → GVs
  | .nil => .nil
  | .cons v t => .cons (gvOf v) (gvOfL t)
def gvOfM : GMs → JMs → GMs
  | acc, .nil => acc
  | acc, .cons k v t => gvOfM (gmSet (goStr k) (gvOf v) acc) t
end

def WR.map {α β : Type} (f : α → β) : WR α → WR β
  | .val a => .val (f a)
  | .absent => .absent
  | .throw => .throw
  | .oof => .oof

theorem walkNum_nonfinite (x : FV) (h : isFiniteF x = false) : walkNum x = .nil := by
  cases x <;> simp_all [isFiniteF, walkNum]

theorem primFloat_eq (cv : Conv) (p : Prim) : primFloat cv p = toNumberPrim cv p := by
  cases p with
  | bool b => cases b <;> rfl
  | _ => rfl

theorem primString_eq (cv : Conv) (p : Prim) : primString cv p = toStringPrim cv p := by
  cases p with
  | bool b => cases b <;> rfl
  | _ => rfl

/-- otto's wrapper arms (DefaultValue with a method sequence, then float64() / string()) are ES5's
    ToNumber / ToString of the object, for every scripted valueOf / toString -/
theorem unbox_eq (cv : Conv) (v : SV) : unbox cv v = unbox4 cv v := by
  cases v with
  | wrapNum x vo ts =>
    simp only [unbox, unbox4, defaultValue, defaultValueNumber]
    cases vo.call (.num x) <;> cases ts.call (.str (cv.numStr x)) <;> simp [primFloat_eq]
  | wrapStr s vo ts =>
    simp only [unbox, unbox4, defaultValue, defaultValueString]
    cases vo.call (.str s) <;> cases ts.call (.str s) <;> simp [primString_eq]
  | _ => rfl

/-- otto looks `toJSON` up exactly when ES5 Str step 2 does: on values of type Object only -/
theorem viaToJSON_eq (pj : SV → Str → Option SV) (key : Str) (v : SV) : viaToJSON pj key v = step2 pj key v := by
  cases v <;> simp [viaToJSON, step2, isObjectKind] <;> cases pj _ key <;> rfl

mutual
theorem walk_eq (M : MCtx) (S : SCtx) (hr : M.repl = S.repl) (hp : M.plist = S.plist) (hc : M.cv = S.cv) (hj : M.pj = S.pj) :
    ∀ fuel depth key v, walk M fuel depth key v = WR.map gvOf (serial S fuel depth key v)
  | 0, _, _, _ => by simp [walk, serial, WR.map]
  | fuel + 1, depth, key, v => by
    simp only [walk, serial, hr, hp, hc, hj, unbox_eq, viaToJSON_eq]
    generalize (unbox4 S.cv (match S.repl with | some f => f key (step2 S.pj key (viaGet v)) | none => step2 S.pj key (viaGet v))) = u
    cases u with
    | arr l =>
      simp only [walkArr_eq M S hr hp hc hj fuel (depth + 1) 0 l]
      cases serialArr S fuel (depth + 1) 0 l <;> simp [WR.map, gvOf]
    | obj m =>
      cases hpl : S.plist with
      | none =>
        simp only [walkObj_eq M S hr hp hc hj fuel (depth + 1) .nil m]
        cases serialObj S fuel (depth + 1) m <;> simp [WR.map, gvOf]
      | some ks =>
        simp only [walkList_eq M S hr hp hc hj fuel (depth + 1) .nil m ks]
        cases serialList S fuel (depth + 1) m ks <;> simp [WR.map, gvOf]
    | objP own ne proto =>
      cases hpl : S.plist with
      | none =>
        simp only [walkObj_eq M S hr hp hc hj fuel (depth + 1) .nil own]
        cases serialObj S fuel (depth + 1) own <;> simp [WR.map, gvOf]
      | some ks =>
        simp only [walkList_eq M S hr hp hc hj fuel (depth + 1) .nil (SMs.app own (SMs.app ne proto)) ks]
        cases serialList S fuel (depth + 1) (SMs.app own (SMs.app ne proto)) ks <;> simp [WR.map, gvOf]
    | num x =>
      cases hf : isFiniteF x <;> simp [WR.map, gvOf, walkNum_nonfinite, hf]
    | back k => by_cases hk : k < depth <;> simp [hk, WR.map, gvOf, gvOfM]
    | _ => simp [WR.map, gvOf, gvOfM]
theorem walkArr_eq (M : MCtx) (S : SCtx) (hr : M.repl = S.repl) (hp : M.plist = S.plist) (hc : M.cv = S.cv) (hj : M.pj = S.pj) :
    ∀ fuel depth i l, walkArr M fuel depth i l = WR.map gvOfL (serialArr S fuel depth i l)
  | 0, _, _, _ => by simp [walkArr, serialArr, WR.map]
  | _ + 1, _, _, .nil => by simp [walkArr, serialArr, WR.map, gvOfL]
  | fuel + 1, depth, i, .cons v t => by
    simp only [walkArr, serialArr, walk_eq M S hr hp hc hj fuel depth (decimalNat i) v, walkArr_eq M S hr hp hc hj fuel depth (i + 1) t]
    cases serial S fuel depth (decimalNat i) v <;> cases serialArr S fuel depth (i + 1) t <;> simp [WR.map, gvOfL, gvOf]
theorem walkObj_eq (M : MCtx) (S : SCtx) (hr : M.repl = S.repl) (hp : M.plist = S.plist) (hc : M.cv = S.cv) (hj : M.pj = S.pj) :
    ∀ fuel depth acc m, walkObj M fuel depth acc m = WR.map (gvOfM acc) (serialObj S fuel depth m)
  | 0, _, _, _ => by simp [walkObj, serialObj, WR.map]
  | _ + 1, _, _, .nil => by simp [walkObj, serialObj, WR.map, gvOfM]
  | fuel + 1, depth, acc, .cons k v t => by
    simp only [walkObj, serialObj, walk_eq M S hr hp hc hj fuel depth k v]
    cases serial S fuel depth k v <;> simp only [WR.map, walkObj_eq M S hr hp hc hj fuel depth _ t] <;>
      cases serialObj S fuel depth t <;> simp [WR.map, gvOfM]
theorem walkList_eq (M : MCtx) (S : SCtx) (hr : M.repl = S.repl) (hp : M.plist = S.plist) (hc : M.cv = S.cv) (hj : M.pj = S.pj) :
    ∀ fuel depth acc m ks, walkList M fuel depth acc m ks = WR.map (gvOfM acc) (serialList S fuel depth m ks)
  | 0, _, _, _, _ => by simp [walkList, serialList, WR.map]
  | _ + 1, _, _, _, [] => by simp [walkList, serialList, WR.map, gvOfM]
  | fuel + 1, depth, acc, m, k :: ks => by
    simp only [walkList, serialList, walk_eq M S hr hp hc hj fuel depth k (SMs.get k m)]
    cases serial S fuel depth k (SMs.get k m) <;> simp only [WR.map, walkList_eq M S hr hp hc hj fuel depth _ m ks] <;>
      cases serialList S fuel depth m ks <;> simp [WR.map, gvOfM]
end

/-! ### the emitted text read back by the grammar -/


theorem skipWS_nonws (c : Nat) (r : List Nat) (h : isWS c = false) : skipWS (c :: r) = c :: r := by
  simp [skipWS, h]

theorem skipWS_ws : ∀ (w : List Nat) (x : List Nat), w.all isWS = true → skipWS (w ++ x) = skipWS x
  | [], _, _ => rfl
  | c :: w, x, h => by
    simp only [List.all_cons, Bool.and_eq_true] at h
    simp [skipWS, h.1, skipWS_ws w x h.2]

def hexDig (v : Nat) : Nat := if v < 10 then 48 + v else 87 + v

theorem hexVal_hexDig : ∀ v, v < 16 → hexVal (hexDig v) = some v := by decide

theorem hex4_eq (n : Nat) : hex4 n = [hexDig (n / 16 ^ 3 % 16), hexDig (n / 16 ^ 2 % 16), hexDig (n / 16 ^ 1 % 16), hexDig (n / 16 ^ 0 % 16)] := rfl

/-- scanning a `\uXXXX` escape written by `hex4` -/
theorem scan_u (c : Nat) (hc : c < 65536) (tail : List Nat) :
    scanString (92 :: 117 :: (hex4 c ++ tail)) = (scanString tail).map (fun p => (Item.esc c :: p.1, p.2)) := by
  rw [hex4_eq]
  simp only [List.cons_append, List.nil_append, scanString]
  simp only [hexVal_hexDig _ (Nat.mod_lt _ (by decide : 16 > 0))]
  have : ((c / 4096 % 16 * 16 + c / 256 % 16) * 16 + c / 16 % 16) * 16 + c % 16 = c := by omega
  simp [this]

theorem scanString_quote (r : List Nat) : scanString (34 :: r) = some ([], r) := by
  rw [scanString.eq_def]; simp
theorem scanString_simple (e u : Nat) (r : List Nat) (h : simpleEsc e = some u) (h117 : e ≠ 117) :
    scanString (92 :: e :: r) = (scanString r).map (fun p => (Item.esc u :: p.1, p.2)) := by
  rw [scanString.eq_def]; simp [h, h117]
theorem scanString_raw (c : Nat) (r : List Nat) (h1 : c ≠ 34) (h2 : c ≠ 92) (h3 : ¬ c < 32) :
    scanString (c :: r) = (scanString r).map (fun p => (Item.raw c :: p.1, p.2)) := by
  rw [scanString.eq_def]; simp [h1, h2, h3]


theorem scan_goEsc (c : Nat) (hc : c < 65536) (tail : List Nat) :
    ∃ it, scanString (goEscChar c ++ tail) = (scanString tail).map (fun p => (it :: p.1, p.2)) ∧
      it.unit = c ∧ (∀ u, it = .esc u → isSurr u = false) := by
  unfold goEscChar
  split
  · subst_vars; exact ⟨.esc 34, by simpa using scanString_simple _ _ tail (by decide) (by decide), rfl, by intro u h; cases h; decide⟩
  split
  · subst_vars; exact ⟨.esc 92, by simpa using scanString_simple _ _ tail (by decide) (by decide), rfl, by intro u h; cases h; decide⟩
  split
  · subst_vars; exact ⟨.esc 8, by simpa using scanString_simple _ _ tail (by decide) (by decide), rfl, by intro u h; cases h; decide⟩
  split
  · subst_vars; exact ⟨.esc 12, by simpa using scanString_simple _ _ tail (by decide) (by decide), rfl, by intro u h; cases h; decide⟩
  split
  · subst_vars; exact ⟨.esc 10, by simpa using scanString_simple _ _ tail (by decide) (by decide), rfl, by intro u h; cases h; decide⟩
  split
  · subst_vars; exact ⟨.esc 13, by simpa using scanString_simple _ _ tail (by decide) (by decide), rfl, by intro u h; cases h; decide⟩
  split
  · subst_vars; exact ⟨.esc 9, by simpa using scanString_simple _ _ tail (by decide) (by decide), rfl, by intro u h; cases h; decide⟩
  split
  · next h1 h2 h3 h4 h5 h6 h7 h =>
    refine ⟨.esc c, by simpa using scan_u c hc tail, rfl, ?_⟩
    intro u hu; cases hu
    simp only [isSurr, Bool.and_eq_false_iff, decide_eq_false_iff_not]
    omega
  · next h1 h2 h3 h4 h5 h6 h7 h =>
    refine ⟨.raw c, ?_, rfl, by intro u hu; cases hu⟩
    have h32 : ¬ c < 32 := by omega
    simpa using scanString_raw c tail h1 h2 h32

def escOK (it : Item) : Prop := ∀ u, it = .esc u → isSurr u = false

theorem isHi_surr (u : Nat) (h : isSurr u = false) : isHi u = false := by
  simp only [isSurr, isHi, Bool.and_eq_false_iff, decide_eq_false_iff_not] at *; omega

theorem loneEsc_ok : ∀ (items : List Item), (∀ it ∈ items, escOK it) → loneEsc items = false
  | [], _ => rfl
  | .raw u :: t, h => by
    simp only [loneEsc]; exact loneEsc_ok t (fun it hi => h it (List.mem_cons_of_mem _ hi))
  | [.esc u], h => by
    simp only [loneEsc]; exact h (.esc u) (by simp) u rfl
  | .esc u :: .esc w :: t, h => by
    have hu := h (.esc u) (by simp) u rfl
    have ht := loneEsc_ok (.esc w :: t) (fun it hi => h it (List.mem_cons_of_mem _ hi))
    simp [loneEsc, isHi_surr u hu, hu, ht]
  | .esc u :: .raw w :: t, h => by
    have hu := h (.esc u) (by simp) u rfl
    have ht := loneEsc_ok t (fun it hi => h it (List.mem_cons_of_mem _ (List.mem_cons_of_mem _ hi)))
    simp [loneEsc, hu, ht]

theorem scan_goBody : ∀ (s : Str), (∀ c ∈ s, c < 65536) → ∀ rest,
    ∃ items, scanString (s.flatMap goEscChar ++ 34 :: rest) = some (items, rest) ∧
      items.map Item.unit = s ∧ (∀ it ∈ items, escOK it)
  | [], _, rest => ⟨[], by simpa using scanString_quote rest, rfl, by simp⟩
  | c :: s, h, rest => by
    obtain ⟨items, h1, h2, h3⟩ := scan_goBody s (fun c hc => h c (List.mem_cons_of_mem _ hc)) rest
    obtain ⟨it, e1, e2, e3⟩ := scan_goEsc c (h c (by simp)) (s.flatMap goEscChar ++ 34 :: rest)
    refine ⟨it :: items, ?_, by simp [e2, h2], ?_⟩
    · simp only [List.flatMap_cons, List.append_assoc, e1, h1, Option.map_some]
    · intro x hx
      rcases List.mem_cons.1 hx with rfl | hx
      · exact e3
      · exact h3 x hx

/-- a Go-quoted string reads back as the same code units (both under ES5 and under Go's decoder) -/
theorem scan_goQuote (s : Str) (hs : ∀ c ∈ s, c < 65536) (rest : List Nat) :
    ∃ items, scanString (s.flatMap goEscChar ++ 34 :: rest) = some (items, rest) ∧
      items.map Item.unit = s ∧ loneEsc items = false := by
  obtain ⟨items, h1, h2, h3⟩ := scan_goBody s hs rest
  exact ⟨items, h1, h2, loneEsc_ok items h3⟩

/-! ### one step of the reader -/

theorem pv_ws (fuel : Nat) (w x : List Nat) (hw : w.all isWS = true) :
    parseValue fuel (w ++ x) = parseValue fuel x := by
  cases fuel with
  | zero => simp [parseValue]
  | succ f => simp only [parseValue, skipWS_ws w x hw]

theorem pv_null (f : Nat) (rest : List Nat) : parseValue (f + 1) (110 :: 117 :: 108 :: 108 :: rest) = some (.null, rest) := by
  simp [parseValue, skipWS, isWS]
theorem pv_true (f : Nat) (rest : List Nat) : parseValue (f + 1) (116 :: 114 :: 117 :: 101 :: rest) = some (.bool true, rest) := by
  simp [parseValue, skipWS, isWS]
theorem pv_false (f : Nat) (rest : List Nat) : parseValue (f + 1) (102 :: 97 :: 108 :: 115 :: 101 :: rest) = some (.bool false, rest) := by
  simp [parseValue, skipWS, isWS]
theorem pv_str (f : Nat) (r : List Nat) : parseValue (f + 1) (34 :: r) = (scanString r).map fun p => (RT.str p.1, p.2) := by
  simp [parseValue, skipWS, isWS]
theorem pv_arr_empty (f : Nat) (rest : List Nat) : parseValue (f + 1) (91 :: 93 :: rest) = some (.arr .nil, rest) := by
  simp [parseValue, skipWS, isWS]
theorem pv_obj_empty (f : Nat) (rest : List Nat) : parseValue (f + 1) (123 :: 125 :: rest) = some (.obj .nil, rest) := by
  simp [parseValue, skipWS, isWS]
theorem pv_arr (f : Nat) (r : List Nat) (c : Nat) (r' : List Nat) (h : skipWS r = c :: r') (hc : c ≠ 93) :
    parseValue (f + 1) (91 :: r) = (parseElems f r).map fun p => (RT.arr p.1, p.2) := by
  simp only [parseValue]
  rw [skipWS_nonws 91 r (by decide)]
  simp only [h, show (91 : Nat) ≠ 34 by decide, if_false, if_true]
  split
  · next h2 => simp at h2; omega
  · rfl
theorem pv_obj (f : Nat) (r : List Nat) (c : Nat) (r' : List Nat) (h : skipWS r = c :: r') (hc : c ≠ 125) :
    parseValue (f + 1) (123 :: r) = (parseMembers f r).map fun p => (RT.obj p.1, p.2) := by
  simp only [parseValue]
  rw [skipWS_nonws 123 r (by decide)]
  simp only [h, show (123 : Nat) ≠ 34 by decide, show (123 : Nat) ≠ 91 by decide, if_false, if_true]
  split
  · next h2 => simp at h2; omega
  · rfl
theorem pv_num (f : Nat) (c : Nat) (r : List Nat) (hc : c = 45 ∨ isDigit c = true) :
    parseValue (f + 1) (c :: r) = (scanNumber (c :: r)).map fun p => (RT.num p.1, p.2) := by
  have hw : isWS c = false := by
    rcases hc with rfl | h
    · decide
    · simp only [isDigit, Bool.and_eq_true, decide_eq_true_eq] at h
      simp only [isWS, Bool.or_eq_false_iff, decide_eq_false_iff_not]; omega
  have hne : c ≠ 34 ∧ c ≠ 91 ∧ c ≠ 123 ∧ c ≠ 110 ∧ c ≠ 116 ∧ c ≠ 102 := by
    rcases hc with rfl | h
    · decide
    · simp only [isDigit, Bool.and_eq_true, decide_eq_true_eq] at h; omega
  simp [parseValue, skipWS, hw, hne]

/-! ### what the emitted text denotes -/

/-- a text can only be followed by a separator, a closing bracket, a line break, or nothing -/
def Delim (rest : List Nat) : Prop := rest = [] ∨ ∃ c t, rest = c :: t ∧ (c = 44 ∨ c = 93 ∨ c = 125 ∨ c = 10)

/-- the (per-sample validated) assumption on a printed number: it is a JSONNumber -/
def NumTxt (txt : Str) : Prop :=
  (∃ c t, txt = c :: t ∧ (c = 45 ∨ isDigit c = true)) ∧
  ∃ n, ∀ rest, Delim rest → scanNumber (txt ++ rest) = some (n, rest)

/-- the value of a number text -/
def decVal (txt : Str) : FV :=
  match scanNumber txt with
  | some (n, _) => n.value
  | none => .nan

mutual
def jvOf (L : OttoVerif.C06.Lib) : GV → JV
  | .nil => .null
  | .bool b => .bool b
  | .str s => .str s
  | .int i => .num (decVal (OttoVerif.C06.formatInt i 10))
  | .float x => .num (decVal (goFloat L x))
  | .arr l => .arr (jvOfL L l)
  | .map m => .obj (defineAll .nil (jvOfM L m))
def jvOfL (L : OttoVerif.C06.Lib) : GVs → JVs
  | .nil => .nil
  | .cons v t => .cons (jvOf L v) (jvOfL L t)
def jvOfM (L : OttoVerif.C06.Lib) : GMs → JMs
  | .nil => .nil
  | .cons k v t => .cons k (jvOf L v) (jvOfM L t)
end

def unitsOK (s : Str) : Prop := ∀ c ∈ s, c < 65536

mutual
def GOK (L : OttoVerif.C06.Lib) : GV → Prop
  | .str s => unitsOK s
  | .int i => NumTxt (OttoVerif.C06.formatInt i 10)
  | .float x => NumTxt (goFloat L x)
  | .arr l => GOKL L l
  | .map m => GOKM L m
  | _ => True
def GOKL (L : OttoVerif.C06.Lib) : GVs → Prop
  | .nil => True
  | .cons v t => GOK L v ∧ GOKL L t
def GOKM (L : OttoVerif.C06.Lib) : GMs → Prop
  | .nil => True
  | .cons k v t => unitsOK k ∧ GOK L v ∧ GOKM L t
end

mutual
def size : GV → Nat
  | .arr l => 1 + sizeL l
  | .map m => 1 + sizeM m
  | _ => 1
def sizeL : GVs → Nat
  | .nil => 0
  | .cons v t => 1 + size v + sizeL t
def sizeM : GMs → Nat
  | .nil => 0
  | .cons _ v t => 1 + size v + sizeM t
end

theorem nl_ws (gap : Str) (hg : gap.all isWS = true) (d : Nat) : (nl gap d).all isWS = true := by
  unfold nl
  split
  · rfl
  · simp only [List.all_cons, Bool.and_eq_true]
    refine ⟨by decide, ?_⟩
    induction d with
    | zero => simp
    | succ n ih => simp [List.replicate_succ, hg, ih]

theorem numTxt_scan (txt : Str) (h : NumTxt txt) (rest : List Nat) (hd : Delim rest) :
    decVal txt = (match scanNumber (txt ++ rest) with | some (n, _) => n.value | none => .nan) ∧
    ∃ n, scanNumber (txt ++ rest) = some (n, rest) ∧ n.value = decVal txt := by
  obtain ⟨_, n, hs⟩ := h
  have h0 := hs [] (Or.inl rfl)
  simp only [List.append_nil] at h0
  have h1 := hs rest hd
  refine ⟨by simp [decVal, h0, h1], n, h1, by simp [decVal, h0]⟩

/-- first character of an emitted value: not white space, not a closing bracket -/
theorem marshal_head (L : OttoVerif.C06.Lib) (gap : Str) (d : Nat) (g : GV) (hg : GOK L g) :
    ∃ c t, marshal L gap d g = c :: t ∧ isWS c = false ∧ c ≠ 93 ∧ c ≠ 125 := by
  have numHead : ∀ txt, NumTxt txt → ∃ c t, txt = c :: t ∧ isWS c = false ∧ c ≠ 93 ∧ c ≠ 125 := by
    intro txt h
    obtain ⟨⟨c, t, rfl, hc⟩, _⟩ := h
    refine ⟨c, t, rfl, ?_⟩
    rcases hc with rfl | h
    · decide
    · simp only [isDigit, Bool.and_eq_true, decide_eq_true_eq] at h
      simp only [isWS, Bool.or_eq_false_iff, decide_eq_false_iff_not]; omega
  cases g with
  | nil => exact ⟨110, _, rfl, by decide, by decide, by decide⟩
  | bool b => cases b <;> simp [marshal, trueT, falseT, isWS]
  | str s => exact ⟨34, s.flatMap goEscChar ++ [34], by simp [marshal, goQuote], by decide, by decide, by decide⟩
  | int i => simpa [marshal] using numHead _ hg
  | float x => simpa [marshal] using numHead _ hg
  | arr l => cases l <;> simp [marshal, isWS]
  | map m => cases m <;> simp [marshal, isWS]

def elemsText (L : OttoVerif.C06.Lib) (gap : Str) (d : Nat) : GVs → Str
  | .nil => []
  | .cons v t => nl gap (d + 1) ++ (marshal L gap (d + 1) v ++ marshalL L gap d t)

def membersText (L : OttoVerif.C06.Lib) (gap : Str) (d : Nat) : GMs → Str
  | .nil => []
  | .cons k v t => nl gap (d + 1) ++ (34 :: (k.flatMap goEscChar ++ 34 :: (colon gap ++ (marshal L gap (d + 1) v ++ marshalM L gap d t))))

theorem marshal_arr_cons (L : OttoVerif.C06.Lib) (gap : Str) (d : Nat) (v : GV) (t : GVs) :
    marshal L gap d (.arr (.cons v t)) = 91 :: elemsText L gap d (.cons v t) := by
  simp [marshal, elemsText]
theorem marshalL_cons (L : OttoVerif.C06.Lib) (gap : Str) (d : Nat) (v : GV) (t : GVs) :
    marshalL L gap d (.cons v t) = 44 :: elemsText L gap d (.cons v t) := by
  simp [marshalL, elemsText]
theorem marshal_map_cons (L : OttoVerif.C06.Lib) (gap : Str) (d : Nat) (k : Str) (v : GV) (t : GMs) :
    marshal L gap d (.map (.cons k v t)) = 123 :: membersText L gap d (.cons k v t) := by
  simp [marshal, membersText, goQuote]
theorem marshalM_cons (L : OttoVerif.C06.Lib) (gap : Str) (d : Nat) (k : Str) (v : GV) (t : GMs) :
    marshalM L gap d (.cons k v t) = 44 :: membersText L gap d (.cons k v t) := by
  simp [marshalM, membersText, goQuote]

theorem delim_nl_close (gap : Str) (d c : Nat) (hc : c = 93 ∨ c = 125) (rest : List Nat) : Delim (nl gap d ++ c :: rest) := by
  unfold nl; split
  · exact Or.inr ⟨c, rest, rfl, by omega⟩
  · exact Or.inr ⟨10, _, rfl, by omega⟩

theorem delim_marshalL (L : OttoVerif.C06.Lib) (gap : Str) (d : Nat) (t : GVs) (rest : List Nat) :
    Delim (marshalL L gap d t ++ rest) := by
  cases t with
  | nil => simpa [marshalL] using delim_nl_close gap d 93 (Or.inl rfl) rest
  | cons v t => rw [marshalL_cons]; exact Or.inr ⟨44, _, rfl, by omega⟩

theorem delim_marshalM (L : OttoVerif.C06.Lib) (gap : Str) (d : Nat) (t : GMs) (rest : List Nat) :
    Delim (marshalM L gap d t ++ rest) := by
  cases t with
  | nil => simpa [marshalM] using delim_nl_close gap d 125 (Or.inr rfl) rest
  | cons k v t => rw [marshalM_cons]; exact Or.inr ⟨44, _, rfl, by omega⟩

theorem colon_ws (gap : Str) : ∃ w, colon gap = 58 :: w ∧ w.all isWS = true := by
  unfold colon; split
  · exact ⟨[], rfl, rfl⟩
  · exact ⟨[32], rfl, by decide⟩

section
variable (L : OttoVerif.C06.Lib) (gap : Str) (hgap : gap.all isWS = true)
include hgap

mutual
theorem pv_marshal : ∀ (g : GV), GOK L g → ∀ (w : List Nat) (d : Nat) (rest : List Nat) (fuel : Nat),
    w.all isWS = true → Delim rest → size g ≤ fuel →
    ∃ rt, parseValue fuel (w ++ (marshal L gap d g ++ rest)) = some (rt, rest) ∧
      denote rt = jvOf L g ∧ rtAny loneEsc rt = false
  | .nil, _, w, d, rest, fuel, hw, _, hf => by
    obtain ⟨f, rfl⟩ : ∃ f, fuel = f + 1 := ⟨fuel - 1, by simp [size] at hf; omega⟩
    rw [pv_ws _ _ _ hw]
    exact ⟨.null, by simpa [marshal, nullT] using pv_null f rest, rfl, rfl⟩
  | .bool b, _, w, d, rest, fuel, hw, _, hf => by
    obtain ⟨f, rfl⟩ : ∃ f, fuel = f + 1 := ⟨fuel - 1, by simp [size] at hf; omega⟩
    rw [pv_ws _ _ _ hw]
    cases b
    · exact ⟨.bool false, by simpa [marshal, falseT] using pv_false f rest, rfl, rfl⟩
    · exact ⟨.bool true, by simpa [marshal, trueT] using pv_true f rest, rfl, rfl⟩
  | .str s, hg, w, d, rest, fuel, hw, _, hf => by
    obtain ⟨f, rfl⟩ : ∃ f, fuel = f + 1 := ⟨fuel - 1, by simp [size] at hf; omega⟩
    rw [pv_ws _ _ _ hw]
    obtain ⟨items, h1, h2, h3⟩ := scan_goQuote s hg rest
    refine ⟨.str items, ?_, by simp [denote, h2, jvOf], by simp [rtAny, h3]⟩
    simp only [marshal, goQuote, List.cons_append, List.append_assoc, List.nil_append, pv_str, h1, Option.map_some]
  | .int i, hg, w, d, rest, fuel, hw, hd, hf => by
    obtain ⟨f, rfl⟩ : ∃ f, fuel = f + 1 := ⟨fuel - 1, by simp [size] at hf; omega⟩
    rw [pv_ws _ _ _ hw]
    obtain ⟨_, n, hn, hv⟩ := numTxt_scan _ hg rest hd
    obtain ⟨⟨c, t, hct, hc⟩, _⟩ := hg
    refine ⟨.num n, ?_, by simp [denote, jvOf, hv], by simp [rtAny]⟩
    simp only [marshal]
    rw [hct] at hn ⊢
    simp only [List.cons_append] at hn ⊢
    rw [pv_num f c _ hc, hn]; rfl
  | .float x, hg, w, d, rest, fuel, hw, hd, hf => by
    obtain ⟨f, rfl⟩ : ∃ f, fuel = f + 1 := ⟨fuel - 1, by simp [size] at hf; omega⟩
    rw [pv_ws _ _ _ hw]
    obtain ⟨_, n, hn, hv⟩ := numTxt_scan _ hg rest hd
    obtain ⟨⟨c, t, hct, hc⟩, _⟩ := hg
    refine ⟨.num n, ?_, by simp [denote, jvOf, hv], by simp [rtAny]⟩
    simp only [marshal]
    rw [hct] at hn ⊢
    simp only [List.cons_append] at hn ⊢
    rw [pv_num f c _ hc, hn]; rfl
  | .arr .nil, _, w, d, rest, fuel, hw, _, hf => by
    obtain ⟨f, rfl⟩ : ∃ f, fuel = f + 1 := ⟨fuel - 1, by simp [size] at hf; omega⟩
    rw [pv_ws _ _ _ hw]
    exact ⟨.arr .nil, by simpa [marshal] using pv_arr_empty f rest, rfl, rfl⟩
  | .arr (.cons v t), hg, w, d, rest, fuel, hw, _, hf => by
    obtain ⟨f, rfl⟩ : ∃ f, fuel = f + 1 := ⟨fuel - 1, by simp [size] at hf; omega⟩
    rw [pv_ws _ _ _ hw, marshal_arr_cons, List.cons_append]
    have hsz : sizeL (.cons v t) ≤ f := by simp [size] at hf; omega
    obtain ⟨rts, h1, h2, h3⟩ := pl_marshal (.cons v t) hg d rest f hsz
    obtain ⟨c, t', hc, hcw, hc93, _⟩ := marshal_head L gap (d + 1) v hg.1
    have hskip : skipWS (elemsText L gap d (.cons v t) ++ rest) = c :: (t' ++ (marshalL L gap d t ++ rest)) := by
      simp only [elemsText, List.append_assoc]
      rw [skipWS_ws _ _ (nl_ws gap hgap (d + 1)), hc]
      exact skipWS_nonws c _ hcw
    rw [pv_arr f _ c _ hskip hc93, h1]
    exact ⟨.arr rts, rfl, by simp [denote, jvOf, h2], by simp [rtAny, h3]⟩
  | .map .nil, _, w, d, rest, fuel, hw, _, hf => by
    obtain ⟨f, rfl⟩ : ∃ f, fuel = f + 1 := ⟨fuel - 1, by simp [size] at hf; omega⟩
    rw [pv_ws _ _ _ hw]
    exact ⟨.obj .nil, by simpa [marshal] using pv_obj_empty f rest, rfl, rfl⟩
  | .map (.cons k v t), hg, w, d, rest, fuel, hw, _, hf => by
    obtain ⟨f, rfl⟩ : ∃ f, fuel = f + 1 := ⟨fuel - 1, by simp [size] at hf; omega⟩
    rw [pv_ws _ _ _ hw, marshal_map_cons, List.cons_append]
    have hsz : sizeM (.cons k v t) ≤ f := by simp [size] at hf; omega
    obtain ⟨rms, h1, h2, h3⟩ := pm_marshal (.cons k v t) hg d rest f hsz
    have hskip : skipWS (membersText L gap d (.cons k v t) ++ rest) =
        34 :: (k.flatMap goEscChar ++ 34 :: (colon gap ++ (marshal L gap (d + 1) v ++ (marshalM L gap d t ++ rest)))) := by
      simp only [membersText, List.append_assoc, List.cons_append]
      rw [skipWS_ws _ _ (nl_ws gap hgap (d + 1))]
      exact skipWS_nonws 34 _ (by decide)
    rw [pv_obj f _ 34 _ hskip (by decide), h1]
    exact ⟨.obj rms, rfl, by simp [denote, jvOf, h2], by simp [rtAny, h3]⟩
theorem pl_marshal : ∀ (l : GVs), GOKL L l → ∀ (d : Nat) (rest : List Nat) (fuel : Nat), sizeL l ≤ fuel →
    match l with
    | .nil => True
    | .cons _ _ => ∃ rts, parseElems fuel (elemsText L gap d l ++ rest) = some (rts, rest) ∧
        denoteL rts = jvOfL L l ∧ rtAnyL loneEsc rts = false
  | .nil, _, _, _, _, _ => trivial
  | .cons v t, hg, d, rest, fuel, hf => by
    obtain ⟨f, rfl⟩ : ∃ f, fuel = f + 1 := ⟨fuel - 1, by simp [sizeL] at hf; omega⟩
    simp only [sizeL] at hf
    obtain ⟨rt, h1, h2, h3⟩ := pv_marshal v hg.1 (nl gap (d + 1)) (d + 1) (marshalL L gap d t ++ rest) f
      (nl_ws gap hgap (d + 1)) (delim_marshalL L gap d t rest) (by omega)
    simp only [elemsText, List.append_assoc, parseElems, h1, Option.bind_some]
    cases t with
    | nil =>
      have : skipWS (marshalL L gap d .nil ++ rest) = 93 :: rest := by
        simp only [marshalL, List.append_assoc, List.cons_append, List.nil_append]
        rw [skipWS_ws _ _ (nl_ws gap hgap d)]; exact skipWS_nonws 93 _ (by decide)
      simp only [this]
      exact ⟨_, rfl, by simp [denoteL, jvOfL, h2], by simp [rtAnyL, h3]⟩
    | cons v' t' =>
      have hrec := pl_marshal (.cons v' t') hg.2 d rest f (by omega)
      obtain ⟨rts, r1, r2, r3⟩ := hrec
      have : skipWS (marshalL L gap d (.cons v' t') ++ rest) = 44 :: (elemsText L gap d (.cons v' t') ++ rest) := by
        rw [marshalL_cons]; exact skipWS_nonws 44 _ (by decide)
      simp only [this, r1, Option.map_some]
      exact ⟨_, rfl, by simp [denoteL, jvOfL, h2, r2], by simp [rtAnyL, h3, r3]⟩
theorem pm_marshal : ∀ (m : GMs), GOKM L m → ∀ (d : Nat) (rest : List Nat) (fuel : Nat), sizeM m ≤ fuel →
    match m with
    | .nil => True
    | .cons _ _ _ => ∃ rms, parseMembers fuel (membersText L gap d m ++ rest) = some (rms, rest) ∧
        denoteM rms = jvOfM L m ∧ rtAnyM loneEsc rms = false
  | .nil, _, _, _, _, _ => trivial
  | .cons k v t, hg, d, rest, fuel, hf => by
    obtain ⟨f, rfl⟩ : ∃ f, fuel = f + 1 := ⟨fuel - 1, by simp [sizeM] at hf; omega⟩
    simp only [sizeM] at hf
    obtain ⟨cw, hcolon, hcw⟩ := colon_ws gap
    obtain ⟨rt, h1, h2, h3⟩ := pv_marshal v hg.2.1 cw (d + 1) (marshalM L gap d t ++ rest) f
      hcw (delim_marshalM L gap d t rest) (by omega)
    obtain ⟨items, s1, s2, s3⟩ := scan_goQuote k hg.1 (colon gap ++ (marshal L gap (d + 1) v ++ (marshalM L gap d t ++ rest)))
    have hskip : skipWS (membersText L gap d (.cons k v t) ++ rest) =
        34 :: (k.flatMap goEscChar ++ 34 :: (colon gap ++ (marshal L gap (d + 1) v ++ (marshalM L gap d t ++ rest)))) := by
      simp only [membersText, List.append_assoc, List.cons_append]
      rw [skipWS_ws _ _ (nl_ws gap hgap (d + 1))]
      exact skipWS_nonws 34 _ (by decide)
    have hskip2 : skipWS (colon gap ++ (marshal L gap (d + 1) v ++ (marshalM L gap d t ++ rest))) =
        58 :: (cw ++ (marshal L gap (d + 1) v ++ (marshalM L gap d t ++ rest))) := by
      rw [hcolon]; exact skipWS_nonws 58 _ (by decide)
    simp only [parseMembers, hskip, s1, Option.bind_some, hskip2, h1]
    cases t with
    | nil =>
      have : skipWS (marshalM L gap d .nil ++ rest) = 125 :: rest := by
        simp only [marshalM, List.append_assoc, List.cons_append, List.nil_append]
        rw [skipWS_ws _ _ (nl_ws gap hgap d)]; exact skipWS_nonws 125 _ (by decide)
      simp only [this]
      exact ⟨_, rfl, by simp [denoteM, jvOfM, h2, s2], by simp [rtAnyM, h3, s3]⟩
    | cons k' v' t' =>
      have hrec := pm_marshal (.cons k' v' t') hg.2.2 d rest f (by omega)
      obtain ⟨rms, r1, r2, r3⟩ := hrec
      have : skipWS (marshalM L gap d (.cons k' v' t') ++ rest) = 44 :: (membersText L gap d (.cons k' v' t') ++ rest) := by
        rw [marshalM_cons]; exact skipWS_nonws 44 _ (by decide)
      simp only [this, r1, Option.map_some]
      exact ⟨_, rfl, by simp [denoteM, jvOfM, h2, r2, s2], by simp [rtAnyM, h3, r3, s3]⟩
end
end

mutual
theorem size_le (L : OttoVerif.C06.Lib) (gap : Str) : ∀ (g : GV) (d : Nat), GOK L g → size g ≤ (marshal L gap d g).length
  | .nil, _, _ => by simp [size, marshal, nullT]
  | .bool b, _, _ => by cases b <;> simp [size, marshal, trueT, falseT]
  | .str s, _, _ => by simp [size, marshal, goQuote]
  | .int i, _, h => by
    obtain ⟨⟨c, t, hct, _⟩, _⟩ := h
    simp [size, marshal, hct]
  | .float x, _, h => by
    obtain ⟨⟨c, t, hct, _⟩, _⟩ := h
    simp [size, marshal, hct]
  | .arr .nil, _, _ => by simp [size, sizeL, marshal]
  | .arr (.cons v t), d, h => by
    have h1 := size_le L gap v (d + 1) h.1
    have h2 := sizeL_le L gap t d h.2
    simp only [size, sizeL, marshal, List.length_cons, List.length_append]; omega
  | .map .nil, _, _ => by simp [size, sizeM, marshal]
  | .map (.cons k v t), d, h => by
    have h1 := size_le L gap v (d + 1) h.2.1
    have h2 := sizeM_le L gap t d h.2.2
    simp only [size, sizeM, marshal, List.length_cons, List.length_append]; omega
theorem sizeL_le (L : OttoVerif.C06.Lib) (gap : Str) : ∀ (l : GVs) (d : Nat), GOKL L l → sizeL l + 1 ≤ (marshalL L gap d l).length
  | .nil, _, _ => by simp [sizeL, marshalL]
  | .cons v t, d, h => by
    have h1 := size_le L gap v (d + 1) h.1
    have h2 := sizeL_le L gap t d h.2
    simp only [sizeL, marshalL, List.length_cons, List.length_append]; omega
theorem sizeM_le (L : OttoVerif.C06.Lib) (gap : Str) : ∀ (m : GMs) (d : Nat), GOKM L m → sizeM m + 1 ≤ (marshalM L gap d m).length
  | .nil, _, _ => by simp [sizeM, marshalM]
  | .cons k v t, d, h => by
    have h1 := size_le L gap v (d + 1) h.2.1
    have h2 := sizeM_le L gap t d h.2.2
    simp only [sizeM, marshalM, List.length_cons, List.length_append]; omega
end

/-- the text otto emits for a Go value tree is a JSON text, and it denotes that tree -/
theorem parseText_marshal (L : OttoVerif.C06.Lib) (gap : Str) (hgap : gap.all isWS = true) (g : GV) (hg : GOK L g) :
    ∃ rt, parseText (marshal L gap 0 g) = some rt ∧ denote rt = jvOf L g ∧ rtAny loneEsc rt = false := by
  obtain ⟨rt, h1, h2, h3⟩ := pv_marshal L gap hgap g hg [] 0 [] ((marshal L gap 0 g).length + 1) rfl (Or.inl rfl)
    (by have := size_le L gap g 0 hg; omega)
  refine ⟨rt, ?_, h2, h3⟩
  simp only [List.nil_append, List.append_nil] at h1
  simp [parseText, h1, skipWS]

/-! ### the reviver walk -/

mutual
theorem reviveM_eq (f : Reviver) : ∀ fuel hk name v, reviveM f fuel hk name v = Spec.revive f fuel hk name v
  | 0, _, _, _ => by simp [reviveM, Spec.revive]
  | fuel + 1, hk, name, .arr l => by simp [reviveM, Spec.revive, reviveArrM_eq f fuel 0 (RVs.len l) l]
  | fuel + 1, hk, name, .obj m => by simp [reviveM, Spec.revive, reviveObjM_eq f fuel (RMs'.keys m) m]
  | fuel + 1, hk, name, .undef => by simp [reviveM, Spec.revive]
  | fuel + 1, hk, name, .null => by simp [reviveM, Spec.revive]
  | fuel + 1, hk, name, .bool _ => by simp [reviveM, Spec.revive]
  | fuel + 1, hk, name, .num _ => by simp [reviveM, Spec.revive]
  | fuel + 1, hk, name, .str _ => by simp [reviveM, Spec.revive]
theorem reviveArrM_eq (f : Reviver) : ∀ fuel i len cur, reviveArrM f fuel i len cur = Spec.reviveArr f fuel i len cur
  | 0, _, _, _ => by simp [reviveArrM, Spec.reviveArr]
  | fuel + 1, i, len, cur => by
    simp only [reviveArrM, Spec.reviveArr]
    by_cases h : i < len
    · simp only [h, if_true, reviveM_eq f fuel 65 (decimalNat i) _]
      cases (Spec.revive f fuel 65 (decimalNat i) (RVs.getI i cur)).fst.val <;>
        simp only [reviveArrM_eq f fuel (i + 1) len _]
    · simp [h]
theorem reviveObjM_eq (f : Reviver) : ∀ fuel names cur, reviveObjM f fuel names cur = Spec.reviveObj f fuel names cur
  | 0, _, _ => by simp [reviveObjM, Spec.reviveObj]
  | _ + 1, [], _ => by simp [reviveObjM, Spec.reviveObj]
  | fuel + 1, name :: names, cur => by
    simp only [reviveObjM, Spec.reviveObj]
    cases hg : RMs'.get name cur <;>
      simp only [reviveM_eq f fuel 79 name _] <;>
      cases (Spec.revive f fuel 79 name _).fst.val <;>
      simp only [reviveObjM_eq f fuel names _]
end

/-! ### Quote -/

theorem goEscChar_eq (c : Nat) (h : lsps c = false) : goEscChar c = escChar c := by
  simp only [lsps, Bool.or_eq_false_iff, decide_eq_false_iff_not] at h
  unfold goEscChar escChar
  repeat' split
  all_goals first | rfl | omega

theorem goQuote_eq (s : Str) (h : s.any lsps = false) : goQuote s = quote s := by
  unfold goQuote quote
  congr 2
  induction s with
  | nil => rfl
  | cons c t ih =>
    simp only [List.any_cons, Bool.or_eq_false_iff] at h
    simp [List.flatMap_cons, goEscChar_eq c h.1, ih h.2]

end OttoVerif.C11.Lem
