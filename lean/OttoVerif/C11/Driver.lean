/-
  C11/Driver — line protocol front end (core-only).
    parse t:<hex units>                         JSON.parse(text)
    str <value> <replacer> <space>              JSON.stringify(value, replacer, space)
  reply: <model> <spec> <dev>

  value tokens (no spaces; hex digits are lower case, so upper-case letters and punctuation delimit):
    U undefined  N null  T F booleans  D<16 hex> number  S<units>. string  X function
    BD<16 hex> / BS<units>. / BT / BF  Number / String / Boolean objects
    WD<16 hex><m><m> / WS<units>.<m><m>  Number / String object with scripted valueOf, toString:
                                        <m> = i (inherited) | n (own, not callable) | r<primitive> (own function)
    A<values>] array   O(<units>.<value>)*} object   J<value> object whose toJSON returns <value>
    R<n>. reference to the n-th enclosing array/object (a cycle)
    P<own>}<own non-enumerable>}<inherited>} an object made with Object.create(proto) (Q: with new C,
                     C.prototype = proto); each part is a member list like that of O
    H<units>.<value> (as a member or element) an accessor whose getter returns <value> and makes the
                     holder's property <units> non-enumerable
  replacer: -  |  f<id> (function family, see `replFn`)  |  L<items>] with items S.. D.. BS.. BD.. Z(other)
            |  G<items>] the same list as a bridged Go []interface{} (items S.. D.. Z)
  optional last token e1 / e2: the runtime's Object.prototype has a setter / a read-only 7 named "a" and ""
  space:    -  |  S.. D.. BS.. BD..  |  Z (anything else)
    parse t:<hex units> v<id>                   JSON.parse(text, reviver) (family `reviverFn`); the result is
                                                <value>|<holder kind A/O + key of the reviver calls in call order>
  results:  parse: det:<value> | throw:SyntaxError   (the harness answers unord:/nondet if repeated runs differ)
            str:   s:<hex units> | undefined | throw:TypeError
-/
import OttoVerif.Base.Proto
import OttoVerif.C11.Spec
namespace OttoVerif.C11.Driver
open OttoVerif.F64 OttoVerif.Proto OttoVerif.C11 OttoVerif.C11.Spec

/-! ### token reader -/

def isHexC (c : Char) : Bool := ('0' ≤ c ∧ c ≤ '9') ∨ ('a' ≤ c ∧ c ≤ 'f')

def takeHex (cs : List Char) : List Char × List Char := (cs.takeWhile isHexC, cs.dropWhile isHexC)

/-- `<units>.` -/
def readUnits (cs : List Char) : Option (Str × List Char) :=
  let (h, r) := takeHex cs
  match r with
  | '.' :: r' => (units? (String.ofList h)).map fun u => (u, r')
  | _ => none

def readF64 (cs : List Char) : Option (FV × List Char) :=
  if cs.length < 16 then none else (f64? (String.ofList (cs.take 16))).map fun x => (x, cs.drop 16)

def readPrim (cs : List Char) : Option (Prim × List Char) :=
  match cs with
  | 'U' :: r => some (.undef, r)
  | 'N' :: r => some (.null, r)
  | 'T' :: r => some (.bool true, r)
  | 'F' :: r => some (.bool false, r)
  | 'D' :: r => (readF64 r).map fun p => (.num p.1, p.2)
  | 'S' :: r => (readUnits r).map fun p => (.str p.1, p.2)
  | _ => none

/-- i = inherited, n = an own non-callable property, r<prim> = an own function returning <prim> -/
def readMeth (cs : List Char) : Option (Meth × List Char) :=
  match cs with
  | 'i' :: r => some (.inherited, r)
  | 'n' :: r => some (.notCallable, r)
  | 'r' :: r => (readPrim r).map fun p => (.ret p.1, p.2)
  | _ => none

mutual
partial def readSV (cs : List Char) : Option (SV × List Char) :=
  match cs with
  | 'W' :: 'D' :: r =>
    (readF64 r).bind fun x => (readMeth x.2).bind fun vo => (readMeth vo.2).map fun ts => (.wrapNum x.1 vo.1 ts.1, ts.2)
  | 'W' :: 'S' :: r =>
    (readUnits r).bind fun x => (readMeth x.2).bind fun vo => (readMeth vo.2).map fun ts => (.wrapStr x.1 vo.1 ts.1, ts.2)
  | 'U' :: r => some (.undef, r)
  | 'N' :: r => some (.null, r)
  | 'T' :: r => some (.bool true, r)
  | 'F' :: r => some (.bool false, r)
  | 'X' :: r => some (.func, r)
  | 'D' :: r => (readF64 r).map fun p => (.num p.1, p.2)
  | 'S' :: r => (readUnits r).map fun p => (.str p.1, p.2)
  | 'B' :: 'T' :: r => some (.boxBool true, r)
  | 'B' :: 'F' :: r => some (.boxBool false, r)
  | 'B' :: 'D' :: r => (readF64 r).map fun p => (.boxNum p.1, p.2)
  | 'B' :: 'S' :: r => (readUnits r).map fun p => (.boxStr p.1, p.2)
  | 'J' :: r => (readSV r).map fun p => (.tojson p.1, p.2)
  | 'H' :: r => (readUnits r).bind fun h => (readSV h.2).map fun p => (.getter p.1 h.1, p.2)
  | 'R' :: r =>
    let ds := r.takeWhile Char.isDigit
    match r.dropWhile Char.isDigit with
    | '.' :: r' => (String.ofList ds).toNat?.map fun n => (.back n, r')
    | _ => none
  | 'A' :: r => (readSVs r).map fun p => (.arr p.1, p.2)
  | 'O' :: r => (readSMs r).map fun p => (.obj p.1, p.2)
  | 'P' :: r => (readSMs r).bind fun o => (readSMs o.2).bind fun n => (readSMs n.2).map fun p => (.objP o.1 n.1 p.1, p.2)
  | 'Q' :: r => (readSMs r).bind fun o => (readSMs o.2).bind fun n => (readSMs n.2).map fun p => (.objP o.1 n.1 p.1, p.2)
  | _ => none
partial def readSVs (cs : List Char) : Option (SVs × List Char) :=
  match cs with
  | ']' :: r => some (.nil, r)
  | _ => (readSV cs).bind fun p => (readSVs p.2).map fun q => (.cons p.1 q.1, q.2)
partial def readSMs (cs : List Char) : Option (SMs × List Char) :=
  match cs with
  | '}' :: r => some (.nil, r)
  | _ => (readUnits cs).bind fun k => (readSV k.2).bind fun p => (readSMs p.2).map fun q => (.cons k.1 p.1 q.1, q.2)
end

def sv? (t : String) : Option SV :=
  match readSV t.toList with
  | some (v, []) => some v
  | _ => none

/-! ### token writer -/

mutual
def jvTok : JV → String
  | .null => "N"
  | .bool b => if b then "T" else "F"
  | .num x => "D" ++ f64Out x
  | .str s => "S" ++ unitsOut s ++ "."
  | .arr l => "A" ++ jvsTok l ++ "]"
  | .obj m => "O" ++ jmsTok m ++ "}"
def jvsTok : JVs → String
  | .nil => ""
  | .cons v t => jvTok v ++ jvsTok t
def jmsTok : JMs → String
  | .nil => ""
  | .cons k v t => unitsOut k ++ "." ++ jvTok v ++ jmsTok t
end

def joinDev (ds : List String) : String := if ds.isEmpty then "-" else ",".intercalate ds

def reply (m s dev : String) : String := m ++ " " ++ s ++ " " ++ dev

def parseOut : Option JV → String
  | none => "throw:SyntaxError"
  | some v => "det:" ++ jvTok v

/-- region parse_lone_surrogate: the text holds an unpaired surrogate, raw or as an escape -/
def parseDevs (text : Str) : List String :=
  if goStr text != text then ["parse_lone_surrogate"]
  else match parseText text with
    | some t => if rtAny loneEsc t then ["parse_lone_surrogate"] else []
    | none => []

def handleParse (text : Str) : String :=
  reply (parseOut (C11.jsonParse text)) (parseOut (Spec.jsonParse text)) (joinDev (parseDevs text))

def sA : Str := [97]

/-! ### JSON.parse with a reviver -/

mutual
def rvTok : RV → String
  | .undef => "U"
  | .null => "N"
  | .bool b => if b then "T" else "F"
  | .num x => "D" ++ f64Out x
  | .str s => "S" ++ unitsOut s ++ "."
  | .arr l => "A" ++ rvsTok l ++ "]"
  | .obj m => "O" ++ rmsTok m ++ "}"
def rvsTok : RVs → String
  | .nil => ""
  | .cons v t => rvTok v ++ rvsTok t
def rmsTok : RMs' → String
  | .nil => ""
  | .cons k v t => unitsOut k ++ "." ++ rvTok v ++ rmsTok t
end

def isObjRV : RV → Bool
  | .null | .arr _ | .obj _ => true
  | _ => false

/-- `return v`: undefined stays undefined -/
def retV : RV → Option RV
  | .undef => none
  | v => some v

def seven' : RV := .num (.fin false 7 0)

/-- the reviver family (the harness holds the same table as JavaScript source).  Effects on `this`
    are guarded by the kind of the holder in the JavaScript source (Array.isArray(this)); here the
    effect simply does nothing on the other kind (`HEff.onObj` / `HEff.onArr`). -/
def reviverFn : Nat → Option Reviver
  | 0 => some fun _ v => ⟨retV v, .none⟩
  | 1 => some fun k v => ⟨if k = sA then none else retV v, .none⟩
  | 2 => some fun _ v => ⟨match v with | .num _ => none | v => retV v, .none⟩
  | 3 => some fun k v => ⟨match v with | .str _ => some (.str k) | v => retV v, .none⟩
  | 4 => some fun _ v => ⟨match v with | .bool _ => some .null | v => retV v, .none⟩
  | 5 => some fun k v => ⟨if k ≠ [] ∧ isObjRV v then some (.str [111]) else retV v, .none⟩
  | 6 => some fun k v => ⟨if k = [98] ∨ k = [49] then none else retV v, .none⟩
  -- 7, 8: called for "a", delete the sibling "b" of an object holder; 7 turns undefined into "u"
  | 7 => some fun k v => ⟨match v with | .undef => some (.str [117]) | v => some v, if k = sA then .delKey [98] else .none⟩
  | 8 => some fun k v => ⟨retV v, if k = sA then .delKey [98] else .none⟩
  -- array holders: 9 this.length = 1 at "1"; 10 this.length = 5 at "0"; 11 push(7) at "0"; 12 pop() at "1";
  -- 13 delete this[2] at "0"; 14 this[2] = "x" at "0" and this[0] = "y" at "2"; 15 = 9 with undefined -> "u";
  -- 17 push(7) on every call; 18 this[5] = "x" at "1" (beyond the length)
  | 9 => some fun k v => ⟨retV v, if k = [49] then .setLen 1 else .none⟩
  | 10 => some fun k v => ⟨retV v, if k = [48] then .setLen 5 else .none⟩
  | 11 => some fun k v => ⟨retV v, if k = [48] then .push seven' else .none⟩
  | 12 => some fun k v => ⟨retV v, if k = [49] then .pop else .none⟩
  | 13 => some fun k v => ⟨retV v, if k = [48] then .delIdx 2 else .none⟩
  | 14 => some fun k v => ⟨retV v, if k = [48] then .setIdx 2 (.str [120]) else if k = [50] then .setIdx 0 (.str [121]) else .none⟩
  | 15 => some fun k v => ⟨match v with | .undef => some (.str [117]) | v => some v, if k = [49] then .setLen 1 else .none⟩
  -- 16: an object holder gets a new sibling "zz" when called for "a" (not visited)
  | 16 => some fun k v => ⟨retV v, if k = sA then .setKey [122, 122] seven' else .none⟩
  | 17 => some fun _ v => ⟨retV v, .push seven'⟩
  | 18 => some fun k v => ⟨retV v, if k = [49] then .setIdx 5 (.str [120]) else .none⟩
  | _ => none

def logTok (l : List Str) : String := ",".intercalate (l.map fun k => "k" ++ unitsOut k)

def revTok (r : Option RV × List Str) : String :=
  (match r.1 with | some v => rvTok v | none => "U") ++ "|" ++ logTok r.2

def handleRevive (text : Str) (f : Reviver) : String :=
  let fuel := 4 * text.length + 16
  let modelTok := match C11.jsonParse text with
    | none => "throw:SyntaxError"
    | some mv => "det:" ++ revTok (reviveTop f fuel (rvOf mv))
  let specTok := match Spec.jsonParse text with
    | none => "throw:SyntaxError"
    | some v => let r := Spec.revive f fuel 79 [] (rvOf v); "det:" ++ revTok (r.1.val, r.2)
  reply modelTok specTok (joinDev (parseDevs text))

/-! ### JSON.stringify -/


def isObjectish : SV → Bool
  | .null | .boxNum _ | .boxStr _ | .boxBool _ | .arr _ | .obj _ | .tojson _ | .back _ | .wrapNum .. | .wrapStr .. | .objP .. => true
  | .getter r _ => isObjectish r
  | _ => false

/-- the replacer function family (the harness holds the same table as JavaScript source) -/
def replFn : Nat → Option (Str → SV → SV)
  | 0 => some fun _ v => v
  | 1 => some fun k v => if k = sA then .undef else v
  | 2 => some fun _ v => match v with | .num _ => .undef | v => v
  | 3 => some fun _ v => match v with | .str _ => .null | v => v
  | 4 => some fun k v => if k = [] then .arr (.cons v (.cons v .nil)) else v
  | 5 => some fun k v => if k ≠ [] ∧ isObjectish v then .null else v
  | 6 => some fun _ v => match v with | .bool _ => .func | v => v
  | 7 => some fun k v => match v with | .num _ => .str k | v => v
  | _ => none

partial def readItems (cs : List Char) : Option (List PLItem) :=
  match cs with
  | [']'] => some []
  | 'Z' :: r => (readItems r).map (PLItem.other :: ·)
  | 'S' :: r => (readUnits r).bind fun p => (readItems p.2).map (PLItem.str p.1 :: ·)
  | 'D' :: r => (readF64 r).bind fun p => (readItems p.2).map (PLItem.num p.1 :: ·)
  | 'B' :: 'S' :: r => (readUnits r).bind fun p => (readItems p.2).map (PLItem.boxStr p.1 :: ·)
  | 'B' :: 'D' :: r => (readF64 r).bind fun p => (readItems p.2).map (PLItem.boxNum p.1 :: ·)
  | _ => none

def replacer? (t : String) : Option Replacer :=
  match t.toList with
  | ['-'] => some .none
  | 'f' :: ds => ((String.ofList ds).toNat?.bind replFn).map Replacer.fn
  | 'L' :: r => (readItems r).map Replacer.list
  | 'G' :: r => (readItems r).map Replacer.list      -- the same list handed over as a bridged Go slice
  | _ => none

/-- the `space` argument as a value (`none` = not passed; Z = `true`) -/
def space? (t : String) : Option (Option SV) :=
  match t.toList with
  | ['-'] => some none
  | ['Z'] => some (some (.bool true))
  | _ => (sv? t).map some

def outTok : Out → String
  | .text s => "s:" ++ unitsOut s
  | .undef => "undefined"
  | .typeError => "throw:TypeError"
  | .oof => "oof"

def numStr (x : FV) : Str := C06.Spec.toStringNum x

/-- number <-> string of primitives: the C06 / C05 models on both sides -/
def cv : Conv := { numStr := numStr, strNum := fun s => OttoVerif.PN.parseNumber (Str.bytesOfUnits s) }

def lib : C06.Lib := C06.Spec.exactLib

def fuelOf (t : String) : Nat := 4 * t.length + 16

mutual
/-- the tree the emitted text must denote: numbers by their value (−0 prints as 0) -/
def expectOf : GV → JV
  | .nil => .null
  | .bool b => .bool b
  | .str s => .str s
  | .int i => .num (OttoVerif.F64.ofInt i)
  | .float x => .num x
  | .arr l => .arr (expectOfL l)
  | .map m => .obj (expectOfM m)
def expectOfL : GVs → JVs
  | .nil => .nil
  | .cons v t => .cons (expectOf v) (expectOfL t)
def expectOfM : GMs → JMs
  | .nil => .nil
  | .cons k v t => .cons k (expectOf v) (expectOfM t)
end

/-- per-sample validation of the assumptions of Thm.stringify_valid (`NumTxt`, and the numeric
    read-back rd (fmt x) = x): the text the model emits is re-read by the Lean JSON reader -/
def selfCheck (pj : SV → Str → Option SV) (fuel : Nat) (v : SV) (r : Replacer) (sp : Space) : String :=
  let gap := C11.gapOf sp
  if !gap.all isWS then "" else
  match walk (mctxOf cv pj r) fuel 0 [] v with
  | .val g =>
    let g' := sortMaps g
    match Spec.jsonParse (marshal lib gap 0 g') with
    | none => "!invalid"
    | some t => if jvTok t == jvTok (expectOf g') then "" else "!reread"
  | _ => ""

/-! ### runtimes with `toJSON` on the built-in prototypes (tokens e3, e4, e5)

    e3: String.prototype, Number.prototype and Boolean.prototype each have a method
        toJSON = function(k){ log.push(<S|N|B> + ":" + k); return "h<S|N|B>:" + k }
    e4: the same functions behind logging GETTERS (log.push("g<S|N|B>") at each read of toJSON)
    e5: Object.prototype.toJSON = function(k){ log.push("O:" + k); return "hO:" + k }
    The observation is the result followed by `#` and the log. -/

def tagStr (tag : Nat) (key : Str) : SV := .str ([104, tag, 58] ++ key)       -- "h" tag ":" key

/-- the class letter of a wrapper object -/
def wrapClass : SV → Option Nat
  | .boxNum _ | .wrapNum .. => some 78     -- N
  | .boxStr _ | .wrapStr .. => some 83     -- S
  | .boxBool _ => some 66                  -- B
  | _ => none

def pjOf (env : String) : SV → Str → Option SV :=
  if env == "e3" || env == "e4" then fun v key => (wrapClass v).map fun t => tagStr t key
  else if env == "e5" then fun v key => if isObjectKind v then some (tagStr 79 key) else none
  else noProtoToJSON

mutual
/-- the log of the toJSON reads and calls in walk order (replacer absent): one visit per value reached -/
partial def tjLog (env : String) (key : Str) (v0 : SV) : List Str :=
  let v := viaGet v0
  match v with
  | .tojson r => tjDescend env r
  | _ =>
    if env == "e5" && isObjectKind v then [[79, 58] ++ key]
    else match wrapClass v with
      | some t => if env == "e3" || env == "e4" then (if env == "e4" then [[103, t]] else []) ++ [[t, 58] ++ key] else tjDescend env v
      | none => tjDescend env v
partial def tjDescend (env : String) (u : SV) : List Str :=
  match u with
  | .arr l => tjLogL env 0 l
  | .obj m => tjLogM env m
  | .objP own _ _ => tjLogM env own
  | _ => []
partial def tjLogL (env : String) (i : Nat) : SVs → List Str
  | .nil => []
  | .cons v t => tjLog env (decimalNat i) v ++ tjLogL env (i + 1) t
partial def tjLogM (env : String) : SMs → List Str
  | .nil => []
  | .cons k v t => tjLog env k v ++ tjLogM env t
end

def handleStr (env : String) (vt : String) (v : SV) (r : Replacer) (spArg : Option SV) : String :=
  let fuel := fuelOf vt
  let pj := pjOf env
  let msp := C11.spaceOf cv spArg
  let sp := Spec.spaceOf cv spArg
  let m := C11.jsonStringify lib cv pj fuel v r msp
  let s := Spec.jsonStringify cv pj fuel v r sp
  let tree := Spec.serial (Spec.sctxOf cv pj r) fuel 0 [] v
  let treeDev : List String := match tree with
    | .val t =>
      (if jvAny no1 (fun m => !sortedKeys m) t then ["str_key_order"] else []) ++
      (if jvAny (fun s => s.any lsps) no1 t then ["str_u2028_escape"] else []) ++
      (if jvAny (fun s => goStr s != s) no1 t then ["str_lone_surrogate"] else [])
    | _ => []
  let dev := treeDev ++ (if gapLone sp && !treeDev.contains "str_lone_surrogate" then ["str_lone_surrogate"] else [])
  let logged := env == "e3" || env == "e4" || env == "e5"
  let lg (o : Out) : String := match o with
    | .typeError => ""
    | _ => if logged then "#" ++ logTok (tjLog env [] v) else ""
  reply (outTok m ++ lg m ++ selfCheck pj fuel v r msp) (outTok s ++ lg s) (joinDev dev)

/-! ### runtimes whose Object.prototype holds an accessor / a read-only property named "a" and ""

    (tokens e1 / e2).  JSON creates its properties with [[DefineOwnProperty]], so such a runtime
    behaves like a pristine one: the token only selects the runtime on the harness side. -/

def isEnv (t : String) : Bool := t == "e1" || t == "e2" || t == "e3" || t == "e4" || t == "e5"

def tText? (t : String) : Option Str :=
  if t.startsWith "t:" then units? (String.ofList (t.toList.drop 2)) else none
def reviver? (t : String) : Option Reviver :=
  if t.startsWith "v" then (String.ofList (t.toList.drop 1)).toNat?.bind reviverFn else none

def handle (ws : List String) : String :=
  match ws with
  | ["parse", t] =>
    match tText? t with
    | some u => handleParse u
    | none => "bad-op"
  | ["parse", t, x] =>
    match tText? t, reviver? x with
    | some u, some f => handleRevive u f
    | some u, none => if isEnv x then handleParse u else "bad-op"
    | _, _ => "bad-op"
  | ["parse", t, x, e] =>
    match tText? t, reviver? x with
    | some u, some f => if isEnv e then handleRevive u f else "bad-op"
    | _, _ => "bad-op"
  | ["str", vt, rt, st] =>
    match sv? vt, replacer? rt, space? st with
    | some v, some r, some sp => handleStr "" vt v r sp
    | _, _, _ => "bad-op"
  | ["str", vt, rt, st, e] =>
    match sv? vt, replacer? rt, space? st with
    | some v, some r, some sp => if isEnv e then handleStr e vt v r sp else "bad-op"
    | _, _, _ => "bad-op"
  | _ => "bad-op"

end OttoVerif.C11.Driver
