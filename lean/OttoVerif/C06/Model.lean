/-
  C06/Model — transcription of otto's number <-> text code.

  otto (Go):
    value_string.go   floatToString (l.15), numberToStringRadix (l.33), Value.string (l.51, number arms)
    builtin_number.go builtinNumberToString (l.29), builtinNumberToFixed (l.51),
                      builtinNumberToExponential (l.65), builtinNumberToPrecision (l.79)
    value_number.go   parseNumber (l.14)  — modelled in Base/ParseNumber (shared with C05)
                      toIntegerFloat (l.117)
    builtin.go        digitValue (l.45), builtinGlobalParseInt (l.57), builtinGlobalParseFloat (l.140)
    parser/lexer.go   scanNumericLiteral (l.826), parseNumberLiteral (l.661), digitValue (l.29)
  Go standard library (modelled, trusted base §2.6; validated per sample):
    strconv/ftoa.go   FormatFloat → formatDigits (l.186), fmtE (l.379), fmtF (l.434); %e/%f/%g layouts are
                      transcribed; the DIGIT GENERATION (Ryu shortest, Ryu fixed, bigFtoa) enters as the
                      parameter `Lib` (shortest digits / correct half-even rounding).
    strconv.FormatInt, math.Log10 (the latter is never computed here: its observed result is part of
                      the request, see `floatToString`).
  Strings are Go strings = lists of bytes (`List Nat`).
-/
import OttoVerif.Base.F64
import OttoVerif.Base.GoStd
import OttoVerif.Base.ParseNumber
import OttoVerif.C05.Model
namespace OttoVerif.C06
open OttoVerif.F64 OttoVerif.GoStd

abbrev Str := List Nat

/-- strconv's `decimalSlice`: digits `ds` (each 0..9, most significant first, `nd = ds.length`)
    and decimal point position `dp`; value = 0.d₀d₁… × 10^dp. -/
structure Dec where
  ds : List Nat
  dp : Int
deriving DecidableEq, Repr, Inhabited

/-- The unmodelled part of strconv: digit generation for a positive finite m·2^e (m > 0). -/
structure Lib where
  /-- ryuFtoaShortest / roundShortest: shortest digits that read back -/
  shortest : Nat → Int → Dec
  /-- ryuFtoaFixed64 / decimal.Round(n): n ≥ 1 significant digits, trailing zeros trimmed -/
  fixedSig : Nat → Int → Nat → Dec
  /-- decimal.Round(dp+prec): digits down to 10^-prec, trailing zeros trimmed -/
  fixedFrac : Nat → Int → Nat → Dec

def ch0 : Nat := 48
def digitCh (d : Nat) : Nat := 48 + d
def sNaN : Str := [78, 97, 78]
def sInfinity : Str := [73, 110, 102, 105, 110, 105, 116, 121]
def sNegInfinity : Str := 45 :: sInfinity

/-! ### strconv layouts -/

/-- the `dd or ddd` exponent digits of fmtE (ftoa.go:420) -/
def expDigits (exp : Nat) : Str :=
  if exp < 10 then [48, 48 + exp]
  else if exp < 100 then [48 + exp / 10, 48 + exp % 10]
  else [48 + exp / 100, 48 + (exp / 10) % 10, 48 + exp % 10]

/-- fmtE (ftoa.go:379), fmt = 'e' -/
def fmtE (neg : Bool) (d : Dec) (prec : Int) : Str :=
  let nd := d.ds.length
  let sign : Str := if neg then [45] else []
  let first : Nat := match d.ds with | [] => 48 | c :: _ => digitCh c
  let more : Str :=
    if prec > 0 then
      let p := prec.toNat
      let m := min nd (p + 1)
      46 :: (((d.ds.take m).drop 1).map digitCh ++ List.replicate (p + 1 - max m 1) 48)
    else []
  let exp : Int := if nd = 0 then 0 else d.dp - 1
  let esign : Nat := if exp < 0 then 45 else 43
  sign ++ first :: more ++ 101 :: esign :: expDigits exp.natAbs

/-- fmtF (ftoa.go:434) -/
def fmtF (neg : Bool) (d : Dec) (prec : Int) : Str :=
  let nd := d.ds.length
  let sign : Str := if neg then [45] else []
  let ip : Str :=
    if d.dp > 0 then
      let m := min nd d.dp.toNat
      (d.ds.take m).map digitCh ++ List.replicate (d.dp.toNat - m) 48
    else [48]
  let fp : Str :=
    if prec > 0 then
      46 :: (List.range prec.toNat).map (fun (i : Nat) =>
        let j : Int := d.dp + (i : Int)
        if 0 ≤ j ∧ j < (nd : Int) then digitCh (d.ds.getD j.toNat 0) else 48)
    else []
  sign ++ ip ++ fp

inductive Fmt | e | f | g deriving DecidableEq, Repr

/-- formatDigits (ftoa.go:186) -/
def formatDigits (shortest neg : Bool) (d : Dec) (prec : Int) : Fmt → Str
  | .e => fmtE neg d prec
  | .f => fmtF neg d prec
  | .g =>
    let nd : Int := d.ds.length
    let eprec : Int := if prec > nd ∧ nd ≥ d.dp then nd else prec
    let eprec : Int := if shortest then 6 else eprec
    let exp := d.dp - 1
    if exp < -4 ∨ exp ≥ eprec then
      let prec := if prec > nd then nd else prec
      fmtE neg d (prec - 1)
    else
      let prec := if prec > d.dp then nd else prec
      fmtF neg d (if prec - d.dp > 0 then prec - d.dp else 0)

/-- strconv.FormatFloat(x, fmt, prec, 64) (ftoa.go:47 genericFtoa).  `prec < 0` = shortest. -/
def formatFloat (L : Lib) (x : FV) (fmt : Fmt) (prec : Int) : Str :=
  match x with
  | .nan => sNaN
  | .inf s => if s then [45, 73, 110, 102] else [43, 73, 110, 102]      -- "-Inf" / "+Inf"
  | .fin s m e =>
    if prec < 0 then
      let digs : Dec := if m = 0 then ⟨[], 0⟩ else L.shortest m e
      let nd : Int := digs.ds.length
      let prec : Int := match fmt with
        | .e => if nd - 1 > 0 then nd - 1 else 0
        | .f => if nd - digs.dp > 0 then nd - digs.dp else 0
        | .g => nd
      formatDigits true s digs prec fmt
    else
      match fmt with
      | .f =>
        let digs : Dec := if m = 0 then ⟨[], 0⟩ else L.fixedFrac m e prec.toNat
        formatDigits false s digs prec .f
      | .e =>
        let digs : Dec := if m = 0 then ⟨[], 0⟩ else L.fixedSig m e (prec.toNat + 1)
        formatDigits false s digs prec .e
      | .g =>
        let prec := if prec = 0 then 1 else prec
        let digs : Dec := if m = 0 then ⟨[], 0⟩ else L.fixedSig m e prec.toNat
        formatDigits false s digs prec .g

/-! ### the rounding rule assumed of strconv's fixed-precision digit generation
    (correct rounding of the exact binary value, ties to even) – an executable instance of `Lib`
    minus `shortest` (which is the ES5 §9.8.1 search itself, see Spec). -/

/-- exact value of m·2^e as a fraction -/
def ratOf (m : Nat) (e : Int) : Nat × Nat :=
  if e ≥ 0 then (m * 2 ^ e.toNat, 1) else (m, 2 ^ (-e).toNat)

/-- num/den · 10^sh as a fraction -/
def scale10 (num den : Nat) (sh : Int) : Nat × Nat :=
  if sh ≥ 0 then (num * 10 ^ sh.toNat, den) else (num, den * 10 ^ (-sh).toNat)

/-- decimal digits of n, most significant first; `[]` for 0 (fuel ≥ number of digits; n suffices) -/
def natDigitsAux : Nat → Nat → List Nat → List Nat
  | 0, _, acc => acc
  | fuel + 1, n, acc => if n = 0 then acc else natDigitsAux fuel (n / 10) (n % 10 :: acc)

def natDigits (n : Nat) : List Nat := natDigitsAux n n []

def trimZeros (ds : List Nat) : List Nat := (ds.reverse.dropWhile (· = 0)).reverse

/-- smallest j ≥ 1 (searched upward from j) with num·10^j ≥ den -/
def firstScale : Nat → Nat → Nat → Nat → Nat
  | 0, _, _, j => j
  | fuel + 1, num, den, j => if num * 10 ^ j ≥ den then j else firstScale fuel num den (j + 1)

/-- the integer p with 10^(p-1) ≤ num/den < 10^p  (num, den > 0) -/
def decExp (num den : Nat) : Int :=
  if num ≥ den then ((natDigits (num / den)).length : Int)
  else 1 - (firstScale 400 num den 1 : Int)

/-- n significant digits of num/den using rounding function `rnd` on the scaled fraction -/
def sigDigitsWith (rnd : Nat → Nat → Nat) (num den : Nat) (n : Nat) : Dec :=
  let p := decExp num den
  let (a, b) := scale10 num den ((n : Int) - p)
  let r := rnd a b
  if r ≥ 10 ^ n then ⟨[1], p + 1⟩ else ⟨trimZeros (natDigits r), p⟩

/-- digits of round(num/den · 10^prec) positioned as a decimalSlice -/
def fracDigitsWith (rnd : Nat → Nat → Nat) (num den : Nat) (prec : Nat) : Dec :=
  let r := rnd (num * 10 ^ prec) den
  if r = 0 then ⟨[], 0⟩
  else
    let ds := natDigits r
    ⟨trimZeros ds, (ds.length : Int) - (prec : Int)⟩

def goFixedSig (m : Nat) (e : Int) (n : Nat) : Dec :=
  let (num, den) := ratOf m e
  sigDigitsWith divRNE num den n

def goFixedFrac (m : Nat) (e : Int) (prec : Nat) : Dec :=
  let (num, den) := ratOf m e
  fracDigitsWith divRNE num den prec

/-! ### otto -/

/-- `matchLeading0Exponent.ReplaceAllString(s, "$1$2")` with the regexp `([eE][\+\-])0+([1-9])`
    (value_string.go:11): leftmost non-overlapping matches; `0+` is greedy, and since the next
    atom is a non-zero digit the only possible match takes the whole run of zeros. -/
def stripExpZeros : Nat → Str → Str
  | 0, s => s
  | _, [] => []
  | fuel + 1, c :: r =>
    if c = 101 ∨ c = 69 then
      match r with
      | sg :: r2 =>
        if sg = 43 ∨ sg = 45 then
          let zs := r2.takeWhile (· = 48)
          let r3 := r2.dropWhile (· = 48)
          match r3 with
          | d :: r4 =>
            if zs.length > 0 ∧ 49 ≤ d ∧ d ≤ 57 then c :: sg :: d :: stripExpZeros fuel r4
            else c :: stripExpZeros fuel r
          | [] => c :: stripExpZeros fuel r
        else c :: stripExpZeros fuel r
      | [] => [c]
    else c :: stripExpZeros fuel r

/-- floatToString (value_string.go:15) for bitsize 64.  `lg` is the value `math.Log10(math.Abs(x))`
    returned (math.Log10 is not modelled; the harness records it in the request). -/
def floatToString (L : Lib) (x lg : FV) : Str :=
  match x with
  | .nan => sNaN
  | .inf s => if s then sNegInfinity else sInfinity
  | .fin .. =>
    if le (ofInt 21) lg ∨ lt lg (ofInt (-6)) then
      let s := formatFloat L x .g (-1)
      stripExpZeros s.length s
    else formatFloat L x .f (-1)

/-- Value.string() for a float64-kinded number (value_string.go:95) -/
def numToString (L : Lib) (x lg : FV) : Str :=
  if isZero x then [48] else floatToString L x lg

/-- strconv.FormatInt(i, base) for 2 ≤ base ≤ 36 -/
def radixDigitCh (d : Nat) : Nat := if d < 10 then 48 + d else 87 + d   -- '0'.. / 'a'..

def radixDigitsAux (base : Nat) : Nat → Nat → Str → Str
  | 0, _, acc => acc
  | fuel + 1, n, acc => if n = 0 then acc else radixDigitsAux base fuel (n / base) (radixDigitCh (n % base) :: acc)

def formatInt (i : Int) (base : Nat) : Str :=
  if i = 0 then [48]
  else
    let ds := radixDigitsAux base (i.natAbs.log2 + 1) i.natAbs []
    if i < 0 then 45 :: ds else ds

/-- toIntegerFloat (value_number.go:117) on a float64 -/
def toIntegerFloat (f : FV) : FV :=
  if isInf f then f
  else if isNaN f then zero
  else if lt zero f then floor f
  else ceil f

/-- an argument: `undefined` or a float64 number -/
inductive Arg | undef | num (x : FV)
deriving DecidableEq, Repr, Inhabited

def Arg.toFloat : Arg → FV | .undef => .nan | .num x => x
def Arg.isDefined : Arg → Bool | .undef => false | .num _ => true

inductive Res | str (s : Str) | num (x : FV) | rangeError | syntaxError
deriving DecidableEq, Repr, Inhabited

/-- Go `int(f)` on amd64 -/
def goInt (f : FV) : Int := C05.goInt64 f

/-- numberToStringRadix (value_string.go:33) -/
def numberToStringRadix (x : FV) (radix : Nat) : Str :=
  match x with
  | .nan => sNaN
  | .inf s => if s then sNegInfinity else sInfinity
  | .fin _ m _ => if m = 0 then [48] else formatInt (goInt x) radix

/-- builtinNumberToString (builtin_number.go:29) with a float64 `this` -/
def numberToString (L : Lib) (x lg : FV) (radixArg : Arg) : Res :=
  match radixArg with
  | .undef => .str (numToString L x lg)
  | .num r =>
    let integer := toIntegerFloat r
    if lt integer (ofInt 2) ∨ lt (ofInt 36) integer then .rangeError
    else
      let radix := goInt integer
      if radix = 10 then .str (numToString L x lg)
      else .str (numberToStringRadix x radix.toNat)

/-- builtinNumberToFixed (builtin_number.go:51), after the range check -/
def toFixedStr (L : Lib) (x lg : FV) (precision : FV) : Str :=
  if isNaN x then sNaN
  else if le (ofRatParts false (10 ^ 21) 1) (abs x) then floatToString L x lg
  else formatFloat L x .f (goInt precision)

/-- builtinNumberToFixed (builtin_number.go:51) -/
def toFixed (L : Lib) (x lg : FV) (a : Arg) : Res :=
  let precision := toIntegerFloat a.toFloat
  if lt (ofInt 20) precision ∨ lt precision zero then .rangeError
  else .str (toFixedStr L x lg precision)

/-- builtinNumberToExponential (builtin_number.go:65; upper bound since fix 94625b0) -/
def toExponential (L : Lib) (x : FV) (a : Arg) : Res :=
  if isNaN x then .str sNaN
  else
    match a with
    | .undef => .str (formatFloat L x .e (-1))
    | .num v =>
      let precision := toIntegerFloat v
      if lt precision zero ∨ lt (ofInt 20) precision then .rangeError
      else .str (formatFloat L x .e (goInt precision))

/-- builtinNumberToPrecision (builtin_number.go:79; upper bound since fix 94625b0) -/
def toPrecision (L : Lib) (x lg : FV) (a : Arg) : Res :=
  if isNaN x then .str sNaN
  else
    match a with
    | .undef => .str (numToString L x lg)
    | .num v =>
      let precision := toIntegerFloat v
      if lt precision one ∨ lt (ofInt 21) precision then .rangeError
      else .str (formatFloat L x .g (goInt precision))

/-! ### text → number -/

/-- Number(s) / unary plus on a string: parseNumber (value_number.go:14), in Base/ParseNumber -/
def stringToNumber (s : Str) : FV := OttoVerif.PN.parseNumber s

/-- digitValue (builtin.go:45) -/
def digitValue (c : Nat) : Nat :=
  if 48 ≤ c ∧ c ≤ 57 then c - 48
  else if 97 ≤ c ∧ c ≤ 122 then c - 97 + 10
  else if 65 ≤ c ∧ c ≤ 90 then c - 65 + 10
  else 36

/-- float accumulation `value = value*base + digit` (builtin.go:114) -/
def floatAccum (base : Nat) (ds : List Nat) : FV :=
  ds.foldl (fun v c => add (mul v (ofNat base)) (ofNat (digitValue c))) zero

/-- the sign switch (builtin.go:66) -/
def signSplit (input : Str) : Bool × Str :=
  match input with
  | [] => (false, input)
  | c :: r => if c = 43 then (false, r) else if c = 45 then (true, r) else (false, input)

/-- the `0x` strip (builtin.go:85) -/
def hexStrip (strip : Bool) (input : Str) (radix : Nat) : Str × Nat :=
  match input with
  | a :: c :: r => if a = 48 ∧ strip ∧ (c = 120 ∨ c = 88) then (r, 16) else (input, radix)
  | _ => (input, radix)

/-- builtinGlobalParseInt (builtin.go:57) after the Trim; `radix` is the result of toInt32(argument 1) -/
def parseIntBody (input : Str) (radix : Int) : FV :=
  if input.isEmpty then .nan else
  let negative := (signSplit input).1
  let input := (signSplit input).2
  let bad : Bool := radix ≠ 0 ∧ (radix < 2 ∨ radix > 36)
  if bad then .nan else
  let strip : Bool := radix = 0 ∨ radix = 16
  let radix : Nat := if radix = 0 then 10 else radix.toNat
  if input.isEmpty then .nan else
  let radix' := (hexStrip strip input radix).2
  let input := (hexStrip strip input radix).1
  let input := input.takeWhile (fun c => digitValue c < radix')
  match GoStd.parseInt input radix' with
  | .ok value => ofInt (if negative then -value else value)      -- int64Value, read as a number
  | .range =>
    let v := floatAccum radix' input
    if negative then mul v (ofInt (-1)) else v
  | .syntax => .nan

/-- builtinGlobalParseInt (builtin.go:57) -/
def parseIntCore (s : Str) (radix : Int) : FV :=
  parseIntBody (trim OttoVerif.PN.wsRunes s) radix

def parseInt (s : Str) (radixArg : Arg) : FV :=
  let r : Int := match radixArg with
    | .undef => 0
    | .num x => C05.toInt32 ⟨OttoVerif.PN.parseNumber⟩ (.f64 x)
  parseIntCore s r

def isSub (p : Str) : Str → Bool
  | [] => p.isEmpty
  | c :: r => p.isPrefixOf (c :: r) || isSub p r

def isSuffix (p s : Str) : Bool := p.reverse.isPrefixOf s.reverse

/-- parseFloatMatchBadSpecial `[\+\-]?(?:[Ii]nf$|infinity)` (unanchored) -/
def matchBadSpecial (s : Str) : Bool :=
  isSuffix [73, 110, 102] s || isSuffix [105, 110, 102] s || isSub [105, 110, 102, 105, 110, 105, 116, 121] s

/-- parseFloatMatchValid `[0-9eE\+\-\.]|Infinity` (unanchored) -/
def matchValid (s : Str) : Bool :=
  s.any (fun c => (48 ≤ c ∧ c ≤ 57) ∨ c = 101 ∨ c = 69 ∨ c = 43 ∨ c = 45 ∨ c = 46) || isSub sInfinity s

/-- Go's ParseFloat succeeds also with ErrRange? No: `err != nil` includes ErrRange.  Returns the
    value only when err == nil. -/
def parseFloatNoErr (s : Str) : Option FV :=
  match GoStd.parseFloat s with
  | none => none
  | some v =>
    -- ErrRange: a finite syntax that overflowed to ±Inf (the `special` spellings are not errors)
    match GoStd.special s with
    | some _ => some v
    | none => if isInf v then none else some v

/-- the retry loop of builtinGlobalParseFloat (builtin.go:149) -/
def parseFloatLoop (input : Str) : Nat → FV
  | 0 => .nan
  | end_ + 1 =>
    let val := input.take (end_ + 1)
    if !matchValid val then .nan
    else match parseFloatNoErr val with
      | some v => v
      | none => parseFloatLoop input end_

/-- builtinGlobalParseFloat (builtin.go:140) -/
def parseFloat (s : Str) : FV :=
  let input := trim OttoVerif.PN.wsRunes s
  if matchBadSpecial input then .nan
  else match parseFloatNoErr input with
    | some v => v
    | none => parseFloatLoop input input.length

/-! ### numeric literals (parser/lexer.go) -/

/-- parser digitValue (lexer.go:29) -/
def lexDigitValue (c : Nat) : Nat :=
  if 48 ≤ c ∧ c ≤ 57 then c - 48
  else if 97 ≤ c ∧ c ≤ 102 then c - 97 + 10
  else if 65 ≤ c ∧ c ≤ 70 then c - 65 + 10
  else 16

def isDecimalDigit (c : Nat) : Bool := 48 ≤ c ∧ c ≤ 57

/-- scanMantissa (lexer.go:554): (digits read, rest) -/
def scanMantissa (base : Nat) (s : Str) : Str × Str :=
  (s.takeWhile (fun c => lexDigitValue c < base), s.dropWhile (fun c => lexDigitValue c < base))

/-- label `exponent:` of scanNumericLiteral (lexer.go:880); `acc` = literal text so far.
    `none` = token.ILLEGAL -/
def scanExponent (acc : Str) (s : Str) : Option (Str × Str) :=
  match s with
  | c :: t =>
    if c = 101 ∨ c = 69 then
      let (sg, t2) : Str × Str := match t with
        | d :: u => if d = 45 ∨ d = 43 then ([d], u) else ([], t)
        | [] => ([], t)
      match t2 with
      | d :: _ =>
        if isDecimalDigit d then
          let (ds, r) := scanMantissa 10 t2
          some (acc ++ c :: sg ++ ds, r)
        else none
      | [] => none
    else some (acc, s)
  | [] => some (acc, s)

/-- label `float:` (lexer.go:874) -/
def scanFloat (acc : Str) (s : Str) : Option (Str × Str) :=
  match s with
  | 46 :: t => let (fs, r) := scanMantissa 10 t; scanExponent (acc ++ 46 :: fs) r
  | _ => scanExponent acc s

/-- scanNumericLiteral(false) (lexer.go:826) started at a decimal digit: (literal, rest) or ILLEGAL.
    The trailing "identifier start or digit follows" check is applied by the caller below. -/
def scanNumber (s : Str) : Option (Str × Str) :=
  match s with
  | 48 :: t =>
    match t with
    | c :: u =>
      if c = 120 ∨ c = 88 then
        match u with
        | d :: _ => if lexDigitValue d < 16 then let (ds, r) := scanMantissa 16 u; some (48 :: c :: ds, r) else none
        | [] => none
      else if c = 46 then scanFloat [48] t
      else if c = 101 ∨ c = 69 then scanExponent [48] t
      else
        let (ds, r) := scanMantissa 8 t
        match r with
        | d :: _ => if d = 56 ∨ d = 57 then none else some (48 :: ds, r)
        | [] => some (48 :: ds, r)
    | [] => some ([48], [])
  | _ => let (ds, r) := scanMantissa 10 s; scanFloat ds r

/-- parseNumberLiteral (lexer.go:661): `none` = "illegal numeric literal" -/
def parseNumberLiteral (lit : Str) : Option FV :=
  match GoStd.parseInt lit 0 with
  | .ok i => some (ofInt i)
  | err =>
    match GoStd.parseFloat lit with
    | some v => some v                       -- err == nil or ErrRange (±Inf)
    | none =>
      match err, lit with
      | .range, 48 :: x :: hs =>
        if (x = 88 ∨ x = 120) ∧ !hs.isEmpty then
          if hs.all (fun c => lexDigitValue c < 16) then
            some (hs.foldl (fun v c => add (mul v (ofNat 16)) (ofNat (lexDigitValue c))) zero)
          else none
        else none
      | _, _ => none

/-- a source text that is exactly one numeric literal token: its value; `none` otherwise
    (ILLEGAL token, leftover text, parse error) -/
def literalValue (s : Str) : Option FV :=
  let tok : Option (Str × Str) := match s with
    | 46 :: d :: _ =>
      if lexDigitValue d < 10 then let (ds, r) := scanMantissa 10 (s.drop 1); scanExponent (46 :: ds) r else none
    | d :: _ => if isDecimalDigit d then scanNumber s else none
    | [] => none
  match tok with
  | some (lit, []) => parseNumberLiteral lit
  | _ => none


end OttoVerif.C06
