/-
  C06/Model — transcription of otto's number <-> text code.

  otto (Go):
    value_string.go   floatToString (l.15), numberToStringRadix (l.33), Value.string (l.51, number arms)
    builtin_number.go builtinNumberToString (l.29), builtinNumberToFixed (l.51),
                      builtinNumberToExponential (l.65), builtinNumberToPrecision (l.79)
    value_number.go   parseNumber (l.14)  — modelled in Base/ParseNumber (shared with C05)
                      toIntegerFloat (l.117)
    builtin.go        digitValue (l.45), builtinGlobalParseInt (l.57), builtinGlobalParseFloat (l.140)
    parser/lexer.go   scanNumericLiteral (l.826), parseNumberLiteral (l.661), digitValue (l.29)
  Go standard library (modelled, trusted base §2.6; validated per sample):
    strconv/ftoa.go   FormatFloat → formatDigits (l.186), fmtE (l.379), fmtF (l.434); %e/%f/%g layouts are
                      transcribed; the DIGIT GENERATION (Ryu shortest, Ryu fixed, bigFtoa) enters as the
                      parameter `Lib` (shortest digits / correct half-even rounding).
    strconv.FormatInt, math.Log10 (the latter is never computed here: its observed result is part of
                      the request, see `floatToString`).
  Strings are Go strings = lists of bytes (`List Nat`).
-/
import OttoVerif.Base.F64
import OttoVerif.Base.GoStd
import OttoVerif.Base.ParseNumber
import OttoVerif.C05.Model
namespace OttoVerif.C06
open OttoVerif.F64 OttoVerif.GoStd

abbrev Str := List Nat

/-- strconv's `decimalSlice`: digits `ds` (each 0..9, most significant first, `nd = ds.length`)
    and decimal point position `dp`; value = 0.d₀d₁… × 10^dp. -/
structure Dec where
  ds : List Nat
  dp : Int
deriving DecidableEq, Repr, Inhabited

/-- The unmodelled part of strconv: digit generation for a positive finite m·2^e (m > 0). -/
structure Lib where
  /-- ryuFtoaShortest / roundShortest: shortest digits that read back -/
  shortest : Nat → Int → Dec
  /-- ryuFtoaFixed64 / decimal.Round(n): n ≥ 1 significant digits, trailing zeros trimmed -/
  fixedSig : Nat → Int → Nat → Dec
  /-- decimal.Round(dp+prec): digits down to 10^-prec, trailing zeros trimmed -/
  fixedFrac : Nat → Int → Nat → Dec

def ch0 : Nat := 48
def digitCh (d : Nat) : Nat := 48 + d
def sNaN : Str := [78, 97, 78]
def sInfinity : Str := [73, 110, 102, 105, 110, 105, 116, 121]
def sNegInfinity : Str := 45 :: sInfinity

/-! ### strconv layouts -/

/-- the `dd or ddd` exponent digits of fmtE (ftoa.go:420) -/
def expDigits (exp : Nat) : Str :=
  if exp < 10 then [48, 48 + exp]
  else if exp < 100 then [48 + exp / 10, 48 + exp % 10]
  else [48 + exp / 100, 48 + (exp / 10) % 10, 48 + exp % 10]

/-- fmtE (ftoa.go:379), fmt = 'e' -/
def fmtE (neg : Bool) (d : Dec) (prec : Int) : Str :=
  let nd := d.ds.length
  let sign : Str := if neg then [45] else []
  let first : Nat := match d.ds with | [] => 48 | c :: _ => digitCh c
  let more : Str :=
    if prec > 0 then
      let p := prec.toNat
      let m := min nd (p + 1)
      46 :: (((d.ds.take m).drop 1).map digitCh ++ List.replicate (p + 1 - max m 1) 48)
    else []
  let exp : Int := if nd = 0 then 0 else d.dp - 1
  let esign : Nat := if exp < 0 then 45 else 43
  sign ++ first :: more ++ 101 :: esign :: expDigits exp.natAbs

/-- fmtF (ftoa.go:434) -/
def fmtF (neg : Bool) (d : Dec) (prec : Int) : Str :=
  let nd := d.ds.length
  let sign : Str := if neg then [45] else []
  let ip : Str :=
    if d.dp > 0 then
      let m := min nd d.dp.toNat
      (d.ds.take m).map digitCh ++ List.replicate (d.dp.toNat - m) 48
    else [48]
  let fp : Str :=
    if prec > 0 then
      46 :: (List.range prec.toNat).map (fun (i : Nat) =>
        let j : Int := d.dp + (i : Int)
        if 0 ≤ j ∧ j < (nd : Int) then digitCh (d.ds.getD j.toNat 0) else 48)
    else []
  sign ++ ip ++ fp

inductive Fmt | e | f | g deriving DecidableEq, Repr

/-- formatDigits (ftoa.go:186) -/
def formatDigits (shortest neg : Bool) (d : Dec) (prec : Int) : Fmt → Str
  | .e => fmtE neg d prec
  | .f => fmtF neg d prec
  | .g =>
    let nd : Int := d.ds.length
    let eprec : Int := if prec > nd ∧ nd ≥ d.dp then nd else prec
    let eprec : Int := if shortest then 6 else eprec
    let exp := d.dp - 1
    if exp < -4 ∨ exp ≥ eprec then
      let prec := if prec > nd then nd else prec
      fmtE neg d (prec - 1)
    else
      let prec := if prec > d.dp then nd else prec
      fmtF neg d (if prec - d.dp > 0 then prec - d.dp else 0)

/-- strconv.FormatFloat(x, fmt, prec, 64) (ftoa.go:47 genericFtoa).  `prec < 0` = shortest. -/
def formatFloat (L : Lib) (x : FV) (fmt : Fmt) (prec : Int) : Str :=
  match x with
  | .nan => sNaN
  | .inf s => if s then [45, 73, 110, 102] else [43, 73, 110, 102]      -- "-Inf" / "+Inf"
  | .fin s m e =>
    if prec < 0 then
      let digs : Dec := if m = 0 then ⟨[], 0⟩ else L.shortest m e
      let nd : Int := digs.ds.length
      let prec : Int := match fmt with
        | .e => if nd - 1 > 0 then nd - 1 else 0
        | .f => if nd - digs.dp > 0 then nd - digs.dp else 0
        | .g => nd
      formatDigits true s digs prec fmt
    else
      match fmt with
      | .f =>
        let digs : Dec := if m = 0 then ⟨[], 0⟩ else L.fixedFrac m e prec.toNat
        formatDigits false s digs prec .f
      | .e =>
        let digs : Dec := if m = 0 then ⟨[], 0⟩ else L.fixedSig m e (prec.toNat + 1)
        formatDigits false s digs prec .e
      | .g =>
        let prec := if prec = 0 then 1 else prec
        let digs : Dec := if m = 0 then ⟨[], 0⟩ else L.fixedSig m e prec.toNat
        formatDigits false s digs prec .g

/-! ### the rounding rule assumed of strconv's fixed-precision digit generation
    (correct rounding of the exact binary value, ties to even) – an executable instance of `Lib`
    minus `shortest` (which is the ES5 §9.8.1 search itself, see Spec). -/

/-- exact value of m·2^e as a fraction -/
def ratOf (m : Nat) (e : Int) : Nat × Nat :=
  if e ≥ 0 then (m * 2 ^ e.toNat, 1) else (m, 2 ^ (-e).toNat)

/-- num/den · 10^sh as a fraction -/
def scale10 (num den : Nat) (sh : Int) : Nat × Nat :=
  if sh ≥ 0 then (num * 10 ^ sh.toNat, den) else (num, den * 10 ^ (-sh).toNat)

/-- decimal digits of n, most significant first; `[]` for 0 (fuel ≥ number of digits; n suffices) -/
def natDigitsAux : Nat → Nat → List Nat → List Nat
  | 0, _, acc => acc
  | fuel + 1, n, acc => if n = 0 then acc else natDigitsAux fuel (n / 10) (n % 10 :: acc)

def natDigits (n : Nat) : List Nat := natDigitsAux n n []

def trimZeros (ds : List Nat) : List Nat := (ds.reverse.dropWhile (· = 0)).reverse

/-- smallest j ≥ 1 (searched upward from j) with num·10^j ≥ den -/
def firstScale : Nat → Nat → Nat → Nat → Nat
  | 0, _, _, j => j
  | fuel + 1, num, den, j => if num * 10 ^ j ≥ den then j else firstScale fuel num den (j + 1)

/-- the integer p with 10^(p-1) ≤ num/den < 10^p  (num, den > 0) -/
def decExp (num den : Nat) : Int :=
  if num ≥ den then ((natDigits (num / den)).length : Int)
  else 1 - (firstScale 400 num den 1 : Int)

/-- n significant digits of num/den using rounding function `rnd` on the scaled fraction -/
def sigDigitsWith (rnd : Nat → Nat → Nat) (num den : Nat) (n : Nat) : Dec :=
  let p := decExp num den
  let (a, b) := scale10 num den ((n : Int) - p)
  let r := rnd a b
  if r ≥ 10 ^ n then ⟨[1], p + 1⟩ else ⟨trimZeros (natDigits r), p⟩

/-- digits of round(num/den · 10^prec) positioned as a decimalSlice -/
def fracDigitsWith (rnd : Nat → Nat → Nat) (num den : Nat) (prec : Nat) : Dec :=
  let r := rnd (num * 10 ^ prec) den
  if r = 0 then ⟨[], 0⟩
  else
    let ds := natDigits r
    ⟨trimZeros ds, (ds.length : Int) - (prec : Int)⟩

def goFixedSig (m : Nat) (e : Int) (n : Nat) : Dec :=
  let (num, den) := ratOf m e
  sigDigitsWith divRNE num den n

def goFixedFrac (m : Nat) (e : Int) (prec : Nat) : Dec :=
  let (num, den) := ratOf m e
  fracDigitsWith divRNE num den prec

/-! ### otto -/

/-- `matchLeading0Exponent.ReplaceAllString(s, "$1$2")` with the regexp `([eE][\+\-])0+([1-9])`
    (value_string.go:11): leftmost non-overlapping matches; `0+` is greedy, and since the next
    atom is a non-zero digit the only possible match takes the whole run of zeros. -/
def stripExpZeros : Nat → Str → Str
  | 0, s => s
  | _, [] => []
  | fuel + 1, c :: r =>
    if c = 101 ∨ c = 69 then
      match r with
      | sg :: r2 =>
        if sg = 43 ∨ sg = 45 then
          let zs := r2.takeWhile (· = 48)
          let r3 := r2.dropWhile (· = 48)
          match r3 with
          | d :: r4 =>
            if zs.length > 0 ∧ 49 ≤ d ∧ d ≤ 57 then c :: sg :: d :: stripExpZeros fuel r4
            else c :: stripExpZeros fuel r
          | [] => c :: stripExpZeros fuel r
        else c :: stripExpZeros fuel r
      | [] => [c]
    else c :: stripExpZeros fuel r

/-- the float64 constants `1e21` (exactly 10^21) and `1e-6` (the double nearest to 10^-6) -/
def f1e21 : FV := ofRatParts false (10 ^ 21) 1
def f1em6 : FV := ofRatParts false 1 (10 ^ 6)

/-- floatToString (value_string.go:15) for bitsize 64: exponential notation exactly for
    |x| >= 1e21 and |x| < 1e-6 (exact float comparisons). -/
def floatToString (L : Lib) (x : FV) : Str :=
  match x with
  | .nan => sNaN
  | .inf s => if s then sNegInfinity else sInfinity
  | .fin .. =>
    if le f1e21 (abs x) ∨ lt (abs x) f1em6 then
      let s := formatFloat L x .g (-1)
      stripExpZeros s.length s
    else formatFloat L x .f (-1)

/-- Value.string() for a float64-kinded number (value_string.go:95) -/
def numToString (L : Lib) (x : FV) : Str :=
  if isZero x then [48] else floatToString L x

/-- strconv.FormatInt(i, base) for 2 ≤ base ≤ 36 -/
def radixDigitCh (d : Nat) : Nat := if d < 10 then 48 + d else 87 + d   -- '0'.. / 'a'..

def radixDigitsAux (base : Nat) : Nat → Nat → Str → Str
  | 0, _, acc => acc
  | fuel + 1, n, acc => if n = 0 then acc else radixDigitsAux base fuel (n / base) (radixDigitCh (n % base) :: acc)

def formatInt (i : Int) (base : Nat) : Str :=
  if i = 0 then [48]
  else
    let ds := radixDigitsAux base (i.natAbs.log2 + 1) i.natAbs []
    if i < 0 then 45 :: ds else ds

/-- toIntegerFloat (value_number.go:117) on a float64 -/
def toIntegerFloat (f : FV) : FV :=
  if isInf f then f
  else if isNaN f then zero
  else if lt zero f then floor f
  else ceil f

/-- an argument: `undefined` or a float64 number -/
inductive Arg | undef | num (x : FV)
deriving DecidableEq, Repr, Inhabited

def Arg.toFloat : Arg → FV | .undef => .nan | .num x => x
def Arg.isDefined : Arg → Bool | .undef => false | .num _ => true

inductive Res | str (s : Str) | num (x : FV) | rangeError | syntaxError
deriving DecidableEq, Repr, Inhabited

/-- Go `int(f)` on amd64 -/
def goInt (f : FV) : Int := C05.goInt64 f

/-- numberToStringRadix (value_string.go:33): the integer part, taken exactly
    (`big.Float.SetFloat64(x).Int(nil).Text(radix)`); the fraction is dropped -/
def numberToStringRadix (x : FV) (radix : Nat) : Str :=
  match x with
  | .nan => sNaN
  | .inf s => if s then sNegInfinity else sInfinity
  | .fin _ m _ => if m = 0 then [48] else formatInt (truncInt x) radix

/-- builtinNumberToString (builtin_number.go:29) with a float64 `this` -/
def numberToString (L : Lib) (x : FV) (radixArg : Arg) : Res :=
  match radixArg with
  | .undef => .str (numToString L x)
  | .num r =>
    let integer := toIntegerFloat r
    if lt integer (ofInt 2) ∨ lt (ofInt 36) integer then .rangeError
    else
      let radix := goInt integer
      if radix = 10 then .str (numToString L x)
      else .str (numberToStringRadix x radix.toNat)

/-- `if value == 0 { value = 0 }`: -0 is formatted like +0 -/
def dropZeroSign (x : FV) : FV := if isZero x then zero else x

/-- `big.Int.String()`: decimal digits, "0" for zero -/
def bigIntString (n : Nat) : Str := if n = 0 then [48] else (natDigits n).map digitCh

/-- the exact rounding of builtinNumberToFixed: floor(|x|·10^f + 1/2) with big.Rat, for |x| = num/den -/
def fixedRound (num den f : Nat) : Nat := (2 * (num * 10 ^ f) + den) / (2 * den)

/-- the layout of builtinNumberToFixed: pad to f+1 digits, insert the point -/
def fixedLayout (digits : Str) (f : Nat) : Str :=
  if f > 0 then
    let digits := if digits.length ≤ f then List.replicate (f + 1 - digits.length) 48 ++ digits else digits
    digits.take (digits.length - f) ++ 46 :: digits.drop (digits.length - f)
  else digits

/-- builtinNumberToFixed (builtin_number.go:51), after the range check -/
def toFixedStr (L : Lib) (x : FV) (precision : FV) : Str :=
  if isNaN x then sNaN
  else
    let value := dropZeroSign x
    if le f1e21 (abs value) then floatToString L value
    else
      match value with
      | .fin _ m e =>
        let f := (goInt precision).toNat
        let digits := fixedLayout (bigIntString (fixedRound (ratOf m e).1 (ratOf m e).2 f)) f
        if lt value zero then 45 :: digits else digits
      | _ => floatToString L value          -- unreachable: infinities are >= 1e21

/-- builtinNumberToFixed (builtin_number.go:51) -/
def toFixed (L : Lib) (x : FV) (a : Arg) : Res :=
  let precision := toIntegerFloat a.toFloat
  if lt (ofInt 20) precision ∨ lt precision zero then .rangeError
  else .str (toFixedStr L x precision)

/-- `digits[e-1]++` on the output of strconv's %e: the last mantissa digit (the byte before 'e') plus one -/
def bumpBeforeE : Str → Str
  | [] => []
  | [c] => [c]
  | c :: d :: r => if d = 101 then (c + 1) :: d :: r else c :: bumpBeforeE (d :: r)

/-- the exact-arithmetic test of builtinNumberToExponential: |x| minus the printed decimal (|x| rounded
    half-even to n significant digits) is exactly half a unit of the last digit, i.e. x·10^k lies exactly
    half way and strconv went down (to the even neighbour) -/
def tieRoundedDown (m : Nat) (e : Int) (n : Nat) : Bool :=
  let (num, den) := ratOf m e
  let (a, b) := scale10 num den ((n : Int) - decExp num den)
  2 * (a % b) = b ∧ (a / b) % 2 = 0

/-- the tail of builtinNumberToExponential: strconv's %e, exact ties moved up -/
def expFormat (L : Lib) (x : FV) (prec : Int) : Str :=
  let result := formatFloat L x .e prec
  match x with
  | .fin _ m e => if prec ≥ 0 ∧ m ≠ 0 ∧ tieRoundedDown m e (prec.toNat + 1) then bumpBeforeE result else result
  | _ => result

/-- builtinNumberToExponential (builtin_number.go:89).  The receiver is a Number here (the TypeError for
    other this values is `numberMethodThis`). -/
def toExponential (L : Lib) (x : FV) (a : Arg) : Res :=
  if isNaN x then .str sNaN
  else if isInf x then .str (floatToString L x)
  else
    match a with
    | .undef => .str (expFormat L (dropZeroSign x) (-1))
    | .num v =>
      let precision := toIntegerFloat v
      if lt precision zero ∨ lt (ofInt 20) precision then .rangeError
      else .str (expFormat L (dropZeroSign x) (goInt precision))

/-- builtinNumberToPrecision (builtin_number.go:91) -/
def toPrecision (L : Lib) (x : FV) (a : Arg) : Res :=
  if isNaN x then .str sNaN
  else
    match a with
    | .undef => .str (numToString L x)
    | .num v =>
      if isInf x then .str (floatToString L x)
      else
        let precision := toIntegerFloat v
        if lt precision one ∨ lt (ofInt 21) precision then .rangeError
        else .str (formatFloat L (dropZeroSign x) .g (goInt precision))

/-! ### text → number -/

/-! #### the regular expression shared by parseNumber and parseFloat
    `[\+\-]?(?:Infinity|(?:[0-9]+\.?[0-9]*|\.[0-9]+)(?:[eE][\+\-]?[0-9]+)?)` anchored at the start.
    Go's regexp is leftmost-first; every repetition here is greedy and followed by something that cannot
    start with what it repeats, so the match found is the longest one. -/

def reIsDigit (c : Nat) : Bool := 48 ≤ c ∧ c ≤ 57

/-- `\.?[0-9]*` after a non-empty integer part, or `\.[0-9]+` after an empty one: (fraction digits, rest).
    With an empty integer part a "." that is not followed by a digit is not consumed. -/
def reFrac (ipEmpty : Bool) (r1 : Str) : Str × Str :=
  match r1 with
  | c :: t =>
    if c = 46 then
      let fp := t.takeWhile reIsDigit
      if ipEmpty ∧ fp.isEmpty then ([], r1) else (fp, t.dropWhile reIsDigit)
    else ([], r1)
  | [] => ([], r1)

/-- `[\+\-]?` -/
def reSign (t : Str) : Str :=
  match t with
  | c :: u => if c = 43 ∨ c = 45 then u else t
  | [] => t

/-- `(?:[eE][\+\-]?[0-9]+)?`: the rest after the optional exponent (taken only when complete) -/
def reExpRest (r2 : Str) : Str :=
  match r2 with
  | c :: t =>
    if c = 101 ∨ c = 69 then
      let ed := (reSign t).takeWhile reIsDigit
      if ed.isEmpty then r2 else (reSign t).dropWhile reIsDigit
    else r2
  | [] => r2

/-- the text left after the match of the whole expression at the start of `s`; `none` = no match -/
def reDecRest (s : Str) : Option Str :=
  let body := reSign s
  if sInfinity.isPrefixOf body then some (body.drop 8) else
  let ip := body.takeWhile reIsDigit
  let r1 := body.dropWhile reIsDigit
  let fp := (reFrac ip.isEmpty r1).1
  let r2 := (reFrac ip.isEmpty r1).2
  if ip.isEmpty ∧ fp.isEmpty then none else some (reExpRest r2)

def reIsHexDigit (c : Nat) : Bool := (48 ≤ c ∧ c ≤ 57) ∨ (97 ≤ c ∧ c ≤ 102) ∨ (65 ≤ c ∧ c ≤ 70)
def hexDigitVal (c : Nat) : Nat := if c ≤ 57 then c - 48 else if c ≥ 97 then c - 87 else c - 55

/-- `0[xX][0-9a-fA-F]+` matching the whole string -/
def isHexLit (v : Str) : Bool :=
  match v with
  | 48 :: x :: hs => (x = 120 ∨ x = 88) && !hs.isEmpty && hs.all reIsHexDigit
  | _ => false

/-- stringToNumberValid (value_number.go:15): `^(?:<decimal>|0[xX][0-9a-fA-F]+)$` -/
def stringToNumberValid (v : Str) : Bool := reDecRest v == some [] || isHexLit v

/-- `new(big.Float).SetInt(n).Float64()`: the integer n rounded once to nearest-even -/
def bigToFloat (n : Nat) : FV := ofRatParts false n 1

/-- parseNumber (value_number.go:17) after the Trim -/
def parseNumberBody (v : Str) : FV :=
  if v.isEmpty then zero
  else if !stringToNumberValid v then .nan
  else if v.contains 46 then OttoVerif.PN.pfOrNaN v
  else if OttoVerif.PN.startsWith0x v then
    match GoStd.parseInt v 0 with
    | .ok i => ofInt i
    | .range => bigToFloat ((v.drop 2).foldl (fun n c => n * 16 + hexDigitVal c) 0)   -- big.Int.SetString(value, 0)
    | .syntax => .nan
  else OttoVerif.PN.pfOrNaN v

/-- Number(s) / unary plus on a string: parseNumber (value_number.go:17) -/
def stringToNumber (s : Str) : FV := parseNumberBody (trim OttoVerif.PN.wsRunes s)

/-- digitValue (builtin.go:46) -/
def digitValue (c : Nat) : Nat :=
  if 48 ≤ c ∧ c ≤ 57 then c - 48
  else if 97 ≤ c ∧ c ≤ 122 then c - 97 + 10
  else if 65 ≤ c ∧ c ≤ 90 then c - 65 + 10
  else 36

/-- the sign switch (builtin.go:67) -/
def signSplit (input : Str) : Bool × Str :=
  match input with
  | [] => (false, input)
  | c :: r => if c = 43 then (false, r) else if c = 45 then (true, r) else (false, input)

/-- the `0x` strip (builtin.go:86) -/
def hexStrip (strip : Bool) (input : Str) (radix : Nat) : Str × Nat :=
  match input with
  | a :: c :: r => if a = 48 ∧ strip ∧ (c = 120 ∨ c = 88) then (r, 16) else (input, radix)
  | _ => (input, radix)

/-- builtinGlobalParseInt (builtin.go:58) after the Trim; `radix` is the result of toInt32(argument 1).
    Beyond int64 the digits are converted exactly (`big.Int.SetString`) and rounded once; a negative
    zero result is -0. -/
def parseIntBody (input : Str) (radix : Int) : FV :=
  if input.isEmpty then .nan else
  let negative := (signSplit input).1
  let input := (signSplit input).2
  let bad : Bool := radix ≠ 0 ∧ (radix < 2 ∨ radix > 36)
  if bad then .nan else
  let strip : Bool := radix = 0 ∨ radix = 16
  let radix : Nat := if radix = 0 then 10 else radix.toNat
  if input.isEmpty then .nan else
  let radix' := (hexStrip strip input radix).2
  let input := (hexStrip strip input radix).1
  let input := input.takeWhile (fun c => digitValue c < radix')
  match GoStd.parseInt input radix' with
  | .ok value =>
    if negative ∧ value = 0 then negZero                       -- float64Value(math.Copysign(0, -1))
    else ofInt (if negative then -value else value)            -- int64Value, read as a number
  | .range =>
    let v := bigToFloat (input.foldl (fun n c => n * radix' + digitValue c) 0)
    if negative then neg v else v                              -- value *= -1
  | .syntax => .nan

/-- builtinGlobalParseInt (builtin.go:58) -/
def parseIntCore (s : Str) (radix : Int) : FV :=
  parseIntBody (trim OttoVerif.PN.wsRunes s) radix

def parseInt (s : Str) (radixArg : Arg) : FV :=
  let r : Int := match radixArg with
    | .undef => 0
    | .num x => C05.toInt32 ⟨OttoVerif.PN.parseNumber⟩ (.f64 x)
  parseIntCore s r

/-- builtinGlobalParseFloat (builtin.go:139) after the Trim: the regexp prefix, converted by
    strconv.ParseFloat (a range error leaves ±Inf / 0 in the value; a syntax error cannot occur, it would leave 0) -/
def parseFloatBody (input : Str) : FV :=
  match reDecRest input with
  | none => .nan
  | some rest =>
    match GoStd.parseFloat (input.take (input.length - rest.length)) with
    | some v => v
    | none => zero

/-- builtinGlobalParseFloat (builtin.go:139) -/
def parseFloat (s : Str) : FV := parseFloatBody (trim OttoVerif.PN.wsRunes s)

/-! ### numeric literals (parser/lexer.go) -/

/-- parser digitValue (lexer.go:29) -/
def lexDigitValue (c : Nat) : Nat :=
  if 48 ≤ c ∧ c ≤ 57 then c - 48
  else if 97 ≤ c ∧ c ≤ 102 then c - 97 + 10
  else if 65 ≤ c ∧ c ≤ 70 then c - 65 + 10
  else 16

def isDecimalDigit (c : Nat) : Bool := 48 ≤ c ∧ c ≤ 57

/-- scanMantissa (lexer.go:554): (digits read, rest) -/
def scanMantissa (base : Nat) (s : Str) : Str × Str :=
  (s.takeWhile (fun c => lexDigitValue c < base), s.dropWhile (fun c => lexDigitValue c < base))

/-- label `exponent:` of scanNumericLiteral (lexer.go:880); `acc` = literal text so far.
    `none` = token.ILLEGAL -/
def scanExponent (acc : Str) (s : Str) : Option (Str × Str) :=
  match s with
  | c :: t =>
    if c = 101 ∨ c = 69 then
      let (sg, t2) : Str × Str := match t with
        | d :: u => if d = 45 ∨ d = 43 then ([d], u) else ([], t)
        | [] => ([], t)
      match t2 with
      | d :: _ =>
        if isDecimalDigit d then
          let (ds, r) := scanMantissa 10 t2
          some (acc ++ c :: sg ++ ds, r)
        else none
      | [] => none
    else some (acc, s)
  | [] => some (acc, s)

/-- label `float:` (lexer.go:874) -/
def scanFloat (acc : Str) (s : Str) : Option (Str × Str) :=
  match s with
  | 46 :: t => let (fs, r) := scanMantissa 10 t; scanExponent (acc ++ 46 :: fs) r
  | _ => scanExponent acc s

/-- scanNumericLiteral(false) (lexer.go:826) started at a decimal digit: (literal, rest) or ILLEGAL.
    The trailing "identifier start or digit follows" check is applied by the caller below. -/
def scanNumber (s : Str) : Option (Str × Str) :=
  match s with
  | 48 :: t =>
    match t with
    | c :: u =>
      if c = 120 ∨ c = 88 then
        match u with
        | d :: _ => if lexDigitValue d < 16 then let (ds, r) := scanMantissa 16 u; some (48 :: c :: ds, r) else none
        | [] => none
      else if c = 46 then scanFloat [48] t
      else if c = 101 ∨ c = 69 then scanExponent [48] t
      else
        let (ds, r) := scanMantissa 8 t
        match r with
        | d :: _ => if d = 56 ∨ d = 57 then none else some (48 :: ds, r)
        | [] => some (48 :: ds, r)
    | [] => some ([48], [])
  | _ => let (ds, r) := scanMantissa 10 s; scanFloat ds r

/-- `big.Int.SetString(literal, 0)` on the literals the scanner produces: `0x…`, legacy octal `0…`, decimal -/
def bigIntBase0 (lit : Str) : Option Nat :=
  match lit with
  | 48 :: x :: hs =>
    if x = 120 ∨ x = 88 then
      (if !hs.isEmpty ∧ hs.all (fun c => lexDigitValue c < 16) then some (hs.foldl (fun n c => n * 16 + lexDigitValue c) 0) else none)
    else if (x :: hs).all (fun c => lexDigitValue c < 8) then some ((x :: hs).foldl (fun n c => n * 8 + lexDigitValue c) 0)
    else none
  | _ => if !lit.isEmpty ∧ lit.all isDecimalDigit then some (lit.foldl (fun n c => n * 10 + (c - 48)) 0) else none

/-- parseNumberLiteral (lexer.go:659): `none` = "illegal numeric literal".  An integer literal beyond
    int64 is converted exactly and rounded once. -/
def parseNumberLiteral (lit : Str) : Option FV :=
  let viaFloat : Option FV := GoStd.parseFloat lit            -- err == nil or ErrRange (±Inf)
  match GoStd.parseInt lit 0 with
  | .ok i => some (ofInt i)
  | .range =>
    match bigIntBase0 lit with
    | some n => some (bigToFloat n)
    | none => viaFloat
  | .syntax => viaFloat

/-- the literal token of a source text that is exactly one numeric literal; `none` otherwise
    (ILLEGAL token, leftover text) -/
def literalToken (s : Str) : Option Str :=
  let tok : Option (Str × Str) := match s with
    | 46 :: d :: _ =>
      if lexDigitValue d < 10 then let (ds, r) := scanMantissa 10 (s.drop 1); scanExponent (46 :: ds) r else none
    | d :: _ => if isDecimalDigit d then scanNumber s else none
    | [] => none
  match tok with
  | some (lit, []) => some lit
  | _ => none

/-- a source text that is exactly one numeric literal token: its value; `none` otherwise
    (ILLEGAL token, leftover text, parse error) -/
def literalValue (s : Str) : Option FV := (literalToken s).bind parseNumberLiteral

/-- parseNumberLiteral keeps an int64 only for |i| ≤ 2^53 (lexer.go:669); everything else is a float64 -/
def literalIsInt (lit : Str) : Bool :=
  match GoStd.parseInt lit 0 with
  | .ok i => decide (i.natAbs ≤ 2 ^ 53)
  | _ => false

/-- Value.string() of a number Value: int64-kinded values print their digits (strconv.FormatInt),
    float64-kinded ones go through floatToString (value_string.go:60-100) -/
def numValToString (L : Lib) (isInt : Bool) (v : FV) : Str :=
  if isInt then formatInt (truncInt v) 10 else numToString L v

/-- String(<numeric literal>) -/
def literalString (L : Lib) (s : Str) : Option Str :=
  (literalToken s).bind fun lit => (parseNumberLiteral lit).map (numValToString L (literalIsInt lit))

/-- builtinGlobalParseInt returns an int64 Value for results up to 2^53 in magnitude (−0, NaN and
    everything beyond are float64 Values): decidable from the value -/
def parseIntIsInt (v : FV) : Bool :=
  match v with
  | .fin s m e => !(s && m == 0) && isIntegral m e && decide (truncAbs m e ≤ 2 ^ 53)
  | _ => false

/-- String(parseInt(s, radix)) -/
def parseIntString (L : Lib) (s : Str) (a : Arg) : Str :=
  let v := parseInt s a
  numValToString L (parseIntIsInt v) v

/-! ### the receiver check of the Number.prototype methods -/

/-- kinds of `this` values -/
inductive ThisKind | undef | null | bool | str | num | obj | arr | fn | date | numObj | strObj | boolObj | protoChild
deriving DecidableEq, Repr

/-- `call.thisClassObject("Number")` (used by toString, toLocaleString, valueOf and, since e68311c, by
    toFixed, toExponential, toPrecision): anything whose class is not Number throws TypeError -/
def numberMethodThis (k : ThisKind) : Bool :=   -- true = accepted
  match k with
  | .num | .numObj => true
  | _ => false

/-! ### object arguments: how often and when the digit-count / radix argument is converted -/

/-- what one call of a scripted valueOf / toString does: return a number, return an object, throw -/
inductive Item | num (x : FV) | obj | throw
deriving DecidableEq, Repr, Inhabited

/-- a scripted object: the k-th call of valueOf (toString) behaves like the k-th item, the last one repeats -/
structure Script where
  vs : List Item
  ss : List Item
deriving Repr

/-- conversion state: calls made so far and the call log ('v' = 118, 's' = 115) -/
structure CState where
  vi : Nat
  si : Nat
  log : Str
deriving Repr

def pick (l : List Item) (i : Nat) : Item := l.getD (min i (l.length - 1)) .throw

inductive Conv | val (x : FV) | thrown | typeError
deriving Repr

/-- Value.float64() of the object (value_number.go:75): DefaultValue(hint Number) = valueOf, then toString,
    TypeError when both return objects; exceptions propagate -/
def convert (sc : Script) (st : CState) : Conv × CState :=
  let st1 : CState := { st with vi := st.vi + 1, log := st.log ++ [118] }
  match pick sc.vs st.vi with
  | .num x => (.val x, st1)
  | .throw => (.thrown, st1)
  | .obj =>
    let st2 : CState := { st1 with si := st1.si + 1, log := st1.log ++ [115] }
    match pick sc.ss st1.si with
    | .num x => (.val x, st2)
    | .throw => (.thrown, st2)
    | .obj => (.typeError, st2)

/-- the receiver of a `.call`: a Number, a Number object, or something else -/
inductive Recv | num (x : FV) | numObj (x : FV) | other
deriving Repr

def Recv.value? : Recv → Option FV | .num x => some x | .numObj x => some x | .other => none

inductive Meth | toFixed | toExponential | toPrecision | toString
deriving DecidableEq, Repr

inductive Out | res (r : Res) | typeError | thrown
deriving DecidableEq, Repr

def st0 : CState := ⟨0, 0, []⟩

/-- the four methods called with a scripted object as argument, in the order of the Go code:
    toFixed (builtin_number.go:53) converts first (once), then RangeError, then the receiver check;
    toExponential / toPrecision (l.89 / l.127) check the receiver, convert (once, before the NaN / Infinity
    results since ca691c0), then the rest; toString (l.31) checks the receiver, then converts once. -/
def callWithObject (L : Lib) (m : Meth) (r : Recv) (sc : Script) : Out × Str :=
  match m with
  | .toFixed =>
    match convert sc st0 with
    | (.thrown, st) => (.thrown, st.log)
    | (.typeError, st) => (.typeError, st.log)
    | (.val v, st) =>
      let precision := toIntegerFloat v
      if lt (ofInt 20) precision ∨ lt precision zero then (.res .rangeError, st.log)
      else match r.value? with
        | none => (.typeError, st.log)
        | some x => (.res (toFixed L x (.num v)), st.log)
  | .toExponential =>
    match r.value? with
    | none => (.typeError, [])
    | some x =>
      match convert sc st0 with
      | (.thrown, st) => (.thrown, st.log)
      | (.typeError, st) => (.typeError, st.log)
      | (.val v, st) => (.res (toExponential L x (.num v)), st.log)
  | .toPrecision =>
    match r.value? with
    | none => (.typeError, [])
    | some x =>
      match convert sc st0 with
      | (.thrown, st) => (.thrown, st.log)
      | (.typeError, st) => (.typeError, st.log)
      | (.val v, st) => (.res (toPrecision L x (.num v)), st.log)
  | .toString =>
    match r.value? with
    | none => (.typeError, [])
    | some x =>
      match convert sc st0 with
      | (.thrown, st) => (.thrown, st.log)
      | (.typeError, st) => (.typeError, st.log)
      | (.val v, st) => (.res (numberToString L x (.num v)), st.log)


/-! ### parseInt with object arguments: ToString(string) first, then ToInt32(radix), always -/

/-- the string argument: a primitive string, an object whose toString logs 'S' (83) and returns the string,
    or an object whose toString throws -/
inductive StrArg | prim (s : Str) | obj (s : Str) | throws
deriving Repr

inductive POut | num (x : FV) | typeError | thrown
deriving DecidableEq, Repr

/-- builtinGlobalParseInt (builtin.go:71) called with a (possibly scripted) string argument and a scripted
    radix object: `call.Argument(0).string()` first; since ae747ea `toInt32(call.Argument(1))` next, for every
    input (an empty trimmed string returned NaN before that conversion); then the digits. -/
def parseIntWithObjects (sa : StrArg) (sc : Script) : POut × Str :=
  let strStep : Option Str × Str := match sa with
    | .prim s => (some s, [])
    | .obj s => (some s, [83])
    | .throws => (none, [83])
  match strStep with
  | (none, log) => (.thrown, log)
  | (some s, log) =>
    match convert sc ⟨0, 0, log⟩ with
    | (.thrown, st) => (.thrown, st.log)
    | (.typeError, st) => (.typeError, st.log)
    | (.val v, st) => (.num (parseInt s (.num v)), st.log)


end OttoVerif.C06
