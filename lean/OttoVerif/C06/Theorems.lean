/-
  C06/Theorems — the ledger for property C06 (numbers <-> text).  Every `theorem` here is audited
  (`#print axioms` ⊆ {propext, Classical.choice, Quot.sound}) on every run.

  Shape: `Model` = otto's code over the strconv layouts (Model.lean), `Spec` = ES5 (Spec.lean),
  theorems `¬Dev → Model = Spec`, and for every deviation region a kernel-checked witness
  (`example … ≠ … := by decide +kernel`) that is also replayed on the real code (known_findings.jsonl).
-/
import OttoVerif.C06.Spec
namespace OttoVerif.C06.Thm
open OttoVerif.F64 OttoVerif.C06

/-! ## Number → String (§9.8.1): layout -/

theorem strip_noE (fuel : Nat) (s : Str) (h : ∀ c ∈ s, c ≠ 101 ∧ c ≠ 69) : stripExpZeros fuel s = s := by
  induction fuel generalizing s with
  | zero => simp [stripExpZeros]
  | succ n ih =>
    cases s with
    | nil => simp [stripExpZeros]
    | cons c r =>
      have hc := h c (by simp)
      have hr : ∀ c ∈ r, c ≠ 101 ∧ c ≠ 69 := fun c hc => h c (by simp [hc])
      simp [stripExpZeros, hc.1, hc.2, ih r hr]

/-- strip passes over a prefix without `e`/`E` -/
theorem strip_prefix (pre rest : Str) (h : ∀ c ∈ pre, c ≠ 101 ∧ c ≠ 69) (fuel : Nat) :
    stripExpZeros (pre.length + fuel) (pre ++ rest) = pre ++ stripExpZeros fuel rest := by
  induction pre with
  | nil => simp
  | cons c r ih =>
    have hc := h c (by simp)
    have hr : ∀ c ∈ r, c ≠ 101 ∧ c ≠ 69 := fun c hc => h c (by simp [hc])
    have : (c :: r).length + fuel = (r.length + fuel) + 1 := by simp; omega
    rw [this]
    simp [stripExpZeros, hc.1, hc.2, ih hr]

/-- the fraction loop of fmtF, when the digits start at or after the point -/
theorem frac_pos (ds : List Nat) (n : Nat) (h : n ≤ ds.length) :
    (List.range (ds.length - n)).map (fun (i : Nat) =>
        let j : Int := (n : Int) + (i : Int)
        if 0 ≤ j ∧ j < (ds.length : Int) then digitCh (ds.getD j.toNat 0) else 48)
      = (ds.drop n).map digitCh := by
  apply List.ext_getElem
  · simp
  · intro i h1 h2
    simp at h1 h2 ⊢
    have : (n : Int) + (i : Int) < (ds.length : Int) := by omega
    have h0 : (0 : Int) ≤ (n : Int) + (i : Int) := by omega
    have h4 : ((n : Int) + (i : Int)).toNat = n + i := by omega
    simp [this, h0, h4, List.getElem?_eq_getElem (by omega : n + i < ds.length)]

/-- the fraction loop of fmtF, when the point is a zeros before the digits -/
theorem frac_neg (ds : List Nat) (a : Nat) :
    (List.range (ds.length + a)).map (fun (i : Nat) =>
        let j : Int := -(a : Int) + (i : Int)
        if 0 ≤ j ∧ j < (ds.length : Int) then digitCh (ds.getD j.toNat 0) else 48)
      = List.replicate a 48 ++ ds.map digitCh := by
  apply List.ext_getElem
  · simp; omega
  · intro i h1 h2
    simp at h1 h2
    by_cases hi : i < a
    · have : ¬ (0 : Int) ≤ -(a : Int) + (i : Int) := by omega
      simp [this, List.getElem_append_left, hi]
    · have h0 : (0 : Int) ≤ -(a : Int) + (i : Int) := by omega
      have h3 : -(a : Int) + (i : Int) < (ds.length : Int) := by omega
      have h4 : (-(a : Int) + (i : Int)).toNat = i - a := by omega
      simp [h0, h3, h4]
      rw [List.getElem_append_right (by simp; omega)]
      simp [List.getElem?_eq_getElem (by omega : i - a < ds.length)]


theorem fixedForm (s : Bool) (ds : List Nat) (dp : Int) (hne : ds ≠ []) (h1 : -6 < dp) (h2 : dp ≤ 21) :
    fmtF s ⟨ds, dp⟩ (if (ds.length : Int) - dp > 0 then (ds.length : Int) - dp else 0)
      = (if s then [45] else []) ++ Spec.layout981 ds dp := by
  have hk : 0 < ds.length := List.length_pos_iff.mpr hne
  by_cases c6 : (ds.length : Int) ≤ dp
  · -- step 6: digits then zeros
    have hp : ¬ ((ds.length : Int) - dp > 0) := by omega
    have hdp : dp > 0 := by omega
    have hm : min ds.length dp.toNat = ds.length := by omega
    rw [if_neg hp]
    simp only [fmtF, Spec.layout981, hdp, if_true, hm, c6, h2, and_self]
    simp
  · by_cases c7 : 0 < dp
    · -- step 7: point inside the digits
      have hp : (ds.length : Int) - dp > 0 := by omega
      have hm : min ds.length dp.toNat = dp.toNat := by omega
      have hn : ((ds.length : Int) - dp).toNat = ds.length - dp.toNat := by omega
      have hle : dp.toNat ≤ ds.length := by omega
      have hdd : dp = (dp.toNat : Int) := by omega
      have := frac_pos ds dp.toNat hle
      rw [← hdd] at this
      rw [if_pos hp]
      simp only [fmtF, Spec.layout981, hp, if_true, hm, hn, this, c6, c7, h2, false_and, if_false, and_self]
      simp [hdd.symm ▸ c7, List.map_take, List.map_drop]
    · -- step 8: 0.000ddd
      have hp : (ds.length : Int) - dp > 0 := by omega
      have hn : ((ds.length : Int) - dp).toNat = ds.length + (-dp).toNat := by omega
      have hdd : dp = -((-dp).toNat : Int) := by omega
      have := frac_neg ds (-dp).toNat
      rw [← hdd] at this
      have c8 : dp ≤ 0 := by omega
      rw [if_pos hp]
      simp only [fmtF, Spec.layout981, hp, if_true, hn, this, c6, c7, c8, h1, h2, false_and, if_false, and_self]
      simp


set_option maxRecDepth 1000000 in
theorem expTable : ∀ E : Fin 1000, 6 ≤ E.val → ∀ sg : Bool,
    stripExpZeros (2 + (expDigits E.val).length) (101 :: (if sg then 45 else 43) :: expDigits E.val)
      = 101 :: (if sg then 45 else 43) :: Spec.decimalStr E.val := by
  decide +kernel

theorem digitCh_noE (c : Nat) (h : c < 10) : digitCh c ≠ 101 ∧ digitCh c ≠ 69 := by
  unfold digitCh; omega

theorem expForm (s : Bool) (ds : List Nat) (dp : Int) (hne : ds ≠ []) (hdig : ∀ c ∈ ds, c < 10)
    (h : dp > 21 ∨ dp ≤ -6) (hb : -999 < dp ∧ dp < 1000) :
    stripExpZeros (fmtE s ⟨ds, dp⟩ ((ds.length : Int) - 1)).length (fmtE s ⟨ds, dp⟩ ((ds.length : Int) - 1))
      = (if s then [45] else []) ++ Spec.layout981 ds dp := by
  obtain ⟨c, cs, rfl⟩ := List.exists_cons_of_ne_nil hne
  have hc : c < 10 := hdig c (by simp)
  have hcs : ∀ x ∈ cs, x < 10 := fun x hx => hdig x (by simp [hx])
  -- the exponent
  have hE : (dp - 1).natAbs < 1000 := by omega
  have hE6 : 6 ≤ (dp - 1).natAbs := by omega
  have tab := expTable ⟨(dp - 1).natAbs, hE⟩ hE6 (decide (dp - 1 < 0))
  simp only [decide_eq_true_eq] at tab
  -- shape of fmtE
  have hshape : fmtE s ⟨c :: cs, dp⟩ (((c :: cs).length : Int) - 1)
      = ((if s then [45] else []) ++ digitCh c :: (if cs = [] then [] else 46 :: cs.map digitCh))
        ++ (101 :: (if dp - 1 < 0 then 45 else 43) :: expDigits (dp - 1).natAbs) := by
    cases cs with
    | nil => simp [fmtE]
    | cons c2 cs2 =>
      have h1 : ((c :: c2 :: cs2).length : Int) - 1 > 0 := by simp
      have h2 : (((c :: c2 :: cs2).length : Int) - 1).toNat = cs2.length + 1 := by simp
      simp only [fmtE, h1, if_true, h2]
      simp
  rw [hshape]
  have hpre : ∀ x ∈ ((if s then [45] else []) ++ digitCh c :: (if cs = [] then [] else 46 :: cs.map digitCh)),
      x ≠ 101 ∧ x ≠ 69 := by
    intro x hx
    simp at hx
    rcases hx with hx | hx | hx
    · cases s <;> simp at hx; omega
    · rw [hx]; exact digitCh_noE c hc
    · by_cases hcs0 : cs = []
      · simp [hcs0] at hx
      · simp [hcs0] at hx
        rcases hx with hx | ⟨a, ha, rfl⟩
        · omega
        · exact digitCh_noE a (hcs a ha)
  rw [List.length_append]
  have hlen : (101 :: (if dp - 1 < 0 then 45 else 43) :: expDigits (dp - 1).natAbs).length
      = 2 + (expDigits (dp - 1).natAbs).length := by simp; omega
  rw [hlen, strip_prefix _ _ hpre, tab]
  -- the spec side
  have n6 : ¬ ((((c :: cs).length : Int) ≤ dp) ∧ dp ≤ 21) := by omega
  have n7 : ¬ (0 < dp ∧ dp ≤ 21) := by omega
  have n8 : ¬ (-6 < dp ∧ dp ≤ 0) := by omega
  simp only [Spec.layout981, n6, n7, n8, if_false]
  cases cs with
  | nil => simp
  | cons c2 cs2 => simp


/-- what the layout theorem assumes of strconv's shortest-digit generator for one value -/
structure WFDec (d : Dec) : Prop where
  nonempty : d.ds ≠ []
  digits : ∀ c ∈ d.ds, c < 10
  dpBound : -999 < d.dp ∧ d.dp < 1000

theorem formatFloat_g_shortest (L : Lib) (s : Bool) (m : Nat) (e : Int) (hm : m ≠ 0)
    (h : (L.shortest m e).dp > 21 ∨ (L.shortest m e).dp ≤ -6) :
    formatFloat L (.fin s m e) .g (-1)
      = fmtE s (L.shortest m e) (((L.shortest m e).ds.length : Int) - 1) := by
  have hx : (L.shortest m e).dp - 1 < -4 ∨ (L.shortest m e).dp - 1 ≥ 6 := by omega
  simp [formatFloat, formatDigits, hm, hx]

theorem formatFloat_f_shortest (L : Lib) (s : Bool) (m : Nat) (e : Int) (hm : m ≠ 0) :
    formatFloat L (.fin s m e) .f (-1)
      = fmtF s (L.shortest m e) (if ((L.shortest m e).ds.length : Int) - (L.shortest m e).dp > 0
          then ((L.shortest m e).ds.length : Int) - (L.shortest m e).dp else 0) := by
  simp [formatFloat, formatDigits, hm]

/-- C06.layout: for every value and every digit generator output `(ds, n)` (non-empty decimal digits,
    |n| < 999) that is consistent with the magnitude of the value (`sideOK`: n > 21 ⇔ |x| ≥ 1e21,
    n ≤ −6 ⇔ |x| < 1e-6), otto's Number → String conversion is exactly the §9.8.1 layout of those digits. -/
theorem toString_layout (L : Lib) (s : Bool) (m : Nat) (e : Int) (hm : m ≠ 0)
    (hwf : WFDec (L.shortest m e)) (hside : Spec.Dev.sideOK (.fin s m e) (L.shortest m e).dp = true) :
    numToString L (.fin s m e)
      = (if s then [45] else []) ++ Spec.layout981 (L.shortest m e).ds (L.shortest m e).dp := by
  have hz : isZero (.fin s m e) = false := by
    cases m with
    | zero => exact absurd rfl hm
    | succ k => rfl
  simp only [numToString, hz, floatToString]
  simp only [Spec.Dev.sideOK, beq_iff_eq] at hside
  by_cases hexp : (L.shortest m e).dp > 21 ∨ (L.shortest m e).dp ≤ -6
  · have hcond : (le f1e21 (abs (.fin s m e)) = true ∨ lt (abs (.fin s m e)) f1em6 = true) := by
      have : (le f1e21 (abs (.fin s m e)) || lt (abs (.fin s m e)) f1em6) = true := by rw [hside]; simpa using hexp
      simpa using this
    rw [if_pos hcond, formatFloat_g_shortest L s m e hm hexp]
    cases hd : L.shortest m e with
    | mk ds dp =>
      rw [hd] at hwf hexp
      exact expForm s ds dp hwf.nonempty hwf.digits hexp hwf.dpBound
  · have hcond : ¬ (le f1e21 (abs (.fin s m e)) = true ∨ lt (abs (.fin s m e)) f1em6 = true) := by
      have : (le f1e21 (abs (.fin s m e)) || lt (abs (.fin s m e)) f1em6) = false := by rw [hside]; simpa using hexp
      simpa using this
    rw [if_neg hcond, formatFloat_f_shortest L s m e hm]
    cases hd : L.shortest m e with
    | mk ds dp =>
      rw [hd] at hwf hexp
      exact fixedForm s ds dp hwf.nonempty (by simp at hexp; omega) (by simp at hexp; omega)

/-- the same, against the specification function, with the exact digit oracle as the generator -/
theorem toString_eq_spec (x : FV)
    (h : ∀ s m e, x = .fin s m e → m ≠ 0 →
      WFDec (Spec.shortestDigits m e) ∧ Spec.Dev.sideOK x (Spec.shortestDigits m e).dp = true) :
    numToString Spec.exactLib x = Spec.toStringNum x := by
  cases x with
  | nan => rfl
  | inf s => rfl
  | fin s m e =>
    by_cases hm : m = 0
    · subst hm; rfl
    · obtain ⟨hwf, hside⟩ := h s m e rfl hm
      have := toString_layout Spec.exactLib s m e hm hwf hside
      simp only [Spec.toStringNum, hm, if_false]
      exact this


/-! ## ToInteger and the RangeError conditions (§15.7.4.2/5/6/7) -/

theorem lt_zero_pos (m : Nat) (e : Int) (hm : m ≠ 0) : lt zero (.fin false m e) = true := by
  simp only [lt, zero, cmpReal, alignInt]
  have h2 : ∀ k, (0 : Int) < (m : Int) * 2 ^ k := by
    intro k
    have h2 : 0 < m * 2 ^ k := Nat.mul_pos (Nat.pos_of_ne_zero hm) (Nat.pow_pos (by decide))
    have h3 : (0 : Int) < ((m * 2 ^ k : Nat) : Int) := by exact_mod_cast h2
    push_cast at h3
    exact h3
  simp [h2]

theorem lt_zero_neg (m : Nat) (e : Int) : lt zero (.fin true m e) = false := by
  simp only [lt, zero, cmpReal, alignInt]
  generalize (e - (if (0:Int) ≤ e then 0 else e)).toNat = k
  have h3 : (0 : Int) ≤ ((m * 2 ^ k : Nat) : Int) := Int.natCast_nonneg _
  push_cast at h3
  simp
  constructor
  · omega
  · split <;> simp

/-- otto's toIntegerFloat (floor for positive, ceil otherwise) is ES5 ToInteger (§9.4) on every value -/
theorem toInteger_eq (f : FV) : toIntegerFloat f = Spec.toInteger f := by
  cases f with
  | nan => rfl
  | inf s => rfl
  | fin s m e =>
    simp only [toIntegerFloat, Spec.toInteger, isInf, isNaN]
    by_cases hi : isIntegral m e = true
    · simp [floor, ceil, trunc, hi]
    · cases s with
      | false =>
        have hm : m ≠ 0 := by
          intro h; subst h; simp [isIntegral] at hi
        simp [lt_zero_pos m e hm, floor, trunc, hi]
      | true =>
        simp [lt_zero_neg m e, ceil, trunc, hi]


theorem ofInt_zero : ofInt 0 = zero := by decide
theorem ofInt_one : ofInt 1 = one := by decide

/-- C06.range_errors (toFixed): RangeError exactly when ToInteger(fractionDigits) ∉ [0, 20], for every
    argument (all doubles, NaN, ±∞, undefined) and every receiver. -/
theorem toFixed_range (L : Lib) (x : FV) (a : Arg) :
    toFixed L x a = .rangeError ↔ Spec.toFixed x a = .rangeError := by
  simp only [toFixed, Spec.toFixed, toInteger_eq, Spec.argInt, Spec.ltI, Spec.gtI, ofInt_zero]
  constructor
  · intro h; split at h
    · rename_i c; rw [if_pos c.symm]
    · simp at h
  · intro h; split at h
    · rename_i c; rw [if_pos c.symm]
    · simp at h

/-- C06.range_errors (toString radix): RangeError exactly when ToInteger(radix) ∉ [2, 36] -/
theorem radix_range (L : Lib) (x : FV) (a : Arg) :
    numberToString L x a = .rangeError ↔ Spec.toStringRadix x a = some .rangeError := by
  cases a with
  | undef =>
    have h1 : Spec.ltI (ofInt 10) 2 = false := by decide
    have h2 : Spec.gtI (ofInt 10) 36 = false := by decide
    have h3 : (Spec.intOf (ofInt 10)).toNat = 10 := by decide
    simp [numberToString, Spec.toStringRadix, h1, h2, h3]
  | num r =>
    simp only [numberToString, Spec.toStringRadix, toInteger_eq, Spec.ltI, Spec.gtI]
    constructor
    · intro h; split at h
      · rename_i c; rw [if_pos c]
      · split at h <;> simp at h
    · intro h; split at h
      · rename_i c; rw [if_pos c]
      · rename_i c
        split at h
        · simp at h
        · cases x with
          | nan => simp at h
          | inf s => simp at h
          | fin s m e => simp only at h; repeat (first | (split at h) | (simp at h))

/-- C06.range_errors (toExponential): for EVERY receiver (NaN and ±∞ never throw: §15.7.4.6 steps 3–6 come
    first) RangeError exactly when the argument is defined, the receiver finite and ToInteger(arg) ∉ [0, 20]. -/
theorem toExponential_range (L : Lib) (x : FV) (a : Arg) :
    toExponential L x a = .rangeError ↔ Spec.toExponential x a = .rangeError := by
  cases x with
  | nan => simp [toExponential, Spec.toExponential, isNaN]
  | inf s => simp [toExponential, Spec.toExponential, isNaN, isInf]
  | fin s m e =>
    cases a with
    | undef => simp [toExponential, Spec.toExponential, isNaN, isInf, Arg.isDefined]
    | num v =>
      simp only [toExponential, Spec.toExponential, isNaN, isInf, toInteger_eq, Spec.argInt, Arg.toFloat, Arg.isDefined,
        Spec.ltI, Spec.gtI, ofInt_zero]
      by_cases c : lt (Spec.toInteger v) zero = true <;>
        by_cases d : lt (ofInt 20) (Spec.toInteger v) = true <;> simp [c, d]

/-- C06.range_errors (toPrecision): for EVERY receiver, RangeError exactly when the receiver is finite and
    ToInteger(arg) ∉ [1, 21] -/
theorem toPrecision_range (L : Lib) (x v : FV) :
    toPrecision L x (.num v) = .rangeError ↔ Spec.toPrecision x (.num v) = .rangeError := by
  cases x with
  | nan => simp [toPrecision, Spec.toPrecision, isNaN]
  | inf s => simp [toPrecision, Spec.toPrecision, isNaN, isInf]
  | fin s m e =>
    simp only [toPrecision, Spec.toPrecision, isNaN, isInf, toInteger_eq, Spec.ltI, Spec.gtI, ofInt_one]
    by_cases c : lt (Spec.toInteger v) one = true <;>
      by_cases d : lt (ofInt 21) (Spec.toInteger v) = true <;> simp [c, d]

/-- ±Infinity: toExponential and toPrecision return "Infinity" / "-Infinity" as §15.7.4.6/7 prescribe -/
theorem toExponential_inf (L : Lib) (s : Bool) (a : Arg) :
    toExponential L (.inf s) a = Spec.toExponential (.inf s) a := by
  simp [toExponential, Spec.toExponential, isNaN, isInf, floatToString]

theorem toPrecision_inf (L : Lib) (s : Bool) (a : Arg) :
    toPrecision L (.inf s) a = Spec.toPrecision (.inf s) a := by
  cases a with
  | undef => simp [toPrecision, Spec.toPrecision, isNaN, numToString, isZero, floatToString, Spec.toStringNum]
  | num v => simp [toPrecision, Spec.toPrecision, isNaN, isInf, floatToString]

/-! ## Number.prototype.toString(radix) on integers -/

theorem truncAbs_ne_zero (m : Nat) (e : Int) (hm : m ≠ 0) (hi : isIntegral m e = true) : truncAbs m e ≠ 0 := by
  unfold truncAbs
  unfold isIntegral at hi
  split
  · exact Nat.mul_ne_zero hm (Nat.pos_iff_ne_zero.mp (Nat.pow_pos (by decide)))
  · rename_i he
    simp [he] at hi
    intro h0
    have hpos : 0 < 2 ^ (-e).toNat := Nat.pow_pos (by decide)
    have := Nat.div_add_mod m (2 ^ (-e).toNat)
    rw [h0, hi] at this
    simp at this
    exact hm this.symm

/-- C06.radix: for every finite non-zero INTEGRAL x (any magnitude) and every radix, otto's
    numberToStringRadix (the exact integer part in base `radix`) is the exact positional expansion. -/
theorem radix_partial (s : Bool) (m : Nat) (e : Int) (radix : Nat) (hm : m ≠ 0)
    (hint : isIntegral m e = true) :
    numberToStringRadix (.fin s m e) radix = (if s then [45] else []) ++ Spec.radixStr (truncAbs m e) radix := by
  have ht := truncAbs_ne_zero m e hm hint
  simp only [numberToStringRadix, hm, if_false, truncInt, Spec.radixStr, ht]
  generalize truncAbs m e = t at *
  cases s with
  | false =>
    have h2 : ¬ ((t : Int) = 0) := by omega
    have h3 : ¬ ((t : Int) < 0) := by omega
    simp [formatInt, h2, h3, ht]
  | true =>
    have h2 : ¬ (-(t : Int) = 0) := by omega
    have h3 : (-(t : Int) < 0) := by omega
    simp [formatInt, h3, ht]


theorem radix_arg_table : ∀ r : Fin 37, 2 ≤ r.val →
    lt (Spec.toInteger (ofInt r.val)) (ofInt 2) = false ∧ lt (ofInt 36) (Spec.toInteger (ofInt r.val)) = false ∧
    goInt (Spec.toInteger (ofInt r.val)) = r.val ∧ Spec.intOf (Spec.toInteger (ofInt r.val)) = r.val := by
  decide +kernel

/-- C06.radix at the level of Number.prototype.toString: every radix 2..36 except 10, every finite
    non-zero integral receiver: model = spec. -/
theorem radix_eq_spec (L : Lib) (s : Bool) (m : Nat) (e : Int) (r : Fin 37) (h2 : 2 ≤ r.val)
    (h10 : r.val ≠ 10) (hm : m ≠ 0) (hint : isIntegral m e = true) :
    some (numberToString L (.fin s m e) (.num (ofInt r.val))) = Spec.toStringRadix (.fin s m e) (.num (ofInt r.val)) := by
  obtain ⟨t1, t2, t3, t4⟩ := radix_arg_table r h2
  have h10' : ¬ ((r.val : Int) = 10) := by omega
  simp only [numberToString, Spec.toStringRadix, toInteger_eq, Spec.ltI, Spec.gtI, t1, t2, t3, t4, h10']
  simp [radix_partial s m e r.val hm hint, hm, hint, h10]


/-! ## toFixed (§15.7.4.5) -/

/-- the character fmtF prints for decimal position j of the digit slice -/
def digitAt (ds : List Nat) (j : Int) : Nat :=
  if 0 ≤ j ∧ j < (ds.length : Int) then digitCh (ds.getD j.toNat 0) else 48

theorem fmtF_char (neg : Bool) (ds : List Nat) (dp prec : Int) :
    fmtF neg ⟨ds, dp⟩ prec = (if neg then [45] else []) ++
      (if dp > 0 then (List.range dp.toNat).map (fun (i : Nat) => digitAt ds i) else [48]) ++
      (if prec > 0 then 46 :: (List.range prec.toNat).map (fun (i : Nat) => digitAt ds (dp + i)) else []) := by
  simp only [fmtF, digitAt]
  congr 2
  by_cases hdp : dp > 0
  · simp only [hdp, if_true]
    apply List.ext_getElem
    · simp; omega
    · intro i h1 h2
      simp at h1 h2
      by_cases hi : i < ds.length
      · have : i < min ds.length dp.toNat := by omega
        rw [List.getElem_append_left (by simp; omega)]
        simp [hi]
      · rw [List.getElem_append_right (by simp; omega)]
        simp [hi]
  · simp [hdp]

theorem digitAt_append_zeros (ds : List Nat) (z : Nat) (j : Int) :
    digitAt (ds ++ List.replicate z 0) j = digitAt ds j := by
  unfold digitAt
  by_cases h0 : 0 ≤ j
  · by_cases h1 : j < (ds.length : Int)
    · have h2 : j < ((ds ++ List.replicate z 0).length : Int) := by simp; omega
      have h3 : j.toNat < ds.length := by omega
      rw [if_pos ⟨h0, h2⟩, if_pos ⟨h0, h1⟩]
      simp [List.getElem?_append_left h3]
    · by_cases h2 : j < ((ds ++ List.replicate z 0).length : Int)
      · have h3 : ds.length ≤ j.toNat := by omega
        have h4 : j.toNat - ds.length < z := by simp at h2; omega
        rw [if_pos ⟨h0, h2⟩, if_neg (fun h => h1 h.2)]
        simp [List.getElem?_append_right h3, h4, digitCh]
      · rw [if_neg (fun h => h2 h.2), if_neg (fun h => h1 h.2)]
  · rw [if_neg (fun h => h0 h.1), if_neg (fun h => h0 h.1)]

theorem fmtF_trim (neg : Bool) (ds : List Nat) (z : Nat) (dp prec : Int) :
    fmtF neg ⟨ds ++ List.replicate z 0, dp⟩ prec = fmtF neg ⟨ds, dp⟩ prec := by
  rw [fmtF_char, fmtF_char]
  simp only [digitAt_append_zeros]

theorem all_zero_replicate (l : List Nat) (h : ∀ x ∈ l, x = 0) : l = List.replicate l.length 0 := by
  induction l with
  | nil => rfl
  | cons a t ih =>
    have ha : a = 0 := h a (by simp)
    have ht : ∀ x ∈ t, x = 0 := fun x hx => h x (by simp [hx])
    simp [List.replicate_succ, ha, ← ih ht]

theorem takeWhile_all (p : Nat → Bool) (l : List Nat) : ∀ x ∈ l.takeWhile p, p x = true := by
  induction l with
  | nil => simp
  | cons a t ih =>
    intro x hx
    by_cases ha : p a = true
    · simp [List.takeWhile, ha] at hx
      rcases hx with rfl | hx
      · exact ha
      · exact ih x hx
    · simp [List.takeWhile, ha] at hx

theorem trim_append (ds : List Nat) : ∃ z, ds = trimZeros ds ++ List.replicate z 0 := by
  refine ⟨(ds.reverse.takeWhile (· = 0)).length, ?_⟩
  have h := List.takeWhile_append_dropWhile (p := (· = 0)) (l := ds.reverse)
  have hz : ∀ x ∈ ds.reverse.takeWhile (· = 0), x = 0 := by
    intro x hx
    have := takeWhile_all (· = 0) ds.reverse x hx
    simpa using this
  have h2 : ds = (ds.reverse.dropWhile (· = 0)).reverse ++ (ds.reverse.takeWhile (· = 0)).reverse := by
    have := congrArg List.reverse h
    rw [List.reverse_append, List.reverse_reverse] at this
    exact this.symm
  have h3 : (ds.reverse.takeWhile (· = 0)).reverse = List.replicate (ds.reverse.takeWhile (· = 0)).length 0 := by
    have := all_zero_replicate _ (fun x hx => hz x (by simpa using hx) : ∀ x ∈ (ds.reverse.takeWhile (· = 0)).reverse, x = 0)
    simpa using this
  unfold trimZeros
  rw [← h3]
  exact h2


theorem frac_pos' (ds : List Nat) (n : Nat) (h : n ≤ ds.length) :
    (List.range (ds.length - n)).map (fun (i : Nat) => digitAt ds ((n : Int) + (i : Int)))
      = (ds.drop n).map digitCh := by
  apply List.ext_getElem
  · simp
  · intro i h1 h2
    simp at h1 h2 ⊢
    have h3 : (n : Int) + (i : Int) < (ds.length : Int) := by omega
    have h0 : (0 : Int) ≤ (n : Int) + (i : Int) := by omega
    have h4 : ((n : Int) + (i : Int)).toNat = n + i := by omega
    simp [digitAt, h3, h0, h4, List.getElem?_eq_getElem (by omega : n + i < ds.length)]

theorem frac_neg' (ds : List Nat) (a : Nat) :
    (List.range (ds.length + a)).map (fun (i : Nat) => digitAt ds (-(a : Int) + (i : Int)))
      = List.replicate a 48 ++ ds.map digitCh := by
  apply List.ext_getElem
  · simp; omega
  · intro i h1 h2
    simp at h1 h2
    by_cases hi : i < a
    · have : ¬ (0 : Int) ≤ -(a : Int) + (i : Int) := by omega
      simp [digitAt, this, List.getElem_append_left, hi]
    · have h0 : (0 : Int) ≤ -(a : Int) + (i : Int) := by omega
      have h3 : -(a : Int) + (i : Int) < (ds.length : Int) := by omega
      have h4 : (-(a : Int) + (i : Int)).toNat = i - a := by omega
      simp [digitAt, h0, h3, h4]
      rw [List.getElem_append_right (by simp; omega)]
      simp [List.getElem?_eq_getElem (by omega : i - a < ds.length)]

theorem int_take (ds : List Nat) (D : Nat) (h : D ≤ ds.length) :
    (List.range D).map (fun (i : Nat) => digitAt ds (i : Int)) = (ds.take D).map digitCh := by
  apply List.ext_getElem
  · simp; omega
  · intro i h1 h2
    simp at h1 h2 ⊢
    have h3 : (i : Int) < (ds.length : Int) := by omega
    simp [digitAt, h3, List.getElem?_eq_getElem (by omega : i < ds.length)]

/-- the §15.7.4.5 step 8b–c layout of the digit string `ms` with `f` fraction digits -/
def es5Fixed (ms : Str) (f : Nat) : Str :=
  if f = 0 then ms
  else
    let ms := Spec.padLeft (f + 1) ms
    ms.take (ms.length - f) ++ 46 :: ms.drop (ms.length - f)

/-- strconv's %f layout of a non-empty digit string positioned `f` places before its end is the
    ES5 toFixed layout, for every digit string and every f -/
theorem fixed_layout (neg : Bool) (ds : List Nat) (f : Nat) (hne : ds ≠ []) :
    fmtF neg ⟨ds, (ds.length : Int) - (f : Int)⟩ (f : Int)
      = (if neg then [45] else []) ++ es5Fixed (ds.map digitCh) f := by
  have hk : 0 < ds.length := List.length_pos_iff.mpr hne
  rw [fmtF_char, List.append_assoc]
  congr 1
  unfold es5Fixed
  by_cases hf : f = 0
  · subst hf
    have h1 : (ds.length : Int) - ((0 : Nat) : Int) > 0 := by simp; omega
    have h2 : ((ds.length : Int) - ((0 : Nat) : Int)).toNat = ds.length := by simp
    have h3 : ¬ (((0 : Nat) : Int) > 0) := by simp
    rw [if_pos h1, if_neg h3, h2, int_take ds ds.length (Nat.le_refl _)]
    simp
  · have hfp : ((f : Nat) : Int) > 0 := by omega
    rw [if_pos hfp, if_neg hf]
    by_cases hkf : f < ds.length
    · -- point inside the digits
      have h1 : (ds.length : Int) - (f : Int) > 0 := by omega
      have h2 : ((ds.length : Int) - (f : Int)).toNat = ds.length - f := by omega
      have h3 : (ds.length : Int) - (f : Int) = ((ds.length - f : Nat) : Int) := by omega
      have h4 : ds.length - (ds.length - f) = f := by omega
      have hfr := frac_pos' ds (ds.length - f) (by omega)
      rw [h4] at hfr
      rw [if_pos h1, h2, int_take ds (ds.length - f) (by omega), h3, Int.toNat_natCast, hfr]
      have hpad : Spec.padLeft (f + 1) (ds.map digitCh) = ds.map digitCh := by
        simp [Spec.padLeft]; omega
      simp only [hpad, List.length_map, List.map_take, List.map_drop]
    · -- 0.000ddd
      have h1 : ¬ ((ds.length : Int) - (f : Int) > 0) := by omega
      have h3 : (ds.length : Int) - (f : Int) = -((f - ds.length : Nat) : Int) := by omega
      have h4 : ds.length + (f - ds.length) = f := by omega
      have hfr := frac_neg' ds (f - ds.length)
      rw [h4] at hfr
      rw [if_neg h1, h3, Int.toNat_natCast, hfr]
      have hpl : (Spec.padLeft (f + 1) (ds.map digitCh)).length = f + 1 := by
        simp [Spec.padLeft]; omega
      have hpad : Spec.padLeft (f + 1) (ds.map digitCh)
          = 48 :: (List.replicate (f - ds.length) 48 ++ ds.map digitCh) := by
        have : f + 1 - ds.length = (f - ds.length) + 1 := by omega
        simp [Spec.padLeft, this, List.replicate_succ]
      simp only [hpl]
      have : f + 1 - f = 1 := by omega
      rw [this, hpad]
      simp

/-- the zero case: no digits at all -/
theorem fixed_layout_zero (neg : Bool) (f : Nat) :
    fmtF neg ⟨[], 0⟩ (f : Int) = (if neg then [45] else []) ++ es5Fixed [48] f := by
  rw [fmtF_char, List.append_assoc]
  congr 1
  unfold es5Fixed
  by_cases hf : f = 0
  · subst hf; simp
  · have hfp : ((f : Nat) : Int) > 0 := by omega
    have hd : ∀ j : Int, digitAt [] j = 48 := by intro j; simp [digitAt]; omega
    simp only [hd, if_pos hfp, if_neg hf]
    have : f + 1 - 1 = f := by omega
    obtain ⟨g, rfl⟩ : ∃ g, f = g + 1 := ⟨f - 1, by omega⟩
    simp [Spec.padLeft, List.replicate_succ]
    rw [← List.replicate_succ', List.map_const', List.length_range]


/-- half-even and half-up rounding agree away from exact ties -/
theorem rne_eq_rhu (a b : Nat) (hb : 0 < b) (hnt : Spec.Dev.isTie a b = false) :
    divRNE a b = Spec.divRHU a b := by
  simp only [Spec.Dev.isTie, decide_eq_false_iff_not] at hnt
  unfold divRNE Spec.divRHU
  have hdm := Nat.div_add_mod a b
  have hr : a % b < b := Nat.mod_lt _ hb
  have key : 2 * a + b = (2 * (a % b) + b) + (2 * b) * (a / b) := by
    have : 2 * a = 2 * (b * (a / b)) + 2 * (a % b) := by omega
    rw [this, Nat.mul_assoc]; omega
  rw [key, Nat.add_mul_div_left _ _ (by omega : 0 < 2 * b)]
  by_cases h1 : 2 * (a % b) < b
  · simp only [h1, if_true]
    have h3 : (2 * (a % b) + b) / (2 * b) = 0 := Nat.div_eq_of_lt (by omega)
    omega
  · have h2 : 2 * (a % b) > b := by omega
    simp only [h1, h2, if_false, if_true]
    have : (2 * (a % b) + b) / (2 * b) = 1 := by
      apply Nat.div_eq_of_lt_le <;> omega
    omega

theorem natDigitsAux_suffix (fuel n : Nat) (acc : List Nat) : ∃ pre, natDigitsAux fuel n acc = pre ++ acc := by
  induction fuel generalizing n acc with
  | zero => exact ⟨[], rfl⟩
  | succ k ih =>
    simp only [natDigitsAux]
    split
    · exact ⟨[], rfl⟩
    · obtain ⟨pre, h⟩ := ih (n / 10) (n % 10 :: acc)
      exact ⟨pre ++ [n % 10], by rw [h]; simp⟩

theorem natDigits_ne_nil (n : Nat) (hn : n ≠ 0) : natDigits n ≠ [] := by
  unfold natDigits
  obtain ⟨k, rfl⟩ : ∃ k, n = k + 1 := ⟨n - 1, by omega⟩
  simp only [natDigitsAux, hn, if_false]
  obtain ⟨pre, h⟩ := natDigitsAux_suffix k ((k + 1) / 10) [(k + 1) % 10]
  rw [h]; simp

theorem ratOf_den_pos (m : Nat) (e : Int) : 0 < (ratOf m e).2 := by
  unfold ratOf; split
  · simp
  · exact Nat.pow_pos (by decide)

theorem fixedStr_eq (s : Bool) (m : Nat) (e : Int) (f : Nat)
    (hsmall : ¬ ((ratOf m e).1 ≥ 10 ^ 21 * (ratOf m e).2)) :
    Spec.fixedStr (.fin s m e) f = (if s ∧ m ≠ 0 then [45] else []) ++
      es5Fixed (Spec.decimalStr (Spec.divRHU ((ratOf m e).1 * 10 ^ f) (ratOf m e).2)) f := by
  cases hr : ratOf m e with
  | mk num den =>
    rw [hr] at hsmall
    simp only at hsmall
    simp only [Spec.fixedStr, hr, hsmall, if_false, es5Fixed]
    split <;> simp

theorem lt_neg_zero (m : Nat) (e : Int) (hm : m ≠ 0) : lt (.fin true m e) zero = true := by
  simp only [lt, zero, cmpReal, alignInt]
  have h2 : ∀ k, (0 : Int) < (m : Int) * 2 ^ k := by
    intro k
    have h2 : 0 < m * 2 ^ k := Nat.mul_pos (Nat.pos_of_ne_zero hm) (Nat.pow_pos (by decide))
    have h3 : (0 : Int) < ((m * 2 ^ k : Nat) : Int) := by exact_mod_cast h2
    push_cast at h3
    exact h3
  simp [h2]

theorem lt_pos_zero (m : Nat) (e : Int) : lt (.fin false m e) zero = false := by
  simp only [lt, zero, cmpReal, alignInt]
  have h3 : ∀ k, (0 : Int) ≤ (m : Int) * 2 ^ k := by
    intro k
    have : (0 : Int) ≤ ((m * 2 ^ k : Nat) : Int) := Int.natCast_nonneg _
    push_cast at this
    exact this
  simp
  constructor
  · have := h3 (e - if e ≤ (0 : Int) then e else 0).toNat; omega
  · split <;> (split <;> simp)

theorem fixedLayout_eq (d : Str) (f : Nat) : fixedLayout d f = es5Fixed d f := by
  unfold fixedLayout es5Fixed Spec.padLeft
  by_cases hf : f = 0
  · simp [hf]
  · have hf' : f > 0 := by omega
    simp only [hf', if_true, hf, if_false]
    by_cases hl : d.length ≤ f
    · simp [hl]
    · have : f + 1 - d.length = 0 := by omega
      simp [hl, this]


theorem fixed_arg_table : ∀ f : Fin 21,
    lt (ofInt 20) (Spec.toInteger (ofInt f.val)) = false ∧ lt (Spec.toInteger (ofInt f.val)) zero = false ∧
    goInt (Spec.toInteger (ofInt f.val)) = f.val ∧ Spec.intOf (Spec.toInteger (ofInt f.val)) = f.val := by
  decide +kernel

/-- C06.toFixed: x.toFixed(f) for EVERY finite double x with |x| < 10^21 (zero and −0 included, exact
    ties included) and every digit count f = 0..20: otto's exact rounding floor(|x|·10^f + 1/2) and its
    layout are the §15.7.4.5 string.  (`hle` states that otto's float comparison `|x| >= 1e21` agrees with
    the exact one `hsmall`; checked on every sample as region `f64_le_mismatch`.) -/
theorem toFixed_eq (L : Lib) (s : Bool) (m : Nat) (e : Int) (f : Fin 21)
    (hsmall : ¬ ((ratOf m e).1 ≥ 10 ^ 21 * (ratOf m e).2))
    (hle : le f1e21 (abs (.fin s m e)) = false) :
    toFixed L (.fin s m e) (.num (ofInt f.val)) = Spec.toFixed (.fin s m e) (.num (ofInt f.val)) := by
  obtain ⟨t1, t2, t3, t4⟩ := fixed_arg_table f
  have t2' : lt (Spec.toInteger (ofInt f.val)) (ofInt 0) = false := by rw [ofInt_zero]; exact t2
  simp only [toFixed, Spec.toFixed, toInteger_eq, Arg.toFloat, Spec.argInt, Spec.ltI, Spec.gtI, t1, t2, t2',
    toFixedStr, isNaN, t3, t4, Int.toNat_natCast, Bool.false_eq_true, if_false, or_self]
  rw [fixedStr_eq s m e f.val hsmall]
  have hden := ratOf_den_pos m e
  by_cases hm : m = 0
  · -- ±0: the sign is dropped, the digits are zeros
    subst hm
    have hz : dropZeroSign (.fin s 0 e) = .fin false 0 0 := by simp [dropZeroSign, isZero, zero]
    have hnum : (ratOf 0 e).1 = 0 := by unfold ratOf; split <;> simp
    have hr0 : fixedRound (ratOf 0 0).1 (ratOf 0 0).2 f.val = 0 := by simp [fixedRound, ratOf]
    have hd0 : Spec.divRHU ((ratOf 0 e).1 * 10 ^ f.val) (ratOf 0 e).2 = 0 := by
      rw [hnum]; simp only [Spec.divRHU, Nat.zero_mul, Nat.mul_zero, Nat.zero_add]
      exact Nat.div_eq_of_lt (by omega)
    have hle0 : le f1e21 (abs (.fin false 0 0)) = false := by decide +kernel
    have hlt0 : lt (FV.fin false 0 0) zero = false := by decide
    simp only [hz, hle0, Bool.false_eq_true, if_false, hr0, hd0, fixedLayout_eq, hlt0]
    simp [bigIntString, Spec.decimalStr]
  · have hz : dropZeroSign (.fin s m e) = .fin s m e := by
      cases m with
      | zero => exact absurd rfl hm
      | succ k => simp [dropZeroSign, isZero]
    simp only [hz, hle, Bool.false_eq_true, if_false, fixedLayout_eq]
    have hrnd : fixedRound (ratOf m e).1 (ratOf m e).2 f.val
        = Spec.divRHU ((ratOf m e).1 * 10 ^ f.val) (ratOf m e).2 := rfl
    have hstr : ∀ n, bigIntString n = Spec.decimalStr n := fun _ => rfl
    rw [hrnd, hstr]
    cases s with
    | false => simp [lt_pos_zero m e]
    | true => simp [lt_neg_zero m e hm, hm]


/-- `toFixed_eq` covers the former tie and −0 regions: (0.5).toFixed(0) = "1", (−0).toFixed(2) = "0.00" -/
example : ¬ ((ratOf (2^52) (-53)).1 ≥ 10 ^ 21 * (ratOf (2^52) (-53)).2) := by decide +kernel
example : le f1e21 (abs (.fin false (2^52) (-53))) = false := by decide +kernel
example : toFixed Spec.exactLib (.fin false (2^52) (-53)) (.num (ofInt 0)) = .str [49] := by decide +kernel
example : toFixed Spec.exactLib (.fin true 0 0) (.num (ofInt 2)) = .str [48, 46, 48, 48] := by decide +kernel

/-! ## toExponential (§15.7.4.6) -/

set_option maxRecDepth 1000000 in
theorem expTable2 : ∀ E : Fin 1000, 10 ≤ E.val → expDigits E.val = Spec.decimalStr E.val := by
  decide +kernel

/-- §15.7.4.6 steps 10–13: the layout of the digit string `ms` with exponent `ex` -/
def es5ExpLayout (ms : Str) (ex : Int) : Str :=
  (if ms.length ≤ 1 then ms else ms.take 1 ++ 46 :: ms.drop 1) ++ Spec.expSuffix ex

/-- strconv's %e layout of the digits `c :: cs` (trailing zeros possibly trimmed: `z` of them) with
    precision `cs.length + z` is the ES5 toExponential layout of the full digit string whenever the
    exponent needs at least two digits. -/
theorem exp_layout (neg : Bool) (c : Nat) (cs : List Nat) (z : Nat) (dp : Int)
    (h10 : 10 ≤ (dp - 1).natAbs) (h1000 : (dp - 1).natAbs < 1000) :
    fmtE neg ⟨c :: cs, dp⟩ ((cs.length + z : Nat) : Int)
      = (if neg then [45] else []) ++ es5ExpLayout ((c :: cs ++ List.replicate z 0).map digitCh) (dp - 1) := by
  have tab := expTable2 ⟨(dp - 1).natAbs, h1000⟩ h10
  simp only at tab
  simp only [fmtE, es5ExpLayout, Spec.expSuffix]
  by_cases hp : cs.length + z = 0
  · have hcs : cs = [] := by cases cs with | nil => rfl | cons _ _ => simp at hp
    have hz : z = 0 := by omega
    subst hcs; subst hz
    simp [tab]
  · have hpos : ((cs.length + z : Nat) : Int) > 0 := by omega
    have hm : min (c :: cs).length ((cs.length + z) + 1) = cs.length + 1 := by simp
    have hlen : ¬ ((List.map digitCh (c :: cs ++ List.replicate z 0)).length ≤ 1) := by
      simp only [List.length_map, List.length_cons, List.length_append, List.length_replicate]; omega
    simp only [hpos, if_true, Int.toNat_natCast, hm, hlen, if_false]
    have hz : cs.length + z + 1 - max (cs.length + 1) 1 = z := by omega
    simp [hz, digitCh, tab]


theorem natDigitsAux_head (n : Nat) : ∀ fuel acc, n ≠ 0 → fuel ≥ n →
    ∃ d rest, d ≠ 0 ∧ natDigitsAux fuel n acc = d :: rest := by
  induction n using Nat.strongRecOn with
  | _ n ih =>
    intro fuel acc hn hf
    obtain ⟨k, rfl⟩ : ∃ k, fuel = k + 1 := ⟨fuel - 1, by omega⟩
    simp only [natDigitsAux, hn, if_false]
    by_cases h10 : n < 10
    · have h0 : n / 10 = 0 := Nat.div_eq_of_lt h10
      have hmod : n % 10 = n := Nat.mod_eq_of_lt h10
      rw [h0, hmod]
      refine ⟨n, acc, hn, ?_⟩
      cases k <;> simp [natDigitsAux]
    · have hq : n / 10 ≠ 0 := by omega
      have hlt : n / 10 < n := by omega
      exact ih (n / 10) hlt k (n % 10 :: acc) hq (by omega)

theorem natDigits_head (n : Nat) (hn : n ≠ 0) : ∃ d rest, d ≠ 0 ∧ natDigits n = d :: rest :=
  natDigitsAux_head n n [] hn (Nat.le_refl _)

/-- trimming the digits of a non-zero number keeps its (non-zero) leading digit -/
theorem trim_natDigits (n : Nat) (hn : n ≠ 0) :
    ∃ c cs z, trimZeros (natDigits n) = c :: cs ∧ natDigits n = c :: cs ++ List.replicate z 0 := by
  obtain ⟨d, rest, hd, hnd⟩ := natDigits_head n hn
  obtain ⟨z, hz⟩ := trim_append (natDigits n)
  cases ht : trimZeros (natDigits n) with
  | nil =>
    rw [ht, hnd] at hz
    cases z with
    | zero => simp at hz
    | succ z => simp [List.replicate_succ] at hz; exact absurd hz.1 hd
  | cons c cs => exact ⟨c, cs, z, rfl, by rw [ht] at hz; exact hz⟩

theorem scale10_den_pos (num den : Nat) (sh : Int) (hd : 0 < den) : 0 < (scale10 num den sh).2 := by
  unfold scale10; split
  · exact hd
  · exact Nat.mul_pos hd (Nat.pow_pos (by decide))

/-- C06.toExponential_partial (core): for every finite non-zero double and every digit count f, if the
    rounding to f+1 significant digits is not an exact tie, the decimal exponent needs two or three
    digits, and the spec's digit string has its f+1 digits, strconv's `'e'` formatting with the exact
    half-even digit rule is the §15.7.4.6 string. -/
theorem toExponential_core (s : Bool) (m : Nat) (e : Int) (f : Nat) (hm : m ≠ 0)
    (hnt : Spec.Dev.sigTie m e (f + 1) = false)
    (hlen : (Spec.sigRoundUp m e (f + 1)).1.length = f + 1)
    (hex : 10 ≤ (Spec.sigRoundUp m e (f + 1)).2.natAbs ∧ (Spec.sigRoundUp m e (f + 1)).2.natAbs < 1000) :
    formatFloat Spec.exactLib (.fin s m e) .e (f : Int) = Spec.expStr s m e true f := by
  have hneg : ¬ ((f : Int) < 0) := by omega
  simp only [formatFloat, hneg, if_false, hm, Spec.exactLib, goFixedSig, formatDigits, Int.toNat_natCast,
    Spec.expStr, if_true]
  simp only [Spec.Dev.sigTie] at hnt
  simp only [Spec.sigRoundUp] at hlen hex
  have hsm : (s = true ∧ m ≠ 0) ↔ s = true := by simp [hm]
  cases hr : ratOf m e with
  | mk num den =>
    have hden : 0 < den := by have := ratOf_den_pos m e; rw [hr] at this; exact this
    rw [hr] at hnt hlen hex
    simp only [sigDigitsWith, Spec.sigRoundUp, hr] at hnt hlen hex ⊢
    cases hsc : scale10 num den (((f + 1 : Nat) : Int) - decExp num den) with
    | mk a b =>
      have hb : 0 < b := by
        have := scale10_den_pos num den (((f + 1 : Nat) : Int) - decExp num den) hden
        rw [hsc] at this; exact this
      rw [hsc] at hnt hlen hex
      simp only [hsc] at hnt hlen hex ⊢
      have hrr := rne_eq_rhu a b hb hnt
      rw [hrr]
      by_cases hov : Spec.divRHU a b ≥ 10 ^ (f + 1)
      · -- rounded up to the next power of ten
        simp only [hov, if_true] at hlen hex ⊢
        have h1 : (decExp num den + 1 - 1) = decExp num den := by omega
        have := exp_layout s 1 [] f (decExp num den + 1) (by rw [h1]; exact hex.1) (by rw [h1]; exact hex.2)
        simp only [List.length_nil, Nat.zero_add, List.nil_append] at this
        rw [this, h1]
        simp [es5ExpLayout, hm]
      · simp only [hov, if_false] at hlen hex ⊢
        have hr0 : Spec.divRHU a b ≠ 0 := by
          intro h0; rw [h0] at hlen; simp [natDigits, natDigitsAux] at hlen
        obtain ⟨c, cs, z, htrim, hfull⟩ := trim_natDigits _ hr0
        have hz : cs.length + z = f := by
          rw [hfull] at hlen; simp at hlen; omega
        have h1 : decExp num den - 1 = decExp num den - 1 := rfl
        have := exp_layout s c cs z (decExp num den) hex.1 hex.2
        rw [hz] at this
        rw [htrim, this, ← hfull]
        simp [es5ExpLayout, hm]


/-- the hypotheses of `toExponential_core` hold for (1.2345e25).toExponential(2) = "1.23e+25" -/
example : Spec.Dev.sigTie 0x146c4f94f99599 31 3 = false := by decide +kernel
example : (Spec.sigRoundUp 0x146c4f94f99599 31 3) = ([1, 2, 3], 25) := by decide +kernel
example : Spec.expStr false 0x146c4f94f99599 31 true 2 = OttoVerif.Str.ofString "1.23e+25" := by decide +kernel

/-! ### toExponential with otto's tie correction (42433cc) -/

/-- with enough fuel the digit loop is independent of the fuel and appends to the accumulator -/
theorem natDigitsAux_acc (n : Nat) : ∀ fuel acc, fuel ≥ n → natDigitsAux fuel n acc = natDigitsAux n n [] ++ acc := by
  induction n using Nat.strongRecOn with
  | _ n ih =>
    intro fuel acc hf
    by_cases hn : n = 0
    · subst hn; cases fuel <;> simp [natDigitsAux]
    · obtain ⟨k, rfl⟩ : ∃ k, fuel = k + 1 := ⟨fuel - 1, by omega⟩
      obtain ⟨j, hj⟩ : ∃ j, n = j + 1 := ⟨n - 1, by omega⟩
      have hlt : n / 10 < n := by omega
      have lhs : natDigitsAux (k + 1) n acc = natDigitsAux (n / 10) (n / 10) [] ++ (n % 10 :: acc) := by
        simp only [natDigitsAux, hn, if_false]
        exact ih (n / 10) hlt k (n % 10 :: acc) (by omega)
      have rhs : natDigitsAux n n [] = natDigitsAux (n / 10) (n / 10) [] ++ [n % 10] := by
        conv => lhs; rw [hj]
        simp only [natDigitsAux, ← hj, hn, if_false]
        exact ih (n / 10) hlt j [n % 10] (by omega)
      rw [lhs, rhs]; simp

/-- the decimal digits of 10·a + d -/
theorem natDigits_snoc (a d : Nat) (hd : d < 10) (hne : 10 * a + d ≠ 0) :
    natDigits (10 * a + d) = natDigits a ++ [d] := by
  unfold natDigits
  obtain ⟨j, hj⟩ : ∃ j, 10 * a + d = j + 1 := ⟨10 * a + d - 1, by omega⟩
  have h1 : (10 * a + d) / 10 = a := by omega
  have h2 : (10 * a + d) % 10 = d := by omega
  conv => lhs; rw [hj]
  simp only [natDigitsAux, ← hj, hne, if_false, h1, h2]
  exact natDigitsAux_acc a j [d] (by omega)

/-- incrementing a number whose last digit is not 9 increments its last digit -/
theorem natDigits_succ_even (q : Nat) (hq : q ≠ 0) (heven : q % 2 = 0) :
    ∃ D d, d < 9 ∧ natDigits q = D ++ [d] ∧ natDigits (q + 1) = D ++ [d + 1] := by
  refine ⟨natDigits (q / 10), q % 10, by omega, ?_, ?_⟩
  · have := natDigits_snoc (q / 10) (q % 10) (by omega) (by omega)
    have h : 10 * (q / 10) + q % 10 = q := by omega
    rw [h] at this; exact this
  · have := natDigits_snoc (q / 10) (q % 10 + 1) (by omega) (by omega)
    have h : 10 * (q / 10) + (q % 10 + 1) = q + 1 := by omega
    rw [h] at this; exact this

/-- `digits[e-1]++` finds the byte before the first 'e' -/
theorem bump_spec (W : Str) (x : Nat) (suf : Str) (hW : ∀ c ∈ W, c ≠ 101) (hx : x ≠ 101) :
    bumpBeforeE (W ++ x :: 101 :: suf) = W ++ (x + 1) :: 101 :: suf := by
  induction W with
  | nil => simp [bumpBeforeE]
  | cons c t ih =>
    have ht : ∀ c ∈ t, c ≠ 101 := fun c hc => hW c (by simp [hc])
    cases t with
    | nil =>
      simp only [List.cons_append, List.nil_append, bumpBeforeE, hx, if_false]
      simp [bumpBeforeE]
    | cons d r =>
      have hd : d ≠ 101 := hW d (by simp)
      simp only [List.cons_append, bumpBeforeE, hd, if_false]
      have := ih ht
      simp only [List.cons_append] at this
      rw [this]


/-- the quotient ⌊x·10^(n−p)⌋ that both roundings start from (p = decimal exponent of x) -/
def scaledQuot (m : Nat) (e : Int) (n : Nat) : Nat :=
  let (num, den) := ratOf m e
  let (a, b) := scale10 num den ((n : Int) - decExp num den)
  a / b

theorem rhu_tie (a b : Nat) (hb : 0 < b) (ht : 2 * (a % b) = b) : Spec.divRHU a b = a / b + 1 := by
  unfold Spec.divRHU
  have hdm := Nat.div_add_mod a b
  have key : 2 * a + b = (2 * b) * (a / b + 1) := by
    have : 2 * a = 2 * (b * (a / b)) + 2 * (a % b) := by omega
    rw [this, ht, Nat.mul_add, Nat.mul_one, Nat.mul_assoc]
    omega
  rw [key, Nat.mul_div_cancel_left _ (by omega : 0 < 2 * b)]

theorem rne_tie (a b : Nat) (ht : 2 * (a % b) = b) : divRNE a b = if (a / b) % 2 = 0 then a / b else a / b + 1 := by
  unfold divRNE
  have h1 : ¬ (2 * (a % b) < b) := by omega
  have h2 : ¬ (2 * (a % b) > b) := by omega
  simp only [h1, h2, if_false]

/-- `toExponential_core` from any agreement of the two roundings -/
theorem toExponential_of_rr (s : Bool) (m : Nat) (e : Int) (f : Nat) (hm : m ≠ 0)
    (hrr : ∀ a b, scale10 (ratOf m e).1 (ratOf m e).2 (((f + 1 : Nat) : Int) - decExp (ratOf m e).1 (ratOf m e).2) = (a, b) →
      divRNE a b = Spec.divRHU a b)
    (hlen : (Spec.sigRoundUp m e (f + 1)).1.length = f + 1)
    (hex : 10 ≤ (Spec.sigRoundUp m e (f + 1)).2.natAbs ∧ (Spec.sigRoundUp m e (f + 1)).2.natAbs < 1000) :
    formatFloat Spec.exactLib (.fin s m e) .e (f : Int) = Spec.expStr s m e true f := by
  have hneg : ¬ ((f : Int) < 0) := by omega
  simp only [formatFloat, hneg, if_false, hm, Spec.exactLib, goFixedSig, formatDigits, Int.toNat_natCast,
    Spec.expStr, if_true]
  simp only [Spec.sigRoundUp] at hlen hex
  cases hr : ratOf m e with
  | mk num den =>
    rw [hr] at hrr hlen hex
    simp only [sigDigitsWith, Spec.sigRoundUp, hr] at hrr hlen hex ⊢
    cases hsc : scale10 num den (((f + 1 : Nat) : Int) - decExp num den) with
    | mk a b =>
      rw [hsc] at hlen hex
      simp only [hsc] at hlen hex ⊢
      rw [hrr a b hsc]
      by_cases hov : Spec.divRHU a b ≥ 10 ^ (f + 1)
      · simp only [hov, if_true] at hlen hex ⊢
        have h1 : (decExp num den + 1 - 1) = decExp num den := by omega
        have := exp_layout s 1 [] f (decExp num den + 1) (by rw [h1]; exact hex.1) (by rw [h1]; exact hex.2)
        simp only [List.length_nil, Nat.zero_add, List.nil_append] at this
        rw [this, h1]
        simp [es5ExpLayout, hm]
      · simp only [hov, if_false] at hlen hex ⊢
        have hr0 : Spec.divRHU a b ≠ 0 := by
          intro h0; rw [h0] at hlen; simp [natDigits, natDigitsAux] at hlen
        obtain ⟨c, cs, z, htrim, hfull⟩ := trim_natDigits _ hr0
        have hz : cs.length + z = f := by
          rw [hfull] at hlen; simp at hlen; omega
        have := exp_layout s c cs z (decExp num den) hex.1 hex.2
        rw [hz] at this
        rw [htrim, this, ← hfull]
        simp [es5ExpLayout, hm]


theorem natDigitsAux_lt10 (fuel n : Nat) (acc : List Nat) (h : ∀ c ∈ acc, c < 10) :
    ∀ c ∈ natDigitsAux fuel n acc, c < 10 := by
  induction fuel generalizing n acc with
  | zero => simpa [natDigitsAux] using h
  | succ k ih =>
    simp only [natDigitsAux]
    split
    · exact h
    · apply ih
      intro c hc
      simp at hc
      rcases hc with rfl | hc
      · omega
      · exact h c hc

theorem natDigits_lt10 (n : Nat) : ∀ c ∈ natDigits n, c < 10 :=
  natDigitsAux_lt10 n n [] (by simp)

/-- the mantissa part of the §15.7.4.6 layout, split at its last digit -/
theorem mant_snoc (D : Str) (x : Nat) :
    (if (D ++ [x]).length ≤ 1 then D ++ [x] else (D ++ [x]).take 1 ++ 46 :: (D ++ [x]).drop 1)
      = (if D = [] then [] else D.take 1 ++ 46 :: D.drop 1) ++ [x] := by
  cases D with
  | nil => simp
  | cons c t => simp

theorem mant_snoc' (n : Nat) (D : Str) (x : Nat) (hn : n = D.length + 1) :
    (if n ≤ 1 then D ++ [x] else (D ++ [x]).take 1 ++ 46 :: (D ++ [x]).drop 1)
      = (if D = [] then [] else D.take 1 ++ 46 :: D.drop 1) ++ [x] := by
  subst hn
  cases D with
  | nil => simp
  | cons c t => simp

/-- C06.toExponential (digits given): for every finite non-zero double and every digit count f — exact
    ties INCLUDED — strconv's `'e'` formatting followed by otto's tie correction is the §15.7.4.6 string,
    when the decimal exponent needs two or three digits.  `hlen`/`hq` say that the scaled value has its
    f+1 integer digits (both are consequences of `decExp` being the decimal exponent; checked per sample). -/
theorem toExponential_full (s : Bool) (m : Nat) (e : Int) (f : Nat) (hm : m ≠ 0)
    (hlen : (Spec.sigRoundUp m e (f + 1)).1.length = f + 1)
    (hex : 10 ≤ (Spec.sigRoundUp m e (f + 1)).2.natAbs ∧ (Spec.sigRoundUp m e (f + 1)).2.natAbs < 1000)
    (hq : 0 < scaledQuot m e (f + 1) ∧ scaledQuot m e (f + 1) < 10 ^ (f + 1)) :
    expFormat Spec.exactLib (.fin s m e) (f : Int) = Spec.expStr s m e true f := by
  have hpos : (f : Int) ≥ 0 := by omega
  simp only [expFormat, hpos, hm, ne_eq, not_false_eq_true, true_and, Int.toNat_natCast]
  have hden := ratOf_den_pos m e
  cases hr : ratOf m e with
  | mk num den =>
    rw [hr] at hden
    cases hsc : scale10 num den (((f + 1 : Nat) : Int) - decExp num den) with
    | mk a b =>
      have hb : 0 < b := by
        have := scale10_den_pos num den (((f + 1 : Nat) : Int) - decExp num den) hden
        rw [hsc] at this; exact this
      have htd : tieRoundedDown m e (f + 1) = decide (2 * (a % b) = b ∧ (a / b) % 2 = 0) := by
        simp only [tieRoundedDown, hr, hsc]
      have hqv : scaledQuot m e (f + 1) = a / b := by simp only [scaledQuot, hr, hsc]
      rw [hqv] at hq
      rw [htd]
      by_cases ht : 2 * (a % b) = b
      · by_cases hev : (a / b) % 2 = 0
        · -- exact tie, strconv went down to the even quotient: the correction applies
          simp only [ht, hev, and_self, decide_true, if_true]
          have hneg : ¬ ((f : Int) < 0) := by omega
          have hq0 : a / b ≠ 0 := by omega
          have hnov : ¬ (a / b ≥ 10 ^ (f + 1)) := by omega
          have hpar : 10 ^ (f + 1) % 2 = 0 := by rw [Nat.pow_succ]; omega
          have hnov' : ¬ (a / b + 1 ≥ 10 ^ (f + 1)) := by omega
          obtain ⟨D, d, hd9, hDq, hDq1⟩ := natDigits_succ_even (a / b) hq0 hev
          -- the model string before the correction
          have hrne : divRNE a b = a / b := by rw [rne_tie a b ht]; simp [hev]
          have hrhu : Spec.divRHU a b = a / b + 1 := rhu_tie a b hb ht
          simp only [Spec.sigRoundUp, hr, hsc, hrhu, hnov', if_false] at hlen hex
          simp only [formatFloat, hneg, if_false, hm, Spec.exactLib, goFixedSig, formatDigits, Int.toNat_natCast, hr,
            sigDigitsWith, hsc, hrne, hnov]
          obtain ⟨c, cs, z, htrim, hfull⟩ := trim_natDigits _ hq0
          have hlenq : (natDigits (a / b)).length = f + 1 := by
            rw [hDq]; rw [hDq1] at hlen; simpa using hlen
          have hz : cs.length + z = f := by
            rw [hfull] at hlenq; simp at hlenq; omega
          have hlay := exp_layout s c cs z (decExp num den) hex.1 hex.2
          rw [hz] at hlay
          rw [htrim, hlay, ← hfull, hDq]
          -- the spec string
          simp only [Spec.expStr, hm, if_false, ne_eq, not_false_eq_true, and_true, if_true, Spec.sigRoundUp, hr, hsc,
            hrhu, hnov', hDq1]
          -- shape both as  pre ++ W ++ [x] ++ 'e' :: suffix
          simp only [es5ExpLayout, Spec.expSuffix, List.map_append, List.map_cons, List.map_nil, mant_snoc]
          rw [mant_snoc' (D ++ [d + 1]).length (D.map digitCh) (digitCh (d + 1)) (by simp)]
          have hdig : ∀ x ∈ D, x < 10 := by
            intro x hx
            have := natDigits_lt10 (a / b) x (by rw [hDq]; simp [hx])
            exact this
          have hW : ∀ x ∈ (if s then [45] else []) ++
              (if D.map digitCh = [] then [] else (D.map digitCh).take 1 ++ 46 :: (D.map digitCh).drop 1), x ≠ 101 := by
            intro x hx
            simp only [List.mem_append] at hx
            rcases hx with hx | hx
            · cases s <;> simp at hx; omega
            · split at hx
              · cases hx
              · simp only [List.mem_append, List.mem_cons] at hx
                rcases hx with hx | hx | hx
                · obtain ⟨y, hy, rfl⟩ := List.mem_map.mp (List.mem_of_mem_take hx)
                  have := hdig y hy; unfold digitCh; omega
                · omega
                · obtain ⟨y, hy, rfl⟩ := List.mem_map.mp (List.mem_of_mem_drop hx)
                  have := hdig y hy; unfold digitCh; omega
          have hx : digitCh d ≠ 101 := by unfold digitCh; omega
          have hb1 := bump_spec _ (digitCh d) ((if decExp num den - 1 < 0 then 45 else 43) :: Spec.decimalStr (decExp num den - 1).natAbs) hW hx
          have hd1 : digitCh (d + 1) = digitCh d + 1 := by unfold digitCh; omega
          rw [hd1]
          simpa [List.append_assoc] using hb1
        · -- exact tie rounded up by strconv as well
          have hno : ¬ (2 * (a % b) = b ∧ (a / b) % 2 = 0) := fun h => hev h.2
          simp only [hno, decide_false, Bool.false_eq_true, if_false]
          apply toExponential_of_rr s m e f hm _ hlen hex
          intro a' b' h'
          rw [hr] at h'; simp only at h'
          rw [hsc] at h'
          obtain ⟨rfl, rfl⟩ := Prod.mk.inj h'
          rw [rne_tie a b ht, rhu_tie a b hb ht]; simp [hev]
      · have hno : ¬ (2 * (a % b) = b ∧ (a / b) % 2 = 0) := fun h => ht h.1
        simp only [hno, decide_false, Bool.false_eq_true, if_false]
        apply toExponential_of_rr s m e f hm _ hlen hex
        intro a' b' h'
        rw [hr] at h'; simp only at h'
        rw [hsc] at h'
        obtain ⟨rfl, rfl⟩ := Prod.mk.inj h'
        exact rne_eq_rhu a b hb (by simp [Spec.Dev.isTie, ht])


/-- `toExponential_full` on an exact tie with an even kept digit: (12345678905).toExponential(9) = "1.234567891e+10" -/
example : tieRoundedDown 0x16fee0e1c80000 (-19) 10 = true := by decide +kernel
example : 0 < scaledQuot 0x16fee0e1c80000 (-19) 10 ∧ scaledQuot 0x16fee0e1c80000 (-19) 10 < 10 ^ 10 := by decide +kernel
example : Spec.sigRoundUp 0x16fee0e1c80000 (-19) 10 = ([1, 2, 3, 4, 5, 6, 7, 8, 9, 1], 10) := by decide +kernel
example : expFormat Spec.exactLib (.fin false 0x16fee0e1c80000 (-19)) 9 = OttoVerif.Str.ofString "1.234567891e+10" := by decide +kernel

/-! ## toPrecision (§15.7.4.7) -/

/-- in the fixed-notation range the §15.7.4.7 layout of p digits is the §9.8.1 layout (steps 6–8) -/
theorem precLayout_fixed (ds : List Nat) (ex : Int) (hne : ds ≠ []) (h1 : -6 < ex + 1) (h2 : ex < ds.length)
    (h21 : ds.length ≤ 21) :
    Spec.precLayout (ds.map digitCh) ex ds.length = Spec.layout981 ds (ex + 1) := by
  have hk : 0 < ds.length := List.length_pos_iff.mpr hne
  have hnexp : ¬ (ex < -6 ∨ ex ≥ (ds.length : Int)) := by omega
  simp only [Spec.precLayout, hnexp, if_false, Spec.layout981]
  by_cases c11 : ex = (ds.length : Int) - 1
  · have c6 : (ds.length : Int) ≤ ex + 1 ∧ ex + 1 ≤ 21 := by omega
    have hz : (ex + 1 - (ds.length : Int)).toNat = 0 := by omega
    simp [c11, c6, hz]
    omega
  · have c6 : ¬ ((ds.length : Int) ≤ ex + 1 ∧ ex + 1 ≤ 21) := by omega
    by_cases c12 : ex ≥ 0
    · have c7 : 0 < ex + 1 ∧ ex + 1 ≤ 21 := by omega
      have ht : (ex + 1).toNat = ex.toNat + 1 := by omega
      have c6a : ¬ ((ds.length : Int) ≤ ex + 1) := by omega
      simp [c11, c6a, c12, c7, ht]
    · have c7 : ¬ (0 < ex + 1) := by omega
      have c8 : -6 < ex + 1 ∧ ex + 1 ≤ 0 := by omega
      have c6a : ¬ ((ds.length : Int) ≤ ex + 1) := by omega
      have hn : (-(ex + 1)).toNat = (-(ex + 1)).toNat := rfl
      simp [c11, c6a, c12, c7, c8]

/-- strconv's %g with precision p on exactly p digits (no trimmed zeros) is the ES5 toPrecision
    layout, for every digit string, outside exponents −5, −6 (Go switches to %e below −4) and
    one-digit exponents in exponential notation. -/
theorem prec_layout (neg : Bool) (c : Nat) (cs : List Nat) (ex : Int)
    (h21 : (c :: cs).length ≤ 21)
    (hsmall : ex ≠ -5 ∧ ex ≠ -6)
    (hexp : (ex < -6 ∨ ex ≥ ((c :: cs).length : Int)) → 10 ≤ ex.natAbs ∧ ex.natAbs < 1000) :
    formatDigits false neg ⟨c :: cs, ex + 1⟩ ((c :: cs).length : Int) .g
      = (if neg then [45] else []) ++ Spec.precLayout ((c :: cs).map digitCh) ex (c :: cs).length := by
  have hx : ex + 1 - 1 = ex := by omega
  simp only [formatDigits, if_false, Bool.false_eq_true, ite_self, hx]
  by_cases hE : ex < -6 ∨ ex ≥ ((c :: cs).length : Int)
  · -- exponential notation on both sides
    have hgo : ex < -4 ∨ ex ≥ ((c :: cs).length : Int) := by omega
    obtain ⟨e10, e1000⟩ := hexp hE
    have hl : ((c :: cs).length : Int) - 1 = ((cs.length + 0 : Nat) : Int) := by simp
    rw [if_pos hgo, hl]
    have := exp_layout neg c cs 0 (ex + 1) (by rw [hx]; exact e10) (by rw [hx]; exact e1000)
    rw [this, hx]
    simp only [List.replicate_zero, List.append_nil, es5ExpLayout, Spec.precLayout, hE, if_true]
    have : ((List.map digitCh (c :: cs)).length ≤ 1) ↔ ((c :: cs).length = 1) := by simp
    simp only [this]
  · have hgo : ¬ (ex < -4 ∨ ex ≥ ((c :: cs).length : Int)) := by omega
    rw [if_neg hgo]
    rw [fixedForm neg (c :: cs) (ex + 1) (by simp) (by omega) (by omega)]
    rw [precLayout_fixed (c :: cs) ex (by simp) (by omega) (by omega) h21]


theorem trim_id (ds : List Nat) (h : ds.getLast? ≠ some 0) : trimZeros ds = ds := by
  unfold trimZeros
  cases hr : ds.reverse with
  | nil => simp [List.reverse_eq_nil_iff.mp hr]
  | cons a t =>
    have hlast : ds.getLast? = some a := by
      rw [← List.reverse_reverse ds, hr]; simp
    have ha : a ≠ 0 := by intro h0; rw [hlast, h0] at h; exact h rfl
    have : (a :: t).dropWhile (· = 0) = a :: t := by simp [List.dropWhile, ha]
    rw [this, ← hr, List.reverse_reverse]

/-- C06.toPrecision_partial (core): for every finite non-zero double and precision 1..21, outside the
    regions (exact tie; a trailing zero among the p digits; exponent −5/−6; one-digit exponent in
    exponential notation), strconv's `'g'` formatting with the exact half-even digit rule is the
    §15.7.4.7 string. -/
theorem toPrecision_core (s : Bool) (m : Nat) (e : Int) (p : Nat) (hp1 : 1 ≤ p) (hp21 : p ≤ 21) (hm : m ≠ 0)
    (hnt : Spec.Dev.sigTie m e p = false)
    (hlen : (Spec.sigRoundUp m e p).1.length = p)
    (hlast : ¬ (p > 1 ∧ (Spec.sigRoundUp m e p).1.getLast? = some 0))
    (hsmall : (Spec.sigRoundUp m e p).2 ≠ -5 ∧ (Spec.sigRoundUp m e p).2 ≠ -6)
    (hexp : ((Spec.sigRoundUp m e p).2 < -6 ∨ (Spec.sigRoundUp m e p).2 ≥ (p : Int)) →
      10 ≤ (Spec.sigRoundUp m e p).2.natAbs ∧ (Spec.sigRoundUp m e p).2.natAbs < 1000) :
    formatFloat Spec.exactLib (.fin s m e) .g (p : Int) = Spec.precStr s m e p := by
  have hneg : ¬ ((p : Int) < 0) := by omega
  have hp0 : ¬ ((p : Int) = 0) := by omega
  simp only [formatFloat, hneg, if_false, hm, hp0, Spec.exactLib, goFixedSig, Int.toNat_natCast, Spec.precStr]
  simp only [Spec.Dev.sigTie] at hnt
  have hsm : (if s = true ∧ m ≠ 0 then ([45] : Str) else []) = (if s = true then [45] else []) := by simp [hm]
  rw [hsm]
  cases hr : ratOf m e with
  | mk num den =>
    have hden : 0 < den := by have := ratOf_den_pos m e; rw [hr] at this; exact this
    rw [hr] at hnt
    simp only [Spec.sigRoundUp, hr] at hnt hlen hlast hsmall hexp ⊢
    simp only [sigDigitsWith]
    cases hsc : scale10 num den ((p : Int) - decExp num den) with
    | mk a b =>
      have hb : 0 < b := by
        have := scale10_den_pos num den ((p : Int) - decExp num den) hden
        rw [hsc] at this; exact this
      simp only [hsc] at hnt hlen hlast hsmall hexp ⊢
      have hrr := rne_eq_rhu a b hb hnt
      rw [hrr]
      by_cases hov : Spec.divRHU a b ≥ 10 ^ p
      · simp only [hov, if_true] at hlen hlast hsmall hexp ⊢
        -- 1000…0 has a trailing zero unless p = 1
        have hp : p = 1 := by
          by_cases h1 : p = 1
          · exact h1
          · exfalso; apply hlast
            refine ⟨by omega, ?_⟩
            obtain ⟨q, rfl⟩ : ∃ q, p = q + 2 := ⟨p - 2, by omega⟩
            have : q + 2 - 1 = q + 1 := by omega
            rw [this, List.replicate_succ', ← List.cons_append, List.getLast?_append]
            simp
        subst hp
        have h1 : decExp num den + 1 = decExp num den + 1 := rfl
        have := prec_layout s 1 [] (decExp num den) (by simp) hsmall (by simpa using hexp)
        simpa using this
      · simp only [hov, if_false] at hlen hlast hsmall hexp ⊢
        have hr0 : Spec.divRHU a b ≠ 0 := by
          intro h0; rw [h0] at hlen; simp [natDigits, natDigitsAux] at hlen; omega
        obtain ⟨d, rest, hd, hnd⟩ := natDigits_head _ hr0
        have hl : (natDigits (Spec.divRHU a b)).getLast? ≠ some 0 := by
          by_cases h1 : p = 1
          · rw [hnd] at hlen ⊢
            have : rest = [] := by cases rest with | nil => rfl | cons _ _ => simp at hlen; omega
            subst this; simpa using hd
          · intro h; exact hlast ⟨by omega, h⟩
        rw [trim_id _ hl, hnd]
        rw [hnd] at hlen hlast
        have hx : decExp num den - 1 + 1 = decExp num den := by omega
        have := prec_layout s d rest (decExp num den - 1) (by rw [hlen]; exact hp21) hsmall
          (by rw [hlen]; exact hexp)
        rw [hx, hlen] at this
        exact this


/-- the hypotheses of `toPrecision_core` hold for (123.456).toPrecision(4) = "123.5" and
    (1.2345e25).toPrecision(3) = "1.23e+25" -/
example : Spec.Dev.sigTie 0x1edd2f1a9fbe77 (-46) 4 = false := by decide +kernel
example : Spec.sigRoundUp 0x1edd2f1a9fbe77 (-46) 4 = ([1, 2, 3, 5], 2) := by decide +kernel
example : Spec.precStr false 0x1edd2f1a9fbe77 (-46) 4 = OttoVerif.Str.ofString "123.5" := by decide +kernel
example : Spec.precStr false 0x146c4f94f99599 31 3 = OttoVerif.Str.ofString "1.23e+25" := by decide +kernel

/-! ## parseInt (§15.1.2.2) -/

theorem digitVal_table : ∀ c : Fin 128, digitValue c.val < 36 → GoStd.digitVal c.val = some (digitValue c.val) := by
  decide +kernel

theorem digitValue_lt_128 (c : Nat) (h : digitValue c < 36) : c < 128 := by
  unfold digitValue at h
  split at h
  · omega
  · split at h
    · omega
    · split at h
      · omega
      · omega

theorem digitVal_eq (c : Nat) (h : digitValue c < 36) : GoStd.digitVal c = some (digitValue c) :=
  digitVal_table ⟨c, digitValue_lt_128 c h⟩ h

/-- a fold whose step behaves like "append one valid digit" on valid digits -/
theorem fold_digits (b : Nat) (F : Option (Nat × Bool) → Nat → Option (Nat × Bool))
    (hF : ∀ n c, digitValue c < b → F (some (n, false)) c = some (n * b + digitValue c, false))
    (z : List Nat) (hz : ∀ c ∈ z, digitValue c < b) (n : Nat) :
    z.foldl F (some (n, false)) = some (z.foldl (fun n c => n * b + digitValue c) n, false) := by
  induction z generalizing n with
  | nil => rfl
  | cons c t ih =>
    have hc : digitValue c < b := hz c (by simp)
    have ht : ∀ x ∈ t, digitValue x < b := fun x hx => hz x (by simp [hx])
    simp only [List.foldl_cons, hF n c hc]
    exact ih ht _

theorem parseUint_digits (b : Nat) (hb2 : 2 ≤ b) (hb36 : b ≤ 36) (z : List Nat) (hne : z ≠ [])
    (hz : ∀ c ∈ z, digitValue c < b) :
    GoStd.parseUint z b =
      (if z.foldl (fun n c => n * b + digitValue c) 0 ≥ 2 ^ 64 then .range
       else .ok (z.foldl (fun n c => n * b + digitValue c) 0 : Nat)) := by
  have hb0 : ¬ (b = 0) := by omega
  have hbr : ¬ (b < 2 ∨ b > 36) := by omega
  have hemp : z.isEmpty = false := by cases z <;> simp_all
  unfold GoStd.parseUint
  simp only [hemp, Bool.false_eq_true, if_false, hb0, decide_false, hbr]
  rw [fold_digits b _ _ z hz 0]
  · simp
  · intro n x hx
    have hdv := digitVal_eq x (by omega)
    have hnot : ¬ (digitValue x ≥ b) := by omega
    simp [hdv, hnot]

/-- strconv.ParseInt on a non-empty string of valid digits in an explicit base 2..36 -/
theorem parseInt_digits (b : Nat) (hb2 : 2 ≤ b) (hb36 : b ≤ 36) (z : List Nat) (hne : z ≠ [])
    (hz : ∀ c ∈ z, digitValue c < b) :
    GoStd.parseInt z b =
      (if z.foldl (fun n c => n * b + digitValue c) 0 ≥ 2 ^ 63 then .range
       else .ok (z.foldl (fun n c => n * b + digitValue c) 0 : Nat)) := by
  have hpu := parseUint_digits b hb2 hb36 z hne hz
  obtain ⟨c, t, rfl⟩ := List.exists_cons_of_ne_nil hne
  have hc : digitValue c < b := hz c (by simp)
  have h43 : GoStd.ch '+' = 43 := by decide
  have h45 : GoStd.ch '-' = 45 := by decide
  have hplus : c ≠ GoStd.ch '+' := by
    rw [h43]; intro h; subst h; simp [digitValue] at hc; omega
  have hminus : c ≠ GoStd.ch '-' := by
    rw [h45]; intro h; subst h; simp [digitValue] at hc; omega
  simp only [GoStd.parseInt, List.isEmpty_cons, Bool.false_eq_true, if_false, hplus, hminus, hpu]
  generalize List.foldl (fun n c => n * b + digitValue c) 0 (c :: t) = v
  by_cases h64 : v ≥ 2 ^ 64
  · have h63 : v ≥ 2 ^ 63 := by omega
    simp [h64, h63]
  · by_cases h63 : v ≥ 2 ^ 63
    · simp [h64, h63]; omega
    · simp [h64, h63]; omega


theorem signSplit_eq (input : Str) : signSplit input = Spec.signOf input := by
  cases input with
  | nil => rfl
  | cons c r =>
    simp only [signSplit, Spec.signOf]
    by_cases h43 : c = 43
    · subst h43; simp
    · by_cases h45 : c = 45
      · subst h45; simp
      · simp [h43, h45]

theorem hexStrip_eq (strip : Bool) (input : Str) (radix : Nat) :
    hexStrip strip input radix = Spec.hexPrefix strip input radix := by
  match input with
  | [] => rfl
  | [_] => rfl
  | a :: c :: r =>
    simp only [hexStrip, Spec.hexPrefix]
    by_cases h : a = 48 ∧ strip = true ∧ (c = 120 ∨ c = 88)
    · have h' : strip = true ∧ a = 48 ∧ (c = 120 ∨ c = 88) := ⟨h.2.1, h.1, h.2.2⟩
      rw [if_pos h, if_pos h']
    · have h' : ¬ (strip = true ∧ a = 48 ∧ (c = 120 ∨ c = 88)) := fun x => h ⟨x.2.1, x.1, x.2.2⟩
      rw [if_neg h, if_neg h']

theorem hexPrefix_radix (strip : Bool) (rs : List Nat) (radix : Nat) (h2 : 2 ≤ radix) (h36 : radix ≤ 36) :
    2 ≤ (Spec.hexPrefix strip rs radix).2 ∧ (Spec.hexPrefix strip rs radix).2 ≤ 36 := by
  match rs with
  | [] => exact ⟨h2, h36⟩
  | [_] => exact ⟨h2, h36⟩
  | a :: x :: t =>
    simp only [Spec.hexPrefix]
    split
    · simp
    · exact ⟨h2, h36⟩

/-- flipping the sign of a rounded value = rounding the negated value -/
theorem neg_ofRatParts (num den : Nat) : neg (ofRatParts false num den) = ofRatParts true num den := by
  unfold ofRatParts
  by_cases h0 : num = 0
  · simp [h0, neg]
  · simp only [h0, if_false]
    cases roundPos num den with
    | none => simp [neg]
    | some p => obtain ⟨m, e⟩ := p; simp [neg]

theorem ofInt_big_pos (v : Nat) (h : v ≥ 2 ^ 63) : ofInt (v : Int) = ofRatParts false v 1 := by
  have h1 : ¬ (v < 2 ^ 53) := by omega
  have h2 : ¬ ((v : Int) < 0) := by omega
  simp only [ofInt, Int.natAbs_natCast, h1, if_false, h2]

theorem ofInt_big_neg (v : Nat) (h : v ≥ 2 ^ 63) : ofInt (-(v : Int)) = ofRatParts true v 1 := by
  have h1 : ¬ (v < 2 ^ 53) := by omega
  have h2 : (-(v : Int)) < 0 := by omega
  simp only [ofInt, Int.natAbs_neg, Int.natAbs_natCast, h1, if_false, h2, if_true]

/-- C06.parseInt_spec: for EVERY white-space-stripped input (any byte/code-unit list) and EVERY radix
    value r = ToInt32(radix) — no exception left — otto's parseInt body (sign, radix defaulting, 0x strip,
    digit prefix, strconv.ParseInt, exact big-integer conversion beyond int64, −0 for a negative zero)
    returns the Number value §15.1.2.2 prescribes.  No library parameter: strconv.ParseInt's digit loop
    is modelled and proved. -/
theorem parseInt_body (input : Str) (r : Int) :
    parseIntBody input r = Spec.parseIntBody input r := by
  simp only [parseIntBody, Spec.parseIntBody, signSplit_eq, hexStrip_eq]
  by_cases hbad : r ≠ 0 ∧ (r < 2 ∨ r > 36)
  · simp [hbad]
  · have hbad' : (decide (r ≠ 0 ∧ (r < 2 ∨ r > 36))) = false := by simpa using hbad
    simp only [hbad', Bool.false_eq_true, if_false, if_neg hbad]
    -- radix bounds
    have hr2 : 2 ≤ (if r = 0 then 10 else r.toNat) ∧ (if r = 0 then 10 else r.toNat) ≤ 36 := by
      by_cases h0 : r = 0
      · simp [h0]
      · simp only [h0, if_false]; omega
    generalize hR : (if r = 0 then 10 else r.toNat) = R at *
    generalize hS : (decide (r = 0 ∨ r = 16)) = strip at *
    have hb := hexPrefix_radix strip (Spec.signOf input).2 R hr2.1 hr2.2
    generalize hR' : (Spec.hexPrefix strip (Spec.signOf input).2 R).2 = R' at *
    generalize hI : (Spec.hexPrefix strip (Spec.signOf input).2 R).1 = inp at *
    generalize hz : List.takeWhile (fun c => decide (digitValue c < R')) inp = z at *
    have hzall : ∀ c ∈ z, digitValue c < R' := by
      intro c hc
      rw [← hz] at hc
      have := takeWhile_all _ _ c hc
      simpa using this
    by_cases hze : z = []
    · -- no digits: NaN on both sides (also when the input was empty)
      subst hze
      have hsyn : GoStd.parseInt [] R' = .syntax := by simp [GoStd.parseInt]
      simp [hsyn]
    · have hzi : z.isEmpty = false := by cases z <;> simp_all
      have hin : input.isEmpty = false := by
        cases input with
        | nil =>
          exfalso; apply hze
          rw [← hz, ← hI]; simp [Spec.signOf, Spec.hexPrefix]
        | cons _ _ => rfl
      have hin2 : (Spec.signOf input).2.isEmpty = false := by
        cases hs : (Spec.signOf input).2 with
        | nil =>
          exfalso; apply hze
          rw [← hz, ← hI, hs]; simp [Spec.hexPrefix]
        | cons _ _ => rfl
      simp only [hin, hin2, hzi, Bool.false_eq_true, if_false]
      rw [parseInt_digits R' hb.1 hb.2 z hze hzall]
      generalize List.foldl (fun n c => n * R' + digitValue c) 0 z = v at *
      by_cases hv : v ≥ 2 ^ 63
      · -- beyond int64: exact conversion, one rounding
        have hv0 : ¬ (v = 0) := by omega
        simp only [hv, if_true, hv0, if_false, bigToFloat]
        cases hn : (Spec.signOf input).1 with
        | false => simp [ofInt_big_pos v hv]
        | true => simp [neg_ofRatParts, ofInt_big_neg v hv]
      · simp only [hv, if_false]
        by_cases hv0 : v = 0
        · subst hv0
          cases hn : (Spec.signOf input).1 with
          | false => simp [ofInt]
          | true => simp [negZero]
        · have : ¬ ((v : Int) = 0) := by omega
          simp [hv0, this]


/-- instances of `parseInt_body`, including the former deviation regions ("-0", digits beyond 2^63) -/
example : Spec.parseIntBody (OttoVerif.Str.ofString "-12abc") 0 = ofInt (-12) := by decide +kernel
example : Spec.parseIntBody (OttoVerif.Str.ofString "zz") 36 = ofInt 1295 := by decide +kernel
example : parseIntBody (OttoVerif.Str.ofString "-0") 0 = negZero := by decide +kernel
example : same (parseIntBody (OttoVerif.Str.ofString "0x8000000000000401") 0) (decode 0x43e0000000000001) = true := by decide +kernel

/-! ## ToNumber on strings (§9.3.1): decimal literals -/

section ToNumber
open OttoVerif.GoStd OttoVerif.Str

/-! ### the regular expression of parseNumber / parseFloat is the §9.3.1 grammar -/

theorem reIsDigit_eq : reIsDigit = Spec.isDigit := rfl

theorem reFrac_eq (b : Bool) (r : Str) : reFrac b r = Spec.fracStep b r := by
  cases r with
  | nil => rfl
  | cons c t =>
    simp only [reFrac, Spec.fracStep, reIsDigit_eq]
    by_cases h46 : c = 46
    · by_cases hb : b = true ∧ (List.takeWhile Spec.isDigit t).isEmpty = true
      · simp only [h46, if_true, hb, and_self]
      · simp only [h46, if_true, hb, if_false]
    · simp only [h46, if_false]

theorem reSign_eq (t : Str) : reSign t = (Spec.expSign t).2 := by
  cases t with
  | nil => rfl
  | cons c u =>
    simp only [reSign, Spec.expSign]
    by_cases h43 : c = 43
    · simp [h43]
    · by_cases h45 : c = 45
      · simp [h45]
      · simp [h43, h45]

theorem reExpRest_eq (r : Str) : reExpRest r = (Spec.expStep r).2 := by
  cases r with
  | nil => rfl
  | cons c t =>
    simp only [reExpRest, Spec.expStep, reSign_eq, reIsDigit_eq]
    split
    · split <;> rfl
    · rfl

/-- the unsigned part of the regular expression consumes what §9.3.1's StrUnsignedDecimalLiteral prefix does -/
theorem reUnsigned_eq (body : Str) :
    (if sInfinity.isPrefixOf body then some (body.drop 8) else
      if (body.takeWhile reIsDigit).isEmpty ∧ (reFrac (body.takeWhile reIsDigit).isEmpty (body.dropWhile reIsDigit)).1.isEmpty
      then none else some (reExpRest (reFrac (body.takeWhile reIsDigit).isEmpty (body.dropWhile reIsDigit)).2))
    = (Spec.unsignedDecPrefix body).map (·.rest) := by
  simp only [Spec.unsignedDecPrefix, reFrac_eq, reExpRest_eq, reIsDigit_eq]
  split
  · rfl
  · split <;> rfl

theorem strDecimalPrefix_plus' (body : List Nat) :
    (Spec.strDecimalPrefix (43 :: body)).map (·.2) = (Spec.unsignedDecPrefix body).map (·.rest) := by
  unfold Spec.strDecimalPrefix
  simp only
  cases Spec.unsignedDecPrefix body <;> rfl

theorem strDecimalPrefix_minus' (body : List Nat) :
    (Spec.strDecimalPrefix (45 :: body)).map (·.2) = (Spec.unsignedDecPrefix body).map (·.rest) := by
  unfold Spec.strDecimalPrefix
  simp only
  cases Spec.unsignedDecPrefix body <;> rfl

theorem strDecimalPrefix_nosign' (rs : List Nat) (h : ∀ c t, rs = c :: t → ¬ c = 43 ∧ ¬ c = 45) :
    (Spec.strDecimalPrefix rs).map (·.2) = (Spec.unsignedDecPrefix rs).map (·.rest) := by
  unfold Spec.strDecimalPrefix
  split
  rename_i x neg body heq
  split at heq
  · rename_i t; exact absurd rfl (h 43 t rfl).1
  · rename_i t; exact absurd rfl (h 45 t rfl).2
  · simp at heq
    obtain ⟨rfl, rfl⟩ := heq
    cases Spec.unsignedDecPrefix rs <;> rfl

/-- the regular expression of parseNumber / parseFloat finds exactly the longest StrDecimalLiteral prefix
    of §9.3.1, for EVERY text -/
theorem reDecRest_eq (s : Str) : reDecRest s = (Spec.strDecimalPrefix s).map (·.2) := by
  unfold reDecRest
  cases s with
  | nil =>
    rw [strDecimalPrefix_nosign' [] (by intro c t h; cases h)]
    exact reUnsigned_eq []
  | cons c t =>
    by_cases h43 : c = 43
    · subst h43
      rw [strDecimalPrefix_plus']
      have : reSign (43 :: t) = t := by simp [reSign]
      rw [this]; exact reUnsigned_eq t
    · by_cases h45 : c = 45
      · subst h45
        rw [strDecimalPrefix_minus']
        have : reSign (45 :: t) = t := by simp [reSign]
        rw [this]; exact reUnsigned_eq t
      · rw [strDecimalPrefix_nosign' (c :: t) (by intro c' t' h; cases h; exact ⟨h43, h45⟩)]
        have : reSign (c :: t) = c :: t := by simp [reSign, h43, h45]
        rw [this]; exact reUnsigned_eq (c :: t)

theorem reIsHexDigit_eq : reIsHexDigit = Spec.isHexDigit := by
  funext c
  simp [reIsHexDigit, Spec.isHexDigit, Spec.isDigit]

theorem isHexLit_eq (v : Str) : isHexLit v = Spec.isHexIntegerLiteral v := by
  match v with
  | [] => rfl
  | [a] =>
    by_cases h : a = 48
    · subst h; rfl
    · simp [isHexLit, Spec.isHexIntegerLiteral]
  | a :: x :: hs =>
    by_cases h : a = 48
    · subst h; simp [isHexLit, Spec.isHexIntegerLiteral, reIsHexDigit_eq]
    · have h1 : isHexLit (a :: x :: hs) = false := by
        unfold isHexLit; split
        · rename_i heq; simp at heq; exact absurd heq.1 h
        · rfl
      have h2 : Spec.isHexIntegerLiteral (a :: x :: hs) = false := by
        unfold Spec.isHexIntegerLiteral; split
        · rename_i heq; simp at heq; exact absurd heq.1 h
        · rfl
      rw [h1, h2]


/-- bytes of the numeric alphabet: ASCII and not ES5/otto white space -/
def Plain (c : Nat) : Prop := 33 ≤ c ∧ c < 127

theorem decodeRune_ascii (c : Nat) (r : List Nat) (h : c < 128) : decodeRune (c :: r) = some (c, 1) := by
  simp [decodeRune, h]

theorem plain_not_ws (c : Nat) (h : Plain c) : OttoVerif.PN.wsRunes.contains c = false := by
  unfold Plain at h
  simp [OttoVerif.PN.wsRunes]
  omega

theorem trimLeft_plain (c : Nat) (r : List Nat) (h : Plain c) (fuel : Nat) :
    trimLeftRunes OttoVerif.PN.wsRunes (fuel + 1) (c :: r) = c :: r := by
  simp only [trimLeftRunes, decodeRune_ascii c r (by unfold Plain at h; omega), plain_not_ws c h]
  simp

theorem segments_plain (bs : List Nat) (h : ∀ c ∈ bs, Plain c) (fuel : Nat) (hf : bs.length ≤ fuel) :
    segments fuel bs = bs.map (fun c => (c, 1)) := by
  induction bs generalizing fuel with
  | nil => cases fuel <;> simp [segments, decodeRune]
  | cons c r ih =>
    obtain ⟨k, rfl⟩ : ∃ k, fuel = k + 1 := ⟨fuel - 1, by simp at hf; omega⟩
    have hc := h c (by simp)
    have hr : ∀ x ∈ r, Plain x := fun x hx => h x (by simp [hx])
    simp only [segments, decodeRune_ascii c r (by unfold Plain at hc; omega)]
    simp [ih hr k (by simp at hf; omega)]

theorem foldl_widths (l : List Nat) (n : Nat) :
    (l.map (fun c => (c, 1))).foldl (fun n (p : Nat × Nat) => n + p.2) n = n + l.length := by
  induction l generalizing n with
  | nil => simp
  | cons a t ih => simp [ih]; omega

/-- strings.Trim with otto's white-space cut set leaves a string of plain ASCII bytes alone -/
theorem trim_plain (bs : List Nat) (h : ∀ c ∈ bs, Plain c) : trim OttoVerif.PN.wsRunes bs = bs := by
  cases bs with
  | nil => simp [trim, trimLeftRunes, trimRightRunes, segments]
  | cons c r =>
    have hc := h c (by simp)
    have hl : trimLeftRunes OttoVerif.PN.wsRunes (c :: r).length (c :: r) = c :: r := by
      simpa using trimLeft_plain c r hc r.length
    simp only [trim, hl, trimRightRunes, segments_plain (c :: r) h _ (Nat.le_refl _)]
    -- the last segment is not in the cut set
    have hdw : ((List.map (fun c => (c, 1)) (c :: r)).reverse.dropWhile
        (fun p => OttoVerif.PN.wsRunes.contains p.1)) = (List.map (fun c => (c, 1)) (c :: r)).reverse := by
      cases hrev : (List.map (fun c => (c, 1)) (c :: r)).reverse with
      | nil => rfl
      | cons p t =>
        have hp : p ∈ (List.map (fun c => (c, 1)) (c :: r)) := by
          have : p ∈ (List.map (fun c => (c, 1)) (c :: r)).reverse := by rw [hrev]; simp
          exact List.mem_reverse.mp this
        obtain ⟨x, hx, rfl⟩ := List.mem_map.mp hp
        have hnw := plain_not_ws x (h x hx)
        simp only [List.contains_eq_mem] at hnw
        simp [List.dropWhile, hnw]
    rw [hdw, List.reverse_reverse, foldl_widths]
    simp


theorem decodeRunesAux_plain (bs : List Nat) (h : ∀ c ∈ bs, Plain c) (fuel : Nat) (hf : bs.length ≤ fuel) :
    decodeRunesAux fuel bs = bs := by
  induction bs generalizing fuel with
  | nil => cases fuel <;> simp [decodeRunesAux, decodeRune]
  | cons c r ih =>
    obtain ⟨k, rfl⟩ : ∃ k, fuel = k + 1 := ⟨fuel - 1, by simp at hf; omega⟩
    have hc := h c (by simp)
    have hr : ∀ x ∈ r, Plain x := fun x hx => h x (by simp [hx])
    simp only [decodeRunesAux, decodeRune_ascii c r (by unfold Plain at hc; omega)]
    simp [ih hr k (by simp at hf; omega)]

theorem runes_plain (bs : List Nat) (h : ∀ c ∈ bs, Plain c) : Spec.runes bs = bs :=
  decodeRunesAux_plain bs h _ (Nat.le_refl _)

theorem plain_not_white (c : Nat) (h : Plain c) : Spec.isWhite c = false := by
  unfold Plain at h
  simp [Spec.isWhite]
  omega

theorem dropWhile_white_plain (bs : List Nat) (h : ∀ c ∈ bs, Plain c) : bs.dropWhile Spec.isWhite = bs := by
  cases bs with
  | nil => rfl
  | cons c r => simp [List.dropWhile, plain_not_white c (h c (by simp))]

theorem stripBoth_plain (bs : List Nat) (h : ∀ c ∈ bs, Plain c) : Spec.stripBoth (Spec.runes bs) = bs := by
  rw [runes_plain bs h]
  simp only [Spec.stripBoth, Spec.stripLeft, dropWhile_white_plain bs h]
  rw [dropWhile_white_plain bs.reverse (fun c hc => h c (List.mem_reverse.mp hc)), List.reverse_reverse]


def IsDig (c : Nat) : Prop := 48 ≤ c ∧ c ≤ 57

theorem isDigit_of (c : Nat) (h : IsDig c) : GoStd.isDigit c = true := by
  unfold IsDig at h; simp [GoStd.isDigit]; omega

/-- strconv readFloat's mantissa loop over a run of decimal digits -/
theorem mloop_digits (ds rest : List Nat) (hds : ∀ c ∈ ds, IsDig c) (fuel i mant frac : Nat) (sawdot sawdig us : Bool) :
    readFloat.mloop false 10 (ds.length + fuel) (ds ++ rest) i mant frac sawdot sawdig us
      = readFloat.mloop false 10 fuel rest (i + ds.length) (ds.foldl (fun n c => n * 10 + (c - 48)) mant)
          (if sawdot then frac + ds.length else frac) sawdot (sawdig || !ds.isEmpty) us := by
  induction ds generalizing i mant frac sawdig with
  | nil => simp
  | cons c r ih =>
    have hc := hds c (by simp)
    have hr : ∀ x ∈ r, IsDig x := fun x hx => hds x (by simp [hx])
    have e95 : ch '_' = 95 := by decide
    have e46 : ch '.' = 46 := by decide
    have h95 : ¬ (c = 95) := by unfold IsDig at hc; omega
    have h46 : ¬ (c = 46) := by unfold IsDig at hc; omega
    have hl : (c :: r).length + fuel = (r.length + fuel) + 1 := by simp; omega
    rw [hl]
    simp only [List.cons_append, readFloat.mloop, e95, e46, h95, h46, if_false, isDigit_of c hc, if_true]
    rw [ih hr]
    have e1 : i + 1 + r.length = i + (c :: r).length := by simp; omega
    have e2 : frac + 1 + r.length = frac + (c :: r).length := by simp; omega
    rw [e1]
    cases sawdot <;> simp [e2]

theorem mloop_nil (fuel i mant frac : Nat) (sawdot sawdig us : Bool) :
    readFloat.mloop false 10 fuel [] i mant frac sawdot sawdig us = ([], i, mant, frac, sawdig, us) := by
  cases fuel <;> simp [readFloat.mloop]

theorem mloop_dot (rest : List Nat) (fuel i mant frac : Nat) (sawdig us : Bool) :
    readFloat.mloop false 10 (fuel + 1) (46 :: rest) i mant frac false sawdig us
      = readFloat.mloop false 10 fuel rest (i + 1) mant frac true sawdig us := by
  have e95 : ch '_' = 95 := by decide
  have e46 : ch '.' = 46 := by decide
  simp [readFloat.mloop, e95, e46]


def DecBody (c : Nat) : Prop := IsDig c ∨ c = 46

theorem lower_ne_x (c : Nat) (h : DecBody c) : GoStd.lower c ≠ ch 'x' := by
  have e : ch 'x' = 120 := by decide
  rw [e]
  unfold DecBody IsDig at h
  have hc : c < 64 := by omega
  have : ∀ d : Fin 64, GoStd.lower d.val ≠ 120 := by decide
  exact this ⟨c, hc⟩

theorem ch_plus : ch '+' = 43 := by decide
theorem ch_minus : ch '-' = 45 := by decide

theorem readFloat_unsigned (c : Nat) (tl : List Nat) (hall : ∀ x ∈ c :: tl, DecBody x) (mant frac : Nat)
    (R : readFloat.mloop false 10 ((c :: tl).length + 1) (c :: tl) 0 0 0 false false false
          = ([], (c :: tl).length, mant, frac, true, false)) :
    readFloat (c :: tl) = some ⟨false, false, mant, frac, 0, (c :: tl).length⟩ := by
  have hc := hall c (by simp)
  have hp : ¬ (c = 43) := by unfold DecBody IsDig at hc; omega
  have hm : ¬ (c = 45) := by unfold DecBody IsDig at hc; omega
  unfold readFloat
  simp only [List.isEmpty_cons, Bool.false_eq_true, if_false, ch_plus, ch_minus, hp, hm, List.drop_zero]
  rcases tl with _ | ⟨b, _ | ⟨d, tl3⟩⟩
  · simp only [Bool.false_eq_true, if_false, List.drop_zero, R]
    simp
  · simp only [Bool.false_eq_true, if_false, List.drop_zero, R]
    simp
  · have hb := lower_ne_x b (hall b (by simp))
    simp only [hb, and_false, decide_false, Bool.false_eq_true, if_false, List.drop_zero, R]
    simp


theorem readFloat_signed (sg c : Nat) (tl : List Nat) (hsg : sg = 43 ∨ sg = 45)
    (hall : ∀ x ∈ c :: tl, DecBody x) (mant frac : Nat)
    (R : readFloat.mloop false 10 ((sg :: c :: tl).length + 1) (c :: tl) 1 0 0 false false false
          = ([], (sg :: c :: tl).length, mant, frac, true, false)) :
    readFloat (sg :: c :: tl) = some ⟨decide (sg = 45), false, mant, frac, 0, (sg :: c :: tl).length⟩ := by
  unfold readFloat
  rcases hsg with rfl | rfl
  · simp only [List.isEmpty_cons, Bool.false_eq_true, if_false, ch_plus, ch_minus, if_true, List.drop_one, List.tail_cons]
    rcases tl with _ | ⟨b, _ | ⟨d, tl3⟩⟩
    · simp only [Bool.false_eq_true, if_false, List.drop_one, List.tail_cons, R]
      simp
    · simp only [Bool.false_eq_true, if_false, List.drop_one, List.tail_cons, R]
      simp
    · have hb := lower_ne_x b (hall b (by simp))
      simp only [hb, and_false, decide_false, Bool.false_eq_true, if_false, List.drop_one, List.tail_cons, R]
      simp
  · have h4543 : ¬ ((45 : Nat) = 43) := by decide
    simp only [List.isEmpty_cons, Bool.false_eq_true, if_false, ch_plus, ch_minus, h4543, if_true, List.drop_one, List.tail_cons]
    rcases tl with _ | ⟨b, _ | ⟨d, tl3⟩⟩
    · simp only [Bool.false_eq_true, if_false, List.drop_one, List.tail_cons, R]
      simp
    · simp only [Bool.false_eq_true, if_false, List.drop_one, List.tail_cons, R]
      simp
    · have hb := lower_ne_x b (hall b (by simp))
      simp only [hb, and_false, decide_false, Bool.false_eq_true, if_false, List.drop_one, List.tail_cons, R]
      simp


/-- the text of an unsigned decimal without exponent: digits, optionally a point and more digits -/
def decBody (ip fp : List Nat) (dot : Bool) : List Nat := ip ++ (if dot then 46 :: fp else [])

theorem mloop_body (ip fp : List Nat) (dot : Bool) (hip : ∀ c ∈ ip, IsDig c) (hfp : ∀ c ∈ fp, IsDig c)
    (hne : ip ≠ [] ∨ fp ≠ []) (hdot : dot = false → fp = []) (i k : Nat) :
    readFloat.mloop false 10 ((decBody ip fp dot).length + k) (decBody ip fp dot) i 0 0 false false false
      = ([], i + (decBody ip fp dot).length, (ip ++ fp).foldl (fun n c => n * 10 + (c - 48)) 0, fp.length, true, false) := by
  cases dot with
  | false =>
    have hfp0 : fp = [] := hdot rfl
    subst hfp0
    have hipne : ip ≠ [] := by cases hne with | inl h => exact h | inr h => exact absurd rfl h
    have hie : ip.isEmpty = false := by cases ip <;> simp_all
    simp only [decBody, Bool.false_eq_true, if_false, List.append_nil]
    have := mloop_digits ip [] hip k i 0 0 false false false
    simp only [List.append_nil] at this
    rw [this, mloop_nil]
    simp [hie]
  | true =>
    simp only [decBody, if_true]
    have hlen : (ip ++ 46 :: fp).length + k = ip.length + ((fp.length + k) + 1) := by simp; omega
    rw [hlen, mloop_digits ip (46 :: fp) hip, mloop_dot]
    simp only [Bool.false_eq_true, if_false]
    have := mloop_digits fp [] hfp k (i + ip.length + 1) (ip.foldl (fun n c => n * 10 + (c - 48)) 0) 0 true
      (false || !ip.isEmpty) false
    simp only [List.append_nil] at this
    rw [this, mloop_nil]
    have hs : ((false || !ip.isEmpty) || !fp.isEmpty) = true := by
      cases hne with
      | inl h => cases ip <;> simp_all
      | inr h => cases fp <;> simp_all
    simp [hs, List.foldl_append]
    exact ⟨by omega, hne⟩


theorem spec_isDigit_of (c : Nat) (h : IsDig c) : Spec.isDigit c = true := by
  unfold IsDig at h; simp [Spec.isDigit]; omega

theorem takeWhile_digits (ip rest : List Nat) (hip : ∀ c ∈ ip, IsDig c)
    (hrest : ∀ c t, rest = c :: t → Spec.isDigit c = false) :
    (ip ++ rest).takeWhile Spec.isDigit = ip ∧ (ip ++ rest).dropWhile Spec.isDigit = rest := by
  induction ip with
  | nil =>
    cases rest with
    | nil => simp
    | cons c t => simp [List.takeWhile, List.dropWhile, hrest c t rfl]
  | cons a r ih =>
    have ha := spec_isDigit_of a (hip a (by simp))
    have hr : ∀ c ∈ r, IsDig c := fun c hc => hip c (by simp [hc])
    simp [List.takeWhile, List.dropWhile, ha, ih hr]

/-- ExponentPart: e/E, optional sign, digits -/
def expPart (ec : Nat) (esg ed : List Nat) : List Nat := ec :: (esg ++ ed)

def esignVal (esg : List Nat) : Int := if esg = [45] then -1 else 1

/-- a text tail after the mantissa: empty, or starting with a character that is no digit, no point -/
def TailOK (tail : List Nat) : Prop := ∀ c t, tail = c :: t → Spec.isDigit c = false ∧ c ≠ 46 ∧ c ≠ 73

theorem fracStep_nil (b : Bool) : Spec.fracStep b [] = ([], []) := rfl

theorem fracStep_tail (b : Bool) (tail : List Nat) (h : TailOK tail) : Spec.fracStep b tail = ([], tail) := by
  cases tail with
  | nil => rfl
  | cons c t =>
    have := (h c t rfl).2.1
    simp [Spec.fracStep, this]

theorem fracStep_dot (b : Bool) (fp tail : List Nat) (hfp : ∀ c ∈ fp, IsDig c) (h : TailOK tail)
    (hok : ¬ (b = true ∧ fp.isEmpty = true)) :
    Spec.fracStep b (46 :: (fp ++ tail)) = (fp, tail) := by
  have htd := takeWhile_digits fp tail hfp (fun c t e => (h c t e).1)
  simp only [Spec.fracStep, if_true, htd.1, htd.2, hok, if_false]

theorem expStep_nil : Spec.expStep [] = (0, []) := rfl

theorem expSign_nosign (d0 : Nat) (et : List Nat) (h43 : ¬ d0 = 43) (h45 : ¬ d0 = 45) :
    Spec.expSign (d0 :: et) = (1, d0 :: et) := by
  simp [Spec.expSign, h43, h45]

theorem expStep_part (ec : Nat) (hec : ec = 101 ∨ ec = 69) (esg ed : List Nat)
    (hesg : esg = [] ∨ esg = [43] ∨ esg = [45]) (hed : ∀ x ∈ ed, IsDig x) (hedne : ed ≠ []) :
    Spec.expStep (expPart ec esg ed)
      = (esignVal esg * ((ed.foldl (fun n c => n * 10 + (c - 48)) 0 : Nat) : Int), []) := by
  obtain ⟨d0, et, rfl⟩ := List.exists_cons_of_ne_nil hedne
  have hd0 := hed d0 (by simp)
  have hd0p : ¬ (d0 = 43) := by unfold IsDig at hd0; omega
  have hd0m : ¬ (d0 = 45) := by unfold IsDig at hd0; omega
  have hted := takeWhile_digits (d0 :: et) [] hed (by intro c t h; cases h)
  simp only [List.append_nil] at hted
  have hece : (ec = 101 ∨ ec = 69) := hec
  rcases hesg with rfl | rfl | rfl
  · simp only [expPart, List.nil_append, Spec.expStep, hece, if_true, expSign_nosign d0 et hd0p hd0m, hted.1, hted.2]
    simp [esignVal, Spec.digitsVal]
  · have hs : Spec.expSign (43 :: d0 :: et) = (1, d0 :: et) := by simp [Spec.expSign]
    simp only [expPart, List.cons_append, List.nil_append, Spec.expStep, hece, if_true, hs, hted.1, hted.2]
    simp [esignVal, Spec.digitsVal]
  · have hs : Spec.expSign (45 :: d0 :: et) = (-1, d0 :: et) := by simp [Spec.expSign]
    simp only [expPart, List.cons_append, List.nil_append, Spec.expStep, hece, if_true, hs, hted.1, hted.2]
    simp [esignVal, Spec.digitsVal]

theorem tailOK_nil : TailOK [] := by intro c t h; cases h

theorem tailOK_exp (ec : Nat) (hec : ec = 101 ∨ ec = 69) (esg ed : List Nat) : TailOK (expPart ec esg ed) := by
  intro c t h
  simp [expPart] at h
  rw [← h.1]
  rcases hec with rfl | rfl <;> decide

/-- `unsignedDecPrefix` on digits [. digits] followed by an admissible tail -/
theorem unsignedDecPrefix_gen (ip fp : List Nat) (dot : Bool) (hip : ∀ c ∈ ip, IsDig c) (hfp : ∀ c ∈ fp, IsDig c)
    (hne : ip ≠ [] ∨ fp ≠ []) (hdot : dot = false → fp = []) (tail : List Nat) (ht : TailOK tail) :
    Spec.unsignedDecPrefix (decBody ip fp dot ++ tail)
      = some ⟨false, (ip ++ fp).foldl (fun n c => n * 10 + (c - 48)) 0,
          (Spec.expStep tail).1 - (fp.length : Int), (Spec.expStep tail).2⟩ := by
  have hinf : sInfinity.isPrefixOf (decBody ip fp dot ++ tail) = false := by
    cases ip with
    | nil =>
      cases dot with
      | false =>
        cases tail with
        | nil => simp [decBody, sInfinity]
        | cons c t =>
          have := (ht c t rfl).2.2
          have h2 : ¬ (73 = c) := fun e => this e.symm
          simp [decBody, sInfinity, List.isPrefixOf, h2]
      | true => simp [decBody, sInfinity, List.isPrefixOf]
    | cons a r =>
      have ha := hip a (by simp)
      unfold IsDig at ha
      have : ¬ (73 = a) := by omega
      simp [decBody, sInfinity, List.isPrefixOf, this]
  have hboth : ¬ (ip.isEmpty = true ∧ fp.isEmpty = true) := by
    intro ⟨h1, h2⟩
    cases hne with
    | inl h => exact h (List.isEmpty_iff.mp h1)
    | inr h => exact h (List.isEmpty_iff.mp h2)
  cases dot with
  | false =>
    have hfp0 : fp = [] := hdot rfl
    subst hfp0
    have htd := takeWhile_digits ip tail hip (fun c t e => (ht c t e).1)
    simp only [decBody, Bool.false_eq_true, if_false, List.append_nil] at hinf ⊢
    have hie : ip.isEmpty = false := by
      cases hne with
      | inl h => cases ip <;> simp_all
      | inr h => exact absurd rfl h
    simp only [Spec.unsignedDecPrefix, hinf, Bool.false_eq_true, if_false, htd.1, htd.2, fracStep_tail _ tail ht, hie,
      false_and, Spec.digitsVal]
    simp
  | true =>
    have h46 : Spec.isDigit 46 = false := by decide
    have htd := takeWhile_digits ip (46 :: (fp ++ tail)) hip (by intro c t h; cases h; exact h46)
    simp only [decBody, if_true, List.append_assoc, List.cons_append] at hinf ⊢
    simp only [Spec.unsignedDecPrefix, hinf, Bool.false_eq_true, if_false, htd.1, htd.2,
      fracStep_dot _ fp tail hfp ht hboth, hboth, Spec.digitsVal]


theorem unsignedDecPrefix_body (ip fp : List Nat) (dot : Bool) (hip : ∀ c ∈ ip, IsDig c) (hfp : ∀ c ∈ fp, IsDig c)
    (hne : ip ≠ [] ∨ fp ≠ []) (hdot : dot = false → fp = []) :
    ∃ d, Spec.unsignedDecPrefix (decBody ip fp dot) = some d ∧ d.inf = false ∧
      d.mant = (ip ++ fp).foldl (fun n c => n * 10 + (c - 48)) 0 ∧ d.exp10 = 0 - (fp.length : Int) ∧ d.rest = [] := by
  have := unsignedDecPrefix_gen ip fp dot hip hfp hne hdot [] tailOK_nil
  rw [List.append_nil, expStep_nil] at this
  exact ⟨_, this, rfl, rfl, rfl, rfl⟩

theorem decBody_all (ip fp : List Nat) (dot : Bool) (hip : ∀ c ∈ ip, IsDig c) (hfp : ∀ c ∈ fp, IsDig c) :
    ∀ x ∈ decBody ip fp dot, DecBody x := by
  intro x hx
  unfold decBody at hx
  cases dot with
  | false => simp at hx; exact Or.inl (hip x hx)
  | true =>
    simp at hx
    rcases hx with h | h | h
    · exact Or.inl (hip x h)
    · exact Or.inr h
    · exact Or.inl (hfp x h)

theorem decBody_cons (ip fp : List Nat) (dot : Bool) (hne : ip ≠ [] ∨ fp ≠ []) (hdot : dot = false → fp = []) :
    ∃ c tl, decBody ip fp dot = c :: tl := by
  cases ip with
  | cons a r => exact ⟨a, _, rfl⟩
  | nil =>
    cases dot with
    | true => exact ⟨46, fp, rfl⟩
    | false =>
      have := hdot rfl
      cases hne with
      | inl h => exact absurd rfl h
      | inr h => exact absurd this h

theorem decBody_plain (x : Nat) (h : DecBody x) : Plain x := by
  unfold DecBody IsDig at h; unfold Plain; omega

/-- strconv `special` does not fire on a (signed) decimal body -/
theorem special_unsigned (c : Nat) (tl : List Nat) (hc : DecBody c) : GoStd.special (c :: tl) = none := by
  have e1 : ch '+' = 43 := by decide
  have e2 : ch '-' = 45 := by decide
  have e3 : ch 'i' = 105 := by decide
  have e4 : ch 'I' = 73 := by decide
  have e5 : ch 'n' = 110 := by decide
  have e6 : ch 'N' = 78 := by decide
  unfold DecBody IsDig at hc
  have h1 : ¬ c = 43 := by omega
  have h2 : ¬ c = 45 := by omega
  have h3 : ¬ (c = 105 ∨ c = 73) := by omega
  have h4 : ¬ (c = 110 ∨ c = 78) := by omega
  simp [GoStd.special, e1, e2, e3, e4, e5, e6, h1, h2, h3, h4]

theorem special_signed (sg c : Nat) (tl : List Nat) (hsg : sg = 43 ∨ sg = 45) (hc : DecBody c) :
    GoStd.special (sg :: c :: tl) = none := by
  have e1 : ch '+' = 43 := by decide
  have e2 : ch '-' = 45 := by decide
  unfold DecBody IsDig at hc
  have hpl : prefixLenIgnoreCase (c :: tl) (Str.ofString "infinity") = 0 := by
    have : Str.ofString "infinity" = [105, 110, 102, 105, 110, 105, 116, 121] := by decide +kernel
    rw [this]
    have hh : ¬ ((if 65 ≤ c ∧ c ≤ 90 then c + 32 else c) = 105) := by split <;> omega
    simp [prefixLenIgnoreCase, hh]
  rcases hsg with rfl | rfl
  · simp [GoStd.special, e1, e2, hpl]
  · simp [GoStd.special, e1, e2, hpl]


/-- the double both sides compute for sign · mant · 10^(−frac) -/
def decValue (neg : Bool) (mant frac : Nat) : FV :=
  if mant = 0 then .fin neg 0 0
  else if frac = 0 then ofRatParts neg (mant * 10 ^ 0) 1 else ofRatParts neg mant (10 ^ frac)

theorem rfValue_dec (neg : Bool) (mant frac n : Nat) :
    rfValue ⟨neg, false, mant, frac, 0, n⟩ = decValue neg mant frac := by
  unfold rfValue decValue
  by_cases hm : mant = 0
  · simp [hm]
  · by_cases hf : frac = 0
    · subst hf; simp [hm]
    · have h1 : ¬ ((0 : Int) - (frac : Int) ≥ 0) := by omega
      have h2 : (-((0 : Int) - (frac : Int))).toNat = frac := by omega
      simp only [hm, if_false, Bool.false_eq_true, h1, h2, hf]

theorem mvRound_dec (neg : Bool) (mant frac : Nat) (hf : frac ≤ 400) :
    Spec.mvRound neg mant (0 - (frac : Int)) = decValue neg mant frac := by
  unfold Spec.mvRound decValue
  by_cases hm : mant = 0
  · simp [hm]
  · by_cases hf0 : frac = 0
    · subst hf0; simp [hm]
    · have h1 : ¬ ((0 : Int) - (frac : Int) ≥ 0) := by omega
      have h2 : (-((0 : Int) - (frac : Int))).toNat = frac := by omega
      have h3 : ¬ (frac > (natDigits mant).length + 400) := by omega
      simp only [hm, if_false, h1, h2, h3, hf0]

/-- strconv.ParseFloat on a signed decimal without exponent -/
theorem goParseFloat_decimal (sgn : List Nat) (hsg : sgn = [] ∨ sgn = [43] ∨ sgn = [45])
    (ip fp : List Nat) (dot : Bool) (hip : ∀ c ∈ ip, IsDig c) (hfp : ∀ c ∈ fp, IsDig c)
    (hne : ip ≠ [] ∨ fp ≠ []) (hdot : dot = false → fp = []) :
    GoStd.parseFloat (sgn ++ decBody ip fp dot)
      = some (decValue (decide (sgn = [45])) ((ip ++ fp).foldl (fun n c => n * 10 + (c - 48)) 0) fp.length) ∧
    GoStd.special (sgn ++ decBody ip fp dot) = none := by
  have hall := decBody_all ip fp dot hip hfp
  obtain ⟨c, tl, hb⟩ := decBody_cons ip fp dot hne hdot
  have hR := fun i k => mloop_body ip fp dot hip hfp hne hdot i k
  rw [hb] at hall hR ⊢
  have hc := hall c (by simp)
  rcases hsg with rfl | rfl | rfl
  · have hrf := readFloat_unsigned c tl hall ((ip ++ fp).foldl (fun n c => n * 10 + (c - 48)) 0) fp.length
      (by have := hR 0 1; rw [Nat.zero_add] at this; exact this)
    refine ⟨?_, special_unsigned c tl hc⟩
    simp only [List.nil_append, GoStd.parseFloat, special_unsigned c tl hc, hrf, if_true, rfValue_dec]
    simp
  · have hrf := readFloat_signed 43 c tl (Or.inl rfl) hall ((ip ++ fp).foldl (fun n c => n * 10 + (c - 48)) 0) fp.length
      (by have := hR 1 2; rw [Nat.add_comm 1 (c :: tl).length] at this; exact this)
    refine ⟨?_, special_signed 43 c tl (Or.inl rfl) hc⟩
    simp only [List.cons_append, List.nil_append, GoStd.parseFloat, special_signed 43 c tl (Or.inl rfl) hc, hrf, if_true,
      rfValue_dec]
    simp
  · have hrf := readFloat_signed 45 c tl (Or.inr rfl) hall ((ip ++ fp).foldl (fun n c => n * 10 + (c - 48)) 0) fp.length
      (by have := hR 1 2; rw [Nat.add_comm 1 (c :: tl).length] at this; exact this)
    refine ⟨?_, special_signed 45 c tl (Or.inr rfl) hc⟩
    simp only [List.cons_append, List.nil_append, GoStd.parseFloat, special_signed 45 c tl (Or.inr rfl) hc, hrf, if_true,
      rfValue_dec]


/-- a text whose whole is a StrDecimalLiteral passes otto's grammar check -/
theorem valid_of_prefix (v : Str) (y : FV) (h : Spec.strDecimalPrefix v = some (y, [])) :
    stringToNumberValid v = true := by
  simp [stringToNumberValid, reDecRest_eq, h]

/-- parseNumber after the Trim on a text that is a StrDecimalLiteral and that strconv.ParseFloat reads as x -/
theorem parseNumberBody_float (v : Str) (hne : v ≠ []) (x y : FV)
    (hsp : Spec.strDecimalPrefix v = some (y, [])) (h0x : OttoVerif.PN.startsWith0x v = false)
    (hpf : GoStd.parseFloat v = some x) : parseNumberBody v = x := by
  have hie : v.isEmpty = false := by cases v <;> simp_all
  simp only [parseNumberBody, hie, Bool.false_eq_true, if_false, valid_of_prefix v y hsp, Bool.not_true, h0x,
    OttoVerif.PN.pfOrNaN, hpf]
  split <;> rfl

theorem strDecimalPrefix_nosign (c : Nat) (tl : List Nat) (h43 : ¬ c = 43) (h45 : ¬ c = 45) (d : Spec.DecLit)
    (hd : Spec.unsignedDecPrefix (c :: tl) = some d) :
    Spec.strDecimalPrefix (c :: tl) = some (if d.inf then .inf false else Spec.mvRound false d.mant d.exp10, d.rest) := by
  unfold Spec.strDecimalPrefix
  split
  rename_i x neg body heq
  split at heq
  · rename_i t h; simp at h; exact absurd h.1 h43
  · rename_i t h; simp at h; exact absurd h.1 h45
  · simp at heq
    obtain ⟨rfl, rfl⟩ := heq
    simp [hd]

theorem strDecimalPrefix_plus (body : List Nat) (d : Spec.DecLit)
    (hd : Spec.unsignedDecPrefix body = some d) :
    Spec.strDecimalPrefix (43 :: body) = some (if d.inf then .inf false else Spec.mvRound false d.mant d.exp10, d.rest) := by
  unfold Spec.strDecimalPrefix
  simp only [hd]

theorem strDecimalPrefix_minus (body : List Nat) (d : Spec.DecLit)
    (hd : Spec.unsignedDecPrefix body = some d) :
    Spec.strDecimalPrefix (45 :: body) = some (if d.inf then .inf true else Spec.mvRound true d.mant d.exp10, d.rest) := by
  unfold Spec.strDecimalPrefix
  simp only [hd]

theorem strDecimalPrefix_decimal (sgn : List Nat) (hsg : sgn = [] ∨ sgn = [43] ∨ sgn = [45])
    (ip fp : List Nat) (dot : Bool) (hip : ∀ c ∈ ip, IsDig c) (hfp : ∀ c ∈ fp, IsDig c)
    (hne : ip ≠ [] ∨ fp ≠ []) (hdot : dot = false → fp = []) (hfl : fp.length ≤ 400) :
    Spec.strDecimalPrefix (sgn ++ decBody ip fp dot)
      = some (decValue (decide (sgn = [45])) ((ip ++ fp).foldl (fun n c => n * 10 + (c - 48)) 0) fp.length, []) := by
  obtain ⟨d, hd, hinf, hmant, hexp, hrest⟩ := unsignedDecPrefix_body ip fp dot hip hfp hne hdot
  have hall := decBody_all ip fp dot hip hfp
  obtain ⟨c, tl, hb⟩ := decBody_cons ip fp dot hne hdot
  have hc : DecBody c := hall c (by rw [hb]; simp)
  have hc43 : ¬ (c = 43) := by unfold DecBody IsDig at hc; omega
  have hc45 : ¬ (c = 45) := by unfold DecBody IsDig at hc; omega
  have hval : Spec.mvRound (decide (sgn = [45])) d.mant d.exp10
      = decValue (decide (sgn = [45])) ((ip ++ fp).foldl (fun n c => n * 10 + (c - 48)) 0) fp.length := by
    rw [hmant, hexp]; exact mvRound_dec _ _ _ hfl
  rcases hsg with rfl | rfl | rfl
  · simp only [List.nil_append]
    rw [hb] at hd ⊢
    rw [strDecimalPrefix_nosign c tl hc43 hc45 d hd]
    have : decide (([] : List Nat) = [45]) = false := by decide
    rw [this] at hval
    simp [hinf, hrest, hval]
  · simp only [List.cons_append, List.nil_append]
    rw [strDecimalPrefix_plus _ d hd]
    have : decide (([43] : List Nat) = [45]) = false := by decide
    rw [this] at hval
    simp [hinf, hrest, hval]
  · simp only [List.cons_append, List.nil_append]
    rw [strDecimalPrefix_minus _ d hd]
    have : decide (([45] : List Nat) = [45]) = true := by decide
    rw [this] at hval
    simp [hinf, hrest, hval]


theorem not_hex_of_second (rs : List Nat) (hx : ∀ a b t, rs = a :: b :: t → ¬ (b = 120 ∨ b = 88)) :
    Spec.isHexIntegerLiteral rs = false := by
  unfold Spec.isHexIntegerLiteral
  split
  · rename_i x hs
    have := hx 48 x hs rfl
    simp [this]
  · rfl

theorem startsWith0x_false (rs : List Nat) (hx : ∀ a b t, rs = a :: b :: t → ¬ (b = 120 ∨ b = 88)) :
    OttoVerif.PN.startsWith0x rs = false := by
  unfold OttoVerif.PN.startsWith0x
  split
  · rename_i c t
    have := hx 48 c t rfl
    simp [this]
  · rfl

/-- §9.3.1 on a stripped text that is a StrDecimalLiteral -/
theorem specBody_decimal (rs : List Nat) (hne : rs ≠ []) (y : FV)
    (hsp : Spec.strDecimalPrefix rs = some (y, [])) (hnh : Spec.isHexIntegerLiteral rs = false) :
    Spec.stringToNumberBody rs = y := by
  have hie : rs.isEmpty = false := by cases rs <;> simp_all
  simp [Spec.stringToNumberBody, hie, hnh, Spec.decimalLiteralValue, hsp]

/-- ToNumber: model = spec on every plain-ASCII text that is a StrDecimalLiteral with value x (spec)
    and that strconv.ParseFloat reads as the same x -/
theorem toNumber_sound_of (s : Str) (hplain : ∀ x ∈ s, Plain x) (hne : s ≠ [])
    (hx : ∀ a b t, s = a :: b :: t → ¬ (b = 120 ∨ b = 88)) (x : FV)
    (hsp : Spec.strDecimalPrefix s = some (x, [])) (hpf : GoStd.parseFloat s = some x) :
    stringToNumber s = Spec.stringToNumber s := by
  simp only [stringToNumber, Spec.stringToNumber, trim_plain s hplain, stripBoth_plain s hplain]
  rw [parseNumberBody_float s hne x x hsp (startsWith0x_false s hx) hpf,
    specBody_decimal s hne x hsp (not_hex_of_second s hx)]

/-- C06.toNumber_string_sound (decimal literals without exponent): for every sign, every digit
    strings `ip`, `fp` (at most 400 fraction digits; not both empty; with or without the point),
    otto's `parseNumber` (Trim, grammar check, strconv.ParseFloat) returns exactly the Number
    value §9.3.1 assigns: the correctly rounded value of ±ip.fp (and ±0 for zero mantissas). -/
theorem toNumber_decimal_sound (sgn : List Nat) (hsg : sgn = [] ∨ sgn = [43] ∨ sgn = [45])
    (ip fp : List Nat) (dot : Bool) (hip : ∀ c ∈ ip, IsDig c) (hfp : ∀ c ∈ fp, IsDig c)
    (hne : ip ≠ [] ∨ fp ≠ []) (hdot : dot = false → fp = []) (hfl : fp.length ≤ 400) :
    stringToNumber (sgn ++ decBody ip fp dot) = Spec.stringToNumber (sgn ++ decBody ip fp dot) := by
  obtain ⟨hpf, _⟩ := goParseFloat_decimal sgn hsg ip fp dot hip hfp hne hdot
  have hsp := strDecimalPrefix_decimal sgn hsg ip fp dot hip hfp hne hdot hfl
  have hall := decBody_all ip fp dot hip hfp
  obtain ⟨c, tl, hb⟩ := decBody_cons ip fp dot hne hdot
  have hplain : ∀ x ∈ sgn ++ decBody ip fp dot, Plain x := by
    intro x hx
    rcases List.mem_append.mp hx with h | h
    · rcases hsg with rfl | rfl | rfl
      · cases h
      · simp at h; subst h; unfold Plain; omega
      · simp at h; subst h; unfold Plain; omega
    · exact decBody_plain x (hall x h)
  have hnx : ∀ a b t, sgn ++ decBody ip fp dot = a :: b :: t → ¬ (b = 120 ∨ b = 88) := by
    intro a b t h
    have hbm : b ∈ decBody ip fp dot := by
      rcases hsg with rfl | rfl | rfl
      · simp only [List.nil_append] at h; rw [h]; simp
      · rw [hb] at h ⊢; simp at h; rw [h.2.1]; simp
      · rw [hb] at h ⊢; simp at h; rw [h.2.1]; simp
    have := hall b hbm
    unfold DecBody IsDig at this; omega
  have hne' : sgn ++ decBody ip fp dot ≠ [] := by rw [hb]; simp
  exact toNumber_sound_of _ hplain hne' hnx _ hsp hpf

/-- C06.toNumber_string_complete (after white-space stripping): EVERY text that is neither a
    StrDecimalLiteral nor a HexIntegerLiteral converts to NaN (and the empty text to +0) in otto exactly
    as in §9.3.1 — the grammar check of parseNumber is the grammar. -/
theorem toNumber_complete_body (v : Str) (hdec : ∀ y, Spec.strDecimalPrefix v ≠ some (y, []))
    (hhex : Spec.isHexIntegerLiteral v = false) :
    parseNumberBody v = Spec.stringToNumberBody v := by
  by_cases hv : v = []
  · subst hv; rfl
  · have hie : v.isEmpty = false := by cases v <;> simp_all
    have hre : (reDecRest v == some []) = false := by
      rw [reDecRest_eq]
      cases hp : Spec.strDecimalPrefix v with
      | none => rfl
      | some p =>
        obtain ⟨y, r⟩ := p
        cases r with
        | nil => exact absurd hp (hdec y)
        | cons a t => simp
    have hvalid : stringToNumberValid v = false := by
      simp [stringToNumberValid, hre, isHexLit_eq, hhex]
    have hspec : Spec.decimalLiteralValue v = .nan := by
      unfold Spec.decimalLiteralValue
      split
      · rename_i y hp; exact absurd hp (hdec y)
      · rfl
    simp [parseNumberBody, Spec.stringToNumberBody, hie, hvalid, hhex, hspec]

/-! ### decimal literals with an ExponentPart -/

theorem mloop_stop_e (ec : Nat) (hec : ec = 101 ∨ ec = 69) (r : List Nat) (fuel i mant frac : Nat) (sawdot sawdig us : Bool) :
    readFloat.mloop false 10 fuel (ec :: r) i mant frac sawdot sawdig us = (ec :: r, i, mant, frac, sawdig, us) := by
  have e95 : ch '_' = 95 := by decide
  have e46 : ch '.' = 46 := by decide
  cases fuel with
  | zero => simp [readFloat.mloop]
  | succ k =>
    rcases hec with rfl | rfl <;> simp [readFloat.mloop, e95, e46, GoStd.isDigit]

theorem mloop_body_exp (ip fp : List Nat) (dot : Bool) (hip : ∀ c ∈ ip, IsDig c) (hfp : ∀ c ∈ fp, IsDig c)
    (hne : ip ≠ [] ∨ fp ≠ []) (hdot : dot = false → fp = []) (ec : Nat) (hec : ec = 101 ∨ ec = 69) (r : List Nat)
    (i k : Nat) :
    readFloat.mloop false 10 ((decBody ip fp dot).length + k) (decBody ip fp dot ++ ec :: r) i 0 0 false false false
      = (ec :: r, i + (decBody ip fp dot).length, (ip ++ fp).foldl (fun n c => n * 10 + (c - 48)) 0, fp.length, true, false) := by
  cases dot with
  | false =>
    have hfp0 : fp = [] := hdot rfl
    subst hfp0
    have hipne : ip ≠ [] := by cases hne with | inl h => exact h | inr h => exact absurd rfl h
    have hie : ip.isEmpty = false := by cases ip <;> simp_all
    simp only [decBody, Bool.false_eq_true, if_false, List.append_nil]
    rw [mloop_digits ip (ec :: r) hip, mloop_stop_e ec hec]
    simp [hie]
  | true =>
    simp only [decBody, if_true]
    have hlen : (ip ++ 46 :: fp).length + k = ip.length + ((fp.length + k) + 1) := by simp; omega
    rw [hlen, List.append_assoc, mloop_digits ip ((46 :: fp) ++ ec :: r) hip]
    simp only [List.cons_append]
    rw [mloop_dot]
    simp only [Bool.false_eq_true, if_false]
    rw [mloop_digits fp (ec :: r) hfp, mloop_stop_e ec hec]
    have hs : ((false || !ip.isEmpty) || !fp.isEmpty) = true := by
      cases hne with
      | inl h => cases ip <;> simp_all
      | inr h => cases fp <;> simp_all
    simp [hs, List.foldl_append]
    exact ⟨by omega, hne⟩


theorem takeWhile_digits_us (ed : List Nat) (hed : ∀ c ∈ ed, IsDig c) :
    ed.takeWhile (fun c => decide (GoStd.isDigit c = true ∨ c = ch '_')) = ed := by
  induction ed with
  | nil => rfl
  | cons a t ih =>
    have ha := isDigit_of a (hed a (by simp))
    have ht : ∀ c ∈ t, IsDig c := fun c hc => hed c (by simp [hc])
    have := ih ht
    simp only [List.takeWhile, ha, true_or, decide_true]
    rw [this]

theorem no_underscore (ed : List Nat) (hed : ∀ c ∈ ed, IsDig c) : ed.contains (ch '_') = false := by
  have e95 : ch '_' = 95 := by decide
  rw [e95]
  induction ed with
  | nil => rfl
  | cons a t ih =>
    have ha := hed a (by simp)
    unfold IsDig at ha
    have : ¬ (95 = a) := by omega
    have ht : ∀ c ∈ t, IsDig c := fun c hc => hed c (by simp [hc])
    have := ih ht
    simp_all

/-- the capped exponent accumulation of readFloat is exact for at most four digits -/
theorem capfold_eq (ed : List Nat) (hed : ∀ c ∈ ed, IsDig c) (e j : Nat) (he : e < 10 ^ j) (hj : j + ed.length ≤ 4) :
    ed.foldl (fun e c => if c = ch '_' then e else if e < 10000 then e * 10 + (c - 48) else e) e
      = ed.foldl (fun n c => n * 10 + (c - 48)) e := by
  have e95 : ch '_' = 95 := by decide
  induction ed generalizing e j with
  | nil => rfl
  | cons a t ih =>
    have ha := hed a (by simp)
    unfold IsDig at ha
    have h95 : ¬ (a = 95) := by omega
    have ht : ∀ c ∈ t, IsDig c := fun c hc => hed c (by simp [hc])
    have hj3 : j ≤ 3 := by simp at hj; omega
    have hpow : 10 ^ j ≤ 10 ^ 3 := Nat.pow_le_pow_right (by decide) hj3
    have hlt : e < 10000 := by omega
    simp only [List.foldl_cons, e95, h95, if_false, hlt, if_true]
    have hnext : e * 10 + (a - 48) < 10 ^ (j + 1) := by
      rw [Nat.pow_succ]; omega
    exact ih ht _ (j + 1) hnext (by simp at hj ⊢; omega)

theorem lower_e (ec : Nat) (hec : ec = 101 ∨ ec = 69) : GoStd.lower ec = ch 'e' ∧ GoStd.lower ec ≠ ch 'x' := by
  rcases hec with rfl | rfl <;> decide


set_option hygiene false in
/-- finishing steps shared by the cases of `readFloat_*_exp` (hypotheses are picked up by name) -/
macro "rf_exp_finish" : tactic => `(tactic| (
  simp only [hx, Bool.false_eq_true, if_false, List.drop_zero, List.drop_one, List.tail_cons, R]
  simp only [hle.1, if_true, hd0p, hd0m, if_false, isDigit_of d0 hd0, Bool.not_true, Bool.false_eq_true, htw, hnu, hcap]
  simp [esignVal, isDigit_of d0 hd0, htw', hnu', hcap]
  try omega))

theorem readFloat_unsigned_exp (c : Nat) (tl : List Nat) (hall : ∀ x ∈ c :: tl, DecBody x)
    (ec : Nat) (hec : ec = 101 ∨ ec = 69) (esg ed : List Nat) (hesg : esg = [] ∨ esg = [43] ∨ esg = [45])
    (hed : ∀ x ∈ ed, IsDig x) (hedne : ed ≠ []) (hed4 : ed.length ≤ 4) (mant frac : Nat)
    (R : readFloat.mloop false 10 (((c :: tl) ++ expPart ec esg ed).length + 1) ((c :: tl) ++ expPart ec esg ed)
          0 0 0 false false false
          = (expPart ec esg ed, (c :: tl).length, mant, frac, true, false)) :
    readFloat ((c :: tl) ++ expPart ec esg ed)
      = some ⟨false, false, mant, frac, esignVal esg * ((ed.foldl (fun n c => n * 10 + (c - 48)) 0 : Nat) : Int),
          ((c :: tl) ++ expPart ec esg ed).length⟩ := by
  have hc := hall c (by simp)
  have hp : ¬ (c = 43) := by unfold DecBody IsDig at hc; omega
  have hm : ¬ (c = 45) := by unfold DecBody IsDig at hc; omega
  obtain ⟨d0, et, rfl⟩ := List.exists_cons_of_ne_nil hedne
  have hd0 := hed d0 (by simp)
  have hd0p : ¬ (d0 = 43) := by unfold IsDig at hd0; omega
  have hd0m : ¬ (d0 = 45) := by unfold IsDig at hd0; omega
  have hle := lower_e ec hec
  have htw := takeWhile_digits_us (d0 :: et) hed
  have hnu := no_underscore (d0 :: et) hed
  have hcap := capfold_eq (d0 :: et) hed 0 0 (by decide) (by simpa using hed4)
  have htw' : List.takeWhile (fun c => GoStd.isDigit c || decide (c = ch '_')) (d0 :: et) = d0 :: et := by
    have := htw; simpa using this
  have hnu' : ch '_' ∉ (d0 :: et) := by
    have := hnu; simpa using this
  unfold readFloat
  simp only [List.cons_append, List.isEmpty_cons, Bool.false_eq_true, if_false, ch_plus, ch_minus, hp, hm, List.drop_zero]
  simp only [List.cons_append] at R
  rcases tl with _ | ⟨b, tl2⟩
  · -- the second character is the exponent character
    have hx : decide (c = 48 ∧ GoStd.lower ec = ch 'x') = false := by simp [hle.2]
    simp only [List.nil_append, expPart, List.cons_append] at R ⊢
    rcases hesg with rfl | rfl | rfl
    · simp only [List.nil_append] at R ⊢
      rf_exp_finish
    · simp only [List.cons_append, List.nil_append] at R ⊢
      rf_exp_finish
    · simp only [List.cons_append, List.nil_append] at R ⊢
      rf_exp_finish
  · have hb := lower_ne_x b (hall b (by simp))
    have hx : decide (c = 48 ∧ GoStd.lower b = ch 'x') = false := by simp [hb]
    simp only [expPart, List.cons_append] at R ⊢
    -- a third character always exists
    rcases tl2 with _ | ⟨b2, tl3⟩
    · simp only [List.nil_append] at R ⊢
      rcases hesg with rfl | rfl | rfl
      · simp only [List.nil_append] at R ⊢
        rf_exp_finish
      · simp only [List.cons_append, List.nil_append] at R ⊢
        rf_exp_finish
      · simp only [List.cons_append, List.nil_append] at R ⊢
        rf_exp_finish
    · simp only [List.cons_append] at R ⊢
      rcases hesg with rfl | rfl | rfl
      · simp only [List.nil_append] at R ⊢
        rf_exp_finish
      · simp only [List.cons_append, List.nil_append] at R ⊢
        rf_exp_finish
      · simp only [List.cons_append, List.nil_append] at R ⊢
        rf_exp_finish


theorem readFloat_signed_exp (sg c : Nat) (tl : List Nat) (hsg : sg = 43 ∨ sg = 45) (hall : ∀ x ∈ c :: tl, DecBody x)
    (ec : Nat) (hec : ec = 101 ∨ ec = 69) (esg ed : List Nat) (hesg : esg = [] ∨ esg = [43] ∨ esg = [45])
    (hed : ∀ x ∈ ed, IsDig x) (hedne : ed ≠ []) (hed4 : ed.length ≤ 4) (mant frac : Nat)
    (R : readFloat.mloop false 10 ((sg :: ((c :: tl) ++ expPart ec esg ed)).length + 1) ((c :: tl) ++ expPart ec esg ed)
          1 0 0 false false false
          = (expPart ec esg ed, (sg :: c :: tl).length, mant, frac, true, false)) :
    readFloat (sg :: ((c :: tl) ++ expPart ec esg ed))
      = some ⟨decide (sg = 45), false, mant, frac, esignVal esg * ((ed.foldl (fun n c => n * 10 + (c - 48)) 0 : Nat) : Int),
          (sg :: ((c :: tl) ++ expPart ec esg ed)).length⟩ := by
  obtain ⟨d0, et, rfl⟩ := List.exists_cons_of_ne_nil hedne
  have hd0 := hed d0 (by simp)
  have hd0p : ¬ (d0 = 43) := by unfold IsDig at hd0; omega
  have hd0m : ¬ (d0 = 45) := by unfold IsDig at hd0; omega
  have hle := lower_e ec hec
  have htw := takeWhile_digits_us (d0 :: et) hed
  have hnu := no_underscore (d0 :: et) hed
  have hcap := capfold_eq (d0 :: et) hed 0 0 (by decide) (by simpa using hed4)
  have htw' : List.takeWhile (fun c => GoStd.isDigit c || decide (c = ch '_')) (d0 :: et) = d0 :: et := by
    have := htw; simpa using this
  have hnu' : ch '_' ∉ (d0 :: et) := by
    have := hnu; simpa using this
  have h4543 : ¬ ((45 : Nat) = 43) := by decide
  unfold readFloat
  rcases hsg with rfl | rfl
  all_goals (
    simp only [List.cons_append, List.isEmpty_cons, Bool.false_eq_true, if_false, ch_plus, ch_minus, h4543, if_true,
      List.drop_one, List.tail_cons]
    simp only [List.cons_append] at R
    rcases tl with _ | ⟨b, tl2⟩
    · have hx : decide (c = 48 ∧ GoStd.lower ec = ch 'x') = false := by simp [hle.2]
      simp only [List.nil_append, expPart, List.cons_append] at R ⊢
      rcases hesg with rfl | rfl | rfl
      · simp only [List.nil_append] at R ⊢
        rf_exp_finish
      · simp only [List.cons_append, List.nil_append] at R ⊢
        rf_exp_finish
      · simp only [List.cons_append, List.nil_append] at R ⊢
        rf_exp_finish
    · have hb := lower_ne_x b (hall b (by simp))
      have hx : decide (c = 48 ∧ GoStd.lower b = ch 'x') = false := by simp [hb]
      simp only [expPart, List.cons_append] at R ⊢
      rcases tl2 with _ | ⟨b2, tl3⟩
      · simp only [List.nil_append] at R ⊢
        rcases hesg with rfl | rfl | rfl
        · simp only [List.nil_append] at R ⊢
          rf_exp_finish
        · simp only [List.cons_append, List.nil_append] at R ⊢
          rf_exp_finish
        · simp only [List.cons_append, List.nil_append] at R ⊢
          rf_exp_finish
      · simp only [List.cons_append] at R ⊢
        rcases hesg with rfl | rfl | rfl
        · simp only [List.nil_append] at R ⊢
          rf_exp_finish
        · simp only [List.cons_append, List.nil_append] at R ⊢
          rf_exp_finish
        · simp only [List.cons_append, List.nil_append] at R ⊢
          rf_exp_finish)


/-- the double both sides compute for sign · mant · 10^e10 -/
def expValue (neg : Bool) (mant : Nat) (e10 : Int) : FV :=
  if mant = 0 then .fin neg 0 0
  else if e10 ≥ 0 then ofRatParts neg (mant * 10 ^ e10.toNat) 1 else ofRatParts neg mant (10 ^ (-e10).toNat)

theorem rfValue_exp (neg : Bool) (mant frac n : Nat) (ex : Int) :
    rfValue ⟨neg, false, mant, frac, ex, n⟩ = expValue neg mant (ex - (frac : Int)) := by
  unfold rfValue expValue
  by_cases hm : mant = 0
  · simp [hm]
  · simp only [hm, if_false, Bool.false_eq_true]

theorem mvRound_exp (neg : Bool) (mant : Nat) (e10 : Int) (h1 : -400 ≤ e10) (h2 : e10 ≤ 400) :
    Spec.mvRound neg mant e10 = expValue neg mant e10 := by
  unfold Spec.mvRound expValue
  by_cases hm : mant = 0
  · simp [hm]
  · by_cases hp : e10 ≥ 0
    · have : ¬ (e10 > 400) := by omega
      simp only [hm, if_false, hp, if_true, this]
    · have h3 : ¬ ((-e10).toNat > (natDigits mant).length + 400) := by omega
      simp only [hm, if_false, hp, h3]


theorem expPart_plain (ec : Nat) (hec : ec = 101 ∨ ec = 69) (esg ed : List Nat)
    (hesg : esg = [] ∨ esg = [43] ∨ esg = [45]) (hed : ∀ x ∈ ed, IsDig x) :
    ∀ x ∈ expPart ec esg ed, Plain x ∧ x ≠ 120 ∧ x ≠ 88 ∧ x ≠ 46 := by
  intro x hx
  simp only [expPart, List.mem_cons, List.mem_append] at hx
  rcases hx with rfl | hx | hx
  · rcases hec with rfl | rfl <;> (unfold Plain; omega)
  · rcases hesg with rfl | rfl | rfl
    · cases hx
    · simp at hx; subst hx; unfold Plain; omega
    · simp at hx; subst hx; unfold Plain; omega
  · have := hed x hx; unfold IsDig at this; unfold Plain; omega

/-- strconv.ParseFloat on a signed decimal with a (≤ 4 digit) exponent -/
theorem goParseFloat_decimal_exp (sgn : List Nat) (hsg : sgn = [] ∨ sgn = [43] ∨ sgn = [45])
    (ip fp : List Nat) (dot : Bool) (hip : ∀ c ∈ ip, IsDig c) (hfp : ∀ c ∈ fp, IsDig c)
    (hne : ip ≠ [] ∨ fp ≠ []) (hdot : dot = false → fp = [])
    (ec : Nat) (hec : ec = 101 ∨ ec = 69) (esg ed : List Nat) (hesg : esg = [] ∨ esg = [43] ∨ esg = [45])
    (hed : ∀ x ∈ ed, IsDig x) (hedne : ed ≠ []) (hed4 : ed.length ≤ 4) :
    GoStd.parseFloat (sgn ++ (decBody ip fp dot ++ expPart ec esg ed))
      = some (expValue (decide (sgn = [45])) ((ip ++ fp).foldl (fun n c => n * 10 + (c - 48)) 0)
          (esignVal esg * ((ed.foldl (fun n c => n * 10 + (c - 48)) 0 : Nat) : Int) - (fp.length : Int))) ∧
    GoStd.special (sgn ++ (decBody ip fp dot ++ expPart ec esg ed)) = none := by
  have hall := decBody_all ip fp dot hip hfp
  obtain ⟨c, tl, hb⟩ := decBody_cons ip fp dot hne hdot
  have hR := fun i k => mloop_body_exp ip fp dot hip hfp hne hdot ec hec (esg ++ ed) i k
  rw [hb] at hall hR ⊢
  have hc := hall c (by simp)
  have hlen : ∀ (pre : List Nat), (pre ++ ((c :: tl) ++ expPart ec esg ed)).length + 1
      = (c :: tl).length + (pre.length + (expPart ec esg ed).length + 1) := by
    intro pre; simp only [List.length_append]; omega
  rcases hsg with rfl | rfl | rfl
  · have hrf := readFloat_unsigned_exp c tl hall ec hec esg ed hesg hed hedne hed4
      ((ip ++ fp).foldl (fun n c => n * 10 + (c - 48)) 0) fp.length
      (by
        have := hR 0 (([] : List Nat).length + (expPart ec esg ed).length + 1)
        rw [Nat.zero_add, ← hlen []] at this
        simpa [expPart] using this)
    refine ⟨?_, special_unsigned c _ hc⟩
    simp only [List.nil_append, GoStd.parseFloat, special_unsigned c _ hc, List.cons_append] at hrf ⊢
    rw [hrf]
    simp [rfValue_exp]
  · have hrf := readFloat_signed_exp 43 c tl (Or.inl rfl) hall ec hec esg ed hesg hed hedne hed4
      ((ip ++ fp).foldl (fun n c => n * 10 + (c - 48)) 0) fp.length
      (by
        have := hR 1 (([43] : List Nat).length + (expPart ec esg ed).length + 1)
        rw [← hlen [43], Nat.add_comm 1 (c :: tl).length] at this
        simpa [expPart] using this)
    refine ⟨?_, special_signed 43 c _ (Or.inl rfl) hc⟩
    simp only [List.cons_append, List.nil_append, GoStd.parseFloat, special_signed 43 c _ (Or.inl rfl) hc] at hrf ⊢
    rw [hrf]
    simp [rfValue_exp]
  · have hrf := readFloat_signed_exp 45 c tl (Or.inr rfl) hall ec hec esg ed hesg hed hedne hed4
      ((ip ++ fp).foldl (fun n c => n * 10 + (c - 48)) 0) fp.length
      (by
        have := hR 1 (([45] : List Nat).length + (expPart ec esg ed).length + 1)
        rw [← hlen [45], Nat.add_comm 1 (c :: tl).length] at this
        simpa [expPart] using this)
    refine ⟨?_, special_signed 45 c _ (Or.inr rfl) hc⟩
    simp only [List.cons_append, List.nil_append, GoStd.parseFloat, special_signed 45 c _ (Or.inr rfl) hc] at hrf ⊢
    rw [hrf]
    simp [rfValue_exp]


theorem strDecimalPrefix_decimal_exp (sgn : List Nat) (hsg : sgn = [] ∨ sgn = [43] ∨ sgn = [45])
    (ip fp : List Nat) (dot : Bool) (hip : ∀ c ∈ ip, IsDig c) (hfp : ∀ c ∈ fp, IsDig c)
    (hne : ip ≠ [] ∨ fp ≠ []) (hdot : dot = false → fp = [])
    (ec : Nat) (hec : ec = 101 ∨ ec = 69) (esg ed : List Nat) (hesg : esg = [] ∨ esg = [43] ∨ esg = [45])
    (hed : ∀ x ∈ ed, IsDig x) (hedne : ed ≠ [])
    (hlo : -400 ≤ esignVal esg * ((ed.foldl (fun n c => n * 10 + (c - 48)) 0 : Nat) : Int) - (fp.length : Int))
    (hhi : esignVal esg * ((ed.foldl (fun n c => n * 10 + (c - 48)) 0 : Nat) : Int) - (fp.length : Int) ≤ 400) :
    Spec.strDecimalPrefix (sgn ++ (decBody ip fp dot ++ expPart ec esg ed))
      = some (expValue (decide (sgn = [45])) ((ip ++ fp).foldl (fun n c => n * 10 + (c - 48)) 0)
          (esignVal esg * ((ed.foldl (fun n c => n * 10 + (c - 48)) 0 : Nat) : Int) - (fp.length : Int)), []) := by
  have hd := unsignedDecPrefix_gen ip fp dot hip hfp hne hdot (expPart ec esg ed) (tailOK_exp ec hec esg ed)
  rw [expStep_part ec hec esg ed hesg hed hedne] at hd
  have hall := decBody_all ip fp dot hip hfp
  obtain ⟨c, tl, hb⟩ := decBody_cons ip fp dot hne hdot
  have hc : DecBody c := hall c (by rw [hb]; simp)
  have hc43 : ¬ (c = 43) := by unfold DecBody IsDig at hc; omega
  have hc45 : ¬ (c = 45) := by unfold DecBody IsDig at hc; omega
  rcases hsg with rfl | rfl | rfl
  · simp only [List.nil_append]
    rw [hb, List.cons_append] at hd ⊢
    rw [strDecimalPrefix_nosign c _ hc43 hc45 _ hd]
    simp [mvRound_exp _ _ _ hlo hhi]
  · simp only [List.cons_append, List.nil_append]
    rw [strDecimalPrefix_plus _ _ hd]
    simp [mvRound_exp _ _ _ hlo hhi]
  · simp only [List.cons_append, List.nil_append]
    rw [strDecimalPrefix_minus _ _ hd]
    simp [mvRound_exp _ _ _ hlo hhi]

/-- C06.toNumber_string_sound (decimal literals WITH exponent part): every sign, digit strings ip/fp
    (not both empty), e/E, optional exponent sign, 1–4 exponent digits, total decimal exponent within
    ±400 (beyond which both sides saturate to 0/∞ — not covered here): parseNumber = §9.3.1. -/
theorem toNumber_decimal_exp_sound (sgn : List Nat) (hsg : sgn = [] ∨ sgn = [43] ∨ sgn = [45])
    (ip fp : List Nat) (dot : Bool) (hip : ∀ c ∈ ip, IsDig c) (hfp : ∀ c ∈ fp, IsDig c)
    (hne : ip ≠ [] ∨ fp ≠ []) (hdot : dot = false → fp = [])
    (ec : Nat) (hec : ec = 101 ∨ ec = 69) (esg ed : List Nat) (hesg : esg = [] ∨ esg = [43] ∨ esg = [45])
    (hed : ∀ x ∈ ed, IsDig x) (hedne : ed ≠ []) (hed4 : ed.length ≤ 4)
    (hlo : -400 ≤ esignVal esg * ((ed.foldl (fun n c => n * 10 + (c - 48)) 0 : Nat) : Int) - (fp.length : Int))
    (hhi : esignVal esg * ((ed.foldl (fun n c => n * 10 + (c - 48)) 0 : Nat) : Int) - (fp.length : Int) ≤ 400) :
    stringToNumber (sgn ++ (decBody ip fp dot ++ expPart ec esg ed))
      = Spec.stringToNumber (sgn ++ (decBody ip fp dot ++ expPart ec esg ed)) := by
  obtain ⟨hpf, hsp⟩ := goParseFloat_decimal_exp sgn hsg ip fp dot hip hfp hne hdot ec hec esg ed hesg hed hedne hed4
  have hspec := strDecimalPrefix_decimal_exp sgn hsg ip fp dot hip hfp hne hdot ec hec esg ed hesg hed hedne hlo hhi
  have hall := decBody_all ip fp dot hip hfp
  have hexp := expPart_plain ec hec esg ed hesg hed
  obtain ⟨c, tl, hb⟩ := decBody_cons ip fp dot hne hdot
  -- every character is plain and none is x / X
  have hchars : ∀ x ∈ sgn ++ (decBody ip fp dot ++ expPart ec esg ed), Plain x ∧ x ≠ 120 ∧ x ≠ 88 := by
    intro x hx
    rcases List.mem_append.mp hx with h | h
    · rcases hsg with rfl | rfl | rfl
      · cases h
      · simp at h; subst h; unfold Plain; omega
      · simp at h; subst h; unfold Plain; omega
    · rcases List.mem_append.mp h with h | h
      · have := hall x h
        refine ⟨decBody_plain x this, ?_, ?_⟩ <;> (unfold DecBody IsDig at this; omega)
      · exact ⟨(hexp x h).1, (hexp x h).2.1, (hexp x h).2.2.1⟩
  have hplain : ∀ x ∈ sgn ++ (decBody ip fp dot ++ expPart ec esg ed), Plain x := fun x hx => (hchars x hx).1
  have hnx : ∀ a b t, sgn ++ (decBody ip fp dot ++ expPart ec esg ed) = a :: b :: t → ¬ (b = 120 ∨ b = 88) := by
    intro a b t h
    have hbm : b ∈ sgn ++ (decBody ip fp dot ++ expPart ec esg ed) := by rw [h]; simp
    have := hchars b hbm
    omega
  have hne' : sgn ++ (decBody ip fp dot ++ expPart ec esg ed) ≠ [] := by rw [hb]; simp
  exact toNumber_sound_of _ hplain hne' hnx _ hspec hpf

/-- `toNumber_decimal_exp_sound` instance: "-1.5e+3" -/
example : [45] ++ (decBody [49] [53] true ++ expPart 101 [43] [51]) = OttoVerif.Str.ofString "-1.5e+3" := by decide +kernel
example : same (Spec.stringToNumber (OttoVerif.Str.ofString "-1.5e+3")) (decode 0xc097700000000000) = true := by decide +kernel

/-! ### parseFloat (§15.1.2.3) on whole decimal literals -/

/-- parseFloat after the Trim on a text with no StrDecimalLiteral prefix: NaN on both sides, for EVERY text -/
theorem parseFloat_nomatch (input : Str) (h : Spec.strDecimalPrefix input = none) :
    parseFloatBody input = Spec.parseFloatBody input := by
  simp [parseFloatBody, Spec.parseFloatBody, reDecRest_eq, h]

/-- parseFloat after the Trim on a text that is, as a whole, a StrDecimalLiteral of value x which
    strconv.ParseFloat reads as the same x -/
theorem parseFloat_whole (input : Str) (x : FV) (hsp : Spec.strDecimalPrefix input = some (x, []))
    (hpf : GoStd.parseFloat input = some x) :
    parseFloatBody input = Spec.parseFloatBody input := by
  simp [parseFloatBody, Spec.parseFloatBody, reDecRest_eq, hsp, hpf]

/-- C06.parseFloat_prefix (decimal literals without exponent, whole string): for every sign and digit
    strings as in `toNumber_decimal_sound` (overflow to ±Infinity included), otto's parseFloat (regexp
    prefix, strconv.ParseFloat) returns the §15.1.2.3 value. -/
theorem parseFloat_decimal_sound (sgn : List Nat) (hsg : sgn = [] ∨ sgn = [43] ∨ sgn = [45])
    (ip fp : List Nat) (dot : Bool) (hip : ∀ c ∈ ip, IsDig c) (hfp : ∀ c ∈ fp, IsDig c)
    (hne : ip ≠ [] ∨ fp ≠ []) (hdot : dot = false → fp = []) (hfl : fp.length ≤ 400) :
    C06.parseFloat (sgn ++ decBody ip fp dot) = Spec.parseFloat (sgn ++ decBody ip fp dot) := by
  obtain ⟨hpf, _⟩ := goParseFloat_decimal sgn hsg ip fp dot hip hfp hne hdot
  have hspec := strDecimalPrefix_decimal sgn hsg ip fp dot hip hfp hne hdot hfl
  have hall := decBody_all ip fp dot hip hfp
  have hplain : ∀ x ∈ sgn ++ decBody ip fp dot, Plain x := by
    intro x hx
    rcases List.mem_append.mp hx with h | h
    · rcases hsg with rfl | rfl | rfl
      · cases h
      · simp at h; subst h; unfold Plain; omega
      · simp at h; subst h; unfold Plain; omega
    · exact decBody_plain x (hall x h)
  have hstrip : Spec.stripLeft (Spec.runes (sgn ++ decBody ip fp dot)) = sgn ++ decBody ip fp dot := by
    rw [runes_plain _ hplain]; exact dropWhile_white_plain _ hplain
  simp only [C06.parseFloat, Spec.parseFloat, trim_plain _ hplain, hstrip]
  exact parseFloat_whole _ _ hspec hpf

/-- the same with an ExponentPart (1–4 exponent digits, total exponent within ±400) -/
theorem parseFloat_decimal_exp_sound (sgn : List Nat) (hsg : sgn = [] ∨ sgn = [43] ∨ sgn = [45])
    (ip fp : List Nat) (dot : Bool) (hip : ∀ c ∈ ip, IsDig c) (hfp : ∀ c ∈ fp, IsDig c)
    (hne : ip ≠ [] ∨ fp ≠ []) (hdot : dot = false → fp = [])
    (ec : Nat) (hec : ec = 101 ∨ ec = 69) (esg ed : List Nat) (hesg : esg = [] ∨ esg = [43] ∨ esg = [45])
    (hed : ∀ x ∈ ed, IsDig x) (hedne : ed ≠ []) (hed4 : ed.length ≤ 4)
    (hlo : -400 ≤ esignVal esg * ((ed.foldl (fun n c => n * 10 + (c - 48)) 0 : Nat) : Int) - (fp.length : Int))
    (hhi : esignVal esg * ((ed.foldl (fun n c => n * 10 + (c - 48)) 0 : Nat) : Int) - (fp.length : Int) ≤ 400) :
    C06.parseFloat (sgn ++ (decBody ip fp dot ++ expPart ec esg ed))
      = Spec.parseFloat (sgn ++ (decBody ip fp dot ++ expPart ec esg ed)) := by
  obtain ⟨hpf, _⟩ := goParseFloat_decimal_exp sgn hsg ip fp dot hip hfp hne hdot ec hec esg ed hesg hed hedne hed4
  have hspec := strDecimalPrefix_decimal_exp sgn hsg ip fp dot hip hfp hne hdot ec hec esg ed hesg hed hedne hlo hhi
  have hall := decBody_all ip fp dot hip hfp
  have hexp := expPart_plain ec hec esg ed hesg hed
  have hplain : ∀ x ∈ sgn ++ (decBody ip fp dot ++ expPart ec esg ed), Plain x := by
    intro x hx
    rcases List.mem_append.mp hx with h | h
    · rcases hsg with rfl | rfl | rfl
      · cases h
      · simp at h; subst h; unfold Plain; omega
      · simp at h; subst h; unfold Plain; omega
    · rcases List.mem_append.mp h with h | h
      · exact decBody_plain x (hall x h)
      · exact (hexp x h).1
  have hstrip : Spec.stripLeft (Spec.runes (sgn ++ (decBody ip fp dot ++ expPart ec esg ed)))
      = sgn ++ (decBody ip fp dot ++ expPart ec esg ed) := by
    rw [runes_plain _ hplain]; exact dropWhile_white_plain _ hplain
  simp only [C06.parseFloat, Spec.parseFloat, trim_plain _ hplain, hstrip]
  exact parseFloat_whole _ _ hspec hpf

/-- the shared Base model of parseNumber (used by the C05, C08, C09, C13, C15 drivers) is definitionally the
    C06 model, so every ToNumber theorem above is a theorem about `PN.parseNumber` -/
theorem pn_parseNumber_eq (s : Str) : OttoVerif.PN.parseNumber s = stringToNumber s := rfl

end ToNumber

/-- `toNumber_decimal_sound` instances: "-12.50", ".5", "007" -/
example : [45] ++ decBody [49, 50] [53, 48] true = OttoVerif.Str.ofString "-12.50" := by decide +kernel
example : same (Spec.stringToNumber (OttoVerif.Str.ofString "-12.50")) (decode 0xc029000000000000) = true := by decide +kernel
example : same (stringToNumber (OttoVerif.Str.ofString ".5")) (decode 0x3fe0000000000000) = true := by decide +kernel

/-! ## receivers of the Number.prototype methods; String of literals and of parseInt results -/

/-- §15.7.4: toString, toLocaleString, valueOf, toFixed, toExponential, toPrecision accept exactly Number and
    Number-object receivers (all of them go through `thisClassObject("Number")` since e68311c) -/
theorem numberMethodThis_eq (k : ThisKind) : numberMethodThis k = Spec.numberMethodThis k := by
  cases k <;> rfl

/-- an int64-kinded result of parseInt is at most 2^53 in magnitude (beyond, the Value is a float64) -/
theorem parseIntIsInt_bound (s : Bool) (m : Nat) (e : Int) (h : parseIntIsInt (.fin s m e) = true) :
    truncAbs m e ≤ 2 ^ 53 := by
  simp [parseIntIsInt] at h
  exact h.2

/-! ## object arguments: conversion count and order (§15.7.4.2/5/6/7 step order) -/

/-- otto's Value.float64() on an object is ToNumber(ToPrimitive(hint Number)): same result, same calls -/
theorem convert_eq (sc : Script) (st : CState) : convert sc st = Spec.toNumberObj sc st := by
  unfold convert Spec.toNumberObj
  cases pick sc.vs st.vi with
  | num x => rfl
  | throw => rfl
  | obj =>
    simp only
    cases pick sc.ss st.si <;> simp [List.append_assoc]

/-- what the primitive-argument theorems say about one method, receiver value and converted argument -/
def PrimAgree (L : Lib) (m : Meth) (x v : FV) : Prop :=
  match m with
  | .toFixed => toFixed L x (.num v) = Spec.toFixed x (.num v)
  | .toExponential => toExponential L x (.num v) = Spec.toExponential x (.num v)
  | .toPrecision => toPrecision L x (.num v) = Spec.toPrecision x (.num v)
  | .toString => some (numberToString L x (.num v)) = Spec.toStringRadix x (.num v)

/-- C06.argument_conversion: for every method, receiver (Number, Number object, anything else) and scripted
    object argument (any sequence of valueOf / toString results: numbers, objects, throws), otto converts the
    argument exactly as ES5 15.7.4.2/5/6/7 order it — same call log, same exception, same RangeError /
    TypeError precedence — and the result is the spec's whenever the method agrees on the converted number. -/
theorem callWithObject_eq (L : Lib) (m : Meth) (r : Recv) (sc : Script)
    (h : ∀ x v, r.value? = some x → (Spec.toNumberObj sc st0).1 = .val v → PrimAgree L m x v) :
    callWithObject L m r sc = Spec.callWithObject m r sc := by
  cases m with
  | toFixed =>
    simp only [callWithObject, Spec.callWithObject, convert_eq]
    cases hc : Spec.toNumberObj sc st0 with
    | mk c st =>
      cases c with
      | thrown => rfl
      | typeError => rfl
      | val v =>
        simp only [toInteger_eq, Spec.ltI, Spec.gtI, ofInt_zero]
        by_cases hr : lt (ofInt 20) (Spec.toInteger v) = true ∨ lt (Spec.toInteger v) zero = true
        · have hr' : lt (Spec.toInteger v) zero = true ∨ lt (ofInt 20) (Spec.toInteger v) = true := hr.symm
          simp only [hr, hr', if_true]
        · have hr' : ¬ (lt (Spec.toInteger v) zero = true ∨ lt (ofInt 20) (Spec.toInteger v) = true) := fun x => hr x.symm
          simp only [hr, hr', if_false]
          cases hv : r.value? with
          | none => rfl
          | some x =>
            have := h x v hv (by rw [hc])
            simp only [PrimAgree] at this
            simp only [this]
  | toExponential =>
    simp only [callWithObject, Spec.callWithObject, convert_eq]
    cases hv : r.value? with
    | none => rfl
    | some x =>
      cases hc : Spec.toNumberObj sc st0 with
      | mk c st =>
        cases c with
        | thrown => rfl
        | typeError => rfl
        | val v =>
          have := h x v hv (by rw [hc])
          simp only [PrimAgree] at this
          simp only [this]
  | toPrecision =>
    simp only [callWithObject, Spec.callWithObject, convert_eq]
    cases hv : r.value? with
    | none => rfl
    | some x =>
      cases hc : Spec.toNumberObj sc st0 with
      | mk c st =>
        cases c with
        | thrown => rfl
        | typeError => rfl
        | val v =>
          have := h x v hv (by rw [hc])
          simp only [PrimAgree] at this
          simp only [this]
  | toString =>
    simp only [callWithObject, Spec.callWithObject, convert_eq]
    cases hv : r.value? with
    | none => rfl
    | some x =>
      cases hc : Spec.toNumberObj sc st0 with
      | mk c st =>
        cases c with
        | thrown => rfl
        | typeError => rfl
        | val v =>
          have := h x v hv (by rw [hc])
          simp only [PrimAgree] at this
          simp only [← this]

/-- the argument is converted at most once: the call log is empty (receiver rejected first), "v" or "vs" -/
theorem converted_once (L : Lib) (m : Meth) (r : Recv) (sc : Script) :
    (callWithObject L m r sc).2 = [] ∨ (callWithObject L m r sc).2 = [118] ∨ (callWithObject L m r sc).2 = [118, 115] := by
  have hconv : (convert sc st0).2.log = [118] ∨ (convert sc st0).2.log = [118, 115] := by
    rw [convert_eq]
    unfold Spec.toNumberObj
    cases pick sc.vs st0.vi with
    | num x => left; rfl
    | throw => left; rfl
    | obj => right; simp only; cases pick sc.ss st0.si <;> rfl
  cases m <;> simp only [callWithObject]
  · cases hc : convert sc st0 with
    | mk c st =>
      rw [hc] at hconv
      cases c with
      | thrown => exact Or.inr hconv
      | typeError => exact Or.inr hconv
      | val v =>
        simp only
        split
        · exact Or.inr hconv
        · cases r.value? <;> exact Or.inr hconv
  all_goals (
    cases r.value? with
    | none => left; rfl
    | some x =>
      cases hc : convert sc st0 with
      | mk c st =>
        rw [hc] at hconv
        cases c <;> exact Or.inr hconv)


/-- instances: check-then-use script (valueOf answers 1, then 25) and a NaN receiver -/
example : callWithObject Spec.exactLib .toFixed (.num (decode 0x3fe0000000000000)) ⟨[.num (ofInt 1), .num (ofInt 25)], [.num (ofInt 2)]⟩
    = (.res (.str [48, 46, 53]), [118]) := by decide +kernel
example : (callWithObject Spec.exactLib .toExponential (.num .nan) ⟨[.throw], [.num (ofInt 2)]⟩).2 = [118] := by decide +kernel
example : (Spec.callWithObject .toPrecision (.num .nan) ⟨[.obj], [.num (ofInt 2)]⟩).2 = [118, 115] := by decide +kernel

/-! ## parseInt with object arguments: conversion order (§15.1.2.2 steps 1, 6) -/

/-- C06.parseInt_argument_order: for every string argument (primitive, object with a logging toString, object
    whose toString throws) and every scripted radix object, otto's parseInt performs ToString(string) first and
    ToInt32(radix) next and ALWAYS (also for a string without digits: ae747ea) — same call log and same
    exception as §15.1.2.2 steps 1 and 6 — and returns the spec's value whenever parseInt agrees on the
    converted primitives. -/
theorem parseIntWithObjects_eq (sa : StrArg) (sc : Script)
    (h : ∀ s v, (sa = .prim s ∨ sa = .obj s) → parseInt s (.num v) = Spec.parseInt s (.num v)) :
    parseIntWithObjects sa sc = Spec.parseIntWithObjects sa sc := by
  cases sa with
  | throws => rfl
  | prim s =>
    simp only [parseIntWithObjects, Spec.parseIntWithObjects, convert_eq]
    cases hc : Spec.toNumberObj sc ⟨0, 0, []⟩ with
    | mk c st =>
      cases c with
      | thrown => rfl
      | typeError => rfl
      | val v => simp only [h s v (Or.inl rfl)]
  | obj s =>
    simp only [parseIntWithObjects, Spec.parseIntWithObjects, convert_eq]
    cases hc : Spec.toNumberObj sc ⟨0, 0, [83]⟩ with
    | mk c st =>
      cases c with
      | thrown => rfl
      | typeError => rfl
      | val v => simp only [h s v (Or.inr rfl)]

/-- the radix is converted whatever the string is: unless ToString(string) throws, the log contains 'v' -/
theorem radix_always_converted (sa : StrArg) (sc : Script) (hs : sa ≠ .throws) :
    118 ∈ (parseIntWithObjects sa sc).2 := by
  have hlog : ∀ st : CState, 118 ∈ (convert sc st).2.log := by
    intro st
    rw [convert_eq]; unfold Spec.toNumberObj
    cases pick sc.vs st.vi with
    | num x => simp
    | throw => simp
    | obj => simp only; cases pick sc.ss st.si <;> simp
  cases sa with
  | throws => exact absurd rfl hs
  | prim s =>
    simp only [parseIntWithObjects]
    have := hlog ⟨0, 0, []⟩
    cases hc : convert sc ⟨0, 0, []⟩ with
    | mk c st => rw [hc] at this; cases c <;> exact this
  | obj s =>
    simp only [parseIntWithObjects]
    have := hlog ⟨0, 0, [83]⟩
    cases hc : convert sc ⟨0, 0, [83]⟩ with
    | mk c st => rw [hc] at this; cases c <;> exact this

example : parseIntWithObjects (.prim []) ⟨[.num (ofInt 10)], [.num (ofInt 2)]⟩ = (.num .nan, [118]) := by decide +kernel
example : (parseIntWithObjects (.obj [32]) ⟨[.throw], [.num (ofInt 2)]⟩).2 = [83, 118] := by decide +kernel


/-! ## non-vacuity of the layout theorem, witnesses of the remaining deviation regions, and the
    former regions (now model = spec) -/

def fv (b : UInt64) : FV := decode b
def L0 : Lib := Spec.exactLib
def bytes (s : String) : Str := OttoVerif.Str.ofString s

/-- the hypotheses of `toString_layout` hold for 1.5, 1e21, and the doubles next to the two thresholds -/
example : Spec.Dev.sideOK (fv 0x3ff8000000000000) (Spec.shortestDigits (2^52 + 2^51) (-52)).dp = true := by decide +kernel
example : (Spec.shortestDigits (2^52 + 2^51) (-52)) = ⟨[1, 5], 1⟩ := by decide +kernel
example : numToString L0 (fv 0x3ff8000000000000) = bytes "1.5" := by decide +kernel
example : numToString L0 (fv 0x444b1ae4d6e2ef50) = bytes "1e+21" := by decide +kernel
example : Spec.toStringNum (fv 0x0000000000000001) = bytes "5e-324" := by decide +kernel
example : Spec.toStringNum (fv 0x7fefffffffffffff) = bytes "1.7976931348623157e+308" := by decide +kernel
example : Spec.toStringNum (fv 0x3eb0c6f7a0b5ed8d) = bytes "0.000001" := by decide +kernel
/-- former Dev toString_threshold: the double below 1e21 and a double below 1e-6 -/
example : Spec.Dev.toStr (fv 0x444b1ae4d6e2ef4f) = [] := by decide +kernel
example : numToString L0 (fv 0x444b1ae4d6e2ef4f) = bytes "999999999999999900000" := by decide +kernel
example : Spec.toStringNum (fv 0x444b1ae4d6e2ef4f) = bytes "999999999999999900000" := by decide +kernel
example : numToString L0 (fv 0x3eb0c6f7a0b5ed8a) = Spec.toStringNum (fv 0x3eb0c6f7a0b5ed8a) := by decide +kernel
example : numToString L0 (fv 0x3eb0c6f7a0b5ed8d) = bytes "0.000001" := by decide +kernel

/-- former Dev toFixed_tie / toFixed_negzero -/
example : toFixed L0 (fv 0x3fe0000000000000) (.num (fv 0)) = .str (bytes "1") := by decide +kernel
example : Spec.toFixed (fv 0x3fe0000000000000) (.num (fv 0)) = .str (bytes "1") := by decide +kernel
example : toFixed L0 (fv 0x8000000000000000) (.num (fv 0x4000000000000000)) = .str (bytes "0.00") := by decide +kernel
example : Spec.toFixed (fv 0x8000000000000000) (.num (fv 0x4000000000000000)) = .str (bytes "0.00") := by decide +kernel

/-- Dev toExponential_exp2: (1).toExponential() -/
example : toExponential L0 (fv 0x3ff0000000000000) .undef = .str (bytes "1e+00") := by decide +kernel
example : Spec.toExponential (fv 0x3ff0000000000000) .undef = .str (bytes "1e+0") := by decide +kernel
/-- former Dev toExponential_inf: Infinity.toExponential(), (-Infinity).toExponential(800) -/
example : toExponential L0 (.inf false) .undef = .str (bytes "Infinity") := by decide +kernel
example : toExponential L0 (.inf true) (.num (fv 0x4089000000000000)) = .str (bytes "-Infinity") := by decide +kernel
/-- former Dev toExponential_negzero: (-0).toExponential(2) now differs only by the exponent padding -/
example : toExponential L0 (fv 0x8000000000000000) (.num (fv 0x4000000000000000)) = .str (bytes "0.00e+00") := by decide +kernel
example : Spec.toExponential (fv 0x8000000000000000) (.num (fv 0x4000000000000000)) = .str (bytes "0.00e+0") := by decide +kernel
/-- (1.5).toExponential(25) is a RangeError on both sides (fix 94625b0) -/
example : toExponential L0 (fv 0x3ff8000000000000) (.num (fv 0x4039000000000000)) = .rangeError := by decide +kernel
example : Spec.toExponential (fv 0x3ff8000000000000) (.num (fv 0x4039000000000000)) = .rangeError := by decide +kernel
/-- former Dev toExponential_tie: (2.5).toExponential(0), (1.125).toExponential(2), (105).toExponential(1)
    (only the exponent padding still differs) -/
example : toExponential L0 (fv 0x4004000000000000) (.num (fv 0)) = .str (bytes "3e+00") := by decide +kernel
example : Spec.toExponential (fv 0x4004000000000000) (.num (fv 0)) = .str (bytes "3e+0") := by decide +kernel
example : toExponential L0 (fv 0x3ff2000000000000) (.num (fv 0x4000000000000000)) = .str (bytes "1.13e+00") := by decide +kernel
example : toExponential L0 (fv 0x405a400000000000) (.num (fv 0x3ff0000000000000)) = .str (bytes "1.1e+02") := by decide +kernel
example : Spec.toExponential (fv 0x405a400000000000) (.num (fv 0x3ff0000000000000)) = .str (bytes "1.1e+2") := by decide +kernel

/-- Dev toPrecision_exp2: (123456).toPrecision(2) -/
example : toPrecision L0 (fv 0x40fe240000000000) (.num (fv 0x4000000000000000)) = .str (bytes "1.2e+05") := by decide +kernel
example : Spec.toPrecision (fv 0x40fe240000000000) (.num (fv 0x4000000000000000)) = .str (bytes "1.2e+5") := by decide +kernel
/-- former Dev toPrecision_inf / toPrecision_negzero -/
example : toPrecision L0 (.inf false) (.num (fv 0x4000000000000000)) = .str (bytes "Infinity") := by decide +kernel
example : toPrecision L0 (fv 0x8000000000000000) (.num (fv 0x3ff0000000000000)) = .str (bytes "0") := by decide +kernel
example : Spec.toPrecision (fv 0x8000000000000000) (.num (fv 0x3ff0000000000000)) = .str (bytes "0") := by decide +kernel
/-- (1.5).toPrecision(30) is a RangeError on both sides (fix 94625b0) -/
example : toPrecision L0 (fv 0x3ff8000000000000) (.num (fv 0x403e000000000000)) = .rangeError := by decide +kernel
example : Spec.toPrecision (fv 0x3ff8000000000000) (.num (fv 0x403e000000000000)) = .rangeError := by decide +kernel
/-- Dev toPrecision_small: (0.00001).toPrecision(1) -/
example : toPrecision L0 (fv 0x3ee4f8b588e368f1) (.num (fv 0x3ff0000000000000)) = .str (bytes "1e-05") := by decide +kernel
example : Spec.toPrecision (fv 0x3ee4f8b588e368f1) (.num (fv 0x3ff0000000000000)) = .str (bytes "0.00001") := by decide +kernel
/-- Dev toPrecision_tie: (2.5).toPrecision(1) -/
example : toPrecision L0 (fv 0x4004000000000000) (.num (fv 0x3ff0000000000000)) = .str (bytes "2") := by decide +kernel
example : Spec.toPrecision (fv 0x4004000000000000) (.num (fv 0x3ff0000000000000)) = .str (bytes "3") := by decide +kernel
/-- Dev toPrecision_zeros: (1).toPrecision(3) -/
example : toPrecision L0 (fv 0x3ff0000000000000) (.num (fv 0x4008000000000000)) = .str (bytes "1") := by decide +kernel
example : Spec.toPrecision (fv 0x3ff0000000000000) (.num (fv 0x4008000000000000)) = .str (bytes "1.00") := by decide +kernel

/-- former Dev radix_big: (1e21).toString(7) -/
example : numberToString L0 (fv 0x444b1ae4d6e2ef50) (.num (fv 0x401c000000000000)) = .str (bytes "5135235413265003022550266") := by decide +kernel
example : Spec.toStringRadix (fv 0x444b1ae4d6e2ef50) (.num (fv 0x401c000000000000)) = some (.str (bytes "5135235413265003022550266")) := by decide +kernel
/-- Dev radix_fraction: (0.5).toString(2) -/
example : numberToString L0 (fv 0x3fe0000000000000) (.num (fv 0x4000000000000000)) = .str (bytes "0") := by decide +kernel
example : Spec.toStringRadix (fv 0x3fe0000000000000) (.num (fv 0x4000000000000000)) = some (.str (bytes "0.1")) := by decide +kernel

/-- former Dev num_hex_big / num_hexfloat / num_inf_spelling / num_underscore -/
example : same (stringToNumber (bytes "0x8000000000000000")) (fv 0x43e0000000000000) = true := by decide +kernel
example : same (Spec.stringToNumber (bytes "0x8000000000000000")) (fv 0x43e0000000000000) = true := by decide +kernel
example : stringToNumber (bytes "0x1.8p1") = .nan ∧ Spec.stringToNumber (bytes "0x1.8p1") = .nan := by decide +kernel
example : stringToNumber (bytes "infinity") = .nan ∧ Spec.stringToNumber (bytes "infinity") = .nan := by decide +kernel
example : stringToNumber (bytes "1_000") = .nan ∧ Spec.stringToNumber (bytes "1_000") = .nan := by decide +kernel
example : stringToNumber (bytes " -Infinity ") = .inf true := by decide +kernel

/-- former Dev parseFloat_goext / parseFloat_inf / parseFloat_overflow -/
example : same (parseFloat (bytes "0x1p3")) zero = true ∧ same (Spec.parseFloat (bytes "0x1p3")) zero = true := by decide +kernel
example : same (parseFloat (bytes "1inf")) one = true ∧ same (Spec.parseFloat (bytes "1inf")) one = true := by decide +kernel
example : parseFloat (bytes "1e999") = .inf false ∧ Spec.parseFloat (bytes "1e999") = .inf false := by decide +kernel
example : parseFloat (bytes "INF") = .nan ∧ Spec.parseFloat (bytes "INF") = .nan := by decide +kernel

/-- former Dev parseInt_big / parseInt_negzero -/
example : same (parseInt (bytes "0x8000000000000401") .undef) (fv 0x43e0000000000001) = true := by decide +kernel
example : same (Spec.parseInt (bytes "0x8000000000000401") .undef) (fv 0x43e0000000000001) = true := by decide +kernel
example : same (parseInt (bytes "-0") .undef) negZero = true := by decide +kernel
example : same (Spec.parseInt (bytes "-0") .undef) negZero = true := by decide +kernel

/-- former Dev lit_hex_big / lit_octal_big: numeric literals of 2^63 and more -/
example : (literalValue (bytes "0x8000000000000401")).map encode = some 0x43e0000000000001 := by decide +kernel
example : (Spec.literalValue (bytes "0x8000000000000401")).map encode = some 0x43e0000000000001 := by decide +kernel
example : (literalValue (bytes "01000000000000000000000")).map encode = some 0x43e0000000000000 := by decide +kernel  -- 2^63
example : (Spec.literalValue (bytes "01000000000000000000000")).map encode = some 0x43e0000000000000 := by decide +kernel
example : (literalValue (bytes "1.5e3")).map encode = (Spec.literalValue (bytes "1.5e3")).map encode := by decide +kernel
example : literalValue (bytes "09") = none ∧ Spec.literalValue (bytes "09") = none := by decide +kernel

/-- former int_kind_tostring sources repaired at creation: the literal 9007199254740993 and parseInt of it -/
example : literalString L0 (bytes "9007199254740993") = some (bytes "9007199254740992") := by decide +kernel
example : Spec.literalString (bytes "9007199254740993") = some (bytes "9007199254740992") := by decide +kernel
example : literalString L0 (bytes "1000000000000000128") = some (bytes "1000000000000000100") := by decide +kernel
example : parseIntString L0 (bytes "9007199254740993") .undef = bytes "9007199254740992" := by decide +kernel
example : parseIntString L0 (bytes "-123") .undef = bytes "-123" := by decide +kernel
/-- Dev int_kind_tostring (now only Go integers handed to the VM): String of an int64-kinded 9007199254740993 -/
example : formatInt 9007199254740993 10 = bytes "9007199254740993" := by decide +kernel
example : Spec.toStringNum (ofInt 9007199254740993) = bytes "9007199254740992" := by decide +kernel

/-- round trip: Number(String(x)) on the model for a few values, including the threshold region -/
example : same (stringToNumber (numToString L0 (fv 0x444b1ae4d6e2ef4f))) (fv 0x444b1ae4d6e2ef4f) = true := by decide +kernel
example : same (stringToNumber (Spec.toStringNum (fv 0x0000000000000001))) (fv 0x0000000000000001) = true := by decide +kernel

end OttoVerif.C06.Thm
