/-  C06/Theorems — the ledger for property C06 (every theorem here is audited).  Placeholder. -/
namespace OttoVerif.C06.Thm
end OttoVerif.C06.Thm
