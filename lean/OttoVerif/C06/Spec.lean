/-
  C06/Spec — ES5.1 §9.8.1 (ToString on Numbers), §15.7.4.2/5/6/7 (toString(radix), toFixed,
  toExponential, toPrecision), §9.3.1 (ToNumber on Strings), §15.1.2.2/3 (parseInt, parseFloat),
  §7.8.3 + B.1.1 (numeric literals), written from the standard over exact integer arithmetic.
  Where ES5 leaves latitude the property text decides: shortest digits → the candidate closest to the
  value (§9.8.1 NOTE 2); text → number is the correctly rounded double (no 20-digit truncation);
  toString(radix) of an integral value is its exact positional expansion.
-/
import OttoVerif.C06.Model
import OttoVerif.C05.Spec
namespace OttoVerif.C06.Spec
open OttoVerif.F64 OttoVerif.C06

/-! ### exact decimal digits -/

/-- round half up (ties → larger) of a/b -/
def divRHU (a b : Nat) : Nat := (2 * a + b) / (2 * b)

/-- does the decimal `c · 10^sh` read back (correct rounding) as the double m·2^e ? -/
def readsBack (m : Nat) (e : Int) (c : Nat) (sh : Int) : Bool :=
  let (a, b) := scale10 c 1 sh
  canon (ofRatParts false a b) == canon (.fin false m e)

/-- §9.8.1 step 5 for a positive finite m·2^e: k minimal such that some k-digit s with
    s·10^(n-k) reads back; among those the s closest to the value (ties → even).
    Searches k = fuel-start … 17. -/
def shortestFrom (m : Nat) (e : Int) (num den : Nat) (p : Int) : Nat → Nat → Dec
  | 0, _ => ⟨natDigits m, 0⟩            -- unreachable for doubles: 17 digits always suffice
  | fuel + 1, k =>
    let (a, b) := scale10 num den ((k : Int) - p)
    let lo := a / b
    let hi := lo + 1
    let okLo := readsBack m e lo (p - k)
    let okHi := readsBack m e hi (p - k)
    let pick (c : Nat) : Dec := if c ≥ 10 ^ k then ⟨[1], p + 1⟩ else ⟨trimZeros (natDigits c), p⟩
    if a % b = 0 ∧ okLo then pick lo
    else if okLo ∧ okHi then
      -- closer of the two; 2·(a/b) vs 2·lo+1
      if 2 * a < (2 * lo + 1) * b then pick lo
      else if 2 * a > (2 * lo + 1) * b then pick hi
      else if lo % 2 = 0 then pick lo else pick hi
    else if okLo then pick lo
    else if okHi then pick hi
    else shortestFrom m e num den p fuel (k + 1)

def shortestDigits (m : Nat) (e : Int) : Dec :=
  let (num, den) := ratOf m e
  shortestFrom m e num den (decExp num den) 17 1

/-- the exact, executable instance of the digit-generation parameter -/
def exactLib : Lib := { shortest := shortestDigits, fixedSig := goFixedSig, fixedFrac := goFixedFrac }

/-- decimal representation of a natural number ("0" for 0) -/
def decimalStr (n : Nat) : Str := if n = 0 then [48] else (natDigits n).map digitCh

/-! ### §9.8.1 ToString applied to the Number type -/

/-- steps 6–10: layout from the digits `ds` (k = ds.length ≥ 1) and `n` -/
def layout981 (ds : List Nat) (n : Int) : Str :=
  let k : Int := ds.length
  let dd := ds.map digitCh
  if k ≤ n ∧ n ≤ 21 then dd ++ List.replicate (n - k).toNat 48                       -- 6
  else if 0 < n ∧ n ≤ 21 then dd.take n.toNat ++ 46 :: dd.drop n.toNat                -- 7
  else if -6 < n ∧ n ≤ 0 then 48 :: 46 :: (List.replicate (-n).toNat 48 ++ dd)        -- 8
  else
    let esign : Nat := if n - 1 < 0 then 45 else 43
    let ex := decimalStr (n - 1).natAbs
    match dd with
    | [d] => d :: 101 :: esign :: ex                                                    -- 9
    | d :: rest => d :: 46 :: (rest ++ 101 :: esign :: ex)                             -- 10
    | [] => []

def toStringNum (x : FV) : Str :=
  match x with
  | .nan => sNaN                                                 -- 1
  | .inf s => if s then sNegInfinity else sInfinity              -- 3, 4
  | .fin s m e =>
    if m = 0 then [48]                                           -- 2
    else
      let d := shortestDigits m e
      (if s then [45] else []) ++ layout981 d.ds d.dp            -- 3, 5–10

/-- ToNumber(ToString(x)): the identity on every double except that −0 prints as "0" (§9.8.1 step 2) -/
def roundTrip (x : FV) : FV := if isZero x then zero else x

/-! ### §15.7.4 -/

/-- §9.4 ToInteger on a Number -/
def toInteger (x : FV) : FV :=
  match x with
  | .nan => zero
  | .inf s => .inf s
  | .fin s m e => trunc (.fin s m e)

def argInt (a : Arg) : FV := toInteger a.toFloat

/-- exact comparison of a finite/infinite ToInteger result with a small integer -/
def ltI (x : FV) (i : Int) : Bool := lt x (ofInt i)
def gtI (x : FV) (i : Int) : Bool := lt (ofInt i) x

/-- the small integer value of an in-range ToInteger result -/
def intOf (x : FV) : Int := truncInt x

/-- lowercase digit characters of |i| in `radix` -/
def radixStr (n : Nat) (radix : Nat) : Str :=
  if n = 0 then [48] else radixDigitsAux radix (n.log2 + 1) n []

/-- §15.7.4.2 Number.prototype.toString(radix).  For radix ≠ 10 ES5 only says "generalisation of
    9.8.1"; for INTEGRAL values the property demands the exact expansion; for non-integral values
    and a power-of-two radix the exact (finite) expansion is the unique shortest one. Other cases
    are not specified here (`none`). -/
def fracRadixAux (radix : Nat) : Nat → Nat → Nat → Str
  | 0, _, _ => []
  | fuel + 1, num, den => if num = 0 then [] else
      let t := num * radix
      radixDigitCh (t / den) :: fracRadixAux radix fuel (t % den) den

def isPow2Radix (r : Nat) : Bool := r = 2 ∨ r = 4 ∨ r = 8 ∨ r = 16 ∨ r = 32

def toStringRadix (x : FV) (a : Arg) : Option Res :=
  let r := match a with | .undef => ofInt 10 | .num v => toInteger v
  if ltI r 2 ∨ gtI r 36 then some .rangeError
  else
    let radix := (intOf r).toNat
    if radix = 10 then some (.str (toStringNum x))
    else match x with
      | .nan => some (.str sNaN)
      | .inf s => some (.str (if s then sNegInfinity else sInfinity))
      | .fin s m e =>
        if m = 0 then some (.str [48])
        else
          let sign : Str := if s then [45] else []
          if isIntegral m e then some (.str (sign ++ radixStr (truncAbs m e) radix))
          else if isPow2Radix radix then
            let den := 2 ^ (-e).toNat
            some (.str (sign ++ radixStr (m / den) radix ++ 46 :: fracRadixAux radix 1100 (m % den) den))
          else none

/-- digits of n left-padded with zeros to at least `w` characters -/
def padLeft (w : Nat) (s : Str) : Str := List.replicate (w - s.length) 48 ++ s

/-- §15.7.4.5 toFixed, steps 3–9 for an in-range f -/
def fixedStr (x : FV) (f : Nat) : Str :=
  match x with
  | .nan => sNaN                                                        -- 4
  | .inf s => if s then sNegInfinity else sInfinity                     -- 7 (x ≥ 10^21)
  | .fin s m e =>
    let (num, den) := ratOf m e
    if num ≥ 10 ^ 21 * den then toStringNum x                           -- 7
    else
      let sign : Str := if s ∧ m ≠ 0 then [45] else []                  -- 6 (x < 0)
      let n := divRHU (num * 10 ^ f) den                                -- 8a
      let ms := decimalStr n                                            -- 8b
      if f = 0 then sign ++ ms
      else
        let ms := padLeft (f + 1) ms                                    -- 8c i
        let k := ms.length
        sign ++ ms.take (k - f) ++ 46 :: ms.drop (k - f)                -- 8c ii–iii

/-- §15.7.4.5 toFixed -/
def toFixed (x : FV) (a : Arg) : Res :=
  let f := argInt a                                                       -- 1
  if ltI f 0 ∨ gtI f 20 then .rangeError                                  -- 2
  else .str (fixedStr x (intOf f).toNat)

/-- n significant digits, ties → larger (§15.7.4.6 step 9a, §15.7.4.7 step 10a): (digits, e) -/
def sigRoundUp (m : Nat) (e : Int) (n : Nat) : List Nat × Int :=
  let (num, den) := ratOf m e
  let p := decExp num den
  let (a, b) := scale10 num den ((n : Int) - p)
  let r := divRHU a b
  if r ≥ 10 ^ n then (1 :: List.replicate (n - 1) 0, p) else (natDigits r, p - 1)

def expSuffix (e : Int) : Str :=
  101 :: (if e < 0 then 45 else 43) :: decimalStr e.natAbs

/-- §15.7.4.6 toExponential, steps 4–6, 8–13 for a finite value (f meaningful when a is defined) -/
def expStr (s : Bool) (m : Nat) (e : Int) (defined : Bool) (f : Nat) : Str :=
  let sign : Str := if s ∧ m ≠ 0 then [45] else []
  if m = 0 then                                                        -- 8
    let f := if defined then f else 0
    let ms : Str := List.replicate (f + 1) 48
    sign ++ (if f = 0 then ms else ms.take 1 ++ 46 :: ms.drop 1) ++ expSuffix 0
  else
    let (ds, ex) : List Nat × Int :=
      if defined then sigRoundUp m e (f + 1)                           -- 9a
      else let d := shortestDigits m e; (d.ds, d.dp - 1)               -- 9b
    let ms := ds.map digitCh
    sign ++ (if ds.length ≤ 1 then ms else ms.take 1 ++ 46 :: ms.drop 1) ++ expSuffix ex   -- 10–13

/-- §15.7.4.6 toExponential -/
def toExponential (x : FV) (a : Arg) : Res :=
  let f := argInt a                                                       -- 2
  match x with
  | .nan => .str sNaN                                                     -- 3
  | .inf s => .str (if s then sNegInfinity else sInfinity)                -- 5, 6
  | .fin s m e =>
    if a.isDefined ∧ (ltI f 0 ∨ gtI f 20) then .rangeError                -- 7
    else .str (expStr s m e a.isDefined (intOf f).toNat)

/-- §15.7.4.7 steps 10c–13: layout of the p-digit string `ms` with exponent `ex`
    (with the ES2015 erratum `p ≠ 1` in step 10.c.ii) -/
def precLayout (ms : Str) (ex : Int) (p : Nat) : Str :=
  if ex < -6 ∨ ex ≥ p then                                                -- 10c
    (if p = 1 then ms else ms.take 1 ++ 46 :: ms.drop 1) ++ expSuffix ex
  else if ex = (p : Int) - 1 then ms                                      -- 11
  else if ex ≥ 0 then ms.take (ex.toNat + 1) ++ 46 :: ms.drop (ex.toNat + 1)   -- 12
  else 48 :: 46 :: (List.replicate (-(ex + 1)).toNat 48 ++ ms)            -- 13

/-- §15.7.4.7 toPrecision steps 5, 9–14 for a finite value and in-range p -/
def precStr (s : Bool) (m : Nat) (e : Int) (p : Nat) : Str :=
  let sign : Str := if s ∧ m ≠ 0 then [45] else []
  let dx : List Nat × Int :=
    if m = 0 then (List.replicate p 0, 0) else sigRoundUp m e p           -- 9, 10a
  sign ++ precLayout (dx.1.map digitCh) dx.2 p

/-- §15.7.4.7 toPrecision -/
def toPrecision (x : FV) (a : Arg) : Res :=
  match a with
  | .undef => .str (toStringNum x)                                        -- 2
  | .num v =>
    let pI := toInteger v                                                 -- 3
    match x with
    | .nan => .str sNaN                                                   -- 4
    | .inf s => .str (if s then sNegInfinity else sInfinity)              -- 7
    | .fin s m e =>
      if ltI pI 1 ∨ gtI pI 21 then .rangeError                            -- 8
      else .str (precStr s m e (intOf pI).toNat)

/-! ### §9.3.1 ToNumber applied to the String type -/

def isDigit (c : Nat) : Bool := 48 ≤ c ∧ c ≤ 57
def isHexDigit (c : Nat) : Bool := isDigit c ∨ (97 ≤ c ∧ c ≤ 102) ∨ (65 ≤ c ∧ c ≤ 70)
def hexVal (c : Nat) : Nat := if isDigit c then c - 48 else if c ≥ 97 then c - 87 else c - 55

/-- WhiteSpace ∪ LineTerminator (§7.2, §7.3) as code points; Zs per the Unicode version current
    for ES5.1 (includes U+180E) -/
def isWhite (r : Nat) : Bool :=
  r = 0x9 ∨ r = 0xB ∨ r = 0xC ∨ r = 0x20 ∨ r = 0xA0 ∨ r = 0xFEFF ∨
  r = 0x1680 ∨ r = 0x180E ∨ (0x2000 ≤ r ∧ r ≤ 0x200A) ∨ r = 0x202F ∨ r = 0x205F ∨ r = 0x3000 ∨
  r = 0xA ∨ r = 0xD ∨ r = 0x2028 ∨ r = 0x2029

/-- the code points of a Go string (the harness only sends valid UTF-8) -/
def runes (s : Str) : List Nat := OttoVerif.Str.decodeRunes s

def stripLeft (rs : List Nat) : List Nat := rs.dropWhile isWhite
def stripBoth (rs : List Nat) : List Nat := ((stripLeft rs).reverse.dropWhile isWhite).reverse

def digitsVal (ds : List Nat) : Nat := ds.foldl (fun n c => n * 10 + (c - 48)) 0

/-- result of recognising a StrUnsignedDecimalLiteral prefix: mantissa digits value, scale (power of
    ten), and the unconsumed rest -/
structure DecLit where
  inf : Bool
  mant : Nat
  exp10 : Int
  rest : List Nat

/-- `. DecimalDigits_opt` after the integer digits: (fraction digits, rest).  A lone "." with no digit on
    either side is not consumed. -/
def fracStep (ipEmpty : Bool) (r1 : List Nat) : List Nat × List Nat :=
  match r1 with
  | c :: t =>
    if c = 46 then
      let fp := t.takeWhile isDigit
      if ipEmpty ∧ fp.isEmpty then ([], r1) else (fp, t.dropWhile isDigit)
    else ([], r1)
  | [] => ([], r1)

/-- SignedInteger of an ExponentPart: (sign, rest) -/
def expSign (t : List Nat) : Int × List Nat :=
  match t with
  | c :: u => if c = 43 then (1, u) else if c = 45 then (-1, u) else (1, t)
  | [] => (1, t)

/-- ExponentPart_opt: only taken when complete; (exponent, rest) -/
def expStep (r2 : List Nat) : Int × List Nat :=
  match r2 with
  | c :: t =>
    if c = 101 ∨ c = 69 then
      let ed := (expSign t).2.takeWhile isDigit
      if ed.isEmpty then (0, r2) else ((expSign t).1 * (digitsVal ed : Int), (expSign t).2.dropWhile isDigit)
    else (0, r2)
  | [] => (0, r2)

/-- longest prefix of `rs` that is a StrUnsignedDecimalLiteral (§9.3.1), if any -/
def unsignedDecPrefix (rs : List Nat) : Option DecLit :=
  if sInfinity.isPrefixOf rs then some ⟨true, 0, 0, rs.drop 8⟩ else
  let ip := rs.takeWhile isDigit
  let r1 := rs.dropWhile isDigit
  let fp := (fracStep ip.isEmpty r1).1
  let r2 := (fracStep ip.isEmpty r1).2
  if ip.isEmpty ∧ fp.isEmpty then none else
  some ⟨false, digitsVal (ip ++ fp), (expStep r2).1 - (fp.length : Int), (expStep r2).2⟩

/-- the Number value for a mathematical value mant·10^exp10 (correctly rounded; sign applied) -/
def mvRound (neg : Bool) (mant : Nat) (exp10 : Int) : FV :=
  if mant = 0 then .fin neg 0 0
  else if exp10 ≥ 0 then
    -- avoid astronomically large powers: anything ≥ 10^400 overflows
    if exp10 > 400 then .inf neg else ofRatParts neg (mant * 10 ^ exp10.toNat) 1
  else
    let k := (-exp10).toNat
    -- mant < 10^(digits); below 10^-400 everything rounds to zero
    if k > (natDigits mant).length + 400 then .fin neg 0 0 else ofRatParts neg mant (10 ^ k)

/-- longest StrDecimalLiteral prefix → (value, rest) -/
def strDecimalPrefix (rs : List Nat) : Option (FV × List Nat) :=
  let (neg, body) : Bool × List Nat := match rs with
    | 43 :: t => (false, t)
    | 45 :: t => (true, t)
    | _ => (false, rs)
  match unsignedDecPrefix body with
  | none => none
  | some d => some (if d.inf then .inf neg else mvRound neg d.mant d.exp10, d.rest)

def hexValNat (ds : List Nat) : Nat := ds.foldl (fun n c => n * 16 + hexVal c) 0

/-- HexIntegerLiteral ::: 0x HexDigit+ | 0X HexDigit+ (the whole text) -/
def isHexIntegerLiteral (rs : List Nat) : Bool :=
  match rs with
  | 48 :: x :: hs => (x = 120 ∨ x = 88) && !hs.isEmpty && hs.all isHexDigit
  | _ => false

/-- the text is a StrDecimalLiteral: its value; otherwise NaN -/
def decimalLiteralValue (rs : List Nat) : FV :=
  match strDecimalPrefix rs with
  | some (v, []) => v
  | _ => .nan

/-- §9.3.1 ToNumber(String) after StrWhiteSpace has been stripped on both sides: +0 for the empty text,
    the (correctly rounded) MV of a StrNumericLiteral, NaN for anything else -/
def stringToNumberBody (rs : List Nat) : FV :=
  if rs.isEmpty then zero
  else if isHexIntegerLiteral rs then ofInt (hexValNat (rs.drop 2))
  else decimalLiteralValue rs

/-- §9.3.1 ToNumber(String) -/
def stringToNumber (s : Str) : FV := stringToNumberBody (stripBoth (runes s))

/-- §15.1.2.3 parseFloat on the text with leading white space stripped -/
def parseFloatBody (rs : List Nat) : FV :=
  match strDecimalPrefix rs with
  | some (v, _) => v
  | none => .nan

/-- §15.1.2.3 parseFloat -/
def parseFloat (s : Str) : FV := parseFloatBody (stripLeft (runes s))

/-- §15.1.2.2 steps 3–5: the sign -/
def signOf (rs : List Nat) : Bool × List Nat :=
  match rs with
  | [] => (false, rs)
  | c :: t => if c = 45 then (true, t) else if c = 43 then (false, t) else (false, rs)

/-- §15.1.2.2 step 10: the optional 0x / 0X -/
def hexPrefix (strip : Bool) (rs : List Nat) (radix : Nat) : List Nat × Nat :=
  match rs with
  | a :: x :: t => if strip ∧ a = 48 ∧ (x = 120 ∨ x = 88) then (t, 16) else (rs, radix)
  | _ => (rs, radix)

/-- §15.1.2.2 parseInt steps 3–16 on the white-space-stripped input; `r` = ToInt32(radix).
    The result is the Number value for sign × mathInt (correctly rounded: `ofInt`). -/
def parseIntBody (rs : List Nat) (r : Int) : FV :=
  let neg := (signOf rs).1                                        -- 3–5
  let rs := (signOf rs).2
  if r ≠ 0 ∧ (r < 2 ∨ r > 36) then .nan else                      -- 8a
  let strip : Bool := r = 0 ∨ r = 16                              -- 7, 8b
  let radix : Nat := if r = 0 then 10 else r.toNat                -- 9
  let radix' := (hexPrefix strip rs radix).2                      -- 10
  let rs := (hexPrefix strip rs radix).1
  let z := rs.takeWhile (fun c => digitValue c < radix')          -- 11
  if z.isEmpty then .nan else                                     -- 12
  let mathInt := z.foldl (fun n c => n * radix' + digitValue c) 0 -- 13
  if mathInt = 0 then .fin neg 0 0                                -- 14–16 (sign × 0)
  else ofInt (if neg then -(mathInt : Int) else (mathInt : Int))

/-- §15.1.2.2 parseInt(string, radix) -/
def parseIntCore (s : Str) (r : Int) : FV := parseIntBody (stripLeft (runes s)) r

def parseInt (s : Str) (radixArg : Arg) : FV :=
  let r : Int := match radixArg with
    | .undef => 0
    | .num x => C05.Spec.toInt32 ⟨OttoVerif.PN.parseNumber⟩ (.f64 x)
  parseIntCore s r


/-! ### §7.8.3 Numeric Literals (+ B.1.1 legacy octal) -/

def isOctDigit (c : Nat) : Bool := 48 ≤ c ∧ c ≤ 55

/-- the value of a source text that is exactly one NumericLiteral; `none` if it is not one -/
def literalValue (s : Str) : Option FV :=
  let dec : Option FV :=
    if sInfinity.isPrefixOf s then none else
    let ip := s.takeWhile isDigit
    -- DecimalIntegerLiteral ::: 0 | NonZeroDigit DecimalDigits_opt
    if ip.length > 1 ∧ ip.head? = some 48 then none else
    match unsignedDecPrefix s with
    | some d => if d.rest.isEmpty then some (mvRound false d.mant d.exp10) else none
    | none => none
  match s with
  | 48 :: x :: hs =>
    if x = 120 ∨ x = 88 then
      (if !hs.isEmpty ∧ hs.all isHexDigit then some (ofRatParts false (hexValNat hs) 1) else none)
    else if (x :: hs).all isOctDigit then                                   -- B.1.1 OctalIntegerLiteral
      some (ofRatParts false ((x :: hs).foldl (fun n c => n * 8 + (c - 48)) 0) 1)
    else dec
  | _ => dec


/-- §15.7.4: the methods of Number.prototype throw a TypeError unless `this` is a Number or a Number object -/
def numberMethodThis (k : ThisKind) : Bool :=
  match k with
  | .num => true
  | .numObj => true
  | _ => false

/-- ToString of the value of a numeric literal / of parseInt's result -/
def literalString (s : Str) : Option Str := (literalValue s).map toStringNum
def parseIntString (s : Str) (a : Arg) : Str := toStringNum (parseInt s a)


/-! ### object arguments of toString(radix) / toFixed / toExponential / toPrecision: ES5 step order -/

/-- §9.3 ToNumber of an object = ToNumber(ToPrimitive(hint Number)) (§8.12.8: valueOf, then toString,
    TypeError if neither returns a primitive) -/
def toNumberObj (sc : Script) (st : CState) : Conv × CState :=
  match pick sc.vs st.vi with
  | .num x => (.val x, { st with vi := st.vi + 1, log := st.log ++ [118] })
  | .throw => (.thrown, { st with vi := st.vi + 1, log := st.log ++ [118] })
  | .obj =>
    match pick sc.ss st.si with
    | .num x => (.val x, { vi := st.vi + 1, si := st.si + 1, log := st.log ++ [118, 115] })
    | .throw => (.thrown, { vi := st.vi + 1, si := st.si + 1, log := st.log ++ [118, 115] })
    | .obj => (.typeError, { vi := st.vi + 1, si := st.si + 1, log := st.log ++ [118, 115] })

/-- the four methods with an object argument, step by step:
    §15.7.4.5 toFixed: 1 ToInteger(fractionDigits), 2 RangeError, 3 this Number value (TypeError), …
    §15.7.4.6 toExponential: 1 this Number value, 2 ToInteger(fractionDigits), 3–6 NaN / Infinity, 7 RangeError, …
    §15.7.4.7 toPrecision: 1 this Number value, (2 undefined), 3 ToInteger(precision), 4–7 NaN / Infinity, 8 RangeError, …
    §15.7.4.2 toString: this Number value (TypeError: not generic), then ToInteger(radix), RangeError, …
    Every conversion happens exactly once. -/
def callWithObject (m : Meth) (r : Recv) (sc : Script) : Out × Str :=
  match m with
  | .toFixed =>
    match toNumberObj sc st0 with
    | (.val v, st) =>
      if ltI (toInteger v) 0 ∨ gtI (toInteger v) 20 then (.res .rangeError, st.log)
      else (match r.value? with
        | some x => (.res (toFixed x (.num v)), st.log)
        | none => (.typeError, st.log))
    | (.thrown, st) => (.thrown, st.log)
    | (.typeError, st) => (.typeError, st.log)
  | .toExponential =>
    match r.value? with
    | none => (.typeError, [])
    | some x =>
      match toNumberObj sc st0 with
      | (.val v, st) => (.res (toExponential x (.num v)), st.log)
      | (.thrown, st) => (.thrown, st.log)
      | (.typeError, st) => (.typeError, st.log)
  | .toPrecision =>
    match r.value? with
    | none => (.typeError, [])
    | some x =>
      match toNumberObj sc st0 with
      | (.val v, st) => (.res (toPrecision x (.num v)), st.log)
      | (.thrown, st) => (.thrown, st.log)
      | (.typeError, st) => (.typeError, st.log)
  | .toString =>
    match r.value? with
    | none => (.typeError, [])
    | some x =>
      match toNumberObj sc st0 with
      | (.val v, st) =>
        (match toStringRadix x (.num v) with
         | some res => (.res res, st.log)
         | none => (.res (.str []), st.log))        -- unspecified (non-integral value, radix not a power of two): not generated
      | (.thrown, st) => (.thrown, st.log)
      | (.typeError, st) => (.typeError, st.log)


/-- §15.1.2.2 with object arguments: step 1 ToString(string) (toString of the object; an exception ends the
    call), step 6 ToInt32(radix) = ToInt32(ToNumber(radix)) — for EVERY string, also one without digits —
    then steps 2–5, 7–16 on the string -/
def parseIntWithObjects (sa : StrArg) (sc : Script) : POut × Str :=
  match sa with
  | .throws => (.thrown, [83])
  | .prim s =>
    (match toNumberObj sc ⟨0, 0, []⟩ with
     | (.val v, st) => (.num (parseInt s (.num v)), st.log)
     | (.thrown, st) => (.thrown, st.log)
     | (.typeError, st) => (.typeError, st.log))
  | .obj s =>
    (match toNumberObj sc ⟨0, 0, [83]⟩ with
     | (.val v, st) => (.num (parseInt s (.num v)), st.log)
     | (.thrown, st) => (.thrown, st.log)
     | (.typeError, st) => (.typeError, st.log))

/-! ### deviation regions: decidable predicates over the REQUEST (never model ≠ spec) -/
namespace Dev

/-- otto's exponential/fixed decision `|x| >= 1e21 || |x| < 1e-6` agrees with §9.8.1's `n > 21 ∨ n ≤ -6`
    for the digits `(…, n)` generated for x (a consistency condition between a value and its digits) -/
def sideOK (x : FV) (n : Int) : Bool :=
  (le f1e21 (abs x) || lt (abs x) f1em6) == decide (n > 21 ∨ n ≤ -6)

/-- the hypotheses the layout theorems make about generated digits (`Thm.WFDec`, `sideOK`), as a Bool:
    checked on every sample; a failure would show up as the unlisted region `digits_wf` -/
def wfDec (d : Dec) : Bool :=
  !d.ds.isEmpty && d.ds.all (· < 10) && decide (-999 < d.dp ∧ d.dp < 1000)

def toStr (x : FV) : List String :=
  match x with
  | .fin _ m e =>
    if m = 0 then [] else
    (if !wfDec (shortestDigits m e) ∨ !sideOK x (shortestDigits m e).dp then ["digits_wf"] else [])
  | _ => []

/-- a/b lies exactly half way between two integers -/
def isTie (a b : Nat) : Bool := 2 * (a % b) = b

def fixed (x : FV) (a : Arg) : List String :=
  let f := argInt a
  if ltI f 0 ∨ gtI f 20 then [] else
  match x with
  | .fin _ m e =>
    let (num, den) := ratOf m e
    (if le f1e21 (abs x) != decide (num ≥ 10 ^ 21 * den) then ["f64_le_mismatch"] else []) ++
    (if num ≥ 10 ^ 21 * den then toStr x else [])
  | _ => []

/-- is the n-significant-digit rounding of m·2^e an exact tie? -/
def sigTie (m : Nat) (e : Int) (n : Nat) : Bool :=
  let (num, den) := ratOf m e
  let (a, b) := scale10 num den ((n : Int) - decExp num den)
  isTie a b

/-- ⌊x·10^(n−p)⌋ has exactly n digits (p = decExp): hypothesis `hq` of Thm.toExponential_full -/
def scaledInRange (m : Nat) (e : Int) (n : Nat) : Bool :=
  let (num, den) := ratOf m e
  let (a, b) := scale10 num den ((n : Int) - decExp num den)
  decide (0 < a / b ∧ a / b < 10 ^ n)

def exp (x : FV) (a : Arg) : List String :=
  let f := argInt a
  match x with
  | .fin _ m e =>
    if a.isDefined ∧ (ltI f 0 ∨ gtI f 20) then []
    else
      let ex : Int :=
        if m = 0 then 0
        else if a.isDefined then (sigRoundUp m e ((intOf f).toNat + 1)).2
        else (shortestDigits m e).dp - 1
      (if m ≠ 0 ∧ a.isDefined ∧ (sigRoundUp m e ((intOf f).toNat + 1)).1.length ≠ (intOf f).toNat + 1 then ["digits_wf"] else []) ++
      (if m ≠ 0 ∧ a.isDefined ∧ !scaledInRange m e ((intOf f).toNat + 1) then ["digits_wf"] else []) ++
      (if m ≠ 0 ∧ !a.isDefined ∧ !wfDec (shortestDigits m e) then ["digits_wf"] else []) ++
      (if ex.natAbs < 10 then ["toExponential_exp2"] else [])
  | _ => []

def prec (x : FV) (a : Arg) : List String :=
  match a with
  | .undef => toStr x
  | .num v =>
    let pI := toInteger v
    match x with
    | .fin _ m e =>
      if ltI pI 1 ∨ gtI pI 21 then []
      else
        let p := (intOf pI).toNat
        let (ds, ex) : List Nat × Int := if m = 0 then (List.replicate p 0, 0) else sigRoundUp m e p
        (if ds.length ≠ p then ["digits_wf"] else []) ++
        (if p > 1 ∧ ds.getLast? = some 0 then ["toPrecision_zeros"] else []) ++
        (if (ex < -6 ∨ ex ≥ p) ∧ ex.natAbs < 10 then ["toPrecision_exp2"] else []) ++
        (if ex = -5 ∨ ex = -6 then ["toPrecision_small"] else []) ++
        (if m ≠ 0 ∧ sigTie m e p then ["toPrecision_tie"] else [])
    | _ => []

def radix (x : FV) (a : Arg) : List String :=
  let r := match a with | .undef => ofInt 10 | .num v => toInteger v
  if ltI r 2 ∨ gtI r 36 then []
  else if intOf r = 10 then toStr x
  else match x with
    | .fin _ m e =>
      if m = 0 then []
      else if !isIntegral m e then ["radix_fraction"]
      else []
    | _ => []

/-- the radix argument of parseInt goes through ToInt32, whose deviation for |x| ≥ 2^63 is C05's -/
def pint (a : Arg) : List String :=
  match a with
  | .undef => []
  | .num x =>
    let t := truncInt x
    if -(2 ^ 63 : Int) ≤ t ∧ t < 2 ^ 63 then [] else ["toInt_big"]

/-- object argument: the regions of the underlying method on the converted value -/
def argobj (m : Meth) (r : Recv) (sc : Script) : List String :=
  match r.value?, (toNumberObj sc st0).1 with
  | some x, .val v =>
    (match m with
     | .toFixed => fixed x (.num v)
     | .toExponential => exp x (.num v)
     | .toPrecision => prec x (.num v)
     | .toString => radix x (.num v))
  | _, _ => []

/-- ToString of an integer-kinded number Value -/
def istr (i : Int) : List String := if i.natAbs > 2 ^ 53 then ["int_kind_tostring"] else []

end Dev

end OttoVerif.C06.Spec
