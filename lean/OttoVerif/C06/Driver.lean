/-
  C06/Driver — line protocol front end (core-only).
  request:  <op> <args…>      reply:  <model> <spec> <dev>
    tostr  X L          String(x)               X = double bits (L = bits of math.Log10(|x|): no longer read by the code, ignored)
    fixed  X L A        x.toFixed(a)            A = `u` (undefined) or double bits
    exp    X A          x.toExponential(a)
    prec   X L A        x.toPrecision(a)
    radix  X L A        x.toString(a)
    num    S            Number(s)               S = s:<hex of UTF-8 bytes>
    pint   S A          parseInt(s, a)
    pfloat S            parseFloat(s)
    lit    S            the program text S when it is exactly one numeric literal (else `other`)
    istr   I            String(i) for an int64-kinded number Value i (decimal)
    litstr S            String(<numeric literal S>) (else `other`)
    pintstr S A         String(parseInt(s, a))
    pintobj SA V S      parseInt(<string arg SA: p:hex primitive | o:hex object with logging toString | T throwing>, <scripted radix object>): value|call log
    argobj M R V S      Number.prototype.M.call(R, obj): obj = scripted valueOf (V) / toString (S); reply = result|call log
    nthis  M K          Number.prototype.M.call(<a this value of kind K>): `ok` or throw:TypeError
    rt     X L          Number(String(x))
-/
import OttoVerif.Base.Proto
import OttoVerif.C06.Spec
namespace OttoVerif.C06.Driver
open OttoVerif.F64 OttoVerif.Proto OttoVerif.C06

def arg? (t : String) : Option Arg :=
  if t = "u" then some .undef else (f64? t).map .num

def str? (t : String) : Option Str :=
  match t.splitOn ":" with
  | ["s", h] => bytes? h
  | _ => none

def resOut : Res → String
  | .str s => "s:" ++ bytesOut s
  | .num x => f64Out x
  | .rangeError => "throw:RangeError"
  | .syntaxError => "throw:SyntaxError"

def optOut : Option FV → String
  | some x => f64Out x
  | none => "other"

def optStr : Option Str → String
  | some x => "s:" ++ bytesOut x
  | none => "other"

def thisOut (ok : Bool) : String := if ok then "ok" else "throw:TypeError"

def kind? : String → Option ThisKind
  | "undef" => some .undef | "null" => some .null | "bool" => some .bool | "str" => some .str | "num" => some .num
  | "obj" => some .obj | "arr" => some .arr | "fn" => some .fn | "date" => some .date | "numObj" => some .numObj
  | "strObj" => some .strObj | "boolObj" => some .boolObj | "protoChild" => some .protoChild | _ => none

def meth? : String → Option Meth
  | "toFixed" => some .toFixed | "toExponential" => some .toExponential | "toPrecision" => some .toPrecision
  | "toString" => some .toString | _ => none

def recv? (t : String) : Option Recv :=
  if t = "x" then some .other
  else match t.splitOn ":" with
    | ["p", h] => (f64? h).map .num
    | ["N", h] => (f64? h).map .numObj
    | _ => none

def item? (t : String) : Option Item :=
  if t = "o" then some .obj else if t = "T" then some .throw else (f64? t).map .num

def items? (t : String) : Option (List Item) :=
  let parts := t.splitOn ","
  if parts.isEmpty then none else parts.mapM item?

def outOut (o : Out × Str) : String :=
  (match o.1 with
   | .res r => resOut r
   | .typeError => "throw:TypeError"
   | .thrown => "throw:SyntaxError") ++ "|" ++ (if o.2.isEmpty then "-" else String.ofList (o.2.map Char.ofNat))

def strArg? (t : String) : Option StrArg :=
  if t = "T" then some .throws
  else match t.splitOn ":" with
    | ["p", h] => (bytes? h).map .prim
    | ["o", h] => (bytes? h).map .obj
    | _ => none

def poutOut (o : POut × Str) : String :=
  (match o.1 with
   | .num x => f64Out x
   | .typeError => "throw:TypeError"
   | .thrown => "throw:SyntaxError") ++ "|" ++ (if o.2.isEmpty then "-" else String.ofList (o.2.map Char.ofNat))

def devOut (ds : List String) : String :=
  if ds.isEmpty then "-" else ",".intercalate ds

def reply (m s : String) (dev : List String) : String := m ++ " " ++ s ++ " " ++ devOut dev

def L : Lib := Spec.exactLib

def handle (ws : List String) : String :=
  match ws with
  | ["tostr", x, l] => match f64? x, f64? l with
    | some x, some _ =>
      reply (resOut (.str (numToString L x))) (resOut (.str (Spec.toStringNum x))) (Spec.Dev.toStr x)
    | _, _ => "bad-op"
  | ["fixed", x, l, a] => match f64? x, f64? l, arg? a with
    | some x, some _, some a =>
      reply (resOut (toFixed L x a)) (resOut (Spec.toFixed x a)) (Spec.Dev.fixed x a)
    | _, _, _ => "bad-op"
  | ["exp", x, a] => match f64? x, arg? a with
    | some x, some a =>
      reply (resOut (toExponential L x a)) (resOut (Spec.toExponential x a)) (Spec.Dev.exp x a)
    | _, _ => "bad-op"
  | ["prec", x, l, a] => match f64? x, f64? l, arg? a with
    | some x, some _, some a =>
      reply (resOut (toPrecision L x a)) (resOut (Spec.toPrecision x a)) (Spec.Dev.prec x a)
    | _, _, _ => "bad-op"
  | ["radix", x, l, a] => match f64? x, f64? l, arg? a with
    | some x, some _, some a =>
      match Spec.toStringRadix x a with
      | some s => reply (resOut (numberToString L x a)) (resOut s) (Spec.Dev.radix x a)
      | none => "bad-op"
    | _, _, _ => "bad-op"
  | ["num", s] => match str? s with
    | some s => reply (f64Out (stringToNumber s)) (f64Out (Spec.stringToNumber s)) []
    | none => "bad-op"
  | ["pint", s, a] => match str? s, arg? a with
    | some s, some a => reply (f64Out (parseInt s a)) (f64Out (Spec.parseInt s a)) (Spec.Dev.pint a)
    | _, _ => "bad-op"
  | ["pfloat", s] => match str? s with
    | some s => reply (f64Out (parseFloat s)) (f64Out (Spec.parseFloat s)) []
    | none => "bad-op"
  | ["lit", s] => match str? s with
    | some s => reply (optOut (literalValue s)) (optOut (Spec.literalValue s)) []
    | none => "bad-op"
  | ["litstr", s] => match str? s with
    | some s => reply (optStr (literalString L s)) (optStr (Spec.literalString s)) []
    | none => "bad-op"
  | ["pintstr", s, a] => match str? s, arg? a with
    | some s, some a => reply (resOut (.str (parseIntString L s a))) (resOut (.str (Spec.parseIntString s a))) (Spec.Dev.pint a)
    | _, _ => "bad-op"
  | ["nthis", _m, k] => match kind? k with
    | some k => reply (thisOut (numberMethodThis k)) (thisOut (Spec.numberMethodThis k)) []
    | none => "bad-op"
  | ["pintobj", sa, v, sv] => match strArg? sa, items? v, items? sv with
    | some sa, some vs, some ss =>
      let sc : Script := ⟨vs, ss⟩
      let dev : List String := match (Spec.toNumberObj sc st0).1 with | .val x => Spec.Dev.pint (.num x) | _ => []
      reply (poutOut (parseIntWithObjects sa sc)) (poutOut (Spec.parseIntWithObjects sa sc)) dev
    | _, _, _ => "bad-op"
  | ["argobj", m, r, v, sv] => match meth? m, recv? r, items? v, items? sv with
    | some m, some r, some vs, some ss =>
      let sc : Script := ⟨vs, ss⟩
      -- toString(radix) of a non-integral value is specified here only for power-of-two radixes
      let unspecified : Bool := match m, r.value?, (Spec.toNumberObj sc st0).1 with
        | .toString, some x, .val a => (Spec.toStringRadix x (.num a)).isNone
        | _, _, _ => false
      if unspecified then "bad-op"
      else reply (outOut (callWithObject L m r sc)) (outOut (Spec.callWithObject m r sc)) (Spec.Dev.argobj m r sc)
    | _, _, _, _ => "bad-op"
  | ["istr", i] => match int? i with
    | some i => reply (resOut (.str (formatInt i 10))) (resOut (.str (Spec.toStringNum (ofInt i)))) (Spec.Dev.istr i)
    | none => "bad-op"
  | ["rt", x, l] => match f64? x, f64? l with
    | some x, some _ => reply (f64Out (stringToNumber (numToString L x))) (f64Out (Spec.roundTrip x)) []
    | _, _ => "bad-op"
  | _ => "bad-op"

end OttoVerif.C06.Driver
