/-
  C16/Lemmas — helper lemmas for the C16 ledger (exactness of Go's int64→float64 conversion on
  integers that are already doubles, comparison of equal-valued doubles).
-/
import OttoVerif.C16.Spec
namespace OttoVerif.C16.Lem
open OttoVerif.F64 OttoVerif.C16

theorem log2_one : Nat.log2 1 = 0 := by decide

theorem divRNE_exact (q b : Nat) (hb : 0 < b) : divRNE (q * b) b = q := by
  unfold divRNE
  have h1 : q * b / b = q := Nat.mul_div_cancel q hb
  have h2 : q * b % b = 0 := Nat.mul_mod_left q b
  simp [h1, h2, hb]

/-- rounding an integer that already has exactly 53 significant bits is exact -/
theorem roundPos_exact (q k : Nat) (hq1 : 2^52 ≤ q) (hq2 : q < 2^53) (hk : k ≤ 971) :
    roundPos (q * 2^k) 1 = some (q, (k : Int)) := by
  have hpos : q * 2^k ≠ 0 := by
    have : 0 < 2^k := Nat.two_pow_pos k
    have : 0 < q := by omega
    exact Nat.ne_of_gt (Nat.mul_pos ‹0 < q› ‹0 < 2^k›)
  have hl : Nat.log2 (q * 2^k) = k + 52 := by
    rw [Nat.log2_eq_iff hpos]
    constructor
    · calc 2^(k+52) = 2^52 * 2^k := by rw [Nat.pow_add, Nat.mul_comm]
        _ ≤ q * 2^k := Nat.mul_le_mul_right _ hq1
    · calc q * 2^k < 2^53 * 2^k := Nat.mul_lt_mul_of_pos_right hq2 (Nat.two_pow_pos k)
        _ = 2^(k+52+1) := by rw [← Nat.pow_add]; congr 1; omega
  unfold roundPos
  simp only [hl, log2_one]
  have e0 : ((k + 52 : Nat) : Int) - ((0 : Nat) : Int) - 52 = (k : Int) := by omega
  simp only [e0]
  have hk0 : (k : Int) ≥ 0 := by omega
  have hnlt : ¬ (q * 2^k < 2^k * 4503599627370496) := by
    have : 2^k * 4503599627370496 = 2^52 * 2^k := by rw [Nat.mul_comm]
    rw [this]; exact Nat.not_lt.mpr (Nat.mul_le_mul_right _ hq1)
  have hk1 : ¬ ((k : Int) < -1074) := by omega
  have hq3 : ¬ (q = 9007199254740992) := by omega
  have hk2 : ¬ ((k : Int) > 971) := by omega
  simp [hk0, hnlt, hk1, hq3, hk2, divRNE_exact q (2^k) (Nat.two_pow_pos k)]

/-- every integer m·2^e ≥ 2^53 with m < 2^53 normalises to q·2^k with 2^52 ≤ q < 2^53 -/
theorem normalise (m e : Nat) (hm : m < 2^53) (hbig : 2^53 ≤ m * 2^e) :
    ∃ q k, k ≤ e ∧ 1 ≤ k ∧ 2^52 ≤ q ∧ q < 2^53 ∧ q * 2^k = m * 2^e ∧ q = m * 2^(e - k) := by
  have hpos : m * 2^e ≠ 0 := by
    have : 0 < 2^53 := Nat.two_pow_pos 53
    omega
  have h1 : 2 ^ (m * 2^e).log2 ≤ m * 2^e := Nat.log2_self_le hpos
  have h2 : m * 2^e < 2 ^ ((m * 2^e).log2 + 1) := Nat.lt_log2_self
  have hl53 : 53 ≤ (m * 2^e).log2 := by
    apply Nat.le_of_not_lt
    intro h
    have := (Nat.log2_lt hpos).mp h
    omega
  have hle : (m * 2^e).log2 < 53 + e := by
    rw [Nat.log2_lt hpos]
    calc m * 2^e < 2^53 * 2^e := Nat.mul_lt_mul_of_pos_right hm (Nat.two_pow_pos e)
      _ = 2^(53+e) := by rw [← Nat.pow_add]
  generalize hL : (m * 2^e).log2 = l at *
  refine ⟨m * 2^(e - (l - 52)), l - 52, by omega, by omega, ?_, ?_, ?_, rfl⟩
  · -- 2^52 ≤ q
    have he : 2^e = 2^(e - (l - 52)) * 2^(l - 52) := by rw [← Nat.pow_add]; congr 1; omega
    have hl' : 2^l = 2^52 * 2^(l - 52) := by rw [← Nat.pow_add]; congr 1; omega
    rw [he, ← Nat.mul_assoc, hl'] at h1
    exact Nat.le_of_mul_le_mul_right h1 (Nat.two_pow_pos _)
  · have he : 2^e = 2^(e - (l - 52)) * 2^(l - 52) := by rw [← Nat.pow_add]; congr 1; omega
    have hl' : 2^(l+1) = 2^53 * 2^(l - 52) := by rw [← Nat.pow_add]; congr 1; omega
    rw [he, ← Nat.mul_assoc, hl'] at h2
    exact Nat.lt_of_mul_lt_mul_right h2
  · rw [Nat.mul_assoc, ← Nat.pow_add]; congr 2; omega

theorem eqNum_same_value (s : Bool) (q k m e : Nat) (hk : k ≤ e) (hq : q = m * 2^(e - k)) :
    eqNum (.fin s q (k : Int)) (.fin s m (e : Int)) = true := by
  have h1 : ((k : Int) ≤ (e : Int)) := by omega
  have h2 : ((e : Int) - (k : Int)).toNat = e - k := by omega
  simp [eqNum, cmpReal, h1, alignInt, h2, hq]

/-- Go's `float64(i)` is exact for an integer that is the value of a double (|i| = n = m·2^e, m < 2^53) -/
theorem ofInt_exact (neg : Bool) (m e n : Nat) (hn : n = m * 2^e) (hm : m < 2^53) (hpos : 0 < m) (hr : n ≤ 2^63) :
    eqNum (ofInt (if neg then -(n : Int) else (n : Int))) (.fin neg m (e : Int)) = true := by
  have hn0 : 0 < n := by rw [hn]; exact Nat.mul_pos hpos (Nat.two_pow_pos e)
  by_cases hsmall : n < 2^53
  · cases neg with
    | false =>
      have hna : ((n : Int)).natAbs = n := by omega
      have hnn : ¬ ((n : Int) < 0) := by omega
      simp only [ofInt, hna, hsmall, if_true, hnn, decide_false, Bool.false_eq_true, if_false]
      have := eqNum_same_value false n 0 m e (by omega) (by simpa using hn)
      simpa using this
    | true =>
      have hna : (-(n : Int)).natAbs = n := by omega
      have hnn : (-(n : Int)) < 0 := by omega
      simp only [ofInt, hna, hsmall, if_true, hnn, decide_true]
      have := eqNum_same_value true n 0 m e (by omega) (by simpa using hn)
      simpa using this
  · have hbig : 2^53 ≤ m * 2^e := by rw [← hn]; exact Nat.le_of_not_lt hsmall
    obtain ⟨q, k, hke, hk1, hq1, hq2, hqk, hq⟩ := normalise m e hm hbig
    have hk971 : k ≤ 971 := by
      apply Nat.le_of_not_lt
      intro hk
      have : 2^52 * 2^12 ≤ q * 2^k := Nat.mul_le_mul hq1 (Nat.pow_le_pow_right (by omega) (by omega))
      omega
    have hround := roundPos_exact q k hq1 hq2 hk971
    have hqn : q * 2^k = n := by rw [hqk, hn]
    cases neg with
    | false =>
      have hna : ((n : Int)).natAbs = n := by omega
      have hnn : ¬ ((n : Int) < 0) := by omega
      simp only [ofInt, hna, hsmall, if_false, hnn, Bool.false_eq_true]
      have : ofRatParts false n 1 = .fin false q (k : Int) := by
        unfold ofRatParts
        rw [← hqn, hround]
        have : q * 2^k ≠ 0 := by rw [hqn]; omega
        simp [this]
      rw [this]
      exact eqNum_same_value false q k m e hke hq
    | true =>
      have hna : (-(n : Int)).natAbs = n := by omega
      have hnn : (-(n : Int)) < 0 := by omega
      simp only [ofInt, hna, hsmall, if_false, hnn, if_true]
      have : ofRatParts true n 1 = .fin true q (k : Int) := by
        unfold ofRatParts
        rw [← hqn, hround]
        have : q * 2^k ≠ 0 := by rw [hqn]; omega
        simp [this]
      rw [this]
      exact eqNum_same_value true q k m e hke hq

theorem ofInt_m63 : ofInt (-(2^63)) = .fin true 4503599627370496 11 := by decide +kernel

theorem eqNum_fin (s1 : Bool) (m1 : Nat) (e1 : Int) (s2 : Bool) (m2 : Nat) (e2 : Int) :
    eqNum (.fin s1 m1 e1) (.fin s2 m2 e2) =
      decide (alignInt s1 m1 e1 (if e1 ≤ e2 then e1 else e2) = alignInt s2 m2 e2 (if e1 ≤ e2 then e1 else e2)) := by
  simp only [eqNum, cmpReal]
  by_cases h : alignInt s1 m1 e1 (if e1 ≤ e2 then e1 else e2) = alignInt s2 m2 e2 (if e1 ≤ e2 then e1 else e2)
  · simp [h]
  · by_cases h2 : alignInt s1 m1 e1 (if e1 ≤ e2 then e1 else e2) < alignInt s2 m2 e2 (if e1 ≤ e2 then e1 else e2)
    · simp [h, h2]
    · simp [h, h2]

/-- negative exponent, the double is m / D with D = 2^(d+1) -/
theorem small_case (s : Bool) (m d : Nat) (hm : m < 2^53) :
    let e : Int := -((d : Int) + 1)
    let x : FV := .fin s m e
    goInt64 x = truncInt x ∧
    (eqNum (ofInt (truncInt x)) x = decide (m % 2^(d+1) = 0)) := by
  intro e x
  have hD : 0 < 2^(d+1) := Nat.two_pow_pos _
  have he : ¬ (e ≥ 0) := by simp only [e]; omega
  have hneg : (-e).toNat = d + 1 := by simp only [e]; omega
  have hta : truncAbs m e = m / 2^(d+1) := by simp [truncAbs, he, hneg]
  have hle : m / 2^(d+1) ≤ m := Nat.div_le_self _ _
  have hdm := Nat.div_add_mod m (2^(d+1))
  have hmod := Nat.mod_lt m hD
  generalize hA : m / 2^(d+1) = a at *
  generalize hR : m % 2^(d+1) = r at *
  generalize hDD : 2^(d+1) = D at *
  have hti : truncInt x = if s then -(a : Int) else (a : Int) := by simp [x, truncInt, hta]
  constructor
  · simp only [goInt64, x]
    have : -(2^63 : Int) ≤ truncInt (.fin s m e) ∧ truncInt (.fin s m e) < 2^63 := by
      have := hti; simp only [x] at this; rw [this]; cases s <;> simp <;> omega
    rw [if_pos this]
  · rw [hti]
    have hsmall : ∀ b : Bool, ((if b then -(a : Int) else (a : Int))).natAbs < 2^53 := by
      intro b; cases b <;> simp <;> omega
    have hna : ∀ b : Bool, ((if b then -(a : Int) else (a : Int))).natAbs = a := by
      intro b; cases b <;> simp
    have ha53 : a < 2^53 := by omega
    simp only [ofInt, hsmall s, if_true, hna s, x, ha53]
    rw [eqNum_fin]
    have h0e : ¬ ((0 : Int) ≤ e) := by omega
    have h0e' : (0 - e).toNat = d + 1 := by simp only [e]; omega
    simp only [h0e, if_false, alignInt, h0e', Int.sub_self, Int.toNat_zero, Nat.pow_zero, Nat.mul_one, hDD]
    cases s with
    | false =>
      have : ¬ ((a : Int) < 0) := by omega
      simp only [this, decide_false, Bool.false_eq_true, if_false]
      by_cases hr : r = 0
      · have : a * D = m := by rw [Nat.mul_comm]; omega
        simp [hr, this]
      · have hn : a * D ≠ m := by rw [Nat.mul_comm]; omega
        have : (a : Int) * (D : Int) ≠ (m : Int) := by exact_mod_cast hn
        simp [hr, this]
    | true =>
      by_cases ha : a = 0
      · subst ha
        simp
        by_cases hr : r = 0
        · have : m = 0 := by omega
          simp [hr, this]
        · have : m ≠ 0 := by omega
          simp [hr]; omega
      · have : (-(a : Int) < 0) := by omega
        simp only [this, decide_true, if_true]
        by_cases hr : r = 0
        · have : a * D = m := by rw [Nat.mul_comm]; omega
          simp [hr, this]
        · have hn : a * D ≠ m := by rw [Nat.mul_comm]; omega
          have : (a : Int) * (D : Int) ≠ (m : Int) := by exact_mod_cast hn
          simp [hr, this]

theorem big_case (s : Bool) (m en : Nat) (hm : m < 2^53) :
    let x : FV := .fin s m (en : Int)
    (truncInt x = if s then -((m * 2^en : Nat) : Int) else ((m * 2^en : Nat) : Int)) ∧
    ((-(2^63 : Int) ≤ truncInt x ∧ truncInt x < 2^63) → goInt64 x = truncInt x ∧ eqNum (ofInt (truncInt x)) x = true) ∧
    (¬ (-(2^63 : Int) ≤ truncInt x ∧ truncInt x < 2^63) → goInt64 x = -(2^63 : Int) ∧ eqNum (ofInt (-(2^63))) x = false) := by
  intro x
  have he : ((en : Int) ≥ 0) := by omega
  have hta : truncAbs m (en : Int) = m * 2^en := by simp [truncAbs]
  have hti : truncInt x = if s then -((m * 2^en : Nat) : Int) else ((m * 2^en : Nat) : Int) := by
    simp only [x, truncInt, hta]
  generalize hn : m * 2^en = n at *
  refine ⟨hti, ?_, ?_⟩
  · intro hr
    constructor
    · simp only [goInt64, x]; rw [if_pos hr]
    · rw [hti]
      by_cases hm0 : m = 0
      · have hn0 : n = 0 := by rw [← hn, hm0]; simp
        subst hm0; subst hn0
        cases s <;> simp [x, ofInt, eqNum_fin, alignInt]
      · have hpos : 0 < m := by omega
        have hr' : n ≤ 2^63 := by rw [hti] at hr; cases s <;> simp at hr <;> omega
        exact ofInt_exact s m en n hn.symm hm hpos hr'
  · intro hr
    constructor
    · simp only [goInt64, x]; rw [if_neg hr]
    · rw [ofInt_m63]
      simp only [x]
      rw [eqNum_fin]
      rw [hti] at hr
      by_cases h11 : (11 : Int) ≤ (en : Int)
      · have h11' : 11 ≤ en := by omega
        have hsub : ((en : Int) - 11).toNat = en - 11 := by omega
        simp only [h11, if_true, alignInt, Int.sub_self, Int.toNat_zero, Nat.pow_zero, Nat.mul_one, hsub]
        have hsplit : m * 2^en = (m * 2^(en - 11)) * 2^11 := by
          rw [Nat.mul_assoc, ← Nat.pow_add]; congr 2; omega
        generalize hq : m * 2^(en - 11) = q at *
        cases s with
        | false => simp <;> omega
        | true =>
          simp at hr ⊢
          intro h
          have : q = 4503599627370496 := by omega
          omega
      · have h11' : en < 11 := by omega
        have hsub : ((11 : Int) - (en : Int)).toNat = 11 - en := by omega
        simp only [h11, if_false, alignInt, Int.sub_self, Int.toNat_zero, Nat.pow_zero, Nat.mul_one, hsub]
        have hpow : 2 ≤ 2^(11 - en) := by
          calc 2 = 2^1 := by decide
            _ ≤ 2^(11 - en) := Nat.pow_le_pow_right (by omega) (by omega)
        have hbig : 2^53 ≤ 4503599627370496 * 2^(11 - en) := by
          calc 2^53 = 4503599627370496 * 2 := by decide
            _ ≤ 4503599627370496 * 2^(11 - en) := Nat.mul_le_mul_left _ hpow
        generalize hq : 4503599627370496 * 2^(11 - en) = q at *
        cases s with
        | false => simp <;> omega
        | true => simp <;> omega

/-- the integer m·2^e with sign -/
def V (s : Bool) (m e : Nat) : Int := if s then -((m * 2^e : Nat) : Int) else ((m * 2^e : Nat) : Int)

theorem align_nat (s : Bool) (m e k : Nat) (hk : k ≤ e) :
    alignInt s m (e : Int) (k : Int) * ((2^k : Nat) : Int) = V s m e := by
  have hsub : ((e : Int) - (k : Int)).toNat = e - k := by omega
  have hsplit : m * 2^e = (m * 2^(e - k)) * 2^k := by
    rw [Nat.mul_assoc, ← Nat.pow_add]; congr 2; omega
  simp only [alignInt, hsub, V]
  rw [hsplit]
  cases s <;> simp [Int.neg_mul]

/-- comparison of two doubles with non-negative exponents is comparison of the integers they denote -/
theorem cmpReal_nat (s1 : Bool) (m1 e1 : Nat) (s2 : Bool) (m2 e2 : Nat) :
    cmpReal (.fin s1 m1 (e1 : Int)) (.fin s2 m2 (e2 : Int)) =
      some (if V s1 m1 e1 < V s2 m2 e2 then .lt else if V s1 m1 e1 = V s2 m2 e2 then .eq else .gt) := by
  simp only [cmpReal]
  have key : ∀ k : Nat, k ≤ e1 → k ≤ e2 →
      ((alignInt s1 m1 (e1 : Int) (k : Int) < alignInt s2 m2 (e2 : Int) (k : Int)) ↔ V s1 m1 e1 < V s2 m2 e2) ∧
      ((alignInt s1 m1 (e1 : Int) (k : Int) = alignInt s2 m2 (e2 : Int) (k : Int)) ↔ V s1 m1 e1 = V s2 m2 e2) := by
    intro k h1 h2
    have hK : (0 : Int) < ((2^k : Nat) : Int) := by
      have := Nat.two_pow_pos k; omega
    rw [← align_nat s1 m1 e1 k h1, ← align_nat s2 m2 e2 k h2]
    exact ⟨(Int.mul_lt_mul_right hK).symm, (Int.mul_eq_mul_right_iff (by omega)).symm⟩
  by_cases h : (e1 : Int) ≤ (e2 : Int)
  · obtain ⟨k1, k2⟩ := key e1 (by omega) (by omega)
    simp only [h, if_true]
    by_cases a : V s1 m1 e1 < V s2 m2 e2
    · simp [a, k1.mpr a]
    · have na := fun x => a (k1.mp x)
      by_cases b : V s1 m1 e1 = V s2 m2 e2
      · simp [a, na, b, k2.mpr b]
      · have nb := fun x => b (k2.mp x)
        rw [if_neg a, if_neg b, if_neg (fun x => na x), if_neg (fun x => nb x)]
  · obtain ⟨k1, k2⟩ := key e2 (by omega) (by omega)
    simp only [h, if_false]
    by_cases a : V s1 m1 e1 < V s2 m2 e2
    · simp [a, k1.mpr a]
    · have na := fun x => a (k1.mp x)
      by_cases b : V s1 m1 e1 = V s2 m2 e2
      · simp [a, na, b, k2.mpr b]
      · have nb := fun x => b (k2.mp x)
        rw [if_neg a, if_neg b, if_neg (fun x => na x), if_neg (fun x => nb x)]

theorem truncInt_nat (s : Bool) (m e : Nat) : truncInt (.fin s m (e : Int)) = V s m e := by
  simp [truncInt, truncAbs, V]

theorem V_two63 : V false 1 63 = 2^63 := by decide
theorem V_two64 : V false 1 64 = 2^64 := by decide

/-- order against 2^63 and 2^64 for a double with non-negative exponent -/
theorem cmp_big (s : Bool) (m en : Nat) :
    le two63 (.fin s m (en : Int)) = decide ((2^63 : Int) ≤ truncInt (.fin s m (en : Int))) ∧
    lt (.fin s m (en : Int)) two64 = decide (truncInt (.fin s m (en : Int)) < (2^64 : Int)) ∧
    le two64 (.fin s m (en : Int)) = decide ((2^64 : Int) ≤ truncInt (.fin s m (en : Int))) ∧
    lt (.fin s m (en : Int)) negTwo63 = decide (truncInt (.fin s m (en : Int)) < -(2^63 : Int)) := by
  rw [truncInt_nat]
  have h63 : two63 = .fin false 1 ((63 : Nat) : Int) := rfl
  have h64 : two64 = .fin false 1 ((64 : Nat) : Int) := rfl
  have hn63 : negTwo63 = .fin true 1 ((63 : Nat) : Int) := rfl
  have vn : V true 1 63 = -(2^63) := by decide
  simp only [le, lt, h63, h64, hn63, cmpReal_nat, V_two63, V_two64, vn]
  generalize V s m en = v
  refine ⟨?_, ?_, ?_, ?_⟩ <;> (repeat' split) <;> simp <;> omega

/-- a double with negative exponent and significand below 2^53 is below 2^63 in magnitude -/
theorem cmp_small (s : Bool) (m d : Nat) (hm : m < 2^53) :
    le two63 (.fin s m (-((d : Int) + 1))) = false := by
  have hne : ¬ ((63 : Int) ≤ -((d : Int) + 1)) := by omega
  have hsub : ((63 : Int) - (-((d : Int) + 1))).toNat = 64 + d := by omega
  have hbig : 2^53 ≤ 2^(64 + d) := Nat.pow_le_pow_right (by omega) (by omega)
  simp only [le, two63, cmpReal, hne, if_false, alignInt, hsub, Int.sub_self, Int.toNat_zero, Nat.pow_zero,
    Nat.mul_one, Nat.one_mul]
  generalize 2^(64 + d) = P at *
  cases s <;> simp <;> (repeat' split) <;> simp <;> omega

end OttoVerif.C16.Lem
