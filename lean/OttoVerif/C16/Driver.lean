/-
  C16/Driver — line protocol front end (core-only).
  request:  <op> <args…>      reply:  <model> <spec> <dev>

    num <t> <n>                          call a Go `func(T)` with the JavaScript number n (Go payload kind given)
    call <F|V> <k> <t1>…<tk> <a1>…<am>   call a Go function with k parameter types (V: last is the element type of `...T`)
    store <t> <v>                        `s[0] = v` on a bridged `[]T`, then read s[0] on the Go side
    slice <t> <cap> <e1,e2,…|-> <ops>    history on a bridged []T (ops separated by `;`)
    map <t> <k=e,…|-> <ops>              history on a bridged map[string]T
    struct <T{…}> <ops>                  history on a bridged *struct
    field <T{…}> <name>                  fieldIndexByName
    ret <k>                              a Go function returning k values

  types : bool str any i8…uint f32 f64 S(t) M(t) P(t) T{name:tag:anon:t;…}
  values: u n b:0 b:1 i64:5 f:hex f32:hex s:hex A[v,_,v] O{key=v,…}
-/
import OttoVerif.Base.Proto
import OttoVerif.C16.Spec
namespace OttoVerif.C16.Driver
open OttoVerif.F64 OttoVerif.Proto OttoVerif.C16

def ik? : String → Option IK
  | "i8" => some .i8 | "i16" => some .i16 | "i32" => some .i32 | "i64" => some .i64 | "int" => some .int
  | "u8" => some .u8 | "u16" => some .u16 | "u32" => some .u32 | "u64" => some .u64 | "uint" => some .uint
  | _ => none

def ikOut : IK → String
  | .i8 => "i8" | .i16 => "i16" | .i32 => "i32" | .i64 => "i64" | .int => "int"
  | .u8 => "u8" | .u16 => "u16" | .u32 => "u32" | .u64 => "u64" | .uint => "uint"

def nt? (s : String) : Option NT :=
  if s = "f32" then some .f32 else if s = "f64" then some .f64 else (ik? s).map .i

def num? (t : String) : Option Num :=
  match t.splitOn ":" with
  | ["f", h] => (f64? h).map .f64
  | ["f64", h] => (f64? h).map .f64
  | ["f32", h] => (f64? h).map .f64      -- a float32 Go value is widened by toValue: the payload is a float64
  | [k, i] => do let k ← ik? k; let i ← int? i; pure (.int k i)
  | _ => none

def numOut : Num → String
  | .int k i => ikOut k ++ ":" ++ toString i
  | .f32 x => "f32:" ++ f64Out x
  | .f64 x => "f64:" ++ f64Out x

def resOut {α} (f : α → String) : Res α → String
  | .ok a => "ok:" ++ f a
  | .rangeErr => "throw:RangeError"
  | .typeErr => "throw:TypeError"
  | .goPanic => "gopanic"

/-! ### parsing of types and values (recursive descent with fuel) -/

def isDelim (c : Char) : Bool := c = ',' ∨ c = ';' ∨ c = '(' ∨ c = ')' ∨ c = '[' ∨ c = ']' ∨ c = '{' ∨ c = '}' ∨ c = '='

def atom (cs : List Char) : String × List Char := (String.ofList (cs.takeWhile (!isDelim ·)), cs.dropWhile (!isDelim ·))

def upTo (d : Char) (cs : List Char) : String × List Char :=
  (String.ofList (cs.takeWhile (· ≠ d)), (cs.dropWhile (· ≠ d)).drop 1)

def asciiStr (s : String) : Str := s.toList.map Char.toNat

mutual
def pType : Nat → List Char → Option (GT × List Char)
  | 0, _ => none
  | f+1, cs =>
    match cs with
    | 'S' :: '(' :: r => do let (t, r) ← pType f r; match r with | ')' :: r => some (.slice t, r) | _ => none
    | 'M' :: '(' :: r => do let (t, r) ← pType f r; match r with | ')' :: r => some (.map t, r) | _ => none
    | 'P' :: '(' :: r => do let (t, r) ← pType f r; match r with | ')' :: r => some (.ptr t, r) | _ => none
    | 'T' :: '{' :: r => do let (fs, r) ← pFields f r; some (.struct fs, r)
    | _ =>
      let (a, r) := atom cs
      if a = "bool" then some (.bool, r) else if a = "str" then some (.str, r) else if a = "any" then some (.any, r)
      else (nt? a).map (fun t => (.num t, r))
def pFields : Nat → List Char → Option (Fields × List Char)
  | 0, _ => none
  | f+1, cs =>
    match cs with
    | '}' :: r => some (.nil, r)
    | _ =>
      let (name, r) := upTo ':' cs
      let (tag, r) := upTo ':' r
      let (anon, r) := upTo ':' r
      do
        let (t, r) ← pType f r
        match r with
        | ';' :: r => do let (rest, r) ← pFields f r; some (.cons (asciiStr name) (asciiStr tag) (anon = "1") t rest, r)
        | '}' :: r => some (.cons (asciiStr name) (asciiStr tag) (anon = "1") t .nil, r)
        | _ => none
end

def type? (s : String) : Option GT :=
  match pType 64 s.toList with
  | some (t, []) => some t
  | _ => none

mutual
def pJV : Nat → List Char → Option (JV × List Char)
  | 0, _ => none
  | f+1, cs =>
    match cs with
    | 'A' :: '[' :: r => do let (es, r) ← pJVs f r; some (.arr es, r)
    | 'O' :: '{' :: r => do let (ps, r) ← pJPs f r; some (.obj ps, r)
    | _ =>
      let (a, r) := atom cs
      if a = "u" then some (.undef, r) else if a = "n" then some (.null, r)
      else if a = "b:0" then some (.bool false, r) else if a = "b:1" then some (.bool true, r)
      else match a.splitOn ":" with
        | ["s", h] => (bytes? h).map (fun b => (.str b, r))
        | ["s16", h] => (units? h).map (fun us => (.str (OttoVerif.Str.bytesOfUnits us), r))   -- a []uint16-held string
        | ["s"] => some (.str [], r)
        | _ => (num? a).map (fun n => (.num n, r))
def pJVs : Nat → List Char → Option (JVs × List Char)
  | 0, _ => none
  | f+1, cs =>
    match cs with
    | ']' :: r => some (.nil, r)
    | ',' :: r => pJVs f r
    | '_' :: r => do let (rest, r) ← pJVs f r; some (.hole rest, r)
    | _ => do let (v, r) ← pJV f cs; let (rest, r) ← pJVs f r; some (.cons v rest, r)
def pJPs : Nat → List Char → Option (JPs × List Char)
  | 0, _ => none
  | f+1, cs =>
    match cs with
    | '}' :: r => some (.nil, r)
    | ',' :: r => pJPs f r
    | _ =>
      let (k, r) := upTo '=' cs
      do let (v, r) ← pJV f r; let (rest, r) ← pJPs f r; some (.cons (asciiStr k) v rest, r)
end

def jv? (s : String) : Option JV :=
  match pJV 64 s.toList with
  | some (v, []) => some v
  | _ => none

/-! ### printing Go values -/

def insertSorted (s : String) : List String → List String
  | [] => [s]
  | a :: r => if s < a then s :: a :: r else a :: insertSorted s r

def sortStrings (l : List String) : List String := l.foldl (fun acc s => insertSorted s acc) []

mutual
def gvOut : GV → String
  | .bool b => if b then "b:1" else "b:0"
  | .num n => numOut n
  | .str s => "s:" ++ bytesOut s
  | .anyNil => "nil"
  | .any v => "any(" ++ gvOut v ++ ")"
  | .ptrNil => "P.nil"
  | .ptr v => "P(" ++ gvOut v ++ ")"
  | .slice es => "S[" ++ ",".intercalate (gvsOut es) ++ "]"
  | .map ps => "M{" ++ ",".intercalate (sortStrings (gpsOut ps)) ++ "}"
  | .struct fs => "T{" ++ ",".intercalate (gvsOut fs) ++ "}"
def gvsOut : GVs → List String
  | .nil => []
  | .cons v r => gvOut v :: gvsOut r
def gpsOut : GPs → List String
  | .nil => []
  | .cons k v r => ("s:" ++ bytesOut k ++ "=" ++ gvOut v) :: gpsOut r
end

def argsOut (gs : List GV) : String := "(" ++ "|".intercalate (gs.map gvOut) ++ ")"

/-! ### deviation regions – decidable predicates over the request -/

/-- regions of the numeric call path -/
def devNum (v : Num) (t : NT) : List String :=
  if v.ty = t then [] else
  match v, t with
  | .int _ _, .f64 => if Spec.sameNumber v (Spec.asF64 v) then [] else ["call_int_to_float_rounds"]
  | .int _ _, .f32 => if Spec.sameNumber v (toF32 (Spec.asF64 v)) then [] else ["call_int_to_float_rounds"]
  | .f64 x, .f32 =>
    if overflowFloat32 x then [] else if Spec.sameNumber v (toF32 x) then [] else ["call_f64_to_f32_rounds"]
  | _, _ => []

def isGoPanic {α} (r : Res α) : Bool := r.isGoPanic

def addDev (ds : List String) (d : String) : List String := if ds.contains d then ds else ds ++ [d]
def addDevs (ds es : List String) : List String := es.foldl addDev ds

mutual
/-- regions met while converting value v to type t on the call path (syntactic walk, same shape as `conv`) -/
def devConv (v : JV) (t : GT) : List String :=
  match t.base with
  | .num nt => (match v with | .num n => devNum n nt | _ => [])
  | .slice tt => (match v with | .arr es => devElems es tt | _ => [])
  | .map tt => (match v with | .obj ps => devProps ps (fun _ => tt) | .arr es => devElems es tt | _ => [])
  | .struct fs => (match v with
      | .obj ps => devProps ps (fun k => match fieldIndexByName (.struct fs) k with
          | some p => (typeAt (.struct fs) p).getD .any
          | none => .any)
      | _ => [])
  | _ => []
def devElems (es : JVs) (tt : GT) : List String :=
  match es with
  | .nil => []
  | .hole r => devElems r tt
  | .cons v r => addDevs (devConv v tt) (devElems r tt)
def devProps (ps : JPs) (ft : Str → GT) : List String :=
  match ps with
  | .nil => []
  | .cons k v r => addDevs (devConv v (ft k)) (devProps r ft)
end

/-- does the store path take the number through float64 (toIntegerFloat / Value.float64) for this
    payload kind `pk` and target kind `k`? (value.go:763-830, value_number.go:144) -/
def viaFloat (pk k : IK) : Bool :=
  let _ := pk
  (match k with | .int | .i64 | .uint | .u64 => true | _ => false)

def isOk {α} : Res α → Bool | .ok _ => true | _ => false

/-- regions of the store path (Value.toReflectValue, used by slice/array/map writes) – predicates on (v, t):
    ToNumber coercion of non-numbers, silent rounding into float kinds, integer payloads taken through float64,
    and the Go panic of Value.float64 on a float32 payload. -/
def devStore (v : JV) (t : GT) : List String :=
  match t with
  | .num nt =>
    (match v with
     | .arr _ | .obj _ => []
     | .undef | .null | .bool _ | .str _ => ["store_coerces_non_number"]      -- ToNumber coercion instead of TypeError
     | .num (.f32 _) => []                 -- not reachable: a Value never carries a float32 payload
     | .num n =>
       (match nt, n with
         | .f64, .int _ i => if Spec.sameNumber n (ofInt i) then [] else ["store_float_rounds"]
         | .f32, _ =>
           if !isOk (toReflectValue v t) then [] else
           if Spec.sameNumber n (toF32 (Spec.asF64 n)) then [] else ["store_float_rounds"]
         | .i k, .int pk i =>
           if viaFloat pk k ∧ ¬ Spec.sameNumber n (ofInt i) then ["store_int_via_float_rounds"] else []
         | _, _ => []))
  | _ => []

def devOut (ds : List String) : String := if ds.isEmpty then "-" else ",".intercalate ds

def reply (m s : String) (dev : List String) : String := m ++ " " ++ s ++ " " ++ devOut dev

/-! ### histories -/

def nat? (s : String) : Option Nat := s.toNat?

/-- a small Go-side integer converted to the element type (the harness does `reflect.ValueOf(n).Convert(et)`) -/
def goElem (et : GT) (n : Int) : GV :=
  match et with
  | .num (.i k) => .num (.int k n)
  | .num .f32 => .num (.f32 (ofInt n))
  | .num .f64 => .num (.f64 (ofInt n))
  | .str => .str (intDec n)
  | .bool => .bool (n != 0)
  | .any => .any (.num (.int .int n))
  | t => t.zero

def sop? (et : GT) (s : String) : Option SOp :=
  match s.splitOn ":" with
  | ["jr", i] => (nat? i).map .jsRead
  | "jw" :: i :: rest => do let i ← nat? i; let v ← jv? (":".intercalate rest); pure (.jsWrite i v)
  | ["jl"] => some .jsLen
  | ["jsl", n] => (nat? n).map .jsSetLen
  | ["jslneg"] => some .jsSetLenNeg
  | ["jd", i] => (nat? i).map .jsDelete
  | ["gr", i] => (nat? i).map .goRead
  | ["gw", i, n] => do let i ← nat? i; let n ← int? n; pure (.goWrite i (goElem et n))
  | ["gl"] => some .goLen
  | ["ga", n, c] => do let n ← int? n; let c ← nat? c; pure (.goAppend (goElem et n) c)
  | _ => none

def allSome {α} : List (Option α) → Option (List α)
  | [] => some []
  | none :: _ => none
  | some a :: r => (allSome r).map (a :: ·)

def obsOut : Obs → String
  | .val g => "v:" ++ gvOut g
  | .undef => "u"
  | .len n => "len:" ++ toString n
  | .unit => "-"
  | .ignored => "ign"
  | .goPanic => "gopanic"
  | .typeErr => "throw:TypeError"
  | .rangeErr => "throw:RangeError"

def listGVs (l : List GV) : GVs := GVs.ofList l

def sliceOut (r : SliceSt × List Obs) : String :=
  let (s, os) := r
  let failed := os.any Obs.isFail
  ";".intercalate (os.map obsOut) ++
    (if failed then "" else ";G" ++ gvOut (.slice (listGVs (s.view s.go))) ++ ";J" ++ gvOut (.slice (listGVs (s.view s.js))))

/-- regions a slice history may touch: the store regions of every write -/
def devSlice (st : SliceSt) (ops : List SOp) : List String :=
  ops.foldl (fun acc op => match op with | .jsWrite _ v => addDevs acc (devStore v st.et) | _ => acc) []

def mop? (et : GT) (s : String) : Option MOp :=
  match s.splitOn ":" with
  | ["jr", k] => some (.jsRead (asciiStr k))
  | "jw" :: k :: rest => do let v ← jv? (":".intercalate rest); pure (.jsWrite (asciiStr k) v)
  | ["jd", k] => some (.jsDelete (asciiStr k))
  | ["jk"] => some .jsKeys
  | ["gr", k] => some (.goRead (asciiStr k))
  | ["gw", k, n] => do let n ← int? n; pure (.goWrite (asciiStr k) (goElem et n))
  | ["gd", k] => some (.goDelete (asciiStr k))
  | _ => none

def mobsOut : MObs → String
  | .val g => "v:" ++ gvOut g
  | .undef => "u"
  | .unit => "-"
  | .keys m => "k:" ++ gvOut (.map m)
  | .goPanic => "gopanic"
  | .typeErr => "throw:TypeError"
  | .rangeErr => "throw:RangeError"

def mapOut (r : GPs × List MObs) : String :=
  let (m, os) := r
  let failed := os.any MObs.isFail
  ";".intercalate (os.map mobsOut) ++ (if failed then "" else ";G" ++ gvOut (.map m))

def initMap (et : GT) (s : String) : Option GPs :=
  if s = "-" ∨ s = "nil" then some .nil else
  (allSome ((s.splitOn ",").map (fun kv => match kv.splitOn "=" with
    | [k, n] => (int? n).map (fun n => (asciiStr k, goElem et n))
    | _ => none))).map (fun l => l.foldl (fun m kv => GPs.set kv.1 kv.2 m) .nil)

def path? (s : String) : Option (List Nat) := allSome ((s.splitOn ".").map nat?)

def top? (s : String) : Option TOp :=
  match s.splitOn ":" with
  | ["jr", k] => some (.jsRead (asciiStr k))
  | "jw" :: k :: rest => do let v ← jv? (":".intercalate rest); pure (.jsWrite (asciiStr k) v)
  | ["gr", p] => (path? p).map .goRead
  | _ => none

def tobsOut : TObs → String
  | .val g => "v:" ++ gvOut g
  | .undef => "u"
  | .unit => "-"
  | .shadow => "shadow"
  | .shadowRead => "shadowread"
  | .goPanic => "gopanic"
  | .typeErr => "throw:TypeError"
  | .rangeErr => "throw:RangeError"

def structOut (r : StructSt × List TObs) : String :=
  let (g, os) := (r.1.cur, r.2)
  let failed := os.any TObs.isFail
  ";".intercalate (os.map tobsOut) ++ (if failed then "" else ";G" ++ gvOut g)

def optEq (a b : Option (List Nat)) : Bool := a == b

def devStruct (st : GT) (ops : List TOp) : List String :=
  ops.foldl (fun acc op => match op with
    | .jsWrite name v =>
      (match structGetPath st name with
       | some p => addDevs acc (devConv v ((typeAt st.base p).getD .any))
       | none => acc)
    | _ => acc) []

def pathOut : Option (List Nat) → String
  | none => "none"
  | some p => "path:" ++ ".".intercalate (p.map toString)

def retOut (k : Nat) : String :=
  if k = 0 then "undefined" else if k = 1 then "num:1" else "arr:" ++ ",".intercalate ((List.range k).map (fun i => toString (i+1)))


/-! ### observers (`view`) -/

def vkind? : String → Option VKind
  | "slice" => some .slice | "aptr" => some .arrPtr | "aval" => some .arrVal | "map" => some .map | "struct" => some .struct
  | _ => none

def strOf (k : Str) : String := String.ofList (k.map Char.ofNat)

def kvList? (s : String) : Option (List (Str × Int)) :=
  if s = "-" then some [] else
  allSome ((s.splitOn ",").map (fun kv => match kv.splitOn "=" with
    | [k, n] => (int? n).map (fun n => (asciiStr k, n))
    | _ => none))

def tagList? (s : String) : Option (List (Str × Str)) :=
  if s = "-" then some [] else
  allSome ((s.splitOn ",").map (fun kv => match kv.splitOn "=" with
    | [t, n] => some (asciiStr t, asciiStr n)
    | _ => none))

def vop? (s : String) : Option VOp :=
  match s.splitOn ":" with
  | ["jw", k, n] => (int? n).map (.jsWrite (asciiStr k))
  | ["gw", k, n] => (int? n).map (.goWrite (asciiStr k))
  | ["jd", k] => some (.jsDelete (asciiStr k))
  | ["gd", k] => some (.goDelete (asciiStr k))
  | _ => none

def bitsOut (bs : List Bool) : String := String.ofList (bs.map (fun b => if b then '1' else '0'))

def modeOut (m : Nat) : String :=
  bitsOut [m / 4 % 2 = 1, m / 2 % 2 = 1, m % 2 = 1]

def descOut : Option (Option Int × Nat) → String
  | none => "-"
  | some (none, m) => "u/" ++ modeOut m
  | some (some v, m) => toString v ++ "/" ++ modeOut m

def contentsOut (kind : VKind) (es : List (Str × Int)) : String :=
  match kind with
  | .map => ",".intercalate (sortStrings (es.map (fun e => strOf e.1 ++ "=" ++ toString e.2)))
  | .struct => ",".intercalate (es.map (fun e => strOf e.1 ++ "=" ++ toString e.2))
  | _ => "|".intercalate (es.map (fun e => toString e.2))

def vobsOut (kind : VKind) (o : VObs) : String :=
  let ks := ",".intercalate (sortStrings (o.keys.map strOf))
  "in:" ++ bitsOut o.has ++ ";own:" ++ bitsOut o.has ++ ";keys:" ++ ks ++ ";names:" ++ ks ++ ";forin:" ++ ks ++
    ";forinown:" ++ ks ++ ";desc:" ++ ",".intercalate (o.desc.map descOut) ++ ";G:" ++ contentsOut kind o.contents ++ ";V:ok"

def viewOut (kind : VKind) (os : List VObs) : String := "#".intercalate (os.map (vobsOut kind))

def devView (s : VSt) (probes : List Str) : List String :=
  if s.kind.isSeq ∧ probes.any (fun p => isIndexKey p ∧ (lookupEnt p s.ents).isNone) then
    ["seq_out_of_range_index_reported_as_own_property"] else []

def handleView (ws : List String) : String :=
  match ws with
  | [kind, init, tags, probes, steps] =>
    (match vkind? kind, kvList? init, tagList? tags, (if steps = "-" then some [] else allSome ((steps.splitOn ";").map vop?)) with
     | some k, some es, some ts, some ops =>
       let st : VSt := { kind := k, ents := es, tags := ts }
       let ps := (probes.splitOn ",").map asciiStr
       reply (viewOut k (viewRun true st ps ops)) (viewOut k (viewRun false st ps ops)) (devView st ps)
     | _, _, _, _ => "bad-op")
  | _ => "bad-op"


/-! ### several same-named struct types (`recs`) -/

def layout? (s : String) : Option (List (Str × List (Str × Int))) :=
  allSome ((s.splitOn "|").zipIdx.map (fun (part, oi) => match part.splitOn "=" with
    | [o, fs] => some (asciiStr o, (fs.splitOn ",").zipIdx.map (fun (f, p) => (asciiStr f, ((10 * (oi + 1) + p : Nat) : Int))))
    | _ => none))

def rop? (s : String) : Option ROp :=
  match s.splitOn "." with
  | [vm, o, "r", f] => (nat? vm).map (fun vm => .read vm (asciiStr o) (asciiStr f))
  | [vm, o, "w", f, n] => do let vm ← nat? vm; let n ← int? n; pure (.write vm (asciiStr o) (asciiStr f) n)
  | _ => none

def robsOut : RObs → String
  | .val n => "v:" ++ toString n
  | .undef => "u"
  | .unit => "-"
  | .shadow => "shadow"
  | .shadowRead => "shadowread"

def recsOut (r : RecSt × List RObs) : String :=
  ";".intercalate (r.2.map robsOut) ++ ";G:" ++
    "|".intercalate (r.1.objs.map (fun o => strOf o.1 ++ "=" ++ ",".intercalate (o.2.map (fun e => strOf e.1 ++ ":" ++ toString e.2))))

def handleRecs (ws : List String) : String :=
  match ws with
  | [_nvm, layout, steps] =>
    (match layout? layout, allSome ((steps.splitOn ";").map rop?) with
     | some objs, some ops =>
       let out := recsOut (recRun { objs := objs, shadows := [] } ops)
       reply out out []
     | _, _ => "bad-op")
  | _ => "bad-op"


def cbKind? : String → Option CbKind
  | "ret" => some .ret | "range" => some .throwRange | "type" => some .throwType | "num" => some .throwNum
  | "str" => some .throwStr | "obj" => some .throwObj | "retstr" => some .retStr | "retfrac" => some .retFrac
  | "uncaught" => some .uncaught | _ => none

def cbOut : CbObs → String
  | .ok n => "ok:" ++ toString n
  | .caughtError name msg => "caught:" ++ strOf name ++ ":" ++ strOf msg ++ ":instanceof"
  | .caughtValue ty text => "caught:" ++ strOf ty ++ ":" ++ strOf text
  | .runError name => "throw:" ++ strOf name


def hexOfString (s : String) : String := bytesOut (s.toUTF8.toList.map (·.toNat))

def zooTok (s : String) : String := if s.startsWith "!" then (s.drop 1).toString else "s:" ++ hexOfString s

def handleZoo (name : String) : String :=
  match zooModel.lookup name with
  | none => "bad-op"
  | some m =>
    match Spec.zooSpec.find? (fun e => e.1 = name) with
    | some (_, sp, region) => reply (zooTok m) (zooTok sp) [region]
    | none => reply (zooTok m) (zooTok m) []


/-! ### histories of calls (`rets`) -/

def rfn? : String → Option RFn
  | "f0" => some .f0 | "f1" => some .f1 | "f2" => some .f2 | "f3" => some .f3 | "fe" => some .fe | _ => none

def retOp? (s : String) : Option RetOp :=
  match s.splitOn "." with
  | "c" :: f :: args => do let f ← rfn? f; let as ← allSome (args.map int?); pure (.call f as)
  | "k" :: f :: args => do let f ← rfn? f; let as ← allSome (args.map int?); pure (.copyCall f as)
  | ["t", a] => (int? a).map .twice
  | ["w", i, j, v] => do let i ← nat? i; let j ← nat? j; let v ← int? v; pure (.write i j v)
  | _ => none

def rvOut : RV → String
  | .int n => toString n
  | .undef => "u"
  | .err => "E"

def rresOut : RRes → String
  | .undef => "u"
  | .single v => rvOut v
  | .list vs => "[" ++ ",".intercalate (vs.map rvOut) ++ "]"

def retsOut (states : List (List RRes)) : String :=
  "#".intercalate (states.map (fun rs => let t := ";".intercalate (rs.map rresOut); t ++ "|" ++ t))

def handleRets (steps : String) : String :=
  match allSome ((steps.splitOn ";").map retOp?) with
  | some ops => let out := retsOut (retRun [] ops); reply out out []
  | none => "bad-op"

def handle (ws : List String) : String :=
  match ws with
  | ["num", t, n] => match nt? t, num? n with
    | some t, some v =>
      reply (resOut numOut (convertNumeric v t)) (resOut numOut (Spec.convertNumeric v t)) (devNum v t)
    | _, _ => "bad-op"
  | "call" :: fv :: k :: rest =>
    (match nat? k with
     | none => "bad-op"
     | some k =>
       match allSome ((rest.take k).map type?), allSome ((rest.drop k).map jv?) with
       | some ts, some as =>
         let sig : Sig := { ins := ts, variadic := fv = "V" }
         let dev :=
           if sig.variadic then
             let fixedT := ts.take (k - 1)
             let et := ts.getLastD .any
             let d1 := (List.zip (as.take (k - 1)) fixedT).foldl (fun acc p => addDevs acc (devConv p.1 p.2)) []
             match as.drop (k - 1) with
             | [a] => (match conv modelLeaf a (.slice et), conv Spec.leaf a (.slice et) with
                       | .typeErr, .typeErr => addDevs d1 (devConv a et)
                       | _, _ => addDevs d1 (devConv a (.slice et)))
             | tail => tail.foldl (fun acc a => addDevs acc (devConv a et)) d1
           else (List.zip as ts).foldl (fun acc p => addDevs acc (devConv p.1 p.2)) []
         reply (resOut argsOut (callWrapper modelLeaf sig as)) (resOut argsOut (callWrapper Spec.leaf sig as)) dev
       | _, _ => "bad-op")
  | ["store", t, v] => match type? t, jv? v with
    | some t, some v =>
      reply (resOut gvOut (toReflectValue v t)) (resOut gvOut (Spec.convertCallParameter v t)) (devStore v t)
    | _, _ => "bad-op"
  | ["slice", t, cap, init, ops] =>
    (match type? t, nat? cap with
     | some et, some cap =>
       let initL : Option (List Int) := if init = "-" then some [] else allSome ((init.splitOn ",").map int?)
       let opsL := if ops = "-" then some [] else allSome ((ops.splitOn ";").map (sop? et))
       (match initL, opsL with
        | some il, some ol =>
          let st := SliceSt.init et (il.map (goElem et)) cap
          reply (sliceOut (sliceRun modelStore st ol)) (sliceOut (sliceRun Spec.store st ol)) (devSlice st ol)
        | _, _ => "bad-op")
     | _, _ => "bad-op")
  | ["map", t, init, ops] =>
    (match type? t with
     | some et =>
       let opsL := if ops = "-" then some [] else allSome ((ops.splitOn ";").map (mop? et))
       (match initMap et init, opsL with
        | some m, some ol =>
          let dev := ol.foldl (fun acc op => match op with | .jsWrite _ v => addDevs acc (devStore v et) | _ => acc) []
          reply (mapOut (mapRun modelStore et (init = "nil") m ol)) (mapOut (mapRun Spec.store et (init = "nil") m ol)) dev
        | _, _ => "bad-op")
     | none => "bad-op")
  | ["struct", t, ops] =>
    (match type? t with
     | some st =>
       (match allSome ((ops.splitOn ";").map top?) with
        | some ol =>
          reply (structOut (structRun modelLeaf true st ⟨st.zero, []⟩ ol)) (structOut (structRun Spec.leaf true st ⟨st.zero, []⟩ ol)) (devStruct st ol)
        | none => "bad-op")
     | none => "bad-op")
  | ["field", t, name] =>
    (match type? t with
     | some st => reply (pathOut (fieldIndexByName st (asciiStr name))) (pathOut (Spec.fieldLookup st (asciiStr name))) []
     | none => "bad-op")
  | "view" :: rest => handleView rest
  | "recs" :: rest => handleRecs rest
  | ["rets", steps] => handleRets steps
  | ["zoo", name] => handleZoo name
  | ["cb", k] => (match cbKind? k with
      | some k => reply (cbOut (callbackOutcome k)) (cbOut (callbackOutcome k)) []
      | none => "bad-op")
  | ["ret", k] => (match nat? k with | some k => reply (retOut k) (retOut k) [] | none => "bad-op")
  | _ => "bad-op"

end OttoVerif.C16.Driver
