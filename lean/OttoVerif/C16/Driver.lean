/-
  C16/Driver — line protocol front end (core-only).
  request:  <op> <args…>      reply:  <model> <spec> <dev>

    num <t> <n>        call a Go `func(T)` with the JavaScript number n (Go payload kind given)
-/
import OttoVerif.Base.Proto
import OttoVerif.C16.Spec
namespace OttoVerif.C16.Driver
open OttoVerif.F64 OttoVerif.Proto OttoVerif.C16

def ik? : String → Option IK
  | "i8" => some .i8 | "i16" => some .i16 | "i32" => some .i32 | "i64" => some .i64 | "int" => some .int
  | "u8" => some .u8 | "u16" => some .u16 | "u32" => some .u32 | "u64" => some .u64 | "uint" => some .uint
  | _ => none

def ikOut : IK → String
  | .i8 => "i8" | .i16 => "i16" | .i32 => "i32" | .i64 => "i64" | .int => "int"
  | .u8 => "u8" | .u16 => "u16" | .u32 => "u32" | .u64 => "u64" | .uint => "uint"

def nt? (s : String) : Option NT :=
  if s = "f32" then some .f32 else if s = "f64" then some .f64 else (ik? s).map .i

def num? (t : String) : Option Num :=
  match t.splitOn ":" with
  | ["f", h] => (f64? h).map .f64
  | ["f64", h] => (f64? h).map .f64
  | ["f32", h] => (f64? h).map .f32
  | [k, i] => do let k ← ik? k; let i ← int? i; pure (.int k i)
  | _ => none

def numOut : Num → String
  | .int k i => ikOut k ++ ":" ++ toString i
  | .f32 x => "f32:" ++ f64Out x
  | .f64 x => "f64:" ++ f64Out x

def resOut {α} (f : α → String) : Res α → String
  | .ok a => "ok:" ++ f a
  | .rangeErr => "throw:RangeError"
  | .typeErr => "throw:TypeError"
  | .goPanic => "gopanic"

/-! deviation regions – decidable predicates over the request -/

/-- the call path rounds silently when the target is a float type -/
def devNum (v : Num) (t : NT) : List String :=
  if v.ty = t then [] else
  match v, t with
  | .int _ _, .f64 => if Spec.sameNumber v (Spec.asF64 v) then [] else ["call_int_to_float_rounds"]
  | .int _ _, .f32 => if Spec.sameNumber v (toF32 (Spec.asF64 v)) then [] else ["call_int_to_float_rounds"]
  | .f64 x, .f32 =>
    if overflowFloat32 x then [] else if Spec.sameNumber v (toF32 x) then [] else ["call_f64_to_f32_rounds"]
  | .f64 _, .i k | .f32 _, .i k =>
    -- int64(f) is taken first (runtime.go:237), so exact integers in [2^63, 2^64) never reach a uint64/uint parameter
    if k.signed then [] else
    match Spec.exactInt? v with
    | some i => if (2^63 : Int) ≤ i ∧ i ≤ k.hi then ["call_float_ge_2p63_to_uint_rejected"] else []
    | none => []
  | _, _ => []

def devOut (ds : List String) : String := if ds.isEmpty then "-" else ",".intercalate ds

def reply (m s : String) (dev : List String) : String := m ++ " " ++ s ++ " " ++ devOut dev

def handle (ws : List String) : String :=
  match ws with
  | ["num", t, n] => match nt? t, num? n with
    | some t, some v =>
      reply (resOut numOut (convertNumeric v t)) (resOut numOut (Spec.convertNumeric v t)) (devNum v t)
    | _, _ => "bad-op"
  | _ => "bad-op"

end OttoVerif.C16.Driver
