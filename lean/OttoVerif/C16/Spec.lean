/-
  C16/Spec — what the property text demands of the bridge ("convert exactly or fail loudly").
  Written from the property statement, not from the code:

    a numeric argument / stored value arrives as a Go value of the target type that denotes EXACTLY the
    same number (no truncation, wrap or rounding for any width), otherwise a RangeError is thrown;
    a value that is not a number never becomes a Go number (TypeError).

  The spec is "round to the target type, then demand that nothing was lost".
-/
import OttoVerif.C16.Model
namespace OttoVerif.C16.Spec
open OttoVerif.F64 OttoVerif.C16

/-- the integer a Go numeric value denotes, if it denotes one -/
def exactInt? : Num → Option Int
  | .int _ i => some i
  | .f32 x | .f64 x =>
    match x with
    | .fin s m e => if isIntegral m e then some (truncInt (.fin s m e)) else none
    | _ => none

/-- the double a Go numeric value is closest to (Go's conversion to float64) -/
def asF64 : Num → FV
  | .int _ i => ofInt i
  | .f32 x | .f64 x => x

/-- does the double `y` denote exactly the number `v` denotes?  (NaN denotes NaN.) -/
def sameNumber (v : Num) (y : FV) : Bool :=
  match v with
  | .int _ i => (match y with | .fin s m e => isIntegral m e && truncInt (.fin s m e) == i | _ => false)
  | .f32 x | .f64 x => (isNaN x && isNaN y) || eqNum x y

/-- exact conversion of a number to the Go numeric type `t`, or RangeError -/
def convertNumeric (v : Num) (t : NT) : Res Num :=
  match t with
  | .i k =>
    match exactInt? v with
    | some i => if k.lo ≤ i ∧ i ≤ k.hi then .ok (.int k i) else .rangeErr
    | none => .rangeErr
  | .f64 =>
    match v with
    | .f64 x | .f32 x => .ok (.f64 x)          -- every float32 is a float64
    | .int _ i => let y := ofInt i; if sameNumber v y then .ok (.f64 y) else .rangeErr
  | .f32 =>
    match v with
    | .f32 x => .ok (.f32 x)
    | .f64 x =>
      -- finite magnitudes beyond MaxFloat32 are not float32 values; otherwise the nearest float32 must be x itself
      if lt maxF32 (abs x) && !isInf x then .rangeErr
      else let y := toF32 x; if sameNumber v y then .ok (.f32 y) else .rangeErr
    | .int _ i => let y := toF32 (ofInt i); if sameNumber v y then .ok (.f32 y) else .rangeErr

/-- the property text for structured arguments: built element-wise from exact numeric conversions; a number
    given for a Go `string` parameter arrives as its JavaScript ToString; an array hole is `undefined` -/
def leaf : Leaf := { num := convertNumeric, numStr := jsNumToString, holeIsUndefined := true }

def convertCallParameter (v : JV) (t : GT) : Res GV := conv leaf v t

/-- container writes use "the same checked conversion" as calls, and failures are script-visible errors,
    never Go panics; `length` assignments act on the JavaScript object's view of the slice -/
def store : StoreSem := { cv := convertCallParameter }

/-! ## struct field lookup: "by field name or json tag, unexported fields hidden, embedded structs searched
    depth-first" – stated as a search over the flattened list of reachable (name, path) bindings -/

def visible (name : Str) : Bool := match name with | [] => false | c :: _ => 65 ≤ c ∧ c ≤ 90

mutual
/-- all (key, path) bindings of a struct type in lookup order -/
def bindingsT (t : GT) : List (Str × List Nat) :=
  match t with
  | .struct fs => bindingsF fs 0
  | _ => []
def bindingsF (fs : Fields) (i : Nat) : List (Str × List Nat) :=
  match fs with
  | .nil => []
  | .cons fname tag anon ty rest =>
    if !visible fname then bindingsF rest (i+1)
    else
      (if anon then (bindingsT ty).map (fun b => (b.1, i :: b.2)) else []) ++
      (if tag = [45] then [] else ((if tag ≠ [] then [(tag, [i])] else []) ++ [(fname, [i])])) ++
      bindingsF rest (i+1)
end

def fieldLookup (t : GT) (name : Str) : Option (List Nat) :=
  ((bindingsT t.base).find? (fun b => b.1 = name)).map (·.2)

/-- `zoo` scenarios where the property text demands something else than the code does: (scenario, demanded
    outcome, region) -/
def zooSpec : List (String × String × String) :=
  [("byval_struct_write", "!throw:TypeError", "struct_by_value_write_go_panic"),
   ("nilptr_embedded_read", "undefined,false|go:true", "struct_nil_embedded_pointer_go_panic"),
   ("nilptr_embedded_write", "!throw:TypeError", "struct_nil_embedded_pointer_go_panic"),
   ("defined_int", "main.zMyInt:5", "defined_type_parameter_go_panic"),
   ("defined_string", "main.zMyStr:amain.zMyStr:7", "defined_type_parameter_go_panic"),
   ("defined_bool", "main.zMyBool:truemain.zMyBool:false", "defined_type_parameter_go_panic"),
   ("defined_float", "main.zMyF:1.5main.zMyF:2", "defined_type_parameter_go_panic"),
   ("defined_slice_elem", "[]main.zMyInt:[1 2]", "defined_type_parameter_go_panic"),
   ("defined_key_read", "apundefinedtrue1,16", "defined_key_type_go_panic"),
   ("defined_key_write", "bundefined|go:map[2:b]", "defined_key_type_go_panic"),
   ("defined_key_param", "map[main.zSK]int:map[a:1]", "defined_key_type_go_panic"),
   ("ptr_to_value_param", "{C:1 S:[1 2 3]}", "call_pointer_for_struct_value_zeroed"),
   ("slice_field_push", "4:1,2,3,4|go:[1 2 3 4]", "slice_field_growth_lost"),
   ("slice_field_setlen", "5:1,2,3,0,0|go:[1 2 3 0 0]", "slice_field_growth_lost"),
   ("slice_field_regrow", "1,0,0|go:[1 0 0]", "slice_regrow_reveals_stale_elements"),
   ("shadowed_field", "outer,z|go:z,inner", "struct_lookup_depth_first_not_shallowest"),
   ("promoted_ptr_write", "q|go:0,0,q", "struct_write_dropped_expando"),
   ("unexported_embedded_write", "!throw:TypeError", "struct_write_dropped_expando"),
   ("dash_field_write", "4|go:0,0,ia", "struct_dash_tag_read_only"),
   ("keys_after_dropped_writes", "!throw:TypeError", "struct_write_dropped_expando"),
   ("int_key_alias_hex", "undefined,false|go:map[0:5 16:1]", "map_key_non_canonical_alias"),
   ("int_key_alias_underscore", "undefined|go:map[0:5 16:1]", "map_key_non_canonical_alias"),
   ("int_key_alias_plus", "undefined,undefined|go:map[0:5 16:1]", "map_key_non_canonical_alias"),
   ("int_key_alias_negzero", "undefined|go:map[0:5 16:1]", "map_key_non_canonical_alias"),
   ("bool_key_alias", "undefined,undefined,undefined", "map_key_non_canonical_alias"),
   ("int_key_delete_unconvertible", "true|go:map[0:5 16:1]", "map_delete_unconvertible_key_throws"),
   ("slice_unshift", "5:8,9,1,2,3|go:[8 9 1]", "slice_write_beyond_length_rejected"),
   ("slice_splice_insert", ":1,7,7,2,3|go:[1 7 7]", "slice_write_beyond_length_rejected")]

end OttoVerif.C16.Spec
