/-
  C16/Spec — what the property text demands of the bridge ("convert exactly or fail loudly").
  Written from the property statement, not from the code:

    a numeric argument / stored value arrives as a Go value of the target type that denotes EXACTLY the
    same number (no truncation, wrap or rounding for any width), otherwise a RangeError is thrown;
    a value that is not a number never becomes a Go number (TypeError).

  The spec is "round to the target type, then demand that nothing was lost".
-/
import OttoVerif.C16.Model
namespace OttoVerif.C16.Spec
open OttoVerif.F64 OttoVerif.C16

/-- the integer a Go numeric value denotes, if it denotes one -/
def exactInt? : Num → Option Int
  | .int _ i => some i
  | .f32 x | .f64 x =>
    match x with
    | .fin s m e => if isIntegral m e then some (truncInt (.fin s m e)) else none
    | _ => none

/-- the double a Go numeric value is closest to (Go's conversion to float64) -/
def asF64 : Num → FV
  | .int _ i => ofInt i
  | .f32 x | .f64 x => x

/-- does the double `y` denote exactly the number `v` denotes?  (NaN denotes NaN.) -/
def sameNumber (v : Num) (y : FV) : Bool :=
  match v with
  | .int _ i => (match y with | .fin s m e => isIntegral m e && truncInt (.fin s m e) == i | _ => false)
  | .f32 x | .f64 x => (isNaN x && isNaN y) || eqNum x y

/-- exact conversion of a number to the Go numeric type `t`, or RangeError -/
def convertNumeric (v : Num) (t : NT) : Res Num :=
  match t with
  | .i k =>
    match exactInt? v with
    | some i => if k.lo ≤ i ∧ i ≤ k.hi then .ok (.int k i) else .rangeErr
    | none => .rangeErr
  | .f64 =>
    match v with
    | .f64 x | .f32 x => .ok (.f64 x)          -- every float32 is a float64
    | .int _ i => let y := ofInt i; if sameNumber v y then .ok (.f64 y) else .rangeErr
  | .f32 =>
    match v with
    | .f32 x => .ok (.f32 x)
    | .f64 x =>
      -- finite magnitudes beyond MaxFloat32 are not float32 values; otherwise the nearest float32 must be x itself
      if lt maxF32 (abs x) && !isInf x then .rangeErr
      else let y := toF32 x; if sameNumber v y then .ok (.f32 y) else .rangeErr
    | .int _ i => let y := toF32 (ofInt i); if sameNumber v y then .ok (.f32 y) else .rangeErr

/-- the property text for structured arguments: built element-wise from exact numeric conversions; a number
    given for a Go `string` parameter arrives as its JavaScript ToString; an array hole is `undefined` -/
def leaf : Leaf := { num := convertNumeric, numStr := jsNumToString, holeIsUndefined := true }

def convertCallParameter (v : JV) (t : GT) : Res GV := conv leaf v t

/-- container writes use "the same checked conversion" as calls, and failures are script-visible errors,
    never Go panics; `length` assignments act on the JavaScript object's view of the slice -/
def store : StoreSem := { cv := convertCallParameter }

/-! ## struct field lookup: "by field name or json tag, unexported fields hidden, embedded structs searched
    depth-first" – stated as a search over the flattened list of reachable (name, path) bindings -/

def visible (name : Str) : Bool := match name with | [] => false | c :: _ => 65 ≤ c ∧ c ≤ 90

mutual
/-- all (key, path) bindings of a struct type in lookup order -/
def bindingsT (t : GT) : List (Str × List Nat) :=
  match t with
  | .struct fs => bindingsF fs 0
  | _ => []
def bindingsF (fs : Fields) (i : Nat) : List (Str × List Nat) :=
  match fs with
  | .nil => []
  | .cons fname tag anon ty rest =>
    if !visible fname then bindingsF rest (i+1)
    else
      (if anon then (bindingsT ty).map (fun b => (b.1, i :: b.2)) else []) ++
      (if tag = [45] then [] else ((if tag ≠ [] then [(tag, [i])] else []) ++ [(fname, [i])])) ++
      bindingsF rest (i+1)
end

def fieldLookup (t : GT) (name : Str) : Option (List Nat) :=
  ((bindingsT t.base).find? (fun b => b.1 = name)).map (·.2)

/-- `zoo` scenarios where the property text demands something else than the code does: (scenario, demanded
    outcome, region) -/
def zooSpec : List (String × String × String) :=
  [("shadowed_field", "outer,z|go:z,inner", "struct_lookup_depth_first_not_shallowest"),
   ("slice_unshift", "5:8,9,1,2,3|go:[8 9 1]", "slice_write_beyond_length_rejected"),
   ("slice_splice_insert", ":1,7,7,2,3|go:[1 7 7]", "slice_write_beyond_length_rejected"),
   ("struct_promoted_enumeration", "true,x,true|A,B,Y,ZIn|A,B,Y,ZIn", "struct_promoted_fields_not_enumerated"),
   ("nested_container_identity", "true,true,true", "bridged_value_identity_not_preserved"),
   ("store_array_into_slice_elem", "stored:4,5|go:[{1 []}]|[[4 5]]|false|[[1 2]]|int:1", "store_array_into_slice_element_rejected"),
   ("nested_array_elem_write", "v:9|go:[[1 9] [3 4]]|[[1 2]]|[{1 []}]", "nested_element_is_a_copy"),
   ("slice_of_array_elem_write", "v:9|go:[[1 2] [3 4]]|[[1 9]]|[{1 []}]", "nested_element_is_a_copy"),
   ("slice_of_struct_field_write", "v:5|go:[[1 2] [3 4]]|[[1 2]]|[{5 []}]", "nested_element_is_a_copy")]

end OttoVerif.C16.Spec
