/-
  C16/Model — transcription of otto's Go⇄JavaScript bridge conversions.
    runtime.go : convertNumeric (l.213), fieldIndexByName (l.291), convertCallParameter (l.341),
                 the reflect.Func wrapper in (*runtime).toValue (l.692-779)
    value.go   : Value.toReflectValue (l.741), stringToReflectValue (l.883), Value.number (value_number.go l.144),
                 toIntegerFloat (value_number.go l.117)
    type_go_slice.go / type_go_array.go / type_go_map.go / type_go_struct.go : property get/put/delete
  Go's `reflect` range predicates (OverflowInt/Uint/Float) and integer/float conversions are
  modelled as exact arithmetic (trusted base: Base/F64, amd64 float→int conversion).
-/
import OttoVerif.Base.F64
import OttoVerif.Base.ParseNumber
namespace OttoVerif.C16
open OttoVerif.F64

/-! ## Go numeric kinds -/

/-- Go integer kinds (64-bit platform: int = int64, uint = uint64 in range). -/
inductive IK | i8 | i16 | i32 | i64 | int | u8 | u16 | u32 | u64 | uint
deriving DecidableEq, Repr, Inhabited

def IK.signed : IK → Bool
  | .i8 | .i16 | .i32 | .i64 | .int => true
  | _ => false

def IK.bits : IK → Nat
  | .i8 | .u8 => 8 | .i16 | .u16 => 16 | .i32 | .u32 => 32 | _ => 64

def IK.lo (k : IK) : Int := if k.signed then -(2 ^ (k.bits - 1) : Int) else 0
def IK.hi (k : IK) : Int := if k.signed then (2 ^ (k.bits - 1) : Int) - 1 else (2 ^ k.bits : Int) - 1

/-- numeric Go types -/
inductive NT | i (k : IK) | f32 | f64
deriving DecidableEq, Repr, Inhabited

/-- A Go numeric value: what a JavaScript number `Value` carries in `.value` (value.go toValue keeps
    the Go kind) and also what a Go callee receives.  `f32 x`: `x` is the float32 widened to a double. -/
inductive Num where
  | int (k : IK) (i : Int)
  | f32 (x : FV)
  | f64 (x : FV)
deriving DecidableEq, Repr, Inhabited

def Num.ty : Num → NT
  | .int k _ => .i k | .f32 _ => .f32 | .f64 _ => .f64

/-- outcome of a bridge operation as the script / embedder observes it -/
inductive Res (α : Type) where
  | ok (a : α)
  | rangeErr            -- RangeError thrown into the script
  | typeErr             -- TypeError thrown into the script
  | goPanic             -- a Go panic that is not an otto exception (escapes vm.Run)
deriving DecidableEq, Repr, Inhabited

def Res.bind {α β} (r : Res α) (f : α → Res β) : Res β :=
  match r with
  | .ok a => f a
  | .rangeErr => .rangeErr
  | .typeErr => .typeErr
  | .goPanic => .goPanic

def Res.map {α β} (f : α → β) (r : Res α) : Res β := r.bind (fun a => .ok (f a))

/-! ## float32 rounding (Go `float32(f64)`, IEEE round-to-nearest-even) -/

/-- `roundPos` of Base/F64 for binary32: 24-bit significand, emin = -149, largest exponent 104. -/
def roundPos32 (num den : Nat) : Option (Nat × Int) :=
  let l : Int := (Nat.log2 num : Int) - (Nat.log2 den : Int)
  let e0 : Int := l - 23
  let scaledLt (e : Int) : Bool :=
    if e ≥ 0 then num < den * 2^(e.toNat) * 2^23 else num * 2^((-e).toNat) < den * 2^23
  let e1 : Int := if scaledLt e0 then e0 - 1 else e0
  let e : Int := if e1 < -149 then -149 else e1
  let m : Nat := if e ≥ 0 then divRNE num (den * 2^(e.toNat)) else divRNE (num * 2^((-e).toNat)) den
  let (m, e) := if m = 2^24 then (2^23, e + 1) else (m, e)
  if e > 104 then none else some (m, e)

/-- Go `float32(x)` for a float64 `x`, result widened back to a double -/
def toF32 : FV → FV
  | .nan => .nan
  | .inf s => .inf s
  | .fin s m e =>
    if m = 0 then .fin s 0 0
    else
      let r := if e ≥ 0 then roundPos32 (m * 2^(e.toNat)) 1 else roundPos32 m (2^((-e).toNat))
      match r with
      | none => .inf s
      | some (m', e') => .fin s m' e'

/-- math.MaxFloat32 = (2^24 - 1)·2^104 -/
def maxF32 : FV := .fin false (2^24 - 1) 104

/-- reflect.Value.OverflowFloat for a float32 target (reflect/value.go overflowFloat32):
    `if x < 0 { x = -x }; return math.MaxFloat32 < x && x <= math.MaxFloat64` -/
def overflowFloat32 (x : FV) : Bool := lt maxF32 (abs x) && !isInf x

/-! ## Go integer ⇄ float conversions -/

/-- Go (amd64) `int64(f)` for float64 f: truncation in range, else 0x8000000000000000. -/
def goInt64 (x : FV) : Int :=
  match x with
  | .fin .. => let t := truncInt x; if -(2^63 : Int) ≤ t ∧ t < 2^63 then t else -(2^63 : Int)
  | _ => -(2^63 : Int)

def two63 : FV := .fin false 1 63
def negTwo63 : FV := .fin true 1 63
def two64 : FV := .fin false 1 64

/-- Go (amd64) `uint64(f)` for 0 ≤ f: truncation below 2^64, else 0x8000000000000000 -/
def goUint64 (x : FV) : Int :=
  match x with
  | .fin false m e => let t : Int := truncAbs m e; if t < 2^64 then t else 2^63
  | .fin true m e => let t : Int := truncAbs m e; if t = 0 then 0 else 2^63   -- not reached (range-checked)
  | _ => 2^63

/-- reflect OverflowInt / OverflowUint for the kind `k` applied to an in-range int64 / uint64 -/
def overflows (k : IK) (i : Int) : Bool := decide (i < k.lo) || decide (k.hi < i)

/-! ## convertNumeric (runtime.go:213) -/

/-- second `switch val.Kind()` of convertNumeric: the source is integer-kinded.
    `srcSigned` selects the `reflect.Int…` arm (val.Int()) or the `reflect.Uint…` arm (val.Uint()). -/
def convertFromInt (srcSigned : Bool) (i : Int) (t : NT) : Res Num :=
  match t with
  | .i k =>
    if srcSigned then
      if k.signed then
        (if overflows k i then .rangeErr else .ok (.int k i))                 -- l.254
      else
        (if i < 0 then .rangeErr                                              -- l.259
         else if overflows k i then .rangeErr else .ok (.int k i))            -- l.262
    else
      if k.signed then
        (if i > 2^63 - 1 ∨ overflows k i then .rangeErr else .ok (.int k i))  -- l.274
      else
        (if overflows k i then .rangeErr else .ok (.int k i))                 -- l.279
  | .f64 => .ok (.f64 (ofInt i))                  -- val.Convert(t): reflect cvtIntFloat = float64(i)
  | .f32 => .ok (.f32 (toF32 (ofInt i)))          -- reflect cvtIntFloat: float32(float64(i))

def convertNumeric (v : Num) (t : NT) : Res Num :=
  if v.ty = t then .ok v                                                    -- l.216
  else match v with
  | .int k i => convertFromInt k.signed i t
  | .f32 x | .f64 x =>                                                      -- l.225
    match t with
    | .f64 => .ok (.f64 x)
    | .f32 => if overflowFloat32 x then .rangeErr else .ok (.f32 (toF32 x))  -- l.231
    | .i _ =>
      if le two63 x && lt x two64 then convertFromInt false (goUint64 x) t  -- [2^63, 2^64): through uint64, then l.270
      else
      let i64 := goInt64 x                                                  -- int64(f64)
      if eqNum (ofInt i64) x then convertFromInt true i64 t                 -- float64(i64) != f64, then l.250
      else .rangeErr

/-! ## Go types, JavaScript values, Go values -/

abbrev Str := List Nat      -- Go string = bytes

mutual
/-- Go parameter / element / field types of the bridged family -/
inductive GT where
  | bool | num (t : NT) | str | any
  | slice (e : GT)
  | map (e : GT)                 -- map[string]e
  | ptr (e : GT)
  | struct (fs : Fields)
/-- struct type description: Go field name, first part of the json tag ("" = none), embedded?, type -/
inductive Fields where
  | nil
  | cons (name : Str) (tag : Str) (anon : Bool) (ty : GT) (rest : Fields)
end

mutual
/-- JavaScript argument values (numbers carry their Go payload kind) -/
inductive JV where
  | undef | null
  | bool (b : Bool)
  | num (n : Num)
  | str (s : Str)
  | arr (es : JVs)               -- an Array (class "Array"), possibly with holes
  | obj (ps : JPs)               -- a plain Object: own enumerable data properties in insertion order
inductive JVs where
  | nil
  | hole (rest : JVs)
  | cons (v : JV) (rest : JVs)
inductive JPs where
  | nil
  | cons (k : Str) (v : JV) (rest : JPs)
end

mutual
/-- Go values as the callee observes them (nil and empty slices/maps are not distinguished) -/
inductive GV where
  | bool (b : Bool)
  | num (n : Num)
  | str (s : Str)
  | anyNil
  | any (v : GV)                 -- a non-nil interface{} holding v
  | ptrNil
  | ptr (v : GV)
  | slice (es : GVs)
  | map (ps : GPs)               -- in insertion order; compared sorted
  | struct (fs : GVs)
inductive GVs where
  | nil
  | cons (v : GV) (rest : GVs)
inductive GPs where
  | nil
  | cons (k : Str) (v : GV) (rest : GPs)
end

def GVs.append : GVs → GVs → GVs
  | .nil, b => b
  | .cons v r, b => .cons v (r.append b)

def GVs.length : GVs → Nat
  | .nil => 0
  | .cons _ r => r.length + 1

def GPs.set (k : Str) (v : GV) : GPs → GPs            -- reflect SetMapIndex
  | .nil => .cons k v .nil
  | .cons k' v' r => if k' = k then .cons k v r else .cons k' v' (GPs.set k v r)

def GVs.setAt : GVs → Nat → GV → GVs
  | .nil, _, _ => .nil
  | .cons _ r, 0, x => .cons x r
  | .cons v r, n+1, x => .cons v (r.setAt n x)

def GVs.getAt : GVs → Nat → Option GV
  | .nil, _ => none
  | .cons v _, 0 => some v
  | .cons _ r, n+1 => r.getAt n

def zeroNum : NT → Num
  | .i k => .int k 0 | .f32 => .f32 zero | .f64 => .f64 zero

mutual
/-- reflect.Zero(t) -/
def GT.zero : GT → GV
  | .bool => .bool false
  | .num t => .num (zeroNum t)
  | .str => .str []
  | .any => .anyNil
  | .slice _ => .slice .nil
  | .map _ => .map .nil
  | .ptr _ => .ptrNil
  | .struct fs => .struct fs.zeros
def Fields.zeros : Fields → GVs
  | .nil => .nil
  | .cons _ _ _ ty rest => .cons ty.zero rest.zeros
end

/-- pointer depth and pointee of `***T` -/
def GT.depth : GT → Nat
  | .ptr e => e.depth + 1
  | _ => 0
def GT.base : GT → GT
  | .ptr e => e.base
  | t => t

def wrapPtr : Nat → GV → GV
  | 0, v => v
  | n+1, v => .ptr (wrapPtr n v)

def JV.isNullish : JV → Bool
  | .undef | .null => true
  | _ => false

/-! ## fieldIndexByName (runtime.go:291) and struct field access -/

/-- validGoStructName (type_go_struct.go:93): first byte in 'A'..'Z' -/
def validGoStructName : Str → Bool
  | [] => false
  | c :: _ => 65 ≤ c ∧ c ≤ 90

def dash : Str := [45]

mutual
def fieldIndexT (t : GT) (name : Str) : Option (List Nat) :=
  match t with
  | .struct fs => fieldIndexF fs 0 name
  | _ => none
def fieldIndexF (fs : Fields) (i : Nat) (name : Str) : Option (List Nat) :=
  match fs with
  | .nil => none
  | .cons fname tag anon ty rest =>
    if !validGoStructName fname then fieldIndexF rest (i+1) name          -- l.299
    else
      match (if anon then (fieldIndexT ty name) else none) with           -- l.303-312 (non-struct types yield none)
      | some p => some (i :: p)
      | none =>
        if tag ≠ [] ∧ tag = dash then fieldIndexF rest (i+1) name         -- l.316
        else if tag ≠ [] ∧ tag = name then some [i]                       -- l.320
        else if fname = name then some [i]                                -- l.325
        else fieldIndexF rest (i+1) name
end

def fieldIndexByName (t : GT) (name : Str) : Option (List Nat) := fieldIndexT t.base name

def Fields.nth : Fields → Nat → Option (Str × Str × Bool × GT)
  | .nil, _ => none
  | .cons n tg a ty _, 0 => some (n, tg, a, ty)
  | .cons _ _ _ _ r, i+1 => r.nth i

/-- type reached by an index path -/
def typeAt : GT → List Nat → Option GT
  | t, [] => some t
  | .struct fs, i :: p => match fs.nth i with | some (_, _, _, ty) => typeAt ty p | none => none
  | _, _ :: _ => none

/-- reflect FieldByIndex (read) -/
def gvAt : GV → List Nat → Option GV
  | v, [] => some v
  | .struct fs, i :: p => match fs.getAt i with | some f => gvAt f p | none => none
  | _, _ :: _ => none

/-- Field(i)…Set(x) along an index path -/
def gvSetAt : GV → List Nat → GV → GV
  | _, [], x => x
  | .struct fs, i :: p, x => match fs.getAt i with
    | some f => .struct (fs.setAt i (gvSetAt f p x))
    | none => .struct fs
  | v, _ :: _, _ => v

/-! ## Value → string / bool helpers used by the bridge -/

def natDigitsAux : Nat → Nat → List Nat → List Nat
  | 0, _, acc => acc
  | fuel+1, n, acc => if n < 10 then (48 + n) :: acc else natDigitsAux fuel (n / 10) ((48 + n % 10) :: acc)

/-- decimal digits of a natural number, as bytes -/
def natDec (n : Nat) : Str := natDigitsAux (n + 1) n []

def intDec (i : Int) : Str := if i < 0 then 45 :: natDec i.natAbs else natDec i.natAbs

def ofAscii (s : String) : Str := s.toList.map Char.toNat

/-- JavaScript ToString of a Number (ES5 9.8.1, Value.string), modelled for integer payloads below 2^53 and for
    doubles that are NaN, ±Inf, ±0 or integral below 2^53 (`none` otherwise; never generated for string targets) -/
def jsNumToString (n : Num) : Option Str :=
  let x : FV := match n with | .int _ i => ofInt i | .f32 x | .f64 x => x
  match n, x with
  | .int _ i, _ => if i.natAbs < 2^53 then some (intDec i) else none
  | _, .nan => some (ofAscii "NaN")
  | _, .inf s => some (ofAscii (if s then "-Infinity" else "Infinity"))
  | _, .fin s m e =>
    if m = 0 then some [48]
    else if isIntegral m e ∧ truncAbs m e < 2^53 then
      some ((if s then [45] else []) ++ natDec (truncAbs m e))
    else none

/-- Value.bool (value_boolean.go:10) -/
def toBool : JV → Bool
  | .undef | .null => false
  | .bool b => b
  | .num (.int _ i) => i != 0
  | .num (.f32 x) => !(isZero x)           -- `value != 0` (NaN != 0 is true)
  | .num (.f64 x) => !(isNaN x || isZero x)
  | .str s => s.length != 0
  | .arr _ | .obj _ => true

def sUndefined := ofAscii "undefined"
def sNull := ofAscii "null"
def sTrue := ofAscii "true"
def sFalse := ofAscii "false"
def sObject := ofAscii "[object Object]"

def joinComma : List Str → Str
  | [] => []
  | [a] => a
  | a :: rest => a ++ [44] ++ joinComma rest

mutual
/-- JavaScript ToString (Value.string) on the modelled domain; `none` = outside the modelled domain -/
def jsToString : JV → Option Str
  | .undef => some sUndefined
  | .null => some sNull
  | .bool b => some (if b then sTrue else sFalse)
  | .num n => jsNumToString n
  | .str s => some s
  | .arr es => (jsJoin es).map joinComma
  | .obj _ => some sObject
/-- Array.prototype.join pieces: undefined / null / holes print as "" -/
def jsJoin : JVs → Option (List Str)
  | .nil => some []
  | .hole r => (jsJoin r).map ([] :: ·)
  | .cons v r =>
    match (if v.isNullish then some [] else jsToString v), jsJoin r with
    | some a, some b => some (a :: b)
    | _, _ => none
end

/-! ## Value.export (value.go:614) for `interface{}` parameters -/

mutual
/-- the Go type of an exported value, as a canonical string (only equality matters) -/
def gvType : GV → Str
  | .bool _ => ofAscii "bool"
  | .num (.int k _) => ofAscii "int" ++ [k.bits, if k.signed then 1 else 0, if k = .int ∨ k = .uint then 1 else 0]
  | .num (.f32 _) => ofAscii "f32"
  | .num (.f64 _) => ofAscii "f64"
  | .str _ => ofAscii "string"
  | .anyNil | .any _ => ofAscii "iface"
  | .ptrNil | .ptr _ => ofAscii "ptr"
  | .slice es => ofAscii "[]" ++ gvElemType es
  | .map _ => ofAscii "map[string]iface"
  | .struct _ => ofAscii "struct"
def gvElemType : GVs → Str
  | .nil => ofAscii "iface"
  | .cons v _ => gvType v
end

/-- (Kind, key Kind, elem Kind) triple compared by export's state machine (value.go:659-678);
    0 = reflect.Invalid -/
def kindTriple : GV → Nat × Nat × Nat
  | .anyNil => (0, 0, 0)
  | .bool _ => (1, 0, 0)
  | .num (.int k _) => (match k with | .int => 2 | .i8 => 3 | .i16 => 4 | .i32 => 5 | .i64 => 6 | .uint => 7 | .u8 => 8 | .u16 => 9 | .u32 => 10 | .u64 => 11, 0, 0)
  | .num (.f32 _) => (13, 0, 0)
  | .num (.f64 _) => (14, 0, 0)
  | .str _ => (24, 0, 0)
  | .slice es => (23, 0, (match es with | .nil => 20 | .cons v _ => (kindOf v)))
  | .map _ => (21, 24, 20)
  | .any _ => (20, 0, 0)
  | .ptrNil | .ptr _ => (22, 0, 0)
  | .struct _ => (25, 0, 0)
where
  kindOf : GV → Nat
    | .anyNil | .any _ => 20
    | .bool _ => 1
    | .num (.int k _) => (match k with | .int => 2 | .i8 => 3 | .i16 => 4 | .i32 => 5 | .i64 => 6 | .uint => 7 | .u8 => 8 | .u16 => 9 | .u32 => 10 | .u64 => 11)
    | .num (.f32 _) => 13
    | .num (.f64 _) => 14
    | .str _ => 24
    | .slice _ => 23
    | .map _ => 21
    | .ptrNil | .ptr _ => 22
    | .struct _ => 25

def GVs.toList : GVs → List GV
  | .nil => []
  | .cons v r => v :: r.toList

def GVs.ofList : List GV → GVs
  | [] => .nil
  | v :: r => .cons v (GVs.ofList r)

/-- wrap exported elements: an element of `[]interface{}` is an interface value -/
def asAny : GV → GV
  | .anyNil => .anyNil
  | v => .any v

/-- the tail of export for an Array once the elements are exported (value.go:671-693) -/
def exportArrayFinish (elems : List GV) : Res GV :=
  match elems.getLast? with
  | none => .ok (.slice .nil)                                  -- state 0: []interface{}{}
  | some last =>
    let k0 := kindTriple (elems.headD .anyNil)
    let uniform := elems.all (fun e => kindTriple e = k0)
    if !uniform || k0.1 == 20 || k0.1 == 0 then
      .ok (.slice (GVs.ofList (elems.map asAny)))              -- no common type: []interface{}
    else if elems.all (fun e => gvType e = gvType last) then
      .ok (.slice (GVs.ofList elems))                          -- []T
    else .ok (.slice (GVs.ofList (elems.map asAny)))            -- elements of different types: no common type

mutual
def exportV : JV → Res GV
  | .undef | .null => .ok .anyNil
  | .bool b => .ok (.bool b)
  | .num n => .ok (.num n)
  | .str s => .ok (.str s)
  | .arr es => (exportElems es).bind exportArrayFinish
  | .obj ps => (exportProps ps).map .map
/-- holes are skipped (`!obj.hasProperty(name)`, value.go:652) -/
def exportElems : JVs → Res (List GV)
  | .nil => .ok []
  | .hole r => exportElems r
  | .cons v r => (exportV v).bind (fun a => (exportElems r).map (a :: ·))
/-- undefined-valued properties are skipped (value.go:700) -/
def exportProps : JPs → Res GPs
  | .nil => .ok .nil
  | .cons k v r =>
    match v with
    | .undef => exportProps r
    | _ => (exportV v).bind (fun a => (exportProps r).map (fun m => GPs.set k (asAny a) m))
end

/-! ## convertCallParameter (runtime.go:341) -/

/-- the parts in which the property text (Spec) and the code (Model) may differ -/
structure Leaf where
  num : Num → NT → Res Num            -- numeric conversion
  numStr : Num → Option Str           -- number → Go string parameter
  holeIsUndefined : Bool              -- an array hole converts like `undefined` (else: left at the zero value)

/-- pointers: undefined/null → nil pointer, otherwise a fresh pointer of the PARAMETER's element type to the
    converted pointee (runtime.go:387-404) -/
def GT.isAny : GT → Bool
  | .any => true
  | _ => false

def ptrWrap (t : GT) (v : JV) (r : Res GV) : Res GV :=
  if t.depth > 0 ∧ v.isNullish then .ok .ptrNil
  else r.map (wrapPtr t.depth)

def natKey (i : Nat) : Str := natDec i

/-- convertCallParameter(undefined, t) for a non-pointer type t (what `convB L .undef t` computes) -/
def convUndefB (t : GT) : Res GV :=
  match t with
  | .any => .ok .anyNil
  | .bool => .ok (.bool false)
  | .str => .ok (.str sUndefined)
  | _ => .typeErr

mutual
/-- convertCallParameter for a non-pointer target type `t` (pointer layers are handled by `ptrWrap`) -/
def convB (L : Leaf) (v : JV) (t : GT) : Res GV :=
  match t with
  | .ptr _ => .typeErr                                          -- not reached: `t` is a base type
  | .any => (exportV v).map asAny                               -- l.376
  | .bool => .ok (.bool (toBool v))                             -- l.409
  | .str =>                                                     -- l.411, l.582
    match v with
    | .str s => .ok (.str s)
    | .num n => (match L.numStr n with | some s => .ok (.str s) | none => .goPanic)
    | _ => (match jsToString v with | some s => .ok (.str s) | none => .goPanic)
  | .num nt =>                                                  -- l.418
    match v with
    | .num n => (L.num n nt).map .num
    | _ => .typeErr
  | .slice tt =>                                                -- l.422
    match v with
    | .arr es => (convElems L es tt).map .slice
    | _ => .typeErr
  | .map tt =>                                                  -- l.488
    match v with
    | .obj ps => (convProps L ps tt).map .map
    | .arr es => (convIndexed L es 0 tt).map .map
    | _ => .typeErr
  | .struct fs =>                                               -- l.541
    match v with
    | .obj ps => convFields L ps (.struct fs) (GT.zero (.struct fs))
    | _ => .typeErr
def convElems (L : Leaf) (es : JVs) (tt : GT) : Res GVs :=
  match es with
  | .nil => .ok .nil
  | .hole r =>
    (if L.holeIsUndefined then ptrWrap tt .undef (convUndefB tt.base) else .ok tt.zero).bind
      (fun a => (convElems L r tt).map (.cons a ·))
  | .cons v r => (ptrWrap tt v (convB L v tt.base)).bind (fun a => (convElems L r tt).map (.cons a ·))
def convProps (L : Leaf) (ps : JPs) (tt : GT) : Res GPs :=
  match ps with
  | .nil => .ok .nil
  | .cons k v r =>
    (ptrWrap tt v (convB L v tt.base)).bind (fun a => (convProps L r tt).map (fun m => .cons k a m))
/-- an Array given for a map parameter: its index properties are enumerated -/
def convIndexed (L : Leaf) (es : JVs) (i : Nat) (tt : GT) : Res GPs :=
  match es with
  | .nil => .ok .nil
  | .hole r => convIndexed L r (i+1) tt
  | .cons v r =>
    (ptrWrap tt v (convB L v tt.base)).bind (fun a => (convIndexed L r (i+1) tt).map (fun m => .cons (natKey i) a m))
/-- the struct loop over o.propertyOrder (l.545); `acc` is the struct being filled -/
def convFields (L : Leaf) (ps : JPs) (st : GT) (acc : GV) : Res GV :=
  match ps with
  | .nil => .ok acc
  | .cons k v r =>
    match fieldIndexByName st k with
    | none => .typeErr                                          -- l.549 field does not exist
    | some idx =>
      match typeAt st idx with
      | none => .typeErr
      | some ft => (ptrWrap ft v (convB L v ft.base)).bind (fun a => convFields L r st (gvSetAt acc idx a))
end

def conv (L : Leaf) (v : JV) (t : GT) : Res GV := ptrWrap t v (convB L v t.base)

/-- the code: convertNumeric, Value.string for numbers, elements read with [[Get]] (a hole is undefined) -/
def modelLeaf : Leaf := { num := convertNumeric, numStr := jsNumToString, holeIsUndefined := true }

def convertCallParameter (v : JV) (t : GT) : Res GV := conv modelLeaf v t

/-! ## the reflect.Func wrapper (runtime.go:707) -/

/-- a Go function signature: parameter types; for a variadic function the last entry is the ELEMENT type
    of the final `...T` parameter -/
structure Sig where
  ins : List GT
  variadic : Bool

def GVs.ofArr (l : List GV) : GVs := GVs.ofList l

def Res.isGoPanic {α} : Res α → Bool
  | .goPanic => true
  | _ => false

/-- convert the fixed (non-variadic-tail) arguments one by one; first failure wins -/
def convArgs (L : Leaf) : List JV → List GT → Res (List GV)
  | [], _ => .ok []
  | _, [] => .ok []
  | a :: as, t :: ts => (conv L a t).bind (fun g => (convArgs L as ts).map (g :: ·))

def convAll (L : Leaf) (as : List JV) (t : GT) : Res (List GV) :=
  match as with
  | [] => .ok []
  | a :: r => (conv L a t).bind (fun g => (convAll L r t).map (g :: ·))

/-- what the Go callee receives (its parameter list; the variadic tail as one slice), or the error -/
def callWrapper (L : Leaf) (sig : Sig) (args : List JV) : Res (List GV) :=
  let nargs := sig.ins.length
  if ¬ sig.variadic then
    if args.length ≠ nargs then .rangeErr                                   -- l.716
    else convArgs L args sig.ins
  else
    if args.length < nargs - 1 then .rangeErr                                -- l.713
    else
      let fixedT := sig.ins.take (nargs - 1)
      let et := sig.ins.getLastD .any
      let fixedA := args.take (nargs - 1)
      let tailA := args.drop (nargs - 1)
      (convArgs L fixedA fixedT).bind (fun fixed =>
        -- l.743: exactly nargs arguments: try the last one as the whole variadic slice
        match tailA with
        | [a] =>
          (match conv L a (.slice et) with
           | .ok s => .ok (fixed ++ [s])                                     -- CallSlice
           | .typeErr => (conv L a et).map (fun g => fixed ++ [.slice (.cons g .nil)])
           | .rangeErr => .rangeErr
           | .goPanic => .goPanic)
        | _ => (convAll L tailA et).map (fun gs => fixed ++ [.slice (GVs.ofList gs)]))

/-! ## Value.toReflectValue (value.go:741): the conversion used by slice / array / map writes -/

/-- Value.float64 (value_number.go:46) on primitives; `none` = Go panic (`float32` has no case; objects are
    not modelled) -/
def toFloat : JV → Option FV
  | .undef => some .nan
  | .null => some zero
  | .bool b => some (if b then one else zero)
  | .num (.int _ i) => some (ofInt i)
  | .num (.f64 x) => some x
  | .num (.f32 _) => none
  | .str s => some (OttoVerif.PN.parseNumber s)
  | .arr _ | .obj _ => none

/-- toIntegerFloat (value_number.go:117) -/
def toIntegerFloat (f : FV) : FV :=
  if isInf f then f
  else if isNaN f then zero
  else if lt zero f then floor f
  else ceil f


/-- Value.number().int64 (value_number.go:144) -/
def numberInt64 (v : JV) : Option Int :=
  let viaFloat : Option Int := (toFloat v).map (fun f =>
    if isZero f then 0
    else if isNaN f then 0
    else if le two63 f then 2^63 - 1                 -- float >= floatMaxInt64
    else if le f negTwo63 then -(2^63)               -- float <= floatMinInt64
    else goInt64 f)
  match v with
  | .num (.int k i) =>
    (match k with
     | .uint | .u64 => if i ≤ 2^63 - 1 then some i else viaFloat      -- uint/uint64 above MaxInt64 take the float path
     | _ => some i)
  | _ => viaFloat

/-- `_, frac := math.Modf(x); frac != 0` (the fraction of NaN and of ±Inf is NaN, and NaN != 0) -/
def fracNonzero : FV → Bool
  | .fin _ m e => !isIntegral m e
  | _ => true

def smallestF32 : FV := .fin false 1 (-149)

/-- Value.toReflectValue for primitive values and scalar / interface{} targets, as seen through its callers
    goSliceObject.setValue, goArrayObject.setValue and goMapObject.toValue.
    A returned `error` (every message starts with "RangeError: ") is raised by the callers through
    `goValueError` (type_go_slice.go:30, since fix bb377a4) as a JavaScript RangeError = `.rangeErr`.
    `.goPanic` remains for the genuine Go panic inside the conversion: `Value.float64` on a float32 payload
    (value_number.go:84). -/
def toReflectValue (v : JV) (t : GT) : Res GV :=
  let pre : Bool :=                                            -- the fraction guard (not for float, interface, bool, string kinds)
    match t with
    | .num .f32 | .num .f64 | .any | .bool | .str => false
    | _ => (match v with | .num (.f32 x) | .num (.f64 x) => fracNonzero x | _ => false)
  if pre then .rangeErr else
  match t with
  | .bool => .ok (.bool (toBool v))                            -- l.761
  | .num (.i k) =>
    (match k with
     | .int | .i64 =>                                          -- l.763, l.789
       (match toFloat v with
        | none => .goPanic
        | some f =>
          let tmp := toIntegerFloat f
          if lt tmp negTwo63 || le two63 tmp then .rangeErr          -- tmp >= 2^63
          else .ok (.num (.int k (goInt64 tmp))))
     | .uint | .u64 =>                                         -- l.797, l.823
       (match toFloat v with
        | none => .goPanic
        | some f =>
          let tmp := toIntegerFloat f
          if lt tmp zero || le two64 tmp then .rangeErr              -- tmp >= 2^64
          else .ok (.num (.int k (goUint64 tmp))))
     | _ =>                                                    -- Int8/16/32, Uint8/16/32
       (match numberInt64 v with
        | none => .goPanic
        | some tmp => if tmp < k.lo ∨ tmp > k.hi then .rangeErr else .ok (.num (.int k tmp))))
  | .num .f32 =>                                               -- l.831
    (match toFloat v with
     | none => .goPanic
     | some tmp =>
       let a := abs tmp
       if lt zero a && !isInf a && (lt a smallestF32 || lt maxF32 a) then .rangeErr
       else .ok (.num (.f32 (toF32 tmp))))
  | .num .f64 => (match toFloat v with | none => .goPanic | some x => .ok (.num (.f64 x)))   -- l.841
  | .str => (match jsToString v with | some s => .ok (.str s) | none => .goPanic)            -- l.844 (none: not modelled)
  | .any =>                                                    -- default branch, l.853
    (match v with
     | .undef | .null => .ok .anyNil         -- reflect.Zero(typ): the nil interface value
     | .arr _ | .obj _ => (exportV v).map asAny
     | .bool b => .ok (.any (.bool b))
     | .num n => .ok (.any (.num n))
     | .str s => .ok (.any (.str s)))
  | _ => .goPanic                                              -- containers/pointers: not modelled, never generated

/-- what a script reads back: toValue widens a float32 to a float64 payload (value.go:296) -/
def jsView : GV → Option GV
  | .num (.f32 x) => some (.num (.f64 x))
  | .anyNil | .ptrNil => none                       -- nil reads as undefined (value.go:325)
  | .any v => jsView v                              -- the dynamic value
  | .ptr (.struct fs) => some (.ptr (.struct fs))   -- a *struct stays a bridged struct object
  | .ptr (.num (.f32 x)) => some (.num (.f64 x))    -- drilled through by the reflect path (value.go:319), float32 widened
  | .ptr (.num n) => some (.num n)
  | .ptr v => jsView v
  | g => some g

/-! ## bridged slices: shared backing arrays (type_go_slice.go) -/

/-- a slice header over a heap of backing arrays (offset is always 0 here) -/
structure Hdr where
  addr : Nat
  len : Nat
  cap : Nat
deriving DecidableEq, Repr, Inhabited

/-- the Go variable `sl` and the reflect.Value copied into the JavaScript object share `heap[addr]` -/
structure SliceSt where
  heap : List (List GV)
  go : Hdr
  js : Hdr
  et : GT

def listSet {α} : List α → Nat → α → List α
  | [], _, _ => []
  | _ :: r, 0, x => x :: r
  | a :: r, n+1, x => a :: listSet r n x

def SliceSt.arr (s : SliceSt) (a : Nat) : List GV := s.heap.getD a []

def SliceSt.write (s : SliceSt) (a i : Nat) (x : GV) : SliceSt :=
  { s with heap := listSet s.heap a (listSet (s.arr a) i x) }

/-- contents seen through a header -/
def SliceSt.view (s : SliceSt) (h : Hdr) : List GV := (s.arr h.addr).take h.len

/-- Go `append(sl, x)` / reflect.Append on header h: in place if capacity allows, else a fresh array
    (Go's growth policy only matters through `cap`; the new capacity is supplied by the caller) -/
def SliceSt.appendTo (s : SliceSt) (h : Hdr) (x : GV) (newCap : Nat) : SliceSt × Hdr :=
  if h.len < h.cap then
    (s.write h.addr h.len x, { h with len := h.len + 1 })
  else
    let fresh := (s.view h ++ [x]) ++ List.replicate (newCap - (h.len + 1)) s.et.zero
    ({ s with heap := s.heap ++ [fresh] }, { addr := s.heap.length, len := h.len + 1, cap := max newCap (h.len + 1) })

/-- one step of a slice history -/
inductive SOp where
  | jsRead (i : Nat)
  | jsWrite (i : Nat) (v : JV)
  | jsLen
  | jsSetLen (n : Nat)
  | jsSetLenNeg                  -- `s.length = -1`
  | jsDelete (i : Nat)
  | goRead (i : Nat)
  | goWrite (i : Nat) (x : GV)
  | goLen
  | goAppend (x : GV) (newCap : Nat)

/-- what a step shows: a Go value, JavaScript `undefined`, a length, nothing, or a failure -/
inductive Obs where
  | val (g : GV)
  | undef
  | len (n : Nat)
  | unit
  | ignored              -- sloppy-mode [[Put]]/[[Delete]] that failed silently
  | goPanic
  | typeErr
  | rangeErr

def Obs.isFail : Obs → Bool
  | .goPanic | .typeErr | .rangeErr => true
  | _ => false

/-- the two places where the property text (Spec) and the code (Model) may differ on container writes -/
structure StoreSem where
  cv : JV → GT → Res GV          -- conversion applied to a stored value

def sliceStep (S : StoreSem) (s : SliceSt) : SOp → SliceSt × Obs
  | .jsRead i =>                                                -- goSliceGetOwnProperty
    (s, match ((s.view s.js)[i]?).bind jsView with | some g => .val g | none => .undef)
  | .jsLen => (s, .len s.js.len)
  | .goLen => (s, .len s.go.len)
  | .goRead i => (s, match (s.view s.go)[i]? with | some g => .val g | none => .goPanic)   -- Go index out of range
  | .goWrite i x => if i < s.go.len then (s.write s.go.addr i x, .unit) else (s, .goPanic)
  | .goAppend x nc => let (s', h) := s.appendTo s.go x nc; ({ s' with go := h }, .unit)
  | .jsWrite i v =>                                             -- goSliceObject.setValue (l.55)
    match S.cv v s.et with
    | .ok x =>
      if i < s.js.len then (s.write s.js.addr i x, .unit)
      else if i = s.js.len then
        let (s', h) := s.appendTo s.js x (if s.js.cap = 0 then 1 else 2 * s.js.cap)   -- reflect.Append growth (small slices double)
        ({ s' with js := h }, .unit)
      else (s, .ignored)
    | .goPanic => (s, .goPanic)
    | .typeErr => (s, .typeErr)
    | .rangeErr => (s, .rangeErr)
  | .jsSetLenNeg => (s, .rangeErr)                              -- goSliceObject.setLength: negative length
  | .jsSetLen n =>                                              -- goSliceObject.setLength
    if n = s.js.len then (s, .unit)
    else if n ≤ s.js.cap then
      -- fits the capacity: reslice of the object's own header; elements that become visible again are zeroed
      let arr := s.arr s.js.addr
      let arr' := (arr.take s.js.len) ++ List.replicate (n - s.js.len) s.et.zero ++ arr.drop (max n s.js.len)
      ({ s with heap := listSet s.heap s.js.addr (if n > s.js.len then arr' else arr), js := { s.js with len := n } }, .unit)
    else
      let fresh := s.view s.js ++ List.replicate (n - s.js.len) s.et.zero
      ({ s with heap := s.heap ++ [fresh], js := { addr := s.heap.length, len := n, cap := n } }, .unit)
  | .jsDelete i =>                                              -- goSliceDelete (l.133)
    if i < s.js.len then (s.write s.js.addr i s.et.zero, .unit) else (s, .ignored)

/-- run a history; it stops at the first failing step (the runtime is not reused after a failure) -/
def sliceRun (S : StoreSem) (s : SliceSt) : List SOp → SliceSt × List Obs
  | [] => (s, [])
  | op :: rest =>
    let (s', o) := sliceStep S s op
    if o.isFail then (s', [o])
    else let (s'', os) := sliceRun S s' rest; (s'', o :: os)

/-- the code: toReflectValue (errors raised as RangeError) -/
def modelStore : StoreSem := { cv := toReflectValue }

def SliceSt.init (et : GT) (elems : List GV) (cap : Nat) : SliceSt :=
  let c := max cap elems.length
  { heap := [elems ++ List.replicate (c - elems.length) et.zero], go := ⟨0, elems.length, c⟩, js := ⟨0, elems.length, c⟩, et := et }

/-! ## bridged maps (type_go_map.go): one shared Go map, string keys -/

inductive MOp where
  | jsRead (k : Str)
  | jsWrite (k : Str) (v : JV)
  | jsDelete (k : Str)
  | jsKeys
  | goRead (k : Str)
  | goWrite (k : Str) (x : GV)
  | goDelete (k : Str)

def GPs.get (k : Str) : GPs → Option GV
  | .nil => none
  | .cons k' v r => if k' = k then some v else GPs.get k r

def GPs.del (k : Str) : GPs → GPs
  | .nil => .nil
  | .cons k' v r => if k' = k then r else .cons k' v (GPs.del k r)

inductive MObs where
  | val (g : GV) | undef | unit | keys (m : GPs) | goPanic | typeErr | rangeErr

def MObs.isFail : MObs → Bool | .goPanic | .typeErr | .rangeErr => true | _ => false

/-- `isNil`: the bridged map is a nil Go map handed over by value: reads see an empty map, a write is a TypeError
    (goMapDefineOwnProperty; an addressable nil map would be allocated in place) -/
def mapStep (S : StoreSem) (et : GT) (isNil : Bool) (m : GPs) : MOp → GPs × MObs
  | .jsRead k => (m, match (m.get k).bind jsView with | some g => .val g | none => .undef)    -- goMapGetOwnProperty
  | .goRead k => (m, match m.get k with | some g => .val g | none => .val et.zero)
  | .jsWrite k v =>                                                            -- goMapDefineOwnProperty
    if isNil then (m, .typeErr) else
    (match S.cv v et with
     | .ok x => (m.set k x, .unit)
     | .goPanic => (m, .goPanic)
     | .typeErr => (m, .typeErr)
     | .rangeErr => (m, .rangeErr))
  | .goWrite k x => (m.set k x, .unit)
  | .jsDelete k => (m.del k, .unit)                                            -- goMapDelete
  | .goDelete k => (m.del k, .unit)
  | .jsKeys => (m, .keys m)                                                    -- goMapEnumerate (compared sorted)

def mapRun (S : StoreSem) (et : GT) (isNil : Bool) (m : GPs) : List MOp → GPs × List MObs
  | [] => (m, [])
  | op :: rest =>
    let (m', o) := mapStep S et isNil m op
    if o.isFail then (m', [o])
    else let (m'', os) := mapRun S et isNil m' rest; (m'', o :: os)

/-! ## bridged structs (type_go_struct.go), always through a pointer (addressable) -/

def Fields.toList : Fields → Nat → List (Nat × Str × Bool × GT)
  | .nil, _ => []
  | .cons n _ a ty rest, i => (i, n, a, ty) :: rest.toList (i+1)

/-- reflect (Value).FieldByName: breadth-first over embedded structs; at the shallowest depth with a match
    the match must be unique (Go's promotion rule), tags play no role -/
def fieldByNameBFS : Nat → List (List Nat × Fields) → Str → Option (List Nat)
  | 0, _, _ => none
  | fuel+1, level, name =>
    let all := level.flatMap (fun pf => (pf.2.toList 0).map (fun f => (pf.1 ++ [f.1], f.2.1, f.2.2.1, f.2.2.2)))
    match all.filter (fun f => f.2.1 = name) with
    | [h] => some h.1
    | _ :: _ :: _ => none
    | [] =>
      let next := all.filterMap (fun f =>
        if f.2.2.1 then (match f.2.2.2 with | .struct fs => some (f.1, fs) | _ => none) else none)
      if next.isEmpty then none else fieldByNameBFS fuel next name

/-- goStructObject.getValue (type_go_struct.go:37): index path of the field a property name reads, if any
    (methods are not modelled): fieldIndexByName first, then the FieldByName fallback for exported-looking names -/
def structGetPath (st : GT) (name : Str) : Option (List Nat) :=
  match fieldIndexByName st name with
  | some p => some p
  | none =>
    if validGoStructName name then
      (match st.base with
       | .struct fs => fieldByNameBFS 16 [([], fs)] name
       | _ => none)
    else none

inductive TOp where
  | jsRead (name : Str)
  | jsWrite (name : Str) (v : JV)
  | goRead (path : List Nat)
  | goWrite (path : List Nat) (x : GV)

/-- observations: a field value, `undefined` (hidden / unknown name), done, or an error.
    A write to a name that is not a bridged field lands on the JavaScript wrapper object (`shadow`) and a
    later read of that name returns the script's own value (`shadowRead`). -/
inductive TObs where
  | val (g : GV) | undef | unit | shadow | shadowRead | goPanic | typeErr | rangeErr

def TObs.isFail : TObs → Bool | .goPanic | .typeErr | .rangeErr => true | _ => false

structure StructSt where
  cur : GV
  shadows : List Str

/-- `byGoName`: reads AND writes fall back to reflect FieldByName (type_go_struct.go getValue / setValue), which also
    finds `json:"-"` fields -/
def structStep (L : Leaf) (byGoName : Bool) (st : GT) (s : StructSt) : TOp → StructSt × TObs
  | .jsRead name =>                                            -- goStructGetOwnProperty
    (s, match (if byGoName then structGetPath st name else fieldIndexByName st name) with
        | some p => (match (gvAt s.cur p).bind jsView with | some g => .val g | none => .undef)
        | none => if s.shadows.contains name then .shadowRead else .undef)
  | .goRead p => (s, match gvAt s.cur p with | some g => .val g | none => .undef)
  | .goWrite p x => ({ s with cur := gvSetAt s.cur p x }, .unit)
  | .jsWrite name v =>                                         -- goStructPut → setValue: the same resolution as reads
    match (if byGoName then structGetPath st name else fieldIndexByName st name) with
    | none => ({ s with shadows := name :: s.shadows }, .shadow)
    | some p =>
      match typeAt st.base p with
      | none => (s, .shadow)
      | some ft =>
        match conv L v ft with
        | .ok x => ({ s with cur := gvSetAt s.cur p x }, .unit)
        | .typeErr => (s, .typeErr)
        | .rangeErr => (s, .rangeErr)
        | .goPanic => (s, .goPanic)

def structRun (L : Leaf) (byGoName : Bool) (st : GT) (s : StructSt) : List TOp → StructSt × List TObs
  | [] => (s, [])
  | op :: rest =>
    let (s', o) := structStep L byGoName st s op
    if o.isFail then (s', [o])
    else let (s'', os) := structRun L byGoName st s' rest; (s'', o :: os)

/-! ## JavaScript-side observers of a bridged container (type_go_*.go getOwnProperty / enumerate, reached through
    `in`, hasOwnProperty, Object.keys, getOwnPropertyNames, for-in, getOwnPropertyDescriptor) -/

inductive VKind | slice | arrPtr | arrVal | map | struct
deriving DecidableEq, Repr, Inhabited

def VKind.isSeq : VKind → Bool
  | .slice | .arrPtr | .arrVal => true
  | _ => false

/-- a bridged container of small integers: ordered entries (sequences: decimal index ↦ element; maps: key ↦ value;
    structs: Go field name ↦ value, unexported fields included) and, for structs, json tag ↦ field name -/
structure VSt where
  kind : VKind
  ents : List (Str × Int)
  tags : List (Str × Str)

/-- canonical array index numerals (stringToArrayIndex, otto_.go:33): "0" or digits without a leading zero -/
def isIndexKey (k : Str) : Bool :=
  match k with
  | [] => false
  | [48] => true
  | c :: r => (49 ≤ c ∧ c ≤ 57) && r.all (fun d => 48 ≤ d ∧ d ≤ 57) && decide (k.length ≤ 9)

def lookupEnt (k : Str) : List (Str × Int) → Option Int
  | [] => none
  | (k', v) :: r => if k' = k then some v else lookupEnt k r

def lookupTag (k : Str) : List (Str × Str) → Option Str
  | [] => none
  | (t, n) :: r => if t = k then some n else lookupTag k r

def setEnt (k : Str) (v : Int) : List (Str × Int) → List (Str × Int)
  | [] => []
  | (k', v') :: r => if k' = k then (k, v) :: r else (k', v') :: setEnt k v r

def sLength : Str := [108, 101, 110, 103, 116, 104]

/-- the entry a property name addresses (struct: exported Go name, else json tag) -/
def VSt.resolve (s : VSt) (k : Str) : Option Str :=
  match s.kind with
  | .struct =>
    if validGoStructName k ∧ (lookupEnt k s.ents).isSome then some k
    else match lookupTag k s.tags with
      | some n => if (lookupEnt n s.ents).isSome then some n else none
      | none => none
  | _ => if (lookupEnt k s.ents).isSome then some k else none

/-- names listed by the class's enumerate (for-in, Object.keys, getOwnPropertyNames) -/
def VSt.keys (s : VSt) : List Str :=
  match s.kind with
  | .struct => (s.ents.filter (fun e => validGoStructName e.1)).map (·.1)
  | _ => s.ents.map (·.1)

/-- attribute bits writable/enumerable/configurable as a number 0..7 (octal mode of the property) -/
def elemMode : VKind → Nat
  | .slice => 6 | .arrPtr => 6 | .arrVal => 2 | .map => 7 | .struct => 6

/-- getOwnProperty: value (none = undefined) and mode, or no such property.
    `indexAlwaysOwn`: goSliceGetOwnProperty / goArrayGetOwnProperty answer EVERY array index with a property
    (value undefined beyond the length), type_go_slice.go:97, type_go_array.go:88 -/
def VSt.getOwn (indexAlwaysOwn : Bool) (s : VSt) (k : Str) : Option (Option Int × Nat) :=
  if s.kind.isSeq then
    if k = sLength then some (some s.ents.length, if s.kind = .slice then 6 else 0)
    else match lookupEnt k s.ents with
      | some v => some (some v, elemMode s.kind)
      | none => if indexAlwaysOwn ∧ isIndexKey k then some (none, elemMode s.kind) else none
  else match s.resolve k with
    | some n => (lookupEnt n s.ents).map (fun v => (some v, elemMode s.kind))
    | none => none

inductive VOp where
  | jsWrite (k : Str) (v : Int)
  | goWrite (k : Str) (v : Int)
  | jsDelete (k : Str)
  | goDelete (k : Str)

def delEnt (k : Str) : List (Str × Int) → List (Str × Int)
  | [] => []
  | (k', v) :: r => if k' = k then r else (k', v) :: delEnt k r

/-- one step (in-range element writes, map insert/remove, field writes by name or tag; appends are covered by the
    slice histories and never generated here) -/
def viewStep (s : VSt) : VOp → VSt
  | .jsWrite k v =>
    (match s.kind with
     | .arrVal => s                                            -- not writable
     | .map => if (lookupEnt k s.ents).isSome then { s with ents := setEnt k v s.ents } else { s with ents := s.ents ++ [(k, v)] }
     | _ => match s.resolve k with
       | some n => { s with ents := setEnt n v s.ents }
       | none => s)
  | .goWrite k v =>
    (match s.kind with
     | .map => if (lookupEnt k s.ents).isSome then { s with ents := setEnt k v s.ents } else { s with ents := s.ents ++ [(k, v)] }
     | .arrVal => s                                            -- the bridged object is a COPY of the Go array (value semantics)
     | _ => { s with ents := setEnt k v s.ents })
  | .jsDelete k =>
    (match s.kind with
     | .slice | .arrPtr => { s with ents := setEnt k 0 s.ents }   -- delete zeroes the element (goSliceDelete / goArrayDelete)
     | .map => { s with ents := delEnt k s.ents }
     | _ => s)
  | .goDelete k => (match s.kind with | .map => { s with ents := delEnt k s.ents } | _ => s)

/-- what the key observers report for the probe names -/
structure VObs where
  has : List Bool                        -- `k in o` and o.hasOwnProperty(k), per probe
  keys : List Str                        -- Object.keys = getOwnPropertyNames (without "length") = for-in
  desc : List (Option (Option Int × Nat))  -- getOwnPropertyDescriptor per probe
  contents : List (Str × Int)            -- the Go-side contents

def observe (indexAlwaysOwn : Bool) (s : VSt) (probes : List Str) : VObs :=
  { has := probes.map (fun k => (s.getOwn indexAlwaysOwn k).isSome),
    keys := s.keys,
    desc := probes.map (s.getOwn indexAlwaysOwn),
    contents := s.ents }

def viewRun (indexAlwaysOwn : Bool) (s : VSt) (probes : List Str) : List VOp → List VObs
  | [] => [observe indexAlwaysOwn s probes]
  | op :: rest => observe indexAlwaysOwn s probes :: viewRun indexAlwaysOwn (viewStep s op) probes rest

/-! ## several bridged structs of distinct Go types in one process (fieldIndexByName is a function of the TYPE) -/

/-- objects by name, each with its own field layout (Go field name ↦ value, in declaration order) -/
structure RecSt where
  objs : List (Str × List (Str × Int))
  shadows : List (Nat × Str × Str)        -- (runtime, object, name) written by a script although no such field exists

inductive ROp where
  | read (vm : Nat) (o f : Str)
  | write (vm : Nat) (o f : Str) (v : Int)

inductive RObs where
  | val (n : Int) | undef | unit | shadow | shadowRead

def lookupObj (o : Str) : List (Str × List (Str × Int)) → Option (List (Str × Int))
  | [] => none
  | (o', fs) :: r => if o' = o then some fs else lookupObj o r

def setObj (o : Str) (fs : List (Str × Int)) : List (Str × List (Str × Int)) → List (Str × List (Str × Int))
  | [] => []
  | (o', fs') :: r => if o' = o then (o, fs) :: r else (o', fs') :: setObj o fs r

/-- a property access resolves the name against the object's OWN type, whatever other types exist -/
def recStep (s : RecSt) : ROp → RecSt × RObs
  | .read vm o f =>
    (s, match (lookupObj o s.objs).bind (lookupEnt f) with
        | some n => .val n
        | none => if s.shadows.contains (vm, o, f) then .shadowRead else .undef)
  | .write vm o f v =>
    match lookupObj o s.objs with
    | none => (s, .undef)
    | some fs =>
      if (lookupEnt f fs).isSome then ({ s with objs := setObj o (setEnt f v fs) s.objs }, .unit)
      else ({ s with shadows := (vm, o, f) :: s.shadows }, .shadow)

def recRun (s : RecSt) : List ROp → RecSt × List RObs
  | [] => (s, [])
  | op :: rest =>
    let (s', o) := recStep s op
    let (s'', os) := recRun s' rest
    (s'', o :: os)

/-! ## a JavaScript function converted to a Go func (runtime.go:510): what the calling script observes -/

inductive CbKind | ret | throwRange | throwType | throwNum | throwStr | throwObj | retStr | retFrac | uncaught
deriving DecidableEq, Repr

/-- the script calls `apply(cb)` where Go does `cb(1)` for a `func(int) int`: the callback's exception is the
    exception the script catches (same class, message, value); a return value goes through the checked
    conversion to the Go result type -/
inductive CbObs where
  | ok (n : Int)
  | caughtError (name msg : Str)        -- an Error object of that class, `instanceof` its constructor
  | caughtValue (ty : Str) (text : Str) -- a primitive / plain object that was thrown
  | runError (name : Str)               -- uncaught: Run returns it

def callbackOutcome : CbKind → CbObs
  | .ret => .ok 42
  | .throwRange => .caughtError (ofAscii "RangeError") (ofAscii "r")
  | .throwType => .caughtError (ofAscii "TypeError") (ofAscii "t")
  | .throwNum => .caughtValue (ofAscii "number") (ofAscii "5")
  | .throwStr => .caughtValue (ofAscii "string") (ofAscii "boom")
  | .throwObj => .caughtValue (ofAscii "object") (ofAscii "1")
  | .retStr => .caughtError (ofAscii "TypeError") []          -- "a" is not an int (message not compared)
  | .retFrac => .caughtError (ofAscii "RangeError") []        -- 1.5 is not an int
  | .uncaught => .runError (ofAscii "RangeError")

/-! ## scenario table (`zoo`): bridged values of defined Go types, structs by value, embedded pointers, slice
    fields of bridged structs, non-string map keys, mutating Array methods on bridged slices.
    Each entry is what the script (and then Go, after `|go:`) observes; `!` marks an error token. -/

def zooModel : List (String × String) :=
  [("byval_struct_read", "1"),
   ("byval_struct_write", "!throw:TypeError"),
   ("nilptr_embedded_read", "undefined,false|go:true"),
   ("nilptr_embedded_write", "z|go:false"),
   ("defined_int", "main.zMyInt:5"),
   ("defined_int_from_float", "main.zMyInt:5"),
   ("defined_u8_overflow", "!throw:RangeError"),
   ("defined_string", "main.zMyStr:amain.zMyStr:7"),
   ("defined_bool", "main.zMyBool:truemain.zMyBool:false"),
   ("defined_float", "main.zMyF:1.5main.zMyF:2"),
   ("defined_slice_elem", "[]main.zMyInt:[1 2]"),
   ("defined_key_read", "apundefinedtrue1,16"),
   ("defined_key_write", "bundefined|go:map[2:b]"),
   ("defined_key_param", "map[main.zSK]int:map[a:1]"),
   ("ptr_to_value_param", "{C:1 S:[1 2 3]}"),
   ("slice_field_push", "4:1,2,3,4|go:[1 2 3 4]"),
   ("slice_field_setlen", "5:1,2,3,0,0|go:[1 2 3 0 0]"),
   ("slice_field_shrink", "1:1|go:[1]"),
   ("slice_field_regrow", "1,0,0|go:[1 0 0]"),
   ("slice_field_write", "1,9,3|go:[1 9 3]"),
   ("shadowed_field", "inner,z|go:outer,z"),
   ("promoted_ptr_read", "ia,0,0|go:0,0,ia"),
   ("promoted_ptr_write", "q|go:0,0,q"),
   ("unexported_embedded_write", "5|go:5,0,ia"),
   ("dash_field_write", "4|go:0,4,ia"),
   ("keys_after_dropped_writes", "Skip,ZIn|go:5,4,q"),
   ("struct_keys", "Skip,ZIn|go:0,0,ia"),
   ("int_key_plain", "1,1,5,undefined,true,0,16|go:map[0:5 16:1]"),
   ("int_key_alias_hex", "undefined,false|go:map[0:5 16:1]"),
   ("int_key_alias_underscore", "undefined|go:map[0:5 16:1]"),
   ("int_key_alias_plus", "undefined,undefined|go:map[0:5 16:1]"),
   ("int_key_alias_negzero", "undefined|go:map[0:5 16:1]"),
   ("int_key_write", "2,3|go:map[0:5 7:2 16:3]"),
   ("int_key_assign_unconvertible", "!throw:TypeError"),
   ("int_key_delete_unconvertible", "true|go:map[0:5 16:1]"),
   ("int_key_delete", "true,undefined,true|go:map[0:5]"),
   ("bool_key", "1,1,undefined,true"),
   ("bool_key_alias", "undefined,undefined,undefined"),
   ("slice_unshift", "!throw:TypeError"),
   ("slice_splice_insert", "!throw:TypeError"),
   ("slice_mutators", "ok,ok,ok,ok,ok,ok,ok,ok|go:[1 2 3]"),
   ("map_forin_delete_during", "1|go:0"),
   ("map_enumeration_order", "stable|go:6"),
   ("slice_forin_shrink_during", "0|go:[1 2 3]"),
   ("struct_promoted_enumeration", "true,x,true|Y,ZIn|Y,ZIn"),
   ("nested_container_identity", "false,false,true"),
   ("setlength_thrown_value", "number:42|go:[1 2 3]"),
   ("setlength_huge", "caught:RangeError|go:[1 2 3]"),
   ("setlength_2p32", "caught:RangeError|go:[1 2 3]"),
   ("setlength_fraction", "caught:RangeError|go:[1 2 3]"),
   ("setlength_nan", "caught:RangeError|go:[1 2 3]"),
   ("setlength_string", "caught:RangeError|go:[1 2 3]"),
   ("setlength_negative", "caught:RangeError|go:[1 2 3]"),
   ("define_accessor_on_slice", "caught:TypeError|go:[1 2 3]"),
   ("define_value_on_slice", "v:7|go:[7 2 3]"),
   ("store_number_into_struct_elem", "caught:TypeError|go:[{1 []}]|[[1]]|false|[[1 2]]|int:1"),
   ("store_number_into_slice_elem", "caught:TypeError|go:[{1 []}]|[[1]]|false|[[1 2]]|int:1"),
   ("store_array_into_slice_elem", "caught:TypeError|go:[{1 []}]|[[1]]|false|[[1 2]]|int:1"),
   ("store_number_into_pointer_elem", "caught:TypeError|go:[{1 []}]|[[1]]|false|[[1 2]]|int:1"),
   ("store_null_into_pointer_elem", "stored:undefined|go:[{1 []}]|[[1]]|true|[[1 2]]|int:1"),
   ("store_bridged_pointer_into_pointer_elem", "stored:9|go:[{1 []}]|[[1]]|false|[[1 2]]|int:1"),
   ("store_long_array_into_array_elem", "caught:TypeError|go:[{1 []}]|[[1]]|false|[[1 2]]|int:1"),
   ("store_utf16_string_into_interface_elem", "stored:A|go:[{1 []}]|[[1]]|false|[[1 2]]|string:A"),
   ("nil_func_reads_undefined", "undefined,undefined|go:[{1 []}]|[[1]]|false|[[1 2]]|int:1"),
   ("nested_array_elem_write", "v:2|go:[[1 2] [3 4]]|[[1 2]]|[{1 []}]"),
   ("slice_of_array_elem_write", "v:2|go:[[1 2] [3 4]]|[[1 2]]|[{1 []}]"),
   ("slice_of_struct_field_write", "caught:TypeError|go:[[1 2] [3 4]]|[[1 2]]|[{1 []}]"),
   ("nested_array_elem_read", "3,2,1|go:[[1 2] [3 4]]|[[1 2]]|[{1 []}]"),
   ("tagopt_read_by_tag", "l,1,2,undefined|go:{Label:l Num:1 Multi:2 NoName:3 Dash:4 DashComma:5}"),
   ("tagopt_read_by_name", "l,1,2,3,4,5|go:{Label:l Num:1 Multi:2 NoName:3 Dash:4 DashComma:5}"),
   ("tagopt_in", "111111100|go:{Label:l Num:1 Multi:2 NoName:3 Dash:4 DashComma:5}"),
   ("tagopt_write_by_tag", "x,7,8|go:{Label:x Num:7 Multi:8 NoName:3 Dash:4 DashComma:5}"),
   ("tagopt_write_by_name", "y,9,6|go:{Label:y Num:1 Multi:2 NoName:9 Dash:4 DashComma:6}"),
   ("tagopt_keys", "Dash,DashComma,Label,Multi,NoName,Num|go:{Label:x Num:1 Multi:2 NoName:3 Dash:4 DashComma:5}"),
   ("tagopt_param", "{Label:x Num:7 Multi:8 NoName:9 Dash:0 DashComma:0}|go:{Label:l Num:1 Multi:2 NoName:3 Dash:4 DashComma:5}"),
   ("tagopt_param_by_name", "{Label:x Num:7 Multi:0 NoName:0 Dash:0 DashComma:0}|go:{Label:l Num:1 Multi:2 NoName:3 Dash:4 DashComma:5}"),
   ("tagopt_param_dashcomma", "caught:TypeError|go:{Label:l Num:1 Multi:2 NoName:3 Dash:4 DashComma:5}"),
   ("unicode_field_name", "1,true,2,2|go:{Ärger:1 A:2}"),
   ("struct_param_from_bridged_map", "caught:TypeError"),
   ("struct_param_from_other_struct", "caught:TypeError"),
   ("struct_param_from_same_struct", "{C:9 S:[]}"),
   ("struct_param_from_plain_object", "{C:5 S:[]}")]

/-! ## histories of calls of bridged Go functions: every call delivers its OWN result list (runtime.go, the
    reflect.Func arm of toValue: 0 results → undefined, 1 → the value, more → a fresh list) -/

inductive RV | int (n : Int) | undef | err
deriving DecidableEq, Repr

inductive RRes | undef | single (v : RV) | list (vs : List RV)
deriving DecidableEq, Repr

inductive RFn | f0 | f1 | f2 | f3 | fe
deriving DecidableEq, Repr

/-- the Go functions of the harness: f0(), f1(x) = x+1, f2(a,b) = (a/b, a%b), f3(a,b) = (a, b, a+b),
    fe(x) = (x/2, nil) for even x and (0, error) otherwise -/
def retCall : RFn → List Int → RRes
  | .f0, _ => .undef
  | .f1, [x] => .single (.int (x + 1))
  | .f2, [a, b] => .list [.int (a / b), .int (a % b)]
  | .f3, [a, b] => .list [.int a, .int b, .int (a + b)]
  | .fe, [x] => if x % 2 = 0 then .list [.int (x / 2), .undef] else .list [.int 0, .err]
  | _, _ => .undef

inductive RetOp where
  | call (f : RFn) (args : List Int)        -- R.push(f(args))
  | twice (a : Int)                         -- R.push(twice(function(x){ var t = f2(x + a, 3); R.push(t); return t[0] }))
  | copyCall (f : RFn) (args : List Int)    -- the same function called in a Copy() of the runtime
  | write (i j : Nat) (v : Int)             -- R[i][j] = v (inside the list)

def firstInt : RRes → RV
  | .list (v :: _) => v
  | _ => .undef

def setNth {α} : List α → Nat → α → List α
  | [], _, _ => []
  | _ :: r, 0, x => x :: r
  | a :: r, n+1, x => a :: setNth r n x

/-- the results the script keeps; a later call never changes an earlier result -/
def retStep (rs : List RRes) : RetOp → List RRes
  | .call f args => rs ++ [retCall f args]
  | .twice a =>
    let t1 := retCall .f2 [1 + a, 3]
    let t2 := retCall .f2 [2 + a, 3]
    rs ++ [t1, t2, .list [firstInt t1, firstInt t2]]
  | .copyCall _ _ => rs
  | .write i j v =>
    match rs[i]? with
    | some (.list vs) => if j < vs.length then setNth rs i (.list (setNth vs j (.int v))) else rs
    | _ => rs

def retRun (rs : List RRes) : List RetOp → List (List RRes)
  | [] => []
  | op :: rest => let rs' := retStep rs op; rs' :: retRun rs' rest

end OttoVerif.C16
