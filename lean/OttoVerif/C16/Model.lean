/-
  C16/Model — transcription of otto's Go⇄JavaScript bridge conversions.
    runtime.go : convertNumeric (l.213), fieldIndexByName (l.291), convertCallParameter (l.341),
                 the reflect.Func wrapper in (*runtime).toValue (l.692-779)
    value.go   : Value.toReflectValue (l.741), stringToReflectValue (l.883), Value.number (value_number.go l.144),
                 toIntegerFloat (value_number.go l.117)
    type_go_slice.go / type_go_array.go / type_go_map.go / type_go_struct.go : property get/put/delete
  Go's `reflect` range predicates (OverflowInt/Uint/Float) and integer/float conversions are
  modelled as exact arithmetic (trusted base: Base/F64, amd64 float→int conversion).
-/
import OttoVerif.Base.F64
namespace OttoVerif.C16
open OttoVerif.F64

/-! ## Go numeric kinds -/

/-- Go integer kinds (64-bit platform: int = int64, uint = uint64 in range). -/
inductive IK | i8 | i16 | i32 | i64 | int | u8 | u16 | u32 | u64 | uint
deriving DecidableEq, Repr, Inhabited

def IK.signed : IK → Bool
  | .i8 | .i16 | .i32 | .i64 | .int => true
  | _ => false

def IK.bits : IK → Nat
  | .i8 | .u8 => 8 | .i16 | .u16 => 16 | .i32 | .u32 => 32 | _ => 64

def IK.lo (k : IK) : Int := if k.signed then -(2 ^ (k.bits - 1) : Int) else 0
def IK.hi (k : IK) : Int := if k.signed then (2 ^ (k.bits - 1) : Int) - 1 else (2 ^ k.bits : Int) - 1

/-- numeric Go types -/
inductive NT | i (k : IK) | f32 | f64
deriving DecidableEq, Repr, Inhabited

/-- A Go numeric value: what a JavaScript number `Value` carries in `.value` (value.go toValue keeps
    the Go kind) and also what a Go callee receives.  `f32 x`: `x` is the float32 widened to a double. -/
inductive Num where
  | int (k : IK) (i : Int)
  | f32 (x : FV)
  | f64 (x : FV)
deriving DecidableEq, Repr, Inhabited

def Num.ty : Num → NT
  | .int k _ => .i k | .f32 _ => .f32 | .f64 _ => .f64

/-- outcome of a bridge operation as the script / embedder observes it -/
inductive Res (α : Type) where
  | ok (a : α)
  | rangeErr            -- RangeError thrown into the script
  | typeErr             -- TypeError thrown into the script
  | goPanic             -- a Go panic that is not an otto exception (escapes vm.Run)
deriving DecidableEq, Repr, Inhabited

def Res.bind {α β} (r : Res α) (f : α → Res β) : Res β :=
  match r with
  | .ok a => f a
  | .rangeErr => .rangeErr
  | .typeErr => .typeErr
  | .goPanic => .goPanic

def Res.map {α β} (f : α → β) (r : Res α) : Res β := r.bind (fun a => .ok (f a))

/-! ## float32 rounding (Go `float32(f64)`, IEEE round-to-nearest-even) -/

/-- `roundPos` of Base/F64 for binary32: 24-bit significand, emin = -149, largest exponent 104. -/
def roundPos32 (num den : Nat) : Option (Nat × Int) :=
  let l : Int := (Nat.log2 num : Int) - (Nat.log2 den : Int)
  let e0 : Int := l - 23
  let scaledLt (e : Int) : Bool :=
    if e ≥ 0 then num < den * 2^(e.toNat) * 2^23 else num * 2^((-e).toNat) < den * 2^23
  let e1 : Int := if scaledLt e0 then e0 - 1 else e0
  let e : Int := if e1 < -149 then -149 else e1
  let m : Nat := if e ≥ 0 then divRNE num (den * 2^(e.toNat)) else divRNE (num * 2^((-e).toNat)) den
  let (m, e) := if m = 2^24 then (2^23, e + 1) else (m, e)
  if e > 104 then none else some (m, e)

/-- Go `float32(x)` for a float64 `x`, result widened back to a double -/
def toF32 : FV → FV
  | .nan => .nan
  | .inf s => .inf s
  | .fin s m e =>
    if m = 0 then .fin s 0 0
    else
      let r := if e ≥ 0 then roundPos32 (m * 2^(e.toNat)) 1 else roundPos32 m (2^((-e).toNat))
      match r with
      | none => .inf s
      | some (m', e') => .fin s m' e'

/-- math.MaxFloat32 = (2^24 - 1)·2^104 -/
def maxF32 : FV := .fin false (2^24 - 1) 104

/-- reflect.Value.OverflowFloat for a float32 target (reflect/value.go overflowFloat32):
    `if x < 0 { x = -x }; return math.MaxFloat32 < x && x <= math.MaxFloat64` -/
def overflowFloat32 (x : FV) : Bool := lt maxF32 (abs x) && !isInf x

/-! ## Go integer ⇄ float conversions -/

/-- Go (amd64) `int64(f)` for float64 f: truncation in range, else 0x8000000000000000. -/
def goInt64 (x : FV) : Int :=
  match x with
  | .fin .. => let t := truncInt x; if -(2^63 : Int) ≤ t ∧ t < 2^63 then t else -(2^63 : Int)
  | _ => -(2^63 : Int)

/-- reflect OverflowInt / OverflowUint for the kind `k` applied to an in-range int64 / uint64 -/
def overflows (k : IK) (i : Int) : Bool := decide (i < k.lo) || decide (k.hi < i)

/-! ## convertNumeric (runtime.go:213) -/

/-- second `switch val.Kind()` of convertNumeric: the source is integer-kinded.
    `srcSigned` selects the `reflect.Int…` arm (val.Int()) or the `reflect.Uint…` arm (val.Uint()). -/
def convertFromInt (srcSigned : Bool) (i : Int) (t : NT) : Res Num :=
  match t with
  | .i k =>
    if srcSigned then
      if k.signed then
        (if overflows k i then .rangeErr else .ok (.int k i))                 -- l.254
      else
        (if i < 0 then .rangeErr                                              -- l.259
         else if overflows k i then .rangeErr else .ok (.int k i))            -- l.262
    else
      if k.signed then
        (if i > 2^63 - 1 ∨ overflows k i then .rangeErr else .ok (.int k i))  -- l.274
      else
        (if overflows k i then .rangeErr else .ok (.int k i))                 -- l.279
  | .f64 => .ok (.f64 (ofInt i))                  -- val.Convert(t): reflect cvtIntFloat = float64(i)
  | .f32 => .ok (.f32 (toF32 (ofInt i)))          -- reflect cvtIntFloat: float32(float64(i))

def convertNumeric (v : Num) (t : NT) : Res Num :=
  if v.ty = t then .ok v                                                    -- l.216
  else match v with
  | .int k i => convertFromInt k.signed i t
  | .f32 x | .f64 x =>                                                      -- l.225
    match t with
    | .f64 => .ok (.f64 x)
    | .f32 => if overflowFloat32 x then .rangeErr else .ok (.f32 (toF32 x))  -- l.231
    | .i _ =>
      let i64 := goInt64 x                                                  -- l.237
      if eqNum (ofInt i64) x then convertFromInt true i64 t                 -- l.238, then l.250
      else .rangeErr

end OttoVerif.C16
