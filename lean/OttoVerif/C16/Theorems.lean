/-
  C16/Theorems — the ledger for property C16.  Every `theorem` in this file is audited
  (`#print axioms` ⊆ {propext, Classical.choice, Quot.sound}) on every run.

  Deviation regions are the SAME decidable predicates the driver prints (`Driver.devNum`, …): a theorem
  `… → Driver.devNum v t = [] → model = spec` says the code meets the property text outside the listed
  regions; each region has a kernel-checked witness below.
-/
import OttoVerif.C16.Lemmas
import OttoVerif.C16.Driver
namespace OttoVerif.C16.Thm
open OttoVerif.F64 OttoVerif.C16 OttoVerif.C16.Driver OttoVerif.C16.Lem

/-- doubles as decoded from 64 bits: significand below 2^53 -/
def WFf : FV → Prop
  | .fin _ m _ => m < 2^53
  | _ => True

/-- Go's static types bound the payload of a number Value -/
def WF : Num → Prop
  | .int k i => k.lo ≤ i ∧ i ≤ k.hi
  | .f32 x => WFf x
  | .f64 x => WFf x

/-- same Go type in, same value out (runtime.go:216) -/
theorem convertNumeric_same_type (v : Num) : convertNumeric v v.ty = .ok v := by
  simp [convertNumeric]

theorem lo_le_hi (k : IK) : k.lo ≤ k.hi := by cases k <;> decide

theorem lo_ge (k : IK) : -(2^63 : Int) ≤ k.lo := by cases k <;> decide
theorem hi_le (k : IK) : k.hi ≤ (2^64 : Int) - 1 := by cases k <;> decide
theorem hi_signed (k : IK) (h : k.signed = true) : k.hi ≤ (2^63 : Int) - 1 := by cases k <;> simp_all [IK.signed] <;> decide
theorem lo_unsigned (k : IK) (h : k.signed = false) : k.lo = 0 := by cases k <;> simp_all [IK.signed] <;> decide

/-- the integer→integer arm of convertNumeric is an exact range check, for every source signedness -/
theorem convertFromInt_int (srcSigned : Bool) (i : Int) (k : IK)
    (hsrc : if srcSigned then i ≤ 2^63 - 1 else 0 ≤ i) :
    convertFromInt srcSigned i (.i k) = if k.lo ≤ i ∧ i ≤ k.hi then .ok (.int k i) else .rangeErr := by
  have h1 := lo_ge k
  have h2 := hi_le k
  cases srcSigned <;> cases hk : k.signed <;> simp only [convertFromInt, hk, overflows] <;>
    simp only [Bool.false_eq_true, if_false, if_true, Bool.or_eq_true, decide_eq_true_eq] at *
  · -- unsigned → unsigned
    have := lo_unsigned k hk
    by_cases h : k.lo ≤ i ∧ i ≤ k.hi
    · have : ¬ (i < k.lo ∨ k.hi < i) := by omega
      simp [h, this]
    · have : (i < k.lo ∨ k.hi < i) := by omega
      simp [h, this]
  · -- unsigned → signed
    have := hi_signed k hk
    by_cases h : k.lo ≤ i ∧ i ≤ k.hi
    · have : ¬ (i > 2^63 - 1 ∨ (i < k.lo ∨ k.hi < i)) := by omega
      simp only [h, this, if_false, and_self, if_true]
    · have : (i > 2^63 - 1 ∨ (i < k.lo ∨ k.hi < i)) := by omega
      simp only [h, this, if_false, if_true]
  · -- signed → unsigned
    have := lo_unsigned k hk
    by_cases h0 : i < 0
    · have : ¬ (k.lo ≤ i ∧ i ≤ k.hi) := by omega
      simp [h0, this]
    · by_cases h : k.lo ≤ i ∧ i ≤ k.hi
      · have : ¬ (i < k.lo ∨ k.hi < i) := by omega
        simp [h0, h, this]
      · have : (i < k.lo ∨ k.hi < i) := by omega
        simp [h0, h, this]
  · -- signed → signed
    by_cases h : k.lo ≤ i ∧ i ≤ k.hi
    · have : ¬ (i < k.lo ∨ k.hi < i) := by omega
      simp [h, this]
    · have : (i < k.lo ∨ k.hi < i) := by omega
      simp [h, this]

/-- C16.numeric_exact, integer-kinded sources: for every Go integer payload and EVERY numeric target type
    the call path converts exactly or throws RangeError, outside the region `call_int_to_float_rounds`. -/
theorem numeric_exact_int_source (k : IK) (i : Int) (t : NT) (hwf : WF (.int k i))
    (hdev : devNum (.int k i) t = []) :
    convertNumeric (.int k i) t = Spec.convertNumeric (.int k i) t := by
  simp only [WF] at hwf
  cases t with
  | i k' =>
    by_cases hk : k = k'
    · subst hk
      simp [convertNumeric, Num.ty, Spec.convertNumeric, Spec.exactInt?, hwf]
    · have hne : (Num.int k i).ty ≠ NT.i k' := by simp [Num.ty, hk]
      have hsrc : if k.signed then i ≤ 2^63 - 1 else 0 ≤ i := by
        cases hs : k.signed
        · have := lo_unsigned k hs; simp; omega
        · have := hi_signed k hs; simp; omega
      simp only [convertNumeric, hne, if_false, Spec.convertNumeric, Spec.exactInt?]
      exact convertFromInt_int k.signed i k' hsrc
  | f64 =>
    simp only [devNum, Num.ty] at hdev
    simp only [convertNumeric, Num.ty, convertFromInt, Spec.convertNumeric]
    by_cases hs : Spec.sameNumber (.int k i) (Spec.asF64 (.int k i)) = true
    · simp [Spec.asF64] at hs; simp [hs]
    · simp [hs] at hdev
  | f32 =>
    simp only [devNum, Num.ty] at hdev
    simp only [convertNumeric, Num.ty, convertFromInt, Spec.convertNumeric]
    by_cases hs : Spec.sameNumber (.int k i) (toF32 (Spec.asF64 (.int k i))) = true
    · simp [Spec.asF64] at hs; simp [hs]
    · simp [hs] at hdev

theorem eqNum_refl_nonNaN (x : FV) (h : isNaN x = false) : eqNum x x = true := by
  cases x with
  | nan => simp [isNaN] at h
  | inf s => simp [eqNum, cmpReal]
  | fin s m e => simp [eqNum, cmpReal]

/-- C16.numeric_exact, float sources into float targets: exact or RangeError outside
    `call_f64_to_f32_rounds` (for all doubles, no canonicity needed). -/
theorem numeric_exact_float_to_float (v : Num) (t : NT) (hv : ∀ k i, v ≠ .int k i) (ht : ∀ k, t ≠ .i k)
    (hdev : devNum v t = []) : convertNumeric v t = Spec.convertNumeric v t := by
  cases v with
  | int k i => exact absurd rfl (hv k i)
  | f64 x =>
    cases t with
    | i k => exact absurd rfl (ht k)
    | f64 => simp [convertNumeric, Num.ty, Spec.convertNumeric]
    | f32 =>
      simp only [devNum, Num.ty] at hdev
      simp only [convertNumeric, Num.ty, Spec.convertNumeric, overflowFloat32]
      by_cases ho : (lt maxF32 (abs x) && !isInf x) = true
      · simp [ho]
      · simp only [overflowFloat32, ho] at hdev
        by_cases hs : Spec.sameNumber (.f64 x) (toF32 x) = true
        · simp [ho, hs]
        · simp [hs] at hdev
  | f32 x =>
    cases t with
    | i k => exact absurd rfl (ht k)
    | f64 => simp [convertNumeric, Num.ty, Spec.convertNumeric]
    | f32 => simp [convertNumeric, Num.ty, Spec.convertNumeric]

/-- the int64 path of the float→integer arm: Go's `int64(f)`/`float64(i64) != f` round trip accepts exactly the doubles that
    denote an integer in int64 range, and the integer it yields is that integer -/
theorem float_to_int_signed_path (x : FV) (k : IK) (hwf : WFf x)
    (hdev : k.signed = false → ∀ i, Spec.exactInt? (.f64 x) = some i → ¬ ((2^63 : Int) ≤ i ∧ i ≤ k.hi)) :
    (if eqNum (ofInt (goInt64 x)) x then convertFromInt true (goInt64 x) (.i k) else (.rangeErr : Res Num)) =
    Spec.convertNumeric (.f64 x) (.i k) := by
  simp only [Spec.convertNumeric]
  cases x with
  | nan =>
    have h : eqNum (ofInt (goInt64 .nan)) .nan = false := by
      show eqNum (ofInt (-(2^63))) .nan = false
      rw [ofInt_m63]; rfl
    rw [h]; simp [Spec.exactInt?]
  | inf s =>
    have h : eqNum (ofInt (goInt64 (.inf s))) (.inf s) = false := by
      show eqNum (ofInt (-(2^63))) (.inf s) = false
      rw [ofInt_m63]; cases s <;> rfl
    rw [h]; simp [Spec.exactInt?]
  | fin s m e =>
    simp only [WFf] at hwf
    by_cases he : 0 ≤ e
    · obtain ⟨en, rfl⟩ := Int.eq_ofNat_of_zero_le he
      obtain ⟨hti, hin, hout⟩ := big_case s m en hwf
      have hint : isIntegral m (en : Int) = true := by simp [isIntegral]
      simp only [Spec.exactInt?, hint, if_true]
      by_cases hr : (-(2^63 : Int) ≤ truncInt (.fin s m (en : Int)) ∧ truncInt (.fin s m (en : Int)) < 2^63)
      · obtain ⟨hg, heq⟩ := hin hr
        rw [hg, heq, if_pos rfl]
        exact convertFromInt_int true _ k (by simp; omega)
      · obtain ⟨hg, heq⟩ := hout hr
        rw [hg, heq]
        simp only [Bool.false_eq_true, if_false]
        have h1 := lo_ge k
        by_cases hs : k.signed = true
        · have := hi_signed k hs
          have : ¬ (k.lo ≤ truncInt (.fin s m (en : Int)) ∧ truncInt (.fin s m (en : Int)) ≤ k.hi) := by omega
          simp [this]
        · have hs' : k.signed = false := by simpa using hs
          have hlo := lo_unsigned k hs'
          have hd := hdev hs' (truncInt (.fin s m (en : Int))) (by simp [Spec.exactInt?, hint])
          have : ¬ (k.lo ≤ truncInt (.fin s m (en : Int)) ∧ truncInt (.fin s m (en : Int)) ≤ k.hi) := by omega
          simp [this]
    · obtain ⟨d, rfl⟩ : ∃ d : Nat, e = -((d : Int) + 1) := ⟨(-e - 1).toNat, by omega⟩
      obtain ⟨hg, heq⟩ := small_case s m d hwf
      rw [hg, heq]
      have hneg : (-(-((d : Int) + 1))).toNat = d + 1 := by omega
      have hnn : ¬ (-((d : Int) + 1) ≥ 0) := by omega
      have hint : isIntegral m (-((d : Int) + 1)) = decide (m % 2^(d+1) = 0) := by
        unfold isIntegral; rw [if_neg hnn, hneg]
      simp only [Spec.exactInt?, hint]
      by_cases hm0 : m % 2^(d+1) = 0
      · simp only [hm0, decide_true, if_true]
        have hta : truncAbs m (-((d : Int) + 1)) = m / 2^(d+1) := by
          unfold truncAbs; rw [if_neg hnn, hneg]
        have hle : m / 2^(d+1) ≤ m := Nat.div_le_self _ _
        generalize hA : m / 2^(d+1) = a at *
        have : truncInt (.fin s m (-((d : Int) + 1))) ≤ 2^63 - 1 := by
          simp only [truncInt, hta]; cases s <;> simp <;> omega
        exact convertFromInt_int true _ k (by simpa using this)
      · simp [hm0]

theorem exactInt_f32_f64 (x : FV) : Spec.exactInt? (.f32 x) = Spec.exactInt? (.f64 x) := rfl

theorem goUint64_nat (m en : Nat) (h : V false m en < 2^64) : goUint64 (.fin false m (en : Int)) = V false m en := by
  have hta : truncAbs m (en : Int) = m * 2^en := by simp [truncAbs]
  unfold goUint64
  simp only [hta]
  simp only [V, Bool.false_eq_true, if_false] at h ⊢
  rw [if_pos h]

/-- the float→integer arm of convertNumeric: integers in [2^63, 2^64) go through uint64, all other doubles
    through the int64 round trip; together they accept exactly the integral doubles and yield that integer -/
theorem float_to_int_core (x : FV) (k : IK) (hwf : WFf x) :
    (if (le two63 x && lt x two64) = true then convertFromInt false (goUint64 x) (.i k)
     else if eqNum (ofInt (goInt64 x)) x then convertFromInt true (goInt64 x) (.i k) else (.rangeErr : Res Num)) =
    Spec.convertNumeric (.f64 x) (.i k) := by
  have hhi := hi_le k
  cases x with
  | nan =>
    have hc : (le two63 .nan && lt .nan two64) = false := by simp [le, lt, cmpReal, two63]
    rw [hc]; simp only [Bool.false_eq_true, if_false]
    exact float_to_int_signed_path .nan k hwf (by intro _ i hi; simp [Spec.exactInt?] at hi)
  | inf s =>
    have hc : (le two63 (.inf s) && lt (.inf s) two64) = false := by
      cases s <;> simp [le, lt, cmpReal, two63, two64]
    rw [hc]; simp only [Bool.false_eq_true, if_false]
    exact float_to_int_signed_path (.inf s) k hwf (by intro _ i hi; simp [Spec.exactInt?] at hi)
  | fin s m e =>
    by_cases he : 0 ≤ e
    · obtain ⟨en, rfl⟩ := Int.eq_ofNat_of_zero_le he
      obtain ⟨c1, c2, _, _⟩ := cmp_big s m en
      have hint : isIntegral m (en : Int) = true := by simp [isIntegral]
      have hex : Spec.exactInt? (.f64 (.fin s m (en : Int))) = some (truncInt (.fin s m (en : Int))) := by
        simp [Spec.exactInt?, hint]
      rw [c1, c2]
      by_cases hr : (2^63 : Int) ≤ truncInt (.fin s m (en : Int)) ∧ truncInt (.fin s m (en : Int)) < 2^64
      · -- the uint64 path
        have hcond : (decide ((2^63 : Int) ≤ truncInt (.fin s m (en : Int))) && decide (truncInt (.fin s m (en : Int)) < (2^64 : Int))) = true := by
          rw [decide_eq_true hr.1, decide_eq_true hr.2]; rfl
        rw [hcond, if_pos rfl]
        have hs : s = false := by
          cases s
          · rfl
          · exfalso
            have := hr.1
            rw [truncInt_nat] at this
            simp only [V, if_true] at this
            omega
        subst hs
        have hv := hr.2
        rw [truncInt_nat] at hv hr
        rw [goUint64_nat m en hv]
        rw [convertFromInt_int false _ k (by simp; omega)]
        simp only [Spec.convertNumeric, hex, truncInt_nat]
      · have hcond : (decide ((2^63 : Int) ≤ truncInt (.fin s m (en : Int))) && decide (truncInt (.fin s m (en : Int)) < (2^64 : Int))) = false := by
          by_cases h1 : (2^63 : Int) ≤ truncInt (.fin s m (en : Int))
          · have h2 : ¬ (truncInt (.fin s m (en : Int)) < (2^64 : Int)) := fun h => hr ⟨h1, h⟩
            rw [decide_eq_true h1, decide_eq_false h2]; rfl
          · rw [decide_eq_false h1]; rfl
        rw [hcond]; simp only [Bool.false_eq_true, if_false]
        apply float_to_int_signed_path _ k hwf
        intro _ i hi
        rw [hex] at hi
        cases hi
        omega
    · obtain ⟨d, rfl⟩ : ∃ d : Nat, e = -((d : Int) + 1) := ⟨(-e - 1).toNat, by omega⟩
      have hm : m < 2^53 := by simpa [WFf] using hwf
      rw [cmp_small s m d hm]; simp only [Bool.false_and, Bool.false_eq_true, if_false]
      apply float_to_int_signed_path _ k hwf
      intro _ i hi
      have hneg : (-(-((d : Int) + 1))).toNat = d + 1 := by omega
      have hnn : ¬ (-((d : Int) + 1) ≥ 0) := by omega
      have hta : truncAbs m (-((d : Int) + 1)) = m / 2^(d+1) := by
        unfold truncAbs; rw [if_neg hnn, hneg]
      have hle : m / 2^(d+1) ≤ m := Nat.div_le_self _ _
      simp only [Spec.exactInt?] at hi
      split at hi
      · cases hi
        simp only [truncInt, hta]
        generalize m / 2^(d+1) = a at *
        cases s <;> simp <;> omega
      · cases hi

/-- **C16.numeric_exact.**  For every number Value (every Go payload kind, every double) and every numeric Go
    parameter type, outside the two listed regions (silent rounding into float32 / float64 parameters) the call
    path (`convertNumeric`) delivers exactly the value the property text demands or throws RangeError: no
    truncation, wrap or rounding for any integer width, and every representable integer is accepted. -/
theorem numeric_exact (v : Num) (t : NT) (hwf : WF v) (hdev : devNum v t = []) :
    convertNumeric v t = Spec.convertNumeric v t := by
  cases v with
  | int k i => exact numeric_exact_int_source k i t hwf hdev
  | f64 x =>
    cases t with
    | i k =>
      have := float_to_int_core x k hwf
      simpa [convertNumeric, Num.ty] using this
    | f64 => exact numeric_exact_float_to_float _ _ (by intro k i h; cases h) (by intro k h; cases h) hdev
    | f32 => exact numeric_exact_float_to_float _ _ (by intro k i h; cases h) (by intro k h; cases h) hdev
  | f32 x =>
    cases t with
    | i k =>
      have := float_to_int_core x k hwf
      have hsp : Spec.convertNumeric (.f32 x) (.i k) = Spec.convertNumeric (.f64 x) (.i k) := rfl
      rw [hsp]
      simpa [convertNumeric, Num.ty] using this
    | f64 => exact numeric_exact_float_to_float _ _ (by intro k i h; cases h) (by intro k h; cases h) hdev
    | f32 => exact numeric_exact_float_to_float _ _ (by intro k i h; cases h) (by intro k h; cases h) hdev

/-- what "the same number" means for a delivered Go value -/
def Denotes (v r : Num) : Prop :=
  match r with
  | .int _ i => Spec.exactInt? v = some i
  | .f32 y => Spec.sameNumber v y = true
  | .f64 y => Spec.sameNumber v y = true

theorem sameNumber_self (x : FV) : Spec.sameNumber (.f64 x) x = true := by
  cases x with
  | nan => simp [Spec.sameNumber, isNaN]
  | inf s => simp [Spec.sameNumber, eqNum, cmpReal]
  | fin s m e => simp [Spec.sameNumber, eqNum, cmpReal]

/-- the spec really is "exact or error": whenever it delivers a value, that value has the target type and
    denotes the same number -/
theorem spec_delivers_exact (v : Num) (t : NT) (r : Num) (h : Spec.convertNumeric v t = .ok r) :
    r.ty = t ∧ Denotes v r := by
  cases t with
  | i k =>
    simp only [Spec.convertNumeric] at h
    split at h
    · rename_i i hi
      split at h
      · cases h; exact ⟨rfl, hi⟩
      · cases h
    · cases h
  | f64 =>
    cases v with
    | int k i =>
      simp only [Spec.convertNumeric] at h
      split at h
      · rename_i hs; cases h; exact ⟨rfl, hs⟩
      · cases h
    | f64 x => simp only [Spec.convertNumeric] at h; cases h; exact ⟨rfl, sameNumber_self x⟩
    | f32 x => simp only [Spec.convertNumeric] at h; cases h; exact ⟨rfl, sameNumber_self x⟩
  | f32 =>
    cases v with
    | int k i =>
      simp only [Spec.convertNumeric] at h
      split at h
      · rename_i hs; cases h; exact ⟨rfl, hs⟩
      · cases h
    | f64 x =>
      simp only [Spec.convertNumeric] at h
      split at h
      · cases h
      · split at h
        · rename_i hs; cases h; exact ⟨rfl, hs⟩
        · cases h
    | f32 x => simp only [Spec.convertNumeric] at h; cases h; exact ⟨rfl, sameNumber_self x⟩

/-- **C16.numeric_exact, consequence.**  Outside the listed regions a value that reaches the Go callee has the
    parameter's type and denotes exactly the JavaScript number that was passed. -/
theorem numeric_no_silent_change (v : Num) (t : NT) (r : Num) (hwf : WF v) (hdev : devNum v t = [])
    (h : convertNumeric v t = .ok r) : r.ty = t ∧ Denotes v r := by
  rw [numeric_exact v t hwf hdev] at h
  exact spec_delivers_exact v t r h

/-! ### arity and variadic shape (runtime.go:707-757) -/

/-- **C16.arity** (fixed signatures): a wrong argument count is a RangeError, whatever the arguments are;
    with the right count the callee receives the element-wise conversions. -/
theorem arity_fixed (L : Leaf) (ins : List GT) (args : List JV) :
    callWrapper L ⟨ins, false⟩ args =
      if args.length ≠ ins.length then .rangeErr else convArgs L args ins := by
  simp [callWrapper]

/-- **C16.arity** (variadic signatures): fewer than the fixed parameters is a RangeError. -/
theorem arity_variadic (L : Leaf) (ins : List GT) (args : List JV) (h : args.length < ins.length - 1) :
    callWrapper L ⟨ins, true⟩ args = .rangeErr := by
  simp [callWrapper, h]

/-- **C16.variadic_shape**: with k ≠ 1 trailing arguments the variadic parameter is the slice of their
    element-wise conversions, in order. -/
theorem variadic_shape (L : Leaf) (ins : List GT) (args : List JV) (h : ¬ args.length < ins.length - 1)
    (hk : (args.drop (ins.length - 1)).length ≠ 1) :
    callWrapper L ⟨ins, true⟩ args =
      (convArgs L (args.take (ins.length - 1)) (ins.take (ins.length - 1))).bind (fun fixed =>
        (convAll L (args.drop (ins.length - 1)) (ins.getLastD .any)).map (fun gs => fixed ++ [.slice (GVs.ofList gs)])) := by
  simp only [callWrapper, h, if_false, Bool.true_eq_false, not_true_eq_false, not_false_eq_true, if_true]
  congr 1
  funext fixed
  cases hd : args.drop (ins.length - 1) with
  | nil => rfl
  | cons a rest =>
    cases rest with
    | nil => rw [hd] at hk; simp at hk
    | cons b r => rfl

/-- **C16.variadic_shape**, the "last argument is itself the slice" rule: exactly one trailing argument that
    converts to `[]T` is passed through as the whole variadic slice (CallSlice). -/
theorem variadic_last_is_slice (L : Leaf) (ins : List GT) (args : List JV) (a : JV) (s : GV)
    (h : ¬ args.length < ins.length - 1) (hd : args.drop (ins.length - 1) = [a])
    (hs : conv L a (.slice (ins.getLastD .any)) = .ok s) :
    callWrapper L ⟨ins, true⟩ args =
      (convArgs L (args.take (ins.length - 1)) (ins.take (ins.length - 1))).bind (fun fixed => .ok (fixed ++ [s])) := by
  simp only [callWrapper, h, if_false, Bool.true_eq_false, not_true_eq_false, not_false_eq_true, if_true, hd, hs]

/-! ### containers: aliasing invariant of bridged slices -/

/-- steps that do not change either slice header (no append at `len`, no `length` change) -/
def KeepsHeaders (len : Nat) : SOp → Prop
  | .jsWrite i _ => i ≠ len
  | .jsSetLen n => n = len
  | .goAppend _ _ => False
  | _ => True

theorem write_hdr (s : SliceSt) (a i : Nat) (x : GV) :
    (s.write a i x).go = s.go ∧ (s.write a i x).js = s.js ∧ (s.write a i x).et = s.et := by
  simp [SliceSt.write]

theorem step_keeps (S : StoreSem) (s : SliceSt) (op : SOp) (h : KeepsHeaders s.js.len op) :
    (sliceStep S s op).1.go = s.go ∧ (sliceStep S s op).1.js = s.js := by
  cases op with
  | jsRead i => simp [sliceStep]
  | jsLen => simp [sliceStep]
  | goLen => simp [sliceStep]
  | goRead i => simp [sliceStep]
  | goWrite i x => simp only [sliceStep]; split <;> simp [SliceSt.write]
  | goAppend x nc => exact absurd h (by simp [KeepsHeaders])
  | jsWrite i v =>
    simp only [KeepsHeaders] at h
    simp only [sliceStep]
    split
    · by_cases h1 : i < s.js.len
      · simp [h1, SliceSt.write]
      · simp [h1, h]
    all_goals simp
  | jsSetLenNeg => simp [sliceStep]
  | jsSetLen n =>
    simp only [KeepsHeaders] at h
    simp [sliceStep, h]
  | jsDelete i => simp only [sliceStep]; split <;> simp [SliceSt.write]

/-- **C16.container_refines** (slices): as long as no step appends at `len` or changes `length`, the Go
    variable and the JavaScript object keep the SAME slice header over the same backing array, so after any
    history of reads, in-range writes and deletes from either side both observe identical contents.
    (Holds for the code's store semantics and for the spec's.) -/
theorem slice_history_aliased (S : StoreSem) (ops : List SOp) :
    ∀ (s : SliceSt), s.go = s.js → (∀ op ∈ ops, KeepsHeaders s.js.len op) →
      (sliceRun S s ops).1.go = (sliceRun S s ops).1.js ∧
      (sliceRun S s ops).1.view (sliceRun S s ops).1.go = (sliceRun S s ops).1.view (sliceRun S s ops).1.js := by
  induction ops with
  | nil => intro s h _; simp [sliceRun, h]
  | cons op rest ih =>
    intro s h hk
    have h1 := step_keeps S s op (hk op (by simp))
    simp only [sliceRun]
    split
    · -- failing step: state after the step
      rw [h1.1, h1.2, h]
      simp
    · have hs : (sliceStep S s op).1.go = (sliceStep S s op).1.js := by rw [h1.1, h1.2, h]
      have hk' : ∀ o ∈ rest, KeepsHeaders (sliceStep S s op).1.js.len o := by
        intro o ho; rw [h1.2]; exact hk o (by simp [ho])
      exact ih _ hs hk'

def intOf : GV → Option Int
  | .num (.int _ i) => some i
  | _ => none

/-- the hypothesis is needed: appending through the JavaScript object beyond capacity detaches it from the
    Go slice (Go slice semantics) – a later write is seen on one side only -/
example :
    ((sliceRun modelStore (SliceSt.init (.num (.i .int)) [.num (.int .int 1)] 1)
        [.jsWrite 1 (.num (.int .i64 2)), .jsWrite 0 (.num (.int .i64 9))]).1.view ⟨0, 1, 1⟩)[0]?.bind intOf = some 1 ∧
    ((sliceRun modelStore (SliceSt.init (.num (.i .int)) [.num (.int .int 1)] 1)
        [.jsWrite 1 (.num (.int .i64 2)), .jsWrite 0 (.num (.int .i64 9))]).1.view ⟨1, 2, 2⟩)[0]?.bind intOf = some 9 := by
  decide

/-! ### struct field lookup -/

theorem visible_eq (n : Str) : Spec.visible n = validGoStructName n := by
  cases n <;> rfl

theorem find_map_cons (i : Nat) (l : List (Str × List Nat)) (name : Str) :
    ((l.map (fun b => (b.1, i :: b.2))).find? (fun b => b.1 = name)).map (·.2) =
      ((l.find? (fun b => b.1 = name)).map (·.2)).map (i :: ·) := by
  rw [List.find?_map]
  simp [Function.comp_def, Option.map_map]

mutual
theorem lookupT (t : GT) (name : Str) :
    fieldIndexT t name = ((Spec.bindingsT t).find? (fun b => b.1 = name)).map (·.2) := by
  cases t with
  | struct fs => simp only [fieldIndexT, Spec.bindingsT]; exact lookupF fs 0 name
  | bool => simp [fieldIndexT, Spec.bindingsT]
  | num t => simp [fieldIndexT, Spec.bindingsT]
  | str => simp [fieldIndexT, Spec.bindingsT]
  | any => simp [fieldIndexT, Spec.bindingsT]
  | slice e => simp [fieldIndexT, Spec.bindingsT]
  | map e => simp [fieldIndexT, Spec.bindingsT]
  | ptr e => simp [fieldIndexT, Spec.bindingsT]
theorem lookupF (fs : Fields) (i : Nat) (name : Str) :
    fieldIndexF fs i name = ((Spec.bindingsF fs i).find? (fun b => b.1 = name)).map (·.2) := by
  cases fs with
  | nil => simp [fieldIndexF, Spec.bindingsF]
  | cons fname tag anon ty rest =>
    have ihr := lookupF rest (i+1) name
    have iht := lookupT ty name
    simp only [fieldIndexF, Spec.bindingsF, visible_eq]
    by_cases hv : validGoStructName fname = true
    · simp only [hv, Bool.not_true, Bool.false_eq_true, if_false]
      rw [List.find?_append, List.find?_append]
      cases anon with
      | false =>
        simp only [Bool.false_eq_true, if_false, List.find?_nil, Option.none_or]
        by_cases hd : tag = [45]
        · subst hd; simp [dash, ihr]
        · by_cases ht : tag = []
          · subst ht
            by_cases hn : fname = name
            · simp [dash, hn]
            · simp [dash, hn, ihr]
          · by_cases htn : tag = name
            · simp [dash, htn, show ¬ name = [45] from htn ▸ hd, show ¬ name = [] from htn ▸ ht]
            · by_cases hn : fname = name
              · simp [dash, hd, ht, htn, hn]
              · simp [dash, hd, ht, htn, hn, ihr]
      | true =>
        simp only [if_true]
        rw [iht]
        cases hfe : (Spec.bindingsT ty).find? (fun b => b.1 = name) with
        | some b =>
          have := find_map_cons i (Spec.bindingsT ty) name
          rw [hfe] at this
          cases hm : (List.map (fun b => (b.1, i :: b.2)) (Spec.bindingsT ty)).find? (fun b => b.1 = name) with
          | none => rw [hm] at this; simp at this
          | some c => rw [hm] at this; simp at this; simp [this]
        | none =>
          have := find_map_cons i (Spec.bindingsT ty) name
          rw [hfe] at this
          cases hm : (List.map (fun b => (b.1, i :: b.2)) (Spec.bindingsT ty)).find? (fun b => b.1 = name) with
          | some c => rw [hm] at this; simp at this
          | none =>
            simp only [Option.map_none, Option.none_or]
            by_cases hd : tag = [45]
            · subst hd; simp [dash, ihr]
            · by_cases ht : tag = []
              · subst ht
                by_cases hn : fname = name
                · simp [dash, hn]
                · simp [dash, hn, ihr]
              · by_cases htn : tag = name
                · simp [dash, htn, show ¬ name = [45] from htn ▸ hd, show ¬ name = [] from htn ▸ ht]
                · by_cases hn : fname = name
                  · simp [dash, hd, ht, htn, hn]
                  · simp [dash, hd, ht, htn, hn, ihr]
    · simp only [hv, Bool.not_false, if_true]
      simpa using ihr
end

/-- **C16.struct_lookup**: for every struct type description, `fieldIndexByName` resolves a property name to
    the first binding, in declaration order with embedded structs searched depth-first, among
    {json tag, Go field name} of the fields whose Go name starts with A-Z (unexported names are hidden; a
    `json:"-"` field contributes only its embedded bindings). -/
theorem struct_lookup (t : GT) (name : Str) : fieldIndexByName t name = Spec.fieldLookup t name := by
  simp only [fieldIndexByName, Spec.fieldLookup]
  exact lookupT t.base name

/-! ### kernel-checked witnesses: every remaining deviation region is inhabited and the model really deviates
    there; inputs of repaired regions now meet the property text -/

/-- 0.1 as a double -/
def d0_1 : FV := .fin false 7205759403792794 (-56)

-- call_f64_to_f32_rounds: f32fn(0.1) is rounded, the property demands RangeError
example : devNum (.f64 d0_1) .f32 = ["call_f64_to_f32_rounds"] ∧
    convertNumeric (.f64 d0_1) .f32 = .ok (.f32 (.fin false 13421773 (-27))) ∧
    Spec.convertNumeric (.f64 d0_1) .f32 = .rangeErr := by decide

-- call_int_to_float_rounds: f64fn(9007199254740993) receives 9007199254740992
example : devNum (.int .i64 9007199254740993) .f64 = ["call_int_to_float_rounds"] ∧
    convertNumeric (.int .i64 9007199254740993) .f64 = .ok (.f64 (.fin false 4503599627370496 1)) ∧
    Spec.convertNumeric (.int .i64 9007199254740993) .f64 = .rangeErr := by decide

-- repaired: u64fn(2^63) now receives 2^63
example : devNum (.f64 (.fin false 1 63)) (.i .u64) = [] ∧
    convertNumeric (.f64 (.fin false 1 63)) (.i .u64) = .ok (.int .u64 9223372036854775808) := by decide

/-- outcome class and integer payload of a result (GV has no decidable equality) -/
def resKind : Res GV → Nat × Option Int
  | .ok (.num (.int _ i)) => (0, some i)
  | .ok _ => (0, none)
  | .rangeErr => (1, none)
  | .typeErr => (2, none)
  | .goPanic => (3, none)

def intT : GT := .num (.i .int)

-- repaired: s[0] = -1.5, 1.5, NaN, 2^63 on []int are RangeErrors, as on the call path
example : resKind (toReflectValue (.num (.f64 (.fin true 3 (-1)))) intT) = (1, none) ∧
    resKind (toReflectValue (.num (.f64 (.fin false 3 (-1)))) intT) = (1, none) ∧
    resKind (toReflectValue (.num (.f64 .nan)) intT) = (1, none) ∧
    resKind (toReflectValue (.num (.f64 (.fin false 1 63))) intT) = (1, none) ∧
    resKind (Spec.convertCallParameter (.num (.f64 (.fin false 1 63))) intT) = (1, none) ∧
    devStore (.num (.f64 (.fin true 3 (-1)))) intT = [] := by decide

-- repaired: Infinity into []float32, 1.5 into []bool, undefined into []interface{} are stored
example : resKind (toReflectValue (.num (.f64 (.inf false))) (.num .f32)) = (0, none) ∧
    resKind (toReflectValue (.num (.f64 (.fin false 3 (-1)))) .bool) = (0, none) ∧
    resKind (toReflectValue .undef .any) = (0, none) := by decide

-- store_coerces_non_number: s[0] = true stores 1, the call path throws TypeError
example : devStore (.bool true) intT = ["store_coerces_non_number"] ∧
    resKind (toReflectValue (.bool true) intT) = (0, some 1) ∧
    resKind (Spec.convertCallParameter (.bool true) intT) = (2, none) := by decide

-- store_int_via_float_rounds: s[0] = 9007199254740993 on []int64 stores 9007199254740992
example : devStore (.num (.int .i64 9007199254740993)) (.num (.i .i64)) = ["store_int_via_float_rounds"] ∧
    resKind (toReflectValue (.num (.int .i64 9007199254740993)) (.num (.i .i64))) = (0, some 9007199254740992) ∧
    resKind (Spec.convertCallParameter (.num (.int .i64 9007199254740993)) (.num (.i .i64))) = (0, some 9007199254740993) := by decide

-- store_float_rounds: s[0] = 0.1 on []float32
example : devStore (.num (.f64 d0_1)) (.num .f32) = ["store_float_rounds"] ∧
    resKind (toReflectValue (.num (.f64 d0_1)) (.num .f32)) = (0, none) ∧
    resKind (Spec.convertCallParameter (.num (.f64 d0_1)) (.num .f32)) = (1, none) := by decide

-- repaired: intSliceFn([1,,3]) is a TypeError like intSliceFn([1,undefined,3]); ptrAnyFn(5) is delivered
example : devConv (.arr (.cons (.num (.int .i64 1)) (.hole .nil))) (.slice intT) = [] ∧
    resKind (convertCallParameter (.arr (.cons (.num (.int .i64 1)) (.hole .nil))) (.slice intT)) = (2, none) ∧
    resKind (convertCallParameter (.num (.int .i64 5)) (.ptr .any)) = (0, none) := by decide

-- non-vacuity of numeric_exact: ordinary calls meet its hypotheses
example : WF (.f64 (.fin false 5 0)) ∧ devNum (.f64 (.fin false 5 0)) (.i .i8) = [] ∧
    convertNumeric (.f64 (.fin false 5 0)) (.i .i8) = .ok (.int .i8 5) := by
  refine ⟨by simp [WF, WFf], by decide, by decide⟩

/-! ### call_exact: lifting numeric_exact through convertCallParameter -/

theorem addDev_ne_nil (ds : List String) (d : String) : addDev ds d ≠ [] := by
  unfold addDev
  split
  · rename_i h; intro hn; subst hn; simp at h
  · simp

theorem foldl_addDev_ne_nil (es : List String) : ∀ ds, ds ≠ [] → es.foldl addDev ds ≠ [] := by
  induction es with
  | nil => intro ds h; simpa using h
  | cons d r ih => intro ds _; simp only [List.foldl]; exact ih _ (addDev_ne_nil ds d)

theorem addDevs_nil (a b : List String) (h : addDevs a b = []) : a = [] ∧ b = [] := by
  unfold addDevs at h
  cases b with
  | nil => simp at h; exact ⟨h, rfl⟩
  | cons d r =>
    simp only [List.foldl] at h
    exact absurd h (foldl_addDev_ne_nil r _ (addDev_ne_nil a d))

mutual
/-- every number inside a JavaScript value is a well-formed Go payload -/
def WFV : JV → Prop
  | .num n => WF n
  | .arr es => WFVs es
  | .obj ps => WFPs ps
  | _ => True
def WFVs : JVs → Prop
  | .nil => True
  | .hole r => WFVs r
  | .cons v r => WFV v ∧ WFVs r
def WFPs : JPs → Prop
  | .nil => True
  | .cons _ v r => WFV v ∧ WFPs r
end

/-- the field-type function the driver's struct walk uses -/
def ftOf (st : GT) (k : Str) : GT :=
  match fieldIndexByName st k with
  | some p => (typeAt st p).getD .any
  | none => .any

mutual
theorem convB_exact (v : JV) (t : GT) (hw : WFV v) (hd : devConv v t = []) :
    convB modelLeaf v t.base = convB Spec.leaf v t.base := by
  unfold devConv at hd
  generalize t.base = b at hd ⊢
  cases b with
  | bool => unfold convB; rfl
  | ptr e => unfold convB; rfl
  | str => unfold convB; rfl
  | any => unfold convB; rfl
  | num nt =>
    unfold convB
    cases v with
    | num n =>
      simp only [WFV] at hw
      simp only at hd
      simp only [modelLeaf, Spec.leaf, numeric_exact n nt hw hd]
    | _ => rfl
  | slice tt =>
    unfold convB
    cases v with
    | arr es =>
      simp only [WFV] at hw
      simp only at hd
      dsimp only
      rw [convElems_exact es tt hw hd]
    | _ => rfl
  | map tt =>
    unfold convB
    cases v with
    | obj ps =>
      simp only [WFV] at hw
      simp only at hd
      dsimp only
      rw [convProps_exact ps tt hw hd]
    | arr es =>
      simp only [WFV] at hw
      simp only at hd
      dsimp only
      rw [convIndexed_exact es 0 tt hw hd]
    | _ => rfl
  | struct fs =>
    unfold convB
    cases v with
    | obj ps =>
      simp only [WFV] at hw
      simp only at hd
      exact convFields_exact ps (.struct fs) _ hw hd
    | _ => rfl
theorem conv_exact (v : JV) (t : GT) (hw : WFV v) (hd : devConv v t = []) :
    ptrWrap t v (convB modelLeaf v t.base) = ptrWrap t v (convB Spec.leaf v t.base) := by
  rw [convB_exact v t hw hd]
theorem convElems_exact (es : JVs) (tt : GT) (hw : WFVs es) (hd : devElems es tt = []) :
    convElems modelLeaf es tt = convElems Spec.leaf es tt := by
  cases es with
  | nil => unfold convElems; rfl
  | hole r =>
    unfold devElems at hd
    simp only [WFVs] at hw
    unfold convElems
    rw [convElems_exact r tt hw hd]
    rfl
  | cons v r =>
    unfold devElems at hd
    obtain ⟨h1, h2⟩ := addDevs_nil _ _ hd
    simp only [WFVs] at hw
    unfold convElems
    rw [conv_exact v tt hw.1 h1, convElems_exact r tt hw.2 h2]
theorem convIndexed_exact (es : JVs) (i : Nat) (tt : GT) (hw : WFVs es) (hd : devElems es tt = []) :
    convIndexed modelLeaf es i tt = convIndexed Spec.leaf es i tt := by
  cases es with
  | nil => unfold convIndexed; rfl
  | hole r =>
    unfold devElems at hd
    simp only [WFVs] at hw
    unfold convIndexed
    exact convIndexed_exact r (i+1) tt hw hd
  | cons v r =>
    unfold devElems at hd
    obtain ⟨h1, h2⟩ := addDevs_nil _ _ hd
    simp only [WFVs] at hw
    unfold convIndexed
    rw [conv_exact v tt hw.1 h1, convIndexed_exact r (i+1) tt hw.2 h2]
theorem convProps_exact (ps : JPs) (tt : GT) (hw : WFPs ps) (hd : devProps ps (fun _ => tt) = []) :
    convProps modelLeaf ps tt = convProps Spec.leaf ps tt := by
  cases ps with
  | nil => unfold convProps; rfl
  | cons k v r =>
    unfold devProps at hd
    obtain ⟨h1, h2⟩ := addDevs_nil _ _ hd
    simp only [WFPs] at hw
    unfold convProps
    rw [conv_exact v tt hw.1 h1, convProps_exact r tt hw.2 h2]
theorem convFields_exact (ps : JPs) (st : GT) (acc : GV) (hw : WFPs ps)
    (hd : devProps ps (fun k => match fieldIndexByName st k with
          | some p => (typeAt st p).getD .any
          | none => .any) = []) :
    convFields modelLeaf ps st acc = convFields Spec.leaf ps st acc := by
  cases ps with
  | nil => unfold convFields; rfl
  | cons k v r =>
    unfold devProps at hd
    obtain ⟨h1, h2⟩ := addDevs_nil _ _ hd
    simp only [WFPs] at hw
    unfold convFields
    cases hf : fieldIndexByName st k with
    | none => rfl
    | some idx =>
      simp only
      cases hta : typeAt st idx with
      | none => rfl
      | some ft =>
        simp only
        have h1' : devConv v ft = [] := by simpa [hf, hta] using h1
        rw [conv_exact v ft hw.1 h1']
        cases ptrWrap ft v (convB Spec.leaf v ft.base) with
        | ok a => simp only [Res.bind]; exact convFields_exact r st _ hw.2 h2
        | rangeErr => rfl
        | typeErr => rfl
        | goPanic => rfl
end

/-- **C16.call_exact.**  For every JavaScript argument value (arbitrarily nested arrays with holes and plain
    objects) and every Go parameter type of the family (scalars, slices, string-keyed maps, pointers, structs,
    interface{}), outside the listed call-path regions `convertCallParameter` builds exactly the Go value the
    property text demands or fails with exactly the error it demands: `numeric_exact` lifted element-wise. -/
theorem call_exact (v : JV) (t : GT) (hw : WFV v) (hd : devConv v t = []) :
    convertCallParameter v t = Spec.convertCallParameter v t := by
  unfold convertCallParameter Spec.convertCallParameter conv
  exact conv_exact v t hw hd

/-- all (argument, parameter type) pairs are well-formed and outside every call-path region -/
def CleanArgs : List JV → List GT → Prop
  | a :: as, t :: ts => WFV a ∧ devConv a t = [] ∧ CleanArgs as ts
  | _, _ => True

theorem convArgs_exact (args : List JV) : ∀ (ins : List GT), CleanArgs args ins →
    convArgs modelLeaf args ins = convArgs Spec.leaf args ins := by
  induction args with
  | nil => intro ins _; cases ins <;> simp [convArgs]
  | cons a as ih =>
    intro ins hc
    cases ins with
    | nil => simp [convArgs]
    | cons t ts =>
      obtain ⟨hw, hd, hrest⟩ := hc
      have := call_exact a t hw hd
      unfold convertCallParameter Spec.convertCallParameter at this
      simp only [convArgs, this, ih ts hrest]

/-- **C16.call_exact for whole calls** (fixed signatures): with every argument outside the listed regions the Go
    callee receives exactly the parameter list the property text demands, or the script gets exactly the error it
    demands, for every signature and every argument count. -/
theorem call_fixed_exact (ins : List GT) (args : List JV) (hc : CleanArgs args ins) :
    callWrapper modelLeaf ⟨ins, false⟩ args = callWrapper Spec.leaf ⟨ins, false⟩ args := by
  rw [arity_fixed, arity_fixed, convArgs_exact args ins hc]

-- non-vacuity: f([1, 2], {A: 3}) against func([]int8, struct{A int; B string `json:"bee"`})
example : CleanArgs
    [.arr (.cons (.num (.int .i64 1)) (.cons (.num (.int .i64 2)) .nil)), .obj (.cons [65] (.num (.int .i64 3)) .nil)]
    [.slice (.num (.i .i8)), .struct (.cons [65] [] false (.num (.i .int)) (.cons [66] [98, 101, 101] false .str .nil))] := by
  refine ⟨⟨⟨by decide, by decide⟩, ⟨by decide, by decide⟩, trivial⟩, by decide, ⟨⟨by decide, by decide⟩, trivial⟩, by decide, trivial⟩

/-! ### store path -/

theorem map_wrap0 (r : Res GV) : r.map (wrapPtr 0) = r := by
  cases r <;> simp [Res.map, Res.bind, wrapPtr]

/-- the spec conversion at a non-pointer type is the base conversion -/
theorem spec_conv_base (v : JV) (t : GT) (hd : t.depth = 0) :
    Spec.convertCallParameter v t = convB Spec.leaf v t.base := by
  unfold Spec.convertCallParameter conv ptrWrap
  simp [hd, map_wrap0]

/-- primitive JavaScript values whose number payload (if any) is not a float32 -/
def PrimNoF32 : JV → Prop
  | .arr _ | .obj _ => False
  | .num (.f32 _) => False
  | _ => True

/-- **C16.store_exact_partial** (bool / string / interface{} / float64 element types).  For every primitive value
    (float32 payloads excluded) a write into a bridged `[]bool`, `[]string`, `[]interface{}` or `[]float64`
    (same for maps and arrays) stores exactly what the checked call conversion delivers, outside the listed
    store regions.
    Full statement, NOT proved here: the same for every numeric element type, i.e.
    `∀ v t, WFV v → devStore v t = [] → toReflectValue v t = Spec.convertCallParameter v t`; the remaining cases
    (float64 → integer kinds through toIntegerFloat / number(), float64 → float32 range test) need order
    lemmas relating `F64.lt` to integer comparison and are covered by witnesses + correspondence only. -/
theorem store_exact_partial (v : JV) (t : GT) (hp : PrimNoF32 v)
    (ht : t = .bool ∨ t = .str ∨ t = .any ∨ t = .num .f64) (hdev : devStore v t = []) :
    toReflectValue v t = Spec.convertCallParameter v t := by
  rcases ht with rfl | rfl | rfl | rfl
  · -- bool
    rw [spec_conv_base _ _ rfl]
    cases v with
    | arr es => exact absurd hp (by simp [PrimNoF32])
    | obj ps => exact absurd hp (by simp [PrimNoF32])
    | num n =>
      cases n with
      | f32 x => exact absurd hp (by simp [PrimNoF32])
      | f64 x => unfold toReflectValue; simp [GT.base, convB]
      | int k i => unfold toReflectValue; simp [GT.base, convB]
    | undef => unfold toReflectValue; simp [GT.base, convB]
    | null => unfold toReflectValue; simp [GT.base, convB]
    | bool b => unfold toReflectValue; simp [GT.base, convB]
    | str s => unfold toReflectValue; simp [GT.base, convB]
  · -- string
    rw [spec_conv_base _ _ rfl]
    cases v with
    | arr es => exact absurd hp (by simp [PrimNoF32])
    | obj ps => exact absurd hp (by simp [PrimNoF32])
    | num n =>
      cases n with
      | f32 x => exact absurd hp (by simp [PrimNoF32])
      | f64 x => unfold toReflectValue; simp [GT.base, convB, jsToString, Spec.leaf]
      | int k i => unfold toReflectValue; simp [GT.base, convB, jsToString, Spec.leaf]
    | undef => unfold toReflectValue; simp [GT.base, convB, jsToString]
    | null => unfold toReflectValue; simp [GT.base, convB, jsToString]
    | bool b => unfold toReflectValue; simp [GT.base, convB, jsToString]
    | str s => unfold toReflectValue; simp [GT.base, convB, jsToString]
  · -- interface{}
    rw [spec_conv_base _ _ rfl]
    cases v with
    | arr es => exact absurd hp (by simp [PrimNoF32])
    | obj ps => exact absurd hp (by simp [PrimNoF32])
    | undef => unfold toReflectValue; simp [GT.base, convB, exportV, Res.map, Res.bind, asAny, Spec.leaf]
    | null => unfold toReflectValue; simp [GT.base, convB, exportV, Res.map, Res.bind, asAny, Spec.leaf]
    | num n => unfold toReflectValue; simp [GT.base, convB, exportV, Res.map, Res.bind, asAny, Spec.leaf]
    | bool b => unfold toReflectValue; simp [GT.base, convB, exportV, Res.map, Res.bind, asAny, Spec.leaf]
    | str s => unfold toReflectValue; simp [GT.base, convB, exportV, Res.map, Res.bind, asAny, Spec.leaf]
  · -- float64
    rw [spec_conv_base _ _ rfl]
    cases v with
    | arr es => exact absurd hp (by simp [PrimNoF32])
    | obj ps => exact absurd hp (by simp [PrimNoF32])
    | undef => simp [devStore] at hdev
    | null => simp [devStore] at hdev
    | bool b => simp [devStore] at hdev
    | str s => simp [devStore] at hdev
    | num n =>
      cases n with
      | f32 x => exact absurd hp (by simp [PrimNoF32])
      | f64 x => unfold toReflectValue; simp [toFloat, GT.base, convB, Spec.leaf, Spec.convertNumeric, Res.map, Res.bind]
      | int k i =>
        have hs : Spec.sameNumber (.int k i) (ofInt i) = true := by
          cases h : Spec.sameNumber (.int k i) (ofInt i)
          · simp [devStore, h] at hdev
          · rfl
        unfold toReflectValue; simp [toFloat, GT.base, convB, Spec.leaf, Spec.convertNumeric, Res.map, Res.bind, hs]

theorem ofInt_small' (i : Int) (h : i.natAbs < 2^53) : ofInt i = .fin (decide (i < 0)) i.natAbs 0 := by
  simp [ofInt, h]

theorem toIntegerFloat_int (s : Bool) (a : Nat) : toIntegerFloat (.fin s a 0) = .fin s a 0 := by
  unfold toIntegerFloat
  simp only [isInf, isNaN, Bool.false_eq_true, if_false]
  split <;> simp [floor, ceil, isIntegral]

theorem spec_small_int (pk k : IK) (i : Int) :
    Spec.convertCallParameter (.num (.int pk i)) (.num (.i k)) =
      if k.lo ≤ i ∧ i ≤ k.hi then .ok (.num (.int k i)) else .rangeErr := by
  rw [spec_conv_base _ _ rfl]
  simp only [GT.base, convB, Spec.leaf, Spec.convertNumeric, Spec.exactInt?]
  split <;> simp [Res.map, Res.bind]

/-- comparisons of a small integer double with ±2^63, 0 and 2^64 -/
theorem small_cmp (s : Bool) (a : Nat) (ha : a < 2^53) :
    lt (.fin s a 0) negTwo63 = false ∧ lt two63 (.fin s a 0) = false ∧ lt two64 (.fin s a 0) = false ∧
    le two63 (.fin s a 0) = false ∧ le (.fin s a 0) negTwo63 = false ∧
    lt (.fin s a 0) zero = decide (s = true ∧ a ≠ 0) ∧ le two64 (.fin s a 0) = false := by
  cases s <;> simp [lt, le, cmpReal, alignInt, negTwo63, two63, two64, zero]
  all_goals (repeat' constructor)
  all_goals (try omega)
  all_goals (repeat' split)
  all_goals (try omega)
  all_goals (try simp)
  all_goals (try omega)

theorem goInt64_small (s : Bool) (a : Nat) (ha : a < 2^53) :
    goInt64 (.fin s a 0) = if s then -(a : Int) else (a : Int) := by
  have ht : truncInt (.fin s a 0) = if s then -(a : Int) else (a : Int) := by simp [truncInt, truncAbs]
  simp only [goInt64, ht]
  cases s <;> simp <;> omega

theorem goUint64_small (a : Nat) (ha : a < 2^53) : goUint64 (.fin false a 0) = (a : Int) := by
  have h1 : truncAbs a 0 = a := by simp [truncAbs]
  unfold goUint64
  simp only [h1]
  split
  · rfl
  · rename_i h; exfalso; apply h
    calc (a : Int) < ((2^53 : Nat) : Int) := by exact_mod_cast ha
      _ ≤ 2^64 := by decide

theorem range_if (k : IK) (i : Int) (r : Res GV) :
    (if i < k.lo ∨ i > k.hi then Res.rangeErr else r) = if k.lo ≤ i ∧ i ≤ k.hi then r else Res.rangeErr := by
  by_cases h : k.lo ≤ i ∧ i ≤ k.hi
  · have : ¬ (i < k.lo ∨ i > k.hi) := by omega
    simp [h, this]
  · have : (i < k.lo ∨ i > k.hi) := by omega
    simp [h, this]

theorem lo64 : IK.i64.lo = -(2^63) ∧ IK.int.lo = -(2^63) ∧ IK.i64.hi = 2^63 - 1 ∧ IK.int.hi = 2^63 - 1 ∧
    IK.u64.lo = 0 ∧ IK.uint.lo = 0 ∧ IK.u64.hi = 2^64 - 1 ∧ IK.uint.hi = 2^64 - 1 := by decide

theorem signed_abs (i : Int) : (if decide (i < 0) = true then -(i.natAbs : Int) else (i.natAbs : Int)) = i := by
  by_cases h : i < 0 <;> simp [h] <;> omega

/-- **C16.store_exact_partial** (integers).  For every integer-kinded number below 2^53 in magnitude – every
    integer a script can denote exactly – and EVERY Go integer element type, a write into a bridged slice, array
    or map stores exactly that integer or throws RangeError (since fix bb377a4), whatever Go kind carries the
    number and whichever of the three internal routes (direct payload, Value.number(), toIntegerFloat) is taken. -/
theorem store_exact_small_int (pk k : IK) (i : Int) (hi : i.natAbs < 2^53) :
    toReflectValue (.num (.int pk i)) (.num (.i k)) = Spec.convertCallParameter (.num (.int pk i)) (.num (.i k)) := by
  rw [spec_small_int]
  have hof := ofInt_small' i hi
  obtain ⟨c1, c2, c3, c4, c5, c6, c7⟩ := small_cmp (decide (i < 0)) i.natAbs hi
  have hg := goInt64_small (decide (i < 0)) i.natAbs hi
  rw [signed_abs] at hg
  have hlo := lo_ge k
  have hhi := hi_le k
  -- the value Value.number().int64 yields, for every payload kind
  have hnum : numberInt64 (.num (.int pk i)) = some i := by
    unfold numberInt64
    have hv : (toFloat (.num (.int pk i))).map (fun f =>
        if isZero f then 0 else if isNaN f then 0 else if le two63 f then 2^63 - 1
        else if le f negTwo63 then -(2^63) else goInt64 f) = some i := by
      simp only [toFloat, Option.map, hof, c4, c5, hg, isNaN, Bool.false_eq_true, if_false]
      by_cases h0 : i = 0
      · subst h0; simp [isZero]
      · have : i.natAbs ≠ 0 := by omega
        cases hn : i.natAbs with
        | zero => omega
        | succ n => simp [isZero]
    have hle : i ≤ 2^63 - 1 := by omega
    cases pk <;> simp only [hv, hle, if_true]
  unfold toReflectValue
  simp only [Bool.false_eq_true, if_false]
  cases k <;> simp only [toFloat, hof, toIntegerFloat_int, c1, c2, c3, c4, c6, c7, hg, hnum, Bool.or_self, Bool.false_eq_true, if_false]
  case i8 => exact range_if _ _ _
  case i16 => exact range_if _ _ _
  case i32 => exact range_if _ _ _
  case u8 => exact range_if _ _ _
  case u16 => exact range_if _ _ _
  case u32 => exact range_if _ _ _
  case i64 =>
    have : IK.i64.lo ≤ i ∧ i ≤ IK.i64.hi := by rw [lo64.1, lo64.2.2.1]; omega
    rw [if_pos this]
  case int =>
    have : IK.int.lo ≤ i ∧ i ≤ IK.int.hi := by rw [lo64.2.1, lo64.2.2.2.1]; omega
    rw [if_pos this]
  case u64 =>
    rw [lo64.2.2.2.2.1, lo64.2.2.2.2.2.2.1]
    by_cases hn : i < 0
    · have h1 : ¬ (0 ≤ i ∧ i ≤ 2^64 - 1) := by omega
      have h2 : i.natAbs ≠ 0 := by omega
      simp [hn, h1, h2]
      omega
    · have h1 : (0 ≤ i ∧ i ≤ 2^64 - 1) := by omega
      have hu := goUint64_small i.natAbs hi
      have ha : (i.natAbs : Int) = i := by omega
      simp [hn, h1, hu, ha]
      omega
  case uint =>
    rw [lo64.2.2.2.2.2.1, lo64.2.2.2.2.2.2.2]
    by_cases hn : i < 0
    · have h1 : ¬ (0 ≤ i ∧ i ≤ 2^64 - 1) := by omega
      have h2 : i.natAbs ≠ 0 := by omega
      simp [hn, h1, h2]
      omega
    · have h1 : (0 ≤ i ∧ i ≤ 2^64 - 1) := by omega
      have hu := goUint64_small i.natAbs hi
      have ha : (i.natAbs : Int) = i := by omega
      simp [hn, h1, hu, ha]
      omega

/-! ### observers of bridged containers -/

theorem setEnt_lookup_isSome (p k : Str) (v : Int) (es : List (Str × Int)) :
    (lookupEnt p (setEnt k v es)).isSome = (lookupEnt p es).isSome := by
  induction es with
  | nil => rfl
  | cons e r ih =>
    obtain ⟨k', v'⟩ := e
    simp only [setEnt]
    by_cases h : k' = k
    · subst h
      simp only [if_true, lookupEnt]
      by_cases hp : k' = p <;> simp [hp]
    · simp only [h, if_false, lookupEnt]
      by_cases hp : k' = p
      · simp [hp]
      · simp [hp, ih]

/-- the regions-free condition: every probed array index exists -/
def ProbesInRange (s : VSt) (probes : List Str) : Prop :=
  s.kind.isSeq = true → ∀ p ∈ probes, isIndexKey p = true → (lookupEnt p s.ents).isSome = true

theorem getOwn_exact (s : VSt) (k : Str)
    (h : s.kind.isSeq = true → isIndexKey k = true → (lookupEnt k s.ents).isSome = true) :
    s.getOwn true k = s.getOwn false k := by
  unfold VSt.getOwn
  by_cases hs : s.kind.isSeq = true
  · simp only [hs, if_true]
    by_cases hl : k = sLength
    · simp [hl]
    · simp only [hl, if_false]
      cases hk : lookupEnt k s.ents with
      | some v => rfl
      | none =>
        by_cases hi : isIndexKey k = true
        · have := h hs hi; rw [hk] at this; simp at this
        · simp [hi]
  · simp [hs]

theorem observe_exact (s : VSt) (probes : List Str) (h : ProbesInRange s probes) :
    observe true s probes = observe false s probes := by
  have : ∀ p ∈ probes, s.getOwn true p = s.getOwn false p := by
    intro p hp
    exact getOwn_exact s p (fun hs hi => h hs p hp hi)
  simp only [observe]
  congr 1
  · exact List.map_congr_left (fun p hp => by rw [this p hp])
  · exact List.map_congr_left this

theorem viewStep_kind (s : VSt) (op : VOp) : (viewStep s op).kind = s.kind := by
  cases op <;> simp only [viewStep] <;> (repeat' split) <;> rfl

theorem viewStep_lookup (s : VSt) (op : VOp) (p : Str) (hs : s.kind.isSeq = true) :
    (lookupEnt p (viewStep s op).ents).isSome = (lookupEnt p s.ents).isSome := by
  cases hk : s.kind with
  | map => simp [hk, VKind.isSeq] at hs
  | struct => simp [hk, VKind.isSeq] at hs
  | slice => cases op <;> simp only [viewStep, hk] <;> (repeat' split) <;> simp [setEnt_lookup_isSome]
  | arrPtr => cases op <;> simp only [viewStep, hk] <;> (repeat' split) <;> simp [setEnt_lookup_isSome]
  | arrVal => cases op <;> simp only [viewStep, hk]

theorem step_preserves (s : VSt) (op : VOp) (probes : List Str) (h : ProbesInRange s probes) :
    ProbesInRange (viewStep s op) probes := by
  intro hs p hp hi
  rw [viewStep_kind] at hs
  rw [viewStep_lookup s op p hs]
  exact h hs p hp hi

/-- **C16.container_refines (observers).**  For every bridged slice, array, map or struct of the family, every
    history of JavaScript and Go writes and deletes, and every list of probed names whose array indices are
    in range, all key observers (`in`, hasOwnProperty, Object.keys, getOwnPropertyNames, for-in,
    getOwnPropertyDescriptor with value and attributes) report after EVERY step exactly the Go-side contents,
    as the property text demands.  Outside that hypothesis the code answers every array index with an own
    property (region `seq_out_of_range_index_reported_as_own_property`). -/
theorem view_exact (ops : List VOp) : ∀ (s : VSt) (probes : List Str), ProbesInRange s probes →
    viewRun true s probes ops = viewRun false s probes ops := by
  induction ops with
  | nil => intro s probes h; simp [viewRun, observe_exact s probes h]
  | cons op rest ih =>
    intro s probes h
    simp only [viewRun]
    rw [observe_exact s probes h, ih _ probes (step_preserves s op probes h)]

-- the region is inhabited: `9 in s` for a 1-element bridged slice
example : (observe true ⟨.slice, [([48], 1)], []⟩ [[57]]).has = [true] ∧
    (observe false ⟨.slice, [([48], 1)], []⟩ [[57]]).has = [false] := by decide

end OttoVerif.C16.Thm
