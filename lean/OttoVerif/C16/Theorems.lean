/-  C16/Theorems — the ledger for property C16 (every theorem here is audited).  Placeholder. -/
namespace OttoVerif.C16.Thm
end OttoVerif.C16.Thm
